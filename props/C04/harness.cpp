// C04 correspondence harness: one process, one SelectServer, a real OlaServer (no plugins, no HTTP)
// and N real OlaClient objects connected through PipeDescriptor pairs (OlaServer::NewConnection).
// The harness plays the role of the poller for the per-client descriptors: a schedule step
// `>,c` lets the server handle the head of client c's request channel (PerformRead of the
// server-side descriptor, or its close handler when the client has gone), `<,c` lets client c
// handle the head of its channel.  Time is virtual (clock_gettime(CLOCK_MONOTONIC) is wrapped).
#include <dirent.h>
#include <poll.h>
#include <sys/socket.h>
#include <time.h>
#include <algorithm>
#include <map>
#include <memory>
#include <set>
#include <string>
#include <vector>
#include "vh.h"
#define private public
#define protected public
#include "common/protocol/Ola.pb.h"
#include "common/protocol/OlaService.pb.h"
#include "common/rpc/RpcChannel.h"
#include "common/rpc/RpcController.h"
#include "common/rpc/RpcServer.h"
#include "ola/Callback.h"
#include "ola/Clock.h"
#include "ola/DmxBuffer.h"
#include "ola/Logging.h"
#include "ola/base/Flags.h"
#include "ola/client/OlaClient.h"
#include "ola/client/StreamingClient.h"
#include "ola/rdm/RDMCommand.h"
#include "ola/rdm/UID.h"
#include "ola/timecode/TimeCode.h"
#include "ola/timecode/TimeCodeEnums.h"
#include "ola/OlaClientCore.h"
#include "ola/io/Descriptor.h"
#include "ola/io/SelectServer.h"
#include "ola/network/IPV4Address.h"
#include "ola/network/SocketAddress.h"
#include "ola/network/TCPSocket.h"
#include "olad/ClientBroker.h"
#include "olad/OlaServer.h"
#include "olad/PluginLoader.h"
#include "olad/Preferences.h"
#include "olad/plugin_api/Client.h"
#include "olad/Universe.h"
#include "olad/plugin_api/UniverseStore.h"
#undef private
#undef protected

DECLARE_uint16(rpc_port);
DECLARE_bool(register_with_dns_sd);

using ola::client::OlaClient;
using ola::client::OlaClientCore;
using ola::client::Result;
using ola::client::DMXMetadata;
using ola::client::OlaUniverse;
using ola::client::SendDMXArgs;
using ola::io::PipeDescriptor;
using ola::DmxBuffer;
using std::string;
using std::vector;

// ---- virtual monotonic time (microseconds) -------------------------------------------------
static const unsigned long long T0 = 1000ULL * 1000000ULL;
static unsigned long long g_now = T0;
extern "C" int __real_clock_gettime(clockid_t id, struct timespec *ts);
extern "C" int __wrap_clock_gettime(clockid_t id, struct timespec *ts) {
  if (id == CLOCK_MONOTONIC) {
    ts->tv_sec = g_now / 1000000ULL;
    ts->tv_nsec = (g_now % 1000000ULL) * 1000ULL;
    return 0;
  }
  return __real_clock_gettime(id, ts);
}

// std::set / std::map iterator increments live in (uninstrumented) libstdc++; route them through
// an instrumented read of the node so that ASan sees an increment of an iterator whose node has
// been erased (e.g. Universe::UpdateDependants when a sink is removed under its feet).
extern "C" void *__real__ZSt18_Rb_tree_incrementPKSt18_Rb_tree_node_base(const void *n);
extern "C" void *__wrap__ZSt18_Rb_tree_incrementPKSt18_Rb_tree_node_base(const void *n) {
  volatile char probe = *reinterpret_cast<const volatile char*>(n);
  (void) probe;
  return __real__ZSt18_Rb_tree_incrementPKSt18_Rb_tree_node_base(n);
}
extern "C" void *__real__ZSt18_Rb_tree_incrementPSt18_Rb_tree_node_base(void *n);
extern "C" void *__wrap__ZSt18_Rb_tree_incrementPSt18_Rb_tree_node_base(void *n) {
  volatile char probe = *reinterpret_cast<volatile char*>(n);
  (void) probe;
  return __real__ZSt18_Rb_tree_incrementPSt18_Rb_tree_node_base(n);
}

class NullLoader : public ola::PluginLoader {
 public:
  std::vector<ola::AbstractPlugin*> LoadPlugins() { return std::vector<ola::AbstractPlugin*>(); }
  void UnloadPlugins() {}
};

static string tok(const string &s) {   // error text -> token without separators
  string o;
  for (size_t i = 0; i < s.size(); i++) {
    char c = s[i];
    o.push_back((isalnum(static_cast<unsigned char>(c))) ? c : '_');
  }
  return o;
}

static string dhash(const uint8_t *d, unsigned int n) {   // short form for the internal dump
  unsigned long long h = 7;
  for (unsigned int i = 0; i < n; i++) h = (h * 31 + d[i]) % 1000000007ULL;
  return "L" + vh::str(n) + "h" + vh::str(h);
}
static string dhash(const DmxBuffer &b) { return dhash(b.GetRaw(), b.Size()); }

struct World;
struct Cl {
  int idx;
  ola::io::ConnectedDescriptor *cd;   // client side (owned by us; NULL for a StreamingClient)
  ola::io::ConnectedDescriptor *sd;   // server side (owned by the RpcServer clean-up)
  OlaClient *client;
  ola::client::StreamingClient *sclient;   // ola/StreamingClient.cpp over loopback TCP (or NULL)
  int pending;                   // streamed messages written but not yet handled by the server
  bool tcp;                      // an OlaClient over a loopback TCP socket instead of a pipe
  bool ss_served;                // the daemon side stays registered with the real SelectServer (types T, L)
  bool connected;                // false for a late client (type L) until its C op
  bool stuck;                    // the SelectServer did not read what this client sent
  const ola::Client *srv_client; // server-side object (identity only)
  bool closed;                   // client called Stop()
  World *w;
};

struct World {
  vector<string> ev;             // events of the current step
  std::map<unsigned, unsigned> completions;
  unsigned next_rid;
  int flood_client;              // >= 0 while that client drains what a flood left in its socket
  unsigned flood_u, flood_p, flood_n, flood_bad;
  string flood_hex;
  std::set<int> close_handler_ran;
  vector<Cl*> cls;
  ola::io::SelectServer *ss;
  ola::OlaServer *server;
};

static void ev_set(World *w, int c, unsigned rid, const Result &r) {
  w->completions[rid]++;
  w->ev.push_back(vh::str(c) + "." + vh::str(rid) + (r.Success() ? string(".ok") : ".E:" + tok(r.Error())));
}
static void ev_fetch(World *w, int c, unsigned rid, const Result &r, const DMXMetadata &m,
                     const DmxBuffer &b) {
  w->completions[rid]++;
  w->ev.push_back(vh::str(c) + "." + vh::str(rid) + (r.Success() ? string(".ok") : ".E:" + tok(r.Error())) +
                  ":" + vh::str(m.universe) + ":" + vh::str(static_cast<unsigned>(m.priority)) + ":" +
                  vh::hex(b.GetRaw(), b.Size()));
}
static void ev_info(World *w, int c, unsigned rid, const Result &r, const OlaUniverse &u) {
  w->completions[rid]++;
  w->ev.push_back(vh::str(c) + "." + vh::str(rid) + (r.Success() ? string(".ok") : ".E:" + tok(r.Error())) +
                  ":" + vh::str(u.Id()) + ":" + vh::hex(u.Name()) + ":" +
                  (u.MergeMode() == OlaUniverse::MERGE_HTP ? "1" : "0"));
}
// every other request kind: only the completion status is observed
template <typename T>
static void ev_opq(World *w, int c, unsigned rid, const Result &r, const T&) { ev_set(w, c, rid, r); }

static void ev_rdm(World *w, int c, unsigned rid, const Result &r, const ola::client::RDMMetadata&,
                   const ola::rdm::RDMResponse*) { ev_set(w, c, rid, r); }

static void ev_closed(World *w, int c) { w->close_handler_ran.insert(c); }

static int count_fds() {
  int n = 0;
  DIR *d = opendir("/proc/self/fd");
  if (!d) return -1;
  while (readdir(d)) n++;
  closedir(d);
  return n;
}

// data (or, for TCP, data that is still on its way through the loopback) available on a descriptor
static bool avail(ola::io::ConnectedDescriptor *d, bool tcp) {
  if (d->DataRemaining() > 0) return true;
  if (!tcp) return false;
  struct pollfd pfd;
  pfd.fd = d->ReadDescriptor();
  pfd.events = POLLIN;
  if (poll(&pfd, 1, 2) <= 0) return false;
  return d->DataRemaining() > 0;
}
static bool at_eof(ola::io::ConnectedDescriptor *d) {
  struct pollfd pfd;
  pfd.fd = d->ReadDescriptor();
  pfd.events = POLLIN;
  if (poll(&pfd, 1, 200) <= 0) return false;
  char ch;
  return recv(d->ReadDescriptor(), &ch, 1, MSG_PEEK | MSG_DONTWAIT) == 0;
}

static void ev_dmx(World *w, int c, const DMXMetadata &m, const DmxBuffer &b) {
  if (w->flood_client == c) {
    w->flood_n++;
    if (m.universe != w->flood_u || m.priority != w->flood_p || vh::hex(b.GetRaw(), b.Size()) != w->flood_hex)
      w->flood_bad++;
    return;
  }
  w->ev.push_back(vh::str(c) + ".dmx:" + vh::str(m.universe) + ":" +
                  vh::str(static_cast<unsigned>(m.priority)) + ":" + vh::hex(b.GetRaw(), b.Size()));
}

static bool srv_alive(World *w, Cl *c) {
  return c->sd && w->server->m_rpc_server->m_connected_sockets.count(c->sd);
}

static void loop(World *w) { w->ss->RunOnce(ola::TimeInterval(0, 0)); }

// the server handles the head of client c's channel
// a client whose daemon-side descriptor is registered with the real SelectServer: the event loop
// itself reads (or notices the hang-up)
static string server_step_ss(World *w, Cl *c) {
  bool closing = c->closed;
  for (int k = 0; k < 3 && c->sd && w->server->m_rpc_server->m_connected_sockets.count(c->sd) &&
       (avail(c->sd, true) || c->closed); k++)
    loop(w);
  if (c->sd && w->server->m_rpc_server->m_connected_sockets.count(c->sd)) {
    if (avail(c->sd, true) || c->closed) c->stuck = true;     // the event loop never serviced it
  } else {
    c->sd = NULL;
  }
  return closing ? "c" : "m";
}

static string server_step(World *w, Cl *c, bool new_iteration = true) {
  if (c->ss_served) return server_step_ss(w, c);
  if (new_iteration) loop(w);               // wake-up time := now, pending callbacks
  if (!srv_alive(w, c)) { if (!new_iteration) loop(w); return "x"; }
  string r;
  if (c->sclient && c->pending > 0 && c->sd->DataRemaining() <= 0) {
    struct pollfd pfd;
    pfd.fd = c->sd->ReadDescriptor();
    pfd.events = POLLIN;
    poll(&pfd, 1, 2000);                    // loopback TCP: the bytes are on their way
  }
  if (avail(c->sd, c->tcp)) {
    c->sd->PerformRead();
    if (c->pending > 0) c->pending--;
    r = "m";
  } else if (c->closed) {
    ola::io::ConnectedDescriptor::OnCloseCallback *cb = c->sd->TransferOnClose();
    if (cb) cb->Run();
    r = "c";
  } else {
    r = "e";
  }
  loop(w);                                  // deferred channel clean-up
  if (!srv_alive(w, c)) c->sd = NULL;
  for (size_t i = 0; i < w->cls.size(); i++)
    if (w->cls[i]->sd && !srv_alive(w, w->cls[i])) w->cls[i]->sd = NULL;
  return r;
}

static string client_step(World *w, Cl *c) {
  if (c->closed) return "x";
  if (c->sclient) return "e";               // a StreamingClient never receives anything
  if (avail(c->cd, c->tcp)) {
    c->cd->PerformRead();
    return "m";
  }
  return "e";
}

static bool server_can(World *w, Cl *c) {
  return !c->stuck && srv_alive(w, c) && (avail(c->sd, c->tcp) || c->pending > 0 || c->closed);
}
static bool client_can(Cl *c) { return !c->closed && c->cd && avail(c->cd, c->tcp); }

static int cidx(World *w, const ola::Client *p) {
  for (size_t i = 0; i < w->cls.size(); i++)
    if (w->cls[i]->srv_client == p && srv_alive(w, w->cls[i])) return w->cls[i]->idx;
  return -1;
}

static string dump(World *w) {
  std::ostringstream o;
  ola::UniverseStore *st = w->server->m_universe_store.get();
  o << "U";
  for (ola::UniverseStore::UniverseMap::const_iterator it = st->m_universe_map.begin();
       it != st->m_universe_map.end(); ++it) {
    ola::Universe *u = it->second;
    o << "[" << it->first << "," << (u->m_merge_mode == ola::Universe::MERGE_HTP ? 1 : 0) << ","
      << dhash(reinterpret_cast<const uint8_t*>(u->m_universe_name.data()), u->m_universe_name.size())
      << "," << dhash(u->m_buffer) << ","
      << static_cast<unsigned>(u->m_active_priority) << ",s";
    vector<string> parts;
    for (ola::Universe::SourceClientMap::const_iterator s = u->m_source_clients.begin();
         s != u->m_source_clients.end(); ++s)
      parts.push_back(vh::str(cidx(w, s->first)) + (s->second ? "!" : ""));
    std::sort(parts.begin(), parts.end());
    for (size_t i = 0; i < parts.size(); i++) o << (i ? "+" : "") << parts[i];
    o << ",k";
    parts.clear();
    for (std::set<ola::Client*>::const_iterator s = u->m_sink_clients.begin();
         s != u->m_sink_clients.end(); ++s)
      parts.push_back(vh::str(cidx(w, *s)));
    std::sort(parts.begin(), parts.end());
    for (size_t i = 0; i < parts.size(); i++) o << (i ? "+" : "") << parts[i];
    o << "," << (st->m_deletion_candidates.count(u) ? "g" : "") << "]";
  }
  o << "C";
  for (size_t i = 0; i < w->cls.size(); i++) {
    Cl *c = w->cls[i];
    if (!srv_alive(w, c)) continue;
    o << "[" << c->idx;
    for (std::map<unsigned int, ola::DmxSource>::const_iterator d = c->srv_client->m_data_map.begin();
         d != c->srv_client->m_data_map.end(); ++d) {
      const ola::TimeStamp &ts = d->second.Timestamp();
      unsigned long long us = static_cast<unsigned long long>(ts.Seconds()) * 1000000ULL + ts.MicroSeconds();
      o << "," << d->first << ":" << dhash(d->second.Data()) << ":" << (us - T0) << ":"
        << static_cast<unsigned>(d->second.Priority());
    }
    o << "]";
  }
  return o.str();
}

// connect client i (its kind is types[i]) to the daemon
static string connect_client(World &w, ola::OlaServer *server, ola::io::SelectServer &ss, const string &types,
                             unsigned i, Cl *c) {

    c->idx = i;
    c->w = &w;
    c->closed = false;
    c->sclient = NULL;
    c->pending = 0;
    c->tcp = false;
    c->client = NULL;
    c->srv_client = NULL;
    std::set<const ola::Client*> before = server->m_broker->m_clients;
    c->ss_served = (types[i] == 'T' || types[i] == 'L');
    if (types[i] == 's' || types[i] == 't' || types[i] == 'T' || types[i] == 'L') {
      std::set<ola::io::ConnectedDescriptor*> socks_before = server->m_rpc_server->m_connected_sockets;
      uint16_t port = server->LocalRPCAddress().V4Addr().Port();
      c->cd = NULL;
      if (types[i] == 's') {
        ola::client::StreamingClient::Options sopt;
        sopt.auto_start = false;
        sopt.server_port = port;
        c->sclient = new ola::client::StreamingClient(sopt);
        if (!c->sclient->Setup()) return "streaming-setup=failed";
      } else {
        ola::network::TCPSocket *sock = ola::network::TCPSocket::Connect(
            ola::network::IPV4SocketAddress(ola::network::IPV4Address::Loopback(), port));
        if (!sock) return "tcp-connect=failed";
        sock->SetNoDelay();
        int small = 4096;                     // keep the amount a non-reading client can buffer small
        setsockopt(sock->ReadDescriptor(), SOL_SOCKET, SO_RCVBUF, &small, sizeof(small));
        c->cd = sock;
        c->tcp = true;
      }
      c->sd = NULL;
      for (int tries = 0; tries < 200 && !c->sd; tries++) {
        ss.RunOnce(ola::TimeInterval(0, 10000));       // accept the connection
        const std::set<ola::io::ConnectedDescriptor*> &now_socks = server->m_rpc_server->m_connected_sockets;
        for (std::set<ola::io::ConnectedDescriptor*>::const_iterator it = now_socks.begin(); it != now_socks.end(); ++it)
          if (!socks_before.count(*it)) c->sd = *it;
      }
      if (!c->sd) return "tcp-accept=failed";
      if (c->tcp) {
        int small = 4096;
        setsockopt(c->sd->WriteDescriptor(), SOL_SOCKET, SO_SNDBUF, &small, sizeof(small));
      }
    } else {
      PipeDescriptor *pd = new PipeDescriptor();
      pd->Init();
      c->cd = pd;
      c->sd = pd->OppositeEnd();
      server->NewConnection(c->sd);
    }
    if (!c->ss_served) ss.RemoveReadDescriptor(c->sd);   // the harness dispatches this descriptor itself
    for (std::set<const ola::Client*>::const_iterator it = server->m_broker->m_clients.begin();
         it != server->m_broker->m_clients.end(); ++it)
      if (!before.count(*it)) c->srv_client = *it;
    if (!c->sclient) {
      c->client = new OlaClient(c->cd);
      c->client->Setup();
      c->client->SetDMXCallback(ola::NewCallback(&ev_dmx, &w, static_cast<int>(i)));
      if (c->tcp) c->client->SetCloseHandler(ola::NewSingleCallback(&ev_closed, &w, static_cast<int>(i)));
    }
    c->connected = true;
  return "";
}

static volatile sig_atomic_t g_sigpipes = 0;
static void on_sigpipe(int) { g_sigpipes++; }

static string run_case_inner(const string &payload) {
  vector<string> ops = vh::split(payload, ' ');
  // The daemon is embedded here as a library: it must protect itself against SIGPIPE (writes to a
  // client that has closed its end).  Start every case from the default disposition so that
  // neither the test runner nor a previous case masks what OlaServer::Init() does.
  signal(SIGPIPE, SIG_DFL);
  g_sigpipes = 0;
  // "<n>" or "<n>:<k>": clients k..n-1 are ola::client::StreamingClient instances (TCP)
  vector<string> hdr = vh::split(ops[0], ':');
  unsigned ncl = vh::num(hdr[0]);
  // client types: p = OlaClient over a pipe, s = StreamingClient (TCP), t = OlaClient over TCP
  string types(ncl, 'p');
  if (hdr.size() > 1) {
    if (hdr[1].find_first_not_of("0123456789") == string::npos) {
      for (unsigned i = vh::num(hdr[1]); i < ncl; i++) types[i] = 's';
    } else {
      for (unsigned i = 0; i < ncl && i < hdr[1].size(); i++) types[i] = hdr[1][i];
    }
  }
  g_now = T0;
  FLAGS_rpc_port = 0;
  FLAGS_register_with_dns_sd = false;

  World w;
  w.next_rid = 0;
  w.flood_client = -1;
  w.flood_n = w.flood_bad = w.flood_u = w.flood_p = 0;
  ola::io::SelectServer ss;
  w.ss = &ss;
  NullLoader loader;
  vector<ola::PluginLoader*> loaders;
  loaders.push_back(&loader);
  ola::MemoryPreferencesFactory prefs;
  ola::OlaServer::Options opt;
  opt.http_enable = false;
  opt.http_localhost_only = true;
  opt.http_enable_quit = false;
  opt.http_port = 0;
  opt.pid_data_dir = "/nonexistent-c04";
  std::auto_ptr<ola::OlaServer> server(new ola::OlaServer(loaders, &prefs, &ss, opt, NULL, NULL));
  w.server = server.get();
  if (!server->Init()) return "init=failed";
  // observe only: if the daemon left SIGPIPE at its default, count deliveries instead of dying
  bool sigpipe_unprotected = false;
  {
    struct sigaction old_action;
    memset(&old_action, 0, sizeof(old_action));
    sigaction(SIGPIPE, NULL, &old_action);
    if (old_action.sa_handler != SIG_IGN) {
      sigpipe_unprotected = true;
      signal(SIGPIPE, on_sigpipe);
    }
  }
  loop(&w);

  for (unsigned i = 0; i < ncl; i++) {
    Cl *c = new Cl();
    c->idx = i;
    c->w = &w;
    c->closed = false;
    c->sclient = NULL;
    c->pending = 0;
    c->tcp = false;
    c->ss_served = false;
    c->connected = false;
    c->stuck = false;
    c->client = NULL;
    c->srv_client = NULL;
    c->cd = NULL;
    c->sd = NULL;
    w.cls.push_back(c);
    if (types[i] != 'L') {
      string err = connect_client(w, server.get(), ss, types, i, c);
      if (!err.empty()) return err;
    }
  }

  string obs, srv;
  for (size_t k = 1; k < ops.size(); k++) {
    if (ops[k].empty()) continue;
    vector<string> f = vh::split(ops[k], ',');
    const string &op = f[0];
    w.ev.clear();
    string tag;
    Cl *c = NULL;
    if (f.size() > 1 && op != "K" && op != "J") c = w.cls[vh::num(f[1]) % ncl];
    if (c && !c->connected && op != "C") return "op-on-unconnected-client=" + op;
    if (c && c->sclient && op != "T" && op != "D" && op != ">" && op != "}" && op != "<") {
      return "bad-op-for-streaming-client=" + op;
    }
    if (c && c->sclient && op == "T") {
      vector<uint8_t> d = vh::unhex(f[4]);
      DmxBuffer buf(d.data(), d.size());
      ola::client::StreamingClient::SendArgs sargs;
      sargs.priority = static_cast<uint8_t>(vh::num(f[3]));
      if (c->sclient->SendDMX(vh::num(f[2]), buf, sargs)) c->pending++;
    } else if (c && c->sclient && op == "D") {
      if (!c->closed) {
        c->sclient->Stop();
        c->closed = true;
      }
    } else if (op == "S" || op == "T") {
      unsigned u = vh::num(f[2]);
      vector<uint8_t> d = vh::unhex(f[4]);
      DmxBuffer buf(d.data(), d.size());
      SendDMXArgs args;
      args.priority = static_cast<uint8_t>(vh::num(f[3]));
      if (op == "S") {
        unsigned rid = w.next_rid++;
        w.completions[rid];
        args.callback = ola::NewSingleCallback(&ev_set, &w, c->idx, rid);
      }
      c->client->SendDMX(u, buf, args);
    } else if (op == "RS" || op == "RT") {
      // a client that builds the protobuf itself (any int32 priority / absent, any data length)
      OlaClientCore *core = c->client->m_core.get();
      ola::proto::DmxData request;
      request.set_universe(vh::num(f[2]));
      vector<uint8_t> d = vh::unhex(f[4]);
      request.set_data(string(reinterpret_cast<const char*>(d.data()), d.size()));
      if (f[3] != "n") request.set_priority(static_cast<int32_t>(vh::num(f[3])));
      if (op == "RS") {
        unsigned rid = w.next_rid++;
        w.completions[rid];
        ola::client::GeneralSetCallback *ucb = ola::NewSingleCallback(&ev_set, &w, c->idx, rid);
        ola::rpc::RpcController *controller = new ola::rpc::RpcController();
        ola::proto::Ack *reply = new ola::proto::Ack();
        if (core->m_connected) {
          core->m_stub->UpdateDmxData(controller, &request, reply,
              ola::NewSingleCallback(core, &OlaClientCore::HandleGeneralAck, controller, reply, ucb));
        } else {
          controller->SetFailed(OlaClientCore::NOT_CONNECTED_ERROR);
          core->HandleGeneralAck(controller, reply, ucb);
        }
      } else if (core->m_connected) {
        core->m_stub->StreamDmxData(NULL, &request, NULL, NULL);
      }
    } else if (op == "F") {
      unsigned rid = w.next_rid++;
      w.completions[rid];
      c->client->FetchDMX(vh::num(f[2]), ola::NewSingleCallback(&ev_fetch, &w, c->idx, rid));
    } else if (op == "G") {
      unsigned rid = w.next_rid++;
      w.completions[rid];
      c->client->RegisterUniverse(vh::num(f[2]), f[3] == "1" ? ola::client::REGISTER : ola::client::UNREGISTER,
                                  ola::NewSingleCallback(&ev_set, &w, c->idx, rid));
    } else if (op == "M") {
      unsigned rid = w.next_rid++;
      w.completions[rid];
      c->client->SetUniverseMergeMode(vh::num(f[2]), f[3] == "1" ? OlaUniverse::MERGE_HTP : OlaUniverse::MERGE_LTP,
                                      ola::NewSingleCallback(&ev_set, &w, c->idx, rid));
    } else if (op == "N") {
      unsigned rid = w.next_rid++;
      w.completions[rid];
      vector<uint8_t> nm = vh::unhex(f[3]);
      c->client->SetUniverseName(vh::num(f[2]), string(nm.begin(), nm.end()),
                                 ola::NewSingleCallback(&ev_set, &w, c->idx, rid));
    } else if (op == "I") {
      unsigned rid = w.next_rid++;
      w.completions[rid];
      c->client->FetchUniverseInfo(vh::num(f[2]), ola::NewSingleCallback(&ev_info, &w, c->idx, rid));
    } else if (op == "P") {
      unsigned rid = w.next_rid++;
      w.completions[rid];
      c->client->Patch(1, 0, ola::client::OUTPUT_PORT, ola::client::PATCH, vh::num(f[2]),
                       ola::NewSingleCallback(&ev_set, &w, c->idx, rid));
    } else if (op == "C") {
      // C,idx: a late client connects now (whatever descriptor numbers are free get reused)
      if (!c->connected) {
        string err = connect_client(w, server.get(), ss, types, c->idx, c);
        if (!err.empty()) return err;
      }
    } else if (op == "B") {
      // B,src,x,u,p,n,hex: back-pressure.  Client x (a registered sink over TCP) stops servicing its
      // socket while src streams n identical full frames, each handled by the daemon at once: the
      // socket buffers fill, a daemon-side write to x fails and the daemon drops x.  Then x resumes:
      // it reads what had been queued (checked against the flooded frame, reported once), sees the
      // end of the stream (its close handler must run) and stops.
      Cl *x = w.cls[vh::num(f[2]) % ncl];
      unsigned u = vh::num(f[3]), pr = vh::num(f[4]), n = vh::num(f[5]);
      vector<uint8_t> d = vh::unhex(f[6]);
      DmxBuffer buf(d.data(), d.size());
      for (unsigned i = 0; i < n; i++) {
        SendDMXArgs args;
        args.priority = static_cast<uint8_t>(pr);
        c->client->SendDMX(u, buf, args);
        server_step(&w, c);
        for (size_t y = 0; y < w.cls.size(); y++)       // everybody else keeps servicing its connection
          if (w.cls[y] != x)
            while (client_can(w.cls[y])) client_step(&w, w.cls[y]);
      }
      bool dropped = !srv_alive(&w, x);
      w.flood_client = x->idx;
      w.flood_u = u; w.flood_p = std::min(pr, 200u); w.flood_hex = vh::hex(buf.GetRaw(), buf.Size());
      w.flood_n = w.flood_bad = 0;
      unsigned guard = 0;
      while (!x->closed && avail(x->cd, true) && guard++ < 100000) x->cd->PerformRead();
      w.flood_client = -1;
      if (dropped && at_eof(x->cd)) {
        ola::io::ConnectedDescriptor::OnCloseCallback *cb = x->cd->TransferOnClose();
        if (cb) cb->Run();
      }
      if (!dropped) w.ev.push_back("no-fault");
      if (w.flood_n > 0 && w.flood_bad == 0)
        w.ev.push_back(vh::str(x->idx) + ".flood:" + vh::str(u) + ":" + vh::str(w.flood_p) + ":" + w.flood_hex);
      else
        w.ev.push_back(vh::str(x->idx) + ".floodBAD:" + vh::str(w.flood_n) + ":" + vh::str(w.flood_bad));
      if (w.close_handler_ran.count(x->idx)) w.ev.push_back(vh::str(x->idx) + ".closed");
      if (!x->closed) {
        x->client->Stop();
        x->closed = true;
      }
    } else if (op == "X") {
      // X,c,kind,arg: the other request kinds of the client API (opaque completions)
      unsigned rid = w.next_rid++;
      w.completions[rid];
      unsigned kind = vh::num(f[2]);
      unsigned arg = vh::num(f[3]);
      OlaClient *cl = c->client;
      int ci = c->idx;
      switch (kind) {
        case 0:
          cl->Patch(1, 0, ola::client::OUTPUT_PORT, ola::client::PATCH, arg, ola::NewSingleCallback(&ev_set, &w, ci, rid));
          break;
        case 1:
          cl->FetchPluginList(ola::NewSingleCallback(&ev_opq<std::vector<ola::client::OlaPlugin> >, &w, ci, rid));
          break;
        case 2:
          cl->FetchPluginDescription(ola::OLA_PLUGIN_DUMMY, ola::NewSingleCallback(&ev_opq<string>, &w, ci, rid));
          break;
        case 3:
          cl->FetchDeviceInfo(ola::OLA_PLUGIN_ALL, ola::NewSingleCallback(&ev_opq<std::vector<ola::client::OlaDevice> >, &w, ci, rid));
          break;
        case 4:
          cl->FetchCandidatePorts(arg, ola::NewSingleCallback(&ev_opq<std::vector<ola::client::OlaDevice> >, &w, ci, rid));
          break;
        case 5:
          cl->ConfigureDevice(1, string(arg, 'c'), ola::NewSingleCallback(&ev_opq<string>, &w, ci, rid));
          break;
        case 6:
          cl->SetPortPriorityInherit(1, 0, ola::client::OUTPUT_PORT, ola::NewSingleCallback(&ev_set, &w, ci, rid));
          break;
        case 7:
          cl->RunDiscovery(arg, ola::client::DISCOVERY_CACHED, ola::NewSingleCallback(&ev_opq<ola::rdm::UIDSet>, &w, ci, rid));
          break;
        case 8:
          cl->FetchUniverseList(ola::NewSingleCallback(&ev_opq<std::vector<OlaUniverse> >, &w, ci, rid));
          break;
        case 9:
          cl->FetchPluginState(ola::OLA_PLUGIN_DUMMY, ola::NewSingleCallback(&ev_opq<ola::client::PluginState>, &w, ci, rid));
          break;
        case 10:
          cl->SetSourceUID(ola::rdm::UID(0x7a70, arg), ola::NewSingleCallback(&ev_set, &w, ci, rid));
          break;
        case 11:
          cl->RunDiscovery(arg, ola::client::DISCOVERY_INCREMENTAL, ola::NewSingleCallback(&ev_opq<ola::rdm::UIDSet>, &w, ci, rid));
          break;
        case 12:
          cl->RunDiscovery(arg, ola::client::DISCOVERY_FULL, ola::NewSingleCallback(&ev_opq<ola::rdm::UIDSet>, &w, ci, rid));
          break;
        case 13: {
          ola::client::SendRDMArgs rargs(ola::NewSingleCallback(&ev_rdm, &w, ci, rid));
          cl->RDMGet(arg, ola::rdm::UID(0x7a70, 1), 0, 0x0060, NULL, 0, rargs);
          break;
        }
        case 14: {
          ola::client::SendRDMArgs rargs(ola::NewSingleCallback(&ev_rdm, &w, ci, rid));
          uint8_t on = 1;
          cl->RDMSet(arg, ola::rdm::UID(0x7a70, 1), 0, 0x1000, &on, 1, rargs);
          break;
        }
        case 15:
          cl->SendTimeCode(ola::timecode::TimeCode(ola::timecode::TIMECODE_EBU, 1, 2, 3, 4),
                           ola::NewSingleCallback(&ev_set, &w, ci, rid));
          break;
        case 16:
          cl->ReloadPlugins(ola::NewSingleCallback(&ev_set, &w, ci, rid));
          break;
        case 17:
          cl->SetPluginState(ola::OLA_PLUGIN_DUMMY, true, ola::NewSingleCallback(&ev_set, &w, ci, rid));
          break;
        default:
          return "bad-kind=" + f[2];
      }
    } else if (op == "D") {
      if (!c->closed) {
        c->client->Stop();
        c->closed = true;
      }
    } else if (op == "K") {
      g_now += vh::num(f[1]);
      loop(&w);
    } else if (op == "H") {
      loop(&w);
      server->RunHousekeeping();
    } else if (op == ">") {
      tag = server_step(&w, c);
    } else if (op == "}") {
      // dispatched in the same loop iteration as the previous descriptor: wake-up time not refreshed
      tag = server_step(&w, c, false);
    } else if (op == "J") {
      g_now += vh::num(f[1]);                // the clock moves on while the loop is busy
    } else if (op == "<") {
      tag = client_step(&w, c);
    } else if (op == "*") {
      bool progress = true;
      unsigned guard = 0;
      while (progress && guard++ < 10000) {
        progress = false;
        for (size_t i = 0; i < w.cls.size(); i++)
          while (server_can(&w, w.cls[i])) { server_step(&w, w.cls[i]); progress = true; }
        for (size_t i = 0; i < w.cls.size(); i++)
          while (client_can(w.cls[i])) { client_step(&w, w.cls[i]); progress = true; }
      }
    } else {
      return "bad-op=" + op;
    }
    string e = tag;
    for (size_t i = 0; i < w.ev.size(); i++) e += (e.empty() ? "" : "+") + w.ev[i];
    if (e.empty()) e = "-";
    obs += (k > 1 ? "/" : "") + e;
    srv += (k > 1 ? "/" : "") + dump(&w);
  }
  string cnt;
  bool once = true;
  for (std::map<unsigned, unsigned>::const_iterator it = w.completions.begin(); it != w.completions.end(); ++it) {
    cnt += (cnt.empty() ? "" : ",") + vh::str(it->second);
    if (it->second > 1) once = false;
  }
  if (cnt.empty()) cnt = "-";
  // tear down: clients first (closes the pipes), then the server
  for (size_t i = 0; i < w.cls.size(); i++) {
    Cl *c = w.cls[i];
    if (!c->closed && c->connected) { if (c->sclient) c->sclient->Stop(); else c->client->Stop(); }
    c->closed = true;
  }
  server.reset();
  for (size_t i = 0; i < w.cls.size(); i++) {
    delete w.cls[i]->client;
    delete w.cls[i]->sclient;
    delete w.cls[i]->cd;
    delete w.cls[i];
  }
  bool sigpipe = sigpipe_unprotected || g_sigpipes > 0;
  signal(SIGPIPE, SIG_IGN);
  return "obs=" + obs + ";cnt=" + cnt + ";once=" + (once ? "1" : "0") + ";sigpipe=" + (sigpipe ? "1" : "0") +
         ";srv=" + srv;
}

// file descriptors: whatever a case opened (pipes, sockets, the daemon's listening socket, the
// event loop's own descriptors) must be closed again once clients and daemon are gone
static string run_case(const string &payload) {
  int fds_before = count_fds();
  string r = run_case_inner(payload);
  int fdleak = count_fds() - fds_before;
  return r + ";fdleak=" + vh::str(fdleak);
}

int main(int argc, char **argv) {
  if (getenv("C04_LOG")) ola::InitLogging(ola::OLA_LOG_DEBUG, ola::OLA_LOG_STDERR);
  else ola::InitLogging(ola::OLA_LOG_NONE, ola::OLA_LOG_NULL);
  return vh::run(argc, argv, run_case, 30);
}
