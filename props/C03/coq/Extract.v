From Coq Require Extraction.
From Coq Require Import ExtrOcamlBasic.
From OlaBase Require Import Bytes.
From C03 Require Import Gen Model Model2 Model3 Model4 Model5.
Extraction Language OCaml.
Extraction "model.ml" io_witness N.div_eucl init step run deref port_unum u_active sfind mem xinit xstep xrun sib_view yinit ystep yrun zinit zstep zrun route winit wstep wrun.
