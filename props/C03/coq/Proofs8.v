(* C03 wave 8 — DeleteAll (with no port patched) preserves every invariant; histories with settings
   operations and DeleteAll never dereference a deleted universe. *)
From OlaBase Require Import Bytes.
From C03 Require Import Gen Model Lemmas Proofs Proofs2 Model2 Proofs3 Proofs4 Model3 Proofs5 Proofs6 Model4 Proofs7 Model5.
Local Open Scope N_scope.

Lemma any_patched_false c s :
  Inv c s -> any_patched c s = false -> forall p, s_puniv s p = None.
Proof.
  intros I H p. destruct (s_puniv s p) as [o|] eqn:E; [|reflexivity]. exfalso.
  destruct (inv_pok _ _ I p o E) as (_ & pc & Hc).
  assert (In p (N_seq (length (c_ports c)))) as Hin.
  { unfold N_seq. apply in_map_iff. exists (N.to_nat p). split; [apply N2Nat.id|].
    apply in_seq. unfold port_cfg in Hc.
    assert (nth_error (c_ports c) (N.to_nat p) <> None) as Hn by congruence.
    apply nth_error_Some in Hn. lia. }
  unfold any_patched in H.
  assert (existsb (fun p0 => match s_puniv s p0 with Some _ => true | None => false end)
                  (N_seq (length (c_ports c))) = true) as Ht.
  { apply existsb_exists. exists p. split; [exact Hin | rewrite E; reflexivity]. }
  congruence.
Qed.

Lemma delete_all_inv c s : Inv c s -> (forall p, s_puniv s p = None) -> Inv c (delete_all_state s).
Proof.
  intros I Hn. pose proof (inv_wf _ _ I) as W.
  assert (forall o u, s_heap (delete_all_state s) o <> Live u) as NoLive.
  { intros o u. cbn. destruct (s_heap s o); discriminate. }
  constructor; cbn [s_puniv s_pprio s_pdead delete_all_state].
  - constructor; cbn [s_heap s_store s_cand s_next delete_all_state].
    + intros o u q inp H. exfalso. exact (NoLive o u H).
    + intros o u inp H. exfalso. exact (NoLive o u H).
    + intros n o. cbn. split; [discriminate | intros (u & H & _); exfalso; exact (NoLive o u H)].
    + intros o [].
    + constructor.
    + intros o u H. exfalso. exact (NoLive o u H).
    + intros o H. rewrite (wf_next _ _ _ _ W o H). reflexivity.
  - intros p o H. rewrite Hn in H. discriminate.
  - intros p o H. rewrite Hn in H. discriminate.
  - exact (inv_prio _ _ I).
  - intros p q pcp pcq dc o _ _ _ _ _ H. rewrite Hn in H. discriminate.
Qed.

Definition WInv (zc : zcfg) (w : wstate) : Prop := ZInv zc (w_z w).

Lemma settle_z st st' w z' : w_z (settle st st' w z') = z'.
Proof. reflexivity. Qed.

Lemma wstep_inv zc w o :
  WInv zc w -> exists w' r, wstep zc w o = WOk w' r /\ WInv zc w'.
Proof.
  intros ZI. destruct o as [zo | | n v | n b]; cbn [wstep].
  - destruct (zstep_inv zc (w_z w) zo ZI) as (z' & r & E & ZI' & _). rewrite E.
    eexists _, r. split; [reflexivity|]. unfold WInv. rewrite settle_z. exact ZI'.
  - destruct (any_patched (xc_cfg (zc_xc zc)) (zbase (w_z w))) eqn:Ea.
    { exists w, RUnit. split; [reflexivity | exact ZI]. }
    eexists _, _. split; [reflexivity|]. unfold WInv. rewrite settle_z.
    destruct ZI as ((I & B) & T).
    pose proof (any_patched_false _ _ I Ea) as Hn.
    split; [split|].
    + cbn. apply delete_all_inv; assumption.
    + cbn. exact B.
    + intros a uid q [].
  - destruct (sfind n (s_store (zbase (w_z w)))); eexists _, _; (split; [reflexivity | exact ZI]).
  - destruct (sfind n (s_store (zbase (w_z w)))); eexists _, _; (split; [reflexivity | exact ZI]).
Qed.

Lemma wrun_inv zc ops : forall w, WInv zc w -> exists w', wrun zc w ops = Some w' /\ WInv zc w'.
Proof.
  induction ops as [|o r IH]; intros w WI; cbn; [eauto|].
  destruct (wstep_inv zc w o WI) as (w' & res & E & WI'). rewrite E. apply IH. exact WI'.
Qed.

(* ---------- the statements of Properties.v *)
Lemma c03w_inv_l : forall (zc : zcfg) (ops : list wop),
  exists w s, wrun zc (winit zc) ops = Some w /\ s = zbase (w_z w) /\
  (forall o u p, s_heap s o = Live u -> (listed u p <-> s_puniv s p = Some o)) /\
  (forall p o, s_puniv s p = Some o -> exists u, s_heap s o = Live u /\ listed u p) /\
  (forall p, s_pprio s p <= 200) /\
  (forall n o, sfind n (s_store s) = Some o <-> exists u, s_heap s o = Live u /\ u_num u = n) /\
  (forall o u, s_heap s o = Live u -> u_active u = false -> In o (s_cand s)) /\
  (forall o, In o (s_cand s) -> exists u, s_heap s o = Live u) /\
  (forall a uid q, route (w_z w) a uid = Some q -> s_puniv s q = Some a).
Proof.
  intros zc ops. destruct (wrun_inv zc ops (winit zc) (zinit_inv zc)) as (w & E & ((I & B) & T)).
  exists w, (zbase (w_z w)). split; [exact E|]. split; [reflexivity|].
  destruct (inv_explicit _ _ I) as (X1 & _ & _ & X4 & _ & _ & _ & X8 & X9 & X10 & X11 & _).
  repeat (split; [assumption|]).
  intros a uid q Hr. unfold route in Hr.
  destruct (find (fun e => fst e =? uid) (z_uids (w_z w) a)) as [(uid2 & q2)|] eqn:Ef; [|discriminate].
  injection Hr as <-. apply find_some in Ef. destruct Ef as (Hin & _). exact (T a uid2 q2 Hin).
Qed.

(* DeleteAll with no port patched: every universe is deleted and its settings saved once; the queue is
   emptied with the map, so a later collection has nothing stale to touch *)
Lemma c03w_delete_all_l : forall (zc : zcfg) (ops : list wop) (w : wstate),
  wrun zc (winit zc) ops = Some w -> any_patched (xc_cfg (zc_xc zc)) (zbase (w_z w)) = false ->
  exists w', wstep zc w WDeleteAll = WOk w' (RSaved (map fst (s_store (zbase (w_z w))))) /\
    s_store (zbase (w_z w')) = [] /\ s_cand (zbase (w_z w')) = [] /\
    (forall o u, s_heap (zbase (w_z w')) o <> Live u) /\
    (forall n a, sfind n (s_store (zbase (w_z w))) = Some a ->
       In (n, a) (s_store (zbase (w_z w)))) /\
    exists w2 l, wstep zc w' (WZ (ZY (YX (XBase GC)))) = WOk w2 (RSaved l) /\ l = [].
Proof.
  intros zc ops w H Ha. cbn [wstep]. rewrite Ha. eexists. split; [reflexivity|].
  rewrite settle_z. cbn [zbase z_y y_x x_s set_xs]. split; [reflexivity|]. split; [reflexivity|].
  split; [intros o u; cbn; destruct (s_heap (zbase (w_z w)) o); discriminate|].
  split.
  { intros n a. generalize (s_store (zbase (w_z w))). induction l as [|(k & v) r IH]; cbn; [discriminate|].
    destruct (N.eqb_spec k n) as [->|Ne]; [intros E; injection E as ->; left; reflexivity|].
    intros E. right. exact (IH E). }
  cbn [wstep zstep ystep xstep step]. unfold gc. cbn [zbase z_y y_x x_s set_xs s_cand delete_all_state gc_loop].
  cbn. eexists _, _. split; reflexivity.
Qed.
