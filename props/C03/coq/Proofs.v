(* C03 — the invariant and its preservation by every operation. *)
From OlaBase Require Import Bytes.
From C03 Require Import Gen Model Lemmas.
Local Open Scope N_scope.

Record Inv (c : cfg) (s : state) : Prop := {
  inv_wf : Wf c s (s_puniv s) None;
  inv_plive : forall p o, s_puniv s p = Some o -> exists u, s_heap s o = Live u;
  inv_pok : forall p o, s_puniv s p = Some o ->
            s_pdead s p = false /\ exists pc, port_cfg c p = Some pc;
  inv_prio : forall p, s_pprio s p <= 200;
  inv_policy : forall p q pcp pcq dc o, p <> q ->
      port_cfg c p = Some pcp -> port_cfg c q = Some pcq ->
      pc_dev pcp = pc_dev pcq -> dev_cfg c (pc_dev pcp) = Some dc ->
      s_puniv s p = Some o -> s_puniv s q = Some o ->
      (pc_in pcp <> pc_in pcq -> dc_loop dc = true) /\ (pc_in pcp = pc_in pcq -> dc_multi dc = true) }.

Definition on_universe (s : state) (p n : N) : Prop :=
  exists o u, s_puniv s p = Some o /\ s_heap s o = Live u /\ u_num u = n.

Lemma init_inv c : Inv c (init c).
Proof.
  constructor; cbn.
  - constructor; cbn.
    + intros o u q inp H. discriminate.
    + intros o u inp H. discriminate.
    + intros m o. split; [discriminate | intros (u & H & _); discriminate].
    + intros o [].
    + constructor.
    + intros o u H. discriminate.
    + reflexivity.
  - intros p o H. discriminate.
  - intros p o H. discriminate.
  - intros p. unfold SOURCE_PRIORITY_DEFAULT. lia.
  - intros p q pcp pcq dc o _ _ _ _ _ H. discriminate.
Qed.

Lemma Wf_set_puniv c s f ex g : Wf c s f ex -> Wf c (set_puniv s g) f ex.
Proof. intros W. destruct W. constructor; assumption. Qed.
Lemma Wf_set_pprio c s f ex g : Wf c s f ex -> Wf c (set_pprio s g) f ex.
Proof. intros W. destruct W. constructor; assumption. Qed.
Lemma Wf_set_pinh c s f ex g : Wf c s f ex -> Wf c (set_pinh s g) f ex.
Proof. intros W. destruct W. constructor; assumption. Qed.
Lemma Wf_set_pdead c s f ex g : Wf c s f ex -> Wf c (set_pdead s g) f ex.
Proof. intros W. destruct W. constructor; assumption. Qed.

Lemma Wf_close_active c s f o u :
  Wf c s f (Some o) -> s_heap s o = Live u -> u_active u = true -> Wf c s f None.
Proof.
  intros W Ho Ha. destruct W. constructor; try assumption.
  intros o2 u2 H1 H2. destruct (wf_inactive o2 u2 H1 H2) as [H|H]; [left; exact H|].
  injection H as <-. congruence.
Qed.

Lemma wf_set_active c s f ex o u u' :
  Wf c s f ex -> (ex = None \/ ex = Some o) -> s_heap s o = Live u ->
  u_num u' = u_num u -> u_in u' = u_in u -> u_out u' = u_out u -> u_active u' = true ->
  Wf c (set_heap s (upd (s_heap s) o (Live u'))) f None.
Proof.
  intros W Hex Ho En Ei Eo Ha.
  assert (forall inp, uni_ports inp u' = uni_ports inp u) as Ep by (intros [|]; cbn; assumption).
  eapply (wf_upd_cell c s _ f f ex None o u u' W Ho En).
  - intros x. reflexivity.
  - reflexivity.
  - reflexivity.
  - apply cand_ok_refl.
  - intros q inp. rewrite Ep. exact (wf_list _ _ _ _ W o u q inp Ho).
  - intros inp. rewrite Ep. exact (wf_nodup _ _ _ _ W o u inp Ho).
  - tauto.
  - congruence.
  - intros x H. left. destruct Hex as [E|E]; congruence.
Qed.

(* ---------- the device checks never dereference a dead universe and decide what they claim *)
Lemma check_match_spec s ps n :
  (forall p o, s_puniv s p = Some o -> exists u, s_heap s o = Live u) ->
  exists b, check_match s ps n = Some b /\
    (b = false -> forall q o u, In q ps -> s_puniv s q = Some o -> s_heap s o = Live u -> u_num u <> n).
Proof.
  intros Hl. induction ps as [|q r IH]; cbn.
  - exists false. split; [reflexivity | intros _ q o u []].
  - destruct IH as (b & Hb & Hs).
    destruct (s_puniv s q) as [o|] eqn:Eq.
    + destruct (Hl q o Eq) as (u & Hu). unfold deref. rewrite Hu.
      destruct (N.eqb_spec (u_num u) n) as [E|E].
      * exists true. split; [reflexivity | discriminate].
      * exists b. split; [exact Hb|]. intros Hf q2 o2 u2 [<-|Hin] H1 H2.
        -- congruence.
        -- exact (Hs Hf q2 o2 u2 Hin H1 H2).
    + exists b. split; [exact Hb|]. intros Hf q2 o2 u2 [<-|Hin] H1 H2.
      * congruence.
      * exact (Hs Hf q2 o2 u2 Hin H1 H2).
Qed.

Lemma dev_ports_In c s d inp q pc :
  port_cfg c q = Some pc -> s_pdead s q = false -> pc_dev pc = d -> pc_in pc = inp ->
  In q (dev_ports c s d inp).
Proof.
  intros Hc Hd Ed Ei. unfold dev_ports. apply filter_In. split.
  - unfold N_seq. apply in_map_iff. exists (N.to_nat q). split; [apply N2Nat.id|].
    apply in_seq. unfold port_cfg in Hc.
    assert (nth_error (c_ports c) (N.to_nat q) <> None) as H by congruence.
    apply nth_error_Some in H. lia.
  - unfold port_of. rewrite Hd, Hc, Ed, Ei, N.eqb_refl. cbn. apply Bool.eqb_reflx.
Qed.

Lemma device_refuses_spec c s pc n :
  (forall p o, s_puniv s p = Some o -> exists u, s_heap s o = Live u) ->
  exists b, device_refuses c s pc n = Some b /\
    (b = false -> forall dc, dev_cfg c (pc_dev pc) = Some dc ->
       forall q pcq o u, port_cfg c q = Some pcq -> s_pdead s q = false -> pc_dev pcq = pc_dev pc ->
         s_puniv s q = Some o -> s_heap s o = Live u -> u_num u = n ->
         (pc_in pcq <> pc_in pc -> dc_loop dc = true) /\ (pc_in pcq = pc_in pc -> dc_multi dc = true)).
Proof.
  intros Hl. unfold device_refuses. destruct (dev_cfg c (pc_dev pc)) as [dc|] eqn:Ed.
  2:{ exists false. split; [reflexivity | intros _ dc H; discriminate]. }
  destruct (check_match_spec s (dev_ports c s (pc_dev pc) (negb (pc_in pc))) n Hl) as (b1 & H1 & S1).
  destruct (check_match_spec s (dev_ports c s (pc_dev pc) (pc_in pc)) n Hl) as (b2 & H2 & S2).
  assert (forall q pcq o u, port_cfg c q = Some pcq -> s_pdead s q = false -> pc_dev pcq = pc_dev pc ->
            s_puniv s q = Some o -> s_heap s o = Live u -> u_num u = n ->
            (pc_in pcq <> pc_in pc -> b1 = true) /\ (pc_in pcq = pc_in pc -> b2 = true)) as Key.
  { intros q pcq o u Hc Hd Edv Hp Hh Hn. split; intros Hdir.
    - destruct b1; [reflexivity|]. exfalso.
      refine (S1 eq_refl q o u _ Hp Hh Hn).
      apply (dev_ports_In c s _ _ q pcq Hc Hd Edv). destruct (pc_in pcq), (pc_in pc); cbn; congruence.
    - destruct b2; [reflexivity|]. exfalso.
      refine (S2 eq_refl q o u _ Hp Hh Hn).
      apply (dev_ports_In c s _ _ q pcq Hc Hd Edv). exact Hdir. }
  destruct (dc_loop dc) eqn:El.
  - destruct (dc_multi dc) eqn:Em.
    + exists false. split; [reflexivity|]. intros _ dc' E. injection E as <-.
      intros. rewrite El, Em. split; reflexivity.
    + rewrite H2. exists b2. split; [reflexivity|]. intros -> dc' E. injection E as <-.
      intros q pcq o u Hc Hd Edv Hp Hh Hn. rewrite El. split; [reflexivity|].
      intros Hdir. destruct (Key q pcq o u Hc Hd Edv Hp Hh Hn) as [_ K]. specialize (K Hdir). discriminate.
  - rewrite H1. destruct b1.
    + exists true. split; [reflexivity | discriminate].
    + destruct (dc_multi dc) eqn:Em.
      * exists false. split; [reflexivity|]. intros _ dc' E. injection E as <-.
        intros q pcq o u Hc Hd Edv Hp Hh Hn. rewrite Em. split; [|reflexivity].
        intros Hdir. destruct (Key q pcq o u Hc Hd Edv Hp Hh Hn) as [K _]. specialize (K Hdir). discriminate.
      * rewrite H2. exists b2. split; [reflexivity|]. intros -> dc' E. injection E as <-.
        intros q pcq o u Hc Hd Edv Hp Hh Hn.
        destruct (Key q pcq o u Hc Hd Edv Hp Hh Hn) as [K1 K2].
        split; intros Hdir; [specialize (K1 Hdir) | specialize (K2 Hdir)]; discriminate.
Qed.

(* ---------- removing a port from its universe (GenericUnPatchPort, GenericDeletePort) *)
Lemma unpatch_core c s q pc :
  Inv c s -> port_cfg c q = Some pc ->
  exists s1, (match s_puniv s q with
              | None => Some s
              | Some o => uni_remove_port (pc_in pc) q o s end) = Some s1 /\
             Inv c (set_puniv s1 (upd (s_puniv s1) q None)) /\ keeps_live s s1 /\ same_ports s s1.
Proof.
  intros I Hc.
  assert (exists s1, (match s_puniv s q with
              | None => Some s
              | Some o => uni_remove_port (pc_in pc) q o s end) = Some s1 /\
             Wf c s1 (upd (s_puniv s) q None) None /\ keeps_live s s1 /\ same_ports s s1) as
    (s1 & E & W1 & K & SP).
  { destruct (s_puniv s q) as [o|] eqn:Eq.
    - destruct (inv_plive _ _ I q o Eq) as (u & Hu).
      destruct (remove_port_wf c s (s_puniv s) None (pc_in pc) q o u (inv_wf _ _ I) Hu Eq) as (s1 & A & B & C & D).
      { exists pc. tauto. }
      exists s1. tauto.
    - exists s. split; [reflexivity|]. split; [|split; [apply keeps_live_refl | apply same_ports_refl]].
      apply (Wf_ext c s (s_puniv s)); [|exact (inv_wf _ _ I)].
      intros x. destruct (N.eq_dec x q) as [->|Ne]; [rewrite upd_eq; exact Eq | rewrite upd_neq by exact Ne; reflexivity]. }
  exists s1. split; [exact E|]. split; [|tauto].
  destruct SP as (P1 & P2 & P3 & P4).
  constructor; cbn.
  - apply Wf_set_puniv. rewrite P1. exact W1.
  - intros p o H. destruct (N.eq_dec p q) as [->|Ne]; [rewrite upd_eq in H; discriminate|].
    rewrite upd_neq in H by exact Ne. rewrite P1 in H.
    destruct (inv_plive _ _ I p o H) as (u & Hu). destruct (K o u Hu) as (u' & A & _). eauto.
  - intros p o H. destruct (N.eq_dec p q) as [->|Ne]; [rewrite upd_eq in H; discriminate|].
    rewrite upd_neq in H by exact Ne. rewrite P1 in H. rewrite P4. exact (inv_pok _ _ I p o H).
  - intros p. rewrite P2. exact (inv_prio _ _ I p).
  - intros p r pcp pcq dc o Npq Hp Hr Ed Edc H1 H2.
    destruct (N.eq_dec p q) as [->|Ne1]; [rewrite upd_eq in H1; discriminate|].
    destruct (N.eq_dec r q) as [->|Ne2]; [rewrite upd_eq in H2; discriminate|].
    rewrite upd_neq in H1, H2 by assumption. rewrite P1 in H1, H2.
    exact (inv_policy _ _ I p r pcp pcq dc o Npq Hp Hr Ed Edc H1 H2).
Qed.

Lemma Inv_set_dead c s q :
  Inv c s -> s_puniv s q = None -> Inv c (set_pdead s (upd (s_pdead s) q true)).
Proof.
  intros I Hq. destruct I. constructor; cbn; try assumption.
  - apply Wf_set_pdead. exact inv_wf0.
  - intros p o H. destruct (N.eq_dec p q) as [->|Ne]; [congruence|].
    rewrite upd_neq by exact Ne. exact (inv_pok0 p o H).
Qed.

(* ---------- patch *)
Lemma patch_v_inv vt c s p n :
  Inv c s ->
  exists s' b, patch_v vt c s p n = Ok s' (RBool b) /\
               ((b = false -> s_puniv s' = s_puniv s) /\
                (forall q, q <> p -> s_puniv s' q = s_puniv s q) /\ s_pdead s' = s_pdead s) /\
               Inv c s' /\ keeps_live s s' /\
               (b = true <-> on_universe s' p n).
Proof.
  intros I. unfold patch_v.
  destruct (port_of c s p) as [pc|] eqn:Epo.
  2:{ exists s, false. split; [reflexivity|]. split; [split; [intros H; first [discriminate | reflexivity] | split; [intros q _; reflexivity | reflexivity]]|]. split; [exact I|]. split; [apply keeps_live_refl|].
      split; [discriminate|]. intros (o & u & H & _). exfalso.
      destruct (inv_pok _ _ I p o H) as (Hd & pc & Hc). unfold port_of in Epo. rewrite Hd, Hc in Epo. discriminate. }
  assert (s_pdead s p = false /\ port_cfg c p = Some pc) as (Hdead & Hcfg).
  { unfold port_of in Epo. destruct (s_pdead s p); [discriminate | tauto]. }
  (* the port's current universe, if any, is live *)
  assert (exists cur, (match s_puniv s p with
                       | None => Some false
                       | Some o => match deref s o with None => None | Some u => Some (u_num u =? n) end
                       end) = Some cur /\
                      (cur = true -> on_universe s p n) /\ (cur = false -> ~ on_universe s p n)) as (cur & Ecur & Ct & Cf).
  { destruct (s_puniv s p) as [o|] eqn:Eq.
    - destruct (inv_plive _ _ I p o Eq) as (u & Hu). unfold deref. rewrite Hu.
      exists (u_num u =? n). split; [reflexivity|]. split.
      + intros H. apply N.eqb_eq in H. exists o, u. tauto.
      + intros H (o2 & u2 & A & B & C). apply N.eqb_neq in H. congruence.
    - exists false. split; [reflexivity|]. split; [discriminate|].
      intros _ (o2 & u2 & A & _). congruence. }
  rewrite Ecur. destruct cur.
  { exists s, true. split; [reflexivity|]. split; [split; [intros H; first [discriminate | reflexivity] | split; [intros q _; reflexivity | reflexivity]]|]. split; [exact I|]. split; [apply keeps_live_refl|]. tauto. }
  specialize (Cf eq_refl). clear Ct Ecur.
  destruct (device_refuses_spec c s pc n (inv_plive _ _ I)) as (rb & Erb & Srb). rewrite Erb.
  destruct rb.
  { exists s, false. split; [reflexivity|]. split; [split; [intros H; first [discriminate | reflexivity] | split; [intros q _; reflexivity | reflexivity]]|]. split; [exact I|]. split; [apply keeps_live_refl|].
    split; [discriminate | intros H; contradiction]. }
  specialize (Srb eq_refl).
  destruct (get_or_create n s) as [o' s1] eqn:Eg.
  destruct (goc_wf c s (s_puniv s) n o' s1 (inv_wf _ _ I) (inv_plive _ _ I) Eg)
    as (W1 & (u' & Hu' & Nu') & (P1 & P2 & P3 & P4) & K1 & Hpres).
  match goal with |- context[if ?a then _ else _] => destruct a end.
  - (* accepted *)
    set (s2 := set_puniv s1 (upd (s_puniv s1) p (Some o'))).
    assert (Wf c s2 (s_puniv s) (Some o')) as W2 by (apply Wf_set_puniv; exact W1).
    assert (exists s3, (match s_puniv s p with
                        | None => Some s2
                        | Some o => uni_remove_port (pc_in pc) p o s2 end) = Some s3 /\
                       Wf c s3 (upd (s_puniv s) p None) (Some o') /\ keeps_live s2 s3 /\ same_ports s2 s3)
      as (s3 & E3 & W3 & K3 & SP3).
    { destruct (s_puniv s p) as [o|] eqn:Eq.
      - destruct (inv_plive _ _ I p o Eq) as (u & Hu). destruct (K1 o u Hu) as (u1 & Hu1 & _).
        destruct (remove_port_wf c s2 (s_puniv s) (Some o') (pc_in pc) p o u1 W2 Hu1 Eq) as (s3 & A & B & C & D).
        { exists pc. tauto. }
        exists s3. tauto.
      - exists s2. split; [reflexivity|]. split; [|split; [apply keeps_live_refl | apply same_ports_refl]].
        apply (Wf_ext c s2 (s_puniv s)); [|exact W2].
        intros x. destruct (N.eq_dec x p) as [->|Ne]; [rewrite upd_eq; exact Eq | rewrite upd_neq by exact Ne; reflexivity]. }
    rewrite E3.
    destruct (K3 o' u' Hu') as (u3 & Hu3 & Nu3 & _).
    destruct (add_port_wf c s3 (upd (s_puniv s) p None) (Some o') (pc_in pc) p o' u3 W3
                (or_intror eq_refl) Hu3 (upd_eq _ _ _)) as (s4 & E4 & W4 & SP4 & K4).
    { exists pc. tauto. }
    rewrite E4.
    destruct SP3 as (Q1 & Q2 & Q3 & Q4). destruct SP4 as (R1 & R2 & R3 & R4).
    assert (s_puniv s4 = upd (s_puniv s) p (Some o')) as Epu.
    { rewrite R1, Q1. unfold s2. cbn. rewrite P1. reflexivity. }
    destruct (K4 o' u3 Hu3) as (u4 & Hu4 & Nu4 & _).
    assert (keeps_live s s4) as K04.
    { apply (keeps_live_trans s s1); [exact K1|]. apply (keeps_live_trans s1 s3); [exact K3 | exact K4]. }
    exists s4, true. split; [reflexivity|].
    split; [split; [discriminate | split; [intros q Hq; rewrite Epu; apply upd_neq; exact Hq | rewrite R4, Q4; unfold s2; cbn; exact P4]]|].
    split; [|split; [exact K04|]].
    + constructor.
      * rewrite Epu. apply (Wf_ext c s4 (upd (upd (s_puniv s) p None) p (Some o'))); [|exact W4].
        intros x. unfold upd. destruct (x =? p); reflexivity.
      * intros q o H. rewrite Epu in H. destruct (N.eq_dec q p) as [->|Ne].
        -- rewrite upd_eq in H. injection H as <-. eauto.
        -- rewrite upd_neq in H by exact Ne. destruct (inv_plive _ _ I q o H) as (u & Hu).
           destruct (K04 o u Hu) as (ux & A & _). eauto.
      * intros q o H. rewrite Epu in H. rewrite R4, Q4. unfold s2. cbn. rewrite P4.
        destruct (N.eq_dec q p) as [->|Ne]; [split; [exact Hdead | eauto]|].
        rewrite upd_neq in H by exact Ne. exact (inv_pok _ _ I q o H).
      * intros q. rewrite R2, Q2. unfold s2. cbn. rewrite P2. exact (inv_prio _ _ I q).
      * (* policies: any other port on o' was seen by the device checks *)
        assert (forall q pcq dc, q <> p -> port_cfg c q = Some pcq -> pc_dev pcq = pc_dev pc ->
                  dev_cfg c (pc_dev pc) = Some dc -> s_puniv s q = Some o' ->
                  (pc_in pcq <> pc_in pc -> dc_loop dc = true) /\ (pc_in pcq = pc_in pc -> dc_multi dc = true)) as Pol.
        { intros q pcq dc Nq Hq Edv Edc Hqo.
          destruct (inv_plive _ _ I q o' Hqo) as (uq & Huq).
          assert (u_num uq = n) as Nq'. { rewrite (Hpres o' uq Huq) in Hu'. congruence. }
          destruct (inv_pok _ _ I q o' Hqo) as (Hdq & _).
          exact (Srb dc Edc q pcq o' uq Hq Hdq Edv Hqo Huq Nq'). }
        intros a b pca pcb dc o Nab Ha Hb Edv Edc H1 H2. rewrite Epu in H1, H2.
        destruct (N.eq_dec a p) as [->|Na]; destruct (N.eq_dec b p) as [->|Nb].
        -- contradiction.
        -- rewrite upd_eq in H1. injection H1 as <-. rewrite upd_neq in H2 by exact Nb.
           assert (pca = pc) as -> by congruence.
           destruct (Pol b pcb dc Nb Hb (eq_sym Edv) Edc H2) as (A & B).
           split; intros Hd; [apply A | apply B]; congruence.
        -- rewrite upd_eq in H2. injection H2 as <-. rewrite upd_neq in H1 by exact Na.
           assert (pcb = pc) as -> by congruence.
           rewrite Edv in Edc.
           exact (Pol a pca dc Na Ha Edv Edc H1).
        -- rewrite upd_neq in H1, H2 by assumption.
           exact (inv_policy _ _ I a b pca pcb dc o Nab Ha Hb Edv Edc H1 H2).
    + split; [intros _ | reflexivity]. exists o', u4. rewrite Epu, upd_eq. split; [reflexivity|]. split; [exact Hu4 | congruence].
  - (* vetoed: nothing changes for the port *)
    unfold deref. rewrite Hu'.
    destruct (cand_if_inactive_fields o' u' s1) as (F1 & F2 & F3 & F4 & F5 & F6 & F7).
    assert (keeps_live s (cand_if_inactive o' u' s1)) as K.
    { intros x u H. rewrite F5. exact (K1 x u H). }
    exists (cand_if_inactive o' u' s1), false. split; [reflexivity|].
    split; [split; [intros _; rewrite F1, P1; reflexivity | split; [intros q _; rewrite F1, P1; reflexivity | rewrite F4, P4; reflexivity]]|].
    split; [|split; [exact K|]].
    + constructor.
      * rewrite F1, P1. apply cand_close_wf; assumption.
      * intros q o H. rewrite F1, P1 in H. destruct (inv_plive _ _ I q o H) as (u & Hu).
        destruct (K o u Hu) as (ux & A & _). eauto.
      * intros q o H. rewrite F1, P1 in H. rewrite F4, P4. exact (inv_pok _ _ I q o H).
      * intros q. rewrite F2, P2. exact (inv_prio _ _ I q).
      * intros a b pca pcb dc o Nab Ha Hb Edv Edc H1 H2. rewrite F1, P1 in H1, H2.
        exact (inv_policy _ _ I a b pca pcb dc o Nab Ha Hb Edv Edc H1 H2).
    + split; [discriminate|]. intros (o & u & A & B & C). exfalso. apply Cf.
      rewrite F1, P1 in A. rewrite F5 in B.
      destruct (inv_plive _ _ I p o A) as (u0 & Hu0).
      exists o, u0. split; [exact A|]. split; [exact Hu0|].
      rewrite (Hpres o u0 Hu0) in B. congruence.
Qed.

Lemma patch_inv c s p n :
  Inv c s ->
  exists s' b, patch c s p n = Ok s' (RBool b) /\ Inv c s' /\ keeps_live s s' /\
               (b = true <-> on_universe s' p n).
Proof.
  intros I. destruct (patch_v_inv (fun pc => veto pc n) c s p n I) as (s' & b & E & _ & R).
  exists s', b. split; [exact E | exact R].
Qed.

(* ---------- unpatch *)
Lemma unpatch_v_inv vt c s p :
  Inv c s -> exists s' b, unpatch_v vt c s p = Ok s' (RBool b) /\ Inv c s' /\ keeps_live s s' /\
    (forall q, q <> p -> s_puniv s' q = s_puniv s q) /\
    (b = true -> s_puniv s' p = None) /\ (b = false -> s_puniv s' = s_puniv s) /\
    s_pdead s' = s_pdead s.
Proof.
  intros I. unfold unpatch_v. destruct (port_of c s p) as [pc|] eqn:Epo.
  2:{ exists s, false. split; [reflexivity|]. split; [exact I|]. split; [apply keeps_live_refl|].
      split; [reflexivity|]. split; [discriminate|]. split; reflexivity. }
  assert (port_cfg c p = Some pc) as Hcfg.
  { unfold port_of in Epo. destruct (s_pdead s p); [discriminate | exact Epo]. }
  destruct (unpatch_core c s p pc I Hcfg) as (s1 & E & I1 & K & (P1 & P2 & P3 & P4)).
  destruct (s_puniv s p) as [o|] eqn:Eq.
  - destruct (vt pc).
    { exists s, false. split; [reflexivity|]. split; [exact I|]. split; [apply keeps_live_refl|].
      split; [reflexivity|]. split; [discriminate|]. split; reflexivity. }
    rewrite E. eexists _, true. split; [reflexivity|]. split; [exact I1|].
    split; [intros x u H; cbn; exact (K x u H)|].
    split; [intros q Hq; cbn; rewrite upd_neq by exact Hq; rewrite P1; reflexivity|].
    split; [intros _; cbn; apply upd_eq|]. split; [discriminate | exact P4].
  - exists s, true. split; [reflexivity|]. split; [exact I|]. split; [apply keeps_live_refl|].
    split; [reflexivity|]. split; [intros _; exact Eq|]. split; [discriminate | reflexivity].
Qed.

Lemma unpatch_inv c s p :
  Inv c s -> exists s' b, unpatch c s p = Ok s' (RBool b) /\ Inv c s' /\ keeps_live s s'.
Proof.
  intros I. destruct (unpatch_v_inv (fun _ => false) c s p I) as (s' & b & E & I' & K & _).
  exists s', b. tauto.
Qed.

(* ---------- priorities *)
Lemma Inv_set_pinh c s g : Inv c s -> Inv c (set_pinh s g).
Proof. intros I. destruct I. constructor; cbn; try assumption. apply Wf_set_pinh. exact inv_wf0. Qed.
Lemma Inv_set_pprio c s p v : Inv c s -> v <= 200 -> Inv c (set_pprio s (upd (s_pprio s) p v)).
Proof.
  intros I Hv. destruct I. constructor; cbn; try assumption.
  - apply Wf_set_pprio. exact inv_wf0.
  - intros q. unfold upd. destruct (q =? p); [exact Hv | apply inv_prio0].
Qed.

Lemma prio_static_inv c s p v :
  Inv c s -> exists s' r, prio_static c s p v = Ok s' r /\ Inv c s' /\ s_heap s' = s_heap s.
Proof.
  intros I. unfold prio_static. destruct (port_of c s p) as [pc|].
  2:{ exists s, RUnit. tauto. }
  assert (forall s1, Inv c s1 -> s_heap s1 = s_heap s ->
    exists s' r,
      (let v0 := u8 v in
       let v' := if SOURCE_PRIORITY_MAX <? v0 then SOURCE_PRIORITY_MAX else v0 in
       if s_pprio s1 p =? v' then Ok s1 (RBool true)
       else if SOURCE_PRIORITY_MAX <? v' then Ok s1 (RBool true)
       else Ok (set_pprio s1 (upd (s_pprio s1) p v')) (RBool true)) = Ok s' r /\ Inv c s' /\ s_heap s' = s_heap s) as Tail.
  { intros s1 I1 Hh. cbn zeta.
    destruct (s_pprio s1 p =? _); [eexists _, _; split; [reflexivity | tauto]|].
    destruct (SOURCE_PRIORITY_MAX <? (if SOURCE_PRIORITY_MAX <? u8 v then SOURCE_PRIORITY_MAX else u8 v)) eqn:E2;
      [eexists _, _; split; [reflexivity | tauto]|].
    eexists _, _. split; [reflexivity|]. split; [|exact Hh].
    apply Inv_set_pprio; [exact I1|]. apply N.ltb_ge in E2. unfold SOURCE_PRIORITY_MAX in E2. exact E2. }
  destruct (pc_cap pc).
  - exists s, (RBool true). tauto.
  - apply Tail; [exact I | reflexivity].
  - destruct (s_pinh s p); apply Tail; try exact I; try reflexivity. apply Inv_set_pinh. exact I.
Qed.

Lemma prio_inherit_inv c s p :
  Inv c s -> exists s' r, prio_inherit c s p = Ok s' r /\ Inv c s' /\ s_heap s' = s_heap s.
Proof.
  intros I. unfold prio_inherit. destruct (port_of c s p) as [pc|]; [|exists s, RUnit; tauto].
  destruct (pc_cap pc); try (exists s, (RBool true); tauto).
  destruct (s_pinh s p); [exists s, (RBool true); tauto|].
  eexists _, _. split; [reflexivity|]. split; [apply Inv_set_pinh; exact I | reflexivity].
Qed.

(* ---------- clients *)
Lemma Inv_heap_step c s s' :
  Inv c s -> Wf c s' (s_puniv s) None -> same_ports s s' -> keeps_num s s' -> Inv c s'.
Proof.
  intros I W (P1 & P2 & P3 & P4) K. constructor.
  - rewrite P1. exact W.
  - intros q o H. rewrite P1 in H. destruct (inv_plive _ _ I q o H) as (u & Hu).
    destruct (K o u Hu) as (ux & A & _). eauto.
  - intros q o H. rewrite P1 in H. rewrite P4. exact (inv_pok _ _ I q o H).
  - intros q. rewrite P2. exact (inv_prio _ _ I q).
  - intros a b pca pcb dc o Nab Ha Hb Edv Edc H1 H2. rewrite P1 in H1, H2.
    exact (inv_policy _ _ I a b pca pcb dc o Nab Ha Hb Edv Edc H1 H2).
Qed.

Lemma keeps_live_upd s o u u' :
  s_heap s o = Live u -> u_num u' = u_num u -> incl (u_src u) (u_src u') ->
  keeps_live s (set_heap s (upd (s_heap s) o (Live u'))).
Proof.
  intros Ho En Hi x ux H. cbn. destruct (N.eq_dec x o) as [->|Ne].
  - rewrite upd_eq. exists u'. split; [reflexivity|]. replace ux with u by congruence. tauto.
  - rewrite upd_neq by exact Ne. exists ux. split; [exact H|]. split; [reflexivity | apply incl_refl].
Qed.

Lemma keeps_num_upd s o u u' :
  s_heap s o = Live u -> u_num u' = u_num u -> keeps_num s (set_heap s (upd (s_heap s) o (Live u'))).
Proof.
  intros Ho En x ux H. cbn. destruct (N.eq_dec x o) as [->|Ne].
  - rewrite upd_eq. exists u'. split; [reflexivity | congruence].
  - rewrite upd_neq by exact Ne. eauto.
Qed.

Lemma sink_add_inv c s n cl :
  Inv c s -> exists s' r, sink_add s n cl = Ok s' r /\ Inv c s' /\ keeps_live s s'.
Proof.
  intros I. unfold sink_add. destruct (get_or_create n s) as [o s1] eqn:Eg.
  destruct (goc_wf c s (s_puniv s) n o s1 (inv_wf _ _ I) (inv_plive _ _ I) Eg)
    as (W1 & (u & Hu & Nu) & SP & K1 & Hpres).
  unfold deref. rewrite Hu. destruct (mem cl (u_sink u)) eqn:Em.
  - exists s1, (RBool false). split; [reflexivity|]. split; [|exact K1].
    apply (Inv_heap_step c s s1 I); [|exact SP | exact (keeps_live_num _ _ K1)].
    apply (Wf_close_active c s1 _ o u W1 Hu).
    unfold u_active. apply mem_In in Em. destruct (u_sink u); [destruct Em|].
    cbn. rewrite !andb_false_r. reflexivity.
  - eexists _, _. split; [reflexivity|].
    assert (keeps_live s1 (set_heap s1 (upd (s_heap s1) o (Live (uni_set_sink u (cl :: u_sink u)))))) as K2
      by (apply (keeps_live_upd s1 o u); [exact Hu | reflexivity | apply incl_refl]).
    split; [|exact (keeps_live_trans _ _ _ K1 K2)].
    apply (Inv_heap_step c s _ I).
    + apply (wf_set_active c s1 _ (Some o) o u); try reflexivity; try assumption; [right; reflexivity|].
      unfold u_active. cbn. rewrite !andb_false_r. reflexivity.
    + destruct SP as (A & B & C & D). repeat split; assumption.
    + exact (keeps_live_num _ _ (keeps_live_trans _ _ _ K1 K2)).
Qed.

Lemma store_live c s n o : Inv c s -> sfind n (s_store s) = Some o -> exists u, s_heap s o = Live u /\ u_num u = n.
Proof. intros I H. apply (wf_store _ _ _ _ (inv_wf _ _ I)). exact H. Qed.

Lemma sink_rem_inv c s n cl :
  Inv c s -> exists s' r, sink_rem s n cl = Ok s' r /\ Inv c s' /\ keeps_live s s'.
Proof.
  intros I. unfold sink_rem. destruct (sfind n (s_store s)) as [o|] eqn:Ef.
  2:{ exists s, RUnit. split; [reflexivity|]. split; [exact I | apply keeps_live_refl]. }
  destruct (store_live c s n o I Ef) as (u & Hu & Nu). unfold deref. rewrite Hu.
  destruct (mem cl (u_sink u)).
  2:{ exists s, (RBool false). split; [reflexivity|]. split; [exact I | apply keeps_live_refl]. }
  set (u' := uni_set_sink u (remove_first cl (u_sink u))).
  set (s1 := set_heap s (upd (s_heap s) o (Live u'))).
  destruct (cand_if_inactive_fields o u' s1) as (F1 & F2 & F3 & F4 & F5 & F6 & F7).
  assert (keeps_live s (cand_if_inactive o u' s1)) as K.
  { intros x ux H. rewrite F5. exact (keeps_live_upd s o u u' Hu eq_refl (incl_refl _) x ux H). }
  eexists _, _. split; [reflexivity|]. split; [|exact K].
  apply (Inv_heap_step c s _ I); [|repeat split; assumption | exact (keeps_live_num _ _ K)].
  apply (clients_wf c s _ o u u' (inv_wf _ _ I) Hu); reflexivity.
Qed.

Lemma src_add_inv c s n cl :
  Inv c s -> exists s' r, src_add s n cl = Ok s' r /\ Inv c s' /\ keeps_live s s'.
Proof.
  intros I. unfold src_add. destruct (sfind n (s_store s)) as [o|] eqn:Ef.
  2:{ exists s, RUnit. split; [reflexivity|]. split; [exact I | apply keeps_live_refl]. }
  destruct (store_live c s n o I Ef) as (u & Hu & Nu). unfold deref. rewrite Hu.
  destruct (mem cl (u_src u)).
  { exists s, (RBool true). split; [reflexivity|]. split; [exact I | apply keeps_live_refl]. }
  assert (keeps_live s (set_heap s (upd (s_heap s) o (Live (uni_set_src u (cl :: u_src u)))))) as K
    by (apply (keeps_live_upd s o u); [exact Hu | reflexivity | apply incl_tl; apply incl_refl]).
  eexists _, _. split; [reflexivity|]. split; [|exact K].
  apply (Inv_heap_step c s _ I); [|repeat split | exact (keeps_live_num _ _ K)].
  apply (wf_set_active c s _ None o u _ (inv_wf _ _ I)); try reflexivity; try assumption; [left; reflexivity|].
  unfold u_active. cbn. rewrite !andb_false_r. rewrite andb_false_l || idtac.
  destruct (is_nil (u_out u) && is_nil (u_in u)); reflexivity.
Qed.

Lemma src_rem_inv c s n cl :
  Inv c s -> exists s' r, src_rem s n cl = Ok s' r /\ Inv c s' /\ keeps_num s s'.
Proof.
  intros I. unfold src_rem. destruct (sfind n (s_store s)) as [o|] eqn:Ef.
  2:{ exists s, RUnit. split; [reflexivity|]. split; [exact I | apply keeps_num_refl]. }
  destruct (store_live c s n o I Ef) as (u & Hu & Nu). unfold deref. rewrite Hu.
  destruct (mem cl (u_src u)).
  2:{ exists s, (RBool false). split; [reflexivity|]. split; [exact I | apply keeps_num_refl]. }
  set (u' := uni_set_src u (remove_first cl (u_src u))).
  set (s1 := set_heap s (upd (s_heap s) o (Live u'))).
  destruct (cand_if_inactive_fields o u' s1) as (F1 & F2 & F3 & F4 & F5 & F6 & F7).
  assert (keeps_num s (cand_if_inactive o u' s1)) as K.
  { intros x ux H. rewrite F5. exact (keeps_num_upd s o u u' Hu eq_refl x ux H). }
  eexists _, _. split; [reflexivity|]. split; [|exact K].
  apply (Inv_heap_step c s _ I); [|repeat split; assumption | exact K].
  apply (clients_wf c s _ o u u' (inv_wf _ _ I) Hu); reflexivity.
Qed.

(* ---------- port data *)
Lemma data_inv c s p : Inv c s -> exists r, data c s p = Ok s r.
Proof.
  intros I. unfold data. destruct (port_of c s p) as [pc|]; [|eauto].
  destruct (pc_in pc); [|eauto].
  destruct (s_puniv s p) as [o|] eqn:Eq; [|eauto].
  destruct (inv_plive _ _ I p o Eq) as (u & Hu). unfold deref. rewrite Hu. eauto.
Qed.

(* a patched input port is always found in its universe by PortDataChanged *)
Lemma data_contains c s p pc o :
  Inv c s -> port_of c s p = Some pc -> pc_in pc = true -> s_puniv s p = Some o ->
  data c s p = Ok s (RBool true).
Proof.
  intros I Hp Hd Eq. unfold data. rewrite Hp, Hd, Eq.
  destruct (inv_plive _ _ I p o Eq) as (u & Hu). unfold deref. rewrite Hu.
  assert (In p (u_in u)) as Hin.
  { apply (wf_list _ _ _ _ (inv_wf _ _ I) o u p true Hu). split; [exact Eq|].
    exists pc. split; [|exact Hd]. unfold port_of in Hp. destruct (s_pdead s p); [discriminate | exact Hp]. }
  apply mem_In in Hin. rewrite Hin. reflexivity.
Qed.

(* ---------- device stop *)
Lemma stop_loop_inv c ps : forall s,
  Inv c s -> exists s', stop_loop c ps s = Some s' /\ Inv c s' /\ keeps_live s s'.
Proof.
  induction ps as [|q r IH]; intros s I; cbn.
  - exists s. split; [reflexivity|]. split; [exact I | apply keeps_live_refl].
  - destruct (port_cfg c q) as [pc|] eqn:Ec; [|apply IH; exact I].
    destruct (unpatch_core c s q pc I Ec) as (s1 & E & I1 & K & SP). rewrite E.
    set (s2 := set_puniv s1 (upd (s_puniv s1) q None)) in *.
    assert (Inv c (set_pdead s2 (upd (s_pdead s2) q true))) as I2.
    { apply Inv_set_dead; [exact I1|]. unfold s2. cbn. apply upd_eq. }
    destruct (IH _ I2) as (s' & E' & I' & K').
    exists s'. split; [exact E'|]. split; [exact I'|].
    apply (keeps_live_trans s s1); [exact K|]. intros x u H. apply K'. cbn. exact H.
Qed.

Lemma stop_inv c s d : Inv c s -> exists s' r, stop c s d = Ok s' r /\ Inv c s' /\ keeps_live s s'.
Proof.
  intros I. unfold stop. destruct (dev_cfg c d).
  2:{ exists s, RUnit. split; [reflexivity|]. split; [exact I | apply keeps_live_refl]. }
  destruct (stop_loop_inv c (dev_ports c s d true ++ dev_ports c s d false) s I) as (s' & E & I' & K).
  rewrite E. exists s', RUnit. tauto.
Qed.
