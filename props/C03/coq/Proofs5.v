(* C03 round 4 — frames, housekeeping (GC + CleanStaleSourceClients) preserve the invariant; a source
   client whose flag is clear survives a housekeeping run together with its universe. *)
From OlaBase Require Import Bytes.
From C03 Require Import Gen Model Lemmas Proofs Proofs2 Model2 Proofs3 Proofs4 Model3.
Local Open Scope N_scope.

Definition YInv (xc : xcfg) (y : ystate) : Prop := XInv xc (y_x y).

Lemma yinit_inv xc : YInv xc (yinit xc).
Proof. apply xinit_inv. Qed.

(* ---------- CleanStaleSourceClients on one universe *)
Lemma clean_uni_inv c s fl o u :
  Inv c s -> s_heap s o = Live u ->
  exists s', clean_uni fl o s = Some s' /\ Inv c s' /\ same_ports s s' /\ keeps_num s s' /\
    s_store s' = s_store s /\
    (forall x, x <> o -> s_heap s' x = s_heap s x) /\
    (exists u', s_heap s' o = Live u' /\
                forall cl, In cl (u_src u) -> fl cl = false -> In cl (u_src u')).
Proof.
  intros I Hu. unfold clean_uni, deref. rewrite Hu.
  destruct (existsb fl (u_src u)).
  - set (u' := uni_set_src u (filter (fun cl => negb (fl cl)) (u_src u))).
    set (s1 := set_heap s (upd (s_heap s) o (Live u'))).
    destruct (cand_if_inactive_fields o u' s1) as (F1 & F2 & F3 & F4 & F5 & F6 & F7).
    assert (keeps_num s (cand_if_inactive o u' s1)) as K.
    { intros x ux H. rewrite F5. exact (keeps_num_upd s o u u' Hu eq_refl x ux H). }
    assert (same_ports s (cand_if_inactive o u' s1)) as SP by (repeat split; assumption).
    eexists. split; [reflexivity|]. split; [|split; [exact SP|split; [exact K|split; [exact F6|split]]]].
    + apply (Inv_heap_step c s _ I); [|exact SP | exact K].
      apply (clients_wf c s _ o u u' (inv_wf _ _ I) Hu); reflexivity.
    + intros x Ne. rewrite F5. cbn. apply upd_neq. exact Ne.
    + exists u'. split; [rewrite F5; cbn; apply upd_eq|].
      intros cl Hin Hf. cbn. apply filter_In. split; [exact Hin | rewrite Hf; reflexivity].
  - exists s. split; [reflexivity|]. split; [exact I|]. split; [apply same_ports_refl|].
    split; [apply keeps_num_refl|]. split; [reflexivity|]. split; [reflexivity|].
    exists u. tauto.
Qed.

Lemma clean_all_inv c fl ns : forall s,
  Inv c s ->
  exists s', clean_all fl ns s = Some s' /\ Inv c s' /\ same_ports s s' /\ keeps_num s s' /\
    s_store s' = s_store s /\
    (forall o u cl, s_heap s o = Live u -> In cl (u_src u) -> fl o cl = false ->
       exists u', s_heap s' o = Live u' /\ In cl (u_src u')) /\
    (forall a, (forall u, s_heap s a <> Live u) -> s_heap s' a = s_heap s a).
Proof.
  induction ns as [|n r IH]; intros s I; cbn.
  - exists s. split; [reflexivity|]. split; [exact I|]. split; [apply same_ports_refl|].
    split; [apply keeps_num_refl|]. split; [reflexivity|]. split; [intros o u cl Hu Hin _; eauto | reflexivity].
  - destruct (sfind n (s_store s)) as [o|] eqn:Ef; [|apply IH; exact I].
    destruct (store_live c s n o I Ef) as (u & Hu & _).
    destruct (clean_uni_inv c s (fl o) o u I Hu) as (s1 & E1 & I1 & SP1 & K1 & St1 & Oth & (u1 & Hu1 & Keep1)).
    rewrite E1.
    destruct (IH s1 I1) as (s' & E & I' & SP & K & St & Keep & Dead).
    exists s'. split; [exact E|]. split; [exact I'|].
    split; [exact (same_ports_trans _ _ _ SP1 SP)|]. split; [exact (keeps_num_trans _ _ _ K1 K)|].
    split; [congruence|]. split.
    + intros o2 u2 cl Hu2 Hin Hf. destruct (N.eq_dec o2 o) as [->|Ne].
      * rewrite Hu in Hu2. injection Hu2 as <-.
        exact (Keep o u1 cl Hu1 (Keep1 cl Hin Hf) Hf).
      * apply (Keep o2 u2 cl); [rewrite (Oth o2 Ne); exact Hu2 | exact Hin | exact Hf].
    + intros a Ha. assert (a <> o) as Ne by (intros ->; exact (Ha u Hu)).
      rewrite Dead; [exact (Oth a Ne)|]. intros u2. rewrite (Oth a Ne). apply Ha.
Qed.

(* ---------- the garbage-collection half of a housekeeping run, at the x level *)
Lemma xgc_spec xc x :
  XInv xc x ->
  exists x1 l, xstep xc x (XBase GC) = XOk x1 (RSaved l) /\ XInv xc x1 /\
    (forall o u, s_heap (x_s x) o = Live u -> u_active u = true -> s_heap (x_s x1) o = Live u) /\
    (forall o u, s_heap (x_s x) o = Live u -> u_active u = false -> s_heap (x_s x1) o = Freed) /\
    x_broker x1 = x_broker x.
Proof.
  intros XI. cbn [xstep step].
  destruct (gc_inv (xc_cfg xc) (x_s x) (proj1 XI)) as (s' & l & E & I' & _ & _ & _ & Keep & Free & _).
  rewrite E. cbn [xlift]. exists (set_xs x s'), l. split; [reflexivity|]. split; [|split; [exact Keep | split; [exact Free | reflexivity]]].
  apply XInv_lift; [exact XI | exact I'|].
  apply (step_pframe (xc_cfg xc) (x_s x) GC s' (RSaved l)); try discriminate. exact E.
Qed.


(* ---------- every y-level operation preserves the invariant, never dangles; only the collector frees *)
Lemma yhk_inv xc y :
  YInv xc y ->
  exists y' l, ystep xc y YHousekeeping = YOk y' (RSaved l) /\ YInv xc y' /\
    (forall a u, s_heap (x_s (y_x y)) a = Live u ->
       (exists u', s_heap (x_s (y_x y')) a = Live u' /\ u_num u' = u_num u) \/
       (u_active u = false /\ s_heap (x_s (y_x y')) a = Freed)) /\
    (forall o u cl, s_heap (x_s (y_x y)) o = Live u -> In cl (u_src u) -> y_stale y o cl = false ->
       exists u', s_heap (x_s (y_x y')) o = Live u' /\ In cl (u_src u')).
Proof.
  intros YI. unfold ystep.
  destruct (xgc_spec xc (y_x y) YI) as (x1 & l & E & XI1 & Keep & Free & _).
  rewrite E.
  destruct (clean_all_inv (xc_cfg xc) (y_stale y) (map fst (s_store (x_s x1))) (x_s x1) (proj1 XI1))
    as (s2 & E2 & I2 & (P1 & P2 & P3 & P4) & K & St & KeepCl & Dead).
  rewrite E2. eexists _, l. split; [reflexivity|]. split; [|split].
  - unfold YInv. cbn [y_x]. apply XInv_lift; [exact XI1 | exact I2 | apply pframe_eq; assumption].
  - intros a u Ha. cbn [y_x x_s set_xs]. destruct (u_active u) eqn:Ea.
    + left. exact (K a u (Keep a u Ha Ea)).
    + right. split; [reflexivity|]. pose proof (Free a u Ha Ea) as H1.
      rewrite Dead; [exact H1|]. intros u2. rewrite H1. discriminate.
  - intros o u cl Hu Hin Hf. cbn [y_x x_s set_xs].
    assert (u_active u = true) as Ea.
    { unfold u_active. destruct (u_src u); [destruct Hin|]. cbn. rewrite !andb_false_r.
      destruct (is_nil (u_out u) && is_nil (u_in u)); reflexivity. }
    exact (KeepCl o u cl (Keep o u Hu Ea) Hin Hf).
Qed.

Lemma ystep_inv xc y o :
  YInv xc y ->
  exists y' r, ystep xc y o = YOk y' r /\ YInv xc y' /\
    (forall a u, s_heap (x_s (y_x y)) a = Live u ->
       (exists u', s_heap (x_s (y_x y')) a = Live u' /\ u_num u' = u_num u) \/
       ((o = YX (XBase GC) \/ o = YHousekeeping) /\ u_active u = false /\ s_heap (x_s (y_x y')) a = Freed)).
Proof.
  intros YI.
  assert (forall xo st, exists y' r,
            match xstep xc (y_x y) xo with
            | XDangling => YDangling
            | XOk x' r => YOk (mky x' st) r end = YOk y' r /\ YInv xc y' /\
            (forall a u, s_heap (x_s (y_x y)) a = Live u ->
               (exists u', s_heap (x_s (y_x y')) a = Live u' /\ u_num u' = u_num u) \/
               (xo = XBase GC /\ u_active u = false /\ s_heap (x_s (y_x y')) a = Freed))) as L.
  { intros xo st. destruct (xstep_inv xc (y_x y) xo YI) as (x' & r & E & XI' & Lf).
    rewrite E. exists (mky x' st), r. split; [reflexivity|]. split; [exact XI' | exact Lf]. }
  destruct o as [xo | n cl | | p v].
  - assert (exists y' r, ystep xc y (YX xo) = YOk y' r /\ YInv xc y' /\
            (forall a u, s_heap (x_s (y_x y)) a = Live u ->
               (exists u', s_heap (x_s (y_x y')) a = Live u' /\ u_num u' = u_num u) \/
               (xo = XBase GC /\ u_active u = false /\ s_heap (x_s (y_x y')) a = Freed))) as (y' & r & E & YI' & Lf).
    { destruct xo as [b| | | | |]; try (cbn [ystep]; apply L).
      destruct b; cbn [ystep]; apply L. }
    exists y', r. split; [exact E|]. split; [exact YI'|]. intros a u Ha.
    destruct (Lf a u Ha) as [H|(H1 & H2)]; [left; exact H | right; split; [left; congruence | exact H2]].
  - cbn [ystep]. destruct (L (XBase (SrcAdd n cl)) (clear_flag (x_s (y_x y)) (y_stale y) n cl)) as (y' & r & E & YI' & Lf).
    exists y', r. split; [exact E|]. split; [exact YI'|]. intros a u Ha.
    destruct (Lf a u Ha) as [H|(H1 & _)]; [left; exact H | discriminate].
  - destruct (yhk_inv xc y YI) as (y' & l & E & YI' & Lf & _).
    exists y', (RSaved l). split; [exact E|]. split; [exact YI'|]. intros a u Ha.
    destruct (Lf a u Ha) as [H|H]; [left; exact H | right; split; [right; reflexivity | exact H]].  - cbn [ystep]. destruct (port_of (xc_cfg xc) (x_s (y_x y)) p).
    2:{ exists y, RUnit. split; [reflexivity|]. split; [exact YI|]. intros a u Ha. left. eauto. }
    cbn zeta. destruct (SOURCE_PRIORITY_MAX <? u8 v) eqn:El.
    { exists y, (RBool false). split; [reflexivity|]. split; [exact YI|]. intros a u Ha. left. eauto. }
    eexists _, _. split; [reflexivity|]. split; [|intros a u Ha; left; cbn; eauto].
    unfold YInv. cbn [y_x]. apply XInv_lift; [exact YI | | apply pframe_eq; reflexivity].
    apply Inv_set_pprio; [exact (proj1 YI)|]. apply N.ltb_ge in El. unfold SOURCE_PRIORITY_MAX in El. exact El.
Qed.

Lemma yrun_inv xc ops : forall y, YInv xc y -> exists y', yrun xc y ops = Some y' /\ YInv xc y'.
Proof.
  induction ops as [|o r IH]; intros y YI; cbn; [eauto|].
  destruct (ystep_inv xc y o YI) as (y' & res & E & YI' & _). rewrite E. apply IH. exact YI'.
Qed.

Lemma yreach_inv xc ops y : yrun xc (yinit xc) ops = Some y -> YInv xc y.
Proof.
  intros H. destruct (yrun_inv xc ops (yinit xc) (yinit_inv xc)) as (y' & E & YI). congruence.
Qed.

(* a frame makes the client a fresh referrer of an existing universe *)
Lemma yframe_fresh xc y n cl o :
  YInv xc y -> sfind n (s_store (x_s (y_x y))) = Some o ->
  exists y', ystep xc y (YFrame n cl) = YOk y' (RBool true) /\
    (exists u', s_heap (x_s (y_x y')) o = Live u' /\ u_num u' = n /\ In cl (u_src u')) /\
    y_stale y' o cl = false.
Proof.
  intros YI Ef. cbn [ystep xstep step]. unfold src_add. rewrite Ef.
  destruct (store_live (xc_cfg xc) (x_s (y_x y)) n o (proj1 YI) Ef) as (u & Hu & Nu).
  unfold deref. rewrite Hu.
  assert (clear_flag (x_s (y_x y)) (y_stale y) n cl o cl = false) as Fl.
  { unfold clear_flag. rewrite Ef, !N.eqb_refl. reflexivity. }
  destruct (mem cl (u_src u)) eqn:Em; cbn [xlift].
  - eexists. split; [reflexivity|]. split; [|exact Fl].
    exists u. cbn. split; [exact Hu|]. split; [exact Nu | apply mem_In; exact Em].
  - eexists. split; [reflexivity|]. split; [|exact Fl].
    eexists. cbn. rewrite upd_eq. split; [reflexivity|]. split; [exact Nu | left; reflexivity].
Qed.

(* ---------- the statements of Properties.v *)
Lemma c03y_inv_l : forall (xc : xcfg) (ops : list yop),
  exists y s, yrun xc (yinit xc) ops = Some y /\ s = x_s (y_x y) /\
  (forall o u p, s_heap s o = Live u -> (listed u p <-> s_puniv s p = Some o)) /\
  (forall p o, s_puniv s p = Some o -> exists u, s_heap s o = Live u /\ listed u p) /\
  (forall o1 o2 u1 u2 p, s_heap s o1 = Live u1 -> s_heap s o2 = Live u2 ->
      listed u1 p -> listed u2 p -> o1 = o2) /\
  (forall p q pcp pcq dc o, p <> q -> port_cfg (xc_cfg xc) p = Some pcp -> port_cfg (xc_cfg xc) q = Some pcq ->
      pc_dev pcp = pc_dev pcq -> dev_cfg (xc_cfg xc) (pc_dev pcp) = Some dc ->
      s_puniv s p = Some o -> s_puniv s q = Some o ->
      (dc_loop dc = false -> pc_in pcp = pc_in pcq) /\ (dc_multi dc = false -> pc_in pcp <> pc_in pcq)) /\
  (forall p, s_pprio s p <= 200) /\
  (forall n o, sfind n (s_store s) = Some o <-> exists u, s_heap s o = Live u /\ u_num u = n) /\
  (forall o u, s_heap s o = Live u -> u_active u = false -> In o (s_cand s)) /\
  (forall o, In o (s_cand s) -> exists u, s_heap s o = Live u) /\
  (forall p, s_pdead s p = false -> (x_broker (y_x y) p = true <-> s_puniv s p <> None)).
Proof.
  intros xc ops. destruct (yrun_inv xc ops (yinit xc) (yinit_inv xc)) as (y & E & (I & B)).
  exists y, (x_s (y_x y)). split; [exact E|]. split; [reflexivity|].
  destruct (inv_explicit (xc_cfg xc) (x_s (y_x y)) I)
    as (X1 & _ & _ & X4 & X5 & _ & X7 & X8 & X9 & X10 & X11 & _).
  repeat (split; [assumption|]). exact B.
Qed.

Lemma c03y_lifetime_l : forall (xc : xcfg) (ops : list yop) (y : ystate) (o : yop),
  yrun xc (yinit xc) ops = Some y ->
  exists y' r, ystep xc y o = YOk y' r /\
    forall a u, s_heap (x_s (y_x y)) a = Live u ->
      (exists u', s_heap (x_s (y_x y')) a = Live u' /\ u_num u' = u_num u) \/
      ((o = YX (XBase GC) \/ o = YHousekeeping) /\ u_active u = false /\ s_heap (x_s (y_x y')) a = Freed).
Proof.
  intros xc ops y o H. destruct (ystep_inv xc y o (yreach_inv xc ops y H)) as (y' & r & E & _ & L).
  exists y', r. split; [exact E | exact L].
Qed.

Lemma c03y_frame_fresh_l : forall (xc : xcfg) (ops : list yop) (y : ystate) (n cl o : N),
  yrun xc (yinit xc) ops = Some y -> sfind n (s_store (x_s (y_x y))) = Some o ->
  exists y', ystep xc y (YFrame n cl) = YOk y' (RBool true) /\
    (exists u', s_heap (x_s (y_x y')) o = Live u' /\ u_num u' = n /\ In cl (u_src u')) /\
    y_stale y' o cl = false.
Proof. intros xc ops y n cl o H. exact (yframe_fresh xc y n cl o (yreach_inv xc ops y H)). Qed.

Lemma c03y_housekeeping_keeps_l : forall (xc : xcfg) (ops : list yop) (y : ystate) (o cl : N) (u : uni),
  yrun xc (yinit xc) ops = Some y ->
  s_heap (x_s (y_x y)) o = Live u -> In cl (u_src u) -> y_stale y o cl = false ->
  exists y' l, ystep xc y YHousekeeping = YOk y' (RSaved l) /\
    exists u', s_heap (x_s (y_x y')) o = Live u' /\ u_num u' = u_num u /\ In cl (u_src u').
Proof.
  intros xc ops y o cl u H Hu Hin Hf.
  destruct (yhk_inv xc y (yreach_inv xc ops y H)) as (y' & l & E & _ & Lf & Keep).
  exists y', l. split; [exact E|].
  destruct (Keep o u cl Hu Hin Hf) as (u' & A & B). exists u'. split; [exact A|]. split; [|exact B].
  destruct (Lf o u Hu) as [(u2 & C & D)|(_ & C)]; congruence.
Qed.
