(* C03 — port patching keeps ports, universes and devices mutually consistent.
   Only theorem statements here; proofs are in Lemmas.v / Proofs.v / Proofs2.v.

   [c : cfg] is any configuration: any number of devices with any AllowLooping /
   AllowMultiPortPatching bits, any number of ports, each with any owning device (or none), direction,
   priority capability and any set of universe numbers its plugin vetoes.  [ops] is any history of
   Patch / Unpatch / PrioStatic / PrioInherit / GC / SinkAdd / SinkRem / SrcAdd / SrcRem / Data / Stop
   with arbitrary arguments.  [run] returns None exactly when some operation dereferenced a universe
   object that is not live (outcome Dangling of [step]).  [listed u p] = p is in u's input or output
   port list. *)
From OlaBase Require Import Bytes.
From C03 Require Import Gen Model Lemmas Proofs Proofs2 Model2 Proofs3 Proofs4 Model3 Proofs5 Proofs6 Model4 Proofs7 Model5 Proofs8 Proofs9 Proofs10.
Local Open Scope N_scope.

(* the constants regenerated from include/ola/dmx/SourcePriorities.h are the property's numbers *)
Theorem c03_consts : (SOURCE_PRIORITY_MAX, SOURCE_PRIORITY_DEFAULT, PRIORITY_MODE_INHERIT, PRIORITY_MODE_STATIC,
                      U8_LIMIT, UINT_LIMIT) = (200, 100, 0, 1, 256, 4294967296).
Proof. reflexivity. Qed.
Print Assumptions c03_consts.

(* After any history, from the initial state of any configuration: no operation dereferenced a
   collected universe (the run exists), and
   (1) a live universe lists a port exactly when the port reports that universe (input ports in the
       input list, output ports in the output list) and the universe a port reports is live;
   (2) a port is on at most one universe, at most once;
   (3) two different ports of one device on the same universe: have the same direction if the device
       forbids looping, have different directions if it forbids multi-port patching;
   (4) priorities are at most 200;
   (5) the store maps n to o exactly when o is a live universe numbered n; every live universe that
       nothing refers to is queued for collection, and queued objects are live;
   and ports deleted by a device stop are unpatched. *)
Theorem c03_inv : forall (c : cfg) (ops : list op),
  exists s, run c (init c) ops = Some s /\
  (forall o u p, s_heap s o = Live u -> (listed u p <-> s_puniv s p = Some o)) /\
  (forall o u p, s_heap s o = Live u -> In p (u_in u) ->
      exists pc, port_cfg c p = Some pc /\ pc_in pc = true) /\
  (forall o u p, s_heap s o = Live u -> In p (u_out u) ->
      exists pc, port_cfg c p = Some pc /\ pc_in pc = false) /\
  (forall p o, s_puniv s p = Some o -> exists u, s_heap s o = Live u /\ listed u p) /\
  (forall o1 o2 u1 u2 p, s_heap s o1 = Live u1 -> s_heap s o2 = Live u2 ->
      listed u1 p -> listed u2 p -> o1 = o2) /\
  (forall o u, s_heap s o = Live u -> NoDup (u_in u) /\ NoDup (u_out u)) /\
  (forall p q pcp pcq dc o, p <> q -> port_cfg c p = Some pcp -> port_cfg c q = Some pcq ->
      pc_dev pcp = pc_dev pcq -> dev_cfg c (pc_dev pcp) = Some dc ->
      s_puniv s p = Some o -> s_puniv s q = Some o ->
      (dc_loop dc = false -> pc_in pcp = pc_in pcq) /\ (dc_multi dc = false -> pc_in pcp <> pc_in pcq)) /\
  (forall p, s_pprio s p <= 200) /\
  (forall n o, sfind n (s_store s) = Some o <-> exists u, s_heap s o = Live u /\ u_num u = n) /\
  (forall o u, s_heap s o = Live u -> u_active u = false -> In o (s_cand s)) /\
  (forall o, In o (s_cand s) -> exists u, s_heap s o = Live u) /\
  (forall p, s_pdead s p = true -> s_puniv s p = None).
Proof. exact c03_inv_l. Qed.
Print Assumptions c03_inv.

(* In every reachable state a patch request completes (no dangling dereference) and returns true
   exactly when the port ended up on a live universe with the requested number. *)
Theorem c03_patch_result : forall (c : cfg) (ops : list op) (s : state) (p n : N),
  run c (init c) ops = Some s ->
  exists s' b, step c s (Patch p n) = Ok s' (RBool b) /\
    (b = true <-> exists o u, s_puniv s' p = Some o /\ s_heap s' o = Live u /\ u_num u = n).
Proof. exact c03_patch_result_l. Qed.
Print Assumptions c03_patch_result.

(* A patch request the plugin vetoes (and that is not a request for the universe the port is already
   on) reports failure and leaves the port on the universe it was on. *)
Theorem c03_veto : forall (c : cfg) (ops : list op) (s : state) (p n : N) (pc : pcfg),
  run c (init c) ops = Some s ->
  port_of c s p = Some pc -> In n (pc_veto pc) ->
  ~ (exists o u, s_puniv s p = Some o /\ s_heap s o = Live u /\ u_num u = n) ->
  exists s', step c s (Patch p n) = Ok s' (RBool false) /\ s_puniv s' p = s_puniv s p.
Proof. exact c03_veto_l. Qed.
Print Assumptions c03_veto.

(* Garbage collection in any reachable state: the settings-save log [l] contains exactly the numbers of
   the universes nothing referred to, each once; those objects are freed; every universe in use
   survives unchanged; afterwards no unused universe is left and the queue is empty. *)
Theorem c03_gc : forall (c : cfg) (ops : list op) (s : state),
  run c (init c) ops = Some s ->
  exists s' l, step c s GC = Ok s' (RSaved l) /\ s_cand s' = [] /\
    (forall n, In n l <-> exists o u, s_heap s o = Live u /\ u_active u = false /\ u_num u = n) /\
    NoDup l /\
    (forall o u, s_heap s o = Live u -> u_active u = true -> s_heap s' o = Live u) /\
    (forall o u, s_heap s o = Live u -> u_active u = false -> s_heap s' o = Freed) /\
    (forall o u, s_heap s' o = Live u -> s_heap s o = Live u /\ u_active u = true).
Proof. exact c03_gc_l. Qed.
Print Assumptions c03_gc.

(* A universe exists for as long as anything refers to it: the only operation after which a live
   universe object is no longer live is GC, and only if no port or client referred to it. *)
Theorem c03_lifetime : forall (c : cfg) (ops : list op) (s s' : state) (o : op) (r : res) (x : N) (u : uni),
  run c (init c) ops = Some s -> step c s o = Ok s' r -> s_heap s x = Live u ->
  (exists u', s_heap s' x = Live u' /\ u_num u' = u_num u) \/
  (o = GC /\ u_active u = false /\ s_heap s' x = Freed).
Proof. exact c03_lifetime_l. Qed.
Print Assumptions c03_lifetime.

(* Data arriving on a patched input port always finds the port in its (live) universe. *)
Theorem c03_data : forall (c : cfg) (ops : list op) (s : state) (p o : N) (pc : pcfg),
  run c (init c) ops = Some s -> port_of c s p = Some pc -> pc_in pc = true -> s_puniv s p = Some o ->
  step c s (Data p) = Ok s (RBool true).
Proof. exact c03_data_l. Qed.
Print Assumptions c03_data.

(* ---------- the hypotheses are satisfiable and the hazard is expressible *)
(* one device forbidding looping and multi-port patching; port 0 input vetoing universe 2, port 1 output *)
Definition ex_cfg : cfg :=
  mkcfg [mkpcfg 0 true CapStatic [2]; mkpcfg 0 false CapFull []] [mkdcfg false false].

(* patch, vetoed re-patch, collect, data: the port is still on universe 1, which is still live *)
Example ex_veto_history :
  match run ex_cfg (init ex_cfg) [Patch 0 1; Patch 0 2; GC; Data 0] with
  | Some s => port_unum s 0 = Some (Some 1) /\ map fst (s_store s) = [1]
  | None => False
  end.
Proof. vm_compute. split; reflexivity. Qed.

Example ex_veto_result :
  match run ex_cfg (init ex_cfg) [Patch 0 1] with
  | Some s => match step ex_cfg s (Patch 0 2) with Ok _ (RBool false) => True | _ => False end
  | None => False
  end.
Proof. vm_compute. exact I. Qed.

(* the looping policy refuses the output port on the input port's universe *)
Example ex_loop_refused :
  match run ex_cfg (init ex_cfg) [Patch 0 1] with
  | Some s => match step ex_cfg s (Patch 1 1) with Ok _ (RBool false) => True | _ => False end
  | None => False
  end.
Proof. vm_compute. exact I. Qed.

(* the hazard outcome is reachable in the model from a state that violates the invariant (a port
   left pointing at a collected object), i.e. Dangling is not excluded by construction *)
Example ex_dangling_expressible :
  let s := init ex_cfg in
  let bad := set_puniv s (upd (s_puniv s) 0 (Some 7)) in
  step ex_cfg bad (Data 0) = Dangling /\ step ex_cfg bad (Patch 1 3) = Dangling.
Proof. vm_compute. split; reflexivity. Qed.

(* an unused universe is collected and its settings saved once *)
Example ex_gc_collects :
  match run ex_cfg (init ex_cfg) [Patch 1 5; Unpatch 1] with
  | Some s => match step ex_cfg s GC with Ok s' (RSaved l) => l = [5] /\ s_store s' = [] | _ => False end
  | None => False
  end.
Proof. vm_compute. split; reflexivity. Qed.

(* ====================================================================================================
   Round 2: the extended model (Model2.v).  [xc : xcfg] adds to the configuration
     - [xc_veto], an ARBITRARY function: the verdict of the port's PreSetUniverse hook given the port, the
       requested universe (None = un-patch) and the current patching (universe numbers) of every port of
       the same device -- ShowNet's sibling check and any other state-dependent rule are instances; the
       number-based veto sets of [cfg] are kept as well;
     - arbitrary preloaded port preferences (saved patching, priority value, priority mode).
   [xop] adds DeviceManager::RegisterDevice / UnregisterDevice / UnregisterAllDevices and
   OlaServerServiceImpl::RegisterForDmx (REGISTER / UNREGISTER) to the operations of round 1;
   [x_broker] is PortBroker::m_ports.  [xrun] is None exactly when some operation (including a
   PreSetUniverse hook looking at its siblings, RestorePortSettings and SavePortPatchings) dereferenced a
   universe that is not live. *)

(* c03_inv over histories that include device registration / unregistration, for every veto function
   and every preloaded preference set; plus: a port that still exists is in the PortBroker exactly when
   it is patched. *)
Theorem c03x_inv : forall (xc : xcfg) (ops : list xop),
  exists x s, xrun xc (xinit xc) ops = Some x /\ s = x_s x /\
  (forall o u p, s_heap s o = Live u -> (listed u p <-> s_puniv s p = Some o)) /\
  (forall o u p, s_heap s o = Live u -> In p (u_in u) ->
      exists pc, port_cfg (xc_cfg xc) p = Some pc /\ pc_in pc = true) /\
  (forall o u p, s_heap s o = Live u -> In p (u_out u) ->
      exists pc, port_cfg (xc_cfg xc) p = Some pc /\ pc_in pc = false) /\
  (forall p o, s_puniv s p = Some o -> exists u, s_heap s o = Live u /\ listed u p) /\
  (forall o1 o2 u1 u2 p, s_heap s o1 = Live u1 -> s_heap s o2 = Live u2 ->
      listed u1 p -> listed u2 p -> o1 = o2) /\
  (forall o u, s_heap s o = Live u -> NoDup (u_in u) /\ NoDup (u_out u)) /\
  (forall p q pcp pcq dc o, p <> q -> port_cfg (xc_cfg xc) p = Some pcp -> port_cfg (xc_cfg xc) q = Some pcq ->
      pc_dev pcp = pc_dev pcq -> dev_cfg (xc_cfg xc) (pc_dev pcp) = Some dc ->
      s_puniv s p = Some o -> s_puniv s q = Some o ->
      (dc_loop dc = false -> pc_in pcp = pc_in pcq) /\ (dc_multi dc = false -> pc_in pcp <> pc_in pcq)) /\
  (forall p, s_pprio s p <= 200) /\
  (forall n o, sfind n (s_store s) = Some o <-> exists u, s_heap s o = Live u /\ u_num u = n) /\
  (forall o u, s_heap s o = Live u -> u_active u = false -> In o (s_cand s)) /\
  (forall o, In o (s_cand s) -> exists u, s_heap s o = Live u) /\
  (forall p, s_pdead s p = true -> s_puniv s p = None) /\
  (forall p, s_pdead s p = false -> (x_broker x p = true <-> s_puniv s p <> None)).
Proof. exact c03x_inv_l. Qed.
Print Assumptions c03x_inv.

(* c03_patch_result in every state reachable through the extended operations, for every veto function *)
Theorem c03x_patch_result : forall (xc : xcfg) (ops : list xop) (x : xstate) (p n : N),
  xrun xc (xinit xc) ops = Some x ->
  exists x' b, xstep xc x (XBase (Patch p n)) = XOk x' (RBool b) /\
    (b = true <-> exists o u, s_puniv (x_s x') p = Some o /\ s_heap (x_s x') o = Live u /\ u_num u = n).
Proof. exact c03x_patch_result_l. Qed.
Print Assumptions c03x_patch_result.

(* an un-patch request either succeeds (port unpatched and out of the broker) or is refused by the
   plugin, in which case nothing changes for any port *)
Theorem c03x_unpatch_result : forall (xc : xcfg) (ops : list xop) (x : xstate) (p : N),
  xrun xc (xinit xc) ops = Some x ->
  exists x' b, xstep xc x (XBase (Unpatch p)) = XOk x' (RBool b) /\
    (b = true -> s_puniv (x_s x') p = None /\ x_broker x' p = false) /\
    (b = false -> s_puniv (x_s x') = s_puniv (x_s x) /\ x_broker x' = x_broker x).
Proof. exact c03x_unpatch_result_l. Qed.
Print Assumptions c03x_unpatch_result.

(* every extended operation completes in every reachable state, and only GC ends a universe's life,
   only when nothing refers to it *)
Theorem c03x_lifetime : forall (xc : xcfg) (ops : list xop) (x : xstate) (o : xop),
  xrun xc (xinit xc) ops = Some x ->
  exists x' r, xstep xc x o = XOk x' r /\
    forall a u, s_heap (x_s x) a = Live u ->
      (exists u', s_heap (x_s x') a = Live u' /\ u_num u' = u_num u) \/
      (o = XBase GC /\ u_active u = false /\ s_heap (x_s x') a = Freed).
Proof. exact c03x_lifetime_l. Qed.
Print Assumptions c03x_lifetime.

(* Unregistering a device the way every plugin does (DeviceManager::UnregisterDevice, then
   Device::Stop): UnregisterDevice itself only saves the settings (the patching is untouched);
   after the stop none of the device's ports is patched or listed by any universe and every universe
   left unused is queued for collection.  The PortBroker is NOT told: [x_broker] is unchanged, i.e. the
   keys of the deleted ports stay behind (see ex_broker_stale). *)
Theorem c03_unregister_clean : forall (xc : xcfg) (ops : list xop) (x : xstate) (d : N) (dc : dcfg),
  xrun xc (xinit xc) ops = Some x -> dev_cfg (xc_cfg xc) d = Some dc ->
  exists x1 r1 x2,
    xstep xc x (XUnregister d) = XOk x1 r1 /\ x_s x1 = x_s x /\
    xstep xc x1 (XBase (Stop d)) = XOk x2 RUnit /\
    (forall q pc, port_cfg (xc_cfg xc) q = Some pc -> pc_dev pc = d ->
       s_puniv (x_s x2) q = None /\
       forall o u, s_heap (x_s x2) o = Live u -> ~ listed u q) /\
    (forall o u, s_heap (x_s x2) o = Live u -> u_active u = false -> In o (s_cand (x_s x2))) /\
    x_broker x2 = x_broker x.
Proof. exact c03_unregister_clean_l. Qed.
Print Assumptions c03_unregister_clean.

(* ---------- examples for round 2 *)
(* ShowNet-style hook: port 0 refuses every change while its sibling port 1 is patched *)
Definition ex_xcfg : xcfg :=
  mkxcfg (mkcfg [mkpcfg 0 true CapStatic []; mkpcfg 0 false CapFull []] [mkdcfg true true])
         (fun p _ v => match p with
                       | 0 => match v with [_; (_, Some _)] => true | _ => false end
                       | _ => false end)
         (fun p => match p with 1 => Some 9 | _ => None end) (fun _ => None) (fun _ => None).

(* a refused un-patch changes nothing; the port is still patched, listed and in the broker after GC *)
Example ex_unpatch_refused :
  match xrun ex_xcfg (xinit ex_xcfg) [XBase (Patch 0 1); XBase (Patch 1 2)] with
  | Some x =>
    match xstep ex_xcfg x (XBase (Unpatch 0)) with
    | XOk x' (RBool false) => port_unum (x_s x') 0 = Some (Some 1) /\ x_broker x' 0 = true
    | _ => False
    end
  | None => False
  end.
Proof. vm_compute. split; reflexivity. Qed.

(* registration restores the saved patching (universe 9 for port 1) through PatchPort *)
Example ex_register_restores :
  match xrun ex_xcfg (xinit ex_xcfg) [XRegister 0] with
  | Some x => port_unum (x_s x) 1 = Some (Some 9) /\ x_broker x 1 = true /\ x_reg x 0 = true
  | None => False
  end.
Proof. vm_compute. repeat split; reflexivity. Qed.

(* unregister + stop leaves the key of the deleted port in the broker *)
Example ex_broker_stale :
  match xrun ex_xcfg (xinit ex_xcfg) [XRegister 0; XUnregister 0; XBase (Stop 0); XBase GC] with
  | Some x => x_broker x 1 = true /\ s_pdead (x_s x) 1 = true /\ s_store (x_s x) = [] /\ x_puni x 1 = Some 9
  | None => False
  end.
Proof. vm_compute. repeat split; reflexivity. Qed.

(* ====================================================================================================
   Round 4: source-client staleness (Model3.v).  [yop] adds to the operations of round 2
     - YFrame n cl   : a DMX frame from client cl for universe n (OlaServerServiceImpl::UpdateDmxData ->
                       Universe::SourceClientDataChanged -> AddSourceClient: STLReplace(cl, false));
     - YHousekeeping : OlaServer::RunHousekeeping = GarbageCollectUniverses, then
                       CleanStaleSourceClients on every universe (erase the clients whose flag is set,
                       queue the universe if that leaves it unused, set the flag of the others).
   [y_stale o cl] is Universe::m_source_clients[cl] of universe object o. *)

(* the invariant (the clauses of c03_inv that the property text states, plus broker = patched) over
   histories that also contain frames and housekeeping runs; no operation dangles *)
Theorem c03y_inv : forall (xc : xcfg) (ops : list yop),
  exists y s, yrun xc (yinit xc) ops = Some y /\ s = x_s (y_x y) /\
  (forall o u p, s_heap s o = Live u -> (listed u p <-> s_puniv s p = Some o)) /\
  (forall p o, s_puniv s p = Some o -> exists u, s_heap s o = Live u /\ listed u p) /\
  (forall o1 o2 u1 u2 p, s_heap s o1 = Live u1 -> s_heap s o2 = Live u2 ->
      listed u1 p -> listed u2 p -> o1 = o2) /\
  (forall p q pcp pcq dc o, p <> q -> port_cfg (xc_cfg xc) p = Some pcp -> port_cfg (xc_cfg xc) q = Some pcq ->
      pc_dev pcp = pc_dev pcq -> dev_cfg (xc_cfg xc) (pc_dev pcp) = Some dc ->
      s_puniv s p = Some o -> s_puniv s q = Some o ->
      (dc_loop dc = false -> pc_in pcp = pc_in pcq) /\ (dc_multi dc = false -> pc_in pcp <> pc_in pcq)) /\
  (forall p, s_pprio s p <= 200) /\
  (forall n o, sfind n (s_store s) = Some o <-> exists u, s_heap s o = Live u /\ u_num u = n) /\
  (forall o u, s_heap s o = Live u -> u_active u = false -> In o (s_cand s)) /\
  (forall o, In o (s_cand s) -> exists u, s_heap s o = Live u) /\
  (forall p, s_pdead s p = false -> (x_broker (y_x y) p = true <-> s_puniv s p <> None)).
Proof. exact c03y_inv_l. Qed.
Print Assumptions c03y_inv.

(* every operation completes; a live universe stops being live only through the collector (GC or the
   GC half of a housekeeping run) and only if nothing referred to it when the operation started *)
Theorem c03y_lifetime : forall (xc : xcfg) (ops : list yop) (y : ystate) (o : yop),
  yrun xc (yinit xc) ops = Some y ->
  exists y' r, ystep xc y o = YOk y' r /\
    forall a u, s_heap (x_s (y_x y)) a = Live u ->
      (exists u', s_heap (x_s (y_x y')) a = Live u' /\ u_num u' = u_num u) \/
      ((o = YX (XBase GC) \/ o = YHousekeeping) /\ u_active u = false /\ s_heap (x_s (y_x y')) a = Freed).
Proof. exact c03y_lifetime_l. Qed.
Print Assumptions c03y_lifetime.

(* a frame for an existing universe makes the sending client one of its source clients with a clear
   stale flag *)
Theorem c03y_frame_fresh : forall (xc : xcfg) (ops : list yop) (y : ystate) (n cl o : N),
  yrun xc (yinit xc) ops = Some y -> sfind n (s_store (x_s (y_x y))) = Some o ->
  exists y', ystep xc y (YFrame n cl) = YOk y' (RBool true) /\
    (exists u', s_heap (x_s (y_x y')) o = Live u' /\ u_num u' = n /\ In cl (u_src u')) /\
    y_stale y' o cl = false.
Proof. exact c03y_frame_fresh_l. Qed.
Print Assumptions c03y_frame_fresh.

(* a source client whose flag is clear (it sent a frame since the previous housekeeping run) survives a
   housekeeping run, and the universe it refers to is not collected by it *)
Theorem c03y_housekeeping_keeps : forall (xc : xcfg) (ops : list yop) (y : ystate) (o cl : N) (u : uni),
  yrun xc (yinit xc) ops = Some y ->
  s_heap (x_s (y_x y)) o = Live u -> In cl (u_src u) -> y_stale y o cl = false ->
  exists y' l, ystep xc y YHousekeeping = YOk y' (RSaved l) /\
    exists u', s_heap (x_s (y_x y')) o = Live u' /\ u_num u' = u_num u /\ In cl (u_src u').
Proof. exact c03y_housekeeping_keeps_l. Qed.
Print Assumptions c03y_housekeeping_keeps.

(* a client that sends one frame per housekeeping run is the only referrer of universe 5 and keeps it
   alive; after two runs without a frame it is reaped and the universe is collected by the third *)
Example ex_stale_client :
  let fr := YFrame 5 0 in
  match yrun ex_xcfg (yinit ex_xcfg)
          [YX (XSvcRegister 5 1); fr; YX (XSvcUnregister 5 1); YHousekeeping; fr; YHousekeeping; fr; YHousekeeping] with
  | Some y =>
    map fst (s_store (x_s (y_x y))) = [5] /\
    match yrun ex_xcfg y [YHousekeeping; YHousekeeping] with
    | Some y2 => s_store (x_s (y_x y2)) = []
    | None => False
    end
  | None => False
  end.
Proof. vm_compute. split; reflexivity. Qed.

(* ====================================================================================================
   Extension round.  [yop] is the complete operation set: the operations of rounds 1-2 (YX), DMX frames,
   housekeeping runs and Port::SetPriority called on the port itself (YPortSetPrio).
   [hk_count ops] = number of housekeeping runs in ops; [no_removal n cl ops] = ops contains no explicit
   RemoveSourceClient of client cl on universe n. *)

(* The full invariant (all clauses of c03_inv incl. list direction, NoDup and deleted ports, plus
   broker = patched) over every history of the complete operation set, for every veto function and
   every preloaded preference set.  Priorities <= 200 therefore holds for every entry point:
   SetPriorityStatic/Inherit, RestorePortPriority from arbitrary preferences, Port::SetPriority. *)
Theorem c03y_inv_full : forall (xc : xcfg) (ops : list yop),
  exists y s, yrun xc (yinit xc) ops = Some y /\ s = x_s (y_x y) /\
  (forall o u p, s_heap s o = Live u -> (listed u p <-> s_puniv s p = Some o)) /\
  (forall o u p, s_heap s o = Live u -> In p (u_in u) ->
      exists pc, port_cfg (xc_cfg xc) p = Some pc /\ pc_in pc = true) /\
  (forall o u p, s_heap s o = Live u -> In p (u_out u) ->
      exists pc, port_cfg (xc_cfg xc) p = Some pc /\ pc_in pc = false) /\
  (forall p o, s_puniv s p = Some o -> exists u, s_heap s o = Live u /\ listed u p) /\
  (forall o1 o2 u1 u2 p, s_heap s o1 = Live u1 -> s_heap s o2 = Live u2 ->
      listed u1 p -> listed u2 p -> o1 = o2) /\
  (forall o u, s_heap s o = Live u -> NoDup (u_in u) /\ NoDup (u_out u)) /\
  (forall p q pcp pcq dc o, p <> q -> port_cfg (xc_cfg xc) p = Some pcp -> port_cfg (xc_cfg xc) q = Some pcq ->
      pc_dev pcp = pc_dev pcq -> dev_cfg (xc_cfg xc) (pc_dev pcp) = Some dc ->
      s_puniv s p = Some o -> s_puniv s q = Some o ->
      (dc_loop dc = false -> pc_in pcp = pc_in pcq) /\ (dc_multi dc = false -> pc_in pcp <> pc_in pcq)) /\
  (forall p, s_pprio s p <= 200) /\
  (forall n o, sfind n (s_store s) = Some o <-> exists u, s_heap s o = Live u /\ u_num u = n) /\
  (forall o u, s_heap s o = Live u -> u_active u = false -> In o (s_cand s)) /\
  (forall o, In o (s_cand s) -> exists u, s_heap s o = Live u) /\
  (forall p, s_pdead s p = true -> s_puniv s p = None) /\
  (forall p, s_pdead s p = false -> (x_broker (y_x y) p = true <-> s_puniv s p <> None)).
Proof. exact c03y_inv_full_l. Qed.
Print Assumptions c03y_inv_full.

(* A source client with a clear stale flag stays a source client of its (live, uncollected) universe
   through ANY further history that contains at most one housekeeping run and no explicit removal of
   that client from that universe. *)
Theorem c03y_referrer : forall (xc : xcfg) (ops ops2 : list yop) (y y2 : ystate) (o cl : N) (u : uni),
  yrun xc (yinit xc) ops = Some y ->
  s_heap (x_s (y_x y)) o = Live u -> In cl (u_src u) -> y_stale y o cl = false ->
  yrun xc y ops2 = Some y2 -> no_removal (u_num u) cl ops2 -> (hk_count ops2 <= 1)%nat ->
  exists u2, s_heap (x_s (y_x y2)) o = Live u2 /\ u_num u2 = u_num u /\ In cl (u_src u2).
Proof. exact c03y_referrer_l. Qed.
Print Assumptions c03y_referrer.

(* "A universe exists for as long as any ... client refers to it": a client that sent a frame for an
   existing universe since the last-but-one housekeeping run (and was not explicitly removed) is still a
   source client of that universe, which is still in the store and live -- whatever else happened. *)
Theorem c03y_frame_referrer : forall (xc : xcfg) (ops ops2 : list yop) (y y2 : ystate) (n cl o : N),
  yrun xc (yinit xc) ops = Some y -> sfind n (s_store (x_s (y_x y))) = Some o ->
  yrun xc y (YFrame n cl :: ops2) = Some y2 -> no_removal n cl ops2 -> (hk_count ops2 <= 1)%nat ->
  sfind n (s_store (x_s (y_x y2))) = Some o /\
  exists u2, s_heap (x_s (y_x y2)) o = Live u2 /\ u_num u2 = n /\ In cl (u_src u2).
Proof. exact c03y_frame_referrer_l. Qed.
Print Assumptions c03y_frame_referrer.

(* Device::Stop (DeleteAllPorts) in any reachable state, whether or not the device was unregistered
   first and whatever its ports' hooks would answer (GenericDeletePort does not ask them): every port of
   the device is deleted, unpatched and listed by no universe; ports of other devices keep their
   patching; every universe left unused is queued for collection; the broker is not told. *)
Theorem c03y_stop_clean : forall (xc : xcfg) (ops : list yop) (y : ystate) (d : N) (dc : dcfg),
  yrun xc (yinit xc) ops = Some y -> dev_cfg (xc_cfg xc) d = Some dc ->
  exists y', ystep xc y (YX (XBase (Stop d))) = YOk y' RUnit /\
    (forall q pc, port_cfg (xc_cfg xc) q = Some pc -> pc_dev pc = d ->
       s_pdead (x_s (y_x y')) q = true /\ s_puniv (x_s (y_x y')) q = None /\
       forall o u, s_heap (x_s (y_x y')) o = Live u -> ~ listed u q) /\
    (forall q pc, port_cfg (xc_cfg xc) q = Some pc -> pc_dev pc <> d ->
       s_pdead (x_s (y_x y')) q = s_pdead (x_s (y_x y)) q /\
       (s_pdead (x_s (y_x y)) q = false -> s_puniv (x_s (y_x y')) q = s_puniv (x_s (y_x y)) q)) /\
    (forall o u, s_heap (x_s (y_x y')) o = Live u -> u_active u = false -> In o (s_cand (x_s (y_x y')))) /\
    x_broker (y_x y') = x_broker (y_x y).
Proof. exact c03y_stop_clean_l. Qed.
Print Assumptions c03y_stop_clean.

(* "... and is collected, with its settings saved, once nothing does": a collection (GC, or the GC half
   of a housekeeping run) in any reachable state saves the settings of exactly the universes nothing
   refers to, each once, frees exactly those, and keeps every other universe. *)
Theorem c03y_gc : forall (xc : xcfg) (ops : list yop) (y : ystate) (o : yop),
  yrun xc (yinit xc) ops = Some y -> (o = YX (XBase GC) \/ o = YHousekeeping) ->
  exists y' l, ystep xc y o = YOk y' (RSaved l) /\
    (forall n, In n l <-> exists a u, s_heap (x_s (y_x y)) a = Live u /\ u_active u = false /\ u_num u = n) /\
    NoDup l /\
    (forall a u, s_heap (x_s (y_x y)) a = Live u -> u_active u = false -> s_heap (x_s (y_x y')) a = Freed) /\
    (forall a u, s_heap (x_s (y_x y)) a = Live u -> u_active u = true ->
       exists u', s_heap (x_s (y_x y')) a = Live u' /\ u_num u' = u_num u).
Proof. exact c03y_gc_l. Qed.
Print Assumptions c03y_gc.

(* the hypotheses of c03y_referrer / c03y_frame_referrer are met by a non-trivial history: patches,
   a vetoed un-patch, a device registration, a GC and one housekeeping run after the frame *)
Example ex_referrer :
  let pre := [YX (XBase (Patch 0 5)); YX (XRegister 0)] in
  let post := [YX (XBase (Patch 1 2)); YX (XBase (Unpatch 0)); YX (XBase GC); YHousekeeping;
               YPortSetPrio 0 201; YX (XBase (Stop 0)); YX (XBase GC)] in
  match yrun ex_xcfg (yinit ex_xcfg) pre with
  | Some y =>
    sfind 5 (s_store (x_s (y_x y))) = Some 0 /\ no_removal 5 7 post /\ (hk_count post <= 1)%nat /\
    match yrun ex_xcfg y (YFrame 5 7 :: post) with
    | Some y2 => map fst (s_store (x_s (y_x y2))) = [5] /\ s_pdead (x_s (y_x y2)) 0 = true
    | None => False
    end
  | None => False
  end.
Proof.
  vm_compute. split; [reflexivity|]. split; [|split; [repeat constructor | split; reflexivity]].
  intros op Hin. repeat (destruct Hin as [<-|Hin]; [discriminate|]). destruct Hin.
Qed.

(* ====================================================================================================
   Wave 6: deferred completions (Model4.v).  An output port created with start_rdm_discovery_on_patch
   starts a discovery whenever SetUniverse() succeeds; [ZFire p us] is that discovery completing LATER
   with UID set us (BasicOutputPort::UpdateUIDs -> Universe::NewUIDList), at any point of the history.
   [z_uids z a] is universe a's UID -> output-port routing table, [route z a uid] the port
   Universe::SendRDMRequest hands a unicast request for uid to. *)

(* Every history of the complete operation set with completions fired at arbitrary points runs to the
   end (no completion dereferences a collected universe); its state without the routing tables is the
   state of the same history without the completions (so every c03y_* theorem applies to it); and a
   universe routes RDM only to ports that are patched to it and listed by it. *)
Theorem c03z_inv : forall (zc : zcfg) (ops : list zop),
  exists z s, zrun zc (zinit zc) ops = Some z /\ s = x_s (y_x (z_y z)) /\
    yrun (zc_xc zc) (yinit (zc_xc zc)) (zproj ops) = Some (z_y z) /\
    (forall a uid q, route z a uid = Some q ->
       s_puniv s q = Some a /\ exists u, s_heap s a = Live u /\ listed u q).
Proof. exact c03z_inv_l. Qed.
Print Assumptions c03z_inv.

(* A completion, whenever it fires, leaves ports, universes, store and clients untouched and edits at most
   the routing table of the universe the port is patched to at that moment (none if it is unpatched). *)
Theorem c03z_fire : forall (zc : zcfg) (ops : list zop) (z : zstate) (p : N) (us : list N),
  zrun zc (zinit zc) ops = Some z ->
  exists z' r, zstep zc z (ZFire p us) = ZOk z' r /\ z_y z' = z_y z /\
    (forall a, s_puniv (x_s (y_x (z_y z))) p <> Some a -> z_uids z' a = z_uids z a).
Proof. exact c03z_fire_l. Qed.
Print Assumptions c03z_fire.

(* patch to 1, re-patch to 2, first discovery completes (goes to universe 2, where the port now is),
   universe 1 is collected, second completes, un-patch erases the entries, a late third is a no-op *)
Example ex_deferred :
  let zc := mkzcfg ex_xcfg (fun p => p =? 1) in
  match zrun zc (zinit zc) [ZY (YX (XBase (Patch 1 1))); ZY (YX (XBase (Patch 1 2))); ZFire 1 [7];
                            ZY (YX (XBase GC)); ZFire 1 [7; 8]] with
  | Some z =>
    map fst (s_store (zbase z)) = [2] /\
    (match sfind 2 (s_store (zbase z)) with Some a => route z a 7 = Some 1 /\ route z a 8 = Some 1 | None => False end) /\
    match zrun zc z [ZY (YX (XBase (Unpatch 1))); ZFire 1 [9]; ZY (YX (XBase GC)); ZFire 1 [9]] with
    | Some z2 => s_store (zbase z2) = [] /\ z_pend z2 1 = 0
    | None => False
    end
  | None => False
  end.
Proof. vm_compute. repeat split; reflexivity. Qed.

(* ====================================================================================================
   Wave 7: device API entry points beyond register / unregister, and scale. *)

(* Device::AddPort with a new port object whose id (and direction) is already used by one of the
   device's ports: the call returns true, nothing changes -- the existing port stays the device's port,
   stays patched and listed, and the new object remains the caller's.  ([zstep] returns the same state.) *)
Theorem c03_addport_duplicate_ignored : forall (zc : zcfg) (ops : list zop) (z : zstate) (p : N),
  zrun zc (zinit zc) ops = Some z ->
  exists r, zstep zc z (ZAddDup p) = ZOk z r /\
    (forall pc dc, port_of (xc_cfg (zc_xc zc)) (zbase z) p = Some pc ->
                   dev_cfg (xc_cfg (zc_xc zc)) (pc_dev pc) = Some dc -> r = RBool true).
Proof. exact c03_addport_duplicate_ignored_l. Qed.
Print Assumptions c03_addport_duplicate_ignored.

(* c03y_gc and c03_gc are stated for any number of unused universes; a concrete instance beyond 16:
   40 universes registered by a client, all released, one collection removes and saves every one *)
Example ex_scale_gc :
  let ns := map N.of_nat (seq 200 40) in
  let zc := mkzcfg ex_xcfg (fun _ => false) in
  match zrun zc (zinit zc) (map (fun n => ZY (YX (XSvcRegister n 1))) ns ++
                            map (fun n => ZY (YX (XSvcUnregister n 1))) ns) with
  | Some z =>
    length (s_store (zbase z)) = 40%nat /\
    match zstep zc z (ZY (YX (XBase GC))) with
    | ZOk z' (RSaved l) => s_store (zbase z') = [] /\ length l = 40%nat
    | _ => False
    end
  | None => False
  end.
Proof. vm_compute. repeat split; reflexivity. Qed.

(* ====================================================================================================
   Wave 8 (Model5.v): the content of the universe settings (name, merge mode: SetName / SetMergeMode,
   restored only when a universe is CREATED, saved with the current values when it is collected) and
   UniverseStore::DeleteAll in mid-history (issued only while no port is patched). *)

(* histories that also contain settings operations and DeleteAll run to the end (nothing dereferences a
   deleted universe) and keep the core invariant *)
Theorem c03w_inv : forall (zc : zcfg) (ops : list wop),
  exists w s, wrun zc (winit zc) ops = Some w /\ s = zbase (w_z w) /\
  (forall o u p, s_heap s o = Live u -> (listed u p <-> s_puniv s p = Some o)) /\
  (forall p o, s_puniv s p = Some o -> exists u, s_heap s o = Live u /\ listed u p) /\
  (forall p, s_pprio s p <= 200) /\
  (forall n o, sfind n (s_store s) = Some o <-> exists u, s_heap s o = Live u /\ u_num u = n) /\
  (forall o u, s_heap s o = Live u -> u_active u = false -> In o (s_cand s)) /\
  (forall o, In o (s_cand s) -> exists u, s_heap s o = Live u) /\
  (forall a uid q, route (w_z w) a uid = Some q -> s_puniv s q = Some a).
Proof. exact c03w_inv_l. Qed.
Print Assumptions c03w_inv.

(* DeleteAll (no port patched) saves and deletes every universe and empties map AND queue: the next
   collection finds nothing to touch *)
Theorem c03w_delete_all : forall (zc : zcfg) (ops : list wop) (w : wstate),
  wrun zc (winit zc) ops = Some w -> any_patched (xc_cfg (zc_xc zc)) (zbase (w_z w)) = false ->
  exists w', wstep zc w WDeleteAll = WOk w' (RSaved (map fst (s_store (zbase (w_z w))))) /\
    s_store (zbase (w_z w')) = [] /\ s_cand (zbase (w_z w')) = [] /\
    (forall o u, s_heap (zbase (w_z w')) o <> Live u) /\
    (forall n a, sfind n (s_store (zbase (w_z w))) = Some a ->
       In (n, a) (s_store (zbase (w_z w)))) /\
    exists w2 l, wstep zc w' (WZ (ZY (YX (XBase GC)))) = WOk w2 (RSaved l) /\ l = [].
Proof. exact c03w_delete_all_l. Qed.
Print Assumptions c03w_delete_all.

(* two lives of universe 5: named 1/HTP, collected (saved), re-created (restored), renamed 2/LTP while a
   second referrer arrives (no restore), collected: the saved settings are the current ones, 2/LTP *)
Example ex_settings_lives :
  let zc := mkzcfg ex_xcfg (fun _ => false) in
  let zy o := WZ (ZY (YX o)) in
  match wrun zc (winit zc) [zy (XSvcRegister 5 1); WSetName 5 2; WSetMode 5 true; zy (XSvcUnregister 5 1);
                            zy (XBase GC); zy (XSvcRegister 5 1)] with
  | Some w =>
    (match sfind 5 (s_store (zbase (w_z w))) with Some a => w_name w a = 2 /\ w_htp w a = true | None => False end) /\
    match wrun zc w [WSetName 5 4; WSetMode 5 false; zy (XSvcRegister 5 2); zy (XSvcUnregister 5 1);
                     zy (XSvcUnregister 5 2); zy (XBase GC)] with
    | Some w2 => w_pname w2 5 = Some 4 /\ w_pmode w2 5 = Some false /\ s_store (zbase (w_z w2)) = []
    | None => False
    end
  | None => False
  end.
Proof. vm_compute. repeat split; reflexivity. Qed.

(* "... and is collected, with its settings saved": in every reachable state and for every operation,
   (a) a universe (number n, object a) that leaves the store in this step -- collected by GC / housekeeping
       or deleted by DeleteAll -- has exactly the name and merge mode it had at that moment saved under n;
   (b) the saved settings of every other number are untouched (so, over a history, the saved settings of n
       are those the universe had when it was LAST collected or deleted);
   (c) a universe created in this step gets exactly the saved name (unless that is empty or absent: then
       the default "Universe <n>", coded 2n+1) and the saved merge mode (LTP if absent). *)
Theorem c03w_saved_settings : forall (zc : zcfg) (ops : list wop) (w w' : wstate) (o : wop) (r : res),
  wrun zc (winit zc) ops = Some w -> wstep zc w o = WOk w' r ->
  (forall n a, sfind n (s_store (zbase (w_z w))) = Some a -> sfind n (s_store (zbase (w_z w'))) <> Some a ->
     w_pname w' n = Some (w_name w a) /\ w_pmode w' n = Some (w_htp w a)) /\
  (forall n, (sfind n (s_store (zbase (w_z w))) = None \/
              sfind n (s_store (zbase (w_z w'))) = sfind n (s_store (zbase (w_z w)))) ->
     w_pname w' n = w_pname w n /\ w_pmode w' n = w_pmode w n) /\
  (forall n a, sfind n (s_store (zbase (w_z w'))) = Some a -> sfind n (s_store (zbase (w_z w))) <> Some a ->
     w_name w' a = (match w_pname w' n with Some v => if v =? 0 then 2 * n + 1 else v | None => 2 * n + 1 end) /\
     w_htp w' a = (match w_pmode w' n with Some b => b | None => false end)).
Proof. exact c03w_saved_settings_l. Qed.
Print Assumptions c03w_saved_settings.

(* two lives of universe 5 and a DeleteAll: first life default name, mode HTP, collected (saved U5/HTP);
   second life restores them, is renamed to "" and set LTP, deleted by DeleteAll (saved ""/LTP); the third
   life gets the default name back (an empty saved name is not restored) and LTP *)
Example ex_saved_settings :
  let zc := mkzcfg ex_xcfg (fun _ => false) in
  let zy o := WZ (ZY (YX o)) in
  match wrun zc (winit zc) [zy (XSvcRegister 5 1); WSetMode 5 true; zy (XSvcUnregister 5 1); zy (XBase GC)] with
  | Some w1 =>
    w_pname w1 5 = Some 11 /\ w_pmode w1 5 = Some true /\
    match wrun zc w1 [zy (XSvcRegister 5 1)] with
    | Some w2 =>
      (match sfind 5 (s_store (zbase (w_z w2))) with Some a => w_name w2 a = 11 /\ w_htp w2 a = true | None => False end) /\
      match wrun zc w2 [WSetName 5 0; WSetMode 5 false; zy (XSvcUnregister 5 1); WDeleteAll; zy (XSvcRegister 5 2)] with
      | Some w3 =>
        w_pname w3 5 = Some 0 /\ w_pmode w3 5 = Some false /\
        (match sfind 5 (s_store (zbase (w_z w3))) with Some a => w_name w3 a = 11 /\ w_htp w3 a = false | None => False end)
      | None => False
      end
    | None => False
    end
  | None => False
  end.
Proof. vm_compute. repeat split; reflexivity. Qed.

(* History-level form (first half of the sentence): [wtrace] is [wrun] carrying along, for every universe
   number n, the (name, merge mode) the universe object numbered n had at the step where it last left the
   store ([left_update]; None if it never did).  After ANY Model5 history the saved settings of every n
   -- in the store or not -- are exactly that: both preferences absent if it never left the store,
   otherwise the name and mode of the object that last left. *)
Theorem c03w_settings_history : forall (zc : zcfg) (ops : list wop),
  exists w g, wtrace zc (winit zc) ops (fun _ => None) = Some (w, g) /\
    wrun zc (winit zc) ops = Some w /\
    forall n, match g n with
              | Some (v, b) => w_pname w n = Some v /\ w_pmode w n = Some b
              | None => w_pname w n = None /\ w_pmode w n = None
              end.
Proof. exact c03w_settings_history_l. Qed.
Print Assumptions c03w_settings_history.

(* the ghost of the two-lives example: after the DeleteAll, number 5 last left the store named "" / LTP *)
Example ex_settings_history :
  let zc := mkzcfg ex_xcfg (fun _ => false) in
  let zy o := WZ (ZY (YX o)) in
  match wtrace zc (winit zc) [zy (XSvcRegister 5 1); WSetMode 5 true; zy (XSvcUnregister 5 1); zy (XBase GC);
                              zy (XSvcRegister 5 1); WSetName 5 0; WSetMode 5 false; zy (XSvcUnregister 5 1);
                              WDeleteAll; zy (XSvcRegister 5 2)] (fun _ => None) with
  | Some (w, g) => g 5 = Some (0, false) /\ g 6 = None /\ w_pname w 5 = Some 0 /\ w_pmode w 5 = Some false
  | None => False
  end.
Proof. vm_compute. repeat split; reflexivity. Qed.
