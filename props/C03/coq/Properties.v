(* C03 — port patching keeps ports, universes and devices mutually consistent.
   Only theorem statements here; proofs are in Lemmas.v / Proofs.v / Proofs2.v.

   [c : cfg] is any configuration: any number of devices with any AllowLooping /
   AllowMultiPortPatching bits, any number of ports, each with any owning device (or none), direction,
   priority capability and any set of universe numbers its plugin vetoes.  [ops] is any history of
   Patch / Unpatch / PrioStatic / PrioInherit / GC / SinkAdd / SinkRem / SrcAdd / SrcRem / Data / Stop
   with arbitrary arguments.  [run] returns None exactly when some operation dereferenced a universe
   object that is not live (outcome Dangling of [step]).  [listed u p] = p is in u's input or output
   port list. *)
From OlaBase Require Import Bytes.
From C03 Require Import Gen Model Lemmas Proofs Proofs2.
Local Open Scope N_scope.

(* the constants regenerated from include/ola/dmx/SourcePriorities.h are the property's numbers *)
Theorem c03_consts : (SOURCE_PRIORITY_MAX, SOURCE_PRIORITY_DEFAULT) = (200, 100).
Proof. reflexivity. Qed.
Print Assumptions c03_consts.

(* After any history, from the initial state of any configuration: no operation dereferenced a
   collected universe (the run exists), and
   (1) a live universe lists a port exactly when the port reports that universe (input ports in the
       input list, output ports in the output list) and the universe a port reports is live;
   (2) a port is on at most one universe, at most once;
   (3) two different ports of one device on the same universe: have the same direction if the device
       forbids looping, have different directions if it forbids multi-port patching;
   (4) priorities are at most 200;
   (5) the store maps n to o exactly when o is a live universe numbered n; every live universe that
       nothing refers to is queued for collection, and queued objects are live;
   and ports deleted by a device stop are unpatched. *)
Theorem c03_inv : forall (c : cfg) (ops : list op),
  exists s, run c (init c) ops = Some s /\
  (forall o u p, s_heap s o = Live u -> (listed u p <-> s_puniv s p = Some o)) /\
  (forall o u p, s_heap s o = Live u -> In p (u_in u) ->
      exists pc, port_cfg c p = Some pc /\ pc_in pc = true) /\
  (forall o u p, s_heap s o = Live u -> In p (u_out u) ->
      exists pc, port_cfg c p = Some pc /\ pc_in pc = false) /\
  (forall p o, s_puniv s p = Some o -> exists u, s_heap s o = Live u /\ listed u p) /\
  (forall o1 o2 u1 u2 p, s_heap s o1 = Live u1 -> s_heap s o2 = Live u2 ->
      listed u1 p -> listed u2 p -> o1 = o2) /\
  (forall o u, s_heap s o = Live u -> NoDup (u_in u) /\ NoDup (u_out u)) /\
  (forall p q pcp pcq dc o, p <> q -> port_cfg c p = Some pcp -> port_cfg c q = Some pcq ->
      pc_dev pcp = pc_dev pcq -> dev_cfg c (pc_dev pcp) = Some dc ->
      s_puniv s p = Some o -> s_puniv s q = Some o ->
      (dc_loop dc = false -> pc_in pcp = pc_in pcq) /\ (dc_multi dc = false -> pc_in pcp <> pc_in pcq)) /\
  (forall p, s_pprio s p <= 200) /\
  (forall n o, sfind n (s_store s) = Some o <-> exists u, s_heap s o = Live u /\ u_num u = n) /\
  (forall o u, s_heap s o = Live u -> u_active u = false -> In o (s_cand s)) /\
  (forall o, In o (s_cand s) -> exists u, s_heap s o = Live u) /\
  (forall p, s_pdead s p = true -> s_puniv s p = None).
Proof. exact c03_inv_l. Qed.
Print Assumptions c03_inv.

(* In every reachable state a patch request completes (no dangling dereference) and returns true
   exactly when the port ended up on a live universe with the requested number. *)
Theorem c03_patch_result : forall (c : cfg) (ops : list op) (s : state) (p n : N),
  run c (init c) ops = Some s ->
  exists s' b, step c s (Patch p n) = Ok s' (RBool b) /\
    (b = true <-> exists o u, s_puniv s' p = Some o /\ s_heap s' o = Live u /\ u_num u = n).
Proof. exact c03_patch_result_l. Qed.
Print Assumptions c03_patch_result.

(* A patch request the plugin vetoes (and that is not a request for the universe the port is already
   on) reports failure and leaves the port on the universe it was on. *)
Theorem c03_veto : forall (c : cfg) (ops : list op) (s : state) (p n : N) (pc : pcfg),
  run c (init c) ops = Some s ->
  port_of c s p = Some pc -> In n (pc_veto pc) ->
  ~ (exists o u, s_puniv s p = Some o /\ s_heap s o = Live u /\ u_num u = n) ->
  exists s', step c s (Patch p n) = Ok s' (RBool false) /\ s_puniv s' p = s_puniv s p.
Proof. exact c03_veto_l. Qed.
Print Assumptions c03_veto.

(* Garbage collection in any reachable state: the settings-save log [l] contains exactly the numbers of
   the universes nothing referred to, each once; those objects are freed; every universe in use
   survives unchanged; afterwards no unused universe is left and the queue is empty. *)
Theorem c03_gc : forall (c : cfg) (ops : list op) (s : state),
  run c (init c) ops = Some s ->
  exists s' l, step c s GC = Ok s' (RSaved l) /\ s_cand s' = [] /\
    (forall n, In n l <-> exists o u, s_heap s o = Live u /\ u_active u = false /\ u_num u = n) /\
    NoDup l /\
    (forall o u, s_heap s o = Live u -> u_active u = true -> s_heap s' o = Live u) /\
    (forall o u, s_heap s o = Live u -> u_active u = false -> s_heap s' o = Freed) /\
    (forall o u, s_heap s' o = Live u -> s_heap s o = Live u /\ u_active u = true).
Proof. exact c03_gc_l. Qed.
Print Assumptions c03_gc.

(* A universe exists for as long as anything refers to it: the only operation after which a live
   universe object is no longer live is GC, and only if no port or client referred to it. *)
Theorem c03_lifetime : forall (c : cfg) (ops : list op) (s s' : state) (o : op) (r : res) (x : N) (u : uni),
  run c (init c) ops = Some s -> step c s o = Ok s' r -> s_heap s x = Live u ->
  (exists u', s_heap s' x = Live u' /\ u_num u' = u_num u) \/
  (o = GC /\ u_active u = false /\ s_heap s' x = Freed).
Proof. exact c03_lifetime_l. Qed.
Print Assumptions c03_lifetime.

(* Data arriving on a patched input port always finds the port in its (live) universe. *)
Theorem c03_data : forall (c : cfg) (ops : list op) (s : state) (p o : N) (pc : pcfg),
  run c (init c) ops = Some s -> port_of c s p = Some pc -> pc_in pc = true -> s_puniv s p = Some o ->
  step c s (Data p) = Ok s (RBool true).
Proof. exact c03_data_l. Qed.
Print Assumptions c03_data.

(* ---------- the hypotheses are satisfiable and the hazard is expressible *)
(* one device forbidding looping and multi-port patching; port 0 input vetoing universe 2, port 1 output *)
Definition ex_cfg : cfg :=
  mkcfg [mkpcfg 0 true CapStatic [2]; mkpcfg 0 false CapFull []] [mkdcfg false false].

(* patch, vetoed re-patch, collect, data: the port is still on universe 1, which is still live *)
Example ex_veto_history :
  match run ex_cfg (init ex_cfg) [Patch 0 1; Patch 0 2; GC; Data 0] with
  | Some s => port_unum s 0 = Some (Some 1) /\ map fst (s_store s) = [1]
  | None => False
  end.
Proof. vm_compute. split; reflexivity. Qed.

Example ex_veto_result :
  match run ex_cfg (init ex_cfg) [Patch 0 1] with
  | Some s => match step ex_cfg s (Patch 0 2) with Ok _ (RBool false) => True | _ => False end
  | None => False
  end.
Proof. vm_compute. exact I. Qed.

(* the looping policy refuses the output port on the input port's universe *)
Example ex_loop_refused :
  match run ex_cfg (init ex_cfg) [Patch 0 1] with
  | Some s => match step ex_cfg s (Patch 1 1) with Ok _ (RBool false) => True | _ => False end
  | None => False
  end.
Proof. vm_compute. exact I. Qed.

(* the hazard outcome is reachable in the model from a state that violates the invariant (a port
   left pointing at a collected object), i.e. Dangling is not excluded by construction *)
Example ex_dangling_expressible :
  let s := init ex_cfg in
  let bad := set_puniv s (upd (s_puniv s) 0 (Some 7)) in
  step ex_cfg bad (Data 0) = Dangling /\ step ex_cfg bad (Patch 1 3) = Dangling.
Proof. vm_compute. split; reflexivity. Qed.

(* an unused universe is collected and its settings saved once *)
Example ex_gc_collects :
  match run ex_cfg (init ex_cfg) [Patch 1 5; Unpatch 1] with
  | Some s => match step ex_cfg s GC with Ok s' (RSaved l) => l = [5] /\ s_store s' = [] | _ => False end
  | None => False
  end.
Proof. vm_compute. split; reflexivity. Qed.
