(* C03 round 2 — extension of Model.v:
   * a state-dependent plugin veto: PreSetUniverse(old, new) may depend on the port, on the requested
     universe number (None = un-patch) and on the current patching of every port of the same device
     (ShowNet's hook looks at its sibling port); any function of these is allowed;
   * PortBroker membership (PortBroker::m_ports);
   * DeviceManager::RegisterDevice / UnregisterDevice / UnregisterAllDevices with the port preferences
     they read and write (patching, priority value, priority mode);
   * OlaServerServiceImpl::RegisterForDmx (REGISTER / UNREGISTER, with fixes/03).
   GenericUnPatchPort is modelled with fixes/02 (a refused un-patch leaves everything untouched). *)
From OlaBase Require Import Bytes.
From C03 Require Import Gen Model.
Local Open Scope N_scope.

(* what a PreSetUniverse hook may look at besides the requested universe: for every port the device
   still owns, its index and the number of the universe it is patched to *)
Definition view := list (N * option N).

Record xcfg := mkxcfg {
  xc_cfg : cfg;
  xc_veto : N -> option N -> view -> bool;   (* port, requested universe (None = NULL), siblings *)
  xc_puni : N -> option N;                   (* preloaded port preferences: "<port id>" *)
  xc_pprio : N -> option N;                  (* "<port id>_priority_value" *)
  xc_pmode : N -> option N }.                (* "<port id>_priority_mode" *)

Record xstate := mkx {
  x_s : state;
  x_broker : N -> bool;       (* port is in PortBroker::m_ports *)
  x_reg : N -> bool;          (* device is registered with the DeviceManager *)
  x_puni : N -> option N;     (* port preferences *)
  x_pprio : N -> option N;
  x_pmode : N -> option N }.

Definition xinit (xc : xcfg) : xstate :=
  mkx (init (xc_cfg xc)) (fun _ => false) (fun _ => false) (xc_puni xc) (xc_pprio xc) (xc_pmode xc).

Definition set_xs (x : xstate) (s : state) : xstate :=
  mkx s (x_broker x) (x_reg x) (x_puni x) (x_pprio x) (x_pmode x).
Definition set_xbroker (x : xstate) b : xstate :=
  mkx (x_s x) b (x_reg x) (x_puni x) (x_pprio x) (x_pmode x).
Definition set_xreg (x : xstate) r : xstate :=
  mkx (x_s x) (x_broker x) r (x_puni x) (x_pprio x) (x_pmode x).

Inductive xoutcome := XOk (x : xstate) (r : res) | XDangling.

(* the sibling view; None = a sibling's universe pointer dangles (the hook would dereference it) *)
Fixpoint mk_view (s : state) (ps : list N) : option view :=
  match ps with
  | [] => Some []
  | q :: r =>
    match port_unum s q, mk_view s r with
    | Some un, Some v => Some ((q, un) :: v)
    | _, _ => None
    end
  end.

Definition sib_view (c : cfg) (s : state) (pc : pcfg) : option view :=
  mk_view s (dev_ports c s (pc_dev pc) true ++ dev_ports c s (pc_dev pc) false).

(* PortManager::PatchPort with PortBroker bookkeeping.  The view is computed eagerly (the code only
   evaluates the hook when it reaches SetUniverse); its dereferences are a superset of the code's. *)
Definition xpatch (xc : xcfg) (x : xstate) (p n : N) : xoutcome :=
  let c := xc_cfg xc in
  let s := x_s x in
  match port_of c s p with
  | None => XOk x (RBool false)
  | Some pc =>
    match sib_view c s pc with
    | None => XDangling
    | Some v =>
      let vt := veto pc n || xc_veto xc p (Some n) v in
      let already := match port_unum s p with Some (Some m) => m =? n | _ => false end in
      match patch_v (fun _ => vt) c s p n with
      | Dangling => XDangling
      | Ok s' (RBool true) =>
        (* m_broker->RemovePort(port) (if it was patched); m_broker->AddPort(port) *)
        XOk (set_xbroker (set_xs x s') (if already then x_broker x else upd (x_broker x) p true)) (RBool true)
      | Ok s' r => XOk (set_xs x s') r
      end
    end
  end.

(* PortManager::UnPatchPort *)
Definition xunpatch (xc : xcfg) (x : xstate) (p : N) : xoutcome :=
  let c := xc_cfg xc in
  let s := x_s x in
  match port_of c s p with
  | None => XOk x (RBool false)
  | Some pc =>
    match sib_view c s pc with
    | None => XDangling
    | Some v =>
      let vt := xc_veto xc p None v in
      match unpatch_v (fun _ => vt) c s p with
      | Dangling => XDangling
      | Ok s' (RBool true) => XOk (set_xbroker (set_xs x s') (upd (x_broker x) p false)) (RBool true)
      | Ok s' r => XOk (set_xs x s') r
      end
    end
  end.

(* lift an operation that only touches the base state *)
Definition xlift (x : xstate) (o : outcome) : xoutcome :=
  match o with Ok s' r => XOk (set_xs x s') r | Dangling => XDangling end.

(* ---------- DeviceManager *)
(* RestorePortPriority *)
Definition restore_prio (c : cfg) (x : xstate) (q : N) (pc : pcfg) : xoutcome :=
  match pc_cap pc with
  | CapNone => XOk x RUnit
  | _ =>
    match x_pprio x q, x_pmode x q with
    | None, None => XOk x RUnit
    | pv, pm =>
      (* StringToInt(priority_str, &uint8) succeeds for 0..255 *)
      let o1 := match pv with
                | Some v => if v <? U8_LIMIT then xlift x (prio_static c (x_s x) q v) else XOk x RUnit
                | None => XOk x RUnit end in
      match o1 with
      | XDangling => XDangling
      | XOk x1 _ =>
        match pm with
        | Some m => if (m <? U8_LIMIT) && (m =? PRIORITY_MODE_INHERIT)
                    then xlift x1 (prio_inherit c (x_s x1) q) else XOk x1 RUnit
        | None => XOk x1 RUnit
        end
      end
    end
  end.

(* RestorePortSettings over a port list: priority, then the saved patching through PatchPort *)
Fixpoint restore_loop (xc : xcfg) (ps : list N) (x : xstate) : option xstate :=
  match ps with
  | [] => Some x
  | q :: r =>
    match port_of (xc_cfg xc) (x_s x) q with
    | None => restore_loop xc r x
    | Some pc =>
      match restore_prio (xc_cfg xc) x q pc with
      | XDangling => None
      | XOk x1 _ =>
        match x_puni x1 q with
        | None => restore_loop xc r x1
        | Some n =>
          if n <? UINT_LIMIT then
            match xpatch xc x1 q n with
            | XDangling => None
            | XOk x2 _ => restore_loop xc r x2     (* PatchPort's result is ignored *)
            end
          else restore_loop xc r x1
        end
      end
    end
  end.

Definition xregister (xc : xcfg) (x : xstate) (d : N) : xoutcome :=
  let c := xc_cfg xc in
  match dev_cfg c d with
  | None => XOk x RUnit
  | Some _ =>
    if x_reg x d then XOk x (RBool false)                 (* already registered *)
    else
      match restore_loop xc (dev_ports c (x_s x) d true ++ dev_ports c (x_s x) d false) x with
      | None => XDangling
      | Some x' => XOk (set_xreg x' (upd (x_reg x') d true)) (RBool true)
      end
  end.

(* ReleaseDevice: SavePortPatchings (dereferences each port's universe), SavePortPriority *)
Fixpoint save_loop (c : cfg) (ps : list N) (x : xstate) : option xstate :=
  match ps with
  | [] => Some x
  | q :: r =>
    match port_cfg c q with
    | None => save_loop c r x
    | Some pc =>
      match port_unum (x_s x) q with
      | None => None
      | Some un =>
        let s := x_s x in
        let pp := match pc_cap pc with CapNone => x_pprio x | _ => upd (x_pprio x) q (Some (s_pprio s q)) end in
        let pm := match pc_cap pc with
                  | CapFull => upd (x_pmode x) q
                                   (Some (if s_pinh s q then PRIORITY_MODE_INHERIT else PRIORITY_MODE_STATIC))
                  | _ => x_pmode x end in
        save_loop c r (mkx s (x_broker x) (x_reg x) (upd (x_puni x) q un) pp pm)
      end
    end
  end.

Definition release (c : cfg) (x : xstate) (d : N) : option xstate :=
  save_loop c (dev_ports c (x_s x) d true ++ dev_ports c (x_s x) d false) x.

Definition xunregister (xc : xcfg) (x : xstate) (d : N) : xoutcome :=
  let c := xc_cfg xc in
  match dev_cfg c d with
  | None => XOk x RUnit
  | Some _ =>
    if x_reg x d then
      match release c x d with
      | None => XDangling
      | Some x' => XOk (set_xreg x' (upd (x_reg x') d false)) (RBool true)
      end
    else XOk x (RBool false)
  end.

Fixpoint unregister_all_loop (c : cfg) (ds : list N) (x : xstate) : option xstate :=
  match ds with
  | [] => Some x
  | d :: r =>
    if x_reg x d then
      match release c x d with
      | None => None
      | Some x' => unregister_all_loop c r (set_xreg x' (upd (x_reg x') d false))
      end
    else unregister_all_loop c r x
  end.

Definition xunregister_all (xc : xcfg) (x : xstate) : xoutcome :=
  match unregister_all_loop (xc_cfg xc) (N_seq (length (c_devs (xc_cfg xc)))) x with
  | None => XDangling
  | Some x' => XOk x' RUnit
  end.

Inductive xop :=
| XBase (o : op)
| XRegister (d : N) | XUnregister (d : N) | XUnregisterAll
| XSvcRegister (n cl : N)        (* RegisterForDmx, action REGISTER *)
| XSvcUnregister (n cl : N).     (* RegisterForDmx, action UNREGISTER (fixes/03: GetUniverse) *)

Definition xstep (xc : xcfg) (x : xstate) (o : xop) : xoutcome :=
  match o with
  | XBase (Patch p n) => xpatch xc x p n
  | XBase (Unpatch p) => xunpatch xc x p
  | XBase b => xlift x (step (xc_cfg xc) (x_s x) b)
  | XRegister d => xregister xc x d
  | XUnregister d => xunregister xc x d
  | XUnregisterAll => xunregister_all xc x
  | XSvcRegister n cl => xlift x (sink_add (x_s x) n cl)
  | XSvcUnregister n cl => xlift x (sink_rem (x_s x) n cl)
  end.

Fixpoint xrun (xc : xcfg) (x : xstate) (ops : list xop) : option xstate :=
  match ops with
  | [] => Some x
  | o :: r => match xstep xc x o with XOk x' _ => xrun xc x' r | XDangling => None end
  end.
