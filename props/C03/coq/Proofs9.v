(* C03 final round — the saved universe settings are the settings the universe had when it left the
   store, and a re-created universe restores exactly those. *)
From OlaBase Require Import Bytes.
From C03 Require Import Gen Model Lemmas Proofs Proofs2 Model2 Proofs3 Proofs4 Model3 Proofs5 Proofs6 Model4 Proofs7 Model5 Proofs8.
Local Open Scope N_scope.

Lemma sfind_key n l a : sfind n l = Some a -> In n (map fst l).
Proof.
  induction l as [|(k & v) r IH]; cbn; [discriminate|].
  destruct (N.eqb_spec k n) as [->|Ne]; [intros _; left; reflexivity | intros H; right; exact (IH H)].
Qed.

Lemma opt_eqb_false_ne a b : opt_eqb a b = false -> a <> b.
Proof.
  intros H ->. destruct b as [x|]; cbn in H; [rewrite N.eqb_refl in H|]; discriminate.
Qed.
Lemma opt_eqb_refl a : opt_eqb a a = true.
Proof. destruct a; cbn; [apply N.eqb_refl | reflexivity]. Qed.

Lemma in_moved st st' n a :
  In (n, a) (moved st st') <-> sfind n st = Some a /\ sfind n st' <> Some a.
Proof.
  unfold moved. rewrite in_flat_map. split.
  - intros (k & Hk & Hin). destruct (sfind k st) as [b|] eqn:E; [|destruct Hin].
    destruct (opt_eqb (sfind k st') (Some b)) eqn:Eo; [destruct Hin|].
    destruct Hin as [Hin|[]]. injection Hin as <- <-. split; [exact E | exact (opt_eqb_false_ne _ _ Eo)].
  - intros (E & Hne). exists n. split; [exact (sfind_key n st a E)|]. rewrite E.
    destruct (opt_eqb (sfind n st') (Some a)) eqn:Eo; [|left; reflexivity].
    exfalso. apply Hne. exact (opt_eqb_true _ _ Eo).
Qed.

(* folding keyed updates whose bindings are functional *)
Lemma fold_upd_key {A} (g : N * N -> A) (l : list (N * N)) : forall (f0 : N -> option A) n,
  (forall e1 e2, In e1 l -> In e2 l -> fst e1 = fst e2 -> e1 = e2) ->
  (forall e, In e l -> fst e = n ->
     fold_left (fun f e0 => upd f (fst e0) (Some (g e0))) l f0 n = Some (g e)) /\
  ((forall e, In e l -> fst e <> n) ->
     fold_left (fun f e0 => upd f (fst e0) (Some (g e0))) l f0 n = f0 n).
Proof.
  induction l as [|x r IH]; intros f0 n Hu; cbn [fold_left].
  - split; [intros e [] | reflexivity].
  - assert (forall e1 e2, In e1 r -> In e2 r -> fst e1 = fst e2 -> e1 = e2) as Hu'
      by (intros e1 e2 H1 H2; apply Hu; right; assumption).
    destruct (IH (upd f0 (fst x) (Some (g x))) n Hu') as (IH1 & IH2). split.
    + intros e [<-|Hin] Hk.
      * destruct (in_dec (fun a b => N.eq_dec a b) n (map fst r)) as [Hi|Hn].
        -- apply in_map_iff in Hi. destruct Hi as (e2 & Hk2 & Hin2).
           assert (x = e2) as -> by (apply Hu; [left; reflexivity | right; exact Hin2 | congruence]).
           exact (IH1 e2 Hin2 Hk2).
        -- rewrite IH2; [subst n; apply upd_eq|].
           intros e2 Hin2 Hk2. apply Hn. apply in_map_iff. exists e2. tauto.
      * exact (IH1 e Hin Hk).
    + intros Hn. rewrite IH2 by (intros e Hin; apply Hn; right; exact Hin).
      apply upd_neq. intros E. exact (Hn x (or_introl eq_refl) (eq_sym E)).
Qed.

Lemma moved_fun st st' e1 e2 :
  In e1 (moved st st') -> In e2 (moved st st') -> fst e1 = fst e2 -> e1 = e2.
Proof.
  destruct e1 as (n1 & a1), e2 as (n2 & a2). cbn. intros H1 H2 ->.
  apply in_moved in H1. apply in_moved in H2. destruct H1 as (A & _). destruct H2 as (B & _). congruence.
Qed.

(* the same for updates keyed by the object (second component) *)
Lemma fold_upd_obj {A} (g : N * N -> A) (l : list (N * N)) : forall (f0 : N -> A) a,
  (forall e1 e2, In e1 l -> In e2 l -> snd e1 = snd e2 -> e1 = e2) ->
  (forall e, In e l -> snd e = a ->
     fold_left (fun f e0 => upd f (snd e0) (g e0)) l f0 a = g e).
Proof.
  induction l as [|x r IH]; intros f0 a Hu e Hin Hk; [destruct Hin|]. cbn [fold_left].
  assert (forall e1 e2, In e1 r -> In e2 r -> snd e1 = snd e2 -> e1 = e2) as Hu'
    by (intros e1 e2 H1 H2; apply Hu; right; assumption).
  destruct (in_dec (fun p q => N.eq_dec p q) a (map snd r)) as [Hi|Hn].
  - apply in_map_iff in Hi. destruct Hi as (e2 & Hk2 & Hin2).
    assert (e = e2) as -> by (apply Hu; [exact Hin | right; exact Hin2 | congruence]).
    exact (IH _ a Hu' e2 Hin2 Hk2).
  - destruct Hin as [<-|Hin]; [|exfalso; apply Hn; apply in_map_iff; exists e; tauto].
    assert (forall l2 (f1 : N -> A), (forall e2, In e2 l2 -> snd e2 <> a) ->
              fold_left (fun f e0 => upd f (snd e0) (g e0)) l2 f1 a = f1 a) as Skip.
    { induction l2 as [|y r2 IH2]; intros f1 Hne; cbn [fold_left]; [reflexivity|].
      rewrite IH2 by (intros e2 H2; apply Hne; right; exact H2).
      apply upd_neq. intros E. exact (Hne y (or_introl eq_refl) (eq_sym E)). }
    rewrite Skip; [subst a; apply upd_eq|].
    intros e2 Hin2 Hk2. apply Hn. apply in_map_iff. exists e2. tauto.
Qed.

(* ---------- what one settle does *)
Lemma settle_saved st st' w z' :
  (forall n a, sfind n st = Some a -> sfind n st' <> Some a ->
     w_pname (settle st st' w z') n = Some (w_name w a) /\ w_pmode (settle st st' w z') n = Some (w_htp w a)) /\
  (forall n, (sfind n st = None \/ sfind n st' = sfind n st) ->
     w_pname (settle st st' w z') n = w_pname w n /\ w_pmode (settle st st' w z') n = w_pmode w n).
Proof.
  cbn [settle w_pname w_pmode]. split.
  - intros n a E Hne. assert (In (n, a) (moved st st')) as Hin by (apply in_moved; tauto). split.
    + exact (proj1 (fold_upd_key (fun e => w_name w (snd e)) (moved st st') (w_pname w) n (moved_fun st st'))
                   (n, a) Hin eq_refl).
    + exact (proj1 (fold_upd_key (fun e => w_htp w (snd e)) (moved st st') (w_pmode w) n (moved_fun st st'))
                   (n, a) Hin eq_refl).
  - intros n Hn.
    assert (forall e, In e (moved st st') -> fst e <> n) as Hno.
    { intros (k & a) Hin Hk. cbn in Hk. subst k. apply in_moved in Hin. destruct Hin as (A & B).
      destruct Hn as [Hn|Hn]; [congruence | apply B; congruence]. }
    split.
    + exact (proj2 (fold_upd_key (fun e => w_name w (snd e)) (moved st st') (w_pname w) n (moved_fun st st')) Hno).
    + exact (proj2 (fold_upd_key (fun e => w_htp w (snd e)) (moved st st') (w_pmode w) n (moved_fun st st')) Hno).
Qed.

Lemma settle_restored st st' w z' :
  (forall n1 n2 a, sfind n1 st' = Some a -> sfind n2 st' = Some a -> n1 = n2) ->
  forall n a, sfind n st' = Some a -> sfind n st <> Some a ->
    w_name (settle st st' w z') a =
      (match w_pname (settle st st' w z') n with Some v => if v =? 0 then 2 * n + 1 else v | None => 2 * n + 1 end) /\
    w_htp (settle st st' w z') a =
      (match w_pmode (settle st st' w z') n with Some b => b | None => false end).
Proof.
  intros Hinj n a E Hne. assert (In (n, a) (moved st' st)) as Hin by (apply in_moved; tauto).
  assert (forall e1 e2, In e1 (moved st' st) -> In e2 (moved st' st) -> snd e1 = snd e2 -> e1 = e2) as Hu.
  { intros (n1 & a1) (n2 & a2) H1 H2 Hk. cbn in Hk. subst a2.
    apply in_moved in H1. apply in_moved in H2. destruct H1 as (A & _). destruct H2 as (B & _).
    rewrite (Hinj n1 n2 a1 A B). reflexivity. }
  cbn [settle w_name w_htp w_pname w_pmode]. split.
  - rewrite (fold_upd_obj _ (moved st' st) (w_name w) a Hu (n, a) Hin eq_refl). reflexivity.
  - rewrite (fold_upd_obj _ (moved st' st) (w_htp w) a Hu (n, a) Hin eq_refl). reflexivity.
Qed.

(* ---------- the statement of Properties.v *)
Lemma c03w_saved_settings_l : forall (zc : zcfg) (ops : list wop) (w w' : wstate) (o : wop) (r : res),
  wrun zc (winit zc) ops = Some w -> wstep zc w o = WOk w' r ->
  (forall n a, sfind n (s_store (zbase (w_z w))) = Some a -> sfind n (s_store (zbase (w_z w'))) <> Some a ->
     w_pname w' n = Some (w_name w a) /\ w_pmode w' n = Some (w_htp w a)) /\
  (forall n, (sfind n (s_store (zbase (w_z w))) = None \/
              sfind n (s_store (zbase (w_z w'))) = sfind n (s_store (zbase (w_z w)))) ->
     w_pname w' n = w_pname w n /\ w_pmode w' n = w_pmode w n) /\
  (forall n a, sfind n (s_store (zbase (w_z w'))) = Some a -> sfind n (s_store (zbase (w_z w))) <> Some a ->
     w_name w' a = (match w_pname w' n with Some v => if v =? 0 then 2 * n + 1 else v | None => 2 * n + 1 end) /\
     w_htp w' a = (match w_pmode w' n with Some b => b | None => false end)).
Proof.
  intros zc ops w w' o r H E.
  destruct (wrun_inv zc ops (winit zc) (zinit_inv zc)) as (w0 & E0 & WI). assert (w0 = w) as -> by congruence.
  assert (WInv zc w') as WI'.
  { destruct (wstep_inv zc w o WI) as (w2 & r2 & E2 & WI2). congruence. }
  assert (forall n1 n2 a, sfind n1 (s_store (zbase (w_z w'))) = Some a ->
                          sfind n2 (s_store (zbase (w_z w'))) = Some a -> n1 = n2) as Hinj.
  { intros n1 n2 a A B. destruct WI' as ((I & _) & _).
    destruct (store_live _ _ n1 a I A) as (u1 & H1 & N1). destruct (store_live _ _ n2 a I B) as (u2 & H2 & N2).
    congruence. }
  destruct o as [zo | | n v | n b]; cbn [wstep] in E.
  - destruct (zstep zc (w_z w) zo) as [z' r'|] eqn:Ez; [|discriminate]. injection E as <- _.
    rewrite settle_z in *.
    split; [exact (proj1 (settle_saved _ _ w z'))|]. split; [exact (proj2 (settle_saved _ _ w z'))|].
    exact (settle_restored _ _ w z' Hinj).
  - destruct (any_patched (xc_cfg (zc_xc zc)) (zbase (w_z w))).
    + injection E as <- _. split; [intros n a A B; contradiction|]. split; [tauto|]. intros n a A B; contradiction.
    + injection E as <- _. rewrite settle_z in *. cbn [zbase z_y y_x x_s set_xs s_store delete_all_state] in *.
      split; [exact (proj1 (settle_saved _ [] w _))|]. split; [exact (proj2 (settle_saved _ [] w _))|].
      intros n a A. discriminate.
  - destruct (sfind n (s_store (zbase (w_z w)))); injection E as <- _; cbn [w_z w_pname w_pmode];
      (split; [intros k0 a0 A B; contradiction|]; split; [tauto|]; intros k0 a0 A B; contradiction).
  - destruct (sfind n (s_store (zbase (w_z w)))); injection E as <- _; cbn [w_z w_pname w_pmode];
      (split; [intros k0 a0 A B; contradiction|]; split; [tauto|]; intros k0 a0 A B; contradiction).
Qed.
