(* C03 wave 8 — the CONTENT of the universe settings (name, merge mode) across several lives of a universe
   number, and UniverseStore::DeleteAll in mid-history.
   UniverseStore::GetUniverseOrCreate restores name / merge mode from the preferences only when it
   CREATES the universe; SaveUniverseSettings (at collection and in DeleteAll) writes the current ones.
   Creation and collection happen inside the operations of the lower layers; they are recognised here by
   comparing the store before and after an operation. *)
From OlaBase Require Import Bytes.
From C03 Require Import Gen Model Model2 Model3 Model4.
Local Open Scope N_scope.

Record wstate := mkw {
  w_z : zstate;
  w_name : N -> N;             (* universe object -> Name() (0 = the empty string) *)
  w_htp : N -> bool;           (* universe object -> MergeMode() == MERGE_HTP *)
  w_pname : N -> option N;     (* universe number -> preference "uni_<n>_name" *)
  w_pmode : N -> option bool } (* universe number -> preference "uni_<n>_merge" == "HTP" *).

Definition winit (zc : zcfg) : wstate :=
  mkw (zinit zc) (fun _ => 0) (fun _ => false) (fun _ => None) (fun _ => None).

Inductive woutcome := WOk (w : wstate) (r : res) | WDangling.

Inductive wop :=
| WZ (o : zop)
| WDeleteAll                    (* UniverseStore::DeleteAll; only issued while no port is patched *)
| WSetName (n v : N)            (* GetUniverse(n)->SetName(v) *)
| WSetMode (n : N) (htp : bool) (* GetUniverse(n)->SetMergeMode *).

(* save the settings of the universes that left the store, restore those of the ones that appeared *)
(* the (number, object) bindings of st that st' does not have (each key of st looked up) *)
Definition moved (st st' : list (N * N)) : list (N * N) :=
  flat_map (fun n => match sfind n st with
                     | Some a => if opt_eqb (sfind n st') (Some a) then [] else [(n, a)]
                     | None => [] end) (map fst st).

Definition settle (st st' : list (N * N)) (w : wstate) (z' : zstate) : wstate :=
  let gone := moved st st' in
  let born := moved st' st in
  let pname := fold_left (fun f e => upd f (fst e) (Some (w_name w (snd e)))) gone (w_pname w) in
  let pmode := fold_left (fun f e => upd f (fst e) (Some (w_htp w (snd e)))) gone (w_pmode w) in
  (* names are coded: 2*k = the string chosen by SetName (0 = ""), 2*n+1 = the constructor's default
     "Universe <n>"; RestoreUniverseSettings applies a saved name only if it is not empty *)
  let name := fold_left (fun f e => upd f (snd e)
                           (match pname (fst e) with
                            | Some v => if v =? 0 then 2 * fst e + 1 else v
                            | None => 2 * fst e + 1 end))
                        born (w_name w) in
  let htp := fold_left (fun f e => upd f (snd e) (match pmode (fst e) with Some b => b | None => false end))
                       born (w_htp w) in
  mkw z' name htp pname pmode.

Definition any_patched (c : cfg) (s : state) : bool :=
  existsb (fun p => match s_puniv s p with Some _ => true | None => false end) (N_seq (length (c_ports c))).

(* the base state after DeleteAll: every universe deleted, map and queue cleared *)
Definition delete_all_state (s : state) : state :=
  mkstate (s_puniv s) (s_pprio s) (s_pinh s) (s_pdead s)
          (fun o => match s_heap s o with Live _ => Freed | cl => cl end) [] [] (s_next s).

Definition wstep (zc : zcfg) (w : wstate) (o : wop) : woutcome :=
  let z := w_z w in
  let s := zbase z in
  match o with
  | WZ zo =>
    match zstep zc z zo with
    | ZDangling => WDangling
    | ZOk z' r => WOk (settle (s_store s) (s_store (zbase z')) w z') r
    end
  | WDeleteAll =>
    if any_patched (xc_cfg (zc_xc zc)) s then WOk w RUnit
    else
      let y := z_y z in
      let z' := mkz (mky (set_xs (y_x y) (delete_all_state s)) (y_stale y)) (z_pend z) (fun _ => []) in
      WOk (settle (s_store s) [] w z') (RSaved (map fst (s_store s)))
  | WSetName n v =>
    match sfind n (s_store s) with
    | Some a => WOk (mkw z (upd (w_name w) a v) (w_htp w) (w_pname w) (w_pmode w)) (RBool true)
    | None => WOk w RUnit
    end
  | WSetMode n b =>
    match sfind n (s_store s) with
    | Some a => WOk (mkw z (w_name w) (upd (w_htp w) a b) (w_pname w) (w_pmode w)) (RBool true)
    | None => WOk w RUnit
    end
  end.

Fixpoint wrun (zc : zcfg) (w : wstate) (ops : list wop) : option wstate :=
  match ops with
  | [] => Some w
  | o :: r => match wstep zc w o with WOk w' _ => wrun zc w' r | WDangling => None end
  end.
