(* C03 — executable model of port patching (olad/plugin_api PortManager / Port / Universe port+client
   lists / UniverseStore / Device::Stop), with the fix props/C03/fixes/01 applied to GenericPatchPort.

   Universes are heap objects with identity: [s_heap : obj_id -> cell].  A port holds [option obj_id]
   (BasicInputPort/BasicOutputPort::m_universe).  Every C++ dereference of a Universe* goes through
   [deref]; dereferencing an object that is not live is the outcome [Dangling].  Object ids are never
   reused (fresh counter), so a stale pointer can never be mistaken for a live object.

   Ports are numbered 0..; their static attributes (device, direction, priority capability, the set
   of universe numbers the plugin's PreSetUniverse vetoes) and the devices' two policy bits form the
   configuration [cfg], over which all theorems quantify. *)
From OlaBase Require Import Bytes.
From C03 Require Import Gen.
Local Open Scope N_scope.

(* ---------- configuration *)
Inductive cap := CapNone | CapStatic | CapFull.      (* port_priority_capability *)
Record pcfg := mkpcfg {
  pc_dev : N;            (* index of the owning device; out of range = GetDevice() == NULL *)
  pc_in : bool;          (* true = InputPort, false = OutputPort *)
  pc_cap : cap;
  pc_veto : list N }.    (* universe numbers for which PreSetUniverse(old, new) returns false *)
Record dcfg := mkdcfg { dc_loop : bool; dc_multi : bool }.   (* AllowLooping, AllowMultiPortPatching *)
Record cfg := mkcfg { c_ports : list pcfg; c_devs : list dcfg }.

Definition port_cfg (c : cfg) (p : N) : option pcfg := nth_error (c_ports c) (N.to_nat p).
Definition dev_cfg (c : cfg) (d : N) : option dcfg := nth_error (c_devs c) (N.to_nat d).

(* ---------- state *)
Record uni := mkuni {
  u_num : N;             (* m_universe_id *)
  u_in : list N;         (* m_input_ports (vector, insertion order) *)
  u_out : list N;        (* m_output_ports *)
  u_src : list N;        (* m_source_clients (keys) *)
  u_sink : list N }.     (* m_sink_clients *)
Inductive cell := Unalloc | Live (u : uni) | Freed.

Record state := mkstate {
  s_puniv : N -> option N;   (* port -> m_universe *)
  s_pprio : N -> N;          (* port -> m_priority *)
  s_pinh : N -> bool;        (* port -> m_priority_mode == PRIORITY_MODE_INHERIT *)
  s_pdead : N -> bool;       (* port deleted by Device::Stop *)
  s_heap : N -> cell;
  s_store : list (N * N);    (* UniverseStore::m_universe_map : number -> object *)
  s_cand : list N;           (* UniverseStore::m_deletion_candidates *)
  s_next : N }.              (* allocator: next fresh object id *)

Definition upd {A} (f : N -> A) (k : N) (v : A) : N -> A := fun x => if x =? k then v else f x.

Definition set_puniv (s : state) f := mkstate f (s_pprio s) (s_pinh s) (s_pdead s) (s_heap s) (s_store s) (s_cand s) (s_next s).
Definition set_pprio (s : state) f := mkstate (s_puniv s) f (s_pinh s) (s_pdead s) (s_heap s) (s_store s) (s_cand s) (s_next s).
Definition set_pinh (s : state) f := mkstate (s_puniv s) (s_pprio s) f (s_pdead s) (s_heap s) (s_store s) (s_cand s) (s_next s).
Definition set_pdead (s : state) f := mkstate (s_puniv s) (s_pprio s) (s_pinh s) f (s_heap s) (s_store s) (s_cand s) (s_next s).
Definition set_heap (s : state) h := mkstate (s_puniv s) (s_pprio s) (s_pinh s) (s_pdead s) h (s_store s) (s_cand s) (s_next s).
Definition set_cand (s : state) l := mkstate (s_puniv s) (s_pprio s) (s_pinh s) (s_pdead s) (s_heap s) (s_store s) l (s_next s).

(* Basic*Port constructors: priority 100; input ports static mode, output ports inherit mode *)
Definition init (c : cfg) : state :=
  mkstate (fun _ => None) (fun _ => SOURCE_PRIORITY_DEFAULT)
          (fun p => match port_cfg c p with Some pc => negb (pc_in pc) | None => false end)
          (fun _ => false) (fun _ => Unalloc) [] [] 0.

Inductive res := RBool (b : bool) | RSaved (l : list N) | RUnit.
Inductive outcome := Ok (s : state) (r : res) | Dangling.

Definition deref (s : state) (o : N) : option uni :=
  match s_heap s o with Live u => Some u | _ => None end.

(* a port pointer: NULL once the device was stopped (ports deleted) or for an unknown index *)
Definition port_of (c : cfg) (s : state) (p : N) : option pcfg :=
  if s_pdead s p then None else port_cfg c p.

(* ---------- small helpers *)
Definition mem (x : N) (l : list N) : bool := existsb (N.eqb x) l.
Fixpoint remove_first (x : N) (l : list N) : list N :=
  match l with [] => [] | y :: r => if y =? x then r else y :: remove_first x r end.
Definition is_nil {A} (l : list A) : bool := match l with [] => true | _ => false end.

Definition uni_ports (inp : bool) (u : uni) : list N := if inp then u_in u else u_out u.
Definition uni_set_ports (inp : bool) (u : uni) (l : list N) : uni :=
  if inp then mkuni (u_num u) l (u_out u) (u_src u) (u_sink u)
  else mkuni (u_num u) (u_in u) l (u_src u) (u_sink u).
Definition uni_set_src (u : uni) l := mkuni (u_num u) (u_in u) (u_out u) l (u_sink u).
Definition uni_set_sink (u : uni) l := mkuni (u_num u) (u_in u) (u_out u) (u_src u) l.

(* Universe::IsActive *)
Definition u_active (u : uni) : bool :=
  negb (is_nil (u_out u) && is_nil (u_in u) && is_nil (u_src u) && is_nil (u_sink u)).

(* ---------- UniverseStore *)
Fixpoint sfind (n : N) (l : list (N * N)) : option N :=
  match l with [] => None | (k, o) :: r => if k =? n then Some o else sfind n r end.
Fixpoint sremove (n : N) (l : list (N * N)) : list (N * N) :=
  match l with [] => [] | (k, o) :: r => if k =? n then sremove n r else (k, o) :: sremove n r end.

(* GetUniverseOrCreate *)
Definition get_or_create (n : N) (s : state) : N * state :=
  match sfind n (s_store s) with
  | Some o => (o, s)
  | None =>
    let o := s_next s in
    (o, mkstate (s_puniv s) (s_pprio s) (s_pinh s) (s_pdead s)
                (upd (s_heap s) o (Live (mkuni n [] [] [] [])))
                ((n, o) :: s_store s) (s_cand s) (o + 1))
  end.

(* AddUniverseGarbageCollection (std::set insert) *)
Definition add_cand (o : N) (s : state) : state :=
  if mem o (s_cand s) then s else set_cand s (o :: s_cand s).

(* "if (!IsActive()) m_universe_store->AddUniverseGarbageCollection(this)" *)
Definition cand_if_inactive (o : N) (u : uni) (s : state) : state :=
  if u_active u then s else add_cand o s.

(* ---------- Universe::GenericRemovePort / GenericAddPort on the object a pointer refers to *)
Definition uni_remove_port (inp : bool) (p o : N) (s : state) : option state :=
  match deref s o with
  | None => None
  | Some u =>
    if mem p (uni_ports inp u) then
      let u' := uni_set_ports inp u (remove_first p (uni_ports inp u)) in
      Some (cand_if_inactive o u' (set_heap s (upd (s_heap s) o (Live u'))))
    else Some s
  end.

Definition uni_add_port (inp : bool) (p o : N) (s : state) : option state :=
  match deref s o with
  | None => None
  | Some u =>
    if mem p (uni_ports inp u) then Some s
    else Some (set_heap s (upd (s_heap s) o (Live (uni_set_ports inp u (uni_ports inp u ++ [p])))))
  end.

(* ---------- PortManager checks *)
Definition N_seq (n : nat) : list N := map N.of_nat (seq 0 n).

(* device->InputPorts()/OutputPorts(): the ports the device still owns, in port order *)
Definition dev_ports (c : cfg) (s : state) (d : N) (inp : bool) : list N :=
  filter (fun q => match port_of c s q with
                   | Some pc => (pc_dev pc =? d) && Bool.eqb (pc_in pc) inp
                   | None => false end)
         (N_seq (length (c_ports c))).

(* CheckForPortMatchingUniverse: port->GetUniverse() && port->GetUniverse()->UniverseId() == id *)
Fixpoint check_match (s : state) (ps : list N) (n : N) : option bool :=
  match ps with
  | [] => Some false
  | q :: r =>
    match s_puniv s q with
    | None => check_match s r n
    | Some o =>
      match deref s o with
      | None => None
      | Some u => if u_num u =? n then Some true else check_match s r n
      end
    end
  end.

(* the AllowLooping / AllowMultiPortPatching block of GenericPatchPort; Some true = refuse *)
Definition device_refuses (c : cfg) (s : state) (pc : pcfg) (n : N) : option bool :=
  match dev_cfg c (pc_dev pc) with
  | None => Some false
  | Some dc =>
    match (if dc_loop dc then Some false
           else check_match s (dev_ports c s (pc_dev pc) (negb (pc_in pc))) n) with
    | None => None
    | Some true => Some true
    | Some false =>
      if dc_multi dc then Some false
      else check_match s (dev_ports c s (pc_dev pc) (pc_in pc)) n
    end
  end.

Definition veto (pc : pcfg) (n : N) : bool := mem n (pc_veto pc).

(* ---------- PortManager::GenericPatchPort (fixed: SetUniverse before leaving the old universe,
   the veto is reported).  [vt pc] is the port's PreSetUniverse(old, new) verdict (true = refuse),
   whatever it depends on. *)
Definition patch_v (vt : pcfg -> bool) (c : cfg) (s : state) (p n : N) : outcome :=
  match port_of c s p with
  | None => Ok s (RBool false)                                 (* if (!port) return false *)
  | Some pc =>
    match (match s_puniv s p with
           | None => Some false
           | Some o => match deref s o with None => None | Some u => Some (u_num u =? n) end
           end) with
    | None => Dangling
    | Some true => Ok s (RBool true)                           (* already on that universe *)
    | Some false =>
      match device_refuses c s pc n with
      | None => Dangling
      | Some true => Ok s (RBool false)
      | Some false =>
        let (o', s1) := get_or_create n s in
        (* port->SetUniverse(new_universe): same object => true, else ask PreSetUniverse *)
        let accepted := match s_puniv s p with
                        | Some o => (o =? o') || negb (vt pc)
                        | None => negb (vt pc) end in
        if accepted then
          let s2 := set_puniv s1 (upd (s_puniv s1) p (Some o')) in
          match (match s_puniv s p with
                 | None => Some s2
                 | Some o => uni_remove_port (pc_in pc) p o s2 end) with
          | None => Dangling
          | Some s3 =>
            match uni_add_port (pc_in pc) p o' s3 with
            | None => Dangling
            | Some s4 => Ok s4 (RBool true)
            end
          end
        else
          match deref s1 o' with
          | None => Dangling
          | Some u' => Ok (cand_if_inactive o' u' s1) (RBool false)
          end
      end
    end
  end.

(* the number-based veto of round 1: PreSetUniverse refuses the listed universe numbers *)
Definition patch (c : cfg) (s : state) (p n : N) : outcome := patch_v (fun pc => veto pc n) c s p n.

(* PortManager::GenericUnPatchPort (fixed, fixes/02: SetUniverse(NULL) is asked first and a refusal
   leaves the port patched).  [vt pc] is PreSetUniverse(old, NULL)'s verdict (true = refuse). *)
Definition unpatch_v (vt : pcfg -> bool) (c : cfg) (s : state) (p : N) : outcome :=
  match port_of c s p with
  | None => Ok s (RBool false)
  | Some pc =>
    match s_puniv s p with
    | None => Ok s (RBool true)
    | Some o =>
      if vt pc then Ok s (RBool false)
      else
      match uni_remove_port (pc_in pc) p o s with
      | None => Dangling
      | Some s1 => Ok (set_puniv s1 (upd (s_puniv s1) p None)) (RBool true)
      end
    end
  end.

Definition unpatch (c : cfg) (s : state) (p : N) : outcome := unpatch_v (fun _ => false) c s p.

(* PortManager::SetPriorityStatic(port, uint8_t value) + Basic*Port::SetPriority *)
Definition prio_static (c : cfg) (s : state) (p v : N) : outcome :=
  match port_of c s p with
  | None => Ok s RUnit
  | Some pc =>
    match pc_cap pc with
    | CapNone => Ok s (RBool true)
    | cp =>
      let s1 := match cp with
                | CapFull => if s_pinh s p then set_pinh s (upd (s_pinh s) p false) else s
                | _ => s end in
      let v0 := u8 v in
      let v' := if SOURCE_PRIORITY_MAX <? v0 then SOURCE_PRIORITY_MAX else v0 in
      if s_pprio s1 p =? v' then Ok s1 (RBool true)
      else if SOURCE_PRIORITY_MAX <? v' then Ok s1 (RBool true)   (* SetPriority refuses *)
      else Ok (set_pprio s1 (upd (s_pprio s1) p v')) (RBool true)
    end
  end.

(* PortManager::SetPriorityInherit *)
Definition prio_inherit (c : cfg) (s : state) (p : N) : outcome :=
  match port_of c s p with
  | None => Ok s RUnit
  | Some pc =>
    match pc_cap pc with
    | CapFull => if s_pinh s p then Ok s (RBool true)
                 else Ok (set_pinh s (upd (s_pinh s) p true)) (RBool true)
    | _ => Ok s (RBool true)
    end
  end.

(* UniverseStore::GarbageCollectUniverses; the list returned is the SaveUniverseSettings log *)
Fixpoint gc_loop (cands : list N) (s : state) (saved : list N) : option (state * list N) :=
  match cands with
  | [] => Some (s, saved)
  | o :: r =>
    match deref s o with
    | None => None
    | Some u =>
      if u_active u then gc_loop r s saved
      else gc_loop r (mkstate (s_puniv s) (s_pprio s) (s_pinh s) (s_pdead s)
                              (upd (s_heap s) o Freed) (sremove (u_num u) (s_store s))
                              (s_cand s) (s_next s))
                   (saved ++ [u_num u])
    end
  end.

Definition gc (s : state) : outcome :=
  match gc_loop (s_cand s) s [] with
  | None => Dangling
  | Some (s', l) => Ok (set_cand s' []) (RSaved l)
  end.

(* RegisterForDmx(REGISTER): GetUniverseOrCreate(n)->AddSinkClient(c) *)
Definition sink_add (s : state) (n cl : N) : outcome :=
  let (o, s1) := get_or_create n s in
  match deref s1 o with
  | None => Dangling
  | Some u =>
    if mem cl (u_sink u) then Ok s1 (RBool false)
    else Ok (set_heap s1 (upd (s_heap s1) o (Live (uni_set_sink u (cl :: u_sink u))))) (RBool true)
  end.

(* GetUniverse(n); if present RemoveSinkClient(c) *)
Definition sink_rem (s : state) (n cl : N) : outcome :=
  match sfind n (s_store s) with
  | None => Ok s RUnit
  | Some o =>
    match deref s o with
    | None => Dangling
    | Some u =>
      if mem cl (u_sink u) then
        let u' := uni_set_sink u (remove_first cl (u_sink u)) in
        Ok (cand_if_inactive o u' (set_heap s (upd (s_heap s) o (Live u')))) (RBool true)
      else Ok s (RBool false)
    end
  end.

(* GetUniverse(n); if present AddSourceClient(c) (as UpdateDmxData does) *)
Definition src_add (s : state) (n cl : N) : outcome :=
  match sfind n (s_store s) with
  | None => Ok s RUnit
  | Some o =>
    match deref s o with
    | None => Dangling
    | Some u =>
      if mem cl (u_src u) then Ok s (RBool true)
      else Ok (set_heap s (upd (s_heap s) o (Live (uni_set_src u (cl :: u_src u))))) (RBool true)
    end
  end.

Definition src_rem (s : state) (n cl : N) : outcome :=
  match sfind n (s_store s) with
  | None => Ok s RUnit
  | Some o =>
    match deref s o with
    | None => Dangling
    | Some u =>
      if mem cl (u_src u) then
        let u' := uni_set_src u (remove_first cl (u_src u)) in
        Ok (cand_if_inactive o u' (set_heap s (upd (s_heap s) o (Live u')))) (RBool true)
      else Ok s (RBool false)
    end
  end.

(* BasicInputPort::DmxChanged: if (GetUniverse()) GetUniverse()->PortDataChanged(this);
   the result is Universe::ContainsPort(this) *)
Definition data (c : cfg) (s : state) (p : N) : outcome :=
  match port_of c s p with
  | None => Ok s RUnit
  | Some pc =>
    if pc_in pc then
      match s_puniv s p with
      | None => Ok s (RBool false)
      | Some o =>
        match deref s o with
        | None => Dangling
        | Some u => Ok s (RBool (mem p (u_in u)))
        end
      end
    else Ok s RUnit
  end.

(* Device::Stop -> DeleteAllPorts -> GenericDeletePort for input ports, then output ports *)
Fixpoint stop_loop (c : cfg) (ps : list N) (s : state) : option state :=
  match ps with
  | [] => Some s
  | q :: r =>
    match port_cfg c q with
    | None => stop_loop c r s
    | Some pc =>
      match (match s_puniv s q with
             | None => Some s
             | Some o => uni_remove_port (pc_in pc) q o s end) with
      | None => None
      | Some s1 =>
        let s2 := set_puniv s1 (upd (s_puniv s1) q None) in
        stop_loop c r (set_pdead s2 (upd (s_pdead s2) q true))
      end
    end
  end.

Definition stop (c : cfg) (s : state) (d : N) : outcome :=
  match dev_cfg c d with
  | None => Ok s RUnit
  | Some _ =>
    match stop_loop c (dev_ports c s d true ++ dev_ports c s d false) s with
    | None => Dangling
    | Some s' => Ok s' RUnit
    end
  end.

Inductive op :=
| Patch (p n : N) | Unpatch (p : N) | PrioStatic (p v : N) | PrioInherit (p : N) | GC
| SinkAdd (n cl : N) | SinkRem (n cl : N) | SrcAdd (n cl : N) | SrcRem (n cl : N)
| Data (p : N) | Stop (d : N).

Definition step (c : cfg) (s : state) (o : op) : outcome :=
  match o with
  | Patch p n => patch c s p n
  | Unpatch p => unpatch c s p
  | PrioStatic p v => prio_static c s p v
  | PrioInherit p => prio_inherit c s p
  | GC => gc s
  | SinkAdd n cl => sink_add s n cl
  | SinkRem n cl => sink_rem s n cl
  | SrcAdd n cl => src_add s n cl
  | SrcRem n cl => src_rem s n cl
  | Data p => data c s p
  | Stop d => stop c s d
  end.

(* a whole history; None = some operation dereferenced a collected universe *)
Fixpoint run (c : cfg) (s : state) (ops : list op) : option state :=
  match ops with
  | [] => Some s
  | o :: r => match step c s o with Ok s' _ => run c s' r | Dangling => None end
  end.

(* observation helpers used by the driver *)
Definition port_unum (s : state) (p : N) : option (option N) :=   (* None = dangling *)
  match s_puniv s p with
  | None => Some None
  | Some o => match deref s o with None => None | Some u => Some (Some (u_num u)) end
  end.
