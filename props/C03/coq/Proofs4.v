(* C03 round 2 — the statements of Properties.v about the extended model. *)
From OlaBase Require Import Bytes.
From C03 Require Import Gen Model Lemmas Proofs Proofs2 Model2 Proofs3.
Local Open Scope N_scope.

Lemma c03x_inv_l : forall (xc : xcfg) (ops : list xop),
  exists x s, xrun xc (xinit xc) ops = Some x /\ s = x_s x /\
  (forall o u p, s_heap s o = Live u -> (listed u p <-> s_puniv s p = Some o)) /\
  (forall o u p, s_heap s o = Live u -> In p (u_in u) ->
      exists pc, port_cfg (xc_cfg xc) p = Some pc /\ pc_in pc = true) /\
  (forall o u p, s_heap s o = Live u -> In p (u_out u) ->
      exists pc, port_cfg (xc_cfg xc) p = Some pc /\ pc_in pc = false) /\
  (forall p o, s_puniv s p = Some o -> exists u, s_heap s o = Live u /\ listed u p) /\
  (forall o1 o2 u1 u2 p, s_heap s o1 = Live u1 -> s_heap s o2 = Live u2 ->
      listed u1 p -> listed u2 p -> o1 = o2) /\
  (forall o u, s_heap s o = Live u -> NoDup (u_in u) /\ NoDup (u_out u)) /\
  (forall p q pcp pcq dc o, p <> q -> port_cfg (xc_cfg xc) p = Some pcp -> port_cfg (xc_cfg xc) q = Some pcq ->
      pc_dev pcp = pc_dev pcq -> dev_cfg (xc_cfg xc) (pc_dev pcp) = Some dc ->
      s_puniv s p = Some o -> s_puniv s q = Some o ->
      (dc_loop dc = false -> pc_in pcp = pc_in pcq) /\ (dc_multi dc = false -> pc_in pcp <> pc_in pcq)) /\
  (forall p, s_pprio s p <= 200) /\
  (forall n o, sfind n (s_store s) = Some o <-> exists u, s_heap s o = Live u /\ u_num u = n) /\
  (forall o u, s_heap s o = Live u -> u_active u = false -> In o (s_cand s)) /\
  (forall o, In o (s_cand s) -> exists u, s_heap s o = Live u) /\
  (forall p, s_pdead s p = true -> s_puniv s p = None) /\
  (forall p, s_pdead s p = false -> (x_broker x p = true <-> s_puniv s p <> None)).
Proof.
  intros xc ops. destruct (xrun_inv xc ops (xinit xc) (xinit_inv xc)) as (x & E & (I & B)).
  exists x, (x_s x). split; [exact E|]. split; [reflexivity|].
  pose proof (inv_explicit (xc_cfg xc) (x_s x) I) as H.
  repeat (destruct H as (?H & H)).
  repeat (split; [assumption|]). exact B.
Qed.

Lemma c03x_patch_result_l : forall (xc : xcfg) (ops : list xop) (x : xstate) (p n : N),
  xrun xc (xinit xc) ops = Some x ->
  exists x' b, xstep xc x (XBase (Patch p n)) = XOk x' (RBool b) /\
    (b = true <-> exists o u, s_puniv (x_s x') p = Some o /\ s_heap (x_s x') o = Live u /\ u_num u = n).
Proof.
  intros xc ops x p n H. destruct (xpatch_inv xc x p n (xreach_inv xc ops x H)) as (x' & b & E & _ & R & _).
  exists x', b. split; [exact E | exact R].
Qed.

Lemma c03x_unpatch_result_l : forall (xc : xcfg) (ops : list xop) (x : xstate) (p : N),
  xrun xc (xinit xc) ops = Some x ->
  exists x' b, xstep xc x (XBase (Unpatch p)) = XOk x' (RBool b) /\
    (b = true -> s_puniv (x_s x') p = None /\ x_broker x' p = false) /\
    (b = false -> s_puniv (x_s x') = s_puniv (x_s x) /\ x_broker x' = x_broker x).
Proof.
  intros xc ops x p H. destruct (xunpatch_inv xc x p (xreach_inv xc ops x H)) as (x' & b & E & _ & A & B & _).
  exists x', b. split; [exact E|]. split; assumption.
Qed.

Lemma c03x_lifetime_l : forall (xc : xcfg) (ops : list xop) (x : xstate) (o : xop),
  xrun xc (xinit xc) ops = Some x ->
  exists x' r, xstep xc x o = XOk x' r /\
    forall a u, s_heap (x_s x) a = Live u ->
      (exists u', s_heap (x_s x') a = Live u' /\ u_num u' = u_num u) \/
      (o = XBase GC /\ u_active u = false /\ s_heap (x_s x') a = Freed).
Proof.
  intros xc ops x o H. destruct (xstep_inv xc x o (xreach_inv xc ops x H)) as (x' & r & E & _ & L).
  exists x', r. split; [exact E | exact L].
Qed.

Lemma c03_unregister_clean_l : forall (xc : xcfg) (ops : list xop) (x : xstate) (d : N) (dc : dcfg),
  xrun xc (xinit xc) ops = Some x -> dev_cfg (xc_cfg xc) d = Some dc ->
  exists x1 r1 x2,
    xstep xc x (XUnregister d) = XOk x1 r1 /\ x_s x1 = x_s x /\
    xstep xc x1 (XBase (Stop d)) = XOk x2 RUnit /\
    (forall q pc, port_cfg (xc_cfg xc) q = Some pc -> pc_dev pc = d ->
       s_puniv (x_s x2) q = None /\
       forall o u, s_heap (x_s x2) o = Live u -> ~ listed u q) /\
    (forall o u, s_heap (x_s x2) o = Live u -> u_active u = false -> In o (s_cand (x_s x2))) /\
    x_broker x2 = x_broker x.
Proof.
  intros xc ops x d dc H Hd. pose proof (xreach_inv xc ops x H) as XI.
  destruct (xunregister_inv xc x d XI) as (x1 & r1 & E1 & XI1 & A1 & B1).
  destruct (stop_loop_inv (xc_cfg xc)
              (dev_ports (xc_cfg xc) (x_s x) d true ++ dev_ports (xc_cfg xc) (x_s x) d false) (x_s x) (proj1 XI))
    as (s' & E & I' & K).
  assert (xstep xc x1 (XBase (Stop d)) = XOk (set_xs x1 s') RUnit) as E2.
  { cbn [xstep step]. unfold stop. rewrite A1, Hd, E. reflexivity. }
  exists x1, r1, (set_xs x1 s').
  split; [exact E1|]. split; [exact A1|]. split; [exact E2|].
  destruct (stop_loop_frame _ _ _ _ E) as (F & Mono & Dead).
  pose proof (inv_explicit (xc_cfg xc) s' I') as X.
  destruct X as (X1 & _ & _ & _ & _ & _ & _ & _ & _ & X10 & _ & X12).
  cbn [x_s set_xs x_broker]. split; [|split; [exact X10 | exact B1]].
  intros q pc Hq Hdev.
  assert (s_puniv s' q = None) as Hn.
  { apply X12. destruct (s_pdead (x_s x) q) eqn:Edq.
    - apply Mono. exact Edq.
    - apply Dead; [|congruence]. apply in_or_app. destruct (pc_in pc) eqn:Ein.
      + left. exact (dev_ports_In _ _ _ _ q pc Hq Edq Hdev Ein).
      + right. exact (dev_ports_In _ _ _ _ q pc Hq Edq Hdev Ein). }
  split; [exact Hn|]. intros o u Hu Hl. apply (X1 o u q Hu) in Hl. congruence.
Qed.
