(* C03 round 2 — the extended model (state-dependent veto, PortBroker, DeviceManager register /
   unregister, RegisterForDmx) preserves the invariant, never dangles, keeps broker = patched. *)
From OlaBase Require Import Bytes.
From C03 Require Import Gen Model Lemmas Proofs Proofs2 Model2.
Local Open Scope N_scope.

Definition XInv (xc : xcfg) (x : xstate) : Prop :=
  Inv (xc_cfg xc) (x_s x) /\
  (forall p, s_pdead (x_s x) p = false -> (x_broker x p = true <-> s_puniv (x_s x) p <> None)).

(* ports that still exist keep their patching; deleted ports stay deleted *)
Definition pframe (s s' : state) : Prop :=
  forall q, s_pdead s' q = false -> s_pdead s q = false /\ s_puniv s' q = s_puniv s q.

Lemma pframe_refl s : pframe s s.
Proof. intros q H. tauto. Qed.
Lemma pframe_trans a b d : pframe a b -> pframe b d -> pframe a d.
Proof.
  intros H1 H2 q H. destruct (H2 q H) as (A & B). destruct (H1 q A) as (C & D). split; [exact C | congruence].
Qed.
Lemma pframe_eq s s' : s_puniv s' = s_puniv s -> s_pdead s' = s_pdead s -> pframe s s'.
Proof. intros A B q H. rewrite A, <- B. tauto. Qed.

Lemma xinit_inv xc : XInv xc (xinit xc).
Proof.
  split; [apply init_inv|]. cbn. intros p _. split; [discriminate | intros H; exfalso; apply H; reflexivity].
Qed.

(* ---------- the sibling view never dereferences a collected universe *)
Lemma port_unum_ok c s q : Inv c s -> exists un, port_unum s q = Some un.
Proof.
  intros I. unfold port_unum. destruct (s_puniv s q) as [o|] eqn:E; [|eauto].
  destruct (inv_plive _ _ I q o E) as (u & Hu). unfold deref. rewrite Hu. eauto.
Qed.

Lemma mk_view_ok c s ps : Inv c s -> exists v, mk_view s ps = Some v.
Proof.
  intros I. induction ps as [|q r (v & IH)]; cbn; [eauto|].
  destruct (port_unum_ok c s q I) as (un & E). rewrite E, IH. eauto.
Qed.

(* ---------- frame facts of the operations that do not patch *)
Lemma goc_ports n s o s1 : get_or_create n s = (o, s1) -> s_puniv s1 = s_puniv s /\ s_pdead s1 = s_pdead s.
Proof.
  unfold get_or_create. destruct (sfind n (s_store s)); intros H; injection H as <- <-; split; reflexivity.
Qed.

Lemma gc_loop_ports r : forall s sv s' l,
  gc_loop r s sv = Some (s', l) -> s_puniv s' = s_puniv s /\ s_pdead s' = s_pdead s.
Proof.
  induction r as [|o r IH]; intros s sv s' l; cbn.
  - intros H. injection H as <- _. split; reflexivity.
  - destruct (deref s o) as [u|]; [|discriminate]. destruct (u_active u).
    + apply IH.
    + intros H. apply IH in H. cbn in H. exact H.
Qed.

Lemma remove_port_ports inp p o s s1 :
  uni_remove_port inp p o s = Some s1 -> s_puniv s1 = s_puniv s /\ s_pdead s1 = s_pdead s.
Proof.
  unfold uni_remove_port. destruct (deref s o) as [u|]; [|discriminate].
  destruct (mem p (uni_ports inp u)).
  - intros H. injection H as <-.
    match goal with |- context[cand_if_inactive ?a ?b ?c] =>
      destruct (cand_if_inactive_fields a b c) as (F1 & _ & _ & F4 & _) end.
    rewrite F1, F4. split; reflexivity.
  - intros H. injection H as <-. split; reflexivity.
Qed.

Lemma stop_loop_frame c ps : forall s s',
  stop_loop c ps s = Some s' ->
  pframe s s' /\ (forall q, s_pdead s q = true -> s_pdead s' q = true) /\
  (forall q, In q ps -> port_cfg c q <> None -> s_pdead s' q = true).
Proof.
  induction ps as [|q r IH]; intros s s'; cbn.
  - intros H. injection H as <-. split; [apply pframe_refl|]. split; [tauto | intros q []].
  - destruct (port_cfg c q) as [pc|] eqn:Ec.
    2:{ intros H. destruct (IH _ _ H) as (A & B & C). split; [exact A|]. split; [exact B|].
        intros x [<-|Hin] Hx; [congruence | exact (C x Hin Hx)]. }
    destruct (match s_puniv s q with None => Some s | Some o => uni_remove_port (pc_in pc) q o s end)
      as [s1|] eqn:E1; [|discriminate].
    assert (s_puniv s1 = s_puniv s /\ s_pdead s1 = s_pdead s) as (P1 & P4).
    { destruct (s_puniv s q); [exact (remove_port_ports _ _ _ _ _ E1) | injection E1 as <-; split; reflexivity]. }
    intros H. destruct (IH _ _ H) as (A & B & C).
    split; [|split].
    + intros x Hx. destruct (A x Hx) as (A1 & A2). cbn [s_pdead s_puniv set_pdead set_puniv] in A1, A2.
      destruct (N.eq_dec x q) as [->|Ne]; [rewrite upd_eq in A1; discriminate|].
      rewrite upd_neq in A1 by exact Ne. rewrite upd_neq in A2 by exact Ne. rewrite P4 in A1. rewrite P1 in A2. tauto.
    + intros x Hx. apply B. cbn [s_pdead s_puniv set_pdead set_puniv]. destruct (N.eq_dec x q) as [->|Ne]; [apply upd_eq|].
      rewrite upd_neq by exact Ne. rewrite P4. exact Hx.
    + intros x [<-|Hin] Hx; [|exact (C x Hin Hx)]. apply B. cbn [s_pdead s_puniv set_pdead set_puniv]. apply upd_eq.
Qed.

Lemma step_pframe c s o s' r :
  (forall p n, o <> Patch p n) -> (forall p, o <> Unpatch p) ->
  step c s o = Ok s' r -> pframe s s'.
Proof.
  intros N1 N2. destruct o; cbn.
  - exfalso. exact (N1 p n eq_refl).
  - exfalso. exact (N2 p eq_refl).
  - unfold prio_static. destruct (port_of c s p) as [pc|]; [|intros H; injection H as <- _; apply pframe_refl].
    cbn zeta.
    destruct (pc_cap pc); [intros H; injection H as <- _; apply pframe_refl | |];
      repeat match goal with
             | |- context[if ?e then _ else _] => destruct e
             end; intros H; injection H as <- _; apply pframe_eq; reflexivity.
  - unfold prio_inherit. destruct (port_of c s p) as [pc|]; [|intros H; injection H as <- _; apply pframe_refl].
    destruct (pc_cap pc); try (intros H; injection H as <- _; apply pframe_refl).
    destruct (s_pinh s p); intros H; injection H as <- _; apply pframe_eq; reflexivity.
  - unfold gc. destruct (gc_loop (s_cand s) s []) as [[s1 l]|] eqn:E; [|discriminate].
    intros H. injection H as <- _. destruct (gc_loop_ports _ _ _ _ _ E) as (A & B).
    apply pframe_eq; cbn; assumption.
  - unfold sink_add. destruct (get_or_create n s) as [o s1] eqn:E. destruct (goc_ports _ _ _ _ E) as (A & B).
    destruct (deref s1 o) as [u|]; [|discriminate].
    destruct (mem cl (u_sink u)); intros H; injection H as <- _; apply pframe_eq; cbn; assumption.
  - unfold sink_rem. destruct (sfind n (s_store s)) as [o|]; [|intros H; injection H as <- _; apply pframe_refl].
    destruct (deref s o) as [u|]; [|discriminate].
    destruct (mem cl (u_sink u)); [|intros H; injection H as <- _; apply pframe_refl].
    intros H. injection H as <- _.
    match goal with |- context[cand_if_inactive ?a ?b ?c] =>
      destruct (cand_if_inactive_fields a b c) as (F1 & _ & _ & F4 & _) end.
    apply pframe_eq; [rewrite F1 | rewrite F4]; reflexivity.
  - unfold src_add. destruct (sfind n (s_store s)) as [o|]; [|intros H; injection H as <- _; apply pframe_refl].
    destruct (deref s o) as [u|]; [|discriminate].
    destruct (mem cl (u_src u)); intros H; injection H as <- _; apply pframe_eq; reflexivity.
  - unfold src_rem. destruct (sfind n (s_store s)) as [o|]; [|intros H; injection H as <- _; apply pframe_refl].
    destruct (deref s o) as [u|]; [|discriminate].
    destruct (mem cl (u_src u)); [|intros H; injection H as <- _; apply pframe_refl].
    intros H. injection H as <- _.
    match goal with |- context[cand_if_inactive ?a ?b ?c] =>
      destruct (cand_if_inactive_fields a b c) as (F1 & _ & _ & F4 & _) end.
    apply pframe_eq; [rewrite F1 | rewrite F4]; reflexivity.
  - unfold data. destruct (port_of c s p) as [pc|]; [|intros H; injection H as <- _; apply pframe_refl].
    destruct (pc_in pc); [|intros H; injection H as <- _; apply pframe_refl].
    destruct (s_puniv s p) as [o|]; [|intros H; injection H as <- _; apply pframe_refl].
    destruct (deref s o); [|discriminate]. intros H; injection H as <- _; apply pframe_refl.
  - unfold stop. destruct (dev_cfg c d); [|intros H; injection H as <- _; apply pframe_refl].
    destruct (stop_loop c (dev_ports c s d true ++ dev_ports c s d false) s) as [s1|] eqn:E; [|discriminate].
    intros H. injection H as <- _. exact (proj1 (stop_loop_frame _ _ _ _ E)).
Qed.

(* ---------- lifting base operations *)
Lemma XInv_lift xc x s' :
  XInv xc x -> Inv (xc_cfg xc) s' -> pframe (x_s x) s' -> XInv xc (set_xs x s').
Proof.
  intros (I & B) I' F. split; [exact I'|]. cbn. intros p Hd.
  destruct (F p Hd) as (A & E). rewrite E. exact (B p A).
Qed.

Lemma xlift_inv xc x o :
  XInv xc x -> (forall p n, o <> Patch p n) -> (forall p, o <> Unpatch p) ->
  exists x' r, xlift x (step (xc_cfg xc) (x_s x) o) = XOk x' r /\ XInv xc x' /\
    x_s x' = match step (xc_cfg xc) (x_s x) o with Ok s' _ => s' | Dangling => x_s x end /\
    x_broker x' = x_broker x /\ x_reg x' = x_reg x /\
    x_puni x' = x_puni x /\ x_pprio x' = x_pprio x /\ x_pmode x' = x_pmode x.
Proof.
  intros XI N1 N2. destruct (step_inv (xc_cfg xc) (x_s x) o (proj1 XI)) as (s' & r & E & I').
  rewrite E. cbn. eexists _, r. split; [reflexivity|]. split; [|repeat split].
  apply XInv_lift; [exact XI | exact I' | exact (step_pframe _ _ _ _ _ N1 N2 E)].
Qed.

(* ---------- patch / unpatch with the state-dependent veto and the broker *)
Lemma xpatch_inv xc x p n :
  XInv xc x ->
  exists x' b, xpatch xc x p n = XOk x' (RBool b) /\ XInv xc x' /\
    (b = true <-> on_universe (x_s x') p n) /\ keeps_live (x_s x) (x_s x') /\
    x_reg x' = x_reg x /\ x_puni x' = x_puni x /\ x_pprio x' = x_pprio x /\ x_pmode x' = x_pmode x.
Proof.
  intros (I & B). unfold xpatch.
  destruct (port_of (xc_cfg xc) (x_s x) p) as [pc|] eqn:Epo.
  2:{ exists x, false. split; [reflexivity|]. split; [split; assumption|].
      split; [|split; [apply keeps_live_refl | repeat split]].
      split; [discriminate|]. intros (o & u & H & _). exfalso.
      destruct (inv_pok _ _ I p o H) as (Hd & pc & Hc). unfold port_of in Epo. rewrite Hd, Hc in Epo. discriminate. }
  assert (s_pdead (x_s x) p = false) as Hdead.
  { unfold port_of in Epo. destruct (s_pdead (x_s x) p); [discriminate | reflexivity]. }
  unfold sib_view. destruct (mk_view_ok (xc_cfg xc) (x_s x)
    (dev_ports (xc_cfg xc) (x_s x) (pc_dev pc) true ++ dev_ports (xc_cfg xc) (x_s x) (pc_dev pc) false) I) as (v & Ev).
  rewrite Ev. cbn zeta.
  set (vt := veto pc n || xc_veto xc p (Some n) v).
  destruct (patch_v_inv (fun _ => vt) (xc_cfg xc) (x_s x) p n I) as (s' & b & E & (F1 & F2 & F4) & I' & K & R).
  rewrite E. destruct b.
  - eexists _, true. split; [reflexivity|]. split; [|split; [exact R|split; [exact K | repeat split]]].
    split; [exact I'|]. cbn. intros q Hq. rewrite F4 in Hq.
    assert (s_puniv s' p <> None) as Hp.
    { destruct (proj1 R eq_refl) as (o & u & A & _). congruence. }
    destruct (N.eq_dec q p) as [->|Ne].
    + split; [intros _; exact Hp|]. intros _.
      destruct (port_unum (x_s x) p) as [[m|]|] eqn:Eu; try (apply upd_eq).
      destruct (m =? n); [|apply upd_eq].
      apply (B p Hdead). unfold port_unum in Eu. destruct (s_puniv (x_s x) p); discriminate.
    + rewrite (F2 q Ne).
      assert ((if match port_unum (x_s x) p with Some (Some m) => m =? n | _ => false end
               then x_broker x else upd (x_broker x) p true) q = x_broker x q) as ->.
      { destruct (match port_unum (x_s x) p with Some (Some m) => m =? n | _ => false end);
          [reflexivity | apply upd_neq; exact Ne]. }
      exact (B q Hq).
  - eexists _, false. split; [reflexivity|]. split; [|split; [exact R|split; [exact K | repeat split]]].
    split; [exact I'|]. cbn. intros q Hq. rewrite F4 in Hq. rewrite (F1 eq_refl). exact (B q Hq).
Qed.

Lemma xunpatch_inv xc x p :
  XInv xc x ->
  exists x' b, xunpatch xc x p = XOk x' (RBool b) /\ XInv xc x' /\
    (b = true -> s_puniv (x_s x') p = None /\ x_broker x' p = false) /\
    (b = false -> s_puniv (x_s x') = s_puniv (x_s x) /\ x_broker x' = x_broker x) /\
    keeps_live (x_s x) (x_s x') /\
    x_reg x' = x_reg x /\ x_puni x' = x_puni x /\ x_pprio x' = x_pprio x /\ x_pmode x' = x_pmode x.
Proof.
  intros (I & B). unfold xunpatch.
  destruct (port_of (xc_cfg xc) (x_s x) p) as [pc|] eqn:Epo.
  2:{ exists x, false. split; [reflexivity|]. split; [split; assumption|].
      split; [discriminate|]. split; [intros _; split; reflexivity|].
      split; [apply keeps_live_refl | repeat split]. }
  unfold sib_view. destruct (mk_view_ok (xc_cfg xc) (x_s x)
    (dev_ports (xc_cfg xc) (x_s x) (pc_dev pc) true ++ dev_ports (xc_cfg xc) (x_s x) (pc_dev pc) false) I) as (v & Ev).
  rewrite Ev. cbn zeta.
  destruct (unpatch_v_inv (fun _ => xc_veto xc p None v) (xc_cfg xc) (x_s x) p I)
    as (s' & b & E & I' & K & F2 & Ft & Ff & F4).
  rewrite E. destruct b.
  - eexists _, true. split; [reflexivity|]. split; [|split; [|split; [discriminate | split; [exact K | repeat split]]]].
    + split; [exact I'|]. cbn. intros q Hq. rewrite F4 in Hq.
      destruct (N.eq_dec q p) as [->|Ne].
      * rewrite upd_eq, (Ft eq_refl). split; [discriminate | intros H; exfalso; apply H; reflexivity].
      * rewrite upd_neq by exact Ne. rewrite (F2 q Ne). exact (B q Hq).
    + intros _. cbn. split; [exact (Ft eq_refl) | apply upd_eq].
  - eexists _, false. split; [reflexivity|]. split; [|split; [discriminate | split; [|split; [exact K | repeat split]]]].
    + split; [exact I'|]. cbn. intros q Hq. rewrite F4 in Hq. rewrite (Ff eq_refl). exact (B q Hq).
    + intros _. cbn. split; [exact (Ff eq_refl) | reflexivity].
Qed.

(* ---------- DeviceManager *)
Definition xkeep (x x' : xstate) : Prop :=
  x_reg x' = x_reg x /\ x_puni x' = x_puni x /\ x_pprio x' = x_pprio x /\ x_pmode x' = x_pmode x /\
  keeps_live (x_s x) (x_s x').

Lemma xkeep_refl x : xkeep x x.
Proof. repeat split. apply keeps_live_refl. Qed.
Lemma xkeep_trans a b d : xkeep a b -> xkeep b d -> xkeep a d.
Proof.
  intros (A1 & A2 & A3 & A4 & A5) (B1 & B2 & B3 & B4 & B5).
  repeat split; try congruence. exact (keeps_live_trans _ _ _ A5 B5).
Qed.

Lemma lift_prio_static xc y q v :
  XInv xc y ->
  exists y' r, xlift y (prio_static (xc_cfg xc) (x_s y) q v) = XOk y' r /\ XInv xc y' /\ xkeep y y'.
Proof.
  intros YI.
  destruct (xlift_inv xc y (PrioStatic q v) YI) as (y' & r & E & YI' & Es & _ & A & B & C & D); try discriminate.
  cbn [step] in E, Es. exists y', r. split; [exact E|]. split; [exact YI'|].
  repeat (split; [assumption|]).
  destruct (prio_static_inv (xc_cfg xc) (x_s y) q v (proj1 YI)) as (s2 & r2 & E2 & _ & Hh).
  rewrite E2 in Es. rewrite Es. intros o u H. rewrite Hh.
  exists u. split; [exact H|]. split; [reflexivity | apply incl_refl].
Qed.

Lemma lift_prio_inherit xc y q :
  XInv xc y ->
  exists y' r, xlift y (prio_inherit (xc_cfg xc) (x_s y) q) = XOk y' r /\ XInv xc y' /\ xkeep y y'.
Proof.
  intros YI.
  destruct (xlift_inv xc y (PrioInherit q) YI) as (y' & r & E & YI' & Es & _ & A & B & C & D); try discriminate.
  cbn [step] in E, Es. exists y', r. split; [exact E|]. split; [exact YI'|].
  repeat (split; [assumption|]).
  destruct (prio_inherit_inv (xc_cfg xc) (x_s y) q (proj1 YI)) as (s2 & r2 & E2 & _ & Hh).
  rewrite E2 in Es. rewrite Es. intros o u H. rewrite Hh.
  exists u. split; [exact H|]. split; [reflexivity | apply incl_refl].
Qed.

Lemma restore_prio_inv xc x q pc :
  XInv xc x ->
  exists x' r, restore_prio (xc_cfg xc) x q pc = XOk x' r /\ XInv xc x' /\ xkeep x x'.
Proof.
  intros XI.
  assert (forall pv pm,
    exists x' r,
      match
        match pv with
        | Some v => if v <? U8_LIMIT then xlift x (prio_static (xc_cfg xc) (x_s x) q v) else XOk x RUnit
        | None => XOk x RUnit end
      with
      | XDangling => XDangling
      | XOk x1 _ =>
        match pm with
        | Some m => if (m <? U8_LIMIT) && (m =? PRIORITY_MODE_INHERIT)
                    then xlift x1 (prio_inherit (xc_cfg xc) (x_s x1) q) else XOk x1 RUnit
        | None => XOk x1 RUnit
        end
      end = XOk x' r /\ XInv xc x' /\ xkeep x x') as Body.
  { intros pv pm.
    assert (exists x1 r1,
        match pv with
        | Some v => if v <? U8_LIMIT then xlift x (prio_static (xc_cfg xc) (x_s x) q v) else XOk x RUnit
        | None => XOk x RUnit end = XOk x1 r1 /\ XInv xc x1 /\ xkeep x x1) as (x1 & r1 & E1 & XI1 & K1).
    { destruct pv as [v|]; [destruct (v <? U8_LIMIT); [apply lift_prio_static; exact XI|]|];
        exists x, RUnit; (split; [reflexivity|]; split; [exact XI | apply xkeep_refl]). }
    rewrite E1.
    assert (exists x2 r2,
        match pm with
        | Some m => if (m <? U8_LIMIT) && (m =? PRIORITY_MODE_INHERIT)
                    then xlift x1 (prio_inherit (xc_cfg xc) (x_s x1) q) else XOk x1 RUnit
        | None => XOk x1 RUnit
        end = XOk x2 r2 /\ XInv xc x2 /\ xkeep x1 x2) as (x2 & r2 & E2 & XI2 & K2).
    { destruct pm as [m|]; [destruct ((m <? U8_LIMIT) && (m =? PRIORITY_MODE_INHERIT)); [apply lift_prio_inherit; exact XI1|]|];
        exists x1, RUnit; (split; [reflexivity|]; split; [exact XI1 | apply xkeep_refl]). }
    exists x2, r2. split; [exact E2|]. split; [exact XI2 | exact (xkeep_trans _ _ _ K1 K2)]. }
  assert (exists x' r, XOk x RUnit = XOk x' r /\ XInv xc x' /\ xkeep x x') as Skip.
  { exists x, RUnit. split; [reflexivity|]. split; [exact XI | apply xkeep_refl]. }
  unfold restore_prio. destruct (pc_cap pc).
  - exact Skip.
  - destruct (x_pprio x q) as [v|]; destruct (x_pmode x q) as [m|];
      [exact (Body (Some v) (Some m)) | exact (Body (Some v) None) | exact (Body None (Some m)) | exact Skip].
  - destruct (x_pprio x q) as [v|]; destruct (x_pmode x q) as [m|];
      [exact (Body (Some v) (Some m)) | exact (Body (Some v) None) | exact (Body None (Some m)) | exact Skip].
Qed.

Lemma restore_loop_inv xc ps : forall x,
  XInv xc x -> exists x', restore_loop xc ps x = Some x' /\ XInv xc x' /\ x_reg x' = x_reg x /\
                          keeps_live (x_s x) (x_s x').
Proof.
  induction ps as [|q r IH]; intros x XI; cbn.
  - exists x. split; [reflexivity|]. split; [exact XI|]. split; [reflexivity | apply keeps_live_refl].
  - destruct (port_of (xc_cfg xc) (x_s x) q) as [pc|]; [|apply IH; exact XI].
    destruct (restore_prio_inv xc x q pc XI) as (x1 & r1 & E1 & XI1 & (A1 & _ & _ & _ & K1)).
    rewrite E1.
    assert (forall y, XInv xc y -> x_reg y = x_reg x -> keeps_live (x_s x) (x_s y) ->
              exists x', restore_loop xc r y = Some x' /\ XInv xc x' /\ x_reg x' = x_reg x /\
                         keeps_live (x_s x) (x_s x')) as Next.
    { intros y YI Ry Ky. destruct (IH y YI) as (x' & E & XI' & R' & K').
      exists x'. split; [exact E|]. split; [exact XI'|]. split; [congruence|].
      exact (keeps_live_trans _ _ _ Ky K'). }
    destruct (x_puni x1 q) as [n|]; [|apply Next; assumption].
    destruct (n <? UINT_LIMIT); [|apply Next; assumption].
    destruct (xpatch_inv xc x1 q n XI1) as (x2 & b & E2 & XI2 & _ & K2 & A2 & _).
    rewrite E2. apply Next; [exact XI2 | congruence | exact (keeps_live_trans _ _ _ K1 K2)].
Qed.

Lemma xregister_inv xc x d :
  XInv xc x -> exists x' r, xregister xc x d = XOk x' r /\ XInv xc x' /\ keeps_live (x_s x) (x_s x').
Proof.
  intros XI. unfold xregister. destruct (dev_cfg (xc_cfg xc) d).
  2:{ exists x, RUnit. split; [reflexivity|]. split; [exact XI | apply keeps_live_refl]. }
  destruct (x_reg x d).
  { exists x, (RBool false). split; [reflexivity|]. split; [exact XI | apply keeps_live_refl]. }
  destruct (restore_loop_inv xc (dev_ports (xc_cfg xc) (x_s x) d true ++ dev_ports (xc_cfg xc) (x_s x) d false) x XI)
    as (x' & E & XI' & _ & K).
  rewrite E. eexists _, _. split; [reflexivity|]. split; [exact XI' | exact K].
Qed.

Lemma save_loop_ok c ps : forall x,
  Inv c (x_s x) -> exists x', save_loop c ps x = Some x' /\ x_s x' = x_s x /\ x_broker x' = x_broker x /\
                              x_reg x' = x_reg x.
Proof.
  induction ps as [|q r IH]; intros x I; cbn [save_loop].
  - exists x. repeat split.
  - destruct (port_cfg c q) as [pc|]; [|apply IH; exact I].
    destruct (port_unum_ok c (x_s x) q I) as (un & E). rewrite E.
    match goal with |- context[save_loop c r ?y] => destruct (IH y I) as (x' & E' & A & B & C) end.
    exists x'. split; [exact E'|]. cbn in A, B, C. tauto.
Qed.

Lemma release_ok xc x d :
  XInv xc x -> exists x', release (xc_cfg xc) x d = Some x' /\ x_s x' = x_s x /\ x_broker x' = x_broker x /\
                          x_reg x' = x_reg x.
Proof. intros XI. apply save_loop_ok. exact (proj1 XI). Qed.

Lemma XInv_same xc x x' : XInv xc x -> x_s x' = x_s x -> x_broker x' = x_broker x -> XInv xc x'.
Proof. intros (I & B) E1 E2. unfold XInv. rewrite E1, E2. split; assumption. Qed.

Lemma xunregister_inv xc x d :
  XInv xc x -> exists x' r, xunregister xc x d = XOk x' r /\ XInv xc x' /\
                            x_s x' = x_s x /\ x_broker x' = x_broker x.
Proof.
  intros XI. unfold xunregister. destruct (dev_cfg (xc_cfg xc) d).
  2:{ exists x, RUnit. split; [reflexivity|]. split; [exact XI|]. split; reflexivity. }
  destruct (x_reg x d).
  2:{ exists x, (RBool false). split; [reflexivity|]. split; [exact XI|]. split; reflexivity. }
  destruct (release_ok xc x d XI) as (x' & E & A & B & C). rewrite E.
  eexists _, _. split; [reflexivity|]. split; [|split; [exact A | exact B]].
  apply (XInv_same xc x); [exact XI | exact A | exact B].
Qed.

Lemma unregister_all_loop_ok xc ds : forall x,
  XInv xc x -> exists x', unregister_all_loop (xc_cfg xc) ds x = Some x' /\ x_s x' = x_s x /\
                          x_broker x' = x_broker x.
Proof.
  induction ds as [|d r IH]; intros x XI; cbn [unregister_all_loop].
  - exists x. repeat split.
  - destruct (x_reg x d); [|apply IH; exact XI].
    destruct (release_ok xc x d XI) as (x1 & E & A & B & C). rewrite E.
    match goal with |- context[unregister_all_loop _ r ?y] =>
      destruct (IH y) as (x' & E' & A' & B') end.
    { apply (XInv_same xc x); [exact XI | exact A | exact B]. }
    exists x'. split; [exact E'|]. cbn in A', B'. split; congruence.
Qed.

Lemma xunregister_all_inv xc x :
  XInv xc x -> exists x' r, xunregister_all xc x = XOk x' r /\ XInv xc x' /\ x_s x' = x_s x /\
                            x_broker x' = x_broker x.
Proof.
  intros XI. unfold xunregister_all.
  destruct (unregister_all_loop_ok xc (N_seq (length (c_devs (xc_cfg xc)))) x XI) as (x' & E & A & B).
  rewrite E. exists x', RUnit. split; [reflexivity|]. split; [|split; [exact A | exact B]].
  apply (XInv_same xc x); assumption.
Qed.

(* ---------- every extended operation preserves the invariant and never dangles *)
Lemma xlift_step_life xc x bo :
  XInv xc x -> (forall p n, bo <> Patch p n) -> (forall p, bo <> Unpatch p) ->
  exists x' r, xlift x (step (xc_cfg xc) (x_s x) bo) = XOk x' r /\ XInv xc x' /\
    (forall a u, s_heap (x_s x) a = Live u ->
       (exists u', s_heap (x_s x') a = Live u' /\ u_num u' = u_num u) \/
       (bo = GC /\ u_active u = false /\ s_heap (x_s x') a = Freed)).
Proof.
  intros XI N1 N2.
  destruct (xlift_inv xc x bo XI N1 N2) as (x' & r & E & XI' & Es & _).
  exists x', r. split; [exact E|]. split; [exact XI'|]. intros a u Ha.
  destruct (step_inv (xc_cfg xc) (x_s x) bo (proj1 XI)) as (s2 & r2 & E2 & _).
  rewrite E2 in Es. rewrite Es.
  exact (step_lifetime (xc_cfg xc) (x_s x) bo s2 r2 a u (proj1 XI) E2 Ha).
Qed.

Lemma xstep_inv xc x o :
  XInv xc x -> exists x' r, xstep xc x o = XOk x' r /\ XInv xc x' /\
    (forall a u, s_heap (x_s x) a = Live u ->
       (exists u', s_heap (x_s x') a = Live u' /\ u_num u' = u_num u) \/
       (o = XBase GC /\ u_active u = false /\ s_heap (x_s x') a = Freed)).
Proof.
  intros XI.
  assert (forall bo, (forall p n, bo <> Patch p n) -> (forall p, bo <> Unpatch p) ->
            exists x' r, xlift x (step (xc_cfg xc) (x_s x) bo) = XOk x' r /\ XInv xc x' /\
              (forall a u, s_heap (x_s x) a = Live u ->
                 (exists u', s_heap (x_s x') a = Live u' /\ u_num u' = u_num u) \/
                 (XBase bo = XBase GC /\ u_active u = false /\ s_heap (x_s x') a = Freed))) as L.
  { intros bo N1 N2. destruct (xlift_step_life xc x bo XI N1 N2) as (x' & r & E & XI' & Lf).
    exists x', r. split; [exact E|]. split; [exact XI'|]. intros a u Ha.
    destruct (Lf a u Ha) as [H|(H1 & H2 & H3)]; [left; exact H | right; rewrite H1; tauto]. }
  destruct o as [b| d | d | | n cl | n cl].
  - destruct b; cbn [xstep]; try (apply L; intros; discriminate).
    + destruct (xpatch_inv xc x p n XI) as (x' & b & E & XI' & _ & K & _).
      exists x', (RBool b). split; [exact E|]. split; [exact XI'|]. intros a u Ha. left. exact (keeps_live_num _ _ K a u Ha).
    + destruct (xunpatch_inv xc x p XI) as (x' & b & E & XI' & _ & _ & K & _).
      exists x', (RBool b). split; [exact E|]. split; [exact XI'|]. intros a u Ha. left. exact (keeps_live_num _ _ K a u Ha).
  - destruct (xregister_inv xc x d XI) as (x' & r & E & XI' & K).
    exists x', r. split; [exact E|]. split; [exact XI'|]. intros a u Ha. left. exact (keeps_live_num _ _ K a u Ha).
  - destruct (xunregister_inv xc x d XI) as (x' & r & E & XI' & A & _).
    exists x', r. split; [exact E|]. split; [exact XI'|]. intros a u Ha. left. rewrite A. eauto.
  - destruct (xunregister_all_inv xc x XI) as (x' & r & E & XI' & A & _).
    exists x', r. split; [exact E|]. split; [exact XI'|]. intros a u Ha. left. rewrite A. eauto.
  - destruct (xlift_step_life xc x (SinkAdd n cl) XI) as (x' & r & E & XI' & Lf); try discriminate.
    exists x', r. split; [exact E|]. split; [exact XI'|]. intros a u Ha.
    destruct (Lf a u Ha) as [H|(H1 & _)]; [left; exact H | discriminate].
  - destruct (xlift_step_life xc x (SinkRem n cl) XI) as (x' & r & E & XI' & Lf); try discriminate.
    exists x', r. split; [exact E|]. split; [exact XI'|]. intros a u Ha.
    destruct (Lf a u Ha) as [H|(H1 & _)]; [left; exact H | discriminate].
Qed.

Lemma xrun_inv xc ops : forall x, XInv xc x -> exists x', xrun xc x ops = Some x' /\ XInv xc x'.
Proof.
  induction ops as [|o r IH]; intros x XI; cbn; [eauto|].
  destruct (xstep_inv xc x o XI) as (x' & res & E & XI' & _). rewrite E. apply IH. exact XI'.
Qed.

Lemma xreach_inv xc ops x : xrun xc (xinit xc) ops = Some x -> XInv xc x.
Proof.
  intros H. destruct (xrun_inv xc ops (xinit xc) (xinit_inv xc)) as (x' & E & XI). congruence.
Qed.
