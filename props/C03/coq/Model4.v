(* C03 wave 6 — deferred completions.  An output port created with start_rdm_discovery_on_patch starts
   RunIncrementalDiscovery from BasicOutputPort::SetUniverse; on real hardware the completion callback
   (BasicOutputPort::UpdateUIDs) runs LATER, after any number of other operations.  UpdateUIDs reads
   GetUniverse() when it runs and calls Universe::NewUIDList(port, uids) on it, which edits the
   universe's UID -> output-port routing table (m_output_uids, used by Universe::SendRDMRequest).
   This layer adds
     z_pend p  : number of discoveries of port p still in flight,
     z_uids o  : the routing table of universe object o,
   and the operation ZFire p us: the oldest pending discovery of port p completes with UID set us.
   Universe::GenericRemovePort erases the table entries of a port when it leaves the universe: modelled
   extensionally by pruning, after every operation, the entries whose port is no longer patched to the
   universe.  A pending completion of a deleted port is discarded (the port object owns it). *)
From OlaBase Require Import Bytes.
From C03 Require Import Gen Model Model2 Model3.
Local Open Scope N_scope.

Record zcfg := mkzcfg {
  zc_xc : xcfg;
  zc_disc : N -> bool }.      (* port p was created with start_rdm_discovery_on_patch, deferred *)

Record zstate := mkz {
  z_y : ystate;
  z_pend : N -> N;
  z_uids : N -> list (N * N) }.   (* universe object -> [(uid, output port)] *)

Definition zinit (zc : zcfg) : zstate := mkz (yinit (zc_xc zc)) (fun _ => 0) (fun _ => []).

Definition zbase (z : zstate) : state := x_s (y_x (z_y z)).

Inductive zoutcome := ZOk (z : zstate) (r : res) | ZDangling.

Definition opt_eqb (a b : option N) : bool :=
  match a, b with
  | Some x, Some y => x =? y
  | None, None => true
  | _, _ => false
  end.

(* Universe::NewUIDList(port, uids) on a table *)
Definition new_uid_list (p : N) (us : list N) (tbl : list (N * N)) : list (N * N) :=
  let kept := filter (fun e => negb ((snd e =? p) && negb (mem (fst e) us))) tbl in
  fold_left (fun t uid => if existsb (fun e => fst e =? uid) t then t else t ++ [(uid, p)]) us kept.

Inductive zop :=
| ZY (o : yop)
| ZFire (p : N) (us : list N)
| ZAddDup (p : N)        (* Device::AddPort with a NEW port object whose PortId() and direction equal those
                            of the device's existing port p: ignored (warning), the caller keeps the object *)
| ZDevStart (d : N).     (* Device::Start: does not touch ports (a second Start is a no-op too) *)

Definition zstep (zc : zcfg) (z : zstate) (o : zop) : zoutcome :=
  let s := zbase z in
  match o with
  | ZY yo =>
    match ystep (zc_xc zc) (z_y z) yo with
    | YDangling => ZDangling
    | YOk y' r =>
      let s' := x_s (y_x y') in
      ZOk (mkz y'
               (* SetUniverse ran (the port's universe changed) => one more discovery in flight;
                  a deleted port's pending completions are dropped *)
               (fun q => if s_pdead s' q then 0
                         else if zc_disc zc q && negb (opt_eqb (s_puniv s q) (s_puniv s' q))
                              then z_pend z q + 1 else z_pend z q)
               (* GenericRemovePort: entries of ports that left the universe are erased *)
               (fun a => filter (fun e => opt_eqb (s_puniv s' (snd e)) (Some a)) (z_uids z a)))
          r
    end
  | ZAddDup p =>
    match port_of (xc_cfg (zc_xc zc)) s p with
    | Some pc => match dev_cfg (xc_cfg (zc_xc zc)) (pc_dev pc) with
                 | Some _ => ZOk z (RBool true)      (* GenericAddPort returns true; nothing changes *)
                 | None => ZOk z RUnit end
    | None => ZOk z RUnit
    end
  | ZDevStart d =>
    match dev_cfg (xc_cfg (zc_xc zc)) d with Some _ => ZOk z (RBool true) | None => ZOk z RUnit end
  | ZFire p us =>
    if z_pend z p =? 0 then ZOk z RUnit
    else
      let pend' := upd (z_pend z) p (z_pend z p - 1) in
      (* BasicOutputPort::UpdateUIDs: Universe *universe = GetUniverse(); if (universe) NewUIDList *)
      match s_puniv s p with
      | None => ZOk (mkz (z_y z) pend' (z_uids z)) (RBool false)
      | Some a =>
        match deref s a with
        | None => ZDangling
        | Some _ => ZOk (mkz (z_y z) pend' (upd (z_uids z) a (new_uid_list p us (z_uids z a)))) (RBool true)
        end
      end
  end.

Fixpoint zrun (zc : zcfg) (z : zstate) (ops : list zop) : option zstate :=
  match ops with
  | [] => Some z
  | o :: r => match zstep zc z o with ZOk z' _ => zrun zc z' r | ZDangling => None end
  end.

(* Universe::SendRDMRequest for a unicast uid: the port the request is handed to *)
Definition route (z : zstate) (a uid : N) : option N :=
  match find (fun e => fst e =? uid) (z_uids z a) with Some e => Some (snd e) | None => None end.
