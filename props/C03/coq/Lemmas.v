(* C03 — basic lemmas and the structural well-formedness predicate with its primitive-step lemmas. *)
From OlaBase Require Import Bytes.
From C03 Require Import Gen Model.
Local Open Scope N_scope.

Lemma upd_eq {A} (f : N -> A) k v : upd f k v k = v.
Proof. unfold upd. rewrite N.eqb_refl. reflexivity. Qed.
Lemma upd_neq {A} (f : N -> A) k v x : x <> k -> upd f k v x = f x.
Proof. unfold upd. intros H. destruct (N.eqb_spec x k); congruence. Qed.

Lemma mem_In x l : mem x l = true <-> In x l.
Proof.
  unfold mem. rewrite existsb_exists. split.
  - intros (y & Hy & E). apply N.eqb_eq in E. subst. exact Hy.
  - intros H. exists x. split; [exact H | apply N.eqb_refl].
Qed.
Lemma mem_false x l : mem x l = false <-> ~ In x l.
Proof. rewrite <- mem_In. destruct (mem x l); split; congruence. Qed.

Lemma remove_first_notin x l : ~ In x l -> remove_first x l = l.
Proof.
  induction l as [|y r IH]; cbn; intros H; [reflexivity|].
  destruct (N.eqb_spec y x); [exfalso; apply H; left; exact e|].
  f_equal. apply IH. intros H1. apply H. right. exact H1.
Qed.
Lemma remove_first_In x y l : NoDup l -> (In y (remove_first x l) <-> In y l /\ y <> x).
Proof.
  induction l as [|z r IH]; cbn; intros ND; [tauto|].
  inversion ND as [|? ? Hz ND']; subst.
  destruct (N.eqb_spec z x).
  - subst. split.
    + intros H. split; [right; exact H|]. intros ->. contradiction.
    + intros [[H|H] H1]; [congruence | exact H].
  - cbn. rewrite (IH ND'). split.
    + intros [H|[H H1]]; [subst; split; [left; reflexivity | exact n] | split; [right; exact H | exact H1]].
    + intros [[H|H] H1]; [left; exact H | right; split; assumption].
Qed.
Lemma remove_first_NoDup x l : NoDup l -> NoDup (remove_first x l).
Proof.
  induction l as [|z r IH]; cbn; intros ND; [constructor|].
  inversion ND as [|? ? Hz ND']; subst.
  destruct (N.eqb_spec z x); [exact ND'|].
  constructor; [|apply IH; exact ND'].
  rewrite (remove_first_In x z r ND'). tauto.
Qed.
Lemma remove_first_incl x y l : In y (remove_first x l) -> In y l.
Proof.
  induction l as [|z r IH]; cbn; [tauto|].
  destruct (N.eqb_spec z x); [intros H; right; exact H|].
  cbn. intros [H|H]; [left; exact H | right; apply IH; exact H].
Qed.
Lemma NoDup_snoc (x : N) l : NoDup l -> ~ In x l -> NoDup (l ++ [x]).
Proof.
  induction l as [|z r IH]; cbn; intros ND H; [constructor; [tauto|constructor]|].
  inversion ND as [|? ? Hz ND']; subst.
  constructor.
  - rewrite in_app_iff. cbn. intros [H1|[H1|[]]]; [contradiction | subst; apply H; left; reflexivity].
  - apply IH; [exact ND' | intros H1; apply H; right; exact H1].
Qed.

Lemma is_nil_true {A} (l : list A) : is_nil l = true <-> l = [].
Proof. destruct l; cbn; split; congruence. Qed.

(* uni accessors *)
Lemma uni_ports_set_same inp u l : uni_ports inp (uni_set_ports inp u l) = l.
Proof. destruct inp; reflexivity. Qed.
Lemma uni_ports_set_other inp inp' u l : inp' <> inp -> uni_ports inp' (uni_set_ports inp u l) = uni_ports inp' u.
Proof. destruct inp, inp'; cbn; congruence. Qed.
Lemma u_num_set_ports inp u l : u_num (uni_set_ports inp u l) = u_num u.
Proof. destruct inp; reflexivity. Qed.

(* store *)
Lemma sfind_sremove_same n l : sfind n (sremove n l) = None.
Proof.
  induction l as [|[k o] r IH]; cbn; [reflexivity|].
  destruct (N.eqb_spec k n); [exact IH|]. cbn.
  destruct (N.eqb_spec k n); [contradiction | exact IH].
Qed.
Lemma sfind_sremove_other n m l : m <> n -> sfind m (sremove n l) = sfind m l.
Proof.
  intros H. induction l as [|[k o] r IH]; cbn; [reflexivity|].
  destruct (N.eqb_spec k n).
  - subst. destruct (N.eqb_spec n m); [congruence | exact IH].
  - cbn. destruct (N.eqb_spec k m); [reflexivity | exact IH].
Qed.

(* ---------- well-formedness relative to a ghost patch map f and an exempt object ex *)
Definition pdir (c : cfg) (p : N) (inp : bool) : Prop :=
  exists pc, port_cfg c p = Some pc /\ pc_in pc = inp.

Lemma pdir_fun c p a b : pdir c p a -> pdir c p b -> a = b.
Proof. intros (x & H1 & H2) (y & H3 & H4). congruence. Qed.

Record Wf (c : cfg) (s : state) (f : N -> option N) (ex : option N) : Prop := {
  wf_list : forall o u q inp, s_heap s o = Live u ->
            (In q (uni_ports inp u) <-> (f q = Some o /\ pdir c q inp));
  wf_nodup : forall o u inp, s_heap s o = Live u -> NoDup (uni_ports inp u);
  wf_store : forall n o, sfind n (s_store s) = Some o <-> exists u, s_heap s o = Live u /\ u_num u = n;
  wf_cand_live : forall o, In o (s_cand s) -> exists u, s_heap s o = Live u;
  wf_cand_nodup : NoDup (s_cand s);
  wf_inactive : forall o u, s_heap s o = Live u -> u_active u = false -> In o (s_cand s) \/ ex = Some o;
  wf_next : forall o, s_next s <= o -> s_heap s o = Unalloc }.

Lemma Wf_ext c s f g ex : (forall q, f q = g q) -> Wf c s f ex -> Wf c s g ex.
Proof.
  intros E W. destruct W. constructor; try assumption.
  intros o u q inp H. rewrite <- E. apply wf_list0. exact H.
Qed.

Lemma Wf_weaken c s f x : Wf c s f None -> Wf c s f (Some x).
Proof.
  intros W. destruct W. constructor; try assumption.
  intros o u H1 H2. destruct (wf_inactive0 o u H1 H2) as [H|H]; [left; exact H | discriminate].
Qed.

Lemma wf_inj c s f ex o1 o2 u1 u2 :
  Wf c s f ex -> s_heap s o1 = Live u1 -> s_heap s o2 = Live u2 -> u_num u1 = u_num u2 -> o1 = o2.
Proof.
  intros W H1 H2 E.
  assert (sfind (u_num u1) (s_store s) = Some o1) as A by (apply (wf_store _ _ _ _ W); eauto).
  assert (sfind (u_num u1) (s_store s) = Some o2) as B by (apply (wf_store _ _ _ _ W); eauto).
  congruence.
Qed.

(* candidates *)
Definition cand_ok (o : N) (cand cand' : list N) : Prop :=
  incl cand cand' /\ (forall x, In x cand' -> In x cand \/ x = o) /\ (NoDup cand -> NoDup cand').

Lemma cand_ok_refl o l : cand_ok o l l.
Proof. repeat split; [apply incl_refl | intros; left; assumption | tauto]. Qed.

Lemma add_cand_ok o s : cand_ok o (s_cand s) (s_cand (add_cand o s)) /\ In o (s_cand (add_cand o s)).
Proof.
  unfold add_cand. destruct (mem o (s_cand s)) eqn:E.
  - split; [apply cand_ok_refl | apply mem_In; exact E].
  - cbn. apply mem_false in E. split; [|left; reflexivity].
    repeat split.
    + intros x H. right. exact H.
    + intros x [H|H]; [right; symmetry; exact H | left; exact H].
    + intros ND. constructor; assumption.
Qed.

Lemma cand_if_inactive_ok o u s :
  cand_ok o (s_cand s) (s_cand (cand_if_inactive o u s)) /\
  (u_active u = false -> In o (s_cand (cand_if_inactive o u s))).
Proof.
  unfold cand_if_inactive. destruct (u_active u).
  - split; [apply cand_ok_refl | discriminate].
  - destruct (add_cand_ok o s) as [A B]. split; [exact A | intros _; exact B].
Qed.

Lemma add_cand_fields o s :
  s_puniv (add_cand o s) = s_puniv s /\ s_pprio (add_cand o s) = s_pprio s /\
  s_pinh (add_cand o s) = s_pinh s /\ s_pdead (add_cand o s) = s_pdead s /\
  s_heap (add_cand o s) = s_heap s /\ s_store (add_cand o s) = s_store s /\
  s_next (add_cand o s) = s_next s.
Proof. unfold add_cand. destruct (mem o (s_cand s)); cbn; repeat split; reflexivity. Qed.

Lemma cand_if_inactive_fields o u s :
  s_puniv (cand_if_inactive o u s) = s_puniv s /\ s_pprio (cand_if_inactive o u s) = s_pprio s /\
  s_pinh (cand_if_inactive o u s) = s_pinh s /\ s_pdead (cand_if_inactive o u s) = s_pdead s /\
  s_heap (cand_if_inactive o u s) = s_heap s /\ s_store (cand_if_inactive o u s) = s_store s /\
  s_next (cand_if_inactive o u s) = s_next s.
Proof.
  unfold cand_if_inactive. destruct (u_active u); [repeat split; reflexivity | apply add_cand_fields].
Qed.

(* the general one-cell update: object o is replaced by u' (same number), candidates may gain o *)
Lemma wf_upd_cell c s s' f f' ex ex' o u u' :
  Wf c s f ex -> s_heap s o = Live u -> u_num u' = u_num u ->
  (forall x, s_heap s' x = upd (s_heap s) o (Live u') x) ->
  s_store s' = s_store s -> s_next s' = s_next s ->
  cand_ok o (s_cand s) (s_cand s') ->
  (forall q inp, In q (uni_ports inp u') <-> (f' q = Some o /\ pdir c q inp)) ->
  (forall inp, NoDup (uni_ports inp u')) ->
  (forall q o2, o2 <> o -> (f' q = Some o2 <-> f q = Some o2)) ->
  (u_active u' = false -> In o (s_cand s') \/ ex' = Some o) ->
  (forall x, ex = Some x -> x = o \/ ex' = Some x) ->
  Wf c s' f' ex'.
Proof.
  intros W Ho En Hh Hs Hn (Ci & Cb & Cn) Hl Hnd Hf Hact Hex.
  constructor.
  - intros o2 u2 q inp H. rewrite Hh in H. destruct (N.eq_dec o2 o) as [->|Ne].
    + rewrite upd_eq in H. injection H as <-. apply Hl.
    + rewrite upd_neq in H by exact Ne. rewrite (wf_list _ _ _ _ W o2 u2 q inp H).
      rewrite (Hf q o2 Ne). tauto.
  - intros o2 u2 inp H. rewrite Hh in H. destruct (N.eq_dec o2 o) as [->|Ne].
    + rewrite upd_eq in H. injection H as <-. apply Hnd.
    + rewrite upd_neq in H by exact Ne. exact (wf_nodup _ _ _ _ W o2 u2 inp H).
  - intros n o2. rewrite Hs, (wf_store _ _ _ _ W n o2). split.
    + intros (u2 & H1 & H2). destruct (N.eq_dec o2 o) as [->|Ne].
      * exists u'. rewrite Hh, upd_eq. split; [reflexivity | congruence].
      * exists u2. rewrite Hh, upd_neq by exact Ne. tauto.
    + intros (u2 & H1 & H2). rewrite Hh in H1. destruct (N.eq_dec o2 o) as [->|Ne].
      * rewrite upd_eq in H1. injection H1 as <-. exists u. split; [exact Ho | congruence].
      * rewrite upd_neq in H1 by exact Ne. eauto.
  - intros x H. rewrite Hh. destruct (N.eq_dec x o) as [->|Ne].
    + rewrite upd_eq. eauto.
    + rewrite upd_neq by exact Ne. destruct (Cb x H) as [H1|H1]; [|contradiction].
      exact (wf_cand_live _ _ _ _ W x H1).
  - apply Cn. exact (wf_cand_nodup _ _ _ _ W).
  - intros o2 u2 H Ha. rewrite Hh in H. destruct (N.eq_dec o2 o) as [->|Ne].
    + rewrite upd_eq in H. injection H as <-. apply Hact. exact Ha.
    + rewrite upd_neq in H by exact Ne.
      destruct (wf_inactive _ _ _ _ W o2 u2 H Ha) as [H1|H1]; [left; apply Ci; exact H1|].
      destruct (Hex o2 H1) as [H2|H2]; [contradiction | right; exact H2].
  - intros x H. rewrite Hh, Hn in *. destruct (N.eq_dec x o) as [->|Ne].
    + rewrite (wf_next _ _ _ _ W o H) in Ho. discriminate.
    + rewrite upd_neq by exact Ne. exact (wf_next _ _ _ _ W x H).
Qed.

(* frame facts shared by the heap primitives *)
Definition same_ports (s s' : state) : Prop :=
  s_puniv s' = s_puniv s /\ s_pprio s' = s_pprio s /\ s_pinh s' = s_pinh s /\ s_pdead s' = s_pdead s.
(* live cells stay live with their number *)
Definition keeps_num (s s' : state) : Prop :=
  forall x u, s_heap s x = Live u -> exists u', s_heap s' x = Live u' /\ u_num u' = u_num u.
(* ... and keep every source client they had *)
Definition keeps_live (s s' : state) : Prop :=
  forall x u, s_heap s x = Live u ->
    exists u', s_heap s' x = Live u' /\ u_num u' = u_num u /\ incl (u_src u) (u_src u').

Lemma keeps_live_num s s' : keeps_live s s' -> keeps_num s s'.
Proof. intros K x u H. destruct (K x u H) as (u' & A & B & _). eauto. Qed.
Lemma same_ports_refl s : same_ports s s.
Proof. repeat split. Qed.
Lemma keeps_num_refl s : keeps_num s s.
Proof. intros x u H. eauto. Qed.
Lemma keeps_num_trans a b d : keeps_num a b -> keeps_num b d -> keeps_num a d.
Proof.
  intros H1 H2 x u H. destruct (H1 x u H) as (u1 & A & B). destruct (H2 x u1 A) as (u2 & C & D).
  exists u2. split; [exact C | congruence].
Qed.
Lemma keeps_live_refl s : keeps_live s s.
Proof. intros x u H. exists u. split; [exact H|]. split; [reflexivity | apply incl_refl]. Qed.
Lemma keeps_live_trans a b d : keeps_live a b -> keeps_live b d -> keeps_live a d.
Proof.
  intros H1 H2 x u H. destruct (H1 x u H) as (u1 & A & B & B2). destruct (H2 x u1 A) as (u2 & C & D & D2).
  exists u2. split; [exact C|]. split; [congruence | exact (incl_tran B2 D2)].
Qed.
Lemma u_src_set_ports inp u l : u_src (uni_set_ports inp u l) = u_src u.
Proof. destruct inp; reflexivity. Qed.
Lemma same_ports_trans a b d : same_ports a b -> same_ports b d -> same_ports a d.
Proof. intros (A1 & A2 & A3 & A4) (B1 & B2 & B3 & B4). repeat split; congruence. Qed.

(* Universe::GenericRemovePort *)
Lemma remove_port_wf c s f ex inp p o u :
  Wf c s f ex -> s_heap s o = Live u -> f p = Some o -> pdir c p inp ->
  exists s', uni_remove_port inp p o s = Some s' /\ Wf c s' (upd f p None) ex /\
             same_ports s s' /\ keeps_live s s'.
Proof.
  intros W Ho Hf Hd. unfold uni_remove_port, deref. rewrite Ho.
  assert (In p (uni_ports inp u)) as Hin by (apply (wf_list _ _ _ _ W o u p inp Ho); tauto).
  apply mem_In in Hin. rewrite Hin.
  set (u' := uni_set_ports inp u (remove_first p (uni_ports inp u))).
  set (s1 := set_heap s (upd (s_heap s) o (Live u'))).
  destruct (cand_if_inactive_fields o u' s1) as (F1 & F2 & F3 & F4 & F5 & F6 & F7).
  destruct (cand_if_inactive_ok o u' s1) as (C1 & C2).
  eexists. split; [reflexivity|]. split; [|split].
  - eapply (wf_upd_cell c s _ f (upd f p None) ex ex o u u' W Ho).
    + apply u_num_set_ports.
    + intros x. rewrite F5. reflexivity.
    + rewrite F6. reflexivity.
    + rewrite F7. reflexivity.
    + exact C1.
    + intros q inp2. destruct (Bool.bool_dec inp2 inp) as [->|Ne].
      * unfold u'. rewrite uni_ports_set_same.
        rewrite (remove_first_In p q _ (wf_nodup _ _ _ _ W o u inp Ho)).
        rewrite (wf_list _ _ _ _ W o u q inp Ho).
        destruct (N.eq_dec q p) as [->|Nq].
        -- rewrite upd_eq. split; [tauto | intros [H _]; discriminate].
        -- rewrite upd_neq by exact Nq. tauto.
      * unfold u'. rewrite uni_ports_set_other by exact Ne.
        rewrite (wf_list _ _ _ _ W o u q inp2 Ho).
        destruct (N.eq_dec q p) as [->|Nq].
        -- rewrite upd_eq. split; [|intros [H _]; discriminate].
           intros [_ H]. exfalso. apply Ne. exact (pdir_fun _ _ _ _ H Hd).
        -- rewrite upd_neq by exact Nq. tauto.
    + intros inp2. destruct (Bool.bool_dec inp2 inp) as [->|Ne].
      * unfold u'. rewrite uni_ports_set_same. apply remove_first_NoDup.
        exact (wf_nodup _ _ _ _ W o u inp Ho).
      * unfold u'. rewrite uni_ports_set_other by exact Ne. exact (wf_nodup _ _ _ _ W o u inp2 Ho).
    + intros q o2 Ne. destruct (N.eq_dec q p) as [->|Nq].
      * rewrite upd_eq, Hf. split; [discriminate | intros H; injection H as ->; contradiction].
      * rewrite upd_neq by exact Nq. tauto.
    + intros Ha. left. apply C2. exact Ha.
    + intros x H. right. exact H.
  - repeat split; assumption.
  - intros x ux H. rewrite F5. cbn. destruct (N.eq_dec x o) as [->|Ne].
    + rewrite upd_eq. exists u'. split; [reflexivity|]. unfold u'. rewrite u_num_set_ports, u_src_set_ports.
      split; [congruence|]. replace ux with u by congruence. apply incl_refl.
    + rewrite upd_neq by exact Ne. exists ux. split; [exact H|]. split; [reflexivity | apply incl_refl].
Qed.

(* Universe::GenericAddPort *)
Lemma add_port_wf c s f ex inp p o u :
  Wf c s f ex -> (ex = None \/ ex = Some o) -> s_heap s o = Live u -> f p = None -> pdir c p inp ->
  exists s', uni_add_port inp p o s = Some s' /\ Wf c s' (upd f p (Some o)) None /\
             same_ports s s' /\ keeps_live s s'.
Proof.
  intros W Hex Ho Hf Hd. unfold uni_add_port, deref. rewrite Ho.
  assert (~ In p (uni_ports inp u)) as Hin.
  { intros H. apply (wf_list _ _ _ _ W o u p inp Ho) in H. destruct H as [H _]. congruence. }
  apply mem_false in Hin. rewrite Hin. apply mem_false in Hin.
  set (u' := uni_set_ports inp u (uni_ports inp u ++ [p])).
  eexists. split; [reflexivity|]. split; [|split].
  - eapply (wf_upd_cell c s _ f (upd f p (Some o)) ex None o u u' W Ho).
    + apply u_num_set_ports.
    + intros x. reflexivity.
    + reflexivity.
    + reflexivity.
    + apply cand_ok_refl.
    + intros q inp2. destruct (Bool.bool_dec inp2 inp) as [->|Ne].
      * unfold u'. rewrite uni_ports_set_same, in_app_iff.
        rewrite (wf_list _ _ _ _ W o u q inp Ho). cbn.
        destruct (N.eq_dec q p) as [->|Nq].
        -- rewrite upd_eq. split; [intros _; split; [reflexivity | exact Hd] | intros _; right; left; reflexivity].
        -- rewrite upd_neq by exact Nq. split; [intros [H|[H|[]]]; [exact H | congruence] | intros H; left; exact H].
      * unfold u'. rewrite uni_ports_set_other by exact Ne.
        rewrite (wf_list _ _ _ _ W o u q inp2 Ho).
        destruct (N.eq_dec q p) as [->|Nq].
        -- rewrite upd_eq, Hf. split; [intros [H _]; discriminate|].
           intros [_ H]. exfalso. apply Ne. exact (pdir_fun _ _ _ _ H Hd).
        -- rewrite upd_neq by exact Nq. tauto.
    + intros inp2. destruct (Bool.bool_dec inp2 inp) as [->|Ne].
      * unfold u'. rewrite uni_ports_set_same. apply NoDup_snoc; [exact (wf_nodup _ _ _ _ W o u inp Ho) | exact Hin].
      * unfold u'. rewrite uni_ports_set_other by exact Ne. exact (wf_nodup _ _ _ _ W o u inp2 Ho).
    + intros q o2 Ne. destruct (N.eq_dec q p) as [->|Nq].
      * rewrite upd_eq, Hf. split; [intros H; injection H as <-; contradiction | discriminate].
      * rewrite upd_neq by exact Nq. tauto.
    + intros Ha. exfalso. unfold u', u_active in Ha. destruct inp; cbn in Ha.
      * destruct (u_in u); cbn in Ha; rewrite ?andb_false_r in Ha; cbn in Ha; discriminate.
      * destruct (u_out u); cbn in Ha; discriminate.
    + intros x H. left. destruct Hex as [E|E]; congruence.
  - repeat split.
  - intros x ux H. cbn. destruct (N.eq_dec x o) as [->|Ne].
    + rewrite upd_eq. exists u'. split; [reflexivity|]. unfold u'. rewrite u_num_set_ports, u_src_set_ports.
      split; [congruence|]. replace ux with u by congruence. apply incl_refl.
    + rewrite upd_neq by exact Ne. exists ux. split; [exact H|]. split; [reflexivity | apply incl_refl].
Qed.

(* UniverseStore::GetUniverseOrCreate *)
Lemma goc_wf c s f n o' s1 :
  Wf c s f None -> (forall q o, f q = Some o -> exists u, s_heap s o = Live u) ->
  get_or_create n s = (o', s1) ->
  Wf c s1 f (Some o') /\ (exists u', s_heap s1 o' = Live u' /\ u_num u' = n) /\
  same_ports s s1 /\ keeps_live s s1 /\
  (forall x u, s_heap s x = Live u -> s_heap s1 x = Live u).
Proof.
  intros W Hfl. unfold get_or_create. destruct (sfind n (s_store s)) as [o|] eqn:E.
  - intros H. injection H as <- <-.
    apply (wf_store _ _ _ _ W) in E. destruct E as (u & H1 & H2).
    split; [apply Wf_weaken; exact W|]. split; [eauto|].
    split; [apply same_ports_refl|]. split; [apply keeps_live_refl | tauto].
  - intros H. injection H as <- <-.
    assert (s_heap s (s_next s) = Unalloc) as Hfresh by (apply (wf_next _ _ _ _ W); lia).
    assert (forall x u, s_heap s x = Live u -> x <> s_next s) as Hne by (intros x u H ->; congruence).
    split; [|split; [|split; [|split]]].
    + constructor; cbn.
      * intros o u q inp H. destruct (N.eq_dec o (s_next s)) as [->|Ne].
        -- rewrite upd_eq in H. injection H as <-. destruct inp; cbn; split; try tauto;
             intros [H _]; destruct (Hfl q _ H) as (u & Hu); congruence.
        -- rewrite upd_neq in H by exact Ne. exact (wf_list _ _ _ _ W o u q inp H).
      * intros o u inp H. destruct (N.eq_dec o (s_next s)) as [->|Ne].
        -- rewrite upd_eq in H. injection H as <-. destruct inp; constructor.
        -- rewrite upd_neq in H by exact Ne. exact (wf_nodup _ _ _ _ W o u inp H).
      * intros m o. destruct (N.eqb_spec n m) as [->|Nm].
        -- split.
           ++ intros H. injection H as <-. rewrite upd_eq. eexists. split; reflexivity.
           ++ intros (u & H1 & H2). destruct (N.eq_dec o (s_next s)) as [->|Ne]; [reflexivity|].
              rewrite upd_neq in H1 by exact Ne.
              assert (sfind m (s_store s) = Some o) by (apply (wf_store _ _ _ _ W); eauto). congruence.
        -- rewrite (wf_store _ _ _ _ W m o). split.
           ++ intros (u & H1 & H2). exists u. rewrite upd_neq by (eapply Hne; eassumption). tauto.
           ++ intros (u & H1 & H2). destruct (N.eq_dec o (s_next s)) as [->|Ne].
              ** rewrite upd_eq in H1. injection H1 as <-. cbn in H2. congruence.
              ** rewrite upd_neq in H1 by exact Ne. eauto.
      * intros o H. destruct (wf_cand_live _ _ _ _ W o H) as (u & Hu).
        exists u. rewrite upd_neq by (eapply Hne; eassumption). exact Hu.
      * exact (wf_cand_nodup _ _ _ _ W).
      * intros o u H Ha. destruct (N.eq_dec o (s_next s)) as [->|Ne]; [right; reflexivity|].
        rewrite upd_neq in H by exact Ne.
        destruct (wf_inactive _ _ _ _ W o u H Ha) as [H1|H1]; [left; exact H1 | discriminate].
      * intros o H. rewrite upd_neq by lia. apply (wf_next _ _ _ _ W). lia.
    + cbn. rewrite upd_eq. eexists. split; reflexivity.
    + repeat split.
    + intros x u H. cbn. rewrite upd_neq by (eapply Hne; eassumption).
      exists u. split; [exact H|]. split; [reflexivity | apply incl_refl].
    + intros x u H. cbn. rewrite upd_neq by (eapply Hne; eassumption). exact H.
Qed.

(* "if (!universe->IsActive()) AddUniverseGarbageCollection(universe)" closes the exemption *)
Lemma cand_close_wf c s f o u :
  Wf c s f (Some o) -> s_heap s o = Live u -> Wf c (cand_if_inactive o u s) f None.
Proof.
  intros W Ho.
  destruct (cand_if_inactive_fields o u s) as (F1 & F2 & F3 & F4 & F5 & F6 & F7).
  destruct (cand_if_inactive_ok o u s) as ((Ci & Cb & Cn) & C2).
  constructor.
  - intros o2 u2 q inp H. rewrite F5 in H. exact (wf_list _ _ _ _ W o2 u2 q inp H).
  - intros o2 u2 inp H. rewrite F5 in H. exact (wf_nodup _ _ _ _ W o2 u2 inp H).
  - intros n o2. rewrite F6, F5. exact (wf_store _ _ _ _ W n o2).
  - intros x H. rewrite F5. destruct (Cb x H) as [H1| ->]; [exact (wf_cand_live _ _ _ _ W x H1) | eauto].
  - apply Cn. exact (wf_cand_nodup _ _ _ _ W).
  - intros o2 u2 H Ha. rewrite F5 in H. left.
    destruct (wf_inactive _ _ _ _ W o2 u2 H Ha) as [H1|H1]; [apply Ci; exact H1|].
    injection H1 as <-. apply C2. congruence.
  - intros x H. rewrite F5. rewrite F7 in H. exact (wf_next _ _ _ _ W x H).
Qed.

(* a client-list change on object o (ports untouched) followed by the IsActive check *)
Lemma clients_wf c s f o u u' :
  Wf c s f None -> s_heap s o = Live u ->
  u_num u' = u_num u -> u_in u' = u_in u -> u_out u' = u_out u ->
  Wf c (cand_if_inactive o u' (set_heap s (upd (s_heap s) o (Live u')))) f None.
Proof.
  intros W Ho En Ei Eo.
  set (s1 := set_heap s (upd (s_heap s) o (Live u'))).
  destruct (cand_if_inactive_fields o u' s1) as (F1 & F2 & F3 & F4 & F5 & F6 & F7).
  destruct (cand_if_inactive_ok o u' s1) as (C1 & C2).
  assert (forall inp, uni_ports inp u' = uni_ports inp u) as Ep by (intros [|]; cbn; assumption).
  eapply (wf_upd_cell c s _ f f None None o u u' W Ho En).
  - intros x. rewrite F5. reflexivity.
  - rewrite F6. reflexivity.
  - rewrite F7. reflexivity.
  - exact C1.
  - intros q inp. rewrite Ep. exact (wf_list _ _ _ _ W o u q inp Ho).
  - intros inp. rewrite Ep. exact (wf_nodup _ _ _ _ W o u inp Ho).
  - tauto.
  - intros Ha. left. apply C2. exact Ha.
  - discriminate.
Qed.
