(* C03 wave 6 — deferred discovery completions: they never dereference a collected universe, and the UID
   routing table of a universe only ever names ports that are patched to it. *)
From OlaBase Require Import Bytes.
From C03 Require Import Gen Model Lemmas Proofs Proofs2 Model2 Proofs3 Proofs4 Model3 Proofs5 Proofs6 Model4.
Local Open Scope N_scope.

Definition TInv (z : zstate) : Prop :=
  forall a uid q, In (uid, q) (z_uids z a) -> s_puniv (zbase z) q = Some a.

Definition ZInv (zc : zcfg) (z : zstate) : Prop := YInv (zc_xc zc) (z_y z) /\ TInv z.

Lemma zinit_inv zc : ZInv zc (zinit zc).
Proof. split; [apply yinit_inv | intros a uid q []]. Qed.

Lemma opt_eqb_true a b : opt_eqb a b = true -> a = b.
Proof.
  destruct a, b; cbn; try discriminate; [|reflexivity]. intros H. apply N.eqb_eq in H. congruence.
Qed.

Lemma new_uid_list_in p us : forall tbl e, In e (new_uid_list p us tbl) -> In e tbl \/ snd e = p.
Proof.
  intros tbl e. unfold new_uid_list.
  set (kept := filter (fun e0 => negb ((snd e0 =? p) && negb (mem (fst e0) us))) tbl).
  assert (forall l t, (forall x, In x t -> In x tbl \/ snd x = p) ->
            forall x, In x (fold_left (fun t0 uid => if existsb (fun e0 => fst e0 =? uid) t0 then t0
                                                       else t0 ++ [(uid, p)]) l t) ->
                      In x tbl \/ snd x = p) as G.
  { induction l as [|uid r IH]; intros t Ht x Hx; cbn in Hx; [exact (Ht x Hx)|].
    refine (IH _ _ x Hx). intros y Hy.
    destruct (existsb (fun e0 => fst e0 =? uid) t); [exact (Ht y Hy)|].
    apply in_app_or in Hy. destruct Hy as [Hy|[<-|[]]]; [exact (Ht y Hy) | right; reflexivity]. }
  apply G. intros x Hx. left. unfold kept in Hx. apply filter_In in Hx. tauto.
Qed.

(* ---------- every z-level operation completes and preserves the invariants *)
Lemma zstep_inv zc z o :
  ZInv zc z ->
  exists z' r, zstep zc z o = ZOk z' r /\ ZInv zc z' /\
    match o with
    | ZY yo => ystep (zc_xc zc) (z_y z) yo = YOk (z_y z') r
    | ZFire p us =>
      z_y z' = z_y z /\
      (* the completion edits at most the table of the universe the port is on NOW *)
      (forall a, s_puniv (zbase z) p <> Some a -> z_uids z' a = z_uids z a)
    | ZAddDup _ | ZDevStart _ => z' = z
    end.
Proof.
  intros (YI & T). destruct o as [yo | p us | p | d]; cbn [zstep].
  3:{ destruct (port_of _ _ p) as [pc|]; [destruct (dev_cfg _ (pc_dev pc))|];
        eexists _, _; (split; [reflexivity|]; split; [split; assumption | reflexivity]). }
  3:{ destruct (dev_cfg _ d); eexists _, _; (split; [reflexivity|]; split; [split; assumption | reflexivity]). }
  - destruct (ystep_inv (zc_xc zc) (z_y z) yo YI) as (y' & r & E & YI' & _). rewrite E.
    eexists _, r. split; [reflexivity|]. split; [|reflexivity]. split; [exact YI'|].
    intros a uid q Hin. cbn [z_uids] in Hin. apply filter_In in Hin. destruct Hin as (_ & Hf).
    cbn [snd] in Hf. apply opt_eqb_true in Hf. exact Hf.
  - unfold TInv, zbase in *. destruct (z_pend z p =? 0).
    { exists z, RUnit. split; [reflexivity|]. split; [split; assumption|]. split; [reflexivity | reflexivity]. }
    destruct (s_puniv (x_s (y_x (z_y z))) p) as [a|] eqn:Ep.
    + destruct (inv_plive _ _ (proj1 YI) p a Ep) as (u & Hu). unfold deref. rewrite Hu.
      eexists _, _. split; [reflexivity|]. split; [|split; [reflexivity|]].
      * split; [exact YI|]. unfold TInv, zbase. intros a2 uid q Hin. cbn [z_uids] in Hin. cbn [z_y].
        destruct (N.eq_dec a2 a) as [->|Ne].
        -- rewrite upd_eq in Hin. apply new_uid_list_in in Hin. destruct Hin as [Hin|Hq].
           ++ exact (T a uid q Hin).
           ++ cbn in Hq. subst q. exact Ep.
        -- rewrite upd_neq in Hin by exact Ne. exact (T a2 uid q Hin).
      * intros a2 Hne. cbn [z_uids]. apply upd_neq. intros ->. apply Hne. reflexivity.
    + eexists _, _. split; [reflexivity|]. split; [split; [exact YI | exact T]|]. split; reflexivity.
Qed.

Lemma zrun_inv zc ops : forall z, ZInv zc z -> exists z', zrun zc z ops = Some z' /\ ZInv zc z'.
Proof.
  induction ops as [|o r IH]; intros z ZI; cbn; [eauto|].
  destruct (zstep_inv zc z o ZI) as (z' & res & E & ZI' & _). rewrite E. apply IH. exact ZI'.
Qed.

(* the y-part of a z-history is the y-history of its non-completion operations *)
Fixpoint zproj (ops : list zop) : list yop :=
  match ops with
  | [] => []
  | ZY yo :: r => yo :: zproj r
  | _ :: r => zproj r
  end.

Lemma zrun_proj zc ops : forall z z', ZInv zc z ->
  zrun zc z ops = Some z' -> yrun (zc_xc zc) (z_y z) (zproj ops) = Some (z_y z').
Proof.
  induction ops as [|o r IH]; intros z z' ZI E; cbn in E.
  - injection E as <-. reflexivity.
  - destruct (zstep_inv zc z o ZI) as (z1 & r1 & E1 & ZI1 & Sp). rewrite E1 in E.
    destruct o as [yo | p us | p | d]; cbn [zproj].
    + cbn [yrun]. rewrite Sp. exact (IH z1 z' ZI1 E).
    + destruct Sp as (Ey & _). rewrite <- Ey. exact (IH z1 z' ZI1 E).
    + subst z1. exact (IH z z' ZI1 E).
    + subst z1. exact (IH z z' ZI1 E).
Qed.

(* ---------- the statements of Properties.v *)
Lemma c03z_inv_l : forall (zc : zcfg) (ops : list zop),
  exists z s, zrun zc (zinit zc) ops = Some z /\ s = x_s (y_x (z_y z)) /\
    yrun (zc_xc zc) (yinit (zc_xc zc)) (zproj ops) = Some (z_y z) /\
    (forall a uid q, route z a uid = Some q ->
       s_puniv s q = Some a /\ exists u, s_heap s a = Live u /\ listed u q).
Proof.
  intros zc ops. destruct (zrun_inv zc ops (zinit zc) (zinit_inv zc)) as (z & E & (YI & T)).
  exists z, (x_s (y_x (z_y z))). split; [exact E|]. split; [reflexivity|].
  split; [exact (zrun_proj zc ops (zinit zc) z (zinit_inv zc) E)|].
  intros a uid q Hr. unfold route in Hr.
  destruct (find (fun e => fst e =? uid) (z_uids z a)) as [(uid2 & q2)|] eqn:Ef; [|discriminate].
  injection Hr as <-. apply find_some in Ef. destruct Ef as (Hin & _).
  pose proof (T a uid2 q2 Hin) as Hp. split; [exact Hp|].
  destruct (inv_explicit _ _ (proj1 YI)) as (_ & _ & _ & X4 & _). exact (X4 q2 a Hp).
Qed.

Lemma c03z_fire_l : forall (zc : zcfg) (ops : list zop) (z : zstate) (p : N) (us : list N),
  zrun zc (zinit zc) ops = Some z ->
  exists z' r, zstep zc z (ZFire p us) = ZOk z' r /\ z_y z' = z_y z /\
    (forall a, s_puniv (x_s (y_x (z_y z))) p <> Some a -> z_uids z' a = z_uids z a).
Proof.
  intros zc ops z p us H.
  destruct (zrun_inv zc ops (zinit zc) (zinit_inv zc)) as (z0 & E & ZI).
  assert (z0 = z) as -> by congruence.
  destruct (zstep_inv zc z (ZFire p us) ZI) as (z' & r & E1 & _ & Sp).
  exists z', r. split; [exact E1 | exact Sp].
Qed.

Lemma c03_addport_duplicate_ignored_l : forall (zc : zcfg) (ops : list zop) (z : zstate) (p : N),
  zrun zc (zinit zc) ops = Some z ->
  exists r, zstep zc z (ZAddDup p) = ZOk z r /\
    (forall pc dc, port_of (xc_cfg (zc_xc zc)) (zbase z) p = Some pc ->
                   dev_cfg (xc_cfg (zc_xc zc)) (pc_dev pc) = Some dc -> r = RBool true).
Proof.
  intros zc ops z p _. cbn [zstep]. destruct (port_of _ _ p) as [pc|].
  - destruct (dev_cfg _ (pc_dev pc)) as [dc|] eqn:Ed.
    + exists (RBool true). split; [reflexivity|]. intros; reflexivity.
    + exists RUnit. split; [reflexivity|]. intros pc2 dc2 H1 H2. injection H1 as <-. congruence.
  - exists RUnit. split; [reflexivity|]. intros pc2 dc2 H1. discriminate.
Qed.
