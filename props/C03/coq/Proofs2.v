(* C03 — garbage collection, the step/run theorems and the explicit form of the invariant. *)
From OlaBase Require Import Bytes.
From C03 Require Import Gen Model Lemmas Proofs.
Local Open Scope N_scope.

Definition gc_saved (s : state) (o : N) : list N :=
  match s_heap s o with Live u => if u_active u then [] else [u_num u] | _ => [] end.

Definition sremove_all (l : list N) (st : list (N * N)) : list (N * N) :=
  fold_left (fun st n => sremove n st) l st.

Lemma sfind_sremove_all m l : forall st,
  sfind m (sremove_all l st) = if mem m l then None else sfind m st.
Proof.
  induction l as [|n r IH]; intros st; cbn; [reflexivity|].
  unfold sremove_all in *. rewrite IH. unfold mem. cbn.
  destruct (N.eqb_spec m n) as [->|Ne]; cbn.
  - rewrite sfind_sremove_same. destruct (existsb (N.eqb n) r); reflexivity.
  - rewrite sfind_sremove_other by exact Ne. reflexivity.
Qed.

Lemma flat_map_ext_in' {A B} (f g : A -> list B) l :
  (forall x, In x l -> f x = g x) -> flat_map f l = flat_map g l.
Proof.
  induction l as [|a l IH]; cbn; intros H; [reflexivity|].
  rewrite (H a (or_introl eq_refl)), IH; [reflexivity|]. intros x Hx. apply H. right. exact Hx.
Qed.

Lemma gc_loop_spec : forall r s sv,
  NoDup r -> (forall o, In o r -> exists u, s_heap s o = Live u) ->
  exists s', gc_loop r s sv = Some (s', sv ++ flat_map (gc_saved s) r) /\
    same_ports s s' /\ s_cand s' = s_cand s /\ s_next s' = s_next s /\
    (forall x, ~ In x r -> s_heap s' x = s_heap s x) /\
    (forall x u, In x r -> s_heap s x = Live u -> s_heap s' x = if u_active u then Live u else Freed) /\
    s_store s' = sremove_all (flat_map (gc_saved s) r) (s_store s).
Proof.
  induction r as [|o r IH]; intros s sv ND Hl; cbn [gc_loop flat_map].
  - exists s. rewrite app_nil_r. split; [reflexivity|]. split; [apply same_ports_refl|].
    repeat split; try reflexivity. intros x u [].
  - inversion ND as [|? ? Hnot ND']; subst.
    destruct (Hl o (or_introl eq_refl)) as (u & Hu). unfold deref. rewrite Hu.
    assert (gc_saved s o = if u_active u then [] else [u_num u]) as Egs
      by (unfold gc_saved; rewrite Hu; reflexivity).
    rewrite Egs.
    destruct (u_active u) eqn:Ea; cbn [app].
    + destruct (IH s sv ND') as (s' & E & SP & C & Nx & H1 & H2 & St).
      { intros o2 H. apply Hl. right. exact H. }
      exists s'. split; [exact E|]. split; [exact SP|]. split; [exact C|]. split; [exact Nx|].
      split; [|split; [|exact St]].
      * intros x H. apply H1. intros H3. apply H. right. exact H3.
      * intros x ux [<-|Hin] Hx.
        -- rewrite (H1 o Hnot). rewrite Hx in Hu. injection Hu as ->. rewrite Ea. exact Hx.
        -- exact (H2 x ux Hin Hx).
    + set (s1 := mkstate (s_puniv s) (s_pprio s) (s_pinh s) (s_pdead s)
                         (upd (s_heap s) o Freed) (sremove (u_num u) (s_store s)) (s_cand s) (s_next s)).
      assert (forall x, x <> o -> s_heap s1 x = s_heap s x) as Hsame
        by (intros x Ne; cbn; apply upd_neq; exact Ne).
      assert (flat_map (gc_saved s1) r = flat_map (gc_saved s) r) as Efm.
      { apply flat_map_ext_in'. intros x Hx. unfold gc_saved. rewrite Hsame; [reflexivity|].
        intros ->. contradiction. }
      destruct (IH s1 (sv ++ [u_num u]) ND') as (s' & E & SP & C & Nx & H1 & H2 & St).
      { intros o2 H. destruct (Hl o2 (or_intror H)) as (u2 & Hu2). exists u2.
        rewrite Hsame; [exact Hu2 | intros ->; contradiction]. }
      exists s'. rewrite Efm, <- app_assoc in E. cbn [app] in E.
      split; [exact E|]. split; [exact SP|]. split; [exact C|]. split; [exact Nx|].
      split; [|split].
      * intros x H. rewrite H1 by (intros H3; apply H; right; exact H3).
        apply Hsame. intros ->. apply H. left. reflexivity.
      * intros x ux [<-|Hin] Hx.
        -- rewrite (H1 o Hnot). cbn. rewrite upd_eq. rewrite Hx in Hu. injection Hu as ->. rewrite Ea. reflexivity.
        -- apply H2; [exact Hin|]. rewrite Hsame; [exact Hx | intros ->; contradiction].
      * rewrite St, Efm. reflexivity.
Qed.

Lemma listed_active inp q u : In q (uni_ports inp u) -> u_active u = true.
Proof.
  unfold u_active. destruct inp; cbn; intros H.
  - destruct (u_in u); [destruct H|]. cbn. rewrite andb_false_r. reflexivity.
  - destruct (u_out u); [destruct H|]. reflexivity.
Qed.

Lemma in_gc_saved s r n :
  In n (flat_map (gc_saved s) r) <->
  exists o u, In o r /\ s_heap s o = Live u /\ u_active u = false /\ u_num u = n.
Proof.
  rewrite in_flat_map. unfold gc_saved. split.
  - intros (o & Ho & H). destruct (s_heap s o) as [|u|] eqn:E; try destruct H.
    destruct (u_active u) eqn:Ea; [destruct H|]. destruct H as [<-|[]]. exists o, u. tauto.
  - intros (o & u & Ho & Hu & Ha & Hn). exists o. split; [exact Ho|]. rewrite Hu, Ha. left. exact Hn.
Qed.

Lemma gc_saved_nodup c s f ex r :
  Wf c s f ex -> NoDup r -> NoDup (flat_map (gc_saved s) r).
Proof.
  intros W. induction r as [|o r IH]; intros ND; cbn; [constructor|].
  inversion ND as [|? ? Hnot ND']; subst. specialize (IH ND').
  unfold gc_saved at 1. destruct (s_heap s o) as [|u|] eqn:E; try exact IH.
  destruct (u_active u); [exact IH|]. cbn. constructor; [|exact IH].
  intros H. apply in_gc_saved in H. destruct H as (o2 & u2 & Ho2 & Hu2 & _ & Hn).
  assert (o2 = o) as -> by (eapply wf_inj; eauto). contradiction.
Qed.

(* GarbageCollectUniverses: what it frees, what it keeps, what it saves *)
Lemma gc_inv c s :
  Inv c s ->
  exists s' l, gc s = Ok s' (RSaved l) /\ Inv c s' /\ s_cand s' = [] /\
    (forall n, In n l <-> exists o u, s_heap s o = Live u /\ u_active u = false /\ u_num u = n) /\
    NoDup l /\
    (forall o u, s_heap s o = Live u -> u_active u = true -> s_heap s' o = Live u) /\
    (forall o u, s_heap s o = Live u -> u_active u = false -> s_heap s' o = Freed) /\
    (forall o u, s_heap s' o = Live u -> s_heap s o = Live u /\ u_active u = true).
Proof.
  intros I. pose proof (inv_wf _ _ I) as W. unfold gc.
  destruct (gc_loop_spec (s_cand s) s [] (wf_cand_nodup _ _ _ _ W) (wf_cand_live _ _ _ _ W))
    as (s' & E & (P1 & P2 & P3 & P4) & C & Nx & H1 & H2 & St).
  rewrite E. cbn [app].
  set (l := flat_map (gc_saved s) (s_cand s)) in *.
  assert (forall o u, s_heap s o = Live u -> u_active u = true -> s_heap s' o = Live u) as Keep.
  { intros o u Hu Ha. destruct (in_dec N.eq_dec o (s_cand s)) as [Hin|Hout].
    - rewrite (H2 o u Hin Hu), Ha. reflexivity.
    - rewrite (H1 o Hout). exact Hu. }
  assert (forall o u, s_heap s o = Live u -> u_active u = false -> s_heap s' o = Freed) as Free.
  { intros o u Hu Ha. destruct (wf_inactive _ _ _ _ W o u Hu Ha) as [Hin|Hx]; [|discriminate].
    rewrite (H2 o u Hin Hu), Ha. reflexivity. }
  assert (forall o u, s_heap s' o = Live u -> s_heap s o = Live u /\ u_active u = true) as Back.
  { intros o u Hu. destruct (in_dec N.eq_dec o (s_cand s)) as [Hin|Hout].
    - destruct (wf_cand_live _ _ _ _ W o Hin) as (u0 & Hu0).
      rewrite (H2 o u0 Hin Hu0) in Hu. destruct (u_active u0) eqn:Ea; [|discriminate].
      injection Hu as <-. tauto.
    - rewrite (H1 o Hout) in Hu. split; [exact Hu|].
      destruct (u_active u) eqn:Ea; [reflexivity|].
      destruct (wf_inactive _ _ _ _ W o u Hu Ea) as [Hin|Hx]; [contradiction | discriminate]. }
  assert (forall n, In n l <-> exists o u, s_heap s o = Live u /\ u_active u = false /\ u_num u = n) as Lspec.
  { intros n. unfold l. rewrite in_gc_saved. split.
    - intros (o & u & _ & A & B & D). exists o, u. tauto.
    - intros (o & u & A & B & D). exists o, u. split; [|tauto].
      destruct (wf_inactive _ _ _ _ W o u A B) as [Hin|Hx]; [exact Hin | discriminate]. }
  exists (set_cand s' []), l. split; [reflexivity|]. split; [|split; [reflexivity|]].
  2:{ split; [exact Lspec|]. split; [exact (gc_saved_nodup c s _ _ _ W (wf_cand_nodup _ _ _ _ W))|].
      cbn. tauto. }
  constructor; cbn.
  - rewrite P1. constructor; cbn.
    + intros o u q inp Hu. destruct (Back o u Hu) as (Hs & _). exact (wf_list _ _ _ _ W o u q inp Hs).
    + intros o u inp Hu. destruct (Back o u Hu) as (Hs & _). exact (wf_nodup _ _ _ _ W o u inp Hs).
    + intros n o. rewrite St. fold l. rewrite sfind_sremove_all. split.
      * destruct (mem n l) eqn:Em; [discriminate|]. intros H.
        apply (wf_store _ _ _ _ W) in H. destruct H as (u & Hu & Hn). exists u. split; [|exact Hn].
        apply Keep; [exact Hu|]. destruct (u_active u) eqn:Ea; [reflexivity|]. exfalso.
        apply mem_false in Em. apply Em. apply Lspec. exists o, u. tauto.
      * intros (u & Hu & Hn). destruct (Back o u Hu) as (Hs & Ha).
        destruct (mem n l) eqn:Em.
        -- exfalso. apply mem_In in Em. apply Lspec in Em. destruct Em as (o2 & u2 & A & B & D).
           assert (o2 = o) as -> by (eapply wf_inj; eauto; congruence). congruence.
        -- apply (wf_store _ _ _ _ W). eauto.
    + intros o [].
    + constructor.
    + intros o u Hu Ha. destruct (Back o u Hu) as (_ & Hb). congruence.
    + intros o Ho. rewrite Nx in Ho. rewrite H1; [exact (wf_next _ _ _ _ W o Ho)|].
      intros Hin. destruct (wf_cand_live _ _ _ _ W o Hin) as (u & Hu).
      rewrite (wf_next _ _ _ _ W o Ho) in Hu. discriminate.
  - intros p o H. rewrite P1 in H. destruct (inv_plive _ _ I p o H) as (u & Hu).
    exists u. apply Keep; [exact Hu|].
    destruct (inv_pok _ _ I p o H) as (_ & pc & Hc).
    apply (listed_active (pc_in pc) p). apply (wf_list _ _ _ _ W o u p (pc_in pc) Hu).
    split; [exact H | exists pc; tauto].
  - intros p o H. rewrite P1 in H. rewrite P4. exact (inv_pok _ _ I p o H).
  - intros p. rewrite P2. exact (inv_prio _ _ I p).
  - intros a b pca pcb dc o Nab Ha Hb Edv Edc A B. rewrite P1 in A, B.
    exact (inv_policy _ _ I a b pca pcb dc o Nab Ha Hb Edv Edc A B).
Qed.

(* ---------- every operation preserves the invariant and never dangles *)
Lemma step_inv c s o : Inv c s -> exists s' r, step c s o = Ok s' r /\ Inv c s'.
Proof.
  intros I. destruct o; cbn.
  - destruct (patch_inv c s p n I) as (s' & b & E & I' & _). eauto.
  - destruct (unpatch_inv c s p I) as (s' & b & E & I' & _). eauto.
  - destruct (prio_static_inv c s p v I) as (s' & r & E & I' & _). eauto.
  - destruct (prio_inherit_inv c s p I) as (s' & r & E & I' & _). eauto.
  - destruct (gc_inv c s I) as (s' & l & E & I' & _). eauto.
  - destruct (sink_add_inv c s n cl I) as (s' & r & E & I' & _). eauto.
  - destruct (sink_rem_inv c s n cl I) as (s' & r & E & I' & _). eauto.
  - destruct (src_add_inv c s n cl I) as (s' & r & E & I' & _). eauto.
  - destruct (src_rem_inv c s n cl I) as (s' & r & E & I' & _). eauto.
  - destruct (data_inv c s p I) as (r & E). eauto.
  - destruct (stop_inv c s d I) as (s' & r & E & I' & _). eauto.
Qed.

Lemma run_inv c ops : forall s, Inv c s -> exists s', run c s ops = Some s' /\ Inv c s'.
Proof.
  induction ops as [|o r IH]; intros s I; cbn; [eauto|].
  destruct (step_inv c s o I) as (s' & res & E & I'). rewrite E. apply IH. exact I'.
Qed.

Lemma reach_inv c ops s : run c (init c) ops = Some s -> Inv c s.
Proof.
  intros H. destruct (run_inv c ops (init c) (init_inv c)) as (s' & E & I). congruence.
Qed.

(* only the collector ends a universe's life, and only when nothing refers to it *)
Lemma step_lifetime c s o s' r x u :
  Inv c s -> step c s o = Ok s' r -> s_heap s x = Live u ->
  (exists u', s_heap s' x = Live u' /\ u_num u' = u_num u) \/ (o = GC /\ u_active u = false /\ s_heap s' x = Freed).
Proof.
  intros I E Hx. destruct o; cbn in E.
  - destruct (patch_inv c s p n I) as (s2 & b & E2 & _ & K & _). left. rewrite E2 in E. injection E as <- _. exact (keeps_live_num _ _ K x u Hx).
  - destruct (unpatch_inv c s p I) as (s2 & b & E2 & _ & K). left. rewrite E2 in E. injection E as <- _. exact (keeps_live_num _ _ K x u Hx).
  - destruct (prio_static_inv c s p v I) as (s2 & r2 & E2 & _ & K). left. rewrite E2 in E. injection E as <- _. rewrite K. eauto.
  - destruct (prio_inherit_inv c s p I) as (s2 & r2 & E2 & _ & K). left. rewrite E2 in E. injection E as <- _. rewrite K. eauto.
  - destruct (gc_inv c s I) as (s2 & l & E2 & _ & _ & _ & _ & Keep & Free & _). rewrite E2 in E. injection E as <- _.
    destruct (u_active u) eqn:Ea.
    + left. exists u. split; [exact (Keep x u Hx Ea) | reflexivity].
    + right. split; [reflexivity|]. split; [reflexivity | exact (Free x u Hx Ea)].
  - destruct (sink_add_inv c s n cl I) as (s2 & r2 & E2 & _ & K). left. rewrite E2 in E. injection E as <- _. exact (keeps_live_num _ _ K x u Hx).
  - destruct (sink_rem_inv c s n cl I) as (s2 & r2 & E2 & _ & K). left. rewrite E2 in E. injection E as <- _. exact (keeps_live_num _ _ K x u Hx).
  - destruct (src_add_inv c s n cl I) as (s2 & r2 & E2 & _ & K). left. rewrite E2 in E. injection E as <- _. exact (keeps_live_num _ _ K x u Hx).
  - destruct (src_rem_inv c s n cl I) as (s2 & r2 & E2 & _ & K). left. rewrite E2 in E. injection E as <- _. exact (K x u Hx).
  - destruct (data_inv c s p I) as (r2 & E2). left. rewrite E2 in E. injection E as <- _. eauto.
  - destruct (stop_inv c s d I) as (s2 & r2 & E2 & _ & K). left. rewrite E2 in E. injection E as <- _. exact (keeps_live_num _ _ K x u Hx).
Qed.

(* ---------- the invariant written out in the terms of the property statement *)
Definition listed (u : uni) (p : N) : Prop := In p (u_in u) \/ In p (u_out u).

Lemma inv_explicit c s : Inv c s ->
  (* (1) a live universe lists a port exactly when the port reports that universe; an input port is
         in the input list, an output port in the output list; the universe a port reports is live *)
  (forall o u p, s_heap s o = Live u -> (listed u p <-> s_puniv s p = Some o)) /\
  (forall o u p, s_heap s o = Live u -> In p (u_in u) ->
      exists pc, port_cfg c p = Some pc /\ pc_in pc = true) /\
  (forall o u p, s_heap s o = Live u -> In p (u_out u) ->
      exists pc, port_cfg c p = Some pc /\ pc_in pc = false) /\
  (forall p o, s_puniv s p = Some o -> exists u, s_heap s o = Live u /\ listed u p) /\
  (* (2) a port is on at most one universe, and at most once *)
  (forall o1 o2 u1 u2 p, s_heap s o1 = Live u1 -> s_heap s o2 = Live u2 ->
      listed u1 p -> listed u2 p -> o1 = o2) /\
  (forall o u, s_heap s o = Live u -> NoDup (u_in u) /\ NoDup (u_out u)) /\
  (* (3) device policies *)
  (forall p q pcp pcq dc o, p <> q -> port_cfg c p = Some pcp -> port_cfg c q = Some pcq ->
      pc_dev pcp = pc_dev pcq -> dev_cfg c (pc_dev pcp) = Some dc ->
      s_puniv s p = Some o -> s_puniv s q = Some o ->
      (dc_loop dc = false -> pc_in pcp = pc_in pcq) /\ (dc_multi dc = false -> pc_in pcp <> pc_in pcq)) /\
  (* (4) priorities *)
  (forall p, s_pprio s p <= 200) /\
  (* (5) the store holds exactly the live universes, under their own number; unused ones are
         queued for collection; queued objects are live *)
  (forall n o, sfind n (s_store s) = Some o <-> exists u, s_heap s o = Live u /\ u_num u = n) /\
  (forall o u, s_heap s o = Live u -> u_active u = false -> In o (s_cand s)) /\
  (forall o, In o (s_cand s) -> exists u, s_heap s o = Live u) /\
  (* deleted ports are not patched *)
  (forall p, s_pdead s p = true -> s_puniv s p = None).
Proof.
  intros I. pose proof (inv_wf _ _ I) as W.
  assert (forall o u p, s_heap s o = Live u -> (listed u p <-> s_puniv s p = Some o)) as L1.
  { intros o u p Hu. unfold listed. split.
    - intros [H|H].
      + apply (wf_list _ _ _ _ W o u p true Hu) in H. tauto.
      + apply (wf_list _ _ _ _ W o u p false Hu) in H. tauto.
    - intros H. destruct (inv_pok _ _ I p o H) as (_ & pc & Hc).
      destruct (pc_in pc) eqn:Ed.
      + left. apply (wf_list _ _ _ _ W o u p true Hu). split; [exact H | exists pc; tauto].
      + right. apply (wf_list _ _ _ _ W o u p false Hu). split; [exact H | exists pc; tauto]. }
  split; [exact L1|].
  split. { intros o u p Hu H. apply (wf_list _ _ _ _ W o u p true Hu) in H. exact (proj2 H). }
  split. { intros o u p Hu H. apply (wf_list _ _ _ _ W o u p false Hu) in H. exact (proj2 H). }
  split. { intros p o H. destruct (inv_plive _ _ I p o H) as (u & Hu). exists u. split; [exact Hu|].
           apply (L1 o u p Hu). exact H. }
  split. { intros o1 o2 u1 u2 p H1 H2 A B. apply (L1 o1 u1 p H1) in A. apply (L1 o2 u2 p H2) in B. congruence. }
  split. { intros o u Hu. split; [exact (wf_nodup _ _ _ _ W o u true Hu) | exact (wf_nodup _ _ _ _ W o u false Hu)]. }
  split. { intros p q pcp pcq dc o Npq Hp Hq Edv Edc A B.
           destruct (inv_policy _ _ I p q pcp pcq dc o Npq Hp Hq Edv Edc A B) as (P1 & P2).
           split; intros Hf.
           - destruct (Bool.bool_dec (pc_in pcp) (pc_in pcq)) as [E|E]; [exact E|]. specialize (P1 E). congruence.
           - intros E. specialize (P2 E). congruence. }
  split; [exact (inv_prio _ _ I)|].
  split; [exact (wf_store _ _ _ _ W)|].
  split. { intros o u Hu Ha. destruct (wf_inactive _ _ _ _ W o u Hu Ha) as [H|H]; [exact H | discriminate]. }
  split; [exact (wf_cand_live _ _ _ _ W)|].
  intros p Hd. destruct (s_puniv s p) as [o|] eqn:E; [|reflexivity].
  destruct (inv_pok _ _ I p o E) as (Hf & _). congruence.
Qed.

(* a vetoed patch request fails and leaves the port where it was *)
Lemma patch_veto c s p n pc :
  Inv c s -> port_of c s p = Some pc -> veto pc n = true -> ~ on_universe s p n ->
  exists s', patch c s p n = Ok s' (RBool false) /\ s_puniv s' p = s_puniv s p.
Proof.
  intros I Hp Hv Hn. pose proof (patch_inv c s p n I) as (s' & b & E & I' & K & R).
  unfold patch, patch_v in *. rewrite Hp in *.
  destruct (s_puniv s p) as [o|] eqn:Eq.
  - destruct (inv_plive _ _ I p o Eq) as (u & Hu). unfold deref in *. rewrite Hu in *.
    destruct (N.eqb_spec (u_num u) n) as [En|En].
    { exfalso. apply Hn. exists o, u. tauto. }
    destruct (device_refuses c s pc n) as [[|]|]; try discriminate.
    { eexists. split; [reflexivity | exact Eq]. }
    destruct (get_or_create n s) as [o' s1] eqn:Eg.
    destruct (goc_wf c s (s_puniv s) n o' s1 (inv_wf _ _ I) (inv_plive _ _ I) Eg)
      as (W1 & (u' & Hu' & Nu') & (P1 & P2 & P3 & P4) & K1 & Hpres).
    assert (o <> o') as Ne. { intros ->. rewrite (Hpres o' u Hu) in Hu'. congruence. }
    apply N.eqb_neq in Ne. rewrite Ne, Hv. cbn. rewrite Hu'.
    eexists. split; [reflexivity|].
    destruct (cand_if_inactive_fields o' u' s1) as (F1 & _). rewrite F1, P1. exact Eq.
  - destruct (device_refuses c s pc n) as [[|]|]; try discriminate.
    { eexists. split; [reflexivity | exact Eq]. }
    destruct (get_or_create n s) as [o' s1] eqn:Eg.
    destruct (goc_wf c s (s_puniv s) n o' s1 (inv_wf _ _ I) (inv_plive _ _ I) Eg)
      as (W1 & (u' & Hu' & Nu') & (P1 & P2 & P3 & P4) & K1 & Hpres).
    rewrite Hv. cbn. unfold deref. rewrite Hu'.
    eexists. split; [reflexivity|].
    destruct (cand_if_inactive_fields o' u' s1) as (F1 & _). rewrite F1, P1. exact Eq.
Qed.

(* ---------- the statements of Properties.v *)
Definition reachable (c : cfg) (s : state) : Prop := exists ops, run c (init c) ops = Some s.

Lemma reachable_inv c s : reachable c s -> Inv c s.
Proof. intros (ops & H). exact (reach_inv c ops s H). Qed.

Lemma c03_inv_l : forall (c : cfg) (ops : list op),
  exists s, run c (init c) ops = Some s /\
  (forall o u p, s_heap s o = Live u -> (listed u p <-> s_puniv s p = Some o)) /\
  (forall o u p, s_heap s o = Live u -> In p (u_in u) ->
      exists pc, port_cfg c p = Some pc /\ pc_in pc = true) /\
  (forall o u p, s_heap s o = Live u -> In p (u_out u) ->
      exists pc, port_cfg c p = Some pc /\ pc_in pc = false) /\
  (forall p o, s_puniv s p = Some o -> exists u, s_heap s o = Live u /\ listed u p) /\
  (forall o1 o2 u1 u2 p, s_heap s o1 = Live u1 -> s_heap s o2 = Live u2 ->
      listed u1 p -> listed u2 p -> o1 = o2) /\
  (forall o u, s_heap s o = Live u -> NoDup (u_in u) /\ NoDup (u_out u)) /\
  (forall p q pcp pcq dc o, p <> q -> port_cfg c p = Some pcp -> port_cfg c q = Some pcq ->
      pc_dev pcp = pc_dev pcq -> dev_cfg c (pc_dev pcp) = Some dc ->
      s_puniv s p = Some o -> s_puniv s q = Some o ->
      (dc_loop dc = false -> pc_in pcp = pc_in pcq) /\ (dc_multi dc = false -> pc_in pcp <> pc_in pcq)) /\
  (forall p, s_pprio s p <= 200) /\
  (forall n o, sfind n (s_store s) = Some o <-> exists u, s_heap s o = Live u /\ u_num u = n) /\
  (forall o u, s_heap s o = Live u -> u_active u = false -> In o (s_cand s)) /\
  (forall o, In o (s_cand s) -> exists u, s_heap s o = Live u) /\
  (forall p, s_pdead s p = true -> s_puniv s p = None).
Proof.
  intros c ops. destruct (run_inv c ops (init c) (init_inv c)) as (s & E & I).
  exists s. split; [exact E | exact (inv_explicit c s I)].
Qed.

Lemma c03_patch_result_l : forall (c : cfg) (ops : list op) (s : state) (p n : N),
  run c (init c) ops = Some s ->
  exists s' b, step c s (Patch p n) = Ok s' (RBool b) /\
    (b = true <-> exists o u, s_puniv s' p = Some o /\ s_heap s' o = Live u /\ u_num u = n).
Proof.
  intros c ops s p n H. destruct (patch_inv c s p n (reach_inv c ops s H)) as (s' & b & E & _ & _ & R).
  exists s', b. split; [exact E | exact R].
Qed.

Lemma c03_veto_l : forall (c : cfg) (ops : list op) (s : state) (p n : N) (pc : pcfg),
  run c (init c) ops = Some s ->
  port_of c s p = Some pc -> In n (pc_veto pc) ->
  ~ (exists o u, s_puniv s p = Some o /\ s_heap s o = Live u /\ u_num u = n) ->
  exists s', step c s (Patch p n) = Ok s' (RBool false) /\ s_puniv s' p = s_puniv s p.
Proof.
  intros c ops s p n pc H Hp Hv Hn.
  apply (patch_veto c s p n pc (reach_inv c ops s H) Hp); [|exact Hn].
  unfold veto. apply mem_In. exact Hv.
Qed.

Lemma c03_gc_l : forall (c : cfg) (ops : list op) (s : state),
  run c (init c) ops = Some s ->
  exists s' l, step c s GC = Ok s' (RSaved l) /\ s_cand s' = [] /\
    (forall n, In n l <-> exists o u, s_heap s o = Live u /\ u_active u = false /\ u_num u = n) /\
    NoDup l /\
    (forall o u, s_heap s o = Live u -> u_active u = true -> s_heap s' o = Live u) /\
    (forall o u, s_heap s o = Live u -> u_active u = false -> s_heap s' o = Freed) /\
    (forall o u, s_heap s' o = Live u -> s_heap s o = Live u /\ u_active u = true).
Proof.
  intros c ops s H. destruct (gc_inv c s (reach_inv c ops s H)) as (s' & l & E & _ & R).
  exists s', l. split; [exact E | exact R].
Qed.

Lemma c03_lifetime_l : forall (c : cfg) (ops : list op) (s s' : state) (o : op) (r : res) (x : N) (u : uni),
  run c (init c) ops = Some s -> step c s o = Ok s' r -> s_heap s x = Live u ->
  (exists u', s_heap s' x = Live u' /\ u_num u' = u_num u) \/
  (o = GC /\ u_active u = false /\ s_heap s' x = Freed).
Proof.
  intros c ops s s' o r x u H. exact (step_lifetime c s o s' r x u (reach_inv c ops s H)).
Qed.

Lemma c03_data_l : forall (c : cfg) (ops : list op) (s : state) (p o : N) (pc : pcfg),
  run c (init c) ops = Some s -> port_of c s p = Some pc -> pc_in pc = true -> s_puniv s p = Some o ->
  step c s (Data p) = Ok s (RBool true).
Proof.
  intros c ops s p o pc H. exact (data_contains c s p pc o (reach_inv c ops s H)).
Qed.
