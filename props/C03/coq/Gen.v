(* REGENERATED from the repository headers on every run. Do not edit.  *)
From Coq Require Import NArith.
Local Open Scope N_scope.
Definition SOURCE_PRIORITY_MIN : N := 0.
Definition SOURCE_PRIORITY_DEFAULT : N := 100.
Definition SOURCE_PRIORITY_MAX : N := 200.
Definition PRIORITY_MODE_INHERIT : N := 0.
Definition PRIORITY_MODE_STATIC : N := 1.
Definition U8_LIMIT : N := 256.
Definition UINT_LIMIT : N := 4294967296.
