(* C03 extension round — source-client lists and stale flags are left alone by every operation other
   than an explicit removal / the housekeeping run; the history-level referrer theorem; device stop,
   collection with saved settings and the full invariant at the level of the complete op set. *)
From OlaBase Require Import Bytes.
From C03 Require Import Gen Model Lemmas Proofs Proofs2 Model2 Proofs3 Proofs4 Model3 Proofs5.
Local Open Scope N_scope.

Definition has_src (s : state) (o n cl : N) : Prop :=
  exists u, s_heap s o = Live u /\ u_num u = n /\ In cl (u_src u).

Lemma has_src_keeps s s' o n cl : keeps_live s s' -> has_src s o n cl -> has_src s' o n cl.
Proof.
  intros K (u & Hu & Hn & Hin). destruct (K o u Hu) as (u' & A & B & C).
  exists u'. split; [exact A|]. split; [congruence | apply C; exact Hin].
Qed.

Lemma has_src_heap s s' o n cl : s_heap s' = s_heap s -> has_src s o n cl -> has_src s' o n cl.
Proof. intros E (u & Hu & R). exists u. rewrite E. tauto. Qed.

Lemma remove_first_other (x y : N) l : In x l -> x <> y -> In x (remove_first y l).
Proof.
  induction l as [|z r IH]; cbn; [tauto|]. intros [->|H] Ne.
  - destruct (N.eqb_spec x y); [contradiction | left; reflexivity].
  - destruct (N.eqb_spec z y); [exact H | right; apply IH; assumption].
Qed.

Lemma src_rem_other c s n c2 s' r o m cl :
  Inv c s -> src_rem s n c2 = Ok s' r -> has_src s o m cl -> (n <> m \/ c2 <> cl) -> has_src s' o m cl.
Proof.
  intros I E (u & Hu & Hm & Hin) Hne. unfold src_rem in E.
  destruct (sfind n (s_store s)) as [o2|] eqn:Ef; [|injection E as <- _; exists u; tauto].
  destruct (store_live c s n o2 I Ef) as (u2 & Hu2 & Nu2). unfold deref in E. rewrite Hu2 in E.
  destruct (mem c2 (u_src u2)); [|injection E as <- _; exists u; tauto].
  injection E as <- _.
  match goal with |- has_src (cand_if_inactive ?a ?b ?d) _ _ _ =>
    destruct (cand_if_inactive_fields a b d) as (_ & _ & _ & _ & F5 & _) end.
  unfold has_src. rewrite F5. cbn. destruct (N.eq_dec o o2) as [->|Ne].
  - rewrite upd_eq. rewrite Hu in Hu2. injection Hu2 as <-.
    eexists. split; [reflexivity|]. cbn. split; [exact Hm|].
    apply remove_first_other; [exact Hin|]. intros ->. destruct Hne as [H|H]; [apply H; congruence | apply H; reflexivity].
  - rewrite upd_neq by exact Ne. exists u. tauto.
Qed.

(* ---------- one base operation lifted to the x level *)
Lemma xlift_src xc x b x' r o m cl :
  XInv xc x -> (forall p n, b <> Patch p n) -> (forall p, b <> Unpatch p) ->
  xlift x (step (xc_cfg xc) (x_s x) b) = XOk x' r ->
  has_src (x_s x) o m cl -> b <> SrcRem m cl -> has_src (x_s x') o m cl.
Proof.
  intros XI N1 N2 E H Nr. pose proof (proj1 XI) as I.
  destruct (step (xc_cfg xc) (x_s x) b) as [s' r'|] eqn:Es; [|discriminate].
  cbn in E. injection E as <- _. cbn [x_s set_xs].
  destruct b; cbn [step] in Es.
  - exfalso. exact (N1 p n eq_refl).
  - exfalso. exact (N2 p eq_refl).
  - destruct (prio_static_inv (xc_cfg xc) (x_s x) p v I) as (s2 & r2 & E2 & _ & Hh).
    rewrite E2 in Es. injection Es as <- _. exact (has_src_heap _ _ _ _ _ Hh H).
  - destruct (prio_inherit_inv (xc_cfg xc) (x_s x) p I) as (s2 & r2 & E2 & _ & Hh).
    rewrite E2 in Es. injection Es as <- _. exact (has_src_heap _ _ _ _ _ Hh H).
  - destruct (gc_inv (xc_cfg xc) (x_s x) I) as (s2 & l & E2 & _ & _ & _ & _ & Keep & _).
    rewrite E2 in Es. injection Es as <- _. destruct H as (u & Hu & Hm & Hin).
    exists u. split; [|tauto]. apply Keep; [exact Hu|].
    unfold u_active. destruct (u_src u); [destruct Hin|]. cbn. rewrite !andb_false_r.
    destruct (is_nil (u_out u) && is_nil (u_in u)); reflexivity.
  - destruct (sink_add_inv (xc_cfg xc) (x_s x) n cl0 I) as (s2 & r2 & E2 & _ & K).
    rewrite E2 in Es. injection Es as <- _. exact (has_src_keeps _ _ _ _ _ K H).
  - destruct (sink_rem_inv (xc_cfg xc) (x_s x) n cl0 I) as (s2 & r2 & E2 & _ & K).
    rewrite E2 in Es. injection Es as <- _. exact (has_src_keeps _ _ _ _ _ K H).
  - destruct (src_add_inv (xc_cfg xc) (x_s x) n cl0 I) as (s2 & r2 & E2 & _ & K).
    rewrite E2 in Es. injection Es as <- _. exact (has_src_keeps _ _ _ _ _ K H).
  - apply (src_rem_other (xc_cfg xc) (x_s x) n cl0 s' r' o m cl I Es H).
    destruct (N.eq_dec n m) as [->|Ne]; [|left; exact Ne].
    destruct (N.eq_dec cl0 cl) as [->|Ne]; [exfalso; apply Nr; reflexivity | right; exact Ne].
  - destruct (data_inv (xc_cfg xc) (x_s x) p I) as (r2 & E2). rewrite E2 in Es. injection Es as <- _. exact H.
  - destruct (stop_inv (xc_cfg xc) (x_s x) d I) as (s2 & r2 & E2 & _ & K).
    rewrite E2 in Es. injection Es as <- _. exact (has_src_keeps _ _ _ _ _ K H).
Qed.

Lemma xstep_src xc x xo x' r o m cl :
  XInv xc x -> xstep xc x xo = XOk x' r -> has_src (x_s x) o m cl ->
  xo <> XBase (SrcRem m cl) -> has_src (x_s x') o m cl.
Proof.
  intros XI E H Nr.
  assert (forall b, xo = XBase b -> (forall p n, b <> Patch p n) -> (forall p, b <> Unpatch p) ->
                    xlift x (step (xc_cfg xc) (x_s x) b) = XOk x' r -> has_src (x_s x') o m cl) as L.
  { intros b -> N1 N2 El. apply (xlift_src xc x b x' r o m cl XI N1 N2 El H). intros ->. apply Nr. reflexivity. }
  destruct xo as [b| d | d | | n cl0 | n cl0].
  - destruct b; try (apply (L _ eq_refl); [intros; discriminate | intros; discriminate | exact E]).
    + cbn [xstep] in E. destruct (xpatch_inv xc x p n XI) as (x2 & b & E2 & _ & _ & K & _).
      rewrite E2 in E. injection E as <- _. exact (has_src_keeps _ _ _ _ _ K H).
    + cbn [xstep] in E. destruct (xunpatch_inv xc x p XI) as (x2 & b & E2 & _ & _ & _ & K & _).
      rewrite E2 in E. injection E as <- _. exact (has_src_keeps _ _ _ _ _ K H).
  - cbn [xstep] in E. destruct (xregister_inv xc x d XI) as (x2 & r2 & E2 & _ & K).
    rewrite E2 in E. injection E as <- _. exact (has_src_keeps _ _ _ _ _ K H).
  - cbn [xstep] in E. destruct (xunregister_inv xc x d XI) as (x2 & r2 & E2 & _ & A & _).
    rewrite E2 in E. injection E as <- _. rewrite A. exact H.
  - cbn [xstep] in E. destruct (xunregister_all_inv xc x XI) as (x2 & r2 & E2 & _ & A & _).
    rewrite E2 in E. injection E as <- _. rewrite A. exact H.
  - cbn [xstep] in E. apply (xlift_src xc x (SinkAdd n cl0) x' r o m cl XI); try discriminate; assumption.
  - cbn [xstep] in E. apply (xlift_src xc x (SinkRem n cl0) x' r o m cl XI); try discriminate; assumption.
Qed.

(* ---------- y level: every operation except the housekeeping run and the explicit removal keeps the
   client in the list and a clear flag clear *)
Lemma clear_flag_false s fl n c2 o cl : fl o cl = false -> clear_flag s fl n c2 o cl = false.
Proof.
  intros H. unfold clear_flag. destruct (sfind n (s_store s)) as [o2|]; [|exact H].
  destruct ((o =? o2) && (cl =? c2)); [reflexivity | exact H].
Qed.

Lemma ystep_src xc y yo y' r o m cl :
  YInv xc y -> ystep xc y yo = YOk y' r -> has_src (x_s (y_x y)) o m cl ->
  yo <> YHousekeeping -> yo <> YX (XBase (SrcRem m cl)) ->
  has_src (x_s (y_x y')) o m cl /\ (y_stale y o cl = false -> y_stale y' o cl = false).
Proof.
  intros YI E H Nh Nr.
  assert (forall xo st, xo <> XBase (SrcRem m cl) ->
            match xstep xc (y_x y) xo with
            | XDangling => YDangling
            | XOk x' r => YOk (mky x' st) r end = YOk y' r ->
            has_src (x_s (y_x y')) o m cl /\ y_stale y' = st) as L.
  { intros xo st Nx El. destruct (xstep xc (y_x y) xo) as [x2 r2|] eqn:Ex; [|discriminate].
    injection El as <- _. cbn [y_x y_stale]. split; [|reflexivity].
    exact (xstep_src xc (y_x y) xo x2 r2 o m cl YI Ex H Nx). }
  destruct yo as [xo | n c2 | | p v].
  - assert (xo <> XBase (SrcRem m cl)) as Nx by (intros ->; apply Nr; reflexivity).
    destruct xo as [b| | | | |];
      try (cbn [ystep] in E; destruct (L _ _ Nx E) as (A & B); split; [exact A | rewrite B; tauto]).
    destruct b;
      try (cbn [ystep] in E; destruct (L _ _ Nx E) as (A & B); split; [exact A | rewrite B; tauto]).
    cbn [ystep] in E. destruct (L _ _ Nx E) as (A & B). split; [exact A|]. rewrite B. apply clear_flag_false.
  - cbn [ystep] in E. destruct (L (XBase (SrcAdd n c2)) _ ltac:(discriminate) E) as (A & B).
    split; [exact A|]. rewrite B. apply clear_flag_false.
  - exfalso. apply Nh. reflexivity.
  - cbn [ystep] in E. destruct (port_of (xc_cfg xc) (x_s (y_x y)) p); [|injection E as <- _; tauto].
    cbn zeta in E. destruct (SOURCE_PRIORITY_MAX <? u8 v); injection E as <- _; [tauto|].
    cbn [y_x y_stale x_s set_xs]. split; [|tauto]. apply (has_src_heap (x_s (y_x y))); [reflexivity | exact H].
Qed.

(* ---------- the history-level referrer theorem *)
Fixpoint hk_count (ops : list yop) : nat :=
  match ops with
  | [] => 0
  | YHousekeeping :: r => S (hk_count r)
  | _ :: r => hk_count r
  end.

Definition no_removal (m cl : N) (ops : list yop) : Prop :=
  forall op, In op ops -> op <> YX (XBase (SrcRem m cl)).

Lemma yop_hk_dec (o : yop) : {o = YHousekeeping} + {o <> YHousekeeping}.
Proof. destruct o; try (right; discriminate). left; reflexivity. Qed.

Lemma yrun_referrer xc : forall ops2 y o m cl y2,
  YInv xc y -> has_src (x_s (y_x y)) o m cl ->
  ((y_stale y o cl = false /\ (hk_count ops2 <= 1)%nat) \/ hk_count ops2 = 0%nat) ->
  no_removal m cl ops2 -> yrun xc y ops2 = Some y2 ->
  has_src (x_s (y_x y2)) o m cl.
Proof.
  induction ops2 as [|op r IH]; intros y o m cl y2 YI H Hc Nr E.
  - cbn in E. injection E as <-. exact H.
  - cbn [yrun] in E. destruct (ystep xc y op) as [y1 r1|] eqn:Es; [|discriminate].
    assert (YInv xc y1) as YI1.
    { destruct (ystep_inv xc y op YI) as (y1' & r1' & E1 & YI1 & _). congruence. }
    assert (no_removal m cl r) as Nr' by (intros op2 Hin; apply Nr; right; exact Hin).
    destruct (yop_hk_dec op) as [->|Nh].
    + (* the housekeeping run: allowed only while the flag is clear *)
      cbn [hk_count] in Hc. destruct Hc as [(Hf & Hle)|Hz]; [|discriminate].
      destruct H as (u & Hu & Hm & Hin).
      destruct (yhk_inv xc y YI) as (y1' & l & E1 & _ & Lf & Keep).
      assert (y1' = y1) as -> by congruence.
      destruct (Keep o u cl Hu Hin Hf) as (u' & A & B).
      apply (IH y1 o m cl y2 YI1); [|right; lia | exact Nr' | exact E].
      exists u'. split; [exact A|]. split; [|exact B].
      destruct (Lf o u Hu) as [(u2 & C & D)|(_ & C)]; congruence.
    + destruct (ystep_src xc y op y1 r1 o m cl YI Es H Nh (Nr op (or_introl eq_refl))) as (A & B).
      apply (IH y1 o m cl y2 YI1 A); [|exact Nr' | exact E].
      assert (hk_count (op :: r) = hk_count r) as Ec by (destruct op; [reflexivity | reflexivity | contradiction | reflexivity]).
      rewrite Ec in Hc. destruct Hc as [(Hf & Hle)|Hz]; [left; split; [apply B; exact Hf | exact Hle] | right; exact Hz].
Qed.

(* ---------- the statements of Properties.v (extension round) *)
Lemma c03y_referrer_l : forall (xc : xcfg) (ops ops2 : list yop) (y y2 : ystate) (o cl : N) (u : uni),
  yrun xc (yinit xc) ops = Some y ->
  s_heap (x_s (y_x y)) o = Live u -> In cl (u_src u) -> y_stale y o cl = false ->
  yrun xc y ops2 = Some y2 -> no_removal (u_num u) cl ops2 -> (hk_count ops2 <= 1)%nat ->
  exists u2, s_heap (x_s (y_x y2)) o = Live u2 /\ u_num u2 = u_num u /\ In cl (u_src u2).
Proof.
  intros xc ops ops2 y y2 o cl u H Hu Hin Hf E Nr Hc.
  apply (yrun_referrer xc ops2 y o (u_num u) cl y2 (yreach_inv xc ops y H)); try assumption.
  - exists u. tauto.
  - left. tauto.
Qed.

Lemma c03y_frame_referrer_l : forall (xc : xcfg) (ops ops2 : list yop) (y y2 : ystate) (n cl o : N),
  yrun xc (yinit xc) ops = Some y -> sfind n (s_store (x_s (y_x y))) = Some o ->
  yrun xc y (YFrame n cl :: ops2) = Some y2 -> no_removal n cl ops2 -> (hk_count ops2 <= 1)%nat ->
  sfind n (s_store (x_s (y_x y2))) = Some o /\
  exists u2, s_heap (x_s (y_x y2)) o = Live u2 /\ u_num u2 = n /\ In cl (u_src u2).
Proof.
  intros xc ops ops2 y y2 n cl o H Ef E Nr Hc. pose proof (yreach_inv xc ops y H) as YI.
  destruct (yframe_fresh xc y n cl o YI Ef) as (y1 & E1 & (u1 & Hu1 & Nu1 & Hin1) & Hf1).
  cbn [yrun] in E. rewrite E1 in E.
  assert (YInv xc y1) as YI1.
  { destruct (ystep_inv xc y (YFrame n cl) YI) as (y1' & r1' & E1' & YI1 & _). congruence. }
  assert (has_src (x_s (y_x y2)) o n cl) as (u2 & Hu2 & Nu2 & Hin2).
  { apply (yrun_referrer xc ops2 y1 o n cl y2 YI1); try assumption.
    - exists u1. tauto.
    - left. tauto. }
  split; [|exists u2; tauto].
  assert (YInv xc y2) as YI2.
  { destruct (yrun_inv xc ops2 y1 YI1) as (y2' & E2 & YI2). congruence. }
  apply (wf_store _ _ _ _ (inv_wf _ _ (proj1 YI2))). exists u2. tauto.
Qed.

Lemma c03y_inv_full_l : forall (xc : xcfg) (ops : list yop),
  exists y s, yrun xc (yinit xc) ops = Some y /\ s = x_s (y_x y) /\
  (forall o u p, s_heap s o = Live u -> (listed u p <-> s_puniv s p = Some o)) /\
  (forall o u p, s_heap s o = Live u -> In p (u_in u) ->
      exists pc, port_cfg (xc_cfg xc) p = Some pc /\ pc_in pc = true) /\
  (forall o u p, s_heap s o = Live u -> In p (u_out u) ->
      exists pc, port_cfg (xc_cfg xc) p = Some pc /\ pc_in pc = false) /\
  (forall p o, s_puniv s p = Some o -> exists u, s_heap s o = Live u /\ listed u p) /\
  (forall o1 o2 u1 u2 p, s_heap s o1 = Live u1 -> s_heap s o2 = Live u2 ->
      listed u1 p -> listed u2 p -> o1 = o2) /\
  (forall o u, s_heap s o = Live u -> NoDup (u_in u) /\ NoDup (u_out u)) /\
  (forall p q pcp pcq dc o, p <> q -> port_cfg (xc_cfg xc) p = Some pcp -> port_cfg (xc_cfg xc) q = Some pcq ->
      pc_dev pcp = pc_dev pcq -> dev_cfg (xc_cfg xc) (pc_dev pcp) = Some dc ->
      s_puniv s p = Some o -> s_puniv s q = Some o ->
      (dc_loop dc = false -> pc_in pcp = pc_in pcq) /\ (dc_multi dc = false -> pc_in pcp <> pc_in pcq)) /\
  (forall p, s_pprio s p <= 200) /\
  (forall n o, sfind n (s_store s) = Some o <-> exists u, s_heap s o = Live u /\ u_num u = n) /\
  (forall o u, s_heap s o = Live u -> u_active u = false -> In o (s_cand s)) /\
  (forall o, In o (s_cand s) -> exists u, s_heap s o = Live u) /\
  (forall p, s_pdead s p = true -> s_puniv s p = None) /\
  (forall p, s_pdead s p = false -> (x_broker (y_x y) p = true <-> s_puniv s p <> None)).
Proof.
  intros xc ops. destruct (yrun_inv xc ops (yinit xc) (yinit_inv xc)) as (y & E & (I & B)).
  exists y, (x_s (y_x y)). split; [exact E|]. split; [reflexivity|].
  pose proof (inv_explicit (xc_cfg xc) (x_s (y_x y)) I) as H.
  repeat (destruct H as (?H & H)).
  repeat (split; [assumption|]). exact B.
Qed.

(* Device::Stop in any reachable state, registered or not, whatever its ports' hooks would say *)
Lemma c03y_stop_clean_l : forall (xc : xcfg) (ops : list yop) (y : ystate) (d : N) (dc : dcfg),
  yrun xc (yinit xc) ops = Some y -> dev_cfg (xc_cfg xc) d = Some dc ->
  exists y', ystep xc y (YX (XBase (Stop d))) = YOk y' RUnit /\
    (forall q pc, port_cfg (xc_cfg xc) q = Some pc -> pc_dev pc = d ->
       s_pdead (x_s (y_x y')) q = true /\ s_puniv (x_s (y_x y')) q = None /\
       forall o u, s_heap (x_s (y_x y')) o = Live u -> ~ listed u q) /\
    (forall q pc, port_cfg (xc_cfg xc) q = Some pc -> pc_dev pc <> d ->
       s_pdead (x_s (y_x y')) q = s_pdead (x_s (y_x y)) q /\
       (s_pdead (x_s (y_x y)) q = false -> s_puniv (x_s (y_x y')) q = s_puniv (x_s (y_x y)) q)) /\
    (forall o u, s_heap (x_s (y_x y')) o = Live u -> u_active u = false -> In o (s_cand (x_s (y_x y')))) /\
    x_broker (y_x y') = x_broker (y_x y).
Proof.
  intros xc ops y d dc H Hd. pose proof (yreach_inv xc ops y H) as YI. pose proof (proj1 YI) as I.
  set (s := x_s (y_x y)) in *.
  destruct (stop_loop_inv (xc_cfg xc)
              (dev_ports (xc_cfg xc) s d true ++ dev_ports (xc_cfg xc) s d false) s I) as (s' & E & I' & K).
  assert (ystep xc y (YX (XBase (Stop d))) = YOk (mky (set_xs (y_x y) s') (y_stale y)) RUnit) as E2.
  { cbn [ystep xstep step]. unfold stop. fold s. rewrite Hd, E. reflexivity. }
  exists (mky (set_xs (y_x y) s') (y_stale y)). split; [exact E2|]. cbn [y_x x_s set_xs x_broker].
  destruct (stop_loop_frame _ _ _ _ E) as (F & Mono & Dead).
  destruct (inv_explicit (xc_cfg xc) s' I') as (X1 & _ & _ & _ & _ & _ & _ & _ & _ & X10 & _ & X12).
  split; [|split; [|split; [exact X10 | reflexivity]]].
  - intros q pc Hq Hdev.
    assert (s_pdead s' q = true) as Hdq.
    { destruct (s_pdead s q) eqn:Edq; [apply Mono; exact Edq|].
      apply Dead; [|congruence]. apply in_or_app. destruct (pc_in pc) eqn:Ein.
      - left. exact (dev_ports_In _ _ _ _ q pc Hq Edq Hdev Ein).
      - right. exact (dev_ports_In _ _ _ _ q pc Hq Edq Hdev Ein). }
    split; [exact Hdq|]. pose proof (X12 q Hdq) as Hn. split; [exact Hn|].
    intros o u Hu Hl. apply (X1 o u q Hu) in Hl. congruence.
  - intros q pc Hq Hdev.
    assert (s_pdead s q = false -> s_pdead s' q = false) as Stay.
    { intros Hf. destruct (s_pdead s' q) eqn:E3; [|reflexivity]. exfalso.
      (* only ports in the stop list become dead *)
      revert E3 Hf. clear - E Hq Hdev.
      assert (forall ps s0 s1, stop_loop (xc_cfg xc) ps s0 = Some s1 -> ~ In q ps ->
                s_pdead s1 q = s_pdead s0 q) as G.
      { induction ps as [|a r IH]; intros s0 s1 E0 Hn; cbn in E0; [injection E0 as <-; reflexivity|].
        destruct (port_cfg (xc_cfg xc) a) as [pca|]; [|apply IH; [exact E0 | intros Hi; apply Hn; right; exact Hi]].
        destruct (match s_puniv s0 a with None => Some s0 | Some o => uni_remove_port (pc_in pca) a o s0 end)
          as [sa|] eqn:Ea; [|discriminate].
        assert (s_pdead sa = s_pdead s0) as P4.
        { destruct (s_puniv s0 a); [exact (proj2 (remove_port_ports _ _ _ _ _ Ea)) | injection Ea as <-; reflexivity]. }
        rewrite (IH _ _ E0) by (intros Hi; apply Hn; right; exact Hi). cbn.
        rewrite upd_neq by (intros ->; apply Hn; left; reflexivity). rewrite P4. reflexivity. }
      intros E3 Hf. rewrite (G _ _ _ E) in E3; [congruence|].
      intros Hin. apply in_app_or in Hin. unfold dev_ports in Hin.
      destruct Hin as [Hin|Hin]; apply filter_In in Hin; destruct Hin as (_ & Hin);
        unfold port_of in Hin; destruct (s_pdead s q); try discriminate; rewrite Hq in Hin;
        apply andb_prop in Hin; destruct Hin as (Hin & _); apply N.eqb_eq in Hin; contradiction. }
    destruct (s_pdead s q) eqn:Edq.
    + split; [apply Mono; exact Edq | discriminate].
    + pose proof (Stay eq_refl) as S1. split; [exact S1|]. intros _. exact (proj2 (F q S1)).
Qed.

(* the save log of a collection (GC, or the GC half of a housekeeping run) *)
Lemma xgc_saved xc x :
  XInv xc x ->
  exists x1 l, xstep xc x (XBase GC) = XOk x1 (RSaved l) /\
    (forall n, In n l <-> exists o u, s_heap (x_s x) o = Live u /\ u_active u = false /\ u_num u = n) /\ NoDup l.
Proof.
  intros XI. cbn [xstep step].
  destruct (gc_inv (xc_cfg xc) (x_s x) (proj1 XI)) as (s' & l & E & _ & _ & Ls & Nd & _).
  rewrite E. cbn [xlift]. eexists _, l. split; [reflexivity|]. split; assumption.
Qed.

Lemma c03y_gc_l : forall (xc : xcfg) (ops : list yop) (y : ystate) (o : yop),
  yrun xc (yinit xc) ops = Some y -> (o = YX (XBase GC) \/ o = YHousekeeping) ->
  exists y' l, ystep xc y o = YOk y' (RSaved l) /\
    (forall n, In n l <-> exists a u, s_heap (x_s (y_x y)) a = Live u /\ u_active u = false /\ u_num u = n) /\
    NoDup l /\
    (forall a u, s_heap (x_s (y_x y)) a = Live u -> u_active u = false -> s_heap (x_s (y_x y')) a = Freed) /\
    (forall a u, s_heap (x_s (y_x y)) a = Live u -> u_active u = true ->
       exists u', s_heap (x_s (y_x y')) a = Live u' /\ u_num u' = u_num u).
Proof.
  intros xc ops y o H Ho. pose proof (yreach_inv xc ops y H) as YI.
  destruct (xgc_saved xc (y_x y) YI) as (x1 & l & Ex & Ls & Nd).
  destruct (ystep_inv xc y o YI) as (y' & r & E & _ & Lf).
  assert (r = RSaved l) as ->.
  { destruct Ho as [-> | ->]; cbn [ystep] in E; rewrite Ex in E.
    - injection E as _ <-. reflexivity.
    - destruct (clean_all (y_stale y) (map fst (s_store (x_s x1))) (x_s x1)); [|discriminate].
      injection E as _ <-. reflexivity. }
  exists y', l. split; [exact E|]. split; [exact Ls|]. split; [exact Nd|]. split.
  - intros a u Ha Hact.
    (* an unused universe is freed by the collection, and the cleaning pass does not touch freed cells *)
    destruct Ho as [-> | ->].
    + cbn [ystep xstep step] in E.
      destruct (gc_inv (xc_cfg xc) (x_s (y_x y)) (proj1 YI)) as (s' & l' & E' & _ & _ & _ & _ & _ & Free & _).
      rewrite E' in E. cbn [xlift] in E. injection E as <- _. cbn. exact (Free a u Ha Hact).
    + destruct (yhk_inv xc y YI) as (y2 & l2 & E2 & _ & Lf2 & _). rewrite E2 in E. injection E as <- _.
      destruct (Lf2 a u Ha) as [(u' & A & B)|(_ & A)]; [|exact A].
      (* it cannot have stayed live: the GC half frees it *)
      exfalso. clear Lf. unfold ystep in E2.
      destruct (xgc_spec xc (y_x y) YI) as (x1' & l1' & E1' & XI1' & Keep & Free & _).
      rewrite E1' in E2.
      destruct (clean_all_inv (xc_cfg xc) (y_stale y) (map fst (s_store (x_s x1'))) (x_s x1') (proj1 XI1'))
        as (s2 & Ec & _ & _ & _ & _ & _ & Dead).
      rewrite Ec in E2. injection E2 as <- _. cbn in A.
      rewrite Dead in A; [rewrite (Free a u Ha Hact) in A; discriminate|].
      intros u0. rewrite (Free a u Ha Hact). discriminate.
  - intros a u Ha Hact. destruct (Lf a u Ha) as [L|(_ & L & _)]; [exact L | congruence].
Qed.
