(* C03 closing item — the history-level form of c03w_saved_settings (first half): the saved settings of a
   universe number are the settings its universe had at the step where it last left the store. *)
From OlaBase Require Import Bytes.
From C03 Require Import Gen Model Lemmas Proofs Proofs2 Model2 Proofs3 Proofs4 Model3 Proofs5 Proofs6 Model4 Proofs7 Model5 Proofs8 Proofs9.
Local Open Scope N_scope.

(* the run, carrying along for every universe number the (name, merge mode) its universe object had at the
   step where it last left the store (None: it never left the store / never existed) *)
Definition left_update (w w' : wstate) (g : N -> option (N * bool)) : N -> option (N * bool) :=
  fun n => match sfind n (s_store (zbase (w_z w))) with
           | Some a => if opt_eqb (sfind n (s_store (zbase (w_z w')))) (Some a) then g n
                       else Some (w_name w a, w_htp w a)
           | None => g n
           end.

Fixpoint wtrace (zc : zcfg) (w : wstate) (ops : list wop) (g : N -> option (N * bool))
  : option (wstate * (N -> option (N * bool))) :=
  match ops with
  | [] => Some (w, g)
  | o :: r => match wstep zc w o with
              | WOk w' _ => wtrace zc w' r (left_update w w' g)
              | WDangling => None
              end
  end.

Definition saved_is (w : wstate) (g : N -> option (N * bool)) : Prop :=
  forall n, match g n with
            | Some (v, b) => w_pname w n = Some v /\ w_pmode w n = Some b
            | None => w_pname w n = None /\ w_pmode w n = None
            end.

Lemma wrun_app zc l1 : forall w l2,
  wrun zc w (l1 ++ l2) = match wrun zc w l1 with Some w1 => wrun zc w1 l2 | None => None end.
Proof.
  induction l1 as [|o r IH]; intros w l2; cbn; [reflexivity|].
  destruct (wstep zc w o); [apply IH | reflexivity].
Qed.

Lemma wtrace_run zc ops : forall w g, 
  match wtrace zc w ops g with Some (w2, _) => wrun zc w ops = Some w2 | None => wrun zc w ops = None end.
Proof.
  induction ops as [|o r IH]; intros w g; cbn; [reflexivity|].
  destruct (wstep zc w o) as [w' r'|]; [apply IH | reflexivity].
Qed.

Lemma wtrace_saved zc ops : forall ops0 w g w2 g2,
  wrun zc (winit zc) ops0 = Some w -> saved_is w g ->
  wtrace zc w ops g = Some (w2, g2) -> saved_is w2 g2.
Proof.
  induction ops as [|o r IH]; intros ops0 w g w2 g2 Hr P E; cbn in E.
  - injection E as <- <-. exact P.
  - destruct (wstep zc w o) as [w' r'|] eqn:Es; [|discriminate].
    assert (wrun zc (winit zc) (ops0 ++ [o]) = Some w') as Hr'.
    { rewrite wrun_app, Hr. cbn. rewrite Es. reflexivity. }
    apply (IH (ops0 ++ [o]) w' (left_update w w' g) w2 g2 Hr'); [|exact E].
    destruct (c03w_saved_settings_l zc ops0 w w' o r' Hr Es) as (A & B & _).
    intros n. unfold left_update. specialize (P n).
    destruct (sfind n (s_store (zbase (w_z w)))) as [a|] eqn:Ef.
    + destruct (opt_eqb (sfind n (s_store (zbase (w_z w')))) (Some a)) eqn:Eo.
      * apply opt_eqb_true in Eo.
        destruct (B n (or_intror (eq_trans Eo (eq_sym Ef)))) as (B1 & B2). rewrite B1, B2. exact P.
      * exact (A n a Ef (opt_eqb_false_ne _ _ Eo)).
    + destruct (B n (or_introl Ef)) as (B1 & B2). rewrite B1, B2. exact P.
Qed.

Lemma c03w_settings_history_l : forall (zc : zcfg) (ops : list wop),
  exists w g, wtrace zc (winit zc) ops (fun _ => None) = Some (w, g) /\
    wrun zc (winit zc) ops = Some w /\
    forall n, match g n with
              | Some (v, b) => w_pname w n = Some v /\ w_pmode w n = Some b
              | None => w_pname w n = None /\ w_pmode w n = None
              end.
Proof.
  intros zc ops. destruct (wrun_inv zc ops (winit zc) (zinit_inv zc)) as (w & E & _).
  pose proof (wtrace_run zc ops (winit zc) (fun _ => None)) as T.
  destruct (wtrace zc (winit zc) ops (fun _ => None)) as [(w2 & g2)|] eqn:Et; [|congruence].
  exists w2, g2. split; [reflexivity|]. split; [exact T|].
  apply (wtrace_saved zc ops [] (winit zc) (fun _ => None) w2 g2 eq_refl); [|exact Et].
  intros n. cbn. split; reflexivity.
Qed.
