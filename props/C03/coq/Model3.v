(* C03 round 4 — source-client staleness: Universe::m_source_clients maps a client to a flag;
   AddSourceClient (every frame, through SourceClientDataChanged) does STLReplace(client, false);
   Universe::CleanStaleSourceClients (olad's housekeeping) erases the clients whose flag is set, queues
   the universe for GC when that leaves it unused, and sets the flag of the others.
   The key set stays [u_src] of Model.v; the flags live in this layer: [y_stale obj client]. *)
From OlaBase Require Import Bytes.
From C03 Require Import Gen Model Model2.
Local Open Scope N_scope.

Record ystate := mky {
  y_x : xstate;
  y_stale : N -> N -> bool }.     (* universe object -> client -> m_source_clients[client] *)

Definition yinit (xc : xcfg) : ystate := mky (xinit xc) (fun _ _ => false).

Inductive youtcome := YOk (y : ystate) (r : res) | YDangling.

(* Universe::CleanStaleSourceClients on the object o *)
Definition clean_uni (fl : N -> bool) (o : N) (s : state) : option state :=
  match deref s o with
  | None => None
  | Some u =>
    if existsb fl (u_src u) then
      let u' := uni_set_src u (filter (fun cl => negb (fl cl)) (u_src u)) in
      (* "if (!IsActive()) AddUniverseGarbageCollection(this)" after each erase *)
      Some (cand_if_inactive o u' (set_heap s (upd (s_heap s) o (Live u'))))
    else Some s
  end.

(* the housekeeping loop over UniverseStore::GetList (the map's keys, each looked up) *)
Fixpoint clean_all (fl : N -> N -> bool) (ns : list N) (s : state) : option state :=
  match ns with
  | [] => Some s
  | n :: r =>
    match sfind n (s_store s) with
    | None => clean_all fl r s
    | Some o => match clean_uni (fl o) o s with None => None | Some s1 => clean_all fl r s1 end
    end
  end.

(* o is one of the universes the store lists *)
Definition in_store (s : state) (o : N) : bool :=
  existsb (fun n => match sfind n (s_store s) with Some o2 => o2 =? o | None => false end)
          (map fst (s_store s)).

(* AddSourceClient's STLReplace(client, false) on universe number n, if it exists *)
Definition clear_flag (s : state) (fl : N -> N -> bool) (n cl : N) : N -> N -> bool :=
  match sfind n (s_store s) with
  | Some o => fun o2 c2 => if (o2 =? o) && (c2 =? cl) then false else fl o2 c2
  | None => fl
  end.

Inductive yop :=
| YX (o : xop)
| YFrame (n cl : N)         (* OlaServerServiceImpl::UpdateDmxData -> SourceClientDataChanged *)
| YHousekeeping             (* OlaServer::RunHousekeeping: GarbageCollectUniverses, then
                               CleanStaleSourceClients on every universe *)
| YPortSetPrio (p v : N).   (* Basic{Input,Output}Port::SetPriority(uint8_t) called on the port itself,
                               not through the PortManager *)

Definition ystep (xc : xcfg) (y : ystate) (o : yop) : youtcome :=
  let x := y_x y in
  match o with
  | YX (XBase (SrcAdd n cl)) =>
    match xstep xc x (XBase (SrcAdd n cl)) with
    | XDangling => YDangling
    | XOk x' r => YOk (mky x' (clear_flag (x_s x) (y_stale y) n cl)) r
    end
  | YX xo =>
    match xstep xc x xo with
    | XDangling => YDangling
    | XOk x' r => YOk (mky x' (y_stale y)) r
    end
  | YFrame n cl =>
    match xstep xc x (XBase (SrcAdd n cl)) with
    | XDangling => YDangling
    | XOk x' r => YOk (mky x' (clear_flag (x_s x) (y_stale y) n cl)) r
    end
  | YPortSetPrio p v =>
    match port_of (xc_cfg xc) (x_s x) p with
    | None => YOk y RUnit
    | Some _ =>
      let v0 := u8 v in
      if SOURCE_PRIORITY_MAX <? v0 then YOk y (RBool false)      (* "if (priority > MAX) return false" *)
      else YOk (mky (set_xs x (set_pprio (x_s x) (upd (s_pprio (x_s x)) p v0))) (y_stale y)) (RBool true)
    end
  | YHousekeeping =>
    match xstep xc x (XBase GC) with
    | XDangling => YDangling
    | XOk x1 r =>
      match clean_all (y_stale y) (map fst (s_store (x_s x1))) (x_s x1) with
      | None => YDangling
      | Some s2 =>
        (* every client that survived is now marked *)
        YOk (mky (set_xs x1 s2) (fun o c => if in_store (x_s x1) o then true else y_stale y o c)) r
      end
    end
  end.

Fixpoint yrun (xc : xcfg) (y : ystate) (ops : list yop) : option ystate :=
  match ops with
  | [] => Some y
  | o :: r => match ystep xc y o with YOk y' _ => yrun xc y' r | YDangling => None end
  end.
