ID = 'C03'
GROUPS = ['common', 'plugin_api']
CXX_SOURCES = ['olad/OlaServerServiceImpl.cpp', 'olad/PluginManager.cpp', 'olad/ClientBroker.cpp']
MAX_OPS = 100

def gen_consts(v):
    import os
    ents = [(n, 'ola::dmx::' + n) for n in
            ('SOURCE_PRIORITY_MIN', 'SOURCE_PRIORITY_DEFAULT', 'SOURCE_PRIORITY_MAX')]
    ents += [(n, 'ola::' + n) for n in ('PRIORITY_MODE_INHERIT', 'PRIORITY_MODE_STATIC')]
    ents += [('U8_LIMIT', '(unsigned long long)UINT8_MAX + 1'), ('UINT_LIMIT', '(unsigned long long)UINT_MAX + 1')]
    return v.gen_consts_cpp(ID, ['limits.h', 'ola/dmx/SourcePriorities.h', 'olad/PortConstants.h'], ents,
                            os.path.join(v.VERIF, 'props', ID, 'coq', 'Gen.v'))

# r<k> = return value of op k, d<k> = state dump after op k (per-port universe/priority/mode,
# per-universe port and client lists, store contents), d = initial dump: property-determined.
# c<k> = UniverseStore::m_deletion_candidates after op k: internal observable.
# t<k> = for every universe, the port Universe::SendRDMRequest hands a unicast request for uid 1..3 to
# (public behaviour of the UID routing table): property-determined.  q<k> = discoveries in flight per
# output port (mock-side bookkeeping): internal.
# n<k> = name / merge mode of every universe in the store, v<k> = the saved settings (preferences) of
# every universe number that was ever in the store: property-determined ('collected with its settings saved').
# p<k> = priority value/mode per port: the property only bounds the value (d<k> carries a '!prio>max'
# marker for that); the exact value is a correspondence detail, hence non-SPEC.  b<k>, f<k>: broker, prefs.
SPEC_KEYS = ['d'] + ['r%d' % i for i in range(MAX_OPS)] + ['d%d' % i for i in range(MAX_OPS)] + \
            ['t%d' % i for i in range(MAX_OPS)] + ['n%d' % i for i in range(MAX_OPS)] + \
            ['v%d' % i for i in range(MAX_OPS)]
INTERNAL_KEYS = []

# The internal observables are read from private members.  They are only compiled in (and only
# compared) when the member still exists under its name; its container type does not matter
# (the harness iterates it generically).  An internal refactoring must not break the check.
def _probe():
    import os, re
    repo = os.environ.get('VERIF_REPO', '/repo')
    def text(rel):
        for root in (repo, '/repo'):
            p = os.path.join(root, rel)
            if os.path.exists(p):
                return open(p, errors='replace').read()
        return ''
    flags, ignore = [], []
    if re.search(r'\bm_deletion_candidates\s*;', text('olad/plugin_api/UniverseStore.h')):
        flags.append('-DC03_HAVE_CANDS')
    else:
        ignore += ['c%d' % i for i in range(MAX_OPS)]
    if re.search(r'\bm_ports\s*;', text('include/olad/PortBroker.h')):
        flags.append('-DC03_HAVE_BROKER_PORTS')
    else:
        ignore += ['b%d' % i for i in range(MAX_OPS)]
    return flags, ignore

CXXFLAGS, INTERNAL_KEYS = _probe()

RULE = ('histories of patch/unpatch/set-priority/GC/client add+remove/port data/device stop/DeviceManager register+'
        'unregister+unregister-all/RegisterForDmx register+unregister over 1-3 devices (all four AllowLooping x '
        'AllowMultiPortPatching policies, ports without device), 2-7 ports with number-based veto sets and '
        'state-dependent vetoes on a sibling port (ShowNet style B, patch-only b, same-universe e, un-patch-only u), '
        'preloaded port preferences (incl. unparsable 256/300/2^32), 3-5 universe numbers; directed prefixes aim at '
        'every branch of GenericPatchPort / GenericUnPatchPort (same universe, loop refusal, multi-port refusal, veto '
        'on a fresh port, veto on a patched port + GC + use, refused un-patch + GC + use, null port), of '
        'SetPriorityStatic (199/200/201/255, uint8 wrap), of RestorePortSettings (restore vetoed / refused by policy), '
        'unregister+stop+GC+re-register, RegisterForDmx(UNREGISTER) on a missing universe, the input and output port with the same port id (ids are per device and direction, as on real devices) to one universe under each policy, a universe going idle twice between collections, universe SetName/SetMergeMode across several lives of one universe number with the saved values compared, UniverseStore::DeleteAll in mid-history (no port patched) followed by use and GC, every case at log level DEBUG, Device::AddPort with an id already in use, Start/Stop twice and DeleteAllPorts with patched ports, scale sweeps (15/16/17/32/33/40 ports or universes going idle between two collections), RDM discoveries started on patch that complete after re-patch / unpatch / GC / device stop, DMX frames (UpdateDmxData) interleaved with housekeeping runs (GC + CleanStaleSourceClients) where a sending source client is the only referrer; state compared after '
        'every op; non-trivial = at least one successful patch and one later state-changing op; distinct = distinct '
        'model output trace')
ASSUMPTIONS = ['PreSetUniverse(old, new) is a function of the port, the number of the new universe (or NULL) and the '
               'current patching of the ports of the same device; it and PostSetUniverse do not re-enter the '
               'PortManager or change any patching themselves',
               'operator new does not fail (GetUniverseOrCreate never returns NULL)',
               'clients are attached as olad does: sink through RegisterForDmx (or GetUniverseOrCreate+AddSinkClient), '
               'source and removals via GetUniverse on an existing universe',
               'devices handed to the DeviceManager have a non-empty UniqueId (an owner plugin); a device is not '
               'deleted while registered',
               'object ids in the model are never reused; a real allocator may reuse an address, which can only '
               'hide, not create, a dangling dereference']
TRUSTED = ['modelled rather than verified: PortManager.cpp (GenericPatchPort with fixes/01, GenericUnPatchPort with '
           'fixes/02, CheckLooping/CheckMultiPort/CheckForPortMatchingUniverse, SetPriorityStatic/Inherit), Port.cpp '
           'SetUniverse/SetPriority/DmxChanged, Universe.cpp GenericAddPort/GenericRemovePort/IsActive/'
           'Add+Remove Source/SinkClient, UniverseStore.cpp GetUniverse(OrCreate)/AddUniverseGarbageCollection/'
           'GarbageCollectUniverses, Device.cpp Stop/DeleteAllPorts/GenericDeletePort, PortBroker.cpp AddPort/'
           'RemovePort, DeviceManager.cpp RegisterDevice/UnregisterDevice/UnregisterAllDevices/ReleaseDevice/'
           'Save+RestorePortPatchings/Priority, OlaServerServiceImpl::RegisterForDmx with fixes/03 and UpdateDmxData, '
           'Universe::SourceClientDataChanged/CleanStaleSourceClients, the GC + clean loop of OlaServer::RunHousekeeping '
           '(replicated in the harness; RDM discovery scheduling not modelled)',
           'the sibling view handed to the veto function is computed eagerly in the model (the code evaluates the '
           'hook only when SetUniverse is reached); device aliases and time-code port set not modelled',
           'wave 8: every case runs at log level DEBUG with a consuming destination; universe name / merge mode (SetName, SetMergeMode, restore at creation only, save at collection and in DeleteAll) with the saved VALUES compared; UniverseStore::DeleteAll in mid-history, issued only while no port is patched (with patched ports the unchanged code leaves them dangling: shutdown order is the caller\'s obligation)', 'wave 7: Device::AddPort with an id already in use (ignored), Device::Start, Device::DeleteAllPorts called directly; scale sweeps up to 40 ports / universes (the model and theorems are unbounded)', 'modelled since wave 6: BasicOutputPort::SetUniverse discovery-on-patch with deferred completion (UpdateUIDs), Universe::NewUIDList and the uid erase of GenericRemovePort (as pruning after each op), observed through Universe::SendRDMRequest; a deleted port drops its pending completions (mock destructor), RDM request completions through PortBroker::RequestComplete not modelled', 'not modelled: full/periodic RDM discovery (RunRDMDiscovery), PortBroker RDM request routing, export-map counters, '
           'DMX merging (C01), file format / parsing of the preferences (C18), content of the saved universe settings',
           'the PortBroker and port-preference observables (b<k>, f<k>) and the GC candidate set (c<k>) are compared '
           'as internal keys: the property text does not mention them',
           'SOURCE_PRIORITY_MAX/DEFAULT and PRIORITY_MODE_* regenerated from the headers into Gen.v']

UNIS = [0, 1, 2, 3, 7, 63999, 4294967295]
PRIOS = [0, 1, 99, 100, 101, 199, 200, 201, 254, 255, 256, 300, 456, 511]


def mk_cfg(rng):
    nd = rng.choice([1, 2, 2, 2, 3])
    devs = [rng.randrange(4) for _ in range(nd)]
    np_ = rng.choice([2, 3, 3, 4, 4, 5, 6, 7])
    pool = rng.sample(UNIS, rng.choice([3, 3, 4, 5]))
    ports = []
    for i in range(np_):
        d = rng.randrange(nd) if rng.random() < 0.92 else 99
        inp = rng.random() < 0.5
        cap = rng.choice([1, 2]) if inp else rng.choice([0, 2])
        veto = []
        if rng.random() < 0.4:
            veto = sorted(rng.sample(pool, rng.choice([1, 1, 2])))
        # [dev, input?, cap, veto numbers, state rule, pref universe, pref priority, pref mode]
        ports.append([d, inp, cap, veto, '-', '-', '-', '-', '-'])
    for i in range(np_):
        # state-dependent veto on a sibling port (ShowNet style and variants)
        if rng.random() < 0.25:
            sib = [j for j in range(np_) if j != i and ports[j][0] == ports[i][0]]
            k = rng.choice(sib) if sib and rng.random() < 0.9 else rng.randrange(np_)
            ports[i][4] = rng.choice('Bbeu') + str(k)
        # output port that starts RDM discovery on patch and completes it later
        if not ports[i][1] and rng.random() < 0.45:
            ports[i][8] = 'd'
        # preloaded port preferences
        if rng.random() < 0.3:
            ports[i][5] = str(rng.choice(pool + [4294967296])) if rng.random() < 0.8 else '-'
            ports[i][6] = str(rng.choice(PRIOS)) if rng.random() < 0.6 else '-'
            ports[i][7] = str(rng.choice([0, 0, 1, 2, 300])) if rng.random() < 0.5 else '-'
    return devs, ports, pool


def cfg_s(devs, ports):
    # directed scenarios change port directions: keep the capability one the port class can have
    # (BasicInputPort: STATIC=1 or FULL=2; BasicOutputPort: NONE=0 or FULL=2)
    for pt in ports:
        if pt[1] and pt[2] == 0: pt[2] = 1
        if not pt[1] and pt[2] == 1: pt[2] = 0
    ds = ','.join(str(d) for d in devs) if devs else '-'
    ps = ','.join('%d:%s:%d:%s:%s:%s:%s:%s:%s' % (d, 'i' if inp else 'o', cap, '.'.join(map(str, v)) if v else '-',
                                                    rl, pu, pp, pm, (ds if not inp else '-'))
                  for d, inp, cap, v, rl, pu, pp, pm, ds in ports) if ports else '-'
    return ds, ps


def rand_op(rng, devs, ports, pool):
    np_ = len(ports)
    r = rng.random()
    p = rng.randrange(np_) if rng.random() < 0.97 else np_ + rng.randrange(2)
    n = rng.choice(pool)
    c = rng.randrange(3)
    if r < 0.40: return 'P.%d.%d' % (p, n)
    if r < 0.50: return 'U.%d' % p
    if r < 0.59: return 'G'
    if r < 0.60: return rng.choice(['SN.%d.%d' % (n, rng.randrange(4)), 'SM.%d.%d' % (n, rng.randrange(2)), 'SN.%d.%d' % (n, rng.randrange(4)), 'DL'])
    if r < 0.615: return rng.choice(['A.%d' % p, 'A.%d' % p, 'ST.%d' % rng.randrange(len(devs) + 1), 'DA.%d' % rng.randrange(len(devs) + 1)])
    if r < 0.63: return 'R.%d' % rng.randrange(len(devs) + 1)
    if r < 0.655: return 'N.%d' % rng.randrange(len(devs) + 1)
    if r < 0.67: return rng.choice(['NA', 'RA.%d.%d' % (n, c), 'RU.%d.%d' % (n, c), 'RU.%d.%d' % (n, c),
                                    'F.%d.%d' % (n, c), 'F.%d.%d' % (n, c), 'H', 'H',
                                    'DF.%d.%d' % (p, rng.randrange(8)), 'DF.%d.%d' % (p, rng.randrange(8)),
                                    'DF.%d.%d' % (p, rng.randrange(8))])
    if r < 0.71: return 'S.%d.%d' % (p, rng.choice(PRIOS + [rng.randrange(256)]))
    if r < 0.72: return 'Q.%d.%d' % (p, rng.choice(PRIOS + [rng.randrange(256)]))
    if r < 0.75: return 'I.%d' % p
    if r < 0.80: return 'KA.%d.%d' % (n, c)
    if r < 0.84: return 'KR.%d.%d' % (n, c)
    if r < 0.88: return 'SA.%d.%d' % (n, c)
    if r < 0.91: return 'SR.%d.%d' % (n, c)
    if r < 0.98: return 'D.%d' % p
    return 'X.%d' % rng.randrange(len(devs) + 1)


def directed(rng, devs, ports, pool):
    """prefixes aimed at the branches of GenericPatchPort"""
    kind = rng.randrange(32)
    np_ = len(ports)
    ops = []
    if kind == 0:
        # veto on a patched port, then GC, then something that uses the port
        p = rng.randrange(np_)
        a, b = rng.sample(pool, 2)
        ports[p][3] = sorted(set(ports[p][3]) - {a} | {b})
        ops = ['P.%d.%d' % (p, a), 'P.%d.%d' % (p, b), 'G']
        ops.append(rng.choice(['D.%d' % p, 'P.%d.%d' % (p, rng.choice(pool)), 'U.%d' % p,
                               'P.%d.%d' % (rng.randrange(np_), a), 'X.%d' % (ports[p][0] if ports[p][0] < len(devs) else 0),
                               'G']))
    elif kind == 1:
        # veto on a fresh port (universe created, unused -> GC candidate)
        p = rng.randrange(np_)
        b = rng.choice(pool)
        ports[p][3] = sorted(set(ports[p][3]) | {b})
        ops = ['P.%d.%d' % (p, b)] + (['G'] if rng.random() < 0.7 else []) + ['P.%d.%d' % (p, b)]
    elif kind in (2, 3):
        # loop / multi-port refusal: two ports on one device to the same universe
        d = rng.randrange(len(devs))
        devs[d] = rng.choice([0, 0, 1, 2])
        same = kind == 3
        idx = rng.sample(range(np_), 2)
        ports[idx[0]][0] = d; ports[idx[1]][0] = d
        ports[idx[0]][1] = True
        ports[idx[1]][1] = True if same else False
        for i in idx:
            ports[i][2] = (rng.choice([1, 2]) if ports[i][1] else rng.choice([0, 2]))
            ports[i][3] = []
        a, b = rng.sample(pool, 2)
        ops = ['P.%d.%d' % (idx[0], a), 'P.%d.%d' % (idx[1], b), 'P.%d.%d' % (idx[1], a),
               'U.%d' % idx[0], 'P.%d.%d' % (idx[1], a)]
    elif kind == 4:
        # client keeps a universe alive across GC
        p = rng.randrange(np_)
        a = rng.choice(pool)
        ports[p][3] = [x for x in ports[p][3] if x != a]
        ops = ['P.%d.%d' % (p, a), rng.choice(['KA', 'SA']) + '.%d.1' % a, 'U.%d' % p, 'G',
               rng.choice(['KR', 'SR']) + '.%d.1' % a, 'G', 'G']
    elif kind == 5:
        # priorities around the clamp
        p = rng.randrange(np_)
        ops = ['%s.%d.%d' % (rng.choice('SSQ'), p, v) for v in rng.sample(PRIOS, 5)] + ['I.%d' % p, 'Q.%d.%d' % (p, rng.choice(PRIOS)), 'S.%d.%d' % (p, rng.choice(PRIOS))]
    elif kind == 7:
        # register restores preloaded / saved settings (patch may be vetoed or refused by policy)
        d = rng.randrange(len(devs))
        mine = [i for i in range(np_) if ports[i][0] == d]
        for i in mine:
            if rng.random() < 0.7:
                ports[i][5] = str(rng.choice(pool)); ports[i][6] = str(rng.choice(PRIOS)); ports[i][7] = str(rng.choice([0, 1]))
        ops = ['R.%d' % d, 'R.%d' % d, 'G']
    elif kind == 8:
        # patch, unregister (saves), device stop or unpatch, GC, register again (restores)
        d = rng.randrange(len(devs))
        mine = [i for i in range(np_) if ports[i][0] == d]
        ops = ['R.%d' % d] + ['P.%d.%d' % (i, rng.choice(pool)) for i in mine]
        ops += ['S.%d.%d' % (i, rng.choice(PRIOS)) for i in mine[:2]] + ['N.%d' % d]
        if rng.random() < 0.5:
            ops += ['X.%d' % d, 'G', 'R.%d' % d, 'N.%d' % d]
        else:
            ops += ['U.%d' % i for i in mine] + ['G', 'N.%d' % d, 'R.%d' % d, 'NA', 'G']
    elif kind == 9:
        # a refused un-patch: p stays patched while its sibling k is patched
        d = rng.randrange(len(devs))
        devs[d] = 3
        idx = rng.sample(range(np_), 2)
        p, k = idx
        ports[p][0] = d; ports[k][0] = d
        ports[p][3] = []; ports[k][3] = []; ports[k][4] = '-'
        ports[p][4] = rng.choice('uB') + str(k)
        a, b = rng.sample(pool, 2)
        ops = ['P.%d.%d' % (p, a), 'P.%d.%d' % (k, b), 'U.%d' % p, 'U.%d' % k, 'G',
               rng.choice(['D.%d' % p, 'U.%d' % p, 'P.%d.%d' % (k, a), 'X.%d' % d, 'N.%d' % d])]
    elif kind == 10:
        # state-dependent refusal of a patch (ShowNet: sibling already patched), then the sibling leaves
        d = rng.randrange(len(devs))
        devs[d] = 3
        p, k = rng.sample(range(np_), 2)
        ports[p][0] = d; ports[k][0] = d
        ports[p][3] = []; ports[k][3] = []; ports[k][4] = '-'
        ports[p][4] = rng.choice('Bbe') + str(k)
        a, b = rng.sample(pool, 2)
        ops = ['P.%d.%d' % (k, a), 'P.%d.%d' % (p, a), 'P.%d.%d' % (p, b), 'P.%d.%d' % (p, a), 'G',
               'U.%d' % k, 'P.%d.%d' % (p, a), 'G']
    elif kind in (28, 29):
        # several lives of one universe number: settings changed, collected (saved), re-created (restored),
        # changed again while live, another referrer arrives, collected again: the CURRENT values are saved
        a = rng.choice(pool)
        p = rng.randrange(np_); q = rng.randrange(np_)
        for i in (p, q):
            ports[i][3] = [x for x in ports[i][3] if x != a]; ports[i][4] = '-'
        v1, v2 = rng.sample([1, 2, 3], 2)
        ops = ['P.%d.%d' % (p, a), 'SN.%d.%d' % (a, v1), 'SM.%d.1' % a, 'U.%d' % p, 'G',
               'P.%d.%d' % (p, a), 'SN.%d.%d' % (a, v2), 'SM.%d.0' % a,
               rng.choice(['P.%d.%d' % (q, a), 'RA.%d.1' % a, 'KA.%d.2' % a]),
               'U.%d' % p, 'U.%d' % q, 'RU.%d.1' % a, 'KR.%d.2' % a, 'G',
               'RA.%d.0' % a, 'RU.%d.0' % a, rng.choice(['G', 'H', 'DL'])]
    elif kind in (30, 31):
        # UniverseStore::DeleteAll in mid-history while an idle universe is queued, then continued use + GC
        a, b = rng.sample(pool, 2)
        p = rng.randrange(np_)
        ports[p][3] = []; ports[p][4] = '-'
        ops = ['RA.%d.1' % a, 'SN.%d.2' % a, 'RU.%d.1' % a, 'P.%d.%d' % (p, b), 'U.%d' % p, 'NA'] + \
              ['U.%d' % i for i in range(np_)] + ['DL', 'G', 'RA.%d.1' % a, 'P.%d.%d' % (p, b), 'G',
               'U.%d' % p, 'RU.%d.1' % a, 'DL', 'DL', 'G']
    elif kind == 24:
        # Device::AddPort with a new object re-using the id of a port that is already patched: ignored
        d = rng.randrange(len(devs))
        p = rng.randrange(np_)
        ports[p][0] = d; ports[p][3] = []; ports[p][4] = '-'
        a, b = rng.sample(pool, 2)
        ops = ['P.%d.%d' % (p, a), 'A.%d' % p, 'G', rng.choice(['D.%d' % p, 'U.%d' % p, 'P.%d.%d' % (p, b), 'A.%d' % p]),
               'G', 'A.%d' % p, 'X.%d' % d, 'A.%d' % p, 'G']
    elif kind == 25:
        # Start / Stop twice and DeleteAllPorts with patched ports
        d = rng.randrange(len(devs))
        mine = [i for i in range(np_) if ports[i][0] == d]
        ops = ['ST.%d' % d] + ['P.%d.%d' % (i, rng.choice(pool)) for i in mine]
        ops += [rng.choice(['DA.%d' % d, 'X.%d' % d]), 'ST.%d' % d, 'G', rng.choice(['DA.%d' % d, 'X.%d' % d]),
                'X.%d' % d, 'ST.%d' % d] + ['P.%d.%d' % (i, rng.choice(pool)) for i in mine[:2]] + ['G']
    elif kind in (26, 27):
        # scale: tens of ports / universes go idle between two collections; every one must be collected
        n = rng.choice([15, 16, 17, 17, 32, 33, 40])
        if kind == 26:
            devs[:] = [3]
            ports[:] = []
            for i in range(n):
                inp = rng.random() < 0.5
                ports.append([0, inp, (rng.choice([1, 2]) if inp else rng.choice([0, 2])), [], '-',
                              str(100 + i), '-', '-', rng.choice(['-', '-', 'd'])])
            how = rng.randrange(4)
            if how == 0:
                ops = ['R.0', 'G', 'X.0', 'G', 'G']
            elif how == 1:
                ops = ['R.0', 'N.0', 'DA.0', 'G', 'G']
            elif how == 2:
                ops = ['R.0'] + ['U.%d' % i for i in range(n)] + ['G', 'G']
            else:
                ops = ['P.%d.%d' % (i, 100 + i) for i in range(n)] + ['X.0', 'H', 'H']
        else:
            cl = rng.randrange(3)
            ops = ['RA.%d.%d' % (200 + i, cl) for i in range(n)] + ['G'] + \
                  ['%s.%d.%d' % (rng.choice(['RU', 'KR']), 200 + i, cl) for i in range(n)] + ['G', 'G']
    elif kind in (20, 21, 22, 23):
        # deferred completions: a discovery started by a patch completes after the port was re-patched /
        # unpatched / its old universe collected / its device stopped; it may only touch the universe
        # the port is on when it fires
        p = rng.randrange(np_)
        ports[p][1] = False; ports[p][2] = rng.choice([0, 2]); ports[p][3] = []; ports[p][4] = '-'; ports[p][8] = 'd'
        a, b = rng.sample(pool, 2)
        m1, m2 = rng.randrange(1, 8), rng.randrange(8)
        if kind == 20:
            ops = ['P.%d.%d' % (p, a), 'U.%d' % p, 'G', 'DF.%d.%d' % (p, m1), 'DF.%d.%d' % (p, m2), 'G']
        elif kind == 21:
            ops = ['P.%d.%d' % (p, a), 'P.%d.%d' % (p, b), 'DF.%d.%d' % (p, m1), 'G', 'DF.%d.%d' % (p, m2),
                   'U.%d' % p, 'DF.%d.%d' % (p, 7), 'G']
        elif kind == 22:
            q = rng.randrange(np_)
            d = ports[p][0] if ports[p][0] < len(devs) else 0
            ops = ['P.%d.%d' % (p, a), 'DF.%d.%d' % (p, m1), 'P.%d.%d' % (q, a), 'DF.%d.%d' % (q, m2),
                   'P.%d.%d' % (p, b), 'G', 'DF.%d.%d' % (p, m2), 'X.%d' % d, 'DF.%d.%d' % (p, 7), 'G']
        else:
            ops = []
            for _ in range(rng.randrange(4, 10)):
                ops.append(rng.choice(['P.%d.%d' % (p, a), 'P.%d.%d' % (p, b), 'U.%d' % p, 'G', 'H',
                                       'DF.%d.%d' % (p, rng.randrange(8)), 'DF.%d.%d' % (p, rng.randrange(8))]))
    elif kind in (17, 18, 19):
        # source-client staleness: the only referrer of a universe is a client that keeps sending;
        # frames interleaved with housekeeping runs (and GC): it must survive while it sends at least
        # once per two housekeeping runs, and be reaped (universe collected) after two silent runs
        a = rng.choice(pool)
        cl = rng.randrange(3)
        start = rng.choice([['RA.%d.%d' % (a, cl), 'F.%d.%d' % (a, cl), 'RU.%d.%d' % (a, cl)],
                            ['KA.%d.2' % a, 'F.%d.%d' % (a, cl), 'KR.%d.2' % a]])
        p = rng.randrange(np_)
        if a not in ports[p][3] and ports[p][4] == '-' and rng.random() < 0.5:
            start = ['P.%d.%d' % (p, a), 'F.%d.%d' % (a, cl), 'U.%d' % p]
        if kind == 17:
            body = ['H', 'F.%d.%d' % (a, cl), 'H', 'H', 'F.%d.%d' % (a, cl), 'H', 'G', 'H', 'H', 'F.%d.%d' % (a, cl), 'G']
        elif kind == 18:
            body = []
            for _ in range(rng.randrange(3, 8)):
                body.append(rng.choice(['H', 'H', 'F.%d.%d' % (a, cl), 'F.%d.%d' % (a, (cl + 1) % 3), 'G',
                                        'SA.%d.%d' % (a, cl), 'SR.%d.%d' % (a, cl)]))
        else:
            body = ['F.%d.%d' % (a, cl), 'H', 'F.%d.%d' % (a, (cl + 1) % 3), 'H', 'F.%d.%d' % (a, cl), 'H', 'H', 'H']
        ops = start + body
    elif kind in (15, 16):
        # the input and the output port with the SAME port id of one device to one universe, under
        # each looping/multi-port policy (and a different-id pair next to it)
        d = rng.randrange(len(devs))
        devs[d] = rng.randrange(4)
        ports[0][0] = d; ports[0][1] = True
        ports[1][0] = d; ports[1][1] = False
        ins = [i for i in range(np_) if ports[i][0] == d and ports[i][1]]
        outs = [i for i in range(np_) if ports[i][0] == d and not ports[i][1]]
        k = rng.randrange(min(len(ins), len(outs)))
        a, b = ins[k], outs[k]
        for i in (a, b):
            ports[i][2] = (rng.choice([1, 2]) if ports[i][1] else rng.choice([0, 2]))
            ports[i][3] = []; ports[i][4] = '-'
        u, w2 = rng.sample(pool, 2)
        first, second = (a, b) if kind == 15 else (b, a)
        ops = ['P.%d.%d' % (first, u), 'P.%d.%d' % (second, u), 'G', 'P.%d.%d' % (second, w2), 'P.%d.%d' % (second, u),
               'U.%d' % first, 'P.%d.%d' % (second, u), 'P.%d.%d' % (first, u), 'G']
        other = [i for i in ins + outs if i not in (a, b)]
        if other:
            ops.insert(2, 'P.%d.%d' % (rng.choice(other), u))
    elif kind == 12:
        # a universe goes idle twice between two collections: patch, unpatch, patch, unpatch, GC
        p = rng.randrange(np_)
        a = rng.choice(pool)
        ports[p][3] = [x for x in ports[p][3] if x != a]; ports[p][4] = '-'
        ops = ['P.%d.%d' % (p, a), 'U.%d' % p, 'P.%d.%d' % (p, a), 'U.%d' % p, 'G', 'G']
    elif kind == 13:
        # two vetoed patches to the same unused universe, then GC
        p = rng.randrange(np_)
        q = rng.randrange(np_)
        a = rng.choice(pool)
        ports[p][3] = sorted(set(ports[p][3]) | {a}); ports[q][3] = sorted(set(ports[q][3]) | {a})
        ops = ['P.%d.%d' % (p, a), 'P.%d.%d' % (q, a), 'G', 'P.%d.%d' % (p, a), 'G']
    elif kind == 14:
        # remove the last client, re-add it, remove it again, GC
        a = rng.choice(pool)
        k1, k2 = rng.choice([('KA', 'KR'), ('RA', 'RU'), ('RA', 'KR')])
        ops = ['%s.%d.1' % (k1, a), '%s.%d.1' % (k2, a), '%s.%d.1' % (k1, a), '%s.%d.1' % (k2, a), 'G', 'G']
        if rng.random() < 0.4:
            ops = ['KA.%d.2' % a, 'SA.%d.1' % a, 'KR.%d.2' % a, 'SR.%d.1' % a, 'SA.%d.1' % a] + ops[1:]
    elif kind == 11:
        # RegisterForDmx(UNREGISTER) for a universe that does not exist must not leave one behind
        a = rng.choice(pool)
        ops = ['RU.%d.1' % a, 'G', 'RA.%d.1' % a, 'RU.%d.2' % a, 'G', 'RU.%d.1' % a, 'G']
    else:
        # device stop with patched ports, then GC and ops on the dead ports
        d = rng.randrange(len(devs))
        mine = [i for i in range(np_) if ports[i][0] == d]
        ops = ['P.%d.%d' % (i, rng.choice(pool)) for i in mine] + ['X.%d' % d, 'G']
        ops += ['P.%d.%d' % (i, rng.choice(pool)) for i in mine[:2]] + ['U.%d' % i for i in mine[:1]]
    return ops


def gen_cases(rng, tier):
    n = 3000 if tier == "quick" else 400000
    for i in range(n):
        devs, ports, pool = mk_cfg(rng)
        ops = []
        if rng.random() < 0.6:
            if rng.random() < 0.3:
                ops += [rand_op(rng, devs, ports, pool) for _ in range(rng.randrange(6))]
            ops += directed(rng, devs, ports, pool)
        k = rng.choice([2, 5, 10, 20, 30, 40])
        ops += [rand_op(rng, devs, ports, pool) for _ in range(k)]
        ops = ops[:MAX_OPS - 2]
        ops.append('G')            # every history ends with a collection: nothing may be left dangling
        ds, ps = cfg_s(devs, ports)
        yield '%s %s %s' % (ds, ps, ','.join(ops))


def nontrivial(payload, md):
    # at least one successful patch and a later state-changing step
    ops = payload.split(' ')[2].split(',')
    ok = None
    for k, o in enumerate(ops):
        if o.startswith('P.') and md.get('r%d' % k) == '1' and md.get('d%d' % k) != md.get('d%d' % (k - 1), md.get('d')):
            ok = k
            break
    if ok is None:
        return False
    return any(md.get('d%d' % k) != md.get('d%d' % (k - 1)) for k in range(ok + 1, len(ops)))


LEVEL_TEXT = ('Coq theorems over an executable model of port patching (PortManager patch/unpatch/priority, port '
              'SetUniverse with an arbitrary state-dependent plugin veto, universe port/client lists, UniverseStore '
              'creation and garbage collection, Device::Stop, PortBroker membership, DeviceManager register/unregister '
              'with the port preferences, RegisterForDmx), for every configuration and every operation history: '
              'universe lists port <=> port reports it and the universe is live, at most one universe per port, loop / '
              'multi-port policies, priorities <= 200, store = live objects, unused universes are GC candidates and are '
              'collected and saved exactly once, no operation dereferences a collected universe, PatchPort returns true '
              '<=> the port ended on the requested universe, an existing port is in the broker <=> patched, unregister+'
              'stop leaves none of the device\'s ports listed.  The model is the code with fixes/01-03 applied and is '
              'tied to the C++ by a differential correspondence check after every operation (ASan/UBSan build of the '
              'working tree).  Over the complete op set (incl. DMX frames, housekeeping = GC + CleanStaleSourceClients with the '
              'per-client stale flag, Port::SetPriority on the port): the full invariant; a client that sent a frame since the '
              'last-but-one housekeeping run and was not explicitly removed is still a source client of its still-live '
              'universe after ANY history; Device::Stop clears every port of the device whatever its hooks say; a '
              'collection saves exactly the unused universes once each and frees exactly those.  Wave 6: RDM discoveries started on patch may complete at any later point; proved that no completion dereferences a collected universe and that a universe routes RDM only to ports patched to it.  Not covered: the PortBroker keeps the keys of ports deleted by Device::Stop (proved '
              'as stated, reported as a finding outside the property text); preference file parsing is C18.')
LEVEL_NOTE = ('Trusted: Coq kernel, extraction (ExtrOcamlBasic), OCaml/C++ glue, generator coverage of the '
              'correspondence (model = code is validated by differential testing, not proved); the plugin veto is '
              'assumed to be a function of the port, the requested universe and the patching of the same device\'s '
              'ports, without side effects on the patching.')
TECHNIQUE = 'Coq invariant proof on hand-written executable model + extracted-model/implementation differential correspondence'
DESIGN_REF = 'DESIGN.md §4 C03'
