ID = 'C03'
GROUPS = ['common', 'plugin_api']
CXX_SOURCES = []
MAX_OPS = 48

def gen_consts(v):
    import os
    ents = [(n, 'ola::dmx::' + n) for n in
            ('SOURCE_PRIORITY_MIN', 'SOURCE_PRIORITY_DEFAULT', 'SOURCE_PRIORITY_MAX')]
    return v.gen_consts_cpp(ID, ['ola/dmx/SourcePriorities.h'], ents,
                            os.path.join(v.VERIF, 'props', ID, 'coq', 'Gen.v'))

# r<k> = return value of op k, d<k> = state dump after op k (per-port universe/priority/mode,
# per-universe port and client lists, store contents), d = initial dump: property-determined.
# c<k> = UniverseStore::m_deletion_candidates after op k: internal observable.
SPEC_KEYS = ['d'] + ['r%d' % i for i in range(MAX_OPS)] + ['d%d' % i for i in range(MAX_OPS)]
INTERNAL_KEYS = []

RULE = ('histories of patch/unpatch/set-priority/GC/client add+remove/port data/device stop over 1-3 devices '
        '(all four AllowLooping x AllowMultiPortPatching policies, ports without device), 2-7 ports with plugin '
        'veto sets, 3-5 universe numbers; directed prefixes aim at every branch of GenericPatchPort (same universe, '
        'loop refusal, multi-port refusal, veto on a fresh port, veto on a patched port followed by GC and a use of '
        'the port, null port) and of SetPriorityStatic (199/200/201/255 and uint8 wrap); state compared after every '
        'op; non-trivial = at least one successful patch and one later state-changing op; distinct = distinct model '
        'output trace')
ASSUMPTIONS = ['PreSetUniverse(old, new) of a port depends only on the number of the new universe and accepts '
               'new == NULL (unpatch); PostSetUniverse does not re-enter the PortManager',
               'operator new does not fail (GetUniverseOrCreate never returns NULL)',
               'clients are attached as olad does: sink = GetUniverseOrCreate+AddSinkClient, source and removals '
               'via GetUniverse on an existing universe',
               'object ids in the model are never reused; a real allocator may reuse an address, which can only '
               'hide, not create, a dangling dereference']
TRUSTED = ['modelled rather than verified: PortManager.cpp (GenericPatchPort with fixes/01 applied, GenericUnPatchPort, '
           'CheckLooping/CheckMultiPort/CheckForPortMatchingUniverse, SetPriorityStatic/Inherit), Port.cpp '
           'SetUniverse/SetPriority/DmxChanged, Universe.cpp GenericAddPort/GenericRemovePort/IsActive/'
           'Add+Remove Source/SinkClient, UniverseStore.cpp GetUniverse(OrCreate)/AddUniverseGarbageCollection/'
           'GarbageCollectUniverses, Device.cpp Stop/DeleteAllPorts/GenericDeletePort',
           'not modelled: PortBroker contents, RDM discovery on patch and UID maps, export-map counters, DMX merging '
           '(C01), DeviceManager persistence of patchings (C18), content of the saved settings',
           'SOURCE_PRIORITY_MAX/DEFAULT regenerated from include/ola/dmx/SourcePriorities.h into Gen.v']

UNIS = [0, 1, 2, 3, 7, 63999, 4294967295]
PRIOS = [0, 1, 99, 100, 101, 199, 200, 201, 254, 255, 256, 300, 456, 511]


def mk_cfg(rng):
    nd = rng.choice([1, 2, 2, 2, 3])
    devs = [rng.randrange(4) for _ in range(nd)]
    np_ = rng.choice([2, 3, 3, 4, 4, 5, 6, 7])
    pool = rng.sample(UNIS, rng.choice([3, 3, 4, 5]))
    ports = []
    for i in range(np_):
        d = rng.randrange(nd) if rng.random() < 0.92 else 99
        inp = rng.random() < 0.5
        cap = rng.choice([1, 2]) if inp else rng.choice([0, 2])
        veto = []
        if rng.random() < 0.4:
            veto = sorted(rng.sample(pool, rng.choice([1, 1, 2])))
        ports.append([d, inp, cap, veto])
    return devs, ports, pool


def cfg_s(devs, ports):
    ds = ','.join(str(d) for d in devs) if devs else '-'
    ps = ','.join('%d:%s:%d:%s' % (d, 'i' if inp else 'o', cap, '.'.join(map(str, v)) if v else '-')
                  for d, inp, cap, v in ports) if ports else '-'
    return ds, ps


def rand_op(rng, devs, ports, pool):
    np_ = len(ports)
    r = rng.random()
    p = rng.randrange(np_) if rng.random() < 0.97 else np_ + rng.randrange(2)
    n = rng.choice(pool)
    c = rng.randrange(3)
    if r < 0.45: return 'P.%d.%d' % (p, n)
    if r < 0.55: return 'U.%d' % p
    if r < 0.67: return 'G'
    if r < 0.72: return 'S.%d.%d' % (p, rng.choice(PRIOS + [rng.randrange(256)]))
    if r < 0.75: return 'I.%d' % p
    if r < 0.80: return 'KA.%d.%d' % (n, c)
    if r < 0.84: return 'KR.%d.%d' % (n, c)
    if r < 0.88: return 'SA.%d.%d' % (n, c)
    if r < 0.91: return 'SR.%d.%d' % (n, c)
    if r < 0.98: return 'D.%d' % p
    return 'X.%d' % rng.randrange(len(devs) + 1)


def directed(rng, devs, ports, pool):
    """prefixes aimed at the branches of GenericPatchPort"""
    kind = rng.randrange(7)
    np_ = len(ports)
    ops = []
    if kind == 0:
        # veto on a patched port, then GC, then something that uses the port
        p = rng.randrange(np_)
        a, b = rng.sample(pool, 2)
        ports[p][3] = sorted(set(ports[p][3]) - {a} | {b})
        ops = ['P.%d.%d' % (p, a), 'P.%d.%d' % (p, b), 'G']
        ops.append(rng.choice(['D.%d' % p, 'P.%d.%d' % (p, rng.choice(pool)), 'U.%d' % p,
                               'P.%d.%d' % (rng.randrange(np_), a), 'X.%d' % (ports[p][0] if ports[p][0] < len(devs) else 0),
                               'G']))
    elif kind == 1:
        # veto on a fresh port (universe created, unused -> GC candidate)
        p = rng.randrange(np_)
        b = rng.choice(pool)
        ports[p][3] = sorted(set(ports[p][3]) | {b})
        ops = ['P.%d.%d' % (p, b)] + (['G'] if rng.random() < 0.7 else []) + ['P.%d.%d' % (p, b)]
    elif kind in (2, 3):
        # loop / multi-port refusal: two ports on one device to the same universe
        d = rng.randrange(len(devs))
        devs[d] = rng.choice([0, 0, 1, 2])
        same = kind == 3
        idx = rng.sample(range(np_), 2)
        ports[idx[0]][0] = d; ports[idx[1]][0] = d
        ports[idx[0]][1] = True
        ports[idx[1]][1] = True if same else False
        for i in idx:
            ports[i][2] = (rng.choice([1, 2]) if ports[i][1] else rng.choice([0, 2]))
            ports[i][3] = []
        a, b = rng.sample(pool, 2)
        ops = ['P.%d.%d' % (idx[0], a), 'P.%d.%d' % (idx[1], b), 'P.%d.%d' % (idx[1], a),
               'U.%d' % idx[0], 'P.%d.%d' % (idx[1], a)]
    elif kind == 4:
        # client keeps a universe alive across GC
        p = rng.randrange(np_)
        a = rng.choice(pool)
        ports[p][3] = [x for x in ports[p][3] if x != a]
        ops = ['P.%d.%d' % (p, a), rng.choice(['KA', 'SA']) + '.%d.1' % a, 'U.%d' % p, 'G',
               rng.choice(['KR', 'SR']) + '.%d.1' % a, 'G', 'G']
    elif kind == 5:
        # priorities around the clamp
        p = rng.randrange(np_)
        ops = ['S.%d.%d' % (p, v) for v in rng.sample(PRIOS, 4)] + ['I.%d' % p, 'S.%d.%d' % (p, rng.choice(PRIOS))]
    else:
        # device stop with patched ports, then GC and ops on the dead ports
        d = rng.randrange(len(devs))
        mine = [i for i in range(np_) if ports[i][0] == d]
        ops = ['P.%d.%d' % (i, rng.choice(pool)) for i in mine] + ['X.%d' % d, 'G']
        ops += ['P.%d.%d' % (i, rng.choice(pool)) for i in mine[:2]] + ['U.%d' % i for i in mine[:1]]
    return ops


def gen_cases(rng, tier):
    n = 3000 if tier == "quick" else 400000
    for i in range(n):
        devs, ports, pool = mk_cfg(rng)
        ops = []
        if rng.random() < 0.6:
            if rng.random() < 0.3:
                ops += [rand_op(rng, devs, ports, pool) for _ in range(rng.randrange(6))]
            ops += directed(rng, devs, ports, pool)
        k = rng.choice([2, 5, 10, 20, 30, 40])
        ops += [rand_op(rng, devs, ports, pool) for _ in range(k)]
        ops = ops[:MAX_OPS - 2]
        ops.append('G')            # every history ends with a collection: nothing may be left dangling
        ds, ps = cfg_s(devs, ports)
        yield '%s %s %s' % (ds, ps, ','.join(ops))


def nontrivial(payload, md):
    # at least one successful patch and a later state-changing step
    ops = payload.split(' ')[2].split(',')
    ok = None
    for k, o in enumerate(ops):
        if o.startswith('P.') and md.get('r%d' % k) == '1' and md.get('d%d' % k) != md.get('d%d' % (k - 1), md.get('d')):
            ok = k
            break
    if ok is None:
        return False
    return any(md.get('d%d' % k) != md.get('d%d' % (k - 1)) for k in range(ok + 1, len(ops)))


LEVEL_TEXT = ('Coq theorems over an executable model of port patching (PortManager patch/unpatch/priority, port '
              'SetUniverse with plugin veto, universe port/client lists, UniverseStore creation and garbage '
              'collection, Device::Stop), for every configuration of devices/policies/veto sets and every operation '
              'history: universe lists port <=> port reports it and the universe is live, at most one universe per '
              'port, loop / multi-port policies, priorities <= 200, store = live objects, inactive universes are GC '
              'candidates and are collected and saved exactly once, no operation dereferences a collected universe, '
              'PatchPort returns true <=> the port ended on the requested universe.  The model is the code with '
              'fixes/01 applied and is tied to the C++ by a differential correspondence check after every operation '
              '(ASan/UBSan build of the working tree).  Device register/unregister persistence is left to C18; '
              'PortBroker contents and RDM discovery on patch are not modelled.')
LEVEL_NOTE = ('Trusted: Coq kernel, extraction (ExtrOcamlBasic), OCaml/C++ glue, generator coverage of the '
              'correspondence (model = code is validated by differential testing, not proved); plugin veto assumed to '
              'depend only on the new universe number and never to refuse an unpatch.')
TECHNIQUE = 'Coq invariant proof on hand-written executable model + extracted-model/implementation differential correspondence'
DESIGN_REF = 'DESIGN.md §4 C03'
