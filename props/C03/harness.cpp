// C03 correspondence harness: the real PortManager / UniverseStore / PortBroker / Universe / ports /
// devices driven by an op history; after every op the observable state is dumped.
// payload: "<devs> <ports> <ops>"  (see prop.py)
#include <algorithm>
#include <map>
#include <set>
#include <string>
#include <vector>
#include "common/rpc/RpcController.h"
#include "common/rpc/RpcSession.h"
#include "ola/Callback.h"
#include "ola/Clock.h"
#include "ola/DmxBuffer.h"
#include "ola/Logging.h"
#include "ola/rdm/RDMCommand.h"
#include "ola/rdm/RDMEnums.h"
#include "ola/rdm/UID.h"
#include "ola/rdm/UIDSet.h"
#include "olad/plugin_api/Client.h"
#include "olad/Device.h"
#include "olad/PluginAdaptor.h"
#include "olad/Port.h"
#define private public
#include "olad/PortBroker.h"
#undef private
#include "olad/Preferences.h"
#include "olad/Universe.h"
// m_deletion_candidates is private; it is dumped as an internal (non-property) observable
#define private public
#include "olad/plugin_api/UniverseStore.h"
#undef private
#include "olad/plugin_api/PortManager.h"
#include "olad/plugin_api/TestCommon.h"
#include "olad/plugin_api/DeviceManager.h"
#include "olad/OlaServerServiceImpl.h"
#include "vh.h"

using ola::InputPort;
using ola::OutputPort;
using ola::Universe;
using std::set;
using std::string;
using std::vector;

namespace {

// a device with configurable patching policies
class CfgDevice : public ola::Device {
 public:
  CfgDevice(ola::AbstractPlugin *owner, const string &name, bool loop, bool multi)
      : Device(owner, name), m_loop(loop), m_multi(multi) {}
  string DeviceId() const { return Name(); }
  bool AllowLooping() const { return m_loop; }
  bool AllowMultiPortPatching() const { return m_multi; }
 private:
  bool m_loop, m_multi;
};

// the plugin veto.  PreSetUniverse refuses the listed universe numbers (like the E1.31, SandNet and
// Pathport ports do) and, optionally, decides on the patching of a sibling port of the same device
// (like the ShowNet ports do):
//   'B' k: refuse every change (also an un-patch) while port k is patched
//   'b' k: refuse a new universe while port k is patched
//   'e' k: refuse universe n while port k is patched to universe n
//   'u' k: refuse an un-patch while port k is patched
struct World;
struct Veto {
  set<unsigned int> ids;
  char rule;
  unsigned int buddy;
  unsigned int dev;
  World *world;
  Veto() : rule('-'), buddy(0), dev(0), world(NULL) {}
  bool Refuses(Universe *new_universe) const;
};
class VInput : public TestMockInputPort {
 public:
  VInput(ola::AbstractDevice *d, unsigned int id, const ola::PluginAdaptor *pa, const Veto &v)
      : TestMockInputPort(d, id, pa), m_veto(v) {}
  bool PreSetUniverse(Universe *, Universe *n) { return !m_veto.Refuses(n); }
 private:
  Veto m_veto;
};
class VPrioInput : public TestMockPriorityInputPort {
 public:
  VPrioInput(ola::AbstractDevice *d, unsigned int id, const ola::PluginAdaptor *pa, const Veto &v)
      : TestMockPriorityInputPort(d, id, pa), m_veto(v) {}
  bool PreSetUniverse(Universe *, Universe *n) { return !m_veto.Refuses(n); }
 private:
  Veto m_veto;
};
// An output port like a real RDM-capable one: discovery started from SetUniverse() may complete later
// (the completion callbacks are kept until the history fires them; the port owns them and drops them
// when it is deleted), and unicast RDM requests handed to it by the universe are recorded.
static int g_last_rdm_port = -1;
class VOut : public ola::BasicOutputPort {
 public:
  VOut(ola::AbstractDevice *d, unsigned int id, const Veto &v, bool prio, bool defer, int index)
      : ola::BasicOutputPort(d, id, defer, true), m_veto(v), m_prio(prio), m_defer(defer), m_index(index) {}
  ~VOut() {
    for (size_t i = 0; i < pending.size(); i++) delete pending[i];
  }
  std::string Description() const { return ""; }
  bool WriteDMX(const ola::DmxBuffer &, uint8_t) { return true; }
  bool PreSetUniverse(Universe *, Universe *n) { return !m_veto.Refuses(n); }
  void RunIncrementalDiscovery(ola::rdm::RDMDiscoveryCallback *on_complete) {
    if (m_defer) {
      pending.push_back(on_complete);
    } else {
      ola::rdm::UIDSet uids;
      on_complete->Run(uids);
    }
  }
  void SendRDMRequest(ola::rdm::RDMRequest *request, ola::rdm::RDMCallback *callback) {
    g_last_rdm_port = m_index;
    delete request;
    ola::rdm::RunRDMCallback(callback, ola::rdm::RDM_FAILED_TO_SEND);
  }
  std::vector<ola::rdm::RDMDiscoveryCallback*> pending;
 protected:
  bool SupportsPriorities() const { return m_prio; }
 private:
  Veto m_veto;
  bool m_prio, m_defer;
  int m_index;
};

static void rdm_reply_ignored(ola::rdm::RDMReply *) {}

// records SaveUniverseSettings calls (one "uni_<n>_merge" write per save)
class LogPreferences : public ola::MemoryPreferences {
 public:
  LogPreferences() : MemoryPreferences("c03") {}
  void SetValue(const string &key, const string &value) {
    if (key.size() > 10 && key.compare(0, 4, "uni_") == 0 &&
        key.compare(key.size() - 6, 6, "_merge") == 0)
      saved.push_back(vh::num(key.substr(4, key.size() - 10)));
    MemoryPreferences::SetValue(key, value);
  }
  vector<unsigned long long> saved;
};

struct PortRec {
  unsigned int pid;        // PortId()
  unsigned int cap;
  bool defer;
  bool input;
  unsigned int dev;        // index, >= number of devices: no device
  InputPort *in;           // NULL once deleted
  OutputPort *out;
  ola::Port *port() const { return input ? static_cast<ola::Port*>(in) : static_cast<ola::Port*>(out); }
};

template <typename T>
string join(const vector<T> &v, const char *sep) {
  string s;
  for (size_t i = 0; i < v.size(); i++) { if (i) s += sep; s += vh::str(v[i]); }
  return s;
}

struct World {
  ola::TimeStamp now;
  MockSelectServer ss;
  ola::PluginAdaptor adaptor;
  TestMockPlugin plugin;
  LogPreferences prefs;
  ola::MemoryPreferencesFactory prefs_factory;
  ola::UniverseStore store;
  ola::PortBroker broker;
  ola::PortManager pm;
  ola::DeviceManager *dm;          // created after the port preferences were preloaded
  ola::OlaServerServiceImpl service;
  vector<CfgDevice*> devs;
  vector<PortRec> ports;
  std::map<int, VOut*> vouts;      // the output mocks (entry removed when the port is deleted)
  set<unsigned int> seen;          // universe numbers that were ever in the store
  vector<const ola::Port*> orig;   // every port ever created (to name stale broker keys)
  vector<string> port_ids;         // UniqueId of every port
  std::map<unsigned int, ola::Client*> clients;

  World() : ss(&now), adaptor(NULL, &ss, NULL, NULL, NULL, NULL, NULL),
            plugin(&adaptor, ola::OLA_PLUGIN_ARTNET),
            store(&prefs, NULL), pm(&store, &broker), dm(NULL),
            service(&store, NULL, NULL, &pm, NULL, &now, NULL) {
    ola::Clock clock;
    clock.CurrentMonotonicTime(&now);
  }
  ola::Preferences *port_prefs() { return prefs_factory.NewPreference("port"); }
  ~World() {
    // unpatch what is left (not part of the compared history), then tear down
    if (dm) dm->UnregisterAllDevices();
    for (size_t i = 0; i < devs.size(); i++) { devs[i]->Stop(); }
    delete dm;
    for (size_t i = 0; i < ports.size(); i++) {
      if (ports[i].dev >= devs.size()) {       // orphan ports are owned by us
        if (ports[i].in) delete ports[i].in;
        if (ports[i].out) delete ports[i].out;
      }
    }
    for (size_t i = 0; i < devs.size(); i++) delete devs[i];
    for (std::map<unsigned int, ola::Client*>::iterator it = clients.begin(); it != clients.end(); ++it)
      delete it->second;
  }
  ola::Client *client(unsigned int c) {
    std::map<unsigned int, ola::Client*>::iterator it = clients.find(c);
    if (it != clients.end()) return it->second;
    ola::Client *cl = new ola::Client(NULL, ola::rdm::UID(ola::OPEN_LIGHTING_ESTA_CODE, c));
    clients[c] = cl;
    return cl;
  }

  int index_of(const ola::Port *p) const {
    for (size_t i = 0; i < ports.size(); i++)
      if (ports[i].port() == p && p) return i;
    return -1;
  }

  string dump() {
    vector<Universe*> unis;
    store.GetList(&unis);
    set<Universe*> live(unis.begin(), unis.end());
    string s = "P:";
    for (size_t i = 0; i < ports.size(); i++) {
      if (i) s += ",";
      ola::Port *p = ports[i].port();
      if (!p) { s += "X"; continue; }
      Universe *u = p->GetUniverse();
      if (!u) s += "-";
      else if (!live.count(u)) s += "DANGLING";      // not dereferenced here
      else s += vh::str(u->UniverseId());
      // the property bounds the priority (0..200); its exact value and mode are in the p<k> key
      if (p->GetPriority() > ola::dmx::SOURCE_PRIORITY_MAX) s += "!prio>max";
    }
    s += "~U:";
    // m_universe_map is keyed by number, GetList is in key order; sort anyway
    vector<std::pair<unsigned int, Universe*> > byid;
    for (size_t i = 0; i < unis.size(); i++) byid.push_back(std::make_pair(unis[i]->UniverseId(), unis[i]));
    std::sort(byid.begin(), byid.end());
    for (size_t i = 0; i < byid.size(); i++) {
      Universe *u = byid[i].second;
      if (i) s += ",";
      s += vh::str(byid[i].first);
      if (store.GetUniverse(byid[i].first) != u) s += "!lookup";
      vector<InputPort*> ins; vector<OutputPort*> outs;
      u->InputPorts(&ins); u->OutputPorts(&outs);
      vector<int> a, b, sc, kc;
      for (size_t j = 0; j < ins.size(); j++) a.push_back(index_of(ins[j]));
      for (size_t j = 0; j < outs.size(); j++) b.push_back(index_of(outs[j]));
      std::sort(a.begin(), a.end()); std::sort(b.begin(), b.end());
      // ContainsPort must agree with the lists
      for (size_t j = 0; j < ports.size(); j++) {
        bool listed = ports[j].input ? std::count(a.begin(), a.end(), static_cast<int>(j)) > 0
                                     : std::count(b.begin(), b.end(), static_cast<int>(j)) > 0;
        bool contains = ports[j].input ? (ports[j].in && u->ContainsPort(ports[j].in))
                                       : (ports[j].out && u->ContainsPort(ports[j].out));
        if (listed != contains) s += "!contains";
      }
      for (std::map<unsigned int, ola::Client*>::iterator it = clients.begin(); it != clients.end(); ++it) {
        if (u->ContainsSourceClient(it->second)) sc.push_back(it->first);
        if (u->ContainsSinkClient(it->second)) kc.push_back(it->first);
      }
      s += "[" + join(a, ".") + "|" + join(b, ".") + "|" + join(sc, ".") + "|" + join(kc, ".") + "]";
      s += u->IsActive() ? "a" : "n";
    }
    return s;
  }

  // priority value / mode of every port (correspondence detail, not property-determined)
  string prio_s() {
    string s;
    for (size_t i = 0; i < ports.size(); i++) {
      if (i) s += ",";
      ola::Port *p = ports[i].port();
      if (!p) { s += "X"; continue; }
      s += vh::str(static_cast<int>(p->GetPriority())) + "/" +
           (p->GetPriorityMode() == ola::PRIORITY_MODE_INHERIT ? "i" : "s");
    }
    return s;
  }

  // "" -> 0, "n<k>" -> k, the constructor's default "Universe <n>" -> U<n>
  static string name_s(const string &n) {
    if (n.empty()) return "0";
    if (n.compare(0, 9, "Universe ") == 0) return "U" + n.substr(9);
    return n.substr(1);
  }

  // current settings of the universes in the store, and the saved ones (preferences) of every number
  // that was ever in the store
  string settings_s() {
    vector<Universe*> unis;
    store.GetList(&unis);
    std::map<unsigned int, Universe*> byid;
    for (size_t i = 0; i < unis.size(); i++) { byid[unis[i]->UniverseId()] = unis[i]; seen.insert(unis[i]->UniverseId()); }
    string s;
    for (std::map<unsigned int, Universe*>::iterator it = byid.begin(); it != byid.end(); ++it) {
      if (!s.empty()) s += ",";
      s += vh::str(it->first) + ":" + name_s(it->second->Name()) + "/" +
           (it->second->MergeMode() == Universe::MERGE_HTP ? "h" : "l");
    }
    return s;
  }
  string saved_s() {
    string s;
    for (set<unsigned int>::iterator it = seen.begin(); it != seen.end(); ++it) {
      string key = "uni_" + vh::str(*it);
      if (!prefs.HasKey(key + "_merge")) continue;
      if (!s.empty()) s += ",";
      s += vh::str(*it) + ":" + name_s(prefs.GetValue(key + "_name")) + "/" +
           (prefs.GetValue(key + "_merge") == "HTP" ? "h" : "l");
    }
    return s;
  }

  // which port Universe::SendRDMRequest hands a unicast request for uid 1..3 to, per universe
  string routes_s() {
    vector<Universe*> unis;
    store.GetList(&unis);
    vector<std::pair<unsigned int, Universe*> > byid;
    for (size_t i = 0; i < unis.size(); i++) byid.push_back(std::make_pair(unis[i]->UniverseId(), unis[i]));
    std::sort(byid.begin(), byid.end());
    string s;
    for (size_t i = 0; i < byid.size(); i++) {
      if (i) s += ",";
      s += vh::str(byid[i].first) + ":";
      for (unsigned int uid = 1; uid <= 3; uid++) {
        ola::rdm::UID dst(ola::OPEN_LIGHTING_ESTA_CODE, uid), src(ola::OPEN_LIGHTING_ESTA_CODE, 100);
        g_last_rdm_port = -1;
        byid[i].second->SendRDMRequest(
            new ola::rdm::RDMGetRequest(src, dst, 0, 1, 0, ola::rdm::PID_DEVICE_INFO, NULL, 0),
            ola::NewSingleCallback(&rdm_reply_ignored));
        s += (uid > 1 ? "." : "") + (g_last_rdm_port < 0 ? string("-") : vh::str(g_last_rdm_port));
      }
    }
    return s;
  }

  // discoveries in flight per output port
  string pend_s() {
    string s;
    for (size_t i = 0; i < ports.size(); i++) {
      if (i) s += ",";
      std::map<int, VOut*>::iterator it = vouts.find(i);
      s += (it == vouts.end() || !ports[i].port()) ? string("-") : vh::str(it->second->pending.size());
    }
    return s;
  }

  // PortBroker::m_ports; "x<i>" = key of a port that has been deleted
  template <typename C>
  static bool has_key(const C &c, const std::pair<string, const ola::Port*> &key) {
    return std::find(c.begin(), c.end(), key) != c.end();
  }
  string broker_s() {
    vector<string> v;
#ifdef C03_HAVE_BROKER_PORTS
    for (size_t i = 0; i < orig.size(); i++) {
      std::pair<string, const ola::Port*> key(port_ids[i], orig[i]);
      if (has_key(broker.m_ports, key))
        v.push_back((ports[i].port() ? "" : "x") + vh::str(i));
    }
#endif
    return join(v, ".");
  }

  // the port preferences: patching / priority value / priority mode per port
  string prefs_s() {
    ola::Preferences *pp = port_prefs();
    string s;
    for (size_t i = 0; i < orig.size(); i++) {
      if (i) s += ",";
      string a = pp->GetValue(port_ids[i]);
      string b = pp->GetValue(port_ids[i] + "_priority_value");
      string c = pp->GetValue(port_ids[i] + "_priority_mode");
      s += (a.empty() ? "-" : a) + "/" + (b.empty() ? "-" : b) + "/" + (c.empty() ? "-" : c);
    }
    return s;
  }

  // the GC candidate queue, as a set of universe numbers, whatever container holds it
  template <typename C>
  static string cand_ids(const C &c) {
    set<unsigned int> v;
    for (typename C::const_iterator it = c.begin(); it != c.end(); ++it) v.insert((*it)->UniverseId());
    return join(vector<unsigned int>(v.begin(), v.end()), ".");
  }
  string cands() {
#ifdef C03_HAVE_CANDS
    return cand_ids(store.m_deletion_candidates);
#else
    return "";
#endif
  }
};

bool Veto::Refuses(Universe *new_universe) const {
  if (new_universe && ids.count(new_universe->UniverseId())) return true;
  if (rule == '-' || !world || buddy >= world->ports.size()) return false;
  const PortRec &b = world->ports[buddy];
  if (b.dev != dev || dev >= world->devs.size() || !b.port()) return false;   // not a sibling (any more)
  Universe *bu = b.port()->GetUniverse();
  if (!bu) return false;
  switch (rule) {
    case 'B': return true;
    case 'b': return new_universe != NULL;
    case 'e': return new_universe && bu->UniverseId() == new_universe->UniverseId();
    case 'u': return new_universe == NULL;
  }
  return false;
}

void ack_done() {}

string handle(const string &payload) {
  vector<string> f = vh::split(payload);
  if (f.size() != 3) return "bad-payload";
  World w;
  // devices: bit0 = AllowLooping, bit1 = AllowMultiPortPatching
  if (f[0] != "-") {
    vector<string> ds = vh::split(f[0], ',');
    for (size_t i = 0; i < ds.size(); i++) {
      unsigned int bits = vh::num(ds[i]);
      CfgDevice *d = new CfgDevice(&w.plugin, "dev" + vh::str(i), bits & 1, bits & 2);
      d->Start();
      w.devs.push_back(d);
    }
  }
  // ports: dev:dir:cap:veto[:rule:pref_universe:pref_priority:pref_mode]
  vector<vector<string> > preload;
  if (f[1] != "-") {
    vector<string> ps = vh::split(f[1], ',');
    for (size_t i = 0; i < ps.size(); i++) {
      vector<string> a = vh::split(ps[i], ':');
      PortRec r;
      r.dev = vh::num(a[0]);
      r.input = a[1] == "i";
      unsigned int cap = vh::num(a[2]);
      // BasicInputPort is CAPABILITY_STATIC or FULL, BasicOutputPort CAPABILITY_NONE or FULL
      if ((r.input && cap == 0) || (!r.input && cap == 1)) return "bad-config=capability";
      Veto v;
      if (a[3] != "-") {
        vector<string> vs = vh::split(a[3], '.');
        for (size_t j = 0; j < vs.size(); j++) v.ids.insert(vh::num(vs[j]));
      }
      v.world = &w;
      v.dev = r.dev;
      if (a.size() > 4 && a[4] != "-") {
        v.rule = a[4][0];
        v.buddy = vh::num(a[4].substr(1));
      }
      vector<string> pl(3, "-");
      for (size_t j = 0; j < 3; j++) if (a.size() > 5 + j) pl[j] = a[5 + j];
      preload.push_back(pl);
      ola::AbstractDevice *parent = r.dev < w.devs.size() ? w.devs[r.dev] : NULL;
      r.in = NULL; r.out = NULL;
      // port ids as real devices assign them: 0,1,2.. per device and direction, so an input and an
      // output port of one device share ids
      unsigned int pid = 0;
      for (size_t j = 0; j < w.ports.size(); j++)
        if (w.ports[j].dev == r.dev && w.ports[j].input == r.input) pid++;
      r.pid = pid; r.cap = cap; r.defer = false;
      if (r.input) {
        if (cap == 2) r.in = new VPrioInput(parent, pid, &w.adaptor, v);
        else r.in = new VInput(parent, pid, &w.adaptor, v);
        if (parent) w.devs[r.dev]->AddPort(r.in);
      } else {
        bool defer = a.size() > 8 && a[8] == "d";
        r.defer = defer;
        VOut *vo = new VOut(parent, pid, v, cap == 2, defer, i);
        r.out = vo;
        w.vouts[i] = vo;
        if (parent) w.devs[r.dev]->AddPort(r.out);
      }
      w.ports.push_back(r);
      w.orig.push_back(r.port());
      w.port_ids.push_back(r.port()->UniqueId());
    }
  }
  // preloaded port preferences, then the DeviceManager (it loads them in its constructor)
  for (size_t i = 0; i < preload.size(); i++) {
    static const char *suffix[] = {"", "_priority_value", "_priority_mode"};
    for (size_t j = 0; j < 3; j++)
      if (preload[i][j] != "-" && !w.port_ids[i].empty())
        w.port_prefs()->SetValue(w.port_ids[i] + suffix[j], preload[i][j]);
  }
  w.dm = new ola::DeviceManager(&w.prefs_factory, &w.pm);
  string out = "d=" + w.dump() + ";p=" + w.prio_s();
  vector<string> ops;
  if (f[2] != "-") ops = vh::split(f[2], ',');
  for (size_t k = 0; k < ops.size(); k++) {
    vector<string> a = vh::split(ops[k], '.');
    const string &o = a[0];
    string r = "-";
    PortRec *pr = NULL;
    if ((o == "P" || o == "U" || o == "S" || o == "I" || o == "D") && vh::num(a[1]) < w.ports.size())
      pr = &w.ports[vh::num(a[1])];
    if (o == "P") {
      unsigned int n = vh::num(a[2]);
      bool ok = !pr ? w.pm.PatchPort(static_cast<InputPort*>(NULL), n)
                    : pr->input ? w.pm.PatchPort(pr->in, n) : w.pm.PatchPort(pr->out, n);
      r = ok ? "1" : "0";
    } else if (o == "U") {
      bool ok = !pr ? w.pm.UnPatchPort(static_cast<InputPort*>(NULL))
                    : pr->input ? w.pm.UnPatchPort(pr->in) : w.pm.UnPatchPort(pr->out);
      r = ok ? "1" : "0";
    } else if (o == "S") {
      if (pr && pr->port())
        r = w.pm.SetPriorityStatic(pr->port(), static_cast<uint8_t>(vh::num(a[2]))) ? "1" : "0";
    } else if (o == "I") {
      if (pr && pr->port())
        r = w.pm.SetPriorityInherit(pr->port()) ? "1" : "0";
    } else if (o == "G") {
      w.prefs.saved.clear();
      w.store.GarbageCollectUniverses();
      vector<unsigned long long> sv = w.prefs.saved;
      std::sort(sv.begin(), sv.end());
      r = "saved:" + join(sv, ".");
    } else if (o == "KA") {
      Universe *u = w.store.GetUniverseOrCreate(vh::num(a[1]));
      r = u->AddSinkClient(w.client(vh::num(a[2]))) ? "1" : "0";
    } else if (o == "KR") {
      Universe *u = w.store.GetUniverse(vh::num(a[1]));
      if (u) r = u->RemoveSinkClient(w.client(vh::num(a[2]))) ? "1" : "0";
    } else if (o == "SA") {
      Universe *u = w.store.GetUniverse(vh::num(a[1]));
      if (u) r = u->AddSourceClient(w.client(vh::num(a[2]))) ? "1" : "0";
    } else if (o == "SR") {
      Universe *u = w.store.GetUniverse(vh::num(a[1]));
      if (u) r = u->RemoveSourceClient(w.client(vh::num(a[2]))) ? "1" : "0";
    } else if (o == "D") {
      if (pr && pr->input && pr->in) {
        ola::DmxBuffer b;
        b.SetFromString("1,2,3");
        static_cast<TestMockInputPort*>(pr->in)->WriteDMX(b);
        pr->in->DmxChanged();                       // dereferences the port's universe
        Universe *u = pr->in->GetUniverse();
        r = (u && u->ContainsPort(pr->in)) ? "1" : "0";
      }
    } else if (o == "X") {
      unsigned int d = vh::num(a[1]);
      if (d < w.devs.size()) {
        w.devs[d]->Stop();                          // deletes the device's ports
        for (size_t i = 0; i < w.ports.size(); i++)
          if (w.ports[i].dev == d) { w.ports[i].in = NULL; w.ports[i].out = NULL; w.vouts.erase(i); }
      }
    } else if (o == "R") {
      unsigned int d = vh::num(a[1]);
      if (d < w.devs.size()) r = w.dm->RegisterDevice(w.devs[d]) ? "1" : "0";
    } else if (o == "N") {
      unsigned int d = vh::num(a[1]);
      if (d < w.devs.size())
        r = w.dm->UnregisterDevice(static_cast<const ola::AbstractDevice*>(w.devs[d])) ? "1" : "0";
    } else if (o == "NA") {
      w.dm->UnregisterAllDevices();
    } else if (o == "DL") {
      // UniverseStore::DeleteAll in mid-history; only meaningful while no port is patched
      bool patched = false;
      for (size_t i = 0; i < w.ports.size(); i++)
        if (w.ports[i].port() && w.ports[i].port()->GetUniverse()) patched = true;
      if (!patched) {
        w.prefs.saved.clear();
        w.store.DeleteAll();
        vector<unsigned long long> sv = w.prefs.saved;
        std::sort(sv.begin(), sv.end());
        r = "saved:" + join(sv, ".");
      }
    } else if (o == "SN" || o == "SM") {
      Universe *u = w.store.GetUniverse(vh::num(a[1]));
      if (u) {
        if (o == "SN") u->SetName(vh::num(a[2]) ? "n" + a[2] : string(""));
        else u->SetMergeMode(vh::num(a[2]) ? Universe::MERGE_HTP : Universe::MERGE_LTP);
        r = "1";
      }
    } else if (o == "A") {
      // Device::AddPort with a NEW port object that re-uses the id (and direction) of port a[1]
      unsigned int pi = vh::num(a[1]);
      if (pi < w.ports.size() && w.ports[pi].port() && w.ports[pi].dev < w.devs.size()) {
        PortRec &pr2 = w.ports[pi];
        CfgDevice *dev = w.devs[pr2.dev];
        Veto nv; nv.world = &w; nv.dev = pr2.dev;
        if (pr2.input) {
          InputPort *np = pr2.cap == 2 ? static_cast<InputPort*>(new VPrioInput(dev, pr2.pid, &w.adaptor, nv))
                                       : static_cast<InputPort*>(new VInput(dev, pr2.pid, &w.adaptor, nv));
          r = dev->AddPort(np) ? "1" : "0";
          if (dev->GetInputPort(pr2.pid) == np) { pr2.in = np; r += "!adopted"; }   // the device took it over
          else delete np;                                                          // caller keeps ownership
        } else {
          VOut *np = new VOut(dev, pr2.pid, nv, pr2.cap == 2, pr2.defer, pi);
          r = dev->AddPort(static_cast<OutputPort*>(np)) ? "1" : "0";
          if (dev->GetOutputPort(pr2.pid) == np) { pr2.out = np; w.vouts[pi] = np; r += "!adopted"; }
          else delete np;
        }
      }
    } else if (o == "ST") {
      unsigned int d = vh::num(a[1]);
      if (d < w.devs.size()) r = w.devs[d]->Start() ? "1" : "0";
    } else if (o == "DA") {
      // Device::DeleteAllPorts called directly (what Stop() does between its hooks)
      unsigned int d = vh::num(a[1]);
      if (d < w.devs.size()) {
        w.devs[d]->DeleteAllPorts();
        for (size_t i = 0; i < w.ports.size(); i++)
          if (w.ports[i].dev == d) { w.ports[i].in = NULL; w.ports[i].out = NULL; w.vouts.erase(i); }
      }
    } else if (o == "DF") {
      // the oldest discovery in flight on output port a[1] completes with the UIDs in mask a[2]
      std::map<int, VOut*>::iterator it = w.vouts.find(vh::num(a[1]));
      if (it != w.vouts.end() && !it->second->pending.empty()) {
        ola::rdm::RDMDiscoveryCallback *cb = it->second->pending.front();
        it->second->pending.erase(it->second->pending.begin());
        ola::rdm::UIDSet uids;
        for (unsigned int uid = 1; uid <= 3; uid++)
          if (vh::num(a[2]) & (1u << (uid - 1))) uids.AddUID(ola::rdm::UID(ola::OPEN_LIGHTING_ESTA_CODE, uid));
        bool patched = it->second->GetUniverse() != NULL;
        cb->Run(uids);                         // BasicOutputPort::UpdateUIDs
        r = patched ? "1" : "0";
      }
    } else if (o == "Q") {
      // Port::SetPriority called on the port itself (not through the PortManager)
      if (vh::num(a[1]) < w.ports.size() && w.ports[vh::num(a[1])].port())
        r = w.ports[vh::num(a[1])].port()->SetPriority(static_cast<uint8_t>(vh::num(a[2]))) ? "1" : "0";
    } else if (o == "F") {
      // a DMX frame from client a[2]: the real OlaServerServiceImpl::UpdateDmxData
      ola::rpc::RpcSession session(NULL);
      session.SetData(w.client(vh::num(a[2])));
      ola::rpc::RpcController controller(&session);
      ola::proto::DmxData request;
      ola::proto::Ack response;
      request.set_universe(vh::num(a[1]));
      request.set_data(string("\x01\x02\x03", 3));
      w.service.UpdateDmxData(&controller, &request, &response, ola::NewSingleCallback(&ack_done));
      r = controller.Failed() ? "missing" : "-";
    } else if (o == "H") {
      // OlaServer::RunHousekeeping: collect, then let every universe drop its stale source clients
      w.prefs.saved.clear();
      w.store.GarbageCollectUniverses();
      vector<Universe*> unis;
      w.store.GetList(&unis);
      for (size_t i = 0; i < unis.size(); i++) unis[i]->CleanStaleSourceClients();
      vector<unsigned long long> sv = w.prefs.saved;
      std::sort(sv.begin(), sv.end());
      r = "saved:" + join(sv, ".");
    } else if (o == "RA" || o == "RU") {
      // the real OlaServerServiceImpl::RegisterForDmx on behalf of client a[2]
      ola::rpc::RpcSession session(NULL);
      session.SetData(w.client(vh::num(a[2])));
      ola::rpc::RpcController controller(&session);
      ola::proto::RegisterDmxRequest request;
      ola::proto::Ack response;
      request.set_universe(vh::num(a[1]));
      request.set_action(o == "RA" ? ola::proto::REGISTER : ola::proto::UNREGISTER);
      w.service.RegisterForDmx(&controller, &request, &response, ola::NewSingleCallback(&ack_done));
      r = controller.Failed() ? "failed" : "-";
    } else {
      return "bad-op";
    }
    out += ";r" + vh::str(k) + "=" + r + ";d" + vh::str(k) + "=" + w.dump() +
           ";c" + vh::str(k) + "=" + w.cands() + ";b" + vh::str(k) + "=" + w.broker_s() +
           ";f" + vh::str(k) + "=" + w.prefs_s() + ";p" + vh::str(k) + "=" + w.prio_s() +
           ";t" + vh::str(k) + "=" + w.routes_s() + ";q" + vh::str(k) + "=" + w.pend_s() +
           ";n" + vh::str(k) + "=" + w.settings_s() + ";v" + vh::str(k) + "=" + w.saved_s();
  }
  return out;
}
}  // namespace

// Every case runs at log level DEBUG with a destination that consumes the lines: the operands of every
// OLA_DEBUG/INFO/WARN statement are evaluated, so ASan sees reads that only logging performs.
class ConsumingDestination : public ola::LogDestination {
 public:
  ConsumingDestination() : bytes(0) {}
  void Write(ola::log_level, const std::string &line) { bytes += line.size(); }
  size_t bytes;
};

int main(int argc, char **argv) {
  ola::InitLogging(ola::OLA_LOG_DEBUG, new ConsumingDestination());
  // cases take well under a millisecond; the generous watchdog only guards against a stalled machine
  return vh::run(argc, argv, handle, 180);
}
