(* C03 model driver.  payload: "<devs> <ports> <ops>" (see prop.py); output mirrors harness.cpp *)
let ni s = n_of_int (ios s)
let sn x = string_of_int (int_of_n x)
let sorted l = List.sort compare (List.map int_of_n l)
let joini l = String.concat "." (List.map string_of_int l)

let opt_n (v : string) : n option = if v = "-" then None else Some (n_of_string v)

let parse_cfg (ds : string) (ps : string) : xcfg =
  let devs = if ds = "-" then [] else
    List.map (fun d -> let b = ios d in { dc_loop = b land 1 <> 0; dc_multi = b land 2 <> 0 })
      (String.split_on_char ',' ds) in
  let ndev = List.length devs in
  let fields = if ps = "-" then [] else
    List.map (fun p -> Array.of_list (String.split_on_char ':' p)) (String.split_on_char ',' ps) in
  let get a i = if Array.length a > i then a.(i) else "-" in
  let ports = List.map (fun a ->
      { pc_dev = ni a.(0); pc_in = (a.(1) = "i");
        pc_cap = (match ios a.(2) with 2 -> CapFull | 1 -> CapStatic | _ -> CapNone);
        pc_veto = if a.(3) = "-" then [] else List.map n_of_string (String.split_on_char '.' a.(3)) }) fields in
  let arr = Array.of_list fields in
  let at (p : n) = let i = int_of_n p in if i < Array.length arr then Some arr.(i) else None in
  (* the state-dependent part of PreSetUniverse: a rule on the patching of one sibling port *)
  let vetof (p : n) (req : n option) (v : (n * n option) list) : bool =
    match at p with
    | None -> false
    | Some a ->
      let r = get a 4 in
      if r = "-" || ios a.(0) >= ndev then false else
      let buddy = n_of_int (ios (String.sub r 1 (String.length r - 1))) in
      (match List.assoc_opt buddy v with
       | Some (Some m) ->
         (match r.[0] with
          | 'B' -> true
          | 'b' -> req <> None
          | 'e' -> req = Some m
          | 'u' -> req = None
          | _ -> false)
       | _ -> false) in
  (* ports without a device have an empty UniqueId: no preference key exists for them *)
  let pref k (p : n) = match at p with Some a when ios a.(0) < ndev -> opt_n (get a k) | _ -> None in
  { xc_cfg = { c_ports = ports; c_devs = devs }; xc_veto = vetof;
    xc_puni = pref 5; xc_pprio = pref 6; xc_pmode = pref 7 }

let parse_disc (ps : string) : n -> bool =
  let fields = if ps = "-" then [||] else
    Array.of_list (List.map (fun p -> Array.of_list (String.split_on_char ':' p)) (String.split_on_char ',' ps)) in
  fun p -> let i = int_of_n p in
    i < Array.length fields && Array.length fields.(i) > 8 && fields.(i).(8) = "d" && fields.(i).(1) = "o"

let uids_of_mask (m : int) : n list =
  List.filter_map (fun i -> if m land (1 lsl (i - 1)) <> 0 then Some (n_of_int i) else None) [1; 2; 3]

let rec parse_wop (s : string) : wop =
  match String.split_on_char '.' s with
  | ["DL"] -> WDeleteAll
  | ["SN"; n; v] -> WSetName (n_of_string n, n_of_int (2 * ios v))
  | ["SM"; n; m] -> WSetMode (n_of_string n, ios m <> 0)
  | _ -> WZ (parse_zop s)
and parse_zop (s : string) : zop =
  match String.split_on_char '.' s with
  | ["DF"; p; m] -> ZFire (ni p, uids_of_mask (ios m))
  | ["A"; p] -> ZAddDup (ni p)
  | ["ST"; d] -> ZDevStart (ni d)
  | ["DA"; d] -> ZY (YX (XBase (Stop (ni d))))
  | _ -> ZY (parse_op s)
and parse_op (s : string) : yop =
  match String.split_on_char '.' s with
  | ["F"; n; c] -> YFrame (n_of_string n, ni c)
  | ["H"] -> YHousekeeping
  | ["Q"; p; v] -> YPortSetPrio (ni p, ni v)
  | _ -> YX (parse_xop s)
and parse_xop (s : string) : xop =
  match String.split_on_char '.' s with
  | ["R"; d] -> XRegister (ni d)
  | ["N"; d] -> XUnregister (ni d)
  | ["NA"] -> XUnregisterAll
  | ["RA"; n; c] -> XSvcRegister (n_of_string n, ni c)
  | ["RU"; n; c] -> XSvcUnregister (n_of_string n, ni c)
  | l -> XBase (match l with
  | ["P"; p; n] -> Patch (ni p, n_of_string n)
  | ["U"; p] -> Unpatch (ni p)
  | ["S"; p; v] -> PrioStatic (ni p, ni v)
  | ["I"; p] -> PrioInherit (ni p)
  | ["G"] -> GC
  | ["KA"; n; c] -> SinkAdd (n_of_string n, ni c)
  | ["KR"; n; c] -> SinkRem (n_of_string n, ni c)
  | ["SA"; n; c] -> SrcAdd (n_of_string n, ni c)
  | ["SR"; n; c] -> SrcRem (n_of_string n, ni c)
  | ["D"; p] -> Data (ni p)
  | ["X"; d] -> Stop (ni d)
  | _ -> failwith "bad op")

let dump (c : cfg) (s : state) : string =
  let np = List.length c.c_ports in
  let b = Buffer.create 128 in
  Buffer.add_string b "P:";
  for i = 0 to np - 1 do
    if i > 0 then Buffer.add_char b ',';
    let p = n_of_int i in
    if s.s_pdead p then Buffer.add_char b 'X'
    else begin
      (match port_unum s p with
       | None -> Buffer.add_string b "DANGLING"
       | Some None -> Buffer.add_char b '-'
       | Some (Some n) -> Buffer.add_string b (sn n));
      if int_of_n (s.s_pprio p) > int_of_n sOURCE_PRIORITY_MAX then Buffer.add_string b "!prio>max"
    end
  done;
  Buffer.add_string b "~U:";
  let st = List.sort compare (List.map (fun (n, o) -> (int_of_n n, o)) s.s_store) in
  List.iteri (fun i (n, o) ->
    if i > 0 then Buffer.add_char b ',';
    Buffer.add_string b (string_of_int n);
    match deref s o with
    | None -> Buffer.add_string b "!freed"
    | Some u ->
      if int_of_n u.u_num <> n then Buffer.add_string b "!lookup";
      Buffer.add_string b (Printf.sprintf "[%s|%s|%s|%s]%s" (joini (sorted u.u_in)) (joini (sorted u.u_out))
        (joini (sorted u.u_src)) (joini (sorted u.u_sink)) (if u_active u then "a" else "n"))) st;
  Buffer.contents b

let prio_s (c : cfg) (s : state) : string =
  String.concat "," (List.init (List.length c.c_ports) (fun i -> let p = n_of_int i in
    if s.s_pdead p then "X" else Printf.sprintf "%d/%s" (int_of_n (s.s_pprio p)) (if s.s_pinh p then "i" else "s")))

let cands (s : state) : string =
  joini (List.sort compare (List.map (fun o -> match deref s o with Some u -> int_of_n u.u_num | None -> -1) s.s_cand))

let broker_s (c : cfg) (x : xstate) : string =
  let np = List.length c.c_ports in
  let l = ref [] in
  for i = np - 1 downto 0 do
    let p = n_of_int i in
    if x.x_broker p then l := ((if x.x_s.s_pdead p then "x" else "") ^ string_of_int i) :: !l
  done;
  String.concat "." !l

let prefs_s (c : cfg) (x : xstate) : string =
  let np = List.length c.c_ports in
  let o f p = match f p with Some v -> string_of_n v | None -> "-" in
  String.concat "," (List.init np (fun i -> let p = n_of_int i in
    o x.x_puni p ^ "/" ^ o x.x_pprio p ^ "/" ^ o x.x_pmode p))

let routes_s (z : zstate) : string =
  let s = z.z_y.y_x.x_s in
  let st = List.sort compare (List.map (fun (n, o) -> (int_of_n n, o)) s.s_store) in
  String.concat "," (List.map (fun (n, o) ->
    string_of_int n ^ ":" ^ String.concat "." (List.map (fun uid ->
      match route z o (n_of_int uid) with Some p -> sn p | None -> "-") [1; 2; 3])) st)

let pend_s (c : cfg) (z : zstate) : string =
  let s = z.z_y.y_x.x_s in
  String.concat "," (List.mapi (fun i pc ->
    let p = n_of_int i in
    if pc.pc_in || s.s_pdead p then "-" else sn (z.z_pend p)) c.c_ports)

let res_s (r : res) = match r with
  | RBool true -> "1" | RBool false -> "0" | RUnit -> "-"
  | RSaved l -> "saved:" ^ joini (sorted l)

let handle (payload : string) : string =
  match split payload with
  | [ds; ps; os] ->
    let xc = parse_cfg ds ps in
    let c = xc.xc_cfg in
    let zc = { zc_xc = xc; zc_disc = parse_disc ps } in
    let ops = if os = "-" then [] else List.map parse_wop (String.split_on_char ',' os) in
    let b = Buffer.create 1024 in
    let w = ref (winit zc) in
    let seen = Hashtbl.create 16 in
    let z = ref !w.w_z in
    let y = ref !z.z_y in
    let x = ref !y.y_x in
    let tags = Hashtbl.create 8 in
    let tag t = Hashtbl.replace tags t () in
    Buffer.add_string b ("d=" ^ dump c !x.x_s ^ ";p=" ^ prio_s c !x.x_s);
    let dead = ref false in
    List.iteri (fun k wo ->
      if not !dead then begin
        let zo = match wo with WZ zo -> zo | _ -> ZDevStart (n_of_int 9999) in
        (match wo with WDeleteAll -> tag "deleteall" | WSetName _ | WSetMode _ -> tag "settings" | _ -> ());
        let o = match zo with ZY yo -> yo | ZFire (p, _) -> YX (XBase (Data p))
                             | ZAddDup p -> YX (XBase (Data p)) | ZDevStart _ -> YX (XBase GC) in
        (match zo with ZAddDup _ | ZDevStart _ -> tag "devapi" | _ -> ());
        (match zo with ZFire (p, _) -> if int_of_n (!z.z_pend p) > 0 then tag "fire" | _ -> ());
        let s = !x.x_s in
        (* classify what this op exercises *)
        (match (match o with YX xo -> xo | YFrame (n, cl) -> XBase (SrcAdd (n, cl)) | YHousekeeping -> XBase GC
                       | YPortSetPrio (p, _) -> XBase (PrioInherit p)) with
         | XBase (Patch (p, n)) ->
           (match port_of c s p with
            | None -> tag "nullport"
            | Some pc ->
              let cur = port_unum s p in
              if cur = Some (Some n) then tag "same"
              else (match device_refuses c s pc n with
                | Some true -> tag (if (match dev_cfg c pc.pc_dev with Some d -> not d.dc_loop | None -> false)
                                       && (match check_match s (dev_ports c s pc.pc_dev (not pc.pc_in)) n with Some true -> true | _ -> false)
                                    then "loop" else "multi")
                | _ ->
                  let sv = match sib_view c s pc with Some v -> xc.xc_veto p (Some n) v | None -> false in
                  if veto pc n then tag (if cur = Some None then "vetofresh" else "vetorepatch")
                  else if sv then tag "vetostate"
                  else tag (if cur = Some None then "patch" else "repatch")))
         | XBase (Unpatch p) ->
           (match port_of c s p with
            | Some pc when port_unum s p <> Some None ->
              (match sib_view c s pc with Some v when xc.xc_veto p None v -> tag "vetounpatch" | _ -> ())
            | _ -> ())
         | XBase (Stop _) -> tag "stop"
         | XRegister _ -> tag "register"
         | XUnregister _ | XUnregisterAll -> tag "unregister"
         | XSvcUnregister (n, _) -> if sfind n s.s_store = None then tag "svcunreg-missing"
         | _ -> ());
        (match o with YFrame _ -> tag "frame" | YHousekeeping -> tag "housekeeping" | _ -> ());
        match wstep zc !w wo with
        | WDangling -> dead := true; Buffer.add_string b (Printf.sprintf ";r%d=MODEL-DANGLING" k)
        | WOk (w', r) ->
          let z' = w'.w_z in
          w := w';
          let y' = z'.z_y in
          (match r with RSaved (_ :: _) -> tag "gc" | _ -> ());
          let x' = y'.y_x in
          let r = match o with YX (XSvcRegister _) | YX (XSvcUnregister _) -> RUnit | _ -> r in
          let rs = match o, r with YFrame _, RUnit -> "missing" | YFrame _, _ -> "-" | _ -> res_s r in
          z := z'; y := y'; x := x';
          Buffer.add_string b (Printf.sprintf ";r%d=%s;d%d=%s;c%d=%s;b%d=%s;f%d=%s;p%d=%s;t%d=%s;q%d=%s" k rs k (dump c x'.x_s)
                                 k (cands x'.x_s) k (broker_s c x') k (prefs_s c x') k (prio_s c x'.x_s)
                                 k (routes_s z') k (pend_s c z'));
          let st = List.sort compare (List.map (fun (n, o) -> (int_of_n n, o)) x'.x_s.s_store) in
          List.iter (fun (n, _) -> Hashtbl.replace seen n ()) st;
          let name_s (v : n) = let q, r = N.div_eucl v (n_of_int 2) in
            (if r = N0 then "" else "U") ^ string_of_n q in
          let nm o = name_s (w'.w_name o) ^ "/" ^ (if w'.w_htp o then "h" else "l") in
          Buffer.add_string b (Printf.sprintf ";n%d=%s" k
            (String.concat "," (List.map (fun (n, o) -> string_of_int n ^ ":" ^ nm o) st)));
          let sn_l = List.sort compare (Hashtbl.fold (fun n () acc -> n :: acc) seen []) in
          Buffer.add_string b (Printf.sprintf ";v%d=%s" k
            (String.concat "," (List.filter_map (fun n ->
               match w'.w_pmode (n_of_int n) with
               | Some m -> Some (Printf.sprintf "%d:%s/%s" n
                                   (match w'.w_pname (n_of_int n) with Some v -> name_s v | None -> "0")
                                   (if m then "h" else "l"))
               | None -> None) sn_l)))
      end) ops;
    let order = ["deleteall"; "settings"; "devapi"; "fire"; "housekeeping"; "frame"; "vetounpatch"; "vetostate"; "vetorepatch"; "vetofresh"; "register"; "unregister"; "svcunreg-missing";
                 "loop"; "multi"; "gc"; "stop"; "repatch"; "nullport"] in
    let prim = match List.filter (fun t -> t <> "gc" && Hashtbl.mem tags t) order with t :: _ -> t | [] -> "plain" in
    let cls = prim ^ (if Hashtbl.mem tags "gc" then "+collect" else "") in
    Buffer.add_string b (";class=" ^ cls);
    Buffer.contents b
  | _ -> "bad-payload"

let () = vh_run handle
