(* C03 model driver.  payload: "<devs> <ports> <ops>" (see prop.py); output mirrors harness.cpp *)
let ni s = n_of_int (ios s)
let sn x = string_of_int (int_of_n x)
let sorted l = List.sort compare (List.map int_of_n l)
let joini l = String.concat "." (List.map string_of_int l)

let parse_cfg (ds : string) (ps : string) : cfg =
  let devs = if ds = "-" then [] else
    List.map (fun d -> let b = ios d in { dc_loop = b land 1 <> 0; dc_multi = b land 2 <> 0 })
      (String.split_on_char ',' ds) in
  let ports = if ps = "-" then [] else
    List.map (fun p ->
      match String.split_on_char ':' p with
      | [d; dir; cp; v] ->
        { pc_dev = ni d; pc_in = (dir = "i");
          pc_cap = (match ios cp with 2 -> CapFull | 1 -> CapStatic | _ -> CapNone);
          pc_veto = if v = "-" then [] else List.map ni (String.split_on_char '.' v) }
      | _ -> failwith "bad port") (String.split_on_char ',' ps) in
  { c_ports = ports; c_devs = devs }

let parse_op (s : string) : op =
  match String.split_on_char '.' s with
  | ["P"; p; n] -> Patch (ni p, ni n)
  | ["U"; p] -> Unpatch (ni p)
  | ["S"; p; v] -> PrioStatic (ni p, ni v)
  | ["I"; p] -> PrioInherit (ni p)
  | ["G"] -> GC
  | ["KA"; n; c] -> SinkAdd (ni n, ni c)
  | ["KR"; n; c] -> SinkRem (ni n, ni c)
  | ["SA"; n; c] -> SrcAdd (ni n, ni c)
  | ["SR"; n; c] -> SrcRem (ni n, ni c)
  | ["D"; p] -> Data (ni p)
  | ["X"; d] -> Stop (ni d)
  | _ -> failwith "bad op"

let dump (c : cfg) (s : state) : string =
  let np = List.length c.c_ports in
  let b = Buffer.create 128 in
  Buffer.add_string b "P:";
  for i = 0 to np - 1 do
    if i > 0 then Buffer.add_char b ',';
    let p = n_of_int i in
    if s.s_pdead p then Buffer.add_char b 'X'
    else begin
      (match port_unum s p with
       | None -> Buffer.add_string b "DANGLING"
       | Some None -> Buffer.add_char b '-'
       | Some (Some n) -> Buffer.add_string b (sn n));
      Buffer.add_string b (Printf.sprintf "/%d/%s" (int_of_n (s.s_pprio p)) (if s.s_pinh p then "i" else "s"))
    end
  done;
  Buffer.add_string b "~U:";
  let st = List.sort compare (List.map (fun (n, o) -> (int_of_n n, o)) s.s_store) in
  List.iteri (fun i (n, o) ->
    if i > 0 then Buffer.add_char b ',';
    Buffer.add_string b (string_of_int n);
    match deref s o with
    | None -> Buffer.add_string b "!freed"
    | Some u ->
      if int_of_n u.u_num <> n then Buffer.add_string b "!lookup";
      Buffer.add_string b (Printf.sprintf "[%s|%s|%s|%s]%s" (joini (sorted u.u_in)) (joini (sorted u.u_out))
        (joini (sorted u.u_src)) (joini (sorted u.u_sink)) (if u_active u then "a" else "n"))) st;
  Buffer.contents b

let cands (s : state) : string =
  joini (List.sort compare (List.map (fun o -> match deref s o with Some u -> int_of_n u.u_num | None -> -1) s.s_cand))

let res_s (r : res) = match r with
  | RBool true -> "1" | RBool false -> "0" | RUnit -> "-"
  | RSaved l -> "saved:" ^ joini (sorted l)

let handle (payload : string) : string =
  match split payload with
  | [ds; ps; os] ->
    let c = parse_cfg ds ps in
    let ops = if os = "-" then [] else List.map parse_op (String.split_on_char ',' os) in
    let b = Buffer.create 1024 in
    let s = ref (init c) in
    let tags = Hashtbl.create 8 in
    let tag t = Hashtbl.replace tags t () in
    Buffer.add_string b ("d=" ^ dump c !s);
    let dead = ref false in
    List.iteri (fun k o ->
      if not !dead then begin
        (* classify what this op exercises *)
        (match o with
         | Patch (p, n) ->
           (match port_of c !s p with
            | None -> tag "nullport"
            | Some pc ->
              let cur = port_unum !s p in
              if cur = Some (Some n) then tag "same"
              else (match device_refuses c !s pc n with
                | Some true -> tag (if (match dev_cfg c pc.pc_dev with Some d -> not d.dc_loop | None -> false)
                                       && (match check_match !s (dev_ports c !s pc.pc_dev (not pc.pc_in)) n with Some true -> true | _ -> false)
                                    then "loop" else "multi")
                | _ -> if veto pc n then tag (if cur = Some None then "vetofresh" else "vetorepatch")
                       else tag (if cur = Some None then "patch" else "repatch")))
         | Stop _ -> tag "stop"
         | _ -> ());
        match step c !s o with
        | Dangling -> dead := true; Buffer.add_string b (Printf.sprintf ";r%d=MODEL-DANGLING" k)
        | Ok (s', r) ->
          (match r with RSaved (_ :: _) -> tag "gc" | _ -> ());
          s := s';
          Buffer.add_string b (Printf.sprintf ";r%d=%s;d%d=%s;c%d=%s" k (res_s r) k (dump c s') k (cands s'))
      end) ops;
    let order = ["vetorepatch"; "vetofresh"; "loop"; "multi"; "gc"; "stop"; "repatch"; "nullport"] in
    let prim = match List.filter (fun t -> t <> "gc" && Hashtbl.mem tags t) order with t :: _ -> t | [] -> "plain" in
    let cls = prim ^ (if Hashtbl.mem tags "gc" then "+collect" else "") in
    Buffer.add_string b (";class=" ^ cls);
    Buffer.contents b
  | _ -> "bad-payload"

let () = vh_run handle
