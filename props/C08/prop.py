ID = 'C08'
GROUPS = ['common', 'acn']
CXX_SOURCES = ['plugins/artnet/ArtNetNode.cpp', 'common/testing/MockUDPSocket.cpp',
               'common/testing/TestUtils.cpp']
LIBS = ['-lcppunit']
# the sACN merger owns a concrete ola::Clock: virtual time through link-time interposition
WRAP = ['clock_gettime', 'gettimeofday']
COQ_TIMEOUT = 1200


def gen_consts(v):
    import os, re
    ac = 'ola::acn::'
    an = 'ola::plugin::artnet::'
    ents = [
        ('DMX_UNIVERSE_SIZE', 'ola::DMX_UNIVERSE_SIZE'),
        ('SACN_MAX_MERGE_SOURCES', ac + 'DMPE131Inflator::MAX_MERGE_SOURCES'),
        ('SACN_MAX_PRIORITY', ac + 'DMPE131Inflator::MAX_E131_PRIORITY'),
        ('SEQUENCE_DIFF_THRESHOLD_NEG', '-(int)' + ac + 'DMPE131Inflator::SEQUENCE_DIFF_THRESHOLD'),
        ('DMP_SET_PROPERTY_VECTOR', ac + 'DMP_SET_PROPERTY_VECTOR'),
        ('DMP_VIRTUAL_MASK', ac + 'DMPHeader::VIRTUAL_MASK'),
        ('DMP_RELATIVE_MASK', ac + 'DMPHeader::RELATIVE_MASK'),
        ('DMP_TYPE_MASK', ac + 'DMPHeader::TYPE_MASK'),
        ('DMP_SIZE_MASK', ac + 'DMPHeader::SIZE_MASK'),
        ('DMP_TWO_BYTES', ac + 'TWO_BYTES'),
        ('DMP_RANGE_EQUAL', ac + 'RANGE_EQUAL'),
        ('E131_PREVIEW_DATA_MASK', ac + 'E131Header::PREVIEW_DATA_MASK'),
        ('E131_STREAM_TERMINATED_MASK', ac + 'E131Header::STREAM_TERMINATED_MASK'),
        ('VECTOR_E131_DATA', ac + 'VECTOR_E131_DATA'),
        ('VECTOR_ROOT_E131', ac + 'VECTOR_ROOT_E131'),
        ('VECTOR_ROOT_E131_REV2', ac + 'VECTOR_ROOT_E131_REV2'),
        ('ARTNET_MAX_MERGE_SOURCES', an + 'ArtNetNodeImpl::MAX_MERGE_SOURCES'),
        ('ARTNET_MERGE_TIMEOUT', an + 'ArtNetNodeImpl::MERGE_TIMEOUT'),
        ('ARTNET_MAX_PORTS', an + 'ARTNET_MAX_PORTS'),
    ]
    out = os.path.join(v.VERIF, 'props', ID, 'coq', 'Gen.v')
    tmp = os.path.join(v.BUILD, ID, 'Gen.v.tmp')
    os.makedirs(os.path.dirname(tmp), exist_ok=True)
    err = v.gen_consts_cpp(ID, ['ola/Constants.h', 'ola/acn/ACNVectors.h', 'libs/acn/DMPHeader.h',
                                'libs/acn/DMPAddress.h', 'libs/acn/E131Header.h', 'libs/acn/DMPE131Inflator.h',
                                'plugins/artnet/ArtNetNode.h'], ents, tmp)
    if err:
        return err
    # EXPIRY_INTERVAL is a static object defined in the .cpp: taken from the source text here and
    # cross-checked against the running code by the harness (case "consts").
    src = open(v.repo_path('libs/acn/DMPE131Inflator.cpp')).read()
    m = re.search(r'DMPE131Inflator::EXPIRY_INTERVAL\(\s*(\d+)\s*\)', src)
    if not m:
        return 'cannot find DMPE131Inflator::EXPIRY_INTERVAL(<usec>) in libs/acn/DMPE131Inflator.cpp'
    new = open(tmp).read() + 'Definition EXPIRY_INTERVAL_US : N := %s.\n' % m.group(1)
    old = open(out).read() if os.path.exists(out) else None
    if new != old:
        with open(out, 'w') as f:
            f.write(new)
    return None

RULE = ('histories of 1-30 packets (65% of the sACN ones as whole datagrams - ACN preamble, root layer with the CID in the bytes, framing layer - through the real IncomingUDPTransport -> RootInflator -> E131Inflator/E131InflatorRev2 -> DMPE131Inflator stack, or as framing-layer bytes, options byte over all combinations of preview/terminate/force-sync plus random reserved bits; the rest as constructed HeaderSets): sACN from <= 8 CIDs with priorities {0,99,100,101,200,201,255}, sequence '
        'deltas -25..+5 (wrap-around included), gaps {0,1us,2.499999,2.5,2.500001,9.999999,10,10.000001 s, '
        'small}, terminate/preview/rev2 flags, start codes, frame lengths {0,1,2,512,513,small}, malformed DMP '
        'header/vector/increment/short PDUs, plus scripted scenarios (7th/8th source, priority hand-over both '
        'ways, expiry boundary, full sequence sweep); Art-Net from <= 4 addresses (incl. the wildcard address), the ArtDmx Sequence byte generated per sender (0, or independent running counters 0-25 apart incl. 1-19, wrapping 255->1, repeats and out-of-order values; ignored by receiver, model and text), '
        'HTP and LTP (with SetMergeMode switches mid-history; plus whole-node histories over all four output ports with coinciding port addresses, a merge mode per port, ports enabled/disabled/re-addressed and net/subnet changed in mid-history, compared port by port, with the transmissions of the node made to fail and recover in mid-history; and multi-universe sACN histories: one inflator with three universes, the same CIDs on several of them, SetHandler again / RemoveHandler + SetHandler in mid-history, compared per universe), gaps around 10 s, length-field/data-length mismatches; plus static-look histories: a sender repeating a byte-identical frame (sACN: with advancing sequence numbers) in short gaps summing past 10 s / 2.5 s next to a concurrently changing sender, then a late third (sACN: further/7th) sender. Compared after every packet: '
        'callback count, priority byte, registered buffer (SPEC) and the tracked-source tables (internal). '
        'After every packet the model driver also evaluates the extracted text-level specification (TextSpec/TextCheck: text_out, xstep, verdict; Art-Net: atext_step) and prints SPEC key txt = buffer agrees with the property text at every packet, or departs from it only in a classified way (known= hand-down gap / stale after discard / sequence window forgotten); histories with more than six live top-priority sources are not judged (text silent on which six). non-trivial = at least one callback and at least two distinct output buffers in the trace; '
        'distinct = distinct model output line')
ASSUMPTIONS = ['time is supplied through interposed clock_gettime/gettimeofday (virtual, microseconds)',
               'one registered universe / one Art-Net output port per history',
               'a priority pointer is registered with SetHandler (the E1.31 plugin always passes one)',
               'DmxBuffer is used through its abstract semantics (C02)']
TRUSTED = ['modelled rather than verified: IncomingUDPTransport::Receive (preamble check), RootInflator (root vector dispatch, CID), '
           'E131Inflator/E131InflatorRev2::DecodeHeader (options byte masks, framing vector), '
           'DMPE131Inflator::HandlePDUData/TrackSourceIfRequired, '
           'DecodeAddress(TWO_BYTES,RANGE_EQUAL), ArtNetNodeImpl::HandleDataPacket (size/net/universe/length '
           'clamp) and UpdatePortFromSource; DmxBuffer Set/HTPMerge/Reset as list operations; constants '
           'regenerated into Gen.v (EXPIRY_INTERVAL parsed from the .cpp and cross-checked at run time)']


class _SpecKeys(object):
    """o<i> = callback|priority|buffer after packet i are property-determined; t<i> are internals."""
    def __contains__(self, k):
        return k.startswith('o') or k == 'expiry_us' or k == 'txt'
SPEC_KEYS = _SpecKeys()

PRIOS = [0, 99, 100, 101, 200, 201, 255]
GAPS = [0, 1, 2499999, 2500000, 2500001, 9999999, 10000000, 10000001]
FLENS = [0, 1, 2, 512, 513]


def hx(bs):
    return ''.join('%02x' % b for b in bs) if bs else '-'


def rframe(rng, n):
    k = rng.random()
    if k < 0.5:
        return [rng.randrange(256) for _ in range(n)]
    if k < 0.8:
        return [rng.choice([0, 1, 127, 128, 254, 255])] * n
    return [(i * 7 + rng.randrange(3)) & 255 for i in range(n)]


def sacn_step(dt, cid, prio, seq, slots, univ=1, vec=2, flags=0, dmph=0xa1, sc=0, incr=1, number=None,
              start=0, raw_pdu=None):
    if raw_pdu is None:
        if flags & 4:   # rev2: no start code byte in the data, address start is the start code
            vals = list(slots)
            start = sc
        else:
            vals = [sc] + list(slots)
        if number is None:
            number = len(vals)
        pdu = [start >> 8, start & 255, incr >> 8, incr & 255, (number >> 8) & 255, number & 255] + vals
    else:
        pdu = raw_pdu
    return '%d:%d:%d:%d:%d:%d:%d:%d:%s' % (dt, vec, cid, prio, seq & 255, univ, flags, dmph, hx(pdu))


def small_gap(rng):
    return rng.choice([22727, 100000, 500000, 1000000, rng.randrange(1, 1200000)])


def gen_sacn_random(rng):
    nsend = rng.choice([1, 2, 2, 3, 3, 4, 6, 7, 8])
    base_prio = rng.choice(PRIOS[:5])
    senders = {}
    for c in range(1, nsend + 1):
        senders[c] = {'seq': rng.choice([0, 1, 19, 20, 127, 128, 236, 250, 255, rng.randrange(256)]),
                      'prio': base_prio if rng.random() < 0.7 else rng.choice(PRIOS)}
    steps = []
    n = rng.choice([3, 6, 10, 16, 24, 30])
    for _ in range(n):
        c = rng.randrange(1, nsend + 1)
        s = senders[c]
        r = rng.random()
        if r < 0.72:
            dt = small_gap(rng)
        elif r < 0.8:
            dt = 0
        else:
            dt = rng.choice(GAPS)
        r = rng.random()
        if r < 0.6:
            delta = 1
        elif r < 0.9:
            delta = rng.randrange(-25, 6)
        else:
            delta = rng.choice([-21, -20, -19, -1, 0, 1, 127, 128, 129, -128])
        seq = (s['seq'] + delta) & 255
        if rng.random() < 0.12:
            s['prio'] = rng.choice(PRIOS)
        flags = 0
        if rng.random() < 0.06: flags |= 1
        if rng.random() < 0.09: flags |= 2
        if rng.random() < 0.05: flags |= 4
        fl = rng.choice(FLENS + [3, 4, 5, 6, 8, rng.randrange(1, 12)] * 3)
        slots = rframe(rng, fl)
        kw = {}
        r = rng.random()
        if r < 0.04: kw['sc'] = rng.choice([0xdd, 1, 0xcc, 0x17])
        r = rng.random()
        if r < 0.03: kw['vec'] = rng.choice([1, 3, 0])
        elif r < 0.07: kw['dmph'] = rng.choice([0xa2, 0x21, 0xe1, 0xb1, 0x91, 0xa0, 0xa5, 0xad, 0])
        elif r < 0.10: kw['incr'] = rng.choice([0, 2, 256])
        elif r < 0.14: kw['number'] = rng.choice([0, 1, 2, fl, fl + 2, 512, 513, 600])
        elif r < 0.16: kw['raw_pdu'] = [rng.randrange(256) for _ in range(rng.randrange(0, 6))]
        elif r < 0.19: kw['univ'] = rng.choice([0, 2, 257])
        steps.append(sacn_step(dt, c, s['prio'], seq, slots, flags=flags, **kw))
        # what the sender believes it last sent (accepted or not)
        if rng.random() < 0.85:
            s['seq'] = seq
    return 'sacn %d 1 %s' % (1 if rng.random() < 0.5 else 0, ','.join(steps))


def gen_sacn_scripted(rng):
    """boundary-aimed scenarios"""
    k = rng.randrange(6)
    steps = []
    fr = lambda: rframe(rng, rng.choice([1, 2, 3, 4, 6]))
    if k == 0:
        # fill the table: 6, 7, 8 sources at one priority, then a higher / lower / equal newcomer, expiry
        p = rng.choice(PRIOS[:5])
        cnt = rng.choice([5, 6, 7, 8])
        for c in range(1, cnt + 1):
            steps.append(sacn_step(small_gap(rng) // 10, c, p, 0, fr()))
        steps.append(sacn_step(rng.choice([0, 1000, 2400000, 2500001]), 9, rng.choice([p, p, min(p + 1, 255), max(p - 1, 0)]), 5, fr()))
        for c in rng.sample(range(1, cnt + 1), 3):
            steps.append(sacn_step(rng.choice([0, 1000, 100000]), c, p, rng.choice([1, 0, 237]),
                                   fr(), flags=rng.choice([0, 0, 2])))
        steps.append(sacn_step(100, 10, p, 0, fr()))
    elif k == 1:
        # priority hand-over both directions between two/three sources
        lo, hi = rng.choice([(0, 99), (99, 100), (100, 101), (101, 200), (100, 200), (200, 201), (100, 255)])
        steps.append(sacn_step(1000, 1, lo, 10, fr()))
        steps.append(sacn_step(1000, 2, lo, 10, fr()))
        who = rng.choice([1, 3])
        steps.append(sacn_step(1000, who, hi, 11, fr()))
        steps.append(sacn_step(1000, 2, lo, 11, fr()))
        how = rng.randrange(4)
        if how == 0:
            steps.append(sacn_step(1000, who, lo, 12, fr()))              # lowers again
        elif how == 1:
            steps.append(sacn_step(1000, who, hi, 12, fr(), flags=2))     # terminates
        elif how == 2:
            steps.append(sacn_step(rng.choice(GAPS[2:5]), 2, lo, 12, fr()))  # maybe expires
        else:
            steps.append(sacn_step(1000, 2, hi, 12, fr()))                # other one raises too
        steps.append(sacn_step(1000, 2, lo, 13, fr()))
        steps.append(sacn_step(1000, 1, lo, 13, fr()))
    elif k == 2:
        # expiry boundary: two sources, a gap of exactly 2.5 s -1/0/+1 us, then one of them / a third
        p = rng.choice(PRIOS[:5])
        steps.append(sacn_step(0, 1, p, 0, fr()))
        steps.append(sacn_step(rng.choice([0, 1, 1000]), 2, p, 0, fr()))
        g = rng.choice(GAPS[2:5])
        steps.append(sacn_step(g, rng.choice([1, 2, 3]), rng.choice([p, p, max(p - 1, 0)]),
                               rng.choice([1, 0, 250]), fr(), flags=rng.choice([0, 0, 0, 2])))
        steps.append(sacn_step(rng.choice([0, 1, 2]), rng.choice([1, 2]), p, 2, fr()))
        steps.append(sacn_step(rng.choice(GAPS), rng.choice([1, 2, 3]), p, 3, fr()))
    elif k == 3:
        # sequence sweep around a start value, with a second source merged in
        s0 = rng.choice([0, 5, 19, 20, 128, 250, 255])
        steps.append(sacn_step(0, 1, 100, s0, fr()))
        if rng.random() < 0.5:
            steps.append(sacn_step(10, 2, 100, 77, fr()))
        last = s0
        for _ in range(rng.choice([4, 8, 12])):
            d = rng.randrange(-25, 6)
            steps.append(sacn_step(rng.choice([10, 1000, 2500001]), 1, 100, last + d, fr(),
                                   flags=rng.choice([0] * 8 + [2])))
            if not (-20 < d <= 0):
                last = (last + d) & 255
    elif k == 4:
        # frame lengths and Number()/length clamps, rev2, start codes, terminate with odd start codes
        for i in range(rng.choice([3, 6])):
            fl = rng.choice(FLENS)
            kw = {}
            if rng.random() < 0.4:
                kw['number'] = rng.choice([0, 1, 2, 512, 513, 514, 65535])
            if rng.random() < 0.3:
                kw['sc'] = rng.choice([0, 0xdd])
            steps.append(sacn_step(1000, rng.choice([1, 2]), 100, i + 1, rframe(rng, fl),
                                   flags=rng.choice([0, 0, 4, 2, 6]), **kw))
    else:
        # preview handling and priorities above the maximum
        for i in range(rng.choice([4, 8])):
            steps.append(sacn_step(1000, rng.choice([1, 2, 3]), rng.choice([100, 200, 201, 255]), i + 1, fr(),
                                   flags=rng.choice([0, 1, 1, 3])))
    return 'sacn %d 1 %s' % (1 if rng.random() < 0.6 else 0, ','.join(steps))


class ArtSeq(object):
    """the ArtDmx Sequence byte: per sender either always 0 (sequencing disabled) or an independent running
    counter 1..255 (wraps to 1), the senders' counters starting 0..25 apart; occasionally a repeated or
    out-of-order value.  The text says nothing about it and the receiver ignores it."""
    def __init__(self, rng):
        self.rng = rng
        self.base = rng.choice([1, 50, 100, 236, 250, 255])
        self.cnt = {}
        self.mode = {}
    def next(self, addr):
        rng = self.rng
        if addr not in self.cnt:
            self.mode[addr] = rng.choice(['run', 'run', 'run', 'zero'])
            off = rng.choice([0, 1, 7, 19, 20, 21, 25, rng.randrange(0, 26)])
            self.cnt[addr] = (self.base - off - 1) % 255
        if self.mode[addr] == 'zero':
            return 0
        r = rng.random()
        if r < 0.86:
            self.cnt[addr] = self.cnt[addr] % 255 + 1
        elif r < 0.93:
            pass                                  # repeated sequence number
        else:
            self.cnt[addr] = (self.cnt[addr] - rng.randrange(1, 25) - 1) % 255 + 1   # out of order
        return self.cnt[addr]


def art_step(dt, addr, data, lenf=None, net=4, univ=0x23, seq=None):
    if lenf is None:
        lenf = len(data)
    s = '%d:%d:%d:%d:%d:%s' % (dt, addr, net, univ, lenf, hx(data))
    return s if seq is None else s + ':%d' % seq


def gen_art(rng):
    addrs = rng.choice([[1, 2], [1, 2, 3], [1, 2, 3], [1, 2, 3, 4], [1], [0, 1, 2], [16777226, 167772171, 3]])
    sq = ArtSeq(rng)
    steps = []
    n = rng.choice([3, 5, 8, 12, 20])
    for _ in range(n):
        r = rng.random()
        if r < 0.6:
            dt = small_gap(rng)
        elif r < 0.7:
            dt = 0
        else:
            dt = rng.choice(GAPS + GAPS[5:] * 2 + [4999999, 5000000])
        fl = rng.choice([1, 2, 2, 3, 4, 6, 8, 24, 511, 512])
        data = rframe(rng, fl)
        kw = {}
        r = rng.random()
        if r < 0.12: kw['lenf'] = rng.choice([0, 1, 2, max(fl - 1, 0), fl + 1, 512, 513, 65535])
        elif r < 0.16: kw['net'] = rng.choice([0, 3, 5])
        elif r < 0.20: kw['univ'] = rng.choice([0, 0x22, 0x24, 0x33])
        a_ = rng.choice(addrs)
        steps.append(art_step(dt, a_, data, seq=sq.next(a_), **kw))
        if rng.random() < 0.06:
            steps.append('m:%d' % rng.randrange(2))     # SetMergeMode mid-history
    return 'art %d %s' % (1 if rng.random() < 0.4 else 0, ','.join(steps))


def gen_art_static(rng):
    """a sender holding a byte-identical frame (static look) across the 10 s boundary next to a
    concurrently changing second sender, then a late third sender; HTP and LTP"""
    n = rng.choice([3, 4, 6])
    hi = [rng.randrange(128, 256) for _ in range(n)]          # static sender dominates some slots
    if rng.random() < 0.3:
        hi = rframe(rng, n)
    sq = ArtSeq(rng)
    steps = [art_step(rng.choice([0, 1000]), 1, hi, seq=sq.next(1))]
    steps.append(art_step(rng.choice([10, 1000, 500000]), 2, [rng.randrange(0, 128) for _ in range(n)], seq=sq.next(2)))
    t_static = 0          # time since the static sender's first (= last changed) frame
    gap_choices = [999999, 1000000, 2000000, 2499999, 2500000, 3000000, 3333333, 4999999, 5000000]
    target = rng.choice([9999999, 10000000, 10000001, 10500000, 12000000, 15000000, 21000000])
    while t_static <= target and len(steps) < 26:
        g = rng.choice(gap_choices)
        half = rng.randrange(1, g)
        # the static sender repeats its frame, the other one changes
        steps.append(art_step(half, 1, hi, seq=sq.next(1)))
        steps.append(art_step(g - half, 2, [rng.randrange(0, 128) for _ in range(rng.choice([n, n, n + 1, max(2, n - 1)]))], seq=sq.next(2)))
        t_static += g
    # late third sender, then both regulars again
    steps.append(art_step(rng.choice([1, 1000, 100000]), 3, [255] * n, seq=sq.next(3)))
    steps.append(art_step(rng.choice([1, 1000]), 1, hi if rng.random() < 0.7 else rframe(rng, n), seq=sq.next(1)))
    steps.append(art_step(rng.choice([1, 1000]), 2, [rng.randrange(0, 128) for _ in range(n)], seq=sq.next(2)))
    if rng.random() < 0.5:
        steps.append(art_step(rng.choice([1, 1000, 10000001]), 3, [254] * n, seq=sq.next(3)))
    return 'art %d %s' % (1 if rng.random() < 0.5 else 0, ','.join(steps))


def gen_sacn_static(rng):
    """sACN sources holding a byte-identical frame (sequence numbers advancing) across the 2.5 s
    boundary next to a changing source, then a late further source (7th when the table is full)"""
    n = rng.choice([2, 3, 4])
    nstatic = rng.choice([1, 1, 2, 5])
    p = rng.choice(PRIOS[:5])
    frames = {c: [rng.randrange(100, 256) for _ in range(n)] for c in range(1, nstatic + 1)}
    seqs = {c: rng.choice([0, 100, 250]) for c in range(1, nstatic + 2)}
    steps = []
    for c in range(1, nstatic + 1):
        steps.append(sacn_step(rng.choice([0, 100]), c, p, seqs[c], frames[c]))
    ch = nstatic + 1
    steps.append(sacn_step(100, ch, p, seqs[ch], [rng.randrange(0, 100) for _ in range(n)]))
    t = 0
    target = rng.choice([2499999, 2500000, 2500001, 2600000, 3000000, 5200000])
    gaps = [249999, 250000, 500000, 833333, 1000000, 1250000, 2000000, 2400000]
    while t <= target and len(steps) < 26:
        g = rng.choice(gaps)
        left = g
        for c in range(1, nstatic + 1):
            d = rng.randrange(0, left // 2 + 1)
            left -= d
            seqs[c] += 1
            steps.append(sacn_step(d, c, p, seqs[c], frames[c]))
        seqs[ch] += 1
        steps.append(sacn_step(left, ch, p, seqs[ch], [rng.randrange(0, 100) for _ in range(n)]))
        t += g
    late = ch + 1
    steps.append(sacn_step(rng.choice([1, 1000]), late, rng.choice([p, p, max(p - 1, 0)]), 7, [255] * n))
    for c in list(range(1, nstatic + 1))[:2] + [ch]:
        seqs[c] += 1
        steps.append(sacn_step(rng.choice([1, 1000]), c, p, seqs[c], frames.get(c, [1] * n)))
    return 'sacn %d 1 %s' % (1 if rng.random() < 0.5 else 0, ','.join(steps))


def gen_artn(rng):
    """the whole Art-Net node: all four output ports, coinciding port addresses, a merge mode per port,
    ports enabled / disabled / re-addressed and net / subnet changed in mid-history"""
    net = rng.choice([0, 4, 4, 127])
    subnet = rng.choice([0, 2, 2, 15])
    univs = rng.choice([[3, 3], [3, 3, 3, 3], [3, 5], [3, 3, 5], [1, 2, 3, 4], [7, 7, 7]])
    steps = ['n:%d' % net, 's:%d' % subnet]
    ports = rng.sample(range(4), len(univs))
    for prt, u in zip(ports, univs):
        steps.append('e:%d:%d' % (prt, u))
        if rng.random() < 0.5:
            steps.append('m:%d:%d' % (prt, rng.randrange(2)))
    rng.shuffle(steps)
    addrs = rng.choice([[1, 2], [1, 2, 3], [1, 2, 3, 4], [1]])
    cur = {'net': net, 'subnet': subnet}
    sq = ArtSeq(rng)
    n = rng.choice([4, 8, 12, 18])
    for _ in range(n):
        r = rng.random()
        if r < 0.62:
            dt = small_gap(rng)
        elif r < 0.72:
            dt = 0
        else:
            dt = rng.choice(GAPS + GAPS[5:] * 2)
        fl = rng.choice([2, 2, 3, 4, 6, 8])
        u = rng.choice(univs + univs + [rng.randrange(16)])
        kw = {'net': cur['net'] if rng.random() < 0.93 else rng.choice([0, 3, 5]),
              'univ': ((cur['subnet'] & 15) << 4) | (u & 15) if rng.random() < 0.93 else rng.randrange(256)}
        if rng.random() < 0.08:
            kw['lenf'] = rng.choice([0, 1, 2, fl + 1, 512])
        a_ = rng.choice(addrs)
        steps.append(art_step(dt, a_, rframe(rng, fl), seq=sq.next(a_), **kw))
        r = rng.random()
        if r < 0.05:
            steps.append('d:%d' % rng.randrange(5))
        elif r < 0.12:
            steps.append('e:%d:%d' % (rng.randrange(5), rng.choice(univs + [rng.randrange(32)])))
        elif r < 0.18:
            steps.append('m:%d:%d' % (rng.randrange(4), rng.randrange(2)))
        elif r < 0.21:
            cur['subnet'] = rng.choice([0, 2, 15, rng.randrange(16)])
            steps.append('s:%d' % cur['subnet'])
        elif r < 0.30:
            steps.append('f:%d' % rng.randrange(2))      # the node's own SendTo calls fail / succeed again
        elif r < 0.33:
            cur['net'] = rng.choice([0, 4, 127, 128 + 4])
            steps.append('n:%d' % cur['net'])
            cur['net'] &= 127
    return 'artn ' + ','.join(steps)


def gen_sacnm(rng):
    """one DMPE131Inflator with several registered universes, the same CIDs sending on several of them,
    and API calls in mid-history: SetHandler again (same / new buffer), RemoveHandler + SetHandler"""
    steps = []
    regd = set()
    for u in rng.sample([1, 2, 3], rng.choice([2, 2, 3])):
        steps.append('r:%d:0' % u); regd.add(u)
    ncid = rng.choice([1, 2, 3, 4])
    seqs = {}
    prios = {c: rng.choice([100, 100, 100, 50, 200]) for c in range(1, ncid + 1)}
    fr = lambda: rframe(rng, rng.choice([1, 2, 3, 4]))
    n = rng.choice([6, 10, 16, 24])
    for _ in range(n):
        r = rng.random()
        if r < 0.08:
            u = rng.choice([1, 2, 3]); steps.append('r:%d:%d' % (u, rng.randrange(2))); regd.add(u)
        elif r < 0.12:
            u = rng.choice([1, 2, 3]); steps.append('x:%d' % u); regd.discard(u)
            if rng.random() < 0.6:
                steps.append('r:%d:0' % u); regd.add(u)
        else:
            c = rng.randrange(1, ncid + 1)
            u = rng.choice([1, 2, 3, 1, 2, rng.choice([3, 4])])
            k = (c, u)
            seqs[k] = (seqs.get(k, rng.choice([0, 250])) + rng.choice([1, 1, 1, 1, 0, -3, 2])) & 255
            if rng.random() < 0.08:
                prios[c] = rng.choice([50, 99, 100, 101, 200])
            flags = 2 if rng.random() < 0.08 else (1 if rng.random() < 0.04 else 0)
            dt = small_gap(rng) if rng.random() < 0.85 else rng.choice(GAPS[2:5])
            steps.append(sacn_step(dt, c, prios[c] if rng.random() < 0.9 else rng.choice(PRIOS), seqs[k], fr(),
                                   univ=u, flags=flags))
    return 'sacnm %d %s' % (rng.randrange(2), ','.join(steps))


def to_wire(rng, payload, dgram=True):
    """re-express an sACN history as framing-layer bytes for the real E131Inflator / E131InflatorRev2:
    the options byte carries preview (bit 7) and terminate (bit 6) together with every combination of the
    remaining bits; rev-2 framing has no options byte"""
    kind, ip, univ, steps = payload.split(' ')
    out = []
    for s in steps.split(','):
        dt, vec, cid, prio, seq, u, flags, dmph, pdu = s.split(':')
        flags = int(flags)
        rev2 = 1 if flags & 4 else 0
        opts = (0x80 if flags & 1 else 0) | (0x40 if flags & 2 else 0)
        r = rng.random()
        if r < 0.45:
            opts |= 0x20                       # E1.31-2016 force-synchronisation bit
        if r < 0.25 or r > 0.85:
            opts |= rng.randrange(32)          # reserved low bits
        fvec = 2 if rng.random() < 0.97 else rng.choice([0, 1, 3, 4])
        step = '%s:%s:%d:%d:%s:%s:%d:%s:%s:%s:%s' % (dt, cid, rev2, fvec, prio, seq, opts, u, vec, dmph, pdu)
        if dgram:
            # whole datagram: ACN preamble (valid / corrupted / truncated) + root layer PDU whose vector selects
            # the ratified or the revision-2 framing decoder (other vectors are dropped)
            r = rng.random()
            pre = 1 if r < 0.96 else rng.choice([0, 2])
            rvec = (3 if rev2 else 4) if rng.random() < 0.97 else rng.choice([0, 1, 5, 8])
            step += ':%d:%d' % (pre, rvec)
        out.append(step)
    return 'sacnw %s %s %s' % (ip, univ, ','.join(out))


def gen_cases(rng, tier):
    quick = tier == 'quick'
    yield 'consts'
    n = 1500 if quick else 120000
    for i in range(n):
        r = rng.random()
        if r < 0.74:
            c = (gen_sacn_random(rng) if r < 0.40 else gen_sacn_scripted(rng) if r < 0.66
                 else gen_sacn_static(rng))
            # most histories go through the real framing-layer decoders
            yield to_wire(rng, c, dgram=rng.random() < 0.8) if rng.random() < 0.65 else c
        elif r < 0.84:
            yield gen_art(rng)
        elif r < 0.89:
            yield gen_artn(rng)
        elif r < 0.94:
            yield gen_sacnm(rng)
        else:
            yield gen_art_static(rng)


def nontrivial(payload, md):
    outs = [v for k, v in md.items() if k.startswith('o') and k[1:].isdigit()]
    if not outs:
        return False
    if payload.startswith('sacnm '):
        cb = any(seg.startswith('1|') for v in outs for seg in v.split('/'))
        return cb and len(set(outs)) >= 2
    if payload.startswith('artn '):
        data = [v for v in outs if not v.startswith('c|')]
        cb = any(seg.startswith('1.') for v in data for seg in v.split('/'))
        return cb and len(set(data)) >= 2
    cb = any(v.startswith('1|') for v in outs)
    bufs = set(v.rsplit('|', 1)[-1] for v in outs)
    return cb and len(bufs) >= 2


LEVEL_TEXT = ('Coq theorems, by induction over every packet history, about an executable model of '
              'E131Inflator::DecodeHeader (options byte), DMPE131Inflator::HandlePDUData/TrackSourceIfRequired and '
              'ArtNetNodeImpl::HandleDataPacket/UpdatePortFromSource. sACN: tracked sources distinct, <= 6, each '
              'holding its last accepted frame at the active priority (<= 200), byte sequence numbers; every merge '
              'is the slot-wise maximum of exactly the tracked sources; priority > 200 / ignored preview (wire bit '
              '7) / sequence 0-19 behind / seventh source change no output; terminate (wire bit 6) removes the '
              'sender at once. EXACT refinement of a text-level specification (c08_sacn_refines_text): after every '
              'packet of every history (non-decreasing times, byte sequence numbers, at most six sources sharing '
              'the top priority = G_cap) the registered buffer equals the text-level output, or departs from it '
              'exactly as classified: hand-down gap (verdict 1), stale buffer after a non-merging packet (verdict '
              '2), sequence window forgotten (flag d4) - the three known findings; verdict 3 is unreachable. The '
              'same checker loop (extracted cstep) is run by the check on every generated history (SPEC key txt). '
              'Art-Net: two slots with distinct addresses, third sender changes nothing, and exact refinement of the '
              'text (c08_artnet_refines_text): a packet is admitted iff fewer than two other senders were heard '
              'within 10 s and the port buffer then equals the HTP / LTP text-level output (guard: no 0.0.0.0 '
              'sender, fixed merge mode). Model tied to the C++ by a differential correspondence check after every '
              'packet (ASan/UBSan build of the /repo working tree, virtual clock, framing-layer bytes through the '
              'real receive stack from whole datagrams: preamble, root layer with the CID in the bytes, ratified and revision-2 '
              'framing) and regenerated constants. Further theorems: datagram level (c08_sacn_datagram), source caps for every '
              'history (c08_sacn_cap, c08_artnet_node_cap), preview flag in both configurations, priorities above the maximum, '
              'sequence window without state hypotheses (c08_sacn_window), Art-Net node level (c08_artnet_node).')
LEVEL_NOTE = ('Trusted: Coq kernel, extraction (ExtrOcamlBasic), OCaml/C++ glue incl. the clock_gettime/'
              'gettimeofday interposers and MockUDPSocket, generator coverage of the correspondence; model = code '
              'is validated by differential testing, not proved. DmxBuffer is used through its list semantics '
              '(C02). EXPIRY_INTERVAL is read from the .cpp text and cross-checked against the running code.')
TECHNIQUE = 'Coq proof on hand-written executable model + extracted-model/implementation differential correspondence'
DESIGN_REF = 'DESIGN.md §4 C08'
