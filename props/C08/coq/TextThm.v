(* C08: the receiver's output equals the text-level output at every merge (under the guards) *)
From OlaBase Require Import Bytes.
From C08 Require Import Gen Model Spec ListLemmas SacnTrack SacnProofs SeqInv TextSpec TextTrack TextRel TextStep.
Local Open Scope N_scope.

(* ------------------------------------------------------------------ htp_of depends on the set of frames only *)
Lemma maxl_ge l x : In x l -> x <= maxl l.
Proof. induction l as [|y l IH]; intros []; cbn [maxl]; [subst; lia | specialize (IH H); lia]. Qed.

Lemma maxl_incl l l' : incl l l' -> maxl l <= maxl l'.
Proof.
  induction l as [|x l IH]; intros H; cbn [maxl]; [lia|].
  assert (x <= maxl l') by (apply maxl_ge, H; now left).
  assert (maxl l <= maxl l') by (apply IH; intros y Hy; apply H; now right). lia.
Qed.

Lemma maxlen_ge fs f : In f fs -> (length f <= maxlen fs)%nat.
Proof. induction fs as [|g fs IH]; intros []; cbn [maxlen]; [subst; lia | specialize (IH H); lia]. Qed.

Lemma maxlen_incl fs fs' : incl fs fs' -> (maxlen fs <= maxlen fs')%nat.
Proof.
  induction fs as [|x l IH]; intros H; cbn [maxlen]; [lia|].
  assert (length x <= maxlen fs')%nat by (apply maxlen_ge, H; now left).
  assert (maxlen l <= maxlen fs')%nat by (apply IH; intros y Hy; apply H; now right). lia.
Qed.

Lemma htp_of_ext fs fs' out : (forall f, In f fs <-> In f fs') -> htp_of fs out -> htp_of fs' out.
Proof.
  intros E [Hl Hn].
  assert (I1 : incl fs fs') by (intros f; apply E).
  assert (I2 : incl fs' fs) by (intros f; apply E).
  split.
  - rewrite Hl. apply Nat.le_antisymm; now apply maxlen_incl.
  - intros i. rewrite Hn. apply N.le_antisymm; apply maxl_incl; now apply incl_map.
Qed.

Lemma htp_of_unique fs o1 o2 : htp_of fs o1 -> htp_of fs o2 -> o1 = o2.
Proof.
  intros [L1 N1] [L2 N2]. apply (nth_ext o1 o2 0 0); [congruence|].
  intros n _. now rewrite N1, N2.
Qed.

Lemma text_out_htp now T : htp_of (text_frames now T) (text_out now T).
Proof.
  unfold text_out. pose proof (fold_htp_of (fun f : list N => f) (text_frames now T)) as H.
  rewrite map_id in H. exact H.
Qed.

(* ------------------------------------------------------------------ the text-level group is the tracked set *)
Lemma ttop_le now a T :
  (forall cid r, In (cid, r) T -> tlive now r = true -> t_prio r <= a) -> ttop now T <= a.
Proof.
  induction T as [|[c x] t IH]; intros Hall; cbn [ttop]; [lia|].
  assert (IHt : ttop now t <= a) by (apply IH; intros cid r Hi L; apply (Hall cid r); [now right | exact L]).
  destruct (tlive now x) eqn:Lx; [|exact IHt].
  assert (t_prio x <= a) by (apply (Hall c x); [now left | exact Lx]). lia.
Qed.

Lemma ttop_same now a T :
  (forall cid r, In (cid, r) T -> tlive now r = true -> t_prio r = a) ->
  (exists cid r, In (cid, r) T /\ tlive now r = true) -> ttop now T = a.
Proof.
  induction T as [|[c x] t IH]; intros Hall (cid & r & Hi & Hl); [destruct Hi|].
  cbn [ttop]. destruct (tlive now x) eqn:Lx.
  - assert (t_prio x = a) by (apply (Hall c x); [now left | exact Lx]).
    assert (Ht : ttop now t <= a).
    { apply ttop_le. intros c' r' Hi' L'. rewrite (Hall c' r'); [lia | now right | exact L']. }
    lia.
  - destruct Hi as [E|Hi]; [injection E as -> ->; congruence|].
    apply IH; [intros c' r' Hi' L'; apply (Hall c' r'); [now right | exact L'] | eauto].
Qed.

Lemma rel_output st T now out :
  rel st T now ->
  (forall s, In s (u_srcs st) -> exists r, tlook T (s_cid s) = Some r /\ tlive now r = true) ->
  htp_of (map s_buf (u_srcs st)) out -> out = text_out now T.
Proof.
  intros (Hnd & Hlen & Hnil & HndT & R1 & R2 & Rs) Hlive Hout.
  assert (Hlv : forall cid r, In (cid, r) T -> tlive now r = true ->
                  exists s, In s (u_srcs st) /\ s_cid s = cid /\ matches (u_active st) s r).
  { intros cid r Hi Hl. pose proof (in_tlook _ _ _ HndT Hi) as Hr.
    destruct (R2 cid r Hr Hl) as (s & Hs & Hc). exists s. split; [exact Hs|]. split; [exact Hc|].
    destruct (R1 s Hs) as (r' & Hr' & Hm). rewrite Hc, Hr in Hr'. injection Hr' as <-. exact Hm. }
  assert (Hgroup : tgroup now T = filter (fun e => tlive now (snd e)) T).
  { unfold tgroup. apply filter_ext_in. intros [cid r] Hi. cbn [snd].
    destruct (tlive now r) eqn:L; [|reflexivity]. cbn [andb].
    apply N.eqb_eq. symmetry. apply ttop_same; [|eauto].
    intros c' r' Hi' L'. destruct (Hlv c' r' Hi' L') as (_ & _ & _ & (_ & _ & _ & Hp & _)).
    destruct (Hlv cid r Hi L) as (_ & _ & _ & (_ & _ & _ & Hp0 & _)). congruence. }
  assert (Hlen6 : (length (tgroup now T) <= 6)%nat).
  { rewrite Hgroup. eapply Nat.le_trans; [|exact Hlen].
    rewrite <- (map_length fst), <- (map_length s_cid (u_srcs st)).
    apply NoDup_incl_length.
    - apply nodup_map_filter. exact HndT.
    - intros k Hk. apply in_map_iff in Hk as ([cid r] & <- & Hi). apply filter_In in Hi as [Hi L].
      destruct (Hlv cid r Hi L) as (s & Hs & Hc & _). cbn [fst]. rewrite <- Hc. now apply in_map. }
  apply (htp_of_unique (text_frames now T)); [|apply text_out_htp].
  eapply htp_of_ext; [|exact Hout].
  intros f. unfold text_frames. rewrite firstn_all2 by exact Hlen6. rewrite Hgroup. split.
  - intros Hf. apply in_map_iff in Hf as (s & <- & Hs).
    destruct (Hlive s Hs) as (r & Hr & L). destruct (R1 s Hs) as (r' & Hr' & (Hf & _)).
    rewrite Hr in Hr'. injection Hr' as <-. rewrite <- Hf.
    apply in_map_iff. exists (s_cid s, r). split; [reflexivity|].
    apply filter_In. split; [now apply tlook_in | exact L].
  - intros Hf. apply in_map_iff in Hf as ([cid r] & <- & Hi). apply filter_In in Hi as [Hi L].
    destruct (Hlv cid r Hi L) as (s & Hs & _ & (Hfr & _)). cbn [snd]. rewrite Hfr. now apply in_map.
Qed.

(* ------------------------------------------------------------------ histories *)
Lemma run_rel c h : forall st T tl,
  rel st T tl -> guards c tl T h -> seqs_bytes h ->
  rel (run c st h) (trun c T h) (last_time tl h).
Proof.
  induction h as [|[now p] h IH]; intros st T tl R G B; cbn [run trun last_time fold_left]; [exact R|].
  cbn [guards] in G. destruct G as (Htl & G1 & G2).
  destruct (handle c now st p) as [st' oc] eqn:E. cbn [fst].
  apply IH; [|exact G2 | intros np Hnp; apply B; now right].
  eapply step_rel; eauto. apply (B (now, p)). now left.
Qed.

Lemma refines_text c h now p st' acc cb :
  seqs_bytes h -> p_seq p < 256 ->
  guards c 0 [] h -> last_time 0 h <= now -> guard c now (trun c [] h) p ->
  handle c now (run c init_ust h) p = (st', OMerge acc cb) ->
  u_buf st' = text_out now (tstep c now (trun c [] h) p).
Proof.
  intros B Hp G Hl Gp H.
  pose proof (run_rel c h _ _ _ rel_init G B) as R.
  destruct (step_rel c now _ _ _ p st' _ R Hl Hp Gp H) as [R' ML]. cbn [merge_live] in ML.
  apply (rel_output st' _ now); [exact R' | exact ML|].
  (* the receiver's own merge is the slot-wise maximum of its tracked buffers *)
  unfold handle in H. destruct (classify c p) as [[frame sc0]|]; [|discriminate].
  destruct (track now p (u_srcs (run c init_ust h)) (u_active (run c init_ust h))) as [srcs active [] tgt];
    cbn [apply_track] in H; [|discriminate].
  injection H as <- _ _. cbn [u_srcs u_buf]. apply merge_sources_spec.
Qed.
