(* C08: Art-Net output port merge (UpdatePortFromSource) *)
From OlaBase Require Import Bytes.
From C08 Require Import Gen Model Spec ListLemmas.
Local Open Scope N_scope.

Definition TMO : N := ARTNET_MERGE_TIMEOUT * 1000000.

(* what the first loop does to a slot: the sender's own slot is skipped, any other slot last
   heard more than MERGE_TIMEOUT ago is emptied *)
Definition tmo (now addr : N) (s : asrc) : asrc :=
  if a_addr s =? addr then s
  else if a_ts s + TMO <? now then mkA 0 (a_ts s) (a_buf s) else s.

Lemma scan_spec now addr srcs : forall i,
  match scan now addr i srcs with
  | (srcs', slot, empty, act) =>
    srcs' = map (tmo now addr) srcs /\
    match slot with Some j => (i <= j < i + length srcs)%nat | None => True end /\
    match empty with Some e => (i <= e < i + length srcs)%nat | None => True end
  end.
Proof.
  induction srcs as [|s r IH]; intros i; cbn [scan map length].
  - repeat split.
  - specialize (IH (S i)). destruct (scan now addr (S i) r) as [[[r' slot] empty] act].
    destruct IH as (-> & Hs & He). fold TMO.
    destruct (a_addr s =? addr) eqn:E.
    + split; [unfold tmo; rewrite E; reflexivity|].
      split; [destruct slot; cbn beta iota; lia | destruct empty; [lia | exact I]].
    + assert (T : tmo now addr s = (if a_ts s + TMO <? now then mkA 0 (a_ts s) (a_buf s) else s))
        by (unfold tmo; rewrite E; reflexivity).
      rewrite <- T. destruct (negb (a_addr (tmo now addr s) =? 0)).
      * split; [reflexivity|]. split; [destruct slot; [lia | exact I] | destruct empty; [lia | exact I]].
      * split; [reflexivity|]. split; [destruct slot; [lia | exact I] | lia].
Qed.

Lemma set_nth_length {A} i (x : A) l : length (set_nth i x l) = length l.
Proof. revert i; induction l as [|y l IH]; intros [|i]; cbn [set_nth length]; auto. Qed.

Lemma set_nth_in {A} i (x : A) l t : In t (set_nth i x l) -> t = x \/ In t l.
Proof.
  revert i; induction l as [|y l IH]; intros [|i]; cbn [set_nth In]; intros H; auto.
  - destruct H as [<-|H]; auto.
  - destruct H as [<-|H]; auto. destruct (IH _ H); auto.
Qed.

Lemma set_nth_has {A} i (x : A) l : (i < length l)%nat -> In x (set_nth i x l).
Proof.
  revert i; induction l as [|y l IH]; intros [|i]; cbn [set_nth In length]; intros H; try lia.
  - now left.
  - right. apply IH. lia.
Qed.

Lemma amerge_spec srcs old :
  filter (fun s => negb (a_addr s =? 0)) srcs <> [] ->
  htp_of (map a_buf (filter (fun s => negb (a_addr s =? 0)) srcs)) (amerge srcs old).
Proof.
  unfold amerge. destruct (filter (fun s => negb (a_addr s =? 0)) srcs) as [|s r]; [congruence|].
  intros _. apply (fold_htp_of_cons a_buf s r).
Qed.

(* the result of one accepted ArtDmx packet *)
Lemma update_port_accept ltp now port source port' :
  update_port ltp now port source = (port', true) ->
  length (ap_srcs port') = length (ap_srcs port) /\
  In source (ap_srcs port') /\
  (forall t, In t (ap_srcs port') ->
     t = source \/ a_addr t = 0 \/ a_addr t = a_addr source \/
     (In t (ap_srcs port) /\ now <= a_ts t + TMO)) /\
  ap_buf port' = (if ltp then a_buf source else amerge (ap_srcs port') (ap_buf port)).
Proof.
  unfold update_port. pose proof (scan_spec now (a_addr source) (ap_srcs port) O) as SS.
  destruct (scan now (a_addr source) 0 (ap_srcs port)) as [[[srcs slot] empty] act].
  destruct SS as (-> & Hs & He).
  set (dec := match slot with
              | Some j => Some (j, if act =? 1 then false else ap_merging port)
              | None => match empty with Some e => Some (e, negb (act =? 0)) | None => None end
              end).
  assert (Hj : match dec with Some (j, _) => (j < length (ap_srcs port))%nat | None => True end).
  { unfold dec. destruct slot; [lia|]. destruct empty; [lia | exact I]. }
  fold dec. destruct dec as [[j m]|]; [|discriminate].
  intros H. injection H as <-. cbn [ap_srcs ap_buf].
  split; [rewrite set_nth_length, map_length; reflexivity|].
  split; [apply set_nth_has; rewrite map_length; exact Hj|].
  split; [|reflexivity].
  intros t Ht. apply set_nth_in in Ht as [->|Ht]; [now left|]. right.
  apply in_map_iff in Ht as (s & <- & Hs'). unfold tmo.
  destruct (a_addr s =? a_addr source) eqn:E.
  - right. left. now apply N.eqb_eq in E.
  - destruct (a_ts s + TMO <? now) eqn:X.
    + left. reflexivity.
    + right. right. split; [exact Hs'|]. now apply N.ltb_ge in X.
Qed.

(* while every slot holds another, live sender, a packet from a new sender changes nothing *)
Lemma scan_all_live now addr srcs : forall i,
  (forall s, In s srcs -> a_addr s <> addr /\ a_addr s <> 0 /\ now <= a_ts s + TMO) ->
  scan now addr i srcs = (srcs, None, None, N.of_nat (length srcs)).
Proof.
  induction srcs as [|s r IH]; intros i H; cbn [scan length]; [reflexivity|].
  rewrite IH by (intros x Hx; apply H; now right).
  destruct (H s (or_introl eq_refl)) as (Ha & Hz & Hl).
  apply N.eqb_neq in Ha. rewrite Ha. fold TMO.
  replace (a_ts s + TMO <? now) with false by (symmetry; now apply N.ltb_ge).
  apply N.eqb_neq in Hz. rewrite Hz. cbn [negb]. f_equal. lia.
Qed.

Lemma update_port_third ltp now port source :
  (forall s, In s (ap_srcs port) ->
     a_addr s <> a_addr source /\ a_addr s <> 0 /\ now <= a_ts s + TMO) ->
  update_port ltp now port source = (port, false).
Proof.
  intros H. unfold update_port. rewrite scan_all_live by exact H. destruct port; reflexivity.
Qed.

Lemma art_handle_length c now port k :
  length (ap_srcs (fst (art_handle c now port k))) = length (ap_srcs port).
Proof.
  unfold art_handle.
  destruct (len (k_data k) <? 2); [reflexivity|].
  destruct (negb (k_net k =? ac_net c)); [reflexivity|].
  destruct (negb (k_univ k =? ac_univ c)); [reflexivity|].
  unfold update_port.
  match goal with |- context [scan ?n ?a 0 ?l] => pose proof (scan_spec n a l O) as SS; destruct (scan n a 0 l) as [[[srcs slot] empty] act] end.
  destruct SS as (-> & _ & _).
  destruct slot as [j|]; [|destruct empty as [e|]]; cbn [fst ap_srcs];
    rewrite ?set_nth_length, map_length; reflexivity.
Qed.

Lemma arun_length c h : forall port, length (ap_srcs (arun c port h)) = length (ap_srcs port).
Proof.
  induction h as [|[now k] h IH]; intros port; cbn [arun]; [reflexivity|].
  rewrite IH. apply art_handle_length.
Qed.
