(* C08: Art-Net slot addresses stay pairwise distinct (wildcard = empty excepted) *)
From OlaBase Require Import Bytes.
From C08 Require Import Gen Model Spec ListLemmas ArtProofs.
Local Open Scope N_scope.

Definition adistinct (l : list asrc) : Prop :=
  forall i j, (i < length l)%nat -> (j < length l)%nat -> i <> j ->
    a_addr (nth i l empty_asrc) <> 0 -> a_addr (nth i l empty_asrc) <> a_addr (nth j l empty_asrc).

Lemma nth_set_nth_same {A} i (x d : A) l : (i < length l)%nat -> nth i (set_nth i x l) d = x.
Proof. revert i; induction l as [|y l IH]; intros [|i] H; cbn in *; try lia; auto. apply IH. lia. Qed.

Lemma nth_set_nth_other {A} i k (x d : A) l : i <> k -> nth k (set_nth i x l) d = nth k l d.
Proof.
  revert i k; induction l as [|y l IH]; intros [|i] [|k] H; cbn; auto; try congruence.
Qed.

Lemma tmo_empty now addr : tmo now addr empty_asrc = empty_asrc.
Proof. unfold tmo, empty_asrc. cbn [a_addr a_ts a_buf]. destruct (0 =? addr); [reflexivity|]. destruct (_ <? now); reflexivity. Qed.

Lemma nth_map_tmo now addr l k : nth k (map (tmo now addr) l) empty_asrc = tmo now addr (nth k l empty_asrc).
Proof. rewrite <- (tmo_empty now addr) at 1. apply map_nth. Qed.

Lemma tmo_cases now addr s :
  (a_addr s = addr /\ tmo now addr s = s) \/
  (a_addr s <> addr /\ a_addr (tmo now addr s) = 0) \/
  (a_addr s <> addr /\ tmo now addr s = s /\ now <= a_ts s + TMO).
Proof.
  unfold tmo. destruct (a_addr s =? addr) eqn:E.
  - left. apply N.eqb_eq in E. auto.
  - apply N.eqb_neq in E. destruct (a_ts s + TMO <? now) eqn:X.
    + right. left. auto.
    + right. right. apply N.ltb_ge in X. auto.
Qed.

(* where the accepted sender is stored *)
Lemma scan_slots now addr srcs : forall i,
  match scan now addr i srcs with
  | (_, slot, empty, _) =>
    match slot with
    | Some j => (i <= j < i + length srcs)%nat /\ a_addr (nth (j - i) srcs empty_asrc) = addr
    | None => forall s, In s srcs -> a_addr s <> addr
    end
  end.
Proof.
  induction srcs as [|s r IH]; intros i; cbn [scan length].
  - intros s [].
  - specialize (IH (S i)). destruct (scan now addr (S i) r) as [[[r' slot] empty] act].
    destruct (a_addr s =? addr) eqn:E.
    + destruct slot as [j|].
      * destruct IH as [Hj Ha]. split; [lia|]. replace (j - i)%nat with (S (j - S i)) by lia. exact Ha.
      * split; [lia|]. rewrite Nat.sub_diag. cbn. now apply N.eqb_eq.
    + assert (G : match slot with
                  | Some j => (i <= j < i + S (length r))%nat /\ a_addr (nth (j - i) (s :: r) empty_asrc) = addr
                  | None => forall s0, In s0 (s :: r) -> a_addr s0 <> addr
                  end).
      { destruct slot as [j|].
        - destruct IH as [Hj Ha]. split; [lia|]. replace (j - i)%nat with (S (j - S i)) by lia. exact Ha.
        - intros s0 [<-|H]; [now apply N.eqb_neq | now apply IH]. }
      destruct (negb _); exact G.
Qed.

Lemma update_port_shape ltp now port source port' :
  update_port ltp now port source = (port', true) ->
  exists j, (j < length (ap_srcs port))%nat /\
    ap_srcs port' = set_nth j source (map (tmo now (a_addr source)) (ap_srcs port)) /\
    (a_addr (nth j (ap_srcs port) empty_asrc) = a_addr source \/
     forall s, In s (ap_srcs port) -> a_addr s <> a_addr source).
Proof.
  unfold update_port.
  pose proof (scan_spec now (a_addr source) (ap_srcs port) O) as SS.
  pose proof (scan_slots now (a_addr source) (ap_srcs port) O) as SL.
  destruct (scan now (a_addr source) 0 (ap_srcs port)) as [[[srcs slot] empty] act].
  destruct SS as (-> & Hs & He).
  destruct slot as [j|].
  - intros H. injection H as <-. cbn [ap_srcs]. destruct SL as [Hj Ha]. rewrite Nat.sub_0_r in Ha.
    exists j. split; [lia|]. split; [reflexivity|]. now left.
  - destruct empty as [e|]; [|discriminate]. intros H. injection H as <-. cbn [ap_srcs].
    exists e. split; [lia|]. split; [reflexivity|]. now right.
Qed.

Lemma update_port_distinct ltp now port source port' :
  adistinct (ap_srcs port) -> update_port ltp now port source = (port', true) ->
  adistinct (ap_srcs port') /\
  (forall t, In t (ap_srcs port') ->
     t = source \/ a_addr t = 0 \/
     (In t (ap_srcs port) /\ now <= a_ts t + TMO /\ a_addr t <> a_addr source)).
Proof.
  intros D H. destruct (update_port_shape _ _ _ _ _ H) as (j & Hj & -> & Hwhere).
  set (addr := a_addr source) in *. set (l := ap_srcs port) in *.
  assert (Hlen : length (map (tmo now addr) l) = length l) by apply map_length.
  (* a slot other than j that still carries the sender's (non-wildcard) address is impossible *)
  assert (Hno : forall k, (k < length l)%nat -> k <> j -> addr <> 0 ->
                  a_addr (nth k l empty_asrc) <> addr).
  { intros k Hk Hkj Hz E. destruct Hwhere as [Hw|Hw].
    - apply (D k j Hk Hj Hkj); [rewrite E; exact Hz | now rewrite E, Hw].
    - apply (Hw (nth k l empty_asrc)); [now apply nth_In | exact E]. }
  assert (Hslot : forall k, (k < length l)%nat -> k <> j ->
            let t := tmo now addr (nth k l empty_asrc) in
            a_addr t = 0 \/ (t = nth k l empty_asrc /\ now <= a_ts t + TMO /\ a_addr t <> addr)).
  { intros k Hk Hkj t. unfold t.
    destruct (tmo_cases now addr (nth k l empty_asrc)) as [(Ea & Et)|[(Ea & Et)|(Ea & Et & Lv)]].
    - destruct (N.eq_dec addr 0) as [Z|Z]; [left; rewrite Et, Ea; exact Z|].
      exfalso. exact (Hno k Hk Hkj Z Ea).
    - now left.
    - right. rewrite Et. auto. }
  split.
  - intros i k Hi Hk Hik Hnz. rewrite set_nth_length, Hlen in Hi, Hk.
    destruct (Nat.eq_dec i j) as [->|Hij].
    + rewrite nth_set_nth_same in * by (rewrite Hlen; exact Hj).
      rewrite nth_set_nth_other by congruence. rewrite nth_map_tmo.
      destruct (Hslot k Hk (not_eq_sym Hik)) as [Z|(_ & _ & Ne)]; [rewrite Z; exact Hnz | intros E; apply Ne; symmetry; exact E].
    + rewrite (nth_set_nth_other j i) in * by congruence. rewrite nth_map_tmo in *.
      destruct (Hslot i Hi Hij) as [Z|(Et & _ & Ne)]; [contradiction|].
      destruct (Nat.eq_dec k j) as [->|Hkj].
      * rewrite nth_set_nth_same by (rewrite Hlen; exact Hj). exact Ne.
      * rewrite nth_set_nth_other by congruence. rewrite nth_map_tmo.
        destruct (Hslot k Hk Hkj) as [Z|(Et' & _ & _)]; [rewrite Z; exact Hnz|].
        rewrite Et, Et'. apply D; auto. rewrite <- Et. exact Hnz.
  - intros t Ht. apply (In_nth _ _ empty_asrc) in Ht as (k & Hk & <-).
    rewrite set_nth_length, Hlen in Hk.
    destruct (Nat.eq_dec k j) as [->|Hkj].
    + left. apply nth_set_nth_same. rewrite Hlen. exact Hj.
    + right. rewrite nth_set_nth_other by congruence. rewrite nth_map_tmo.
      destruct (Hslot k Hk Hkj) as [Z|(Et & Lv & Ne)]; [now left|].
      right. split; [rewrite Et; now apply nth_In | auto].
Qed.

Lemma update_port_reject_same ltp now port source port' :
  update_port ltp now port source = (port', false) -> adistinct (ap_srcs port) -> adistinct (ap_srcs port').
Proof.
  unfold update_port.
  pose proof (scan_spec now (a_addr source) (ap_srcs port) O) as SS.
  destruct (scan now (a_addr source) 0 (ap_srcs port)) as [[[srcs slot] empty] act].
  destruct SS as (-> & _ & _).
  destruct slot as [j|]; [discriminate|]. destruct empty as [e|]; [discriminate|].
  intros H D. injection H as <-. cbn [ap_srcs].
  intros i k Hi Hk Hik. rewrite map_length in Hi, Hk. rewrite !nth_map_tmo.
  destruct (tmo_cases now (a_addr source) (nth i (ap_srcs port) empty_asrc)) as [(_ & Et)|[(_ & Et)|(_ & Et & _)]];
    [|intros Hnz; contradiction|]; rewrite Et; intros Hnz.
  all: destruct (tmo_cases now (a_addr source) (nth k (ap_srcs port) empty_asrc)) as [(_ & Et')|[(_ & Et')|(_ & Et' & _)]];
    [rewrite Et'; now apply D | rewrite Et'; exact Hnz | rewrite Et'; now apply D].
Qed.

Lemma art_handle_distinct c now port k :
  adistinct (ap_srcs port) -> adistinct (ap_srcs (fst (art_handle c now port k))).
Proof.
  intros D. unfold art_handle.
  destruct (len (k_data k) <? 2); [exact D|].
  destruct (negb (k_net k =? ac_net c)); [exact D|].
  destruct (negb (k_univ k =? ac_univ c)); [exact D|].
  match goal with |- context [update_port ?a ?b ?c ?d] => destruct (update_port a b c d) as [port' []] eqn:E end; cbn [fst].
  - eapply update_port_distinct; eauto.
  - eapply update_port_reject_same; eauto.
Qed.

Lemma init_distinct : adistinct (ap_srcs init_aport).
Proof.
  intros i j _ _ _ H. exfalso. apply H. unfold init_aport. cbn [ap_srcs].
  generalize (N.to_nat ARTNET_MAX_MERGE_SOURCES). intros n. clear. revert i.
  induction n as [|n IH]; intros [|i]; cbn [repeat nth]; auto.
Qed.

Lemma arun_distinct c h : forall port, adistinct (ap_srcs port) -> adistinct (ap_srcs (arun c port h)).
Proof.
  induction h as [|[now k] h IH]; intros port D; cbn [arun]; [exact D|].
  apply IH. now apply art_handle_distinct.
Qed.
