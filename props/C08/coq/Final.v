(* C08: the obligations of Properties.v, proved (statement for statement) *)
From OlaBase Require Import Bytes.
From C08 Require Import Gen Model Spec ListLemmas SacnTrack SacnProofs SacnThms ArtProofs ArtDistinct SeqInv TextSpec TextThm TextCheck WireProofs ShadowThm ArtText ArtStep NodeProofs ExtProofs MultiProofs.
Local Open Scope N_scope.

Lemma c08_consts_l :
  E131_PREVIEW_DATA_MASK = 2 ^ 7 /\ E131_STREAM_TERMINATED_MASK = 2 ^ 6 /\ VECTOR_E131_DATA = 2 /\
  VECTOR_ROOT_E131 = 4 /\ VECTOR_ROOT_E131_REV2 = 3 /\ ARTNET_MAX_PORTS = 4 /\
  EXPIRY_INTERVAL_US = 2500000 /\ SACN_MAX_PRIORITY = 200 /\ SACN_MAX_MERGE_SOURCES = 6 /\
  SEQUENCE_DIFF_THRESHOLD_NEG = 20 /\ ARTNET_MAX_MERGE_SOURCES = 2 /\ ARTNET_MERGE_TIMEOUT = 10 /\
  DMX_UNIVERSE_SIZE = 512.
Proof. repeat split; reflexivity. Qed.

Lemma c08_sacn_tracked_l :
  forall (c : cfg) (h : list (N * pkt)),
    let st := fst (grun c init_ust [] h) in
    let g := snd (grun c init_ust [] h) in
    NoDup (map s_cid (u_srcs st)) /\
    (length (u_srcs st) <= 6)%nat /\
    (forall s, In s (u_srcs st) ->
       glook g (s_cid s) = Some (mkG (s_buf s) (u_active st) (s_last s))) /\
    (u_srcs st = [] -> u_active st = 0) /\
    u_active st <= 200.
Proof. exact grun_tracked. Qed.

Lemma c08_sacn_output_l :
  forall (c : cfg) (h : list (N * pkt)) (now : N) (p : pkt) (st' : ust) acc cb,
    let st := fst (grun c init_ust [] h) in
    let g := snd (grun c init_ust [] h) in
    handle c now st p = (st', OMerge acc cb) ->
    let g' := gstep g now p (OMerge acc cb) in
    htp_of (map s_buf (u_srcs st')) (u_buf st') /\
    (forall s, In s (u_srcs st') ->
       glook g' (s_cid s) = Some (mkG (s_buf s) (u_active st') (s_last s))) /\
    (forall s, In s (u_srcs st') -> s_cid s <> p_cid p ->
       now <= s_last s + 2500000 /\ In s (u_srcs st)) /\
    (forall s, In s (u_srcs st') -> s_cid s = p_cid p ->
       s_last s = now /\ acc = Some (s_buf s) /\ u_active st' = p_prio p) /\
    cb = negb (is_nil (u_srcs st')) /\ u_pout st' = u_active st' /\
    (length (u_srcs st') <= 6)%nat /\ u_active st' <= 200.
Proof.
  intros c h now p st' acc cb st g H g'.
  destruct (handle_ok c now st g p st' _ (grun_tracked c h) H) as [(Hnd & Hl & Hg & _ & Ha) Hpost].
  cbn [step_post] in Hpost. destruct Hpost as (Hlive & Hm & Hcb & Hpo & Hsend & Hold).
  split; [exact Hm|]. split; [exact Hg|]. split.
  { intros s Hs Hne. split; [|now apply Hold].
    destruct (Hlive s Hs) as [E|E]; [contradiction | exact E]. }
  split; [exact Hsend|]. split; [exact Hcb|]. split; [exact Hpo|]. split; [exact Hl | exact Ha].
Qed.

Lemma c08_sacn_ignore_l :
  forall (c : cfg) (h : list (N * pkt)) (now : N) (p : pkt) (st' : ust) (oc : outcome),
    let st := fst (grun c init_ust [] h) in
    handle c now st p = (st', oc) ->
    (200 < p_prio p -> st' = st /\ oc = OIgnore) /\
    (p_preview p = true -> c_ignore_preview c = true -> st' = st /\ oc = OIgnore) /\
    (forall s, In s (u_srcs st) -> s_cid s = p_cid p -> s_seq s < 256 -> p_seq p < 256 ->
       behind (s_seq s) (p_seq p) <= 19 ->
       u_buf st' = u_buf st /\ u_pout st' = u_pout st /\ no_merge oc /\ In s (u_srcs st') /\
       (u_srcs st' = u_srcs st \/ u_srcs st' = expire now (p_cid p) (u_srcs st))) /\
    ((forall s, In s (u_srcs st) -> s_cid s <> p_cid p) ->
       length (expire now (p_cid p) (u_srcs st)) = 6%nat -> p_prio p <= u_active st ->
       u_buf st' = u_buf st /\ u_pout st' = u_pout st /\ no_merge oc /\ u_active st' = u_active st /\
       (u_srcs st' = u_srcs st \/ u_srcs st' = expire now (p_cid p) (u_srcs st))).
Proof.
  intros c h now p st' oc st H. repeat split.
  1,2: rewrite handle_ignore_prio in H by assumption; now injection H.
  1,2: rewrite handle_ignore_preview in H by assumption; now injection H.
  all: try (eapply handle_behind; eauto using grun_tracked; fail).
  all: eapply handle_full; eauto.
Qed.

Lemma c08_sacn_terminate_l :
  forall (c : cfg) (h : list (N * pkt)) (now : N) (p : pkt) (s : src) (st' : ust) (oc : outcome),
    let st := fst (grun c init_ust [] h) in
    In s (u_srcs st) -> s_cid s = p_cid p -> p_term p = true ->
    s_seq s < 256 -> p_seq p < 256 -> 19 < behind (s_seq s) (p_seq p) ->
    handle c now st p = (st', oc) ->
    (oc = OIgnore /\ st' = st) \/
    exists l1 l2, expire now (p_cid p) (u_srcs st) = l1 ++ s :: l2 /\
      u_srcs st' = l1 ++ l2 /\ oc = OMerge None (negb (is_nil (l1 ++ l2))) /\
      htp_of (map s_buf (l1 ++ l2)) (u_buf st') /\
      (forall x, In x (l1 ++ l2) -> s_cid x <> p_cid p).
Proof.
  intros c h now p s st' oc st. eapply handle_terminate. apply grun_tracked.
Qed.

Lemma c08_artnet_merge_l :
  forall (c : acfg) (h : list (N * apkt)) (now : N) (k : apkt) (port' : aport),
    let port := arun c init_aport h in
    art_handle c now port k = (port', true) ->
    let frame := dmx_set (k_data k) (u16 (N.min (k_lenf k) (len (k_data k)))) in
    let me := mkA (k_addr k) now frame in
    length (ap_srcs port') = 2%nat /\
    In me (ap_srcs port') /\
    (forall t, In t (ap_srcs port') ->
       t = me \/ a_addr t = 0 \/
       (In t (ap_srcs port) /\ now <= a_ts t + 10000000 /\ a_addr t <> k_addr k)) /\
    adistinct (ap_srcs port') /\
    (ac_ltp c = true -> ap_buf port' = frame) /\
    (ac_ltp c = false -> k_addr k <> 0 ->
       htp_of (map a_buf (filter (fun s => negb (a_addr s =? 0)) (ap_srcs port'))) (ap_buf port')).
Proof.
  intros c h now k port' port H frame me.
  unfold art_handle in H.
  destruct (len (k_data k) <? 2); [discriminate|].
  destruct (negb (k_net k =? ac_net c)); [discriminate|].
  destruct (negb (k_univ k =? ac_univ c)); [discriminate|].
  fold frame in H. fold me in H.
  destruct (update_port_accept _ _ _ _ _ H) as (Hl & Hin & _ & Hb).
  destruct (update_port_distinct _ _ _ _ _ (arun_distinct c h _ init_distinct) H) as (Hd & Hall).
  split; [rewrite Hl; unfold port; rewrite arun_length; reflexivity|].
  split; [exact Hin|]. split; [exact Hall|]. split; [exact Hd|]. split.
  - intros L. rewrite L in Hb. exact Hb.
  - intros L Hz. rewrite L in Hb. rewrite Hb. apply amerge_spec.
    intros E. assert (Hf : In me (filter (fun s => negb (a_addr s =? 0)) (ap_srcs port'))).
    { apply filter_In. split; [exact Hin|]. cbn [a_addr me]. apply N.eqb_neq in Hz. now rewrite Hz. }
    rewrite E in Hf. destruct Hf.
Qed.

Lemma c08_artnet_third_l :
  forall (c : acfg) (now : N) (port : aport) (k : apkt),
    (forall s, In s (ap_srcs port) ->
       a_addr s <> k_addr k /\ a_addr s <> 0 /\ now <= a_ts s + 10000000) ->
    art_handle c now port k = (port, false).
Proof.
  intros c now port k H. unfold art_handle.
  destruct (len (k_data k) <? 2); [reflexivity|].
  destruct (negb (k_net k =? ac_net c)); [reflexivity|].
  destruct (negb (k_univ k =? ac_univ c)); [reflexivity|].
  apply update_port_third. exact H.
Qed.

Lemma c08_sacn_refines_text_partial_l :
  forall (c : cfg) (h : list (N * pkt)) (now : N) (p : pkt) (st' : ust) acc cb,
    (forall np, In np h -> p_seq (snd np) < 256) -> p_seq p < 256 ->
    guards c 0 [] h -> last_time 0 h <= now -> guard c now (trun c [] h) p ->
    handle c now (run c init_ust h) p = (st', OMerge acc cb) ->
    u_buf st' = text_out now (tstep c now (trun c [] h) p).
Proof. exact refines_text. Qed.

Lemma c08_sacn_seq_range_l :
  forall (c : cfg) (h : list (N * pkt)),
    (forall np, In np h -> p_seq (snd np) < 256) ->
    forall s, In s (u_srcs (fst (grun c init_ust [] h))) -> s_seq s < 256.
Proof. intros c h B. exact (grun_seq c h B). Qed.

Lemma c08_text_checker_l :
  (forall merged frozen now T D buf,
     verdict merged frozen now T D buf = 0 <-> buf = text_out now T) /\
  (forall merged frozen now T D buf,
     verdict merged frozen now T D buf = 1 ->
     buf <> text_out now T /\ buf = text_out_unshadowed now T D) /\
  (forall merged frozen now T D buf,
     verdict merged frozen now T D buf = 2 ->
     merged = false /\ buf <> text_out now T /\ buf = frozen /\ buf <> text_out_unshadowed now T D) /\
  (forall c now keep rx T D p,
     dlook D (p_cid p) = false ->
     (forall r, tlook T (p_cid p) = Some r -> t_alive r = true ->
                behind (t_seq r) (p_seq p) <= 19 -> now <= t_time r + 2500000) ->
     fst (fst (xstep c now keep rx T D p)) = tstep c now T p).
Proof.
  split; [exact verdict_zero|]. split; [exact verdict_d1|]. split; [exact verdict_d2 | exact xstep_tstep].
Qed.

Lemma c08_sacn_wire_l :
  (forall w, p_preview (pkt_of_wire w) = negb (w_rev2 w) && N.testbit (w_opts w) 7) /\
  (forall w, p_term (pkt_of_wire w) = negb (w_rev2 w) && N.testbit (w_opts w) 6) /\
  (forall c now st w,
     handle_wire c now st w = (st, OIgnore) \/
     handle_wire c now st w = handle c now st (pkt_of_wire w)) /\
  (forall c now st w,
     w_rev2 w = false -> N.testbit (w_opts w) 7 = true -> c_ignore_preview c = true ->
     handle_wire c now st w = (st, OIgnore)).
Proof.
  split; [exact wire_preview|]. split; [exact wire_term|]. split; [exact wire_cases | exact wire_ignore_preview].
Qed.

Lemma c08_sacn_refines_text_l :
  forall (c : cfg) (h : hist),
    cguards c 0 init_cst h ->
    forall v, In v (cverdicts c init_cst h) -> v = 0 \/ v = 1 \/ v = 2.
Proof. exact refines_text_exact. Qed.

Lemma c08_artnet_refines_text_l :
  forall (c : acfg) (h : list (N * apkt)) (now : N) (k : apkt),
    aguards 0 h -> alast 0 h <= now -> k_addr k <> 0 ->
    let port := arun c init_aport h in
    let G := snd (arun2 c init_aport [] h) in
    (snd (atext_step c now G k) = None <-> snd (art_handle c now port k) = false) /\
    (forall out, snd (atext_step c now G k) = Some out -> ap_buf (fst (art_handle c now port k)) = out).
Proof. exact artnet_refines. Qed.

Lemma c08_artnet_node_l :
  forall (h : list (N * nop)) (now : N) (k : apkt),
    nguards 0 h -> nlast 0 h <= now -> k_addr k <> 0 ->
    let nd := fst (nrun init_node init_ghosts h) in
    let Gs := snd (nrun init_node init_ghosts h) in
    fst (node_op now nd (NData k)) =
      mkN (n_net nd) (map (fun p => fst (port_data (n_net nd) now p k)) (n_ports nd)) /\
    snd (node_op now nd (NData k)) = map (fun p => snd (port_data (n_net nd) now p k)) (n_ports nd) /\
    Forall2 (fun p G =>
       let r := port_data (n_net nd) now p k in
       let t := ntext_data (n_net nd) now p G k in
       (snd t = None <-> snd r = false) /\
       (forall out, snd t = Some out -> ap_buf (np_port (fst r)) = out) /\
       (np_en p = false -> fst r = p)) (n_ports nd) Gs.
Proof. exact node_refines. Qed.

Lemma c08_sacn_datagram_l :
  (forall c now st d,
     handle_dgram c now st d = match dpkt d with Some p => handle c now st p | None => (st, OIgnore) end) /\
  (forall c h st, drun c st h = run c st (dpkts h)) /\
  (forall w, p_rev2 (pkt_of_wire (with_rev2 true w)) = true /\
             p_preview (pkt_of_wire (with_rev2 true w)) = false /\
             p_term (pkt_of_wire (with_rev2 true w)) = false).
Proof. split; [exact handle_dgram_spec|]. split; [intros c h st; apply drun_run | exact dgram_rev2]. Qed.

Lemma c08_sacn_cap_l :
  (forall c (h : list (N * pkt)),
     (length (u_srcs (run c init_ust h)) <= N.to_nat SACN_MAX_MERGE_SOURCES)%nat) /\
  (forall c (h : list (N * dgram)),
     (length (u_srcs (drun c init_ust h)) <= N.to_nat SACN_MAX_MERGE_SOURCES)%nat) /\
  (forall c now st p st' oc,
     (forall s, In s (u_srcs st) -> s_cid s <> p_cid p) ->
     length (expire now (p_cid p) (u_srcs st)) = N.to_nat SACN_MAX_MERGE_SOURCES ->
     p_prio p <= u_active st ->
     handle c now st p = (st', oc) ->
     u_buf st' = u_buf st /\ u_pout st' = u_pout st /\ no_merge oc /\ u_active st' = u_active st /\
     (u_srcs st' = u_srcs st \/ u_srcs st' = expire now (p_cid p) (u_srcs st)) /\
     (forall s, In s (u_srcs st') -> s_cid s <> p_cid p)).
Proof.
  split; [exact run_cap|]. split; [intros c h; rewrite drun_run; apply run_cap | exact seventh_refused].
Qed.

Lemma c08_sacn_preview_l :
  (forall c now st p b,
     c_ignore_preview c = false -> handle c now st (set_preview b p) = handle c now st p) /\
  (forall c now st w,
     w_rev2 w = false -> N.testbit (w_opts w) 7 = true -> c_ignore_preview c = true ->
     handle_wire c now st w = (st, OIgnore)).
Proof. split; [exact preview_irrelevant | exact wire_ignore_preview]. Qed.

Lemma c08_sacn_priority_cap_l :
  (forall c now st d,
     SACN_MAX_PRIORITY < w_prio (d_wire d) -> handle_dgram c now st d = (st, OIgnore)) /\
  (forall c now k p,
     SACN_MAX_PRIORITY < p_prio p ->
     fst (fst (fst (cstep c now k true p))) = k /\ snd (fst (fst (cstep c now k true p))) = OIgnore).
Proof. split; [exact prio_cap_dgram | exact prio_cap_checker]. Qed.

Lemma c08_artnet_node_cap_l :
  (forall (h : list (N * nop)),
     Forall (fun p => length (ap_srcs (np_port p)) = N.to_nat ARTNET_MAX_MERGE_SOURCES /\
                      adistinct (ap_srcs (np_port p)))
            (n_ports (fst (nrun init_node init_ghosts h)))) /\
  (forall net now p k,
     (forall s, In s (ap_srcs (np_port p)) ->
        a_addr s <> k_addr k /\ a_addr s <> 0 /\ now <= a_ts s + 10000000) ->
     port_data net now p k = (p, false)).
Proof. split; [intros h; apply nrun_shape, init_shape | exact node_third]. Qed.

Lemma c08_sacn_window_l :
  (forall c h now p s st' oc,
     (forall np, In np h -> p_seq (snd np) < 256) -> p_seq p < 256 ->
     let st := fst (grun c init_ust [] h) in
     In s (u_srcs st) -> s_cid s = p_cid p -> behind (s_seq s) (p_seq p) <= 19 ->
     handle c now st p = (st', oc) ->
     u_buf st' = u_buf st /\ u_pout st' = u_pout st /\ no_merge oc /\ In s (u_srcs st') /\
     (u_srcs st' = u_srcs st \/ u_srcs st' = expire now (p_cid p) (u_srcs st))) /\
  (forall c h now p s st' oc,
     (forall np, In np h -> p_seq (snd np) < 256) -> p_seq p < 256 ->
     let st := fst (grun c init_ust [] h) in
     In s (u_srcs st) -> s_cid s = p_cid p -> p_term p = true -> 19 < behind (s_seq s) (p_seq p) ->
     handle c now st p = (st', oc) ->
     (oc = OIgnore /\ st' = st) \/
     exists l1 l2, expire now (p_cid p) (u_srcs st) = l1 ++ s :: l2 /\
       u_srcs st' = l1 ++ l2 /\ oc = OMerge None (negb (is_nil (l1 ++ l2))) /\
       htp_of (map s_buf (l1 ++ l2)) (u_buf st') /\
       (forall x, In x (l1 ++ l2) -> s_cid x <> p_cid p)).
Proof. split; [exact window_behind | exact window_terminate]. Qed.

Lemma c08_sacn_universes_independent_l :
  (forall ip h S u, ilook (irun ip S h) u = urun ip u (ilook S u) h) /\
  (forall ip u h st,
     urun ip u (Some st) (map (fun np : N * pkt => (fst np, IPkt (snd np))) h) =
     Some (run (mkCfg ip u) st h)) /\
  (forall ip now S u st fresh,
     ilook S u = Some st ->
     exists st', ilook (fst (inflator_op ip now S (IReg u fresh))) u = Some st' /\
                 u_srcs st' = u_srcs st /\ u_active st' = u_active st /\ (fresh = false -> st' = st)) /\
  (forall ip now S u u', u' <> u ->
     ilook (fst (inflator_op ip now S (IUnreg u))) u' = ilook S u' /\
     ilook (fst (inflator_op ip now S (IUnreg u))) u = None).
Proof.
  split; [intros; apply irun_proj|]. split; [intros; apply urun_packets|]. split; [exact rereg_keeps|].
  intros ip now S u u' H. rewrite !inflator_op_proj. cbn [ustep]. rewrite N.eqb_refl.
  apply not_eq_sym, N.eqb_neq in H. rewrite H. auto.
Qed.

Lemma c08_artnet_send_independent_l :
  forall now nd b,
    node_op now nd (NSendFail b) = (nd, map (fun _ => false) (n_ports nd)).
Proof. reflexivity. Qed.

