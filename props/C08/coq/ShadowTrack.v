(* C08: every outcome of TrackSourceIfRequired, and the facts about an accepted text-level packet *)
From OlaBase Require Import Bytes.
From C08 Require Import Gen Model Spec ListLemmas SacnTrack SacnProofs SeqInv TextSpec TextTrack TextRel
  TextStep TextThm TextCheck ShadowRel.
Local Open Scope N_scope.

Lemma track_all now p srcs0 active0 :
  NoDup (map s_cid srcs0) ->
  let e := expire now (p_cid p) srcs0 in
  let a := if is_nil e then 0 else active0 in
  let t := track now p srcs0 active0 in
  (exists l1 s l2, e = l1 ++ s :: l2 /\ s_cid s = p_cid p /\
     ((oldseq p s = true /\ t = TR e a false None) \/
      (oldseq p s = false /\ p_term p = true /\
         t = TR (l1 ++ l2) (if is_nil (l1 ++ l2) then 0 else a) true None) \/
      (oldseq p s = false /\ p_term p = false /\ p_prio p < a /\ l1 ++ l2 = [] /\
         t = TR [refreshed now p s] (p_prio p) true (Some O)) \/
      (oldseq p s = false /\ p_term p = false /\ p_prio p < a /\ l1 ++ l2 <> [] /\
         t = TR (l1 ++ l2) a true None) \/
      (oldseq p s = false /\ p_term p = false /\ a < p_prio p /\
         t = TR [refreshed now p s] (p_prio p) true (Some O)) \/
      (oldseq p s = false /\ p_term p = false /\ p_prio p = a /\
         t = TR (l1 ++ refreshed now p s :: l2) a true (Some (length l1)))))
  \/
  ((forall x, In x e -> s_cid x <> p_cid p) /\
   ((p_term p = true /\ t = TR e a false None) \/
    (p_term p = false /\ p_prio p < a /\ t = TR e a false None) \/
    (p_term p = false /\ a < p_prio p /\ t = TR [newsrc now p] (p_prio p) true (Some O)) \/
    (p_term p = false /\ p_prio p = a /\ length e = 6%nat /\ t = TR e a false None) \/
    (p_term p = false /\ p_prio p = a /\ length e <> 6%nat /\
       t = TR (e ++ [newsrc now p]) a true (Some (length e))))).
Proof.
  intros Hnd e a t. subst t. unfold track. fold e. fold a.
  destruct (find_idx (p_cid p) e) as [i|] eqn:F.
  - left. destruct (find_idx_some _ _ _ F) as (l1 & s & l2 & Ee & Hi & Hc & Hn1).
    exists l1, s, l2. split; [exact Ee|]. split; [exact Hc|].
    subst i. rewrite Ee. rewrite nth_middle. fold (oldseq p s).
    destruct (oldseq p s); [left; split; reflexivity|]. right.
    destruct (p_term p) eqn:T.
    { left. rewrite set_nth_mid, remove_nth_mid. repeat split; reflexivity. }
    right. rewrite !set_nth_mid. fold (refreshed now p s).
    destruct (p_prio p <? a) eqn:Lo.
    + apply N.ltb_lt in Lo.
      destruct (len (l1 ++ refreshed now p s :: l2) =? 1) eqn:L1.
      * left. apply len_one_mid in L1. apply app_eq_nil in L1 as [-> ->]. cbn [app length].
        repeat split; auto.
      * right. left. apply len_not_one_mid in L1. rewrite remove_nth_mid. repeat split; auto.
    + right. right. apply N.ltb_ge in Lo. destruct (a <? p_prio p) eqn:Hi.
      * left. apply N.ltb_lt in Hi.
        destruct (len (l1 ++ refreshed now p s :: l2) =? 1) eqn:L1; cbn [negb].
        -- apply len_one_mid in L1. apply app_eq_nil in L1 as [-> ->]. cbn [app length].
           repeat split; auto.
        -- repeat split; auto.
      * right. apply N.ltb_ge in Hi. assert (p_prio p = a) by lia. repeat split; auto.
  - right. pose proof (find_idx_none _ _ F) as Hnone. split; [exact Hnone|].
    destruct (p_term p) eqn:T; cbn [orb]; [left; split; reflexivity|]. right.
    destruct (p_prio p <? a) eqn:Lo.
    { left. apply N.ltb_lt in Lo. repeat split; auto. }
    right. apply N.ltb_ge in Lo. destruct (a <? p_prio p) eqn:Hi.
    + left. apply N.ltb_lt in Hi. change (len (@nil src) =? SACN_MAX_MERGE_SOURCES) with false.
      cbn [app length]. repeat split; auto.
    + right. apply N.ltb_ge in Hi. assert (E : p_prio p = a) by lia.
      rewrite len_length with (k := 6%nat).
      destruct (Nat.eqb_spec (length e) 6) as [E6|E6]; [left | right]; repeat split; auto.
Qed.

(* the shadow flags after an accepted text-level packet *)
Lemma accept_flags st T D tl now cid flag top' :
  relx st T D tl -> tl <= now ->
  let D' := mark_others now top' cid T ((cid, flag) :: D) in
  dlook D' cid = flag /\
  (forall c', c' <> cid -> dlook D c' = true -> dlook D' c' = true) /\
  (forall x, In x (expire now cid (u_srcs st)) -> s_cid x <> cid ->
     (dlook D' (s_cid x) = true <-> u_active st < top')).
Proof.
  intros (Hnd & Hlen & Hnil & HndT & R1 & R2 & Rs & Rt) Htl D'.
  split; [|split].
  - destruct flag.
    + apply dlook_mark_others. left. cbn [dlook]. now rewrite N.eqb_refl.
    + destruct (dlook D' cid) eqn:X; [|reflexivity]. exfalso.
      apply dlook_mark_others in X as [X|[X _]]; [|congruence].
      cbn [dlook] in X. rewrite N.eqb_refl in X. discriminate.
  - intros c' Hne Hd. apply dlook_mark_others. left. cbn [dlook].
    apply not_eq_sym, N.eqb_neq in Hne. now rewrite Hne.
  - intros x Hx Hne. destruct (expire_in _ _ _ _ Hx) as [Hx0 [Hl|Hl]]; [contradiction|].
    destruct (R1 x Hx0) as (r & Hr & (_ & Ht & _ & Hp & Ha) & Hd).
    split.
    + intros H. apply dlook_mark_others in H as [H|(_ & r' & Hi & _ & Hlt)].
      * cbn [dlook] in H. apply not_eq_sym, N.eqb_neq in Hne. rewrite Hne in H. congruence.
      * rewrite (in_tlook _ _ _ HndT Hi) in Hr. injection Hr as ->. now rewrite <- Hp.
    + intros Hlt. apply dlook_mark_others. right. split; [exact Hne|]. exists r.
      split; [now apply tlook_in|]. split; [|now rewrite Hp].
      unfold xlive. rewrite Ha, Ht. cbn [andb].
      replace (s_last x <=? now) with true by (symmetry; apply N.leb_le; specialize (Rt _ _ Hr); lia).
      cbn [andb]. apply N.leb_le. exact Hl.
Qed.
