(* C08: datagram level, caps, preview in both configurations, priorities above the maximum *)
From OlaBase Require Import Bytes.
From C08 Require Import Gen Model Spec ListLemmas SacnTrack SacnProofs SacnThms WireProofs SeqInv TextSpec
  TextCheck ShadowThm ArtProofs ArtDistinct NodeProofs.
Local Open Scope N_scope.

(* ------------------------------------------------------------------ whole datagrams *)
Definition dpkt (d : dgram) : option pkt :=
  if negb (d_pre_ok d) then None
  else if d_rvec d =? VECTOR_ROOT_E131 then
    (if w_fvec (d_wire d) =? VECTOR_E131_DATA then Some (pkt_of_wire (with_rev2 false (d_wire d))) else None)
  else if d_rvec d =? VECTOR_ROOT_E131_REV2 then
    (if w_fvec (d_wire d) =? VECTOR_E131_DATA then Some (pkt_of_wire (with_rev2 true (d_wire d))) else None)
  else None.

Lemma handle_dgram_spec c now st d :
  handle_dgram c now st d = match dpkt d with Some p => handle c now st p | None => (st, OIgnore) end.
Proof.
  unfold handle_dgram, dpkt. destruct (negb (d_pre_ok d)); [reflexivity|].
  destruct (d_rvec d =? VECTOR_ROOT_E131).
  - unfold handle_wire. cbn [with_rev2 w_fvec]. destruct (w_fvec (d_wire d) =? VECTOR_E131_DATA); reflexivity.
  - destruct (d_rvec d =? VECTOR_ROOT_E131_REV2); [|reflexivity].
    unfold handle_wire. cbn [with_rev2 w_fvec]. destruct (w_fvec (d_wire d) =? VECTOR_E131_DATA); reflexivity.
Qed.

Fixpoint drun (c : cfg) (st : ust) (h : list (N * dgram)) : ust :=
  match h with
  | [] => st
  | (now, d) :: r => drun c (fst (handle_dgram c now st d)) r
  end.

Fixpoint dpkts (h : list (N * dgram)) : list (N * pkt) :=
  match h with
  | [] => []
  | (now, d) :: r => match dpkt d with Some p => (now, p) :: dpkts r | None => dpkts r end
  end.

(* a history of datagrams reaches exactly the state of the history of the packets decoded from it *)
Lemma drun_run c h : forall st, drun c st h = run c st (dpkts h).
Proof.
  induction h as [|[now d] h IH]; intros st; cbn [drun dpkts]; [reflexivity|].
  rewrite handle_dgram_spec. destruct (dpkt d); cbn [run fst]; apply IH.
Qed.

Lemma dgram_rev2 w :
  p_rev2 (pkt_of_wire (with_rev2 true w)) = true /\ p_preview (pkt_of_wire (with_rev2 true w)) = false /\
  p_term (pkt_of_wire (with_rev2 true w)) = false.
Proof. repeat split; reflexivity. Qed.

(* ------------------------------------------------------------------ the sACN cap *)
Lemma run_cap c h :
  (length (u_srcs (run c init_ust h)) <= N.to_nat SACN_MAX_MERGE_SOURCES)%nat.
Proof.
  pose proof (grun_tracked c h) as (_ & H & _). rewrite run_grun in H. exact H.
Qed.

Lemma seventh_refused c now st p st' oc :
  (forall s, In s (u_srcs st) -> s_cid s <> p_cid p) ->
  length (expire now (p_cid p) (u_srcs st)) = N.to_nat SACN_MAX_MERGE_SOURCES ->
  p_prio p <= u_active st ->
  handle c now st p = (st', oc) ->
  u_buf st' = u_buf st /\ u_pout st' = u_pout st /\ no_merge oc /\ u_active st' = u_active st /\
  (u_srcs st' = u_srcs st \/ u_srcs st' = expire now (p_cid p) (u_srcs st)) /\
  (forall s, In s (u_srcs st') -> s_cid s <> p_cid p).
Proof.
  intros Hn Hl Hp H. destruct (handle_full c now st p st' oc Hn Hl Hp H) as (A & B & C & D & E).
  repeat split; auto. intros s Hs. destruct E as [E|E]; rewrite E in Hs; [now apply Hn|].
  apply Hn. now apply (expire_in now (p_cid p)).
Qed.

(* ------------------------------------------------------------------ preview flag, both configurations *)
Definition set_preview (b : bool) (p : pkt) : pkt :=
  mkPkt (p_vec p) (p_cid p) (p_prio p) (p_seq p) (p_univ p) b (p_term p) (p_rev2 p) (p_dmph p) (p_pdu p).

Lemma preview_irrelevant c now st p b :
  c_ignore_preview c = false -> handle c now st (set_preview b p) = handle c now st p.
Proof.
  intros H. unfold handle, classify, track. cbn [set_preview p_vec p_cid p_prio p_seq p_univ p_preview p_term p_rev2 p_dmph p_pdu].
  rewrite H, !andb_false_r. reflexivity.
Qed.

(* ------------------------------------------------------------------ priorities above the maximum *)
Lemma prio_cap_dgram c now st d :
  SACN_MAX_PRIORITY < w_prio (d_wire d) -> handle_dgram c now st d = (st, OIgnore).
Proof.
  intros H. rewrite handle_dgram_spec. unfold dpkt.
  destruct (negb (d_pre_ok d)); [reflexivity|].
  destruct (d_rvec d =? VECTOR_ROOT_E131).
  - destruct (w_fvec (d_wire d) =? VECTOR_E131_DATA); [|reflexivity]. apply handle_ignore_prio. exact H.
  - destruct (d_rvec d =? VECTOR_ROOT_E131_REV2); [|reflexivity].
    destruct (w_fvec (d_wire d) =? VECTOR_E131_DATA); [|reflexivity]. apply handle_ignore_prio. exact H.
Qed.

Lemma prio_cap_checker c now k p :
  SACN_MAX_PRIORITY < p_prio p -> fst (fst (fst (cstep c now k true p))) = k /\ snd (fst (fst (cstep c now k true p))) = OIgnore.
Proof.
  intros H. unfold cstep. rewrite (handle_ignore_prio c now (k_st k) p H).
  assert (C : classify c p = None).
  { destruct (classify c p) as [[f s]|] eqn:C; [|reflexivity].
    destruct (classify_some _ _ _ _ C) as (L & _). unfold SACN_MAX_PRIORITY in H. lia. }
  unfold xstep. rewrite C. cbn [is_merge fst snd]. destruct k; split; reflexivity.
Qed.

(* ------------------------------------------------------------------ the Art-Net cap at node level *)
Definition port_shape (p : nport) : Prop :=
  length (ap_srcs (np_port p)) = N.to_nat ARTNET_MAX_MERGE_SOURCES /\ adistinct (ap_srcs (np_port p)).

Lemma port_data_shape net now p k : port_shape p -> port_shape (fst (port_data net now p k)).
Proof.
  intros [L D]. unfold port_data. destruct (np_en p); [|split; assumption].
  unfold port_shape. cbv zeta. cbn [fst np_port]. split; [rewrite art_handle_length; exact L | now apply art_handle_distinct].
Qed.

Lemma upd_nth_forall {A} (P : A -> Prop) (f : A -> A) i l :
  (forall x, P x -> P (f x)) -> Forall P l -> Forall P (upd_nth i f l).
Proof.
  intros Hf H. revert i. induction H as [|x l Hx Hl IH]; intros [|i]; cbn [upd_nth]; constructor; auto.
Qed.

Lemma node_op_shape now nd op :
  Forall port_shape (n_ports nd) -> Forall port_shape (n_ports (fst (node_op now nd op))).
Proof.
  intros H. destruct op as [k|i u|i|i ltp|s|n|b]; cbn [node_op fst n_ports].
  - rewrite map_map. induction H; cbn [map]; constructor; auto. now apply port_data_shape.
  - apply upd_nth_forall; [|exact H]. intros p Hp. destruct (np_en p && _)%bool; exact Hp.
  - apply upd_nth_forall; [|exact H]. intros p Hp. exact Hp.
  - apply upd_nth_forall; [|exact H]. intros p Hp. exact Hp.
  - induction H; cbn [map]; constructor; auto.
  - exact H.
  - exact H.
Qed.

Lemma init_shape : Forall port_shape (n_ports init_node).
Proof.
  unfold init_node. cbn [n_ports]. generalize (N.to_nat ARTNET_MAX_PORTS). intros n.
  induction n; cbn [repeat]; constructor; auto. split; [reflexivity | exact init_distinct].
Qed.

Lemma nrun_shape h : forall nd Gs, Forall port_shape (n_ports nd) -> Forall port_shape (n_ports (fst (nrun nd Gs h))).
Proof.
  induction h as [|[now op] h IH]; intros nd Gs H; cbn [nrun]; [exact H|]. apply IH. now apply node_op_shape.
Qed.

Lemma node_third net now p k :
  (forall s, In s (ap_srcs (np_port p)) -> a_addr s <> k_addr k /\ a_addr s <> 0 /\ now <= a_ts s + 10000000) ->
  port_data net now p k = (p, false).
Proof.
  intros H. unfold port_data. destruct (np_en p) eqn:E; [|reflexivity].
  pose proof (update_port_third (np_ltp p) now (np_port p)) as T.
  assert (A : art_handle (cfg_of net p) now (np_port p) k = (np_port p, false)).
  { unfold art_handle. destruct (len (k_data k) <? 2); [reflexivity|].
    destruct (negb (k_net k =? ac_net (cfg_of net p))); [reflexivity|].
    destruct (negb (k_univ k =? ac_univ (cfg_of net p))); [reflexivity|].
    apply update_port_third. exact H. }
  rewrite A. cbn [fst snd]. destruct p; cbn in *. now rewrite E.
Qed.

(* ------------------------------------------------------------------ the sequence window without range hypotheses on the state *)
Lemma window_behind c h now p s st' oc :
  seqs_bytes h -> p_seq p < 256 ->
  let st := fst (grun c init_ust [] h) in
  In s (u_srcs st) -> s_cid s = p_cid p -> behind (s_seq s) (p_seq p) <= 19 ->
  handle c now st p = (st', oc) ->
  u_buf st' = u_buf st /\ u_pout st' = u_pout st /\ no_merge oc /\ In s (u_srcs st') /\
  (u_srcs st' = u_srcs st \/ u_srcs st' = expire now (p_cid p) (u_srcs st)).
Proof.
  intros B Hp st Hs Hc Hb H.
  eapply handle_behind; eauto using grun_tracked. apply (grun_seq c h B s Hs).
Qed.

Lemma window_terminate c h now p s st' oc :
  seqs_bytes h -> p_seq p < 256 ->
  let st := fst (grun c init_ust [] h) in
  In s (u_srcs st) -> s_cid s = p_cid p -> p_term p = true -> 19 < behind (s_seq s) (p_seq p) ->
  handle c now st p = (st', oc) ->
  (oc = OIgnore /\ st' = st) \/
  exists l1 l2, expire now (p_cid p) (u_srcs st) = l1 ++ s :: l2 /\
    u_srcs st' = l1 ++ l2 /\ oc = OMerge None (negb (is_nil (l1 ++ l2))) /\
    htp_of (map s_buf (l1 ++ l2)) (u_buf st') /\
    (forall x, In x (l1 ++ l2) -> s_cid x <> p_cid p).
Proof.
  intros B Hp st Hs Hc T Hb H.
  eapply handle_terminate; eauto using grun_tracked. apply (grun_seq c h B s Hs).
Qed.
