(* C08: TrackSourceIfRequired when all other live sources share the packet's priority *)
From OlaBase Require Import Bytes.
From C08 Require Import Gen Model Spec ListLemmas SacnTrack SacnProofs.
Local Open Scope N_scope.

Definition oldseq (p : pkt) (s : src) : bool :=
  ((seq_diff (p_seq p) (s_seq s) <=? 0)%Z &&
   (- Z.of_N SEQUENCE_DIFF_THRESHOLD_NEG <? seq_diff (p_seq p) (s_seq s))%Z)%bool.

Definition refreshed (now : N) (p : pkt) (s : src) : src := mkSrc (s_cid s) (p_seq p) now (s_buf s).
Definition newsrc (now : N) (p : pkt) : src := mkSrc (p_cid p) (p_seq p) now [].

Lemma track_flat now p srcs0 active0 :
  NoDup (map s_cid srcs0) ->
  let e := expire now (p_cid p) srcs0 in
  let a := if is_nil e then 0 else active0 in
  let t := track now p srcs0 active0 in
  (p_term p = false -> forall x, In x e -> s_cid x <> p_cid p -> active0 = p_prio p) ->
  (exists l1 s l2, e = l1 ++ s :: l2 /\ s_cid s = p_cid p /\
     ((oldseq p s = true /\ t = TR e a false None) \/
      (oldseq p s = false /\ p_term p = true /\
         t = TR (l1 ++ l2) (if is_nil (l1 ++ l2) then 0 else a) true None) \/
      (oldseq p s = false /\ p_term p = false /\
         t = TR (l1 ++ refreshed now p s :: l2) (p_prio p) true (Some (length l1)))))
  \/
  ((forall x, In x e -> s_cid x <> p_cid p) /\
   ((p_term p = true /\ t = TR e a false None) \/
    (p_term p = false /\ length e = 6%nat /\ t = TR e a false None) \/
    (p_term p = false /\ length e <> 6%nat /\
       t = TR (e ++ [newsrc now p]) (p_prio p) true (Some (length e))))).
Proof.
  intros Hnd e a t H. subst t. unfold track. fold e. fold a.
  pose proof (expire_nodup now (p_cid p) _ Hnd) as He. fold e in He.
  destruct (find_idx (p_cid p) e) as [i|] eqn:F.
  - left. destruct (find_idx_some _ _ _ F) as (l1 & s & l2 & Ee & Hi & Hc & Hn1).
    exists l1, s, l2. split; [exact Ee|]. split; [exact Hc|].
    subst i. rewrite Ee. rewrite nth_middle. fold (oldseq p s).
    destruct (oldseq p s); [left; split; reflexivity|]. right.
    destruct (p_term p) eqn:T.
    { left. rewrite set_nth_mid, remove_nth_mid. repeat split; reflexivity. }
    right. split; [reflexivity|]. split; [reflexivity|].
    rewrite !set_nth_mid. fold (refreshed now p s).
    assert (Ha : a = active0) by (unfold a; rewrite Ee; destruct l1; reflexivity).
    assert (Hoth : l1 ++ l2 <> [] -> active0 = p_prio p).
    { intros Hne. destruct (l1 ++ l2) as [|x r] eqn:E; [congruence|].
      assert (Hx : In x (l1 ++ l2)) by (rewrite E; now left).
      rewrite Ee in He. destruct (nodup_mid _ _ _ He) as [_ Ho].
      apply (H eq_refl x).
      - rewrite Ee. apply in_app_or in Hx. apply in_or_app. cbn [In]. tauto.
      - rewrite <- Hc. now apply Ho. }
    destruct (p_prio p <? a) eqn:Lo.
    + destruct (len (l1 ++ refreshed now p s :: l2) =? 1) eqn:L1; [reflexivity|].
      exfalso. apply len_not_one_mid in L1. apply N.ltb_lt in Lo. rewrite Ha in Lo.
      rewrite (Hoth L1) in Lo. lia.
    + destruct (a <? p_prio p) eqn:Hi.
      * destruct (len (l1 ++ refreshed now p s :: l2) =? 1) eqn:L1; cbn [negb]; [reflexivity|].
        exfalso. apply len_not_one_mid in L1. apply N.ltb_lt in Hi. rewrite Ha in Hi.
        rewrite (Hoth L1) in Hi. lia.
      * apply N.ltb_ge in Lo, Hi. replace a with (p_prio p) by lia. reflexivity.
  - right. pose proof (find_idx_none _ _ F) as Hnone. split; [exact Hnone|].
    destruct (p_term p) eqn:T; cbn [orb]; [left; split; reflexivity|]. right.
    assert (Hoth : e <> [] -> a = p_prio p).
    { intros Hne. destruct e as [|x r] eqn:E; [congruence|]. cbn [is_nil] in a. unfold a.
      apply (H eq_refl x); [now left | apply Hnone; now left]. }
    destruct (p_prio p <? a) eqn:Lo.
    { exfalso. apply N.ltb_lt in Lo. destruct e as [|x r] eqn:E.
      - unfold a in Lo. cbn in Lo. lia.
      - rewrite Hoth in Lo by congruence. lia. }
    destruct (a <? p_prio p) eqn:Hi.
    + right. destruct e as [|x r] eqn:E.
      * split; [reflexivity|]. split; [cbn; lia|]. reflexivity.
      * exfalso. apply N.ltb_lt in Hi. rewrite Hoth in Hi by congruence. lia.
    + apply N.ltb_ge in Lo, Hi. rewrite len_length with (k := 6%nat).
      destruct (Nat.eqb_spec (length e) 6) as [E6|E6].
      * left. repeat split; auto.
      * right. split; [reflexivity|]. split; [exact E6|]. replace a with (p_prio p) by lia. reflexivity.
Qed.
