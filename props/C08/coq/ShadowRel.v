(* C08: the relation between the receiver's tracked sources and the text state with shadow flags *)
From OlaBase Require Import Bytes.
From C08 Require Import Gen Model Spec ListLemmas SacnTrack SacnProofs SeqInv TextSpec TextTrack TextRel
  TextStep TextThm TextCheck.
Local Open Scope N_scope.

(* ------------------------------------------------------------------ shadow flags *)
Lemma dlook_fold (cond : N * trec -> bool) L : forall D0 c,
  dlook (fold_left (fun d e => if cond e then (fst e, true) :: d else d) L D0) c = true <->
  dlook D0 c = true \/ exists e, In e L /\ fst e = c /\ cond e = true.
Proof.
  induction L as [|e L IH]; intros D0 c; cbn [fold_left].
  - split; [auto | intros [H|(e & [] & _)]; exact H].
  - rewrite IH. split.
    + intros [H|(e' & Hi & Hf & Hc)].
      * destruct (cond e) eqn:C; [|now left]. cbn [dlook] in H.
        destruct (fst e =? c) eqn:E; [|now left].
        right. exists e. apply N.eqb_eq in E. split; [now left | auto].
      * right. exists e'. split; [now right | auto].
    + intros [H|(e' & [<-|Hi] & Hf & Hc)].
      * left. destruct (cond e); [|exact H]. cbn [dlook]. destruct (fst e =? c); [reflexivity | exact H].
      * left. rewrite Hc. cbn [dlook]. apply N.eqb_eq in Hf. now rewrite Hf.
      * right. exists e'. auto.
Qed.

Lemma in_others cid T c r : In (c, r) (others cid T) <-> In (c, r) T /\ c <> cid.
Proof.
  unfold others. rewrite filter_In. cbn [fst]. split; intros [A B]; split; auto.
  - apply negb_true_iff, N.eqb_neq in B. exact B.
  - apply negb_true_iff, N.eqb_neq. exact B.
Qed.

Lemma dlook_mark_others now top cid T D0 c :
  dlook (mark_others now top cid T D0) c = true <->
  dlook D0 c = true \/ (c <> cid /\ exists r, In (c, r) T /\ xlive now now r = true /\ t_prio r < top).
Proof.
  unfold mark_others. rewrite dlook_fold. split; intros [H|H]; auto; right.
  - destruct H as ([c' r] & Hi & Hf & Hc). cbn [fst snd] in *. subst c'.
    apply in_others in Hi as [Hi Hne]. apply andb_prop in Hc as [Hx Hp]. apply N.ltb_lt in Hp.
    split; [exact Hne|]. exists r. auto.
  - destruct H as (Hne & r & Hi & Hx & Hp). exists (c, r). cbn [fst snd].
    split; [apply in_others; auto|]. split; [reflexivity|]. rewrite Hx. cbn. now apply N.ltb_lt.
Qed.

(* ------------------------------------------------------------------ topl *)
Lemma topl_const L v : (forall e, In e L -> t_prio (snd e) = v) -> L <> [] -> topl L = v.
Proof.
  induction L as [|[c r] t IH]; intros H Hne; [congruence|]. cbn [topl].
  assert (t_prio r = v) by (apply (H (c, r)); now left).
  destruct t as [|e t'].
  - cbn. lia.
  - rewrite IH; [lia | intros e' He'; apply H; now right | discriminate].
Qed.

Lemma top_group_const L v : (forall e, In e L -> t_prio (snd e) = v) -> top_group L = L.
Proof.
  intros H. destruct L as [|e0 L0] eqn:E; [reflexivity|]. rewrite <- E in *.
  unfold top_group. rewrite (topl_const L v H) by (rewrite E; discriminate).
  clear E. induction L as [|e L IH]; [reflexivity|]. cbn [filter].
  rewrite (H e) by now left. rewrite N.eqb_refl. f_equal. apply IH. intros e' He'. apply H. now right.
Qed.

(* ------------------------------------------------------------------ the relation *)
Definition relx (st : ust) (T : tstate) (D : dmap) (tl : N) : Prop :=
  NoDup (map s_cid (u_srcs st)) /\ (length (u_srcs st) <= 6)%nat /\
  (u_srcs st = [] -> u_active st = 0) /\
  NoDup (map fst T) /\
  (forall s, In s (u_srcs st) ->
     exists r, tlook T (s_cid s) = Some r /\ matches (u_active st) s r /\ dlook D (s_cid s) = false) /\
  (forall cid r, tlook T cid = Some r -> tlive tl r = true -> dlook D cid = false ->
                 exists s, In s (u_srcs st) /\ s_cid s = cid) /\
  (forall s, In s (u_srcs st) -> s_seq s < 256) /\
  (forall cid r, tlook T cid = Some r -> t_time r <= tl).

Lemma relx_init : relx init_ust [] [] 0.
Proof.
  unfold relx, init_ust; cbn [u_srcs u_active map length tlook].
  split; [constructor|]. split; [lia|]. split; [reflexivity|]. split; [constructor|].
  split; [intros s []|]. split; [intros cid r H; discriminate|].
  split; [intros s [] | intros cid r H; discriminate].
Qed.

Lemma relx_mono st T D tl now : relx st T D tl -> tl <= now -> relx st T D now.
Proof.
  intros (A & B & C & E & F & G & H & I) L. repeat (split; [assumption|]). split; [|split; [exact H|]].
  - intros cid r Hr Hl. apply (G cid r Hr). eapply tlive_mono; eauto.
  - intros cid r Hr. specialize (I cid r Hr). lia.
Qed.

Lemma xlive_tlive now r : xlive now now r = true -> tlive now r = true.
Proof.
  unfold xlive, tlive. intros H. apply andb_prop in H as [H H3]. apply andb_prop in H as [H1 _].
  now rewrite H1, H3.
Qed.

Lemma tlive_xlive now r : tlive now r = true -> t_time r <= now -> xlive now now r = true.
Proof.
  unfold xlive, tlive. intros H Ht. apply andb_prop in H as [H1 H3]. rewrite H1, H3.
  replace (t_time r <=? now) with true by (symmetry; now apply N.leb_le). reflexivity.
Qed.

Lemma relx_build st T D tl now cid b po srcs' active' T' D' :
  relx st T D tl -> tl <= now ->
  NoDup (map s_cid srcs') -> (length srcs' <= 6)%nat -> (srcs' = [] -> active' = 0) ->
  NoDup (map fst T') ->
  (forall x, In x srcs' -> s_cid x <> cid ->
     In x (expire now cid (u_srcs st)) /\ active' = u_active st /\ dlook D' (s_cid x) = false) ->
  (forall x, In x (expire now cid (u_srcs st)) -> s_cid x <> cid -> dlook D' (s_cid x) = false ->
     In x srcs') ->
  (forall c', c' <> cid -> tlook T' c' = tlook T c') ->
  (forall c', c' <> cid -> dlook D c' = true -> dlook D' c' = true) ->
  (forall x, In x srcs' -> s_cid x = cid ->
     exists r, tlook T' cid = Some r /\ matches active' x r /\ dlook D' cid = false) ->
  (forall r, tlook T' cid = Some r -> tlive now r = true -> dlook D' cid = false ->
     exists x, In x srcs' /\ s_cid x = cid) ->
  (forall x, In x srcs' -> s_seq x < 256) ->
  (forall r, tlook T' cid = Some r -> t_time r <= now) ->
  relx (mkU b po active' srcs') T' D' now /\
  (forall x, In x srcs' -> s_cid x <> cid ->
     exists r, tlook T' (s_cid x) = Some r /\ tlive now r = true).
Proof.
  intros (Hnd & Hlen & Hnil & HndT & R1 & R2 & Rs & Rt) Htl Hnd' Hlen' Hnil' HndT'
         Hsub Hsup Hoth HD Hsend Hsend2 Hseq Htime.
  assert (Hother : forall x, In x srcs' -> s_cid x <> cid ->
            exists r, tlook T' (s_cid x) = Some r /\ matches active' x r /\ tlive now r = true /\
                      dlook D' (s_cid x) = false).
  { intros x Hx Hc. destruct (Hsub x Hx Hc) as (He & -> & Hd).
    destruct (expire_in _ _ _ _ He) as [Hx0 Hl]. destruct (R1 x Hx0) as (r & Hr & Hm & _).
    exists r. rewrite Hoth by exact Hc. split; [exact Hr|]. split; [exact Hm|]. split; [|exact Hd].
    destruct Hm as (_ & Ht & _ & _ & Ha). unfold tlive. rewrite Ha, Ht. cbn.
    destruct Hl as [Hl|Hl]; [contradiction|]. apply N.leb_le. exact Hl. }
  split.
  - unfold relx. cbn [u_srcs u_active].
    split; [exact Hnd'|]. split; [exact Hlen'|]. split; [exact Hnil'|]. split; [exact HndT'|].
    split; [|split; [|split; [exact Hseq|]]].
    + intros x Hx. destruct (N.eq_dec (s_cid x) cid) as [E|E].
      * destruct (Hsend x Hx E) as (r & Hr & Hm & Hd). exists r. rewrite E. auto.
      * destruct (Hother x Hx E) as (r & Hr & Hm & _ & Hd). eauto.
    + intros c' r Hr Hl Hd. destruct (N.eq_dec c' cid) as [->|E]; [now apply Hsend2 with r|].
      rewrite Hoth in Hr by exact E.
      assert (Hd0 : dlook D c' = false).
      { destruct (dlook D c') eqn:X; [|reflexivity]. rewrite (HD c' E X) in Hd. discriminate. }
      destruct (R2 c' r Hr (tlive_mono _ _ _ Htl Hl) Hd0) as (s0 & Hs0 & Hc0).
      exists s0. split; [|exact Hc0]. apply Hsup; [|congruence|congruence].
      unfold expire. apply filter_In. split; [exact Hs0|].
      destruct (R1 s0 Hs0) as (r0 & Hr0 & (_ & Ht & _) & _). rewrite Hc0, Hr in Hr0. injection Hr0 as <-.
      unfold tlive in Hl. apply andb_prop in Hl as [_ Hl]. apply N.leb_le in Hl.
      apply orb_true_intro. right. apply negb_true_iff, N.ltb_ge. rewrite <- Ht. exact Hl.
    + intros c' r Hr. destruct (N.eq_dec c' cid) as [->|E]; [now apply Htime|].
      rewrite Hoth in Hr by exact E. specialize (Rt c' r Hr). lia.
  - intros x Hx E. destruct (Hother x Hx E) as (r & Hr & _ & Hl & _). eauto.
Qed.

(* ------------------------------------------------------------------ the unshadowed output is the receiver's merge *)
Lemma out_of_htp L : htp_of (map (fun e => t_frame (snd e)) (firstn 6 (top_group L))) (out_of L).
Proof.
  unfold out_of. pose proof (fold_htp_of (fun f : list N => f) (map (fun e => t_frame (snd e)) (firstn 6 (top_group L)))) as H.
  rewrite map_id in H. exact H.
Qed.

Lemma relx_output st T D now out :
  relx st T D now ->
  (forall s, In s (u_srcs st) -> exists r, tlook T (s_cid s) = Some r /\ tlive now r = true) ->
  htp_of (map s_buf (u_srcs st)) out -> out = text_out_unshadowed now T D.
Proof.
  intros (Hnd & Hlen & Hnil & HndT & R1 & R2 & Rs & Rt) Hlive Hout.
  unfold text_out_unshadowed. set (L := vis now now D T).
  assert (HL : forall cid r, In (cid, r) L ->
                 exists s, In s (u_srcs st) /\ s_cid s = cid /\ matches (u_active st) s r).
  { intros cid r Hi. unfold L, vis in Hi. apply filter_In in Hi as [Hi Hc]. cbn [fst snd] in Hc.
    apply andb_prop in Hc as [Hx Hd]. apply negb_true_iff in Hd.
    pose proof (in_tlook _ _ _ HndT Hi) as Hr.
    destruct (R2 cid r Hr (xlive_tlive _ _ Hx) Hd) as (s & Hs & Hc). exists s. split; [exact Hs|].
    split; [exact Hc|]. destruct (R1 s Hs) as (r' & Hr' & Hm & _). rewrite Hc, Hr in Hr'.
    injection Hr' as <-. exact Hm. }
  assert (Hprio : forall e, In e L -> t_prio (snd e) = u_active st).
  { intros [cid r] Hi. destruct (HL cid r Hi) as (_ & _ & _ & (_ & _ & _ & Hp & _)). exact Hp. }
  assert (Hlen6 : (length L <= 6)%nat).
  { eapply Nat.le_trans; [|exact Hlen].
    rewrite <- (map_length fst), <- (map_length s_cid (u_srcs st)).
    apply NoDup_incl_length.
    - unfold L, vis. apply nodup_map_filter. exact HndT.
    - intros k Hk. apply in_map_iff in Hk as ([cid r] & <- & Hi).
      destruct (HL cid r Hi) as (s & Hs & Hc & _). cbn [fst]. rewrite <- Hc. now apply in_map. }
  apply (htp_of_unique (map (fun e => t_frame (snd e)) (firstn 6 (top_group L)))); [|apply out_of_htp].
  eapply htp_of_ext; [|exact Hout].
  rewrite (top_group_const L _ Hprio). rewrite firstn_all2 by exact Hlen6.
  intros f. split.
  - intros Hf. apply in_map_iff in Hf as (s & <- & Hs).
    destruct (Hlive s Hs) as (r & Hr & Lv). destruct (R1 s Hs) as (r' & Hr' & (Hf & _) & Hd).
    rewrite Hr in Hr'. injection Hr' as <-. rewrite <- Hf.
    apply in_map_iff. exists (s_cid s, r). split; [reflexivity|].
    unfold L, vis. apply filter_In. split; [now apply tlook_in|]. cbn [fst snd].
    rewrite Hd. rewrite tlive_xlive; [reflexivity | exact Lv | now apply (Rt (s_cid s))].
  - intros Hf. apply in_map_iff in Hf as ([cid r] & <- & Hi).
    destruct (HL cid r Hi) as (s & Hs & _ & (Hfr & _)). cbn [snd]. rewrite Hfr. now apply in_map.
Qed.

(* ------------------------------------------------------------------ the top of the unshadowed live others *)
(* after the sweep at [now], the unshadowed live sources other than the sender are exactly the other
   tracked sources that survive the sweep; they all carry the active priority *)
Lemma top_others st T D tl now cid :
  relx st T D tl -> tl <= now ->
  let e := expire now cid (u_srcs st) in
  let L := vis now now D (others cid T) in
  (forall c r, In (c, r) L -> exists x, In x e /\ s_cid x = c /\ c <> cid /\ t_prio r = u_active st) /\
  (forall x, In x e -> s_cid x <> cid -> exists r, In (s_cid x, r) L) /\
  topl L = (if existsb (fun x => negb (s_cid x =? cid)) e then u_active st else 0).
Proof.
  intros (Hnd & Hlen & Hnil & HndT & R1 & R2 & Rs & Rt) Htl e L.
  assert (A : forall c r, In (c, r) L ->
            exists x, In x e /\ s_cid x = c /\ c <> cid /\ t_prio r = u_active st).
  { intros c r Hi. unfold L, vis in Hi. apply filter_In in Hi as [Hi Hc]. cbn [fst snd] in Hc.
    apply in_others in Hi as [Hi Hne]. apply andb_prop in Hc as [Hx Hd]. apply negb_true_iff in Hd.
    pose proof (in_tlook _ _ _ HndT Hi) as Hr. pose proof (xlive_tlive _ _ Hx) as Lv.
    destruct (R2 c r Hr (tlive_mono _ _ _ Htl Lv) Hd) as (s & Hs & Hc).
    destruct (R1 s Hs) as (r' & Hr' & (_ & Ht & _ & Hp & _) & _). rewrite Hc, Hr in Hr'. injection Hr' as <-.
    exists s. split; [|auto]. unfold e, expire. apply filter_In. split; [exact Hs|].
    unfold tlive in Lv. apply andb_prop in Lv as [_ Lv]. apply N.leb_le in Lv.
    apply orb_true_intro. right. apply negb_true_iff, N.ltb_ge. rewrite <- Ht. exact Lv. }
  assert (B : forall x, In x e -> s_cid x <> cid -> exists r, In (s_cid x, r) L).
  { intros x Hx Hne. destruct (expire_in _ _ _ _ Hx) as [Hx0 [Hl|Hl]]; [contradiction|].
    destruct (R1 x Hx0) as (r & Hr & (_ & Ht & _ & _ & Ha) & Hd). exists r.
    unfold L, vis. apply filter_In. split; [apply (proj2 (in_others cid T (s_cid x) r)); split; [now apply tlook_in | exact Hne]|].
    cbn [fst snd]. rewrite Hd. unfold xlive. rewrite Ha, Ht. cbn.
    replace (s_last x <=? now) with true.
    - cbn [andb negb]. rewrite ?andb_true_r. apply N.leb_le. exact Hl.
    - symmetry. apply N.leb_le. specialize (Rt _ _ Hr). lia. }
  split; [exact A|]. split; [exact B|].
  destruct (existsb (fun x => negb (s_cid x =? cid)) e) eqn:Ex.
  - apply existsb_exists in Ex as (x & Hx & Hne). apply negb_true_iff, N.eqb_neq in Hne.
    destruct (B x Hx Hne) as (r & Hi).
    apply topl_const; [|intros E; rewrite E in Hi; destruct Hi].
    intros [c r'] Hi'. destruct (A c r' Hi') as (_ & _ & _ & _ & Hp). exact Hp.
  - destruct L as [|[c r] L'] eqn:EL; [reflexivity|]. exfalso.
    destruct (A c r) as (x & Hx & Hc & Hne & _); [now left|].
    assert (existsb (fun x => negb (s_cid x =? cid)) e = true).
    { apply existsb_exists. exists x. split; [exact Hx|]. apply negb_true_iff, N.eqb_neq. congruence. }
    congruence.
Qed.
