(* C08: a specification of the property TEXT for the sACN receiver, independent of the receiver's
   tracked-source table.  Per sender (CID) the text-level history keeps the latest in-sequence frame,
   the priority it carried, the time it was accepted, its sequence number and whether the stream was
   terminated.  A source is live for 2.5 s after its last accepted packet unless terminated; the
   output is the slot-wise maximum of the frames of the live sources at the highest priority among
   live sources, at most 6 of them. *)
From OlaBase Require Import Bytes.
From C08 Require Import Gen Model Spec.
Local Open Scope N_scope.

Record trec := mkT { t_frame : list N; t_prio : N; t_time : N; t_seq : N; t_alive : bool }.
Definition tstate := list (N * trec).

Fixpoint tlook (T : tstate) (cid : N) : option trec :=
  match T with
  | [] => None
  | (c, r) :: t => if c =? cid then Some r else tlook t cid
  end.

Fixpoint tupd (cid : N) (r : trec) (T : tstate) : tstate :=
  match T with
  | [] => [(cid, r)]
  | (c, x) :: t => if c =? cid then (cid, r) :: t else (c, x) :: tupd cid r t
  end.

(* "a source stops counting 2.5 s after its last accepted packet or at once on stream-terminate" *)
Definition tlive (now : N) (r : trec) : bool := t_alive r && (now <=? t_time r + 2500000).

(* "the highest priority seen" among the live sources *)
Fixpoint ttop (now : N) (T : tstate) : N :=
  match T with
  | [] => 0
  | (_, r) :: t => if tlive now r then N.max (t_prio r) (ttop now t) else ttop now t
  end.

Definition tgroup (now : N) (T : tstate) : tstate :=
  filter (fun e => tlive now (snd e) && (t_prio (snd e) =? ttop now T)) T.

(* "no more than the documented number of sources are merged" *)
Definition text_frames (now : N) (T : tstate) : list (list N) :=
  map (fun e => t_frame (snd e)) (firstn 6 (tgroup now T)).

Definition text_out (now : N) (T : tstate) : list N := fold_left htp (text_frames now T) [].

(* one packet, text level.  Packets that are not E1.31 data/terminate packets for this universe, that
   carry a priority above 200, or preview data when so configured, are ignored ([classify]).
   "a packet whose 8-bit sequence number is 0 to 19 behind the last accepted one is discarded"
   (the last accepted one of a source that still counts). *)
Definition tstep (c : cfg) (now : N) (T : tstate) (p : pkt) : tstate :=
  match classify c p with
  | None => T
  | Some (frame, _) =>
    let fresh := mkT frame (p_prio p) now (p_seq p) true in
    match tlook T (p_cid p) with
    | Some r =>
      if tlive now r && (behind (t_seq r) (p_seq p) <=? 19) then T
      else if p_term p then tupd (p_cid p) (mkT (t_frame r) (t_prio r) (t_time r) (t_seq r) false) T
      else tupd (p_cid p) fresh T
    | None => if p_term p then T else tupd (p_cid p) fresh T
    end
  end.

(* Guards: the histories on which the receiver (E1.31 active-priority rule as implemented) is proved
   to produce exactly the text-level output.  Evaluated on the TEXT state only.
   G_seq : a packet 0..19 behind its source's last accepted sequence number arrives while that
           source still counts (departure D3 otherwise: a sender returning after > 2.5 s of silence
           is still subject to the sequence window if no other sender's packet came in between);
   G_flat: when a data packet arrives, every other live source has the same priority (departure D1
           otherwise: sources below the active priority are not tracked, so after a priority
           hand-down a lower-priority source is merged only from its next packet);
   G_cap : at most six sources are live at once (the text does not say which six are merged). *)
Definition live_others (now cid : N) (T : tstate) : tstate :=
  filter (fun e : N * trec => negb (fst e =? cid) && tlive now (snd e)) T.

Definition guard (c : cfg) (now : N) (T : tstate) (p : pkt) : Prop :=
  match classify c p with
  | None => True
  | Some _ =>
    (forall r, tlook T (p_cid p) = Some r -> t_alive r = true ->
               behind (t_seq r) (p_seq p) <= 19 -> now <= t_time r + 2500000) /\
    (p_term p = false ->
       (forall cid r, cid <> p_cid p -> tlook T cid = Some r -> tlive now r = true ->
                      t_prio r = p_prio p) /\
       (length (live_others now (p_cid p) T) <= 5)%nat)
  end.

(* receiver and text-level history side by side; times must not go backwards *)
Fixpoint trun (c : cfg) (T : tstate) (h : list (N * pkt)) : tstate :=
  match h with
  | [] => T
  | (now, p) :: r => trun c (tstep c now T p) r
  end.

Fixpoint guards (c : cfg) (tl : N) (T : tstate) (h : list (N * pkt)) : Prop :=
  match h with
  | [] => True
  | (now, p) :: r => tl <= now /\ guard c now T p /\ guards c now (tstep c now T p) r
  end.

Definition last_time (tl : N) (h : list (N * pkt)) : N := fold_left (fun _ np => fst np) h tl.
