(* C08: the relation between the receiver state and the text-level history, and its preservation *)
From OlaBase Require Import Bytes.
From C08 Require Import Gen Model Spec ListLemmas SacnTrack SacnProofs SeqInv TextSpec TextTrack.
Local Open Scope N_scope.

(* ------------------------------------------------------------------ tlook / tupd *)
Lemma tlook_tupd_same cid r T : tlook (tupd cid r T) cid = Some r.
Proof.
  induction T as [|[c x] t IH]; cbn [tupd tlook].
  - now rewrite N.eqb_refl.
  - destruct (c =? cid) eqn:E; cbn [tlook]; [now rewrite N.eqb_refl | now rewrite E].
Qed.

Lemma tlook_tupd_other cid r T c' : c' <> cid -> tlook (tupd cid r T) c' = tlook T c'.
Proof.
  intros H. induction T as [|[c x] t IH]; cbn [tupd tlook].
  - apply not_eq_sym, N.eqb_neq in H. now rewrite H.
  - destruct (c =? cid) eqn:E; cbn [tlook].
    + apply N.eqb_eq in E. subst c. apply not_eq_sym, N.eqb_neq in H. now rewrite H.
    + destruct (c =? c'); [reflexivity | exact IH].
Qed.

Lemma keys_tupd cid r T k : In k (map fst (tupd cid r T)) -> k = cid \/ In k (map fst T).
Proof.
  induction T as [|[c x] t IH]; cbn [tupd map fst In].
  - intros [<-|[]]. now left.
  - destruct (c =? cid) eqn:E; cbn [map fst In].
    + apply N.eqb_eq in E. subst c. tauto.
    + intros [<-|H]; [tauto | destruct (IH H); tauto].
Qed.

Lemma nodup_tupd cid r T : NoDup (map fst T) -> NoDup (map fst (tupd cid r T)).
Proof.
  induction T as [|[c x] t IH]; cbn [tupd map fst]; intros H.
  - constructor; [intros [] | constructor].
  - inversion H as [|? ? Hn Hd]; subst. destruct (c =? cid) eqn:E; cbn [map fst].
    + apply N.eqb_eq in E. subst c. now constructor.
    + constructor; [|now apply IH]. intros Hi. apply keys_tupd in Hi as [->|Hi]; [|contradiction].
      now rewrite N.eqb_refl in E.
Qed.

Lemma tlook_in T cid r : tlook T cid = Some r -> In (cid, r) T.
Proof.
  induction T as [|[c x] t IH]; cbn [tlook]; [discriminate|].
  destruct (c =? cid) eqn:E.
  - apply N.eqb_eq in E. subst c. intros H. injection H as ->. now left.
  - intros H. right. now apply IH.
Qed.

Lemma in_tlook T cid r : NoDup (map fst T) -> In (cid, r) T -> tlook T cid = Some r.
Proof.
  induction T as [|[c x] t IH]; cbn [tlook map fst]; intros Hnd Hi; [destruct Hi|].
  inversion Hnd as [|? ? Hn Hd]; subst. destruct Hi as [E|Hi].
  - injection E as -> ->. now rewrite N.eqb_refl.
  - destruct (c =? cid) eqn:E; [|now apply IH].
    apply N.eqb_eq in E. subst c. exfalso. apply Hn. change cid with (fst (cid, r)). now apply in_map.
Qed.

Lemma tlive_mono tl now r : tl <= now -> tlive now r = true -> tlive tl r = true.
Proof.
  unfold tlive. intros H E. apply andb_prop in E as [A B]. rewrite A. cbn.
  apply N.leb_le in B. apply N.leb_le. lia.
Qed.

(* ------------------------------------------------------------------ the relation *)
Definition matches (active : N) (s : src) (r : trec) : Prop :=
  t_frame r = s_buf s /\ t_time r = s_last s /\ t_seq r = s_seq s /\ t_prio r = active /\
  t_alive r = true.

Definition rel (st : ust) (T : tstate) (tl : N) : Prop :=
  NoDup (map s_cid (u_srcs st)) /\ (length (u_srcs st) <= 6)%nat /\
  (u_srcs st = [] -> u_active st = 0) /\
  NoDup (map fst T) /\
  (forall s, In s (u_srcs st) -> exists r, tlook T (s_cid s) = Some r /\ matches (u_active st) s r) /\
  (forall cid r, tlook T cid = Some r -> tlive tl r = true ->
                 exists s, In s (u_srcs st) /\ s_cid s = cid) /\
  (forall s, In s (u_srcs st) -> s_seq s < 256).

Lemma rel_init : rel init_ust [] 0.
Proof.
  unfold rel, init_ust; cbn [u_srcs u_active map length tlook].
  split; [constructor|]. split; [lia|]. split; [reflexivity|]. split; [constructor|].
  split; [intros s []|]. split; [intros cid r H; discriminate | intros s []].
Qed.

Lemma rel_build st T tl now cid b po srcs' active' T' :
  rel st T tl -> tl <= now ->
  NoDup (map s_cid srcs') -> (length srcs' <= 6)%nat -> (srcs' = [] -> active' = 0) ->
  NoDup (map fst T') ->
  (forall x, In x srcs' -> s_cid x <> cid ->
     In x (expire now cid (u_srcs st)) /\ active' = u_active st) ->
  (forall x, In x (expire now cid (u_srcs st)) -> s_cid x <> cid -> In x srcs') ->
  (forall c', c' <> cid -> tlook T' c' = tlook T c') ->
  (forall x, In x srcs' -> s_cid x = cid ->
     exists r, tlook T' cid = Some r /\ matches active' x r /\ tlive now r = true) ->
  (forall r, tlook T' cid = Some r -> tlive now r = true -> exists x, In x srcs' /\ s_cid x = cid) ->
  (forall x, In x srcs' -> s_seq x < 256) ->
  rel (mkU b po active' srcs') T' now /\
  (forall x, In x srcs' -> exists r, tlook T' (s_cid x) = Some r /\ tlive now r = true).
Proof.
  intros (Hnd & Hlen & Hnil & HndT & R1 & R2 & Rs) Htl Hnd' Hlen' Hnil' HndT' Hsub Hsup Hoth Hsend Hsend2 Hseq.
  assert (Hother : forall x, In x srcs' -> s_cid x <> cid ->
            exists r, tlook T' (s_cid x) = Some r /\ matches active' x r /\ tlive now r = true).
  { intros x Hx Hc. destruct (Hsub x Hx Hc) as [He ->].
    destruct (expire_in _ _ _ _ He) as [Hx0 Hl]. destruct (R1 x Hx0) as (r & Hr & Hm).
    exists r. rewrite Hoth by exact Hc. split; [exact Hr|]. split; [exact Hm|].
    destruct Hm as (_ & Ht & _ & _ & Ha). unfold tlive. rewrite Ha, Ht. cbn.
    destruct Hl as [Hl|Hl]; [contradiction|]. apply N.leb_le. exact Hl. }
  split.
  - unfold rel. cbn [u_srcs u_active].
    split; [exact Hnd'|]. split; [exact Hlen'|]. split; [exact Hnil'|]. split; [exact HndT'|].
    split; [|split; [|exact Hseq]].
    + intros x Hx. destruct (N.eq_dec (s_cid x) cid) as [E|E].
      * destruct (Hsend x Hx E) as (r & Hr & Hm & _). exists r. rewrite E. auto.
      * destruct (Hother x Hx E) as (r & Hr & Hm & _). eauto.
    + intros c' r Hr Hl. destruct (N.eq_dec c' cid) as [->|E]; [now apply Hsend2 with r|].
      rewrite Hoth in Hr by exact E.
      destruct (R2 c' r Hr (tlive_mono _ _ _ Htl Hl)) as (s0 & Hs0 & Hc0).
      exists s0. split; [|exact Hc0]. apply Hsup; [|congruence].
      unfold expire. apply filter_In. split; [exact Hs0|].
      destruct (R1 s0 Hs0) as (r0 & Hr0 & (_ & Ht & _)). rewrite Hc0, Hr in Hr0. injection Hr0 as <-.
      unfold tlive in Hl. apply andb_prop in Hl as [_ Hl]. apply N.leb_le in Hl.
      apply orb_true_intro. right. apply negb_true_iff, N.ltb_ge. rewrite <- Ht. exact Hl.
  - intros x Hx. destruct (N.eq_dec (s_cid x) cid) as [E|E].
    + destruct (Hsend x Hx E) as (r & Hr & _ & Hl). exists r. rewrite E. auto.
    + destruct (Hother x Hx E) as (r & Hr & _ & Hl). eauto.
Qed.
