(* C08: one inflator with several universes and API calls in mid-history projects to each universe's own run *)
From OlaBase Require Import Bytes.
From C08 Require Import Gen Model Spec.
Local Open Scope N_scope.

Lemma ilook_iset_same u st S : ilook (iset u st S) u = Some st.
Proof.
  induction S as [|[v x] t IH]; cbn [iset ilook].
  - now rewrite N.eqb_refl.
  - destruct (v =? u) eqn:E; cbn [ilook]; [now rewrite N.eqb_refl | now rewrite E].
Qed.

Lemma ilook_iset_other u st S u' : u' <> u -> ilook (iset u st S) u' = ilook S u'.
Proof.
  intros H. induction S as [|[v x] t IH]; cbn [iset ilook].
  - apply not_eq_sym, N.eqb_neq in H. now rewrite H.
  - destruct (v =? u) eqn:E; cbn [ilook].
    + apply N.eqb_eq in E. subst v. apply not_eq_sym, N.eqb_neq in H. now rewrite H.
    + destruct (v =? u'); [reflexivity | exact IH].
Qed.

Lemma ilook_idel_same u S : ilook (idel u S) u = None.
Proof.
  induction S as [|[v x] t IH]; cbn [idel ilook]; [reflexivity|].
  destruct (v =? u) eqn:E; [exact IH | cbn [ilook]; now rewrite E].
Qed.

Lemma ilook_idel_other u S u' : u' <> u -> ilook (idel u S) u' = ilook S u'.
Proof.
  intros H. induction S as [|[v x] t IH]; cbn [idel ilook]; [reflexivity|].
  destruct (v =? u) eqn:E.
  - apply N.eqb_eq in E. subst v. apply not_eq_sym, N.eqb_neq in H. now rewrite H.
  - cbn [ilook]. destruct (v =? u'); [reflexivity | exact IH].
Qed.

(* what ONE universe sees of an operation: its own packets and its own registrations only *)
Definition ustep (ignore_preview : bool) (u now : N) (o : option ust) (op : iop) : option ust :=
  match op with
  | IPkt p =>
    if p_univ p =? u
    then option_map (fun st => fst (handle (mkCfg ignore_preview u) now st p)) o
    else o
  | IReg v fresh =>
    if v =? u
    then Some (match o with None => init_ust | Some st => if fresh then rebuffer st else st end)
    else o
  | IUnreg v => if v =? u then None else o
  end.

Lemma inflator_op_proj ip now S op u :
  ilook (fst (inflator_op ip now S op)) u = ustep ip u now (ilook S u) op.
Proof.
  destruct op as [p|v fresh|v]; cbn [inflator_op ustep].
  - destruct (N.eqb_spec (p_univ p) u) as [->|Hne].
    + destruct (ilook S u) as [st|] eqn:L; cbn [fst option_map]; [apply ilook_iset_same | exact L].
    + destruct (ilook S (p_univ p)) as [st|]; cbn [fst]; [|reflexivity].
      apply ilook_iset_other. now apply not_eq_sym.
  - cbn [fst]. destruct (N.eqb_spec v u) as [->|Hne].
    + destruct (ilook S u) as [st|] eqn:L; [|apply ilook_iset_same].
      destruct fresh; [apply ilook_iset_same | exact L].
    + destruct (ilook S v) as [st|]; [destruct fresh|]; try reflexivity;
        apply ilook_iset_other; now apply not_eq_sym.
  - cbn [fst]. destruct (N.eqb_spec v u) as [->|Hne]; [apply ilook_idel_same|].
    apply ilook_idel_other. now apply not_eq_sym.
Qed.

Fixpoint irun (ip : bool) (S : istate) (h : list (N * iop)) : istate :=
  match h with
  | [] => S
  | (now, op) :: r => irun ip (fst (inflator_op ip now S op)) r
  end.

Fixpoint urun (ip : bool) (u : N) (o : option ust) (h : list (N * iop)) : option ust :=
  match h with
  | [] => o
  | (now, op) :: r => urun ip u (ustep ip u now o op) r
  end.

(* per-universe independence *)
Lemma irun_proj ip h : forall S u, ilook (irun ip S h) u = urun ip u (ilook S u) h.
Proof.
  induction h as [|[now op] h IH]; intros S u; cbn [irun urun]; [reflexivity|].
  rewrite IH, inflator_op_proj. reflexivity.
Qed.

(* SetHandler again keeps the sources; with the same output objects it changes nothing at all *)
Lemma rereg_keeps ip now S u st fresh :
  ilook S u = Some st ->
  exists st', ilook (fst (inflator_op ip now S (IReg u fresh))) u = Some st' /\
              u_srcs st' = u_srcs st /\ u_active st' = u_active st /\ (fresh = false -> st' = st).
Proof.
  intros L. rewrite inflator_op_proj. cbn [ustep]. rewrite N.eqb_refl, L.
  destruct fresh; eexists; split; try reflexivity; cbn; auto. repeat split; auto. discriminate.
Qed.

(* a packet for another universe is ignored by this universe's handler *)
Lemma handle_other_univ ip u now st p : p_univ p <> u -> handle (mkCfg ip u) now st p = (st, OIgnore).
Proof.
  intros H. unfold handle, classify. cbn [c_univ c_ignore_preview].
  destruct (negb (p_vec p =? DMP_SET_PROPERTY_VECTOR)); [reflexivity|].
  destruct (p_preview p && ip)%bool; [reflexivity|].
  apply N.eqb_neq in H. rewrite H. reflexivity.
Qed.

(* between registrations, a universe's projection is the single-universe receiver run over ALL packets *)
Lemma urun_packets ip u h : forall st,
  urun ip u (Some st) (map (fun np : N * pkt => (fst np, IPkt (snd np))) h) = Some (run (mkCfg ip u) st h).
Proof.
  induction h as [|[now p] h IH]; intros st; cbn [map urun run fst snd ustep]; [reflexivity|].
  destruct (N.eqb_spec (p_univ p) u) as [E|E]; cbn [option_map].
  - apply IH.
  - rewrite (handle_other_univ ip u now st p E). cbn [fst]. apply IH.
Qed.
