(* C08: sACN receiver — invariant, output, ignore and terminate lemmas for every packet history *)
From OlaBase Require Import Bytes.
From C08 Require Import Gen Model Spec ListLemmas SacnTrack.
Local Open Scope N_scope.

Lemma merge_sources_spec srcs old :
  htp_of (map s_buf srcs) (fst (merge_sources srcs old)) /\
  snd (merge_sources srcs old) = negb (is_nil srcs).
Proof.
  destruct srcs as [|s [|s2 r]]; cbn [merge_sources fst snd is_nil negb].
  - split; [apply htp_of_nil | reflexivity].
  - split; [apply htp_of_single | reflexivity].
  - split; [apply (fold_htp_of s_buf (s :: s2 :: r)) | reflexivity].
Qed.

(* a packet that passes the pre-tracking checks has priority <= 200, is not ignored preview data,
   and carries start code 0 unless it is a terminate *)
Lemma classify_some c p frame sc0 :
  classify c p = Some (frame, sc0) ->
  p_prio p <= 200 /\ (p_preview p && c_ignore_preview c)%bool = false /\
  (p_term p = false -> sc0 = true).
Proof.
  unfold classify.
  destruct (negb (p_vec p =? DMP_SET_PROPERTY_VECTOR)); [discriminate|].
  destruct (p_preview p && c_ignore_preview c)%bool eqn:Pv; [discriminate|].
  destruct (negb (p_univ p =? c_univ c)); [discriminate|].
  destruct (negb (dmp_header_ok (p_dmph p))); [discriminate|].
  destruct (SACN_MAX_PRIORITY <? p_prio p) eqn:Pr; [discriminate|].
  destruct (decode_addr (p_pdu p)) as [[[start incr] number]|]; [|discriminate].
  destruct (negb (incr =? 1)); [discriminate|].
  cbv zeta.
  match goal with
  | |- context [if (negb (?sc =? 0)%Z && negb (p_term p))%bool then _ else _] => set (SC := sc)
  end.
  destruct (negb (SC =? 0)%Z && negb (p_term p))%bool eqn:G; [discriminate|].
  intros H. injection H as <- <-.
  split; [unfold SACN_MAX_PRIORITY in Pr; lia|]. split; [reflexivity|].
  intros T. rewrite T in G. destruct (SC =? 0)%Z; cbn in G; congruence.
Qed.

Lemma handle_cases c now st p :
  handle c now st p = (st, OIgnore) \/
  (p_prio p <= 200 /\ (p_preview p && c_ignore_preview c)%bool = false /\
   exists frame sc0, (p_term p = false -> sc0 = true) /\ classify c p = Some (frame, sc0) /\
     handle c now st p = apply_track st frame sc0 (track now p (u_srcs st) (u_active st))).
Proof.
  unfold handle. destruct (classify c p) as [[frame sc0]|] eqn:C; [|now left].
  right. destruct (classify_some _ _ _ _ C) as (H1 & H2 & H3).
  split; [exact H1|]. split; [exact H2|]. exists frame, sc0. auto.
Qed.

Definition live_after (now : N) (p : pkt) (st' : ust) : Prop :=
  forall s, In s (u_srcs st') -> s_cid s = p_cid p \/ now <= s_last s + EXPIRY_INTERVAL_US.

Definition step_post (now : N) (p : pkt) (st st' : ust) (oc : outcome) : Prop :=
  match oc with
  | OMerge acc cb =>
    live_after now p st' /\
    htp_of (map s_buf (u_srcs st')) (u_buf st') /\ cb = negb (is_nil (u_srcs st')) /\
    u_pout st' = u_active st' /\
    (forall s, In s (u_srcs st') -> s_cid s = p_cid p ->
               s_last s = now /\ acc = Some (s_buf s) /\ u_active st' = p_prio p) /\
    (forall s, In s (u_srcs st') -> s_cid s <> p_cid p -> In s (u_srcs st))
  | ODiscard =>
    live_after now p st' /\
    u_buf st' = u_buf st /\ u_pout st' = u_pout st /\
    u_srcs st' = expire now (p_cid p) (u_srcs st)
  | OIgnore => st' = st
  end.

Lemma apply_track_ok now p st g frame sc0 st' oc :
  tracked_ok st g -> p_prio p <= 200 -> (p_term p = false -> sc0 = true) ->
  apply_track st frame sc0 (track now p (u_srcs st) (u_active st)) = (st', oc) ->
  tracked_ok st' (gstep g now p oc) /\ step_post now p st st' oc.
Proof.
  intros (Hnd & Hlen & Hg & Hnil & Hact) Hp Hsc H.
  pose proof (track_char now p (u_srcs st) (u_active st) Hnd Hlen) as TC.
  pose proof (expire_nodup now (p_cid p) _ Hnd) as He.
  pose proof (expire_length now (p_cid p) (u_srcs st)) as Hel.
  unfold track_post in TC.
  set (e := expire now (p_cid p) (u_srcs st)) in *.
  set (a := if is_nil e then 0 else u_active st) in *.
  assert (Ha200 : a <= 200) by (unfold a; destruct (is_nil e); lia).
  assert (Hge : forall x, In x e ->
            glook g (s_cid x) = Some (mkG (s_buf x) a (s_last x)) /\
            (s_cid x = p_cid p \/ now <= s_last x + EXPIRY_INTERVAL_US)).
  { intros x Hx. destruct (expire_in _ _ _ _ Hx) as [Hx0 Hlive]. split; [|exact Hlive].
    unfold a. destruct e; [destruct Hx|]. cbn [is_nil]. now apply Hg. }
  destruct (track now p (u_srcs st) (u_active st)) as [srcs active [] tgt]; cbn [apply_track] in H.
  - destruct tgt as [i|].
    + (* data accepted for the sender *)
      destruct TC as (T & -> & l1 & s & l2 & -> & Hi & Hc & Hl & Hsub & Hnd' & Hor & Hlen').
      rewrite (Hsc T) in H. subst i. rewrite nth_middle, set_nth_mid in H.
      injection H as <- <-. unfold tracked_ok, step_post, live_after.
      cbn [gstep u_srcs u_active u_buf u_pout].
      set (s' := mkSrc (s_cid s) (s_seq s) (s_last s) frame) in *.
      destruct (nodup_mid _ _ _ Hnd') as [_ Hoth].
      assert (Hin' : forall x, In x (l1 ++ s' :: l2) -> x = s' \/ In x (l1 ++ l2)).
      { intros x Hx. apply in_app_or in Hx. cbn [In] in Hx. rewrite in_app_iff. intuition. }
      destruct (merge_sources_spec (l1 ++ s' :: l2) (u_buf st)) as [Hm Hcb].
      split; [split; [|split; [|split; [|split]]] | split; [|split; [|split; [|split; [|split]]]]].
      * eapply nodup_replace with (s := s); [reflexivity | exact Hnd'].
      * rewrite app_length in *. cbn [length] in *. exact Hlen'.
      * intros x Hx. destruct (Hin' x Hx) as [->|Hx'].
        -- cbn [s_cid s_buf s_last s']. rewrite Hc, glook_cons_same, Hl. reflexivity.
        -- rewrite glook_cons_other by (rewrite <- Hc; now apply Hoth).
           destruct (Hge x (Hsub x Hx')) as [Hgx _]. rewrite Hgx.
           destruct Hor as [E|E]; [rewrite E in Hx'; destruct Hx' | now rewrite E].
      * intros E. destruct l1; discriminate E.
      * exact Hp.
      * intros x Hx. destruct (Hin' x Hx) as [->|Hx']; [left; exact Hc|].
        now apply Hge, Hsub.
      * exact Hm.
      * rewrite Hcb. reflexivity.
      * reflexivity.
      * intros x Hx Hcx. destruct (Hin' x Hx) as [->|Hx'].
        -- cbn [s' s_last s_buf]. auto.
        -- exfalso. apply (Hoth x Hx'). congruence.
      * intros x Hx Hcx. destruct (Hin' x Hx) as [->|Hx'].
        -- exfalso. apply Hcx. exact Hc.
        -- now apply (expire_in now (p_cid p)), Hsub.
    + (* sender removed (terminate, or lowered priority while others remain) *)
      destruct TC as (l1 & s & l2 & Ee & Hc & -> & ->).
      injection H as <- <-. unfold tracked_ok, step_post, live_after.
      cbn [gstep u_srcs u_active u_buf u_pout].
      rewrite Ee in He. destruct (nodup_mid _ _ _ He) as [Hnd' Hoth].
      assert (Hsub : forall x, In x (l1 ++ l2) -> In x e).
      { intros x Hx. rewrite Ee. apply in_app_or in Hx. apply in_or_app. cbn [In]. tauto. }
      destruct (merge_sources_spec (l1 ++ l2) (u_buf st)) as [Hm Hcb].
      split; [split; [|split; [|split; [|split]]] | split; [|split; [|split; [|split; [|split]]]]].
      * exact Hnd'.
      * rewrite Ee in Hel. rewrite app_length in *. cbn [length] in *. lia.
      * intros x Hx. destruct (Hge x (Hsub x Hx)) as [Hgx _]. rewrite Hgx.
        destruct (l1 ++ l2); [destruct Hx | reflexivity].
      * intros E. rewrite E. reflexivity.
      * destruct (is_nil (l1 ++ l2)); lia.
      * intros x Hx. now apply Hge, Hsub.
      * exact Hm.
      * rewrite Hcb. reflexivity.
      * reflexivity.
      * intros x Hx Hcx. exfalso. apply (Hoth x Hx). congruence.
      * intros x Hx _. now apply (expire_in now (p_cid p)), Hsub.
  - (* discarded *)
    destruct TC as (-> & -> & ->). injection H as <- <-.
    unfold tracked_ok, step_post, live_after. cbn [gstep u_srcs u_active u_buf u_pout].
    split; [split; [|split; [|split; [|split]]] | split; [|split; [|split]]]; auto.
    + lia.
    + intros x Hx. now apply Hge.
    + intros E. unfold a. fold e. rewrite E. reflexivity.
    + intros x Hx. now apply Hge.
Qed.

Lemma handle_ok c now st g p st' oc :
  tracked_ok st g -> handle c now st p = (st', oc) ->
  tracked_ok st' (gstep g now p oc) /\ step_post now p st st' oc.
Proof.
  intros Hinv H. destruct (handle_cases c now st p) as [E|(Hp & _ & frame & sc0 & Hsc & _ & E)].
  - rewrite E in H. injection H as <- <-. cbn [gstep]. split; [exact Hinv | reflexivity].
  - rewrite E in H. eapply apply_track_ok; eauto.
Qed.

Lemma init_ok : tracked_ok init_ust [].
Proof.
  unfold tracked_ok, init_ust; cbn. repeat split; try constructor; try lia; intros s [].
Qed.

(* the invariant holds after every history *)
Lemma grun_ok c h : forall st g, tracked_ok st g -> tracked_ok (fst (grun c st g h)) (snd (grun c st g h)).
Proof.
  induction h as [|[now p] h IH]; intros st g Hinv; cbn [grun]; [exact Hinv|].
  destruct (handle c now st p) as [st' oc] eqn:E.
  apply IH. eapply handle_ok; eauto.
Qed.

(* ------------------------------------------------------------------ ignored packets *)
Lemma handle_ignore_prio c now st p : 200 < p_prio p -> handle c now st p = (st, OIgnore).
Proof.
  intros H. unfold handle. destruct (classify c p) as [[frame sc0]|] eqn:C; [|reflexivity].
  destruct (classify_some _ _ _ _ C) as (H1 & _). lia.
Qed.

Lemma handle_ignore_preview c now st p :
  p_preview p = true -> c_ignore_preview c = true -> handle c now st p = (st, OIgnore).
Proof.
  intros H1 H2. unfold handle. destruct (classify c p) as [[frame sc0]|] eqn:C; [|reflexivity].
  destruct (classify_some _ _ _ _ C) as (_ & H & _). rewrite H1, H2 in H. discriminate.
Qed.

Lemma find_sender cid e s :
  NoDup (map s_cid e) -> In s e -> s_cid s = cid ->
  exists l1 l2, e = l1 ++ s :: l2 /\ find_idx cid e = Some (length l1).
Proof.
  intros Hnd Hi Hc. destruct (find_idx_in _ _ _ Hi Hc) as [i F].
  destruct (find_idx_some _ _ _ F) as (l1 & s0 & l2 & -> & <- & Hc0 & Hn1).
  exists l1, l2. split; [|exact F]. f_equal. f_equal.
  apply in_app_or in Hi as [Hi|[Hi|Hi]].
  - exfalso. exact (Hn1 _ Hi Hc).
  - exact Hi.
  - exfalso. destruct (nodup_mid _ _ _ Hnd) as [_ Hoth].
    apply (Hoth s); [apply in_or_app; now right | congruence].
Qed.

Lemma behind_old last seq :
  last < 256 -> seq < 256 -> behind last seq <= 19 ->
  ((seq_diff seq last <=? 0)%Z && (- Z.of_N SEQUENCE_DIFF_THRESHOLD_NEG <? seq_diff seq last)%Z)%bool = true.
Proof.
  unfold behind, seq_diff, SEQUENCE_DIFF_THRESHOLD_NEG. intros H1 H2 H3.
  destruct (N.eq_dec last seq) as [->|Hne].
  - replace ((seq + 256 - seq) mod 256) with 0 by (replace (seq + 256 - seq) with 256 by lia; reflexivity).
    reflexivity.
  - assert (E : (seq + 256 - last) mod 256 = 256 - (last + 256 - seq) mod 256).
    { destruct (N.lt_ge_cases seq last).
      - rewrite (N.mod_small (seq + 256 - last)) by lia.
        replace (last + 256 - seq) with (last - seq + 1 * 256) by lia.
        rewrite N.mod_add by lia. rewrite N.mod_small by lia. lia.
      - replace (seq + 256 - last) with (seq - last + 1 * 256) by lia.
        rewrite N.mod_add by lia. rewrite (N.mod_small (seq - last)) by lia.
        rewrite (N.mod_small (last + 256 - seq)) by lia. lia. }
    assert (Hb : (last + 256 - seq) mod 256 <> 0).
    { destruct (N.lt_ge_cases seq last).
      - replace (last + 256 - seq) with (last - seq + 1 * 256) by lia.
        rewrite N.mod_add by lia. rewrite N.mod_small by lia. lia.
      - rewrite N.mod_small by lia. lia. }
    rewrite E. set (b := (last + 256 - seq) mod 256) in *.
    replace (256 - b <? 128) with false by (symmetry; apply N.ltb_ge; lia).
    apply andb_true_intro. split; [apply Z.leb_le | apply Z.ltb_lt]; lia.
Qed.

Lemma behind_new last seq :
  last < 256 -> seq < 256 -> 19 < behind last seq ->
  ((seq_diff seq last <=? 0)%Z && (- Z.of_N SEQUENCE_DIFF_THRESHOLD_NEG <? seq_diff seq last)%Z)%bool = false.
Proof.
  unfold behind, seq_diff, SEQUENCE_DIFF_THRESHOLD_NEG. intros H1 H2 H3.
  assert (Hne : last <> seq).
  { intros ->. replace (seq + 256 - seq) with 256 in H3 by lia. cbn in H3. lia. }
  assert (E : (seq + 256 - last) mod 256 = 256 - (last + 256 - seq) mod 256).
  { destruct (N.lt_ge_cases seq last).
    - rewrite (N.mod_small (seq + 256 - last)) by lia.
      replace (last + 256 - seq) with (last - seq + 1 * 256) by lia.
      rewrite N.mod_add by lia. rewrite N.mod_small by lia. lia.
    - replace (seq + 256 - last) with (seq - last + 1 * 256) by lia.
      rewrite N.mod_add by lia. rewrite (N.mod_small (seq - last)) by lia.
      rewrite (N.mod_small (last + 256 - seq)) by lia. lia. }
  assert (Hlt : (last + 256 - seq) mod 256 < 256) by (apply N.mod_lt; lia).
  rewrite E. set (b := (last + 256 - seq) mod 256) in *.
  destruct (256 - b <? 128) eqn:C.
  - apply N.ltb_lt in C. apply andb_false_intro1. apply Z.leb_gt. lia.
  - apply N.ltb_ge in C. apply andb_false_intro2. apply Z.ltb_ge. lia.
Qed.

(* a packet 0..19 behind from a tracked sender: discarded by TrackSourceIfRequired *)
Lemma track_behind now p srcs active s :
  NoDup (map s_cid srcs) -> In s srcs -> s_cid s = p_cid p ->
  s_seq s < 256 -> p_seq p < 256 -> behind (s_seq s) (p_seq p) <= 19 ->
  track now p srcs active =
  TR (expire now (p_cid p) srcs) (if is_nil (expire now (p_cid p) srcs) then 0 else active) false None.
Proof.
  intros Hnd Hi Hc Hs Hp Hb. unfold track.
  pose proof (expire_nodup now (p_cid p) _ Hnd) as He.
  pose proof (expire_keeps_sender now _ _ _ Hi Hc) as Hie.
  destruct (find_sender _ _ _ He Hie Hc) as (l1 & l2 & Ee & F).
  rewrite F, Ee, nth_middle, behind_old; auto.
Qed.

(* a seventh source that does not outrank the tracked ones is not tracked *)
Lemma track_full now p srcs active :
  (forall s, In s (expire now (p_cid p) srcs) -> s_cid s <> p_cid p) ->
  length (expire now (p_cid p) srcs) = 6%nat -> p_prio p <= active ->
  track now p srcs active = TR (expire now (p_cid p) srcs) active false None.
Proof.
  intros Hn Hl Hp. unfold track.
  set (e := expire now (p_cid p) srcs) in *.
  destruct (find_idx (p_cid p) e) as [i|] eqn:F.
  { destruct (find_idx_some _ _ _ F) as (l1 & s & l2 & Ee & _ & Hc & _).
    exfalso. apply (Hn s); [rewrite Ee; apply in_or_app; right; now left | exact Hc]. }
  destruct e as [|x e']; [discriminate Hl|]. cbn [is_nil].
  destruct (p_term p || (p_prio p <? active))%bool; [reflexivity|].
  replace (active <? p_prio p) with false by (symmetry; apply N.ltb_ge; exact Hp).
  replace (len (x :: e') =? SACN_MAX_MERGE_SOURCES) with true; [reflexivity|].
  symmetry. apply N.eqb_eq. unfold len. rewrite Hl. reflexivity.
Qed.

(* stream-terminate from a tracked sender that is not an old packet: removed at once *)
Lemma track_terminate now p srcs active s :
  NoDup (map s_cid srcs) -> In s srcs -> s_cid s = p_cid p -> p_term p = true ->
  s_seq s < 256 -> p_seq p < 256 -> 19 < behind (s_seq s) (p_seq p) ->
  exists l1 l2, expire now (p_cid p) srcs = l1 ++ s :: l2 /\
    track now p srcs active = TR (l1 ++ l2) (if is_nil (l1 ++ l2) then 0 else active) true None.
Proof.
  intros Hnd Hi Hc T Hs Hp Hb. unfold track.
  pose proof (expire_nodup now (p_cid p) _ Hnd) as He.
  pose proof (expire_keeps_sender now _ _ _ Hi Hc) as Hie.
  destruct (find_sender _ _ _ He Hie Hc) as (l1 & l2 & Ee & F).
  exists l1, l2. split; [exact Ee|].
  rewrite F, Ee, nth_middle, behind_new, T; auto.
  rewrite set_nth_mid, remove_nth_mid.
  replace (is_nil (l1 ++ s :: l2)) with false by (destruct l1; reflexivity).
  reflexivity.
Qed.
