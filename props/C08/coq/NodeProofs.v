(* C08: the Art-Net node (all output ports) against the text-level statement, port by port *)
From OlaBase Require Import Bytes.
From C08 Require Import Gen Model Spec ListLemmas TextThm TextCheck ArtProofs ArtDistinct ArtText ArtStep.
Local Open Scope N_scope.

(* text level: every enabled output port has its own view (its address, its merge mode) *)
Definition ntext_data (net now : N) (p : nport) (G : agst) (k : apkt) : agst * option (list N) :=
  if np_en p then atext_step (cfg_of net p) now G k else (G, None).

Definition ntext_op (now : N) (nd : node) (Gs : list agst) (op : nop) : list agst :=
  match op with
  | NData k => map (fun pg => fst (ntext_data (n_net nd) now (fst pg) (snd pg) k)) (combine (n_ports nd) Gs)
  | _ => Gs
  end.

Definition ports_inv (tl : N) (ps : list nport) (Gs : list agst) : Prop :=
  Forall2 (fun p G => ainv (np_port p) G tl) ps Gs.

Lemma ports_inv_mono tl now ps Gs : ports_inv tl ps Gs -> tl <= now -> ports_inv now ps Gs.
Proof. intros H L. induction H; constructor; auto. eapply ainv_mono; eauto. Qed.

(* one ArtDmx packet, every port *)
Lemma node_data_ok net now tl ps Gs k :
  ports_inv tl ps Gs -> tl <= now -> k_addr k <> 0 ->
  Forall2 (fun p G =>
     let r := port_data net now p k in
     let t := ntext_data net now p G k in
     ainv (np_port (fst r)) (fst t) now /\
     (snd t = None <-> snd r = false) /\
     (forall out, snd t = Some out -> ap_buf (np_port (fst r)) = out) /\
     (np_en p = false -> fst r = p)) ps Gs.
Proof.
  intros H Htl Hz. induction H as [|p G ps Gs Hp _ IH]; constructor; [|exact IH].
  unfold port_data, ntext_data. destruct (np_en p) eqn:En.
  - destruct (art_handle (cfg_of net p) now (np_port p) k) as [ap cb] eqn:E1.
    destruct (atext_step (cfg_of net p) now G k) as [G' o] eqn:E2. cbn [fst snd np_port].
    destruct (astep_ok _ _ _ _ _ _ _ _ _ _ Hp Htl Hz E1 E2) as (A & B & C).
    split; [exact A|]. split; [exact B|]. split; [exact C|]. intros E; discriminate E.
  - cbn [fst snd]. split; [eapply ainv_mono; eauto|]. split; [tauto|].
    split; [intros out E; discriminate E | reflexivity].
Qed.

Lemma upd_nth_inv {A} (R : A -> agst -> Prop) (f : A -> A) i ps Gs :
  (forall p G, R p G -> R (f p) G) -> Forall2 R ps Gs -> Forall2 R (upd_nth i f ps) Gs.
Proof.
  intros Hf H. revert i. induction H as [|p G ps Gs Hp Hr IH]; intros [|i]; cbn [upd_nth]; constructor; auto.
Qed.

Lemma map_inv {A} (R : A -> agst -> Prop) (f : A -> A) ps Gs :
  (forall p G, R p G -> R (f p) G) -> Forall2 R ps Gs -> Forall2 R (map f ps) Gs.
Proof. intros Hf H. induction H; cbn [map]; constructor; auto. Qed.

Definition data_ok (op : nop) : Prop := match op with NData k => k_addr k <> 0 | _ => True end.

Lemma node_op_inv now tl nd Gs op :
  ports_inv tl (n_ports nd) Gs -> tl <= now -> data_ok op ->
  ports_inv now (n_ports (fst (node_op now nd op))) (ntext_op now nd Gs op).
Proof.
  intros H Htl Hd. destruct op as [k|i u|i|i ltp|s|n|b]; cbn [node_op ntext_op fst n_ports].
  - pose proof (node_data_ok (n_net nd) now tl _ _ k H Htl Hd) as F. clear H.
    induction F as [|p G ps Gs (A & _) _ IH]; cbn [map combine]; constructor; [exact A | exact IH].
  - apply upd_nth_inv; [|eapply ports_inv_mono; eauto]. intros p G R.
    destruct (np_en p && _)%bool; exact R.
  - apply upd_nth_inv; [|eapply ports_inv_mono; eauto]. intros p G R. exact R.
  - apply upd_nth_inv; [|eapply ports_inv_mono; eauto]. intros p G R. exact R.
  - apply map_inv; [|eapply ports_inv_mono; eauto]. intros p G R. exact R.
  - eapply ports_inv_mono; eauto.
  - eapply ports_inv_mono; eauto.
Qed.

(* histories of node operations *)
Fixpoint nrun (nd : node) (Gs : list agst) (h : list (N * nop)) : node * list agst :=
  match h with
  | [] => (nd, Gs)
  | (now, op) :: r => nrun (fst (node_op now nd op)) (ntext_op now nd Gs op) r
  end.

Fixpoint nguards (tl : N) (h : list (N * nop)) : Prop :=
  match h with
  | [] => True
  | (now, op) :: r => tl <= now /\ data_ok op /\ nguards now r
  end.

Definition nlast (tl : N) (h : list (N * nop)) : N := fold_left (fun _ x => fst x) h tl.

Definition init_ghosts : list agst := repeat [] (N.to_nat ARTNET_MAX_PORTS).

Lemma init_ports_inv : ports_inv 0 (n_ports init_node) init_ghosts.
Proof.
  unfold init_node, init_ghosts. cbn [n_ports]. generalize (N.to_nat ARTNET_MAX_PORTS). intros n.
  induction n; cbn [repeat]; constructor; auto. exact ainv_init.
Qed.

Lemma nrun_inv h : forall nd Gs tl,
  ports_inv tl (n_ports nd) Gs -> nguards tl h ->
  ports_inv (nlast tl h) (n_ports (fst (nrun nd Gs h))) (snd (nrun nd Gs h)).
Proof.
  induction h as [|[now op] h IH]; intros nd Gs tl I G; cbn [nrun nlast fold_left]; [exact I|].
  cbn [nguards] in G. destruct G as (Htl & Hd & Gr). apply IH; [|exact Gr]. now apply (node_op_inv now tl).
Qed.

Lemma node_refines h now k :
  nguards 0 h -> nlast 0 h <= now -> k_addr k <> 0 ->
  let nd := fst (nrun init_node init_ghosts h) in
  let Gs := snd (nrun init_node init_ghosts h) in
  fst (node_op now nd (NData k)) =
    mkN (n_net nd) (map (fun p => fst (port_data (n_net nd) now p k)) (n_ports nd)) /\
  snd (node_op now nd (NData k)) = map (fun p => snd (port_data (n_net nd) now p k)) (n_ports nd) /\
  Forall2 (fun p G =>
     let r := port_data (n_net nd) now p k in
     let t := ntext_data (n_net nd) now p G k in
     (snd t = None <-> snd r = false) /\
     (forall out, snd t = Some out -> ap_buf (np_port (fst r)) = out) /\
     (np_en p = false -> fst r = p)) (n_ports nd) Gs.
Proof.
  intros G Hl Hz nd Gs. split; [|split].
  - cbn [node_op fst]. now rewrite map_map.
  - cbn [node_op snd]. now rewrite map_map.
  - pose proof (nrun_inv h init_node init_ghosts 0 init_ports_inv G) as I. fold nd Gs in I.
    pose proof (node_data_ok (n_net nd) now _ _ _ k I Hl Hz) as F.
    clear I. induction F as [|p g ps gs (_ & B & C & D) _ IH]; constructor; auto.
Qed.
