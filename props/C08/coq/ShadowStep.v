(* C08: one packet preserves the relation with shadow flags, for every packet under G_cap *)
From OlaBase Require Import Bytes.
From C08 Require Import Gen Model Spec ListLemmas SacnTrack SacnProofs SeqInv TextSpec TextTrack TextRel
  TextStep TextThm TextCheck ShadowRel ShadowTrack.
Local Open Scope N_scope.

Definition fresh_rec (now : N) (p : pkt) (frame : list N) : trec :=
  mkT frame (p_prio p) now (p_seq p) true.
Definition killed (r : trec) : trec := mkT (t_frame r) (t_prio r) (t_time r) (t_seq r) false.

Lemma a_nonempty {A} (e : list A) (x : A) (v : N) : In x e -> (if is_nil e then 0 else v) = v.
Proof. destruct e; [intros [] | reflexivity]. Qed.

(* only the sweep happened on the receiver side; the text side kept or killed the sender's record *)
Lemma relx_sweep st T D tl now cid T' b po :
  relx st T D tl -> tl <= now ->
  let e := expire now cid (u_srcs st) in
  NoDup (map fst T') ->
  (forall c', c' <> cid -> tlook T' c' = tlook T c') ->
  (forall x, In x e -> s_cid x = cid -> tlook T' cid = tlook T cid) ->
  (forall r, tlook T' cid = Some r -> tlive now r = true -> dlook D cid = false ->
     exists x, In x e /\ s_cid x = cid) ->
  (forall r, tlook T' cid = Some r -> t_time r <= now) ->
  relx (mkU b po (if is_nil e then 0 else u_active st) e) T' D now.
Proof.
  intros R Htl e HT' Hoth Hsame Hs2 Htime.
  pose proof R as (Hnd & Hlen & Hnil & HndT & R1 & R2 & Rs & Rt).
  refine (proj1 (relx_build st T D tl now cid b po e _ T' D R Htl _ _ _ HT' _ _ Hoth _ _ Hs2 _ Htime)).
  - apply expire_nodup. exact Hnd.
  - pose proof (expire_length now cid (u_srcs st)). unfold e. lia.
  - intros ->. reflexivity.
  - intros x Hx Hne. split; [exact Hx|]. split; [now apply (a_nonempty e x)|].
    destruct (expire_in _ _ _ _ Hx) as [Hx0 _]. destruct (R1 x Hx0) as (r & _ & _ & Hd). exact Hd.
  - intros x Hx _ _. exact Hx.
  - intros c' _ H. exact H.
  - intros x Hx Hc. destruct (expire_in _ _ _ _ Hx) as [Hx0 _].
    destruct (R1 x Hx0) as (r & Hr & Hm & Hd). exists r. rewrite (Hsame x Hx Hc).
    rewrite Hc in Hr, Hd. rewrite (a_nonempty e x) by exact Hx.
    split; [exact Hr|]. split; [exact Hm | exact Hd].
  - intros x Hx. destruct (expire_in _ _ _ _ Hx) as [Hx0 _]. now apply Rs.
Qed.

Lemma nodup_tupd' cid r T : NoDup (map fst T) -> NoDup (map fst (tupd cid r T)).
Proof. apply nodup_tupd. Qed.

(* the sender's accepted packet leaves it (or makes it) shadowed: the tracked sources are the others *)
Lemma relx_accept_shadowed st T D tl now p frame srcs' b po :
  relx st T D tl -> tl <= now ->
  let cid := p_cid p in
  let e := expire now cid (u_srcs st) in
  let T' := tupd cid (fresh_rec now p frame) T in
  let D' := mark_others now (u_active st) cid T ((cid, true) :: D) in
  NoDup (map s_cid srcs') -> srcs' <> [] ->
  (forall x, In x srcs' <-> In x e /\ s_cid x <> cid) ->
  relx (mkU b po (u_active st) srcs') T' D' now /\
  (forall x, In x srcs' -> exists r, tlook T' (s_cid x) = Some r /\ tlive now r = true).
Proof.
  intros R Htl cid e T' D' Hnd' Hne Hiff.
  pose proof R as (Hnd & Hlen & Hnil & HndT & R1 & R2 & Rs & Rt).
  destruct (accept_flags st T D tl now cid true (u_active st) R Htl) as (F4 & F3 & F5). fold D' in F4, F3, F5.
  assert (Hlen' : (length srcs' <= 6)%nat).
  { eapply Nat.le_trans; [|exact Hlen]. rewrite <- (map_length s_cid srcs'), <- (map_length s_cid (u_srcs st)).
    apply NoDup_incl_length; [exact Hnd'|]. intros k Hk. apply in_map_iff in Hk as (x & <- & Hx).
    apply Hiff in Hx as [Hx _]. apply in_map. now apply (expire_in now cid). }
  destruct (relx_build st T D tl now cid b po srcs' (u_active st) T' D' R Htl Hnd' Hlen') as [RX LV].
  - intros E. congruence.
  - now apply nodup_tupd.
  - intros x Hx Hc. apply Hiff in Hx as [Hx _]. split; [exact Hx|]. split; [reflexivity|].
    destruct (dlook D' (s_cid x)) eqn:X; [|reflexivity]. apply (F5 x Hx Hc) in X. lia.
  - intros x Hx Hc _. apply Hiff. auto.
  - intros c' Hc. now apply tlook_tupd_other.
  - exact F3.
  - intros x Hx Hc. apply Hiff in Hx as [_ Hx]. contradiction.
  - intros r _ _ Hd. rewrite F4 in Hd. discriminate.
  - intros x Hx. apply Hiff in Hx as [Hx _]. apply Rs. now apply (expire_in now cid).
  - intros r Hr. unfold T' in Hr. rewrite tlook_tupd_same in Hr. injection Hr as <-. cbn. lia.
  - split; [exact RX|]. intros x Hx. apply LV; [exact Hx|]. apply Hiff in Hx as [_ Hx]. exact Hx.
Qed.

(* the sender's accepted packet is merged: it sits at position |l1| among the kept others *)
Lemma relx_accept st T D tl now p frame l1 l2 top' b po :
  relx st T D tl -> tl <= now -> p_seq p < 256 ->
  let cid := p_cid p in
  let e := expire now cid (u_srcs st) in
  let s' := mkSrc cid (p_seq p) now frame in
  let T' := tupd cid (fresh_rec now p frame) T in
  let D' := mark_others now top' cid T ((cid, false) :: D) in
  NoDup (map s_cid (l1 ++ s' :: l2)) -> (length (l1 ++ s' :: l2) <= 6)%nat ->
  (forall x, In x (l1 ++ l2) ->
     In x e /\ s_cid x <> cid /\ u_active st = p_prio p /\ ~ u_active st < top') ->
  (forall x, In x e -> s_cid x <> cid -> In x (l1 ++ l2) \/ u_active st < top') ->
  relx (mkU b po (p_prio p) (l1 ++ s' :: l2)) T' D' now /\
  (forall x, In x (l1 ++ s' :: l2) -> exists r, tlook T' (s_cid x) = Some r /\ tlive now r = true).
Proof.
  intros R Htl Hp cid e s' T' D' Hnd' Hlen' Hkeep Hdrop.
  pose proof R as (Hnd & Hlen & Hnil & HndT & R1 & R2 & Rs & Rt).
  destruct (accept_flags st T D tl now cid false top' R Htl) as (F4 & F3 & F5). fold D' in F4, F3, F5.
  assert (Hfresh : tlook T' cid = Some (fresh_rec now p frame)) by apply tlook_tupd_same.
  assert (Hin' : forall x, In x (l1 ++ s' :: l2) -> x = s' \/ In x (l1 ++ l2)).
  { intros x Hx. apply in_mid_other in Hx. exact Hx. }
  destruct (relx_build st T D tl now cid b po (l1 ++ s' :: l2) (p_prio p) T' D' R Htl Hnd' Hlen') as [RX LV].
  - intros E. destruct l1; discriminate E.
  - now apply nodup_tupd.
  - intros x Hx Hc. destruct (Hin' x Hx) as [->|Hx']; [exfalso; apply Hc; reflexivity|].
    destruct (Hkeep x Hx') as (He & _ & Ha & Hn). split; [exact He|]. split; [now symmetry|].
    destruct (dlook D' (s_cid x)) eqn:X; [|reflexivity]. apply (F5 x He Hc) in X. contradiction.
  - intros x Hx Hc Hd. destruct (Hdrop x Hx Hc) as [H|H]; [now apply in_other_mid|].
    apply (F5 x Hx Hc) in H. congruence.
  - intros c' Hc. now apply tlook_tupd_other.
  - exact F3.
  - intros x Hx Hc. destruct (Hin' x Hx) as [->|Hx'].
    + exists (fresh_rec now p frame). split; [exact Hfresh|]. split; [|exact F4].
      unfold matches, fresh_rec. cbn. auto.
    + destruct (Hkeep x Hx') as (_ & Hn & _). contradiction.
  - intros r _ _ _. exists s'. split; [apply in_or_app; right; now left | reflexivity].
  - intros x Hx. destruct (Hin' x Hx) as [->|Hx']; [exact Hp|].
    destruct (Hkeep x Hx') as (He & _). apply Rs. now apply (expire_in now cid).
  - intros r Hr. rewrite Hfresh in Hr. injection Hr as <-. cbn. lia.
  - split; [exact RX|]. intros x Hx. destruct (N.eq_dec (s_cid x) cid) as [E|E]; [|now apply LV].
    exists (fresh_rec now p frame). rewrite E. split; [exact Hfresh|].
    unfold tlive, fresh_rec. cbn. apply N.leb_le. lia.
Qed.

(* the tracked sender terminates: removed on both sides *)
Lemma relx_remove st T D tl now cid l1 s l2 r b po :
  relx st T D tl -> tl <= now ->
  expire now cid (u_srcs st) = l1 ++ s :: l2 -> s_cid s = cid -> tlook T cid = Some r ->
  let T' := tupd cid (killed r) T in
  relx (mkU b po (if is_nil (l1 ++ l2) then 0 else u_active st) (l1 ++ l2)) T' D now /\
  (forall x, In x (l1 ++ l2) -> exists r, tlook T' (s_cid x) = Some r /\ tlive now r = true).
Proof.
  intros R Htl Ee Hc Hr T'.
  pose proof R as (Hnd & Hlen & Hnil & HndT & R1 & R2 & Rs & Rt).
  pose proof (expire_nodup now cid _ Hnd) as He. rewrite Ee in He.
  destruct (nodup_mid _ _ _ He) as [Hnd' Hoth].
  pose proof (expire_length now cid (u_srcs st)) as Hel. rewrite Ee in Hel.
  destruct (relx_build st T D tl now cid b po (l1 ++ l2) (if is_nil (l1 ++ l2) then 0 else u_active st)
              T' D R Htl Hnd') as [RX LV].
  - rewrite app_length in *. cbn [length] in *. lia.
  - intros ->. reflexivity.
  - now apply nodup_tupd.
  - intros x Hx _. split; [rewrite Ee; now apply in_other_mid|].
    split; [destruct (l1 ++ l2); [destruct Hx | reflexivity]|].
    assert (Hx0 : In x (u_srcs st)) by (apply (expire_in now cid); rewrite Ee; now apply in_other_mid).
    destruct (R1 x Hx0) as (r0 & _ & _ & Hd). exact Hd.
  - intros x Hx Hne _. rewrite Ee in Hx. apply in_mid_other in Hx as [->|Hx]; [contradiction | exact Hx].
  - intros c' Hc'. now apply tlook_tupd_other.
  - intros c' _ H. exact H.
  - intros x Hx Hcx. exfalso. apply (Hoth x Hx). congruence.
  - intros r0 Hr0 Hl0. unfold T' in Hr0. rewrite tlook_tupd_same in Hr0. injection Hr0 as <-.
    unfold tlive in Hl0. cbn in Hl0. discriminate.
  - intros x Hx. apply Rs. apply (expire_in now cid). rewrite Ee. now apply in_other_mid.
  - intros r0 Hr0. unfold T' in Hr0. rewrite tlook_tupd_same in Hr0. injection Hr0 as <-.
    cbn. specialize (Rt cid r Hr). lia.
  - split; [exact RX|]. intros x Hx. apply LV; [exact Hx|]. rewrite <- Hc. now apply Hoth.
Qed.

(* ------------------------------------------------------------------ which branch the text-level step takes *)
Definition tu_of (now : N) (T : tstate) (D : dmap) (p : pkt) : N :=
  topl (vis now now D (others (p_cid p) T)).

Definition accepted (now : N) (T : tstate) (D : dmap) (p : pkt) (frame : list N) : tstate * dmap :=
  (tupd (p_cid p) (fresh_rec now p frame) T,
   mark_others now (N.max (p_prio p) (tu_of now T D p)) (p_cid p) T
               ((p_cid p, p_prio p <? tu_of now T D p) :: D)).

Lemma xstep_tracked c now keep acc T D p frame sc0 r :
  classify c p = Some (frame, sc0) ->
  tlook T (p_cid p) = Some r -> t_alive r = true -> dlook D (p_cid p) = false ->
  (behind (t_seq r) (p_seq p) <= 19 -> keep = true ->
     xstep c now keep acc T D p = (T, D, false)) /\
  (19 < behind (t_seq r) (p_seq p) ->
     xstep c now keep acc T D p =
     (if p_term p then (tupd (p_cid p) (killed r) T, D) else accepted now T D p frame, false)).
Proof.
  intros C Hr Ha Hd. unfold xstep. rewrite C, Hr, Hd, Ha. cbn [andb]. split.
  - intros Hb ->. apply N.leb_le in Hb. rewrite Hb.
    destruct (tlive now r); cbn [andb negb]; reflexivity.
  - intros Hb. apply N.leb_gt in Hb. rewrite Hb. rewrite !andb_false_r. cbn [andb].
    destruct (p_term p); reflexivity.
Qed.

Lemma xstep_untracked_rx c now T D p frame sc0 :
  classify c p = Some (frame, sc0) -> p_term p = false ->
  (forall r, tlook T (p_cid p) = Some r -> tlive now r = true -> dlook D (p_cid p) = true) ->
  exists d4, xstep c now false true T D p = (accepted now T D p frame, d4).
Proof.
  intros C T0 Hn. unfold xstep. rewrite C, T0. cbn [negb].
  destruct (tlook T (p_cid p)) as [r|] eqn:Hr; [|eexists; reflexivity].
  destruct (tlive now r) eqn:L.
  - rewrite (Hn r eq_refl L). cbn [andb negb].
    destruct (behind (t_seq r) (p_seq p) <=? 19); cbn [andb]; rewrite ?andb_false_r; eexists; reflexivity.
  - cbn [andb]. rewrite !andb_false_r. eexists; reflexivity.
Qed.

Lemma xstep_untracked_drop c now T D p frame sc0 :
  classify c p = Some (frame, sc0) ->
  exists d4,
    xstep c now true false T D p = (T, D, d4) \/
    (p_term p = true /\ exists r, tlook T (p_cid p) = Some r /\
       xstep c now true false T D p = (tupd (p_cid p) (killed r) T, D, d4)) \/
    (p_term p = false /\ xstep c now true false T D p = (accepted now T D p frame, d4)).
Proof.
  intros C. unfold xstep. rewrite C.
  destruct (tlook T (p_cid p)) as [r|] eqn:Hr.
  - destruct (tlive now r && (behind (t_seq r) (p_seq p) <=? 19)).
    { rewrite andb_false_r. cbn [andb]. exists false. now left. }
    destruct (t_alive r && negb (tlive now r) && (behind (t_seq r) (p_seq p) <=? 19) && true).
    { exists false. now left. }
    exists false. destruct (p_term p) eqn:T0.
    + right. left. split; [reflexivity|]. exists r. auto.
    + right. right. auto.
  - exists false. destruct (p_term p) eqn:T0; [now left | right; right; auto].
Qed.
