(* C08: one ArtDmx packet against the text-level step *)
From OlaBase Require Import Bytes.
From C08 Require Import Gen Model Spec ListLemmas TextThm TextCheck ArtProofs ArtDistinct ArtText.
Local Open Scope N_scope.

Lemma tmo_live now addr t : a_addr t <> addr -> now <= a_ts t + TMO -> tmo now addr t = t.
Proof.
  intros Hne Hl. unfold tmo. apply N.eqb_neq in Hne. rewrite Hne.
  replace (a_ts t + TMO <? now) with false by (symmetry; now apply N.ltb_ge). reflexivity.
Qed.

(* the new slots are the sender's and the (timed-out or kept) other slot z *)
Lemma accept_inv port G tl now addr frame z srcs' m b :
  ainv port G tl -> tl <= now -> addr <> 0 ->
  let me := mkA addr now frame in
  let z' := tmo now addr z in
  In z (ap_srcs port) ->
  (forall t, In t (ap_srcs port) -> t = z \/ ~ (a_addr t <> 0 /\ a_addr t <> addr /\ now <= a_ts t + TMO)) ->
  (forall t, In t srcs' <-> t = me \/ t = z') ->
  length srcs' = 2%nat -> adistinct srcs' ->
  (a_addr z' = 0 \/ (z' = z /\ now <= a_ts z + TMO /\ a_addr z <> addr /\ a_addr z <> 0)) ->
  let G' := aupd addr (frame, now) G in
  ainv (mkP srcs' m b) G' now /\
  (forall f, In f (map a_buf (filter (fun s => negb (a_addr s =? 0)) srcs')) <->
             In f (map (fun e => fst (snd e)) (filter (heard now) G'))).
Proof.
  intros I Htl Hz me z' Hzin Hfree Hiff Hlen Hdist Hz' G'.
  pose proof I as (Hl & Hd & HG & A1 & A2 & A3).
  assert (HG' : NoDup (map fst G')) by now apply nodup_aupd.
  assert (B1 : forall t, In t srcs' -> a_addr t <> 0 ->
                 alook G' (a_addr t) = Some (a_buf t, a_ts t) /\ now <= a_ts t + TMO).
  { intros t Ht Hnz. apply Hiff in Ht as [-> | ->].
    - cbn [a_addr a_buf a_ts me]. split; [apply alook_aupd_same | lia].
    - destruct Hz' as [Z|(E & Lv & Hne & Hnz')]; [contradiction|]. rewrite E.
      split; [|exact Lv]. unfold G'. rewrite alook_aupd_other by exact Hne. now apply A1. }
  assert (B2 : forall a f ts, alook G' a = Some (f, ts) -> now <= ts + TMO ->
                 exists t, In t srcs' /\ a_addr t = a).
  { intros a f ts Hlk Hh. destruct (N.eq_dec a addr) as [-> | Hne].
    - exists me. split; [apply Hiff; now left | reflexivity].
    - unfold G' in Hlk. rewrite alook_aupd_other in Hlk by exact Hne.
      destruct (A2 a f ts Hlk) as (t & Ht & Ha); [lia|].
      pose proof (A3 a _ Hlk) as Hnz. rewrite <- Ha in Hnz, Hne. pose proof (A1 t Ht Hnz) as H1.
      rewrite Ha, Hlk in H1. injection H1 as -> ->.
      destruct (Hfree t Ht) as [-> | Hn]; [|exfalso; apply Hn; auto].
      exists z'. split; [apply Hiff; now right|]. unfold z'. rewrite tmo_live; auto. }
  split.
  - split; [exact Hlen|]. split; [exact Hdist|]. split; [exact HG'|]. split; [|split].
    + intros t Ht Hnz. now apply B1.
    + exact B2.
    + intros a v Hlk. destruct (N.eq_dec a addr) as [-> | Hne]; [exact Hz|].
      unfold G' in Hlk. rewrite alook_aupd_other in Hlk by exact Hne. now apply (A3 a v).
  - intros f. split.
    + intros Hf. apply in_map_iff in Hf as (t & <- & Ht). apply filter_In in Ht as [Ht Hnz].
      apply negb_true_iff, N.eqb_neq in Hnz. destruct (B1 t Ht Hnz) as [Hlk Lv].
      apply in_map_iff. exists (a_addr t, (a_buf t, a_ts t)). split; [reflexivity|].
      apply filter_In. split; [now apply alook_in | now apply heard_spec].
    + intros Hf. apply in_map_iff in Hf as ([a [f' ts]] & <- & Hi). apply filter_In in Hi as [Hi Hh].
      apply heard_spec in Hh. pose proof (in_alook _ _ _ HG' Hi) as Hlk.
      destruct (B2 a f' ts Hlk Hh) as (t & Ht & Ha).
      assert (Hnz : a_addr t <> 0).
      { rewrite Ha. destruct (N.eq_dec a addr) as [-> | Hne]; [exact Hz|].
        unfold G' in Hlk. rewrite alook_aupd_other in Hlk by exact Hne. now apply (A3 a _ Hlk). }
      destruct (B1 t Ht Hnz) as [Hlk' _]. rewrite Ha, Hlk in Hlk'. injection Hlk' as -> _.
      cbn [fst snd]. apply in_map_iff. exists t. split; [reflexivity|]. apply filter_In. split; [exact Ht|].
      apply negb_true_iff, N.eqb_neq. exact Hnz.
Qed.

Lemma astep_ok c now port G tl k port' cb G' o :
  ainv port G tl -> tl <= now -> k_addr k <> 0 ->
  art_handle c now port k = (port', cb) -> atext_step c now G k = (G', o) ->
  ainv port' G' now /\ (o = None <-> cb = false) /\ (forall out, o = Some out -> ap_buf port' = out).
Proof.
  intros I Htl Hz H X. unfold art_handle in H. unfold atext_step in X.
  destruct (len (k_data k) <? 2).
  { injection H as <- <-. injection X as <- <-. split; [eapply ainv_mono; eauto|]. split; [tauto | discriminate]. }
  destruct (negb (k_net k =? ac_net c)).
  { injection H as <- <-. injection X as <- <-. split; [eapply ainv_mono; eauto|]. split; [tauto | discriminate]. }
  destruct (negb (k_univ k =? ac_univ c)).
  { injection H as <- <-. injection X as <- <-. split; [eapply ainv_mono; eauto|]. split; [tauto | discriminate]. }
  set (frame := dmx_set (k_data k) (u16 (N.min (k_lenf k) (len (k_data k))))) in *.
  set (me := mkA (k_addr k) now frame) in *.
  fold (others_heard now (k_addr k) G) in X.
  destruct (others_slots port G tl now (k_addr k) I Htl) as [C1 C2].
  pose proof I as (Hl & Hd & HG & A1 & A2 & A3).
  pose proof (others_nodup now (k_addr k) G HG) as Hon.
  assert (Es : exists x y, ap_srcs port = [x; y]).
  { destruct (ap_srcs port) as [|x [|y [|? ?]]]; try discriminate Hl. eauto. }
  destruct Es as (x & y & Es). pose proof Hd as Hd0.
  rewrite Es in C1, C2, A1, A2, Hd.
  destruct cb.
  - (* accepted *)
    destruct (update_port_shape2 _ _ _ _ _ H) as (j & Hj & Hs' & Hb' & Hwhere).
    destruct (update_port_distinct _ _ _ _ _ Hd0 H) as (Hd' & _).
    rewrite Es in Hj, Hs', Hwhere. cbn [a_addr me] in Hwhere, Hs'.
    assert (Hjfree : forall t, t = nth j [x; y] empty_asrc -> a_addr t <> 0 -> a_addr t <> k_addr k ->
                       now <= a_ts t + TMO -> False).
    { intros t -> Hnz Hne Hlv. destruct Hwhere as [E|[_ Z]]; [contradiction|].
      rewrite tmo_live in Z by assumption. contradiction. }
    set (z := nth (1 - j) [x; y] empty_asrc).
    assert (Hzin : In z [x; y]) by (unfold z; destruct j as [|[|j]]; cbn; auto).
    assert (Hfree : forall t, In t [x; y] ->
              t = z \/ ~ (a_addr t <> 0 /\ a_addr t <> k_addr k /\ now <= a_ts t + TMO)).
    { intros t Ht. unfold z. destruct j as [|[|j]]; [| |cbn in Hj; lia]; cbn [nth Nat.sub];
        destruct Ht as [<-|[<-|[]]]; auto; right; intros (P & Q & R0);
        [apply (Hjfree x) | apply (Hjfree y)]; auto. }
    assert (Hiff : forall t, In t (ap_srcs port') <-> t = me \/ t = tmo now (k_addr k) z).
    { intros t. rewrite Hs'. unfold z. destruct j as [|[|j]]; [| |cbn in Hj; lia]; cbn [nth Nat.sub map set_nth In];
        intuition. }
    assert (Hz' : a_addr (tmo now (k_addr k) z) = 0 \/
                  (tmo now (k_addr k) z = z /\ now <= a_ts z + TMO /\ a_addr z <> k_addr k /\ a_addr z <> 0)).
    { destruct (tmo_cases now (k_addr k) z) as [(Ea & _)|[(_ & Z)|(Ne & Et & Lv)]].
      - exfalso. destruct Hwhere as [E|[Hno _]].
        + assert (Hij : j <> (1 - j)%nat) by (destruct j as [|[|j]]; cbn; lia).
          assert (Hj2 : (1 - j < length [x; y])%nat) by (cbn [length]; lia).
          assert (Hnz : a_addr (nth j [x; y] empty_asrc) <> 0) by (rewrite E; exact Hz).
          apply (Hd j (1 - j)%nat Hj Hj2 Hij Hnz). rewrite E. fold z. now symmetry.
        + apply (Hno z Hzin Ea).
      - now left.
      - destruct (N.eq_dec (a_addr z) 0) as [Z|Z]; [left; now rewrite Et | right; auto]. }
    assert (Hle : (length (others_heard now (k_addr k) G) <= 1)%nat).
    { assert (Hincl : incl (map fst (others_heard now (k_addr k) G)) [a_addr z]).
      { intros a Ha. apply in_map_iff in Ha as ([a' [f ts]] & <- & Hi). cbn [fst].
        destruct (C1 a' f ts Hi) as (t & Ht & Hat & Hne & Hnz & _ & _ & Hlv).
        left. rewrite <- Hat. destruct (Hfree t Ht) as [->|Hn]; [reflexivity|].
        exfalso. apply Hn. rewrite Hat. auto. }
      pose proof (NoDup_incl_length Hon Hincl) as L. rewrite map_length in L. exact L. }
    replace (len (others_heard now (k_addr k) G) <? 2) with true in X
      by (symmetry; apply N.ltb_lt; unfold len; lia).
    injection X as <- <-.
    assert (Hlen' : length (ap_srcs port') = 2%nat) by (rewrite Hs', set_nth_length, map_length; reflexivity).
    rewrite <- Es in Hzin, Hfree.
    destruct (accept_inv port G tl now (k_addr k) frame z (ap_srcs port') (ap_merging port') (ap_buf port')
                I Htl Hz Hzin Hfree Hiff Hlen' Hd' Hz') as [I' Hset].
    split; [destruct port'; exact I'|]. split; [split; discriminate|].
    intros out E. injection E as <-. rewrite Hb'. cbn [a_buf me]. destruct (ac_ltp c); [reflexivity|].
    apply amerge_text; [|exact Hset].
    intros E. assert (Hf : In me (filter (fun s => negb (a_addr s =? 0)) (ap_srcs port'))).
    { apply filter_In. split; [apply Hiff; now left|]. cbn [a_addr me]. apply N.eqb_neq in Hz. now rewrite Hz. }
    rewrite E in Hf. destruct Hf.
  - (* rejected: both slots hold other senders heard within the timeout *)
    destruct (update_port_reject _ _ _ _ _ H) as (Hs' & Hb' & Hall). rewrite Es in Hs', Hall.
    assert (Hx : In x [x; y]) by now left. assert (Hy : In y [x; y]) by (right; now left).
    destruct (Hall x Hx) as (Nx & Zx & Lx & Ex). destruct (Hall y Hy) as (Ny & Zy & Ly & Ey).
    cbn [a_addr me] in *.
    assert (Hge : (2 <= length (others_heard now (k_addr k) G))%nat).
    { assert (Hincl : incl [a_addr x; a_addr y] (map fst (others_heard now (k_addr k) G))).
      { intros a [<-|[<-|[]]]; apply in_map_iff.
        - exists (a_addr x, (a_buf x, a_ts x)). split; [reflexivity|]. apply C2; auto.
        - exists (a_addr y, (a_buf y, a_ts y)). split; [reflexivity|]. apply C2; auto. }
      assert (Hnd2 : NoDup [a_addr x; a_addr y]).
      { constructor; [|constructor; [intros [] | constructor]]. intros [E|[]].
        apply (Hd 1%nat 0%nat); cbn [length nth]; try lia; auto. }
      pose proof (NoDup_incl_length Hnd2 Hincl) as L. rewrite map_length in L. exact L. }
    replace (len (others_heard now (k_addr k) G) <? 2) with false in X
      by (symmetry; apply N.ltb_ge; unfold len; lia).
    injection X as <- <-.
    split; [|split; [tauto | discriminate]].
    cbn [map] in Hs'. rewrite Ex, Ey in Hs'.
    apply (ainv_mono _ _ tl now); [|exact Htl].
    destruct port' as [s1 m1 b1]. cbn [ap_srcs ap_buf] in *. subst s1.
    unfold ainv. cbn [ap_srcs]. rewrite <- Es. exact I.
Qed.

(* histories *)
Fixpoint arun2 (c : acfg) (port : aport) (G : agst) (h : list (N * apkt)) : aport * agst :=
  match h with
  | [] => (port, G)
  | (now, k) :: r => arun2 c (fst (art_handle c now port k)) (fst (atext_step c now G k)) r
  end.

Fixpoint aguards (tl : N) (h : list (N * apkt)) : Prop :=
  match h with
  | [] => True
  | (now, k) :: r => tl <= now /\ k_addr k <> 0 /\ aguards now r
  end.

Definition alast (tl : N) (h : list (N * apkt)) : N := fold_left (fun _ nk => fst nk) h tl.

Lemma arun2_inv c h : forall port G tl,
  ainv port G tl -> aguards tl h -> ainv (fst (arun2 c port G h)) (snd (arun2 c port G h)) (alast tl h).
Proof.
  induction h as [|[now k] h IH]; intros port G tl I Gd; cbn [arun2 alast fold_left]; [exact I|].
  cbn [aguards] in Gd. destruct Gd as (Htl & Hz & Gr).
  destruct (art_handle c now port k) as [port' cb] eqn:E1. destruct (atext_step c now G k) as [G' o] eqn:E2.
  cbn [fst]. apply IH; [|exact Gr]. eapply astep_ok; eauto.
Qed.

Lemma arun2_port c h : forall port G, fst (arun2 c port G h) = arun c port h.
Proof.
  induction h as [|[now k] h IH]; intros port G; cbn [arun2 arun]; [reflexivity | apply IH].
Qed.

Lemma artnet_refines c h now k :
  aguards 0 h -> alast 0 h <= now -> k_addr k <> 0 ->
  let port := arun c init_aport h in
  let G := snd (arun2 c init_aport [] h) in
  (snd (atext_step c now G k) = None <-> snd (art_handle c now port k) = false) /\
  (forall out, snd (atext_step c now G k) = Some out -> ap_buf (fst (art_handle c now port k)) = out).
Proof.
  intros Gd Hl Hz port G.
  pose proof (arun2_inv c h init_aport [] 0 ainv_init Gd) as I.
  rewrite arun2_port in I. fold port G in I.
  destruct (art_handle c now port k) as [port' cb] eqn:E1. destruct (atext_step c now G k) as [G' o] eqn:E2.
  cbn [fst snd]. destruct (astep_ok c now port G _ k port' cb G' o I Hl Hz E1 E2) as (_ & A & B). auto.
Qed.
