(* REGENERATED from the repository headers on every run. Do not edit.  *)
From Coq Require Import NArith.
Local Open Scope N_scope.
Definition DMX_UNIVERSE_SIZE : N := 512.
Definition SACN_MAX_MERGE_SOURCES : N := 6.
Definition SACN_MAX_PRIORITY : N := 200.
Definition SEQUENCE_DIFF_THRESHOLD_NEG : N := 20.
Definition DMP_SET_PROPERTY_VECTOR : N := 2.
Definition DMP_VIRTUAL_MASK : N := 128.
Definition DMP_RELATIVE_MASK : N := 64.
Definition DMP_TYPE_MASK : N := 48.
Definition DMP_SIZE_MASK : N := 3.
Definition DMP_TWO_BYTES : N := 1.
Definition DMP_RANGE_EQUAL : N := 2.
Definition E131_PREVIEW_DATA_MASK : N := 128.
Definition E131_STREAM_TERMINATED_MASK : N := 64.
Definition VECTOR_E131_DATA : N := 2.
Definition VECTOR_ROOT_E131 : N := 4.
Definition VECTOR_ROOT_E131_REV2 : N := 3.
Definition ARTNET_MAX_MERGE_SOURCES : N := 2.
Definition ARTNET_MERGE_TIMEOUT : N := 10.
Definition ARTNET_MAX_PORTS : N := 4.
Definition EXPIRY_INTERVAL_US : N := 2500000.
