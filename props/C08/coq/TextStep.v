(* C08: one packet preserves the relation between receiver and text-level history (under the guards) *)
From OlaBase Require Import Bytes.
From C08 Require Import Gen Model Spec ListLemmas SacnTrack SacnProofs SeqInv TextSpec TextTrack TextRel.
Local Open Scope N_scope.

Lemma rel_mono st T tl now : rel st T tl -> tl <= now -> rel st T now.
Proof.
  intros (A & B & C & D & E & F & G) H. repeat (split; [assumption|]). split; [|exact G].
  intros cid r Hr Hl. apply (F cid r Hr). eapply tlive_mono; eauto.
Qed.

Lemma oldseq_true p s : s_seq s < 256 -> p_seq p < 256 -> oldseq p s = true -> behind (s_seq s) (p_seq p) <= 19.
Proof.
  intros H1 H2 H. destruct (N.le_gt_cases (behind (s_seq s) (p_seq p)) 19) as [L|L]; [exact L|].
  unfold oldseq in H. rewrite behind_new in H by assumption. discriminate.
Qed.

Lemma oldseq_false p s : s_seq s < 256 -> p_seq p < 256 -> oldseq p s = false -> 19 < behind (s_seq s) (p_seq p).
Proof.
  intros H1 H2 H. destruct (N.le_gt_cases (behind (s_seq s) (p_seq p)) 19) as [L|L]; [|exact L].
  unfold oldseq in H. rewrite behind_old in H by assumption. discriminate.
Qed.

Lemma mid_unique l1 (s : src) l2 x :
  NoDup (map s_cid (l1 ++ s :: l2)) -> In x (l1 ++ s :: l2) -> s_cid x = s_cid s -> x = s.
Proof.
  intros Hnd Hx Hc. destruct (nodup_mid _ _ _ Hnd) as [_ Ho].
  apply in_app_or in Hx as [Hx|[Hx|Hx]]; [|auto|].
  - exfalso. apply (Ho x); [apply in_or_app; now left | exact Hc].
  - exfalso. apply (Ho x); [apply in_or_app; now right | exact Hc].
Qed.

Lemma in_mid_other {A} (l1 : list A) y l2 x : In x (l1 ++ y :: l2) -> x = y \/ In x (l1 ++ l2).
Proof. intros H. apply in_app_or in H as [H|[H|H]]; rewrite ?in_app_iff; auto. Qed.

Lemma in_other_mid {A} (l1 : list A) y l2 x : In x (l1 ++ l2) -> In x (l1 ++ y :: l2).
Proof. intros H. apply in_app_or in H. apply in_or_app. cbn [In]. tauto. Qed.

(* six distinct live others contradict G_cap *)
Lemma cap_contra now cid T (e : list src) :
  NoDup (map fst T) -> NoDup (map s_cid e) -> length e = 6%nat ->
  (forall x, In x e -> s_cid x <> cid /\ exists r, tlook T (s_cid x) = Some r /\ tlive now r = true) ->
  (length (live_others now cid T) <= 5)%nat -> False.
Proof.
  intros HT He Hl Hx Hc.
  assert (Hincl : incl (map s_cid e) (map fst (live_others now cid T))).
  { intros k Hk. apply in_map_iff in Hk as (x & <- & Hxe). destruct (Hx x Hxe) as (Hne & r & Hr & Hlv).
    apply in_map_iff. exists (s_cid x, r). split; [reflexivity|].
    unfold live_others. apply filter_In. split; [now apply tlook_in|]. cbn [fst snd].
    apply N.eqb_neq in Hne. rewrite Hne, Hlv. reflexivity. }
  pose proof (NoDup_incl_length He Hincl) as L. rewrite !map_length in L. lia.
Qed.

Definition merge_live (c : cfg) (now : N) (T : tstate) (p : pkt) (st' : ust) (oc : outcome) : Prop :=
  match oc with
  | OMerge _ _ => forall s, In s (u_srcs st') ->
                    exists r, tlook (tstep c now T p) (s_cid s) = Some r /\ tlive now r = true
  | _ => True
  end.

Lemma step_rel c now st T tl p st' oc :
  rel st T tl -> tl <= now -> p_seq p < 256 -> guard c now T p ->
  handle c now st p = (st', oc) ->
  rel st' (tstep c now T p) now /\ merge_live c now T p st' oc.
Proof.
  intros R Htl Hp G H.
  pose proof R as (Hnd & Hlen & Hnil & HndT & R1 & R2 & Rs).
  unfold handle in H. unfold merge_live, tstep. unfold guard in G.
  destruct (classify c p) as [[frame sc0]|] eqn:C.
  2:{ injection H as <- <-. split; [eapply rel_mono; eauto | exact I]. }
  destruct (classify_some _ _ _ _ C) as (Hp200 & _ & Hsc).
  destruct G as [Gseq Gfc].
  pose proof (expire_nodup now (p_cid p) _ Hnd) as He.
  pose proof (expire_length now (p_cid p) (u_srcs st)) as Hel.
  assert (Hein : forall x, In x (expire now (p_cid p) (u_srcs st)) ->
            In x (u_srcs st) /\ s_seq x < 256 /\
            exists r, tlook T (s_cid x) = Some r /\ matches (u_active st) x r /\
                      (s_cid x <> p_cid p -> tlive now r = true)).
  { intros x Hx. destruct (expire_in _ _ _ _ Hx) as [Hx0 Hl]. split; [exact Hx0|]. split; [now apply Rs|].
    destruct (R1 x Hx0) as (r & Hr & Hm). exists r. split; [exact Hr|]. split; [exact Hm|].
    intros Hc. destruct Hl as [Hl|Hl]; [contradiction|].
    destruct Hm as (_ & Ht & _ & _ & Ha). unfold tlive. rewrite Ha, Ht. cbn. now apply N.leb_le. }
  assert (HH : p_term p = false -> forall x, In x (expire now (p_cid p) (u_srcs st)) ->
                 s_cid x <> p_cid p -> u_active st = p_prio p).
  { intros T0 x Hx Hc. destruct (Gfc T0) as [Gflat _].
    destruct (Hein x Hx) as (_ & _ & r & Hr & (_ & _ & _ & Hpr & _) & Hlv).
    rewrite <- Hpr. exact (Gflat (s_cid x) r Hc Hr (Hlv Hc)). }
  assert (Hsend2 : forall r, tlook T (p_cid p) = Some r -> tlive now r = true ->
                     exists x, In x (expire now (p_cid p) (u_srcs st)) /\ s_cid x = p_cid p).
  { intros r Hr Hl. destruct (R2 _ r Hr (tlive_mono _ _ _ Htl Hl)) as (s0 & Hs0 & Hc0).
    exists s0. split; [now apply expire_keeps_sender | exact Hc0]. }
  destruct (track_flat now p (u_srcs st) (u_active st) Hnd HH)
    as [(l1 & s & l2 & Ee & Hc & Hcase) | (Hnone & Hcase)];
    set (e := expire now (p_cid p) (u_srcs st)) in *;
    set (a := if is_nil e then 0 else u_active st) in *.
  - (* the sender is tracked *)
    assert (Hse : In s e) by (rewrite Ee; apply in_or_app; right; now left).
    destruct (Hein s Hse) as (Hs0 & Hs256 & r & Hr & Hm & _). rewrite Hc in Hr. rewrite Hr.
    assert (Ha : a = u_active st) by (unfold a; rewrite Ee; destruct l1; reflexivity).
    assert (Huniq : forall x, In x e -> s_cid x = p_cid p -> x = s).
    { intros x Hx Hcx. rewrite Ee in Hx, He. eapply mid_unique; eauto. congruence. }
    destruct Hm as (Hmf & Hmt & Hms & Hmp & Hma).
    destruct Hcase as [(Hold & Et) | [(Hnew & T0 & Et) | (Hnew & T0 & Et)]];
      rewrite Et in H; cbn [apply_track] in H.
    + (* old packet: discarded by both *)
      injection H as <- <-.
      apply oldseq_true in Hold; auto.
      assert (Hlv : tlive now r = true).
      { unfold tlive. rewrite Hma. cbn. apply N.leb_le. apply Gseq; auto. now rewrite Hms. }
      rewrite Hlv, Hms. replace (behind (s_seq s) (p_seq p) <=? 19) with true
        by (symmetry; now apply N.leb_le). cbn [andb].
      split; [|exact I].
      refine (proj1 (rel_build st T tl now (p_cid p) _ _ e a T R Htl He _ _ HndT _ _ _ _ _ _)).
      * fold e in Hel. lia.
      * unfold a. intros ->. reflexivity.
      * intros x Hx _. split; [exact Hx | exact Ha].
      * intros x Hx _. exact Hx.
      * reflexivity.
      * intros x Hx Hcx. rewrite (Huniq x Hx Hcx). exists r. rewrite Ha.
        repeat split; auto.
      * exact Hsend2.
      * intros x Hx. now apply Hein.
    + (* terminate: removed by both *)
      injection H as <- <-.
      apply oldseq_false in Hnew; auto.
      rewrite Hms. replace (behind (s_seq s) (p_seq p) <=? 19) with false
        by (symmetry; apply N.leb_gt; exact Hnew). rewrite andb_false_r, T0.
      rewrite Ee in He. destruct (nodup_mid _ _ _ He) as [Hnd' Hoth].
      set (T' := tupd (p_cid p) _ T).
      assert (RB : rel (mkU (fst (merge_sources (l1 ++ l2) (u_buf st)))
                            (if is_nil (l1 ++ l2) then 0 else a) (if is_nil (l1 ++ l2) then 0 else a) (l1 ++ l2)) T' now /\
                   (forall x, In x (l1 ++ l2) -> exists r, tlook T' (s_cid x) = Some r /\ tlive now r = true)).
      { refine (rel_build st T tl now (p_cid p) _ _ _ _ T' R Htl _ _ _ _ _ _ _ _ _ _).
        - exact Hnd'.
        - fold e in Hel. rewrite Ee in Hel. rewrite app_length in *. cbn [length] in *. lia.
        - intros ->. reflexivity.
        - now apply nodup_tupd.
        - intros x Hx _. split; [fold e; rewrite Ee; now apply in_other_mid|].
          destruct (l1 ++ l2); [destruct Hx | exact Ha].
        - intros x Hx Hcx. fold e in Hx. rewrite Ee in Hx.
          apply in_mid_other in Hx as [->|Hx]; [contradiction | exact Hx].
        - intros c' Hc'. now apply tlook_tupd_other.
        - intros x Hx Hcx. exfalso. apply (Hoth x Hx). congruence.
        - intros r0 Hr0 Hl0. unfold T' in Hr0. rewrite tlook_tupd_same in Hr0. injection Hr0 as <-.
          unfold tlive in Hl0. cbn in Hl0. discriminate.
        - intros x Hx. apply Hein. fold e. rewrite Ee. now apply in_other_mid. }
      exact RB.
    + (* data: refreshed by both *)
      rewrite (Hsc T0) in H. rewrite nth_middle, set_nth_mid in H. injection H as <- <-.
      apply oldseq_false in Hnew; auto.
      rewrite Hms. replace (behind (s_seq s) (p_seq p) <=? 19) with false
        by (symmetry; apply N.leb_gt; exact Hnew). rewrite andb_false_r, T0.
      rewrite Ee in He. destruct (nodup_mid _ _ _ He) as [Hnd' Hoth].
      set (s' := mkSrc _ _ _ frame). set (T' := tupd (p_cid p) _ T).
      assert (Hfresh : tlook T' (p_cid p) = Some (mkT frame (p_prio p) now (p_seq p) true))
        by (unfold T'; apply tlook_tupd_same).
      assert (RB : rel (mkU (fst (merge_sources (l1 ++ s' :: l2) (u_buf st))) (p_prio p) (p_prio p)
                            (l1 ++ s' :: l2)) T' now /\
                   (forall x, In x (l1 ++ s' :: l2) -> exists r, tlook T' (s_cid x) = Some r /\ tlive now r = true)).
      { refine (rel_build st T tl now (p_cid p) _ _ _ _ T' R Htl _ _ _ _ _ _ _ _ _ _).
        - eapply nodup_replace with (s := s); [reflexivity | exact He].
        - fold e in Hel. rewrite Ee in Hel. rewrite app_length in *. cbn [length] in *. lia.
        - intros E. destruct l1; discriminate E.
        - now apply nodup_tupd.
        - intros x Hx Hcx. apply in_mid_other in Hx as [->|Hx]; [exfalso; apply Hcx; exact Hc |].
          split; [fold e; rewrite Ee; now apply in_other_mid|].
          symmetry. apply (HH T0 x); [fold e; rewrite Ee; now apply in_other_mid | exact Hcx].
        - intros x Hx Hcx. fold e in Hx. rewrite Ee in Hx.
          apply in_mid_other in Hx as [->|Hx]; [contradiction | now apply in_other_mid].
        - intros c' Hc'. now apply tlook_tupd_other.
        - intros x Hx Hcx. apply in_mid_other in Hx as [->|Hx]; [| exfalso; apply (Hoth x Hx); congruence].
          eexists. split; [exact Hfresh|]. split.
          + unfold matches. cbn. auto.
          + unfold tlive. cbn. apply N.leb_le. lia.
        - intros r0 _ _. exists s'. split; [apply in_or_app; right; now left | exact Hc].
        - intros x Hx. apply in_mid_other in Hx as [->|Hx]; [exact Hp |].
          apply Hein. fold e. rewrite Ee. now apply in_other_mid. }
      exact RB.
  - (* the sender is not tracked *)
    assert (Hnotlive : forall r, tlook T (p_cid p) = Some r -> tlive now r = false).
    { intros r Hr. destruct (tlive now r) eqn:L; [|reflexivity]. exfalso.
      destruct (Hsend2 r Hr L) as (x & Hx & Hcx). exact (Hnone x Hx Hcx). }
    assert (Hsweep : forall T', NoDup (map fst T') ->
               (forall c', c' <> p_cid p -> tlook T' c' = tlook T c') ->
               (forall r, tlook T' (p_cid p) = Some r -> tlive now r = false) ->
               rel (mkU (u_buf st) (u_pout st) a e) T' now).
    { intros T' HT' Hsame Hdead.
      refine (proj1 (rel_build st T tl now (p_cid p) _ _ e a T' R Htl He _ _ HT' _ _ Hsame _ _ _)).
      - fold e in Hel. lia.
      - unfold a. intros ->. reflexivity.
      - intros x Hx _. split; [exact Hx|]. unfold a. destruct e; [destruct Hx | reflexivity].
      - intros x Hx _. exact Hx.
      - intros x Hx Hcx. exfalso. exact (Hnone x Hx Hcx).
      - intros r Hr Hl. rewrite (Hdead r Hr) in Hl. discriminate.
      - intros x Hx. now apply Hein. }
    destruct Hcase as [(T0 & Et) | [(T0 & L6 & Et) | (T0 & L6 & Et)]];
      rewrite Et in H; cbn [apply_track] in H.
    + (* terminate from an untracked source *)
      injection H as <- <-. split; [|exact I]. rewrite T0.
      destruct (tlook T (p_cid p)) as [r|] eqn:Hr.
      * rewrite (Hnotlive r eq_refl). cbn [andb].
        apply Hsweep.
        -- now apply nodup_tupd.
        -- intros c' Hc'. now apply tlook_tupd_other.
        -- intros r0 Hr0. rewrite tlook_tupd_same in Hr0. injection Hr0 as <-. reflexivity.
      * apply Hsweep; auto. intros r0 Hr0. rewrite Hr in Hr0. discriminate.
    + (* table full: excluded by G_cap *)
      exfalso. destruct (Gfc T0) as [_ Gcap].
      apply (cap_contra now (p_cid p) T e HndT He L6); [|exact Gcap].
      intros x Hx. split; [now apply Hnone|].
      destruct (Hein x Hx) as (_ & _ & r & Hr & _ & Hlv). exists r. split; [exact Hr|]. apply Hlv. now apply Hnone.
    + (* new source accepted by both *)
      rewrite (Hsc T0) in H. rewrite nth_middle, set_nth_mid in H. cbn [newsrc s_cid s_seq s_last] in H.
      injection H as <- <-.
      assert (Htext : (match tlook T (p_cid p) with
                       | Some r => if tlive now r && (behind (t_seq r) (p_seq p) <=? 19) then T
                                   else if p_term p then tupd (p_cid p) (mkT (t_frame r) (t_prio r) (t_time r) (t_seq r) false) T
                                   else tupd (p_cid p) (mkT frame (p_prio p) now (p_seq p) true) T
                       | None => if p_term p then T else tupd (p_cid p) (mkT frame (p_prio p) now (p_seq p) true) T
                       end) = tupd (p_cid p) (mkT frame (p_prio p) now (p_seq p) true) T).
      { rewrite T0. destruct (tlook T (p_cid p)) as [r|] eqn:Hr; [|reflexivity].
        rewrite (Hnotlive r eq_refl). reflexivity. }
      rewrite Htext. set (s' := mkSrc (p_cid p) (p_seq p) now frame). set (T' := tupd (p_cid p) _ T).
      assert (Hfresh : tlook T' (p_cid p) = Some (mkT frame (p_prio p) now (p_seq p) true))
        by (unfold T'; apply tlook_tupd_same).
      assert (RB : rel (mkU (fst (merge_sources (e ++ [s']) (u_buf st))) (p_prio p) (p_prio p) (e ++ [s'])) T' now /\
                   (forall x, In x (e ++ [s']) -> exists r, tlook T' (s_cid x) = Some r /\ tlive now r = true)).
      { refine (rel_build st T tl now (p_cid p) _ _ _ _ T' R Htl _ _ _ _ _ _ _ _ _ _).
        - apply nodup_snoc; [exact He | exact Hnone].
        - fold e in Hel. rewrite app_length. cbn [length]. lia.
        - intros E. destruct e; discriminate E.
        - now apply nodup_tupd.
        - intros x Hx Hcx. apply in_app_or in Hx as [Hx|[<-|[]]]; [|exfalso; now apply Hcx].
          split; [exact Hx|]. symmetry. now apply (HH T0 x).
        - intros x Hx _. apply in_or_app. now left.
        - intros c' Hc'. now apply tlook_tupd_other.
        - intros x Hx Hcx. apply in_app_or in Hx as [Hx|[<-|[]]]; [exfalso; exact (Hnone x Hx Hcx)|].
          eexists. split; [exact Hfresh|]. split.
          + unfold matches. cbn. auto.
          + unfold tlive. cbn. apply N.leb_le. lia.
        - intros r0 _ _. exists s'. split; [apply in_or_app; right; now left | reflexivity].
        - intros x Hx. apply in_app_or in Hx as [Hx|[<-|[]]]; [now apply Hein | exact Hp]. }
      exact RB.
Qed.
