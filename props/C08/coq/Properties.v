(* C08 obligations.  Statements only; proofs are in SacnTrack/SacnProofs/SacnThms/ArtProofs. *)
From OlaBase Require Import Bytes.
From C08 Require Import Gen Model Spec SacnThms TextSpec TextCheck ShadowThm ArtDistinct ArtStep NodeProofs WireProofs ExtProofs MultiProofs Final.
Local Open Scope N_scope.

(* the property's literal numbers are the constants of the checked-out tree *)
Theorem c08_consts :
  E131_PREVIEW_DATA_MASK = 2 ^ 7 /\ E131_STREAM_TERMINATED_MASK = 2 ^ 6 /\ VECTOR_E131_DATA = 2 /\
  VECTOR_ROOT_E131 = 4 /\ VECTOR_ROOT_E131_REV2 = 3 /\ ARTNET_MAX_PORTS = 4 /\
  EXPIRY_INTERVAL_US = 2500000 /\ SACN_MAX_PRIORITY = 200 /\ SACN_MAX_MERGE_SOURCES = 6 /\
  SEQUENCE_DIFF_THRESHOLD_NEG = 20 /\ ARTNET_MAX_MERGE_SOURCES = 2 /\ ARTNET_MERGE_TIMEOUT = 10 /\
  DMX_UNIVERSE_SIZE = 512.
Proof. exact c08_consts_l. Qed.
Print Assumptions c08_consts.

(* sACN, tracked sources: after EVERY packet history (any senders, gaps, flags) the tracked CIDs are
   distinct, at most 6, each one's stored frame / time is its last accepted data packet and that
   packet carried the active priority (so the active priority is the maximum - indeed the common -
   priority of the tracked sources), the active priority is <= 200 and is 0 when nothing is tracked. *)
Theorem c08_sacn_tracked :
  forall (c : cfg) (h : list (N * pkt)),
    let st := fst (grun c init_ust [] h) in
    let g := snd (grun c init_ust [] h) in
    NoDup (map s_cid (u_srcs st)) /\
    (length (u_srcs st) <= 6)%nat /\
    (forall s, In s (u_srcs st) ->
       glook g (s_cid s) = Some (mkG (s_buf s) (u_active st) (s_last s))) /\
    (u_srcs st = [] -> u_active st = 0) /\
    u_active st <= 200.
Proof. exact c08_sacn_tracked_l. Qed.
Print Assumptions c08_sacn_tracked.

(* sACN, output: whenever a packet (after any history) triggers a merge, the registered buffer is the
   slot-wise maximum of the last accepted frames (ghost history) of exactly the tracked sources - empty
   when none -, the callback runs iff a source remains, the published priority is the active one, no
   tracked source other than the sender was last accepted more than 2.5 s ago, and the sender, if
   tracked, contributes the frame of this very packet at the active priority. *)
Theorem c08_sacn_output :
  forall (c : cfg) (h : list (N * pkt)) (now : N) (p : pkt) (st' : ust) acc cb,
    let st := fst (grun c init_ust [] h) in
    let g := snd (grun c init_ust [] h) in
    handle c now st p = (st', OMerge acc cb) ->
    let g' := gstep g now p (OMerge acc cb) in
    htp_of (map s_buf (u_srcs st')) (u_buf st') /\
    (forall s, In s (u_srcs st') ->
       glook g' (s_cid s) = Some (mkG (s_buf s) (u_active st') (s_last s))) /\
    (forall s, In s (u_srcs st') -> s_cid s <> p_cid p ->
       now <= s_last s + 2500000 /\ In s (u_srcs st)) /\
    (forall s, In s (u_srcs st') -> s_cid s = p_cid p ->
       s_last s = now /\ acc = Some (s_buf s) /\ u_active st' = p_prio p) /\
    cb = negb (is_nil (u_srcs st')) /\ u_pout st' = u_active st' /\
    (length (u_srcs st') <= 6)%nat /\ u_active st' <= 200.
Proof. exact c08_sacn_output_l. Qed.
Print Assumptions c08_sacn_output.

(* sACN, ignored packets, after any history:
   (1) priority above 200 and (2) preview data when so configured: nothing at all changes;
   (3) a packet 0..19 behind the tracked sender's last accepted sequence number and (4) a packet from
   a seventh source that does not outrank the six tracked ones: no merge, no callback, output and
   published priority unchanged; the only state change is that other sources that timed out
   (2.5 s) are dropped from the table. *)
Theorem c08_sacn_ignore :
  forall (c : cfg) (h : list (N * pkt)) (now : N) (p : pkt) (st' : ust) (oc : outcome),
    let st := fst (grun c init_ust [] h) in
    handle c now st p = (st', oc) ->
    (200 < p_prio p -> st' = st /\ oc = OIgnore) /\
    (p_preview p = true -> c_ignore_preview c = true -> st' = st /\ oc = OIgnore) /\
    (forall s, In s (u_srcs st) -> s_cid s = p_cid p -> s_seq s < 256 -> p_seq p < 256 ->
       behind (s_seq s) (p_seq p) <= 19 ->
       u_buf st' = u_buf st /\ u_pout st' = u_pout st /\ no_merge oc /\ In s (u_srcs st') /\
       (u_srcs st' = u_srcs st \/ u_srcs st' = expire now (p_cid p) (u_srcs st))) /\
    ((forall s, In s (u_srcs st) -> s_cid s <> p_cid p) ->
       length (expire now (p_cid p) (u_srcs st)) = 6%nat -> p_prio p <= u_active st ->
       u_buf st' = u_buf st /\ u_pout st' = u_pout st /\ no_merge oc /\ u_active st' = u_active st /\
       (u_srcs st' = u_srcs st \/ u_srcs st' = expire now (p_cid p) (u_srcs st))).
Proof. exact c08_sacn_ignore_l. Qed.
Print Assumptions c08_sacn_ignore.

(* sACN, stream-terminate from a tracked sender (not an old packet), after any history: unless the
   packet is filtered out before source tracking (wrong vector/universe/DMP header, preview, priority
   > 200, malformed address: then nothing changes), the sender is removed at once, the output is
   re-merged as the slot-wise maximum of the remaining sources, and the callback runs iff one remains. *)
Theorem c08_sacn_terminate :
  forall (c : cfg) (h : list (N * pkt)) (now : N) (p : pkt) (s : src) (st' : ust) (oc : outcome),
    let st := fst (grun c init_ust [] h) in
    In s (u_srcs st) -> s_cid s = p_cid p -> p_term p = true ->
    s_seq s < 256 -> p_seq p < 256 -> 19 < behind (s_seq s) (p_seq p) ->
    handle c now st p = (st', oc) ->
    (oc = OIgnore /\ st' = st) \/
    exists l1 l2, expire now (p_cid p) (u_srcs st) = l1 ++ s :: l2 /\
      u_srcs st' = l1 ++ l2 /\ oc = OMerge None (negb (is_nil (l1 ++ l2))) /\
      htp_of (map s_buf (l1 ++ l2)) (u_buf st') /\
      (forall x, In x (l1 ++ l2) -> s_cid x <> p_cid p).
Proof. exact c08_sacn_terminate_l. Qed.
Print Assumptions c08_sacn_terminate.

(* Art-Net, merge: after any history the port has exactly two sender slots with pairwise distinct
   (non-wildcard) addresses; when an ArtDmx packet is accepted (callback ran) the sender occupies one
   slot with this packet's frame and time, every other occupied slot is an unchanged earlier slot of a
   DIFFERENT sender heard within the last 10 s, and the port buffer is the sender's frame in LTP mode
   and the slot-wise maximum of the occupied slots in HTP mode. *)
Theorem c08_artnet_merge :
  forall (c : acfg) (h : list (N * apkt)) (now : N) (k : apkt) (port' : aport),
    let port := arun c init_aport h in
    art_handle c now port k = (port', true) ->
    let frame := dmx_set (k_data k) (u16 (N.min (k_lenf k) (len (k_data k)))) in
    let me := mkA (k_addr k) now frame in
    length (ap_srcs port') = 2%nat /\
    In me (ap_srcs port') /\
    (forall t, In t (ap_srcs port') ->
       t = me \/ a_addr t = 0 \/
       (In t (ap_srcs port) /\ now <= a_ts t + 10000000 /\ a_addr t <> k_addr k)) /\
    adistinct (ap_srcs port') /\
    (ac_ltp c = true -> ap_buf port' = frame) /\
    (ac_ltp c = false -> k_addr k <> 0 ->
       htp_of (map a_buf (filter (fun s => negb (a_addr s =? 0)) (ap_srcs port'))) (ap_buf port')).
Proof. exact c08_artnet_merge_l. Qed.
Print Assumptions c08_artnet_merge.

(* Art-Net, third sender: while every slot holds another sender heard within the last 10 s, a packet
   from a further sender changes nothing (no slot, no buffer, no callback). *)
Theorem c08_artnet_third :
  forall (c : acfg) (now : N) (port : aport) (k : apkt),
    (forall s, In s (ap_srcs port) ->
       a_addr s <> k_addr k /\ a_addr s <> 0 /\ now <= a_ts s + 10000000) ->
    art_handle c now port k = (port, false).
Proof. exact c08_artnet_third_l. Qed.
Print Assumptions c08_artnet_third.

(* sACN, uint8_t range: for every history of packets whose sequence numbers are bytes, every stored
   sequence number is a byte (discharges the range hypotheses of c08_sacn_ignore / _terminate). *)
Theorem c08_sacn_seq_range :
  forall (c : cfg) (h : list (N * pkt)),
    (forall np, In np h -> p_seq (snd np) < 256) ->
    forall s, In s (u_srcs (fst (grun c init_ust [] h))) -> s_seq s < 256.
Proof. exact c08_sacn_seq_range_l. Qed.
Print Assumptions c08_sacn_seq_range.

(* sACN, refinement of the property TEXT (TextSpec.v: per CID the latest in-sequence frame, priority,
   last-accepted time, terminated flag; live = not terminated and within 2.5 s; output = slot-wise
   maximum over the live sources at the highest priority among live sources, at most 6).
   For every history with non-decreasing times that satisfies the guards of TextSpec.guard at every
   packet (G_seq, G_flat, G_cap - evaluated on the text-level state only), whenever the receiver
   merges, its buffer EQUALS the text-level output.  PARTIAL: the guards are sufficient, not
   necessary; in particular G_flat (all concurrently live sources share one priority whenever a data
   packet arrives) excludes every history with concurrent different priorities, not only those on
   which the implemented hand-over rule departs from the text (Examples ex_departure_* below). *)
Theorem c08_sacn_refines_text_partial :
  forall (c : cfg) (h : list (N * pkt)) (now : N) (p : pkt) (st' : ust) acc cb,
    (forall np, In np h -> p_seq (snd np) < 256) -> p_seq p < 256 ->
    guards c 0 [] h -> last_time 0 h <= now -> guard c now (trun c [] h) p ->
    handle c now (run c init_ust h) p = (st', OMerge acc cb) ->
    u_buf st' = text_out now (tstep c now (trun c [] h) p).
Proof. exact c08_sacn_refines_text_partial_l. Qed.
Print Assumptions c08_sacn_refines_text_partial.

(* the instance checker the driver evaluates after every packet (TextCheck.v): verdict 0 is exactly
   "registered buffer = text-level output"; verdict 1 (departure D1, known finding hand-down gap) means
   the buffer differs from the text output and equals the text output without the shadowed sources;
   verdict 2 (departure D2, stale after discard) means no merge happened on this packet and the buffer
   is the unshadowed text output of the last merge, which is no longer the current one; and the
   checker's text state is TextSpec.tstep whenever the sender is not shadowed and G_seq holds. *)
Theorem c08_text_checker :
  (forall merged frozen now T D buf,
     verdict merged frozen now T D buf = 0 <-> buf = text_out now T) /\
  (forall merged frozen now T D buf,
     verdict merged frozen now T D buf = 1 ->
     buf <> text_out now T /\ buf = text_out_unshadowed now T D) /\
  (forall merged frozen now T D buf,
     verdict merged frozen now T D buf = 2 ->
     merged = false /\ buf <> text_out now T /\ buf = frozen /\ buf <> text_out_unshadowed now T D) /\
  (forall c now keep rx T D p,
     dlook D (p_cid p) = false ->
     (forall r, tlook T (p_cid p) = Some r -> t_alive r = true ->
                behind (t_seq r) (p_seq p) <= 19 -> now <= t_time r + 2500000) ->
     fst (fst (xstep c now keep rx T D p)) = tstep c now T p).
Proof. exact c08_text_checker_l. Qed.
Print Assumptions c08_text_checker.

(* sACN, wire level: a framing-layer packet as decoded by E131Inflator (ratified layout) carries
   preview = bit 7 and stream-terminated = bit 6 of the options byte, whatever the other bits (force
   synchronisation, reserved) are; the rev-2 layout has neither.  A wire packet is either dropped
   before the merger (framing vector is not the data vector) or handled exactly as the decoded packet,
   so c08_sacn_ignore / c08_sacn_terminate / c08_sacn_output apply with p := pkt_of_wire w; in
   particular a set preview bit is ignored when so configured regardless of every other option bit. *)
Theorem c08_sacn_wire :
  (forall w, p_preview (pkt_of_wire w) = negb (w_rev2 w) && N.testbit (w_opts w) 7) /\
  (forall w, p_term (pkt_of_wire w) = negb (w_rev2 w) && N.testbit (w_opts w) 6) /\
  (forall c now st w,
     handle_wire c now st w = (st, OIgnore) \/
     handle_wire c now st w = handle c now st (pkt_of_wire w)) /\
  (forall c now st w,
     w_rev2 w = false -> N.testbit (w_opts w) 7 = true -> c_ignore_preview c = true ->
     handle_wire c now st w = (st, OIgnore)).
Proof. exact c08_sacn_wire_l. Qed.
Print Assumptions c08_sacn_wire.

(* sACN, exact refinement of the property text.  [cstep] (TextCheck.v) is the loop the driver runs: the
   receiver model, the text-level state with shadow flags and the verdict after EVERY packet (data,
   discarded, ignored, non-data framing PDUs).  For every history with non-decreasing times, byte
   sequence numbers and G_cap at every data packet (at most five unshadowed live other sources when a
   packet arrives at their priority - beyond that the text does not say which six are merged) the
   verdict is never 3: after every packet the registered buffer equals the text-level output
   (verdict 0), or the text-level output without the shadowed sources (verdict 1 = known finding
   hand-down gap), or - on a packet that triggered no merge - the unshadowed output of the last merge
   (verdict 2 = known finding stale after discard); see c08_text_checker for what the verdicts assert.
   The text state follows the receiver at the two documented points (sequence window of a timed-out
   source: text ambiguity; behind-packet of a shadowed source accepted: known finding sequence window
   forgotten, flag d4).  Proved through the invariant: tracked sources = live, unshadowed text sources,
   all at the active priority (ShadowRel.relx). *)
Theorem c08_sacn_refines_text :
  forall (c : cfg) (h : hist),
    cguards c 0 init_cst h ->
    forall v, In v (cverdicts c init_cst h) -> v = 0 \/ v = 1 \/ v = 2.
Proof. exact c08_sacn_refines_text_l. Qed.
Print Assumptions c08_sacn_refines_text.

(* Art-Net, refinement of the property text (TextCheck.atext_step: per sender address the last
   accepted frame and its time; a packet is let in iff fewer than two OTHER senders were heard within
   the last 10 s; the output is that frame in LTP mode and the slot-wise maximum over the
   senders heard within 10 s in HTP mode).  For every history with non-decreasing times whose sender
   addresses are not the wildcard 0.0.0.0 (the receiver's empty-slot marker; explicit guard), the next
   packet runs the data callback iff the text lets it in, and then the port buffer EQUALS the text-level
   output; a packet the text refuses (third concurrent sender, or not an ArtDmx for this port)
   runs no callback (that it changes nothing at all is c08_artnet_third).  The merge mode is that of the configuration [c] throughout. *)
Theorem c08_artnet_refines_text :
  forall (c : acfg) (h : list (N * apkt)) (now : N) (k : apkt),
    aguards 0 h -> alast 0 h <= now -> k_addr k <> 0 ->
    let port := arun c init_aport h in
    let G := snd (arun2 c init_aport [] h) in
    (snd (atext_step c now G k) = None <-> snd (art_handle c now port k) = false) /\
    (forall out, snd (atext_step c now G k) = Some out -> ap_buf (fst (art_handle c now port k)) = out).
Proof. exact c08_artnet_refines_text_l. Qed.
Print Assumptions c08_artnet_refines_text.

(* Art-Net, node level: the node has four output ports, each with its own address, merge mode and
   enabled flag, all changeable in mid-history (SetOutputPortUniverse, DisableOutputPort, SetMergeMode,
   SetSubnetAddress, SetNetAddress).  After every history of such operations and ArtDmx packets
   (non-decreasing times, no 0.0.0.0 sender) the next ArtDmx packet is offered to EVERY port
   independently: for each port the data callback runs iff that port is enabled and its own text-level
   view (its address, its mode, the senders IT heard within 10 s) lets the packet in, and that port's
   buffer then equals its text-level HTP/LTP output; a disabled port is untouched.  In particular two
   enabled ports with the same address both receive the packet, each merging in its own mode. *)
Theorem c08_artnet_node :
  forall (h : list (N * nop)) (now : N) (k : apkt),
    nguards 0 h -> nlast 0 h <= now -> k_addr k <> 0 ->
    let nd := fst (nrun init_node init_ghosts h) in
    let Gs := snd (nrun init_node init_ghosts h) in
    fst (node_op now nd (NData k)) =
      mkN (n_net nd) (map (fun p => fst (port_data (n_net nd) now p k)) (n_ports nd)) /\
    snd (node_op now nd (NData k)) = map (fun p => snd (port_data (n_net nd) now p k)) (n_ports nd) /\
    Forall2 (fun p G =>
       let r := port_data (n_net nd) now p k in
       let t := ntext_data (n_net nd) now p G k in
       (snd t = None <-> snd r = false) /\
       (forall out, snd t = Some out -> ap_buf (np_port (fst r)) = out) /\
       (np_en p = false -> fst r = p)) (n_ports nd) Gs.
Proof. exact c08_artnet_node_l. Qed.
Print Assumptions c08_artnet_node.

(* sACN, whole datagrams (IncomingUDPTransport -> RootInflator -> E131Inflator / E131InflatorRev2 ->
   DMPE131Inflator): a datagram is dropped unless it starts with the ACN preamble, its root vector is
   VECTOR_ROOT_E131 (ratified framing) or VECTOR_ROOT_E131_REV2 (revision-2 framing: no preview, no
   terminate) and its framing vector is the data vector; otherwise it is handled exactly as the decoded
   packet, by the SAME merger.  A history of datagrams reaches exactly the state of the history of the
   packets decoded from it, so every history theorem above holds for datagram histories. *)
Theorem c08_sacn_datagram :
  (forall c now st d,
     handle_dgram c now st d = match dpkt d with Some p => handle c now st p | None => (st, OIgnore) end) /\
  (forall c h st, drun c st h = run c st (dpkts h)) /\
  (forall w, p_rev2 (pkt_of_wire (with_rev2 true w)) = true /\
             p_preview (pkt_of_wire (with_rev2 true w)) = false /\
             p_term (pkt_of_wire (with_rev2 true w)) = false).
Proof. exact c08_sacn_datagram_l. Qed.
Print Assumptions c08_sacn_datagram.

(* sACN, "no more than the documented number of sources are merged": after EVERY history of packets, and
   of datagrams, at most MAX_MERGE_SOURCES (regenerated from DMPE131Inflator.h) sources are tracked -
   and the merge is over the tracked sources (c08_sacn_output); a packet from a further source that does
   not outrank a full table is refused: buffer, published priority, active priority unchanged, no
   callback, the newcomer is not tracked (only timed-out sources may be swept). *)
Theorem c08_sacn_cap :
  (forall c (h : list (N * pkt)),
     (length (u_srcs (run c init_ust h)) <= N.to_nat SACN_MAX_MERGE_SOURCES)%nat) /\
  (forall c (h : list (N * dgram)),
     (length (u_srcs (drun c init_ust h)) <= N.to_nat SACN_MAX_MERGE_SOURCES)%nat) /\
  (forall c now st p st' oc,
     (forall s, In s (u_srcs st) -> s_cid s <> p_cid p) ->
     length (expire now (p_cid p) (u_srcs st)) = N.to_nat SACN_MAX_MERGE_SOURCES ->
     p_prio p <= u_active st ->
     handle c now st p = (st', oc) ->
     u_buf st' = u_buf st /\ u_pout st' = u_pout st /\ no_merge oc /\ u_active st' = u_active st /\
     (u_srcs st' = u_srcs st \/ u_srcs st' = expire now (p_cid p) (u_srcs st)) /\
     (forall s, In s (u_srcs st') -> s_cid s <> p_cid p)).
Proof. exact c08_sacn_cap_l. Qed.
Print Assumptions c08_sacn_cap.

(* sACN, preview flag in both configurations: when the receiver is configured NOT to ignore preview
   data the flag has no influence at all (same state, same outcome as the packet without / with the
   flag); when it is configured to ignore it, a wire packet with option bit 7 set changes nothing. *)
Theorem c08_sacn_preview :
  (forall c now st p b,
     c_ignore_preview c = false -> handle c now st (set_preview b p) = handle c now st p) /\
  (forall c now st w,
     w_rev2 w = false -> N.testbit (w_opts w) 7 = true -> c_ignore_preview c = true ->
     handle_wire c now st w = (st, OIgnore)).
Proof. exact c08_sacn_preview_l. Qed.
Print Assumptions c08_sacn_preview.

(* sACN, "priorities above 200 are ignored" (MAX_E131_PRIORITY regenerated): a datagram whose priority
   exceeds it changes nothing in the receiver, and the instance checker of c08_sacn_refines_text ignores
   it as well (receiver, text state, shadow flags and frozen output unchanged). *)
Theorem c08_sacn_priority_cap :
  (forall c now st d,
     SACN_MAX_PRIORITY < w_prio (d_wire d) -> handle_dgram c now st d = (st, OIgnore)) /\
  (forall c now k p,
     SACN_MAX_PRIORITY < p_prio p ->
     fst (fst (fst (cstep c now k true p))) = k /\ snd (fst (fst (cstep c now k true p))) = OIgnore).
Proof. exact c08_sacn_priority_cap_l. Qed.
Print Assumptions c08_sacn_priority_cap.

(* Art-Net, "at most two senders" at node level: after EVERY history of node operations and packets
   (no guard) every output port has exactly MAX_MERGE_SOURCES (regenerated) sender slots with pairwise
   distinct addresses; and a packet from a further sender while every slot of a port holds another
   sender heard within 10 s leaves that port untouched and runs no callback. *)
Theorem c08_artnet_node_cap :
  (forall (h : list (N * nop)),
     Forall (fun p => length (ap_srcs (np_port p)) = N.to_nat ARTNET_MAX_MERGE_SOURCES /\
                      adistinct (ap_srcs (np_port p)))
            (n_ports (fst (nrun init_node init_ghosts h)))) /\
  (forall net now p k,
     (forall s, In s (ap_srcs (np_port p)) ->
        a_addr s <> k_addr k /\ a_addr s <> 0 /\ now <= a_ts s + 10000000) ->
     port_data net now p k = (p, false)).
Proof. exact c08_artnet_node_cap_l. Qed.
Print Assumptions c08_artnet_node_cap.

(* sACN, sequence window and terminate WITHOUT range hypotheses on the receiver state: for every history
   whose packets carry byte sequence numbers (uint8_t on the wire), a packet 0..19 behind the tracked
   sender's last accepted one triggers no merge and changes no output, and a stream-terminate that is not
   an old packet removes the sender at once and re-merges the rest (c08_sacn_ignore clause 3 and
   c08_sacn_terminate with their s_seq < 256 premises discharged by the invariant). *)
Theorem c08_sacn_window :
  (forall c h now p s st' oc,
     (forall np, In np h -> p_seq (snd np) < 256) -> p_seq p < 256 ->
     let st := fst (grun c init_ust [] h) in
     In s (u_srcs st) -> s_cid s = p_cid p -> behind (s_seq s) (p_seq p) <= 19 ->
     handle c now st p = (st', oc) ->
     u_buf st' = u_buf st /\ u_pout st' = u_pout st /\ no_merge oc /\ In s (u_srcs st') /\
     (u_srcs st' = u_srcs st \/ u_srcs st' = expire now (p_cid p) (u_srcs st))) /\
  (forall c h now p s st' oc,
     (forall np, In np h -> p_seq (snd np) < 256) -> p_seq p < 256 ->
     let st := fst (grun c init_ust [] h) in
     In s (u_srcs st) -> s_cid s = p_cid p -> p_term p = true -> 19 < behind (s_seq s) (p_seq p) ->
     handle c now st p = (st', oc) ->
     (oc = OIgnore /\ st' = st) \/
     exists l1 l2, expire now (p_cid p) (u_srcs st) = l1 ++ s :: l2 /\
       u_srcs st' = l1 ++ l2 /\ oc = OMerge None (negb (is_nil (l1 ++ l2))) /\
       htp_of (map s_buf (l1 ++ l2)) (u_buf st') /\
       (forall x, In x (l1 ++ l2) -> s_cid x <> p_cid p)).
Proof. exact c08_sacn_window_l. Qed.
Print Assumptions c08_sacn_window.

(* sACN, one inflator with several universes and receiver API calls in mid-history (SetHandler again,
   RemoveHandler): the state of every universe after ANY history of packets (for any universes, from
   any CIDs - the same CID may send on several universes) and API calls is the result of that universe's
   OWN run: only packets for it and registrations of it matter (a terminate on one universe never
   touches another).  Between registrations that run is the single-universe receiver of all the
   theorems above.  SetHandler on a registered universe keeps its tracked sources and active priority
   (with the same output objects it changes nothing at all); RemoveHandler affects that universe only. *)
Theorem c08_sacn_universes_independent :
  (forall ip h S u, ilook (irun ip S h) u = urun ip u (ilook S u) h) /\
  (forall ip u h st,
     urun ip u (Some st) (map (fun np : N * pkt => (fst np, IPkt (snd np))) h) =
     Some (run (mkCfg ip u) st h)) /\
  (forall ip now S u st fresh,
     ilook S u = Some st ->
     exists st', ilook (fst (inflator_op ip now S (IReg u fresh))) u = Some st' /\
                 u_srcs st' = u_srcs st /\ u_active st' = u_active st /\ (fresh = false -> st' = st)) /\
  (forall ip now S u u', u' <> u ->
     ilook (fst (inflator_op ip now S (IUnreg u))) u' = ilook S u' /\
     ilook (fst (inflator_op ip now S (IUnreg u))) u = None).
Proof. exact c08_sacn_universes_independent_l. Qed.
Print Assumptions c08_sacn_universes_independent.

(* Art-Net, transmit failures: in the model reception and merging have no dependency on whether the
   node's own packets (ArtPollReply on entering merge mode, ...) could be sent - the operation that makes
   the socket's SendTo fail or succeed is the identity on the node, so c08_artnet_node covers histories
   with such failures; the correspondence drives the real node with a socket whose sends fail on demand. *)
Theorem c08_artnet_send_independent :
  forall now nd b,
    node_op now nd (NSendFail b) = (nd, map (fun _ => false) (n_ports nd)).
Proof. exact c08_artnet_send_independent_l. Qed.
Print Assumptions c08_artnet_send_independent.

(* hypotheses are satisfiable / the theorems are not vacuous *)
Definition ex_pkt (cid prio seq : N) (term : bool) (slots : list N) : pkt :=
  mkPkt 2 cid prio seq 1 false term false 161
        ([0; 0; 0; 1; 0; 1 + len slots] ++ 0 :: slots).
Definition ex_cfg := mkCfg true 1.

Example ex_two_sources_merge :
  let st := fst (grun ex_cfg init_ust [] [(100, ex_pkt 1 100 0 false [1; 9; 3])]) in
  handle ex_cfg 200 st (ex_pkt 2 100 0 false [5; 2]) =
  (mkU [5; 9; 3] 100 100 [mkSrc 1 0 100 [1; 9; 3]; mkSrc 2 0 200 [5; 2]], OMerge (Some [5; 2]) true).
Proof. vm_compute. reflexivity. Qed.

Example ex_behind_discarded :
  let st := fst (grun ex_cfg init_ust [] [(100, ex_pkt 1 100 5 false [1])]) in
  behind 5 250 <= 19 /\ snd (handle ex_cfg 200 st (ex_pkt 1 100 250 false [7])) = ODiscard.
Proof. vm_compute. split; [discriminate | reflexivity]. Qed.

Example ex_terminate :
  let st := fst (grun ex_cfg init_ust [] [(100, ex_pkt 1 100 5 false [1]); (110, ex_pkt 2 100 0 false [4])]) in
  handle ex_cfg 200 st (ex_pkt 1 100 6 true [7]) =
  (mkU [4] 100 100 [mkSrc 2 0 110 [4]], OMerge None true).
Proof. vm_compute. reflexivity. Qed.

Example ex_art_third :
  let port := arun (mkAC 4 35 false) init_aport
                   [(100, mkK 1 4 35 2 [1; 2]); (200, mkK 2 4 35 2 [3; 1])] in
  ap_buf port = [3; 2] /\
  art_handle (mkAC 4 35 false) 10000100 port (mkK 3 4 35 2 [9; 9]) = (port, false) /\
  fst (art_handle (mkAC 4 35 false) 10000101 port (mkK 3 4 35 2 [9; 9])) =
    mkP [mkA 3 10000101 [9; 9]; mkA 2 200 [3; 1]] true [9; 9].
Proof. vm_compute. repeat split. Qed.

(* the guards are satisfiable: two sources at one priority, merged, text-level output equal *)
Example ex_text_agrees :
  let h := [(100, ex_pkt 1 100 0 false [1; 9; 3])] in
  let p := ex_pkt 2 100 0 false [5; 2] in
  guards ex_cfg 0 [] h /\ guard ex_cfg 200 (trun ex_cfg [] h) p /\
  u_buf (fst (handle ex_cfg 200 (run ex_cfg init_ust h) p)) = [5; 9; 3] /\
  text_out 200 (tstep ex_cfg 200 (trun ex_cfg [] h) p) = [5; 9; 3].
Proof.
  cbn [guards]. split; [|split; [|split; vm_compute; reflexivity]].
  - split; [vm_compute; discriminate|]. split; [|exact I].
    unfold guard. replace (classify ex_cfg (ex_pkt 1 100 0 false [1; 9; 3])) with (Some ([1; 9; 3], true)) by (vm_compute; reflexivity).
    split; [intros r H; discriminate H|]. intros _. split; [intros cid r _ H; discriminate H | cbn; lia].
  - unfold guard. replace (classify ex_cfg (ex_pkt 2 100 0 false [5; 2])) with (Some ([5; 2], true)) by (vm_compute; reflexivity).
    split; [intros r H; vm_compute in H; discriminate H|]. intros _. split.
    + intros cid r Hc H L. vm_compute in H. destruct cid as [|[ | |]]; try discriminate H; try (injection H as <-; reflexivity).
      all: try (destruct p0; discriminate H).
    + vm_compute. lia.
Qed.

(* DEPARTURE D1 (priority hand-down): source 1 sends at priority 100, source 2 takes over at 200 and
   terminates 0.1 ms later.  Text: source 1 is live (0.2 ms old) and now at the highest priority, so the
   output is its frame [9].  Receiver: sources below the active priority are not tracked, the output is
   EMPTY until source 1's next packet.  (G_flat fails at the second packet.) *)
Example ex_departure_handdown :
  let h := [(100, ex_pkt 1 100 0 false [9]); (200, ex_pkt 2 200 0 false [1])] in
  let p := ex_pkt 2 200 1 true [1] in
  handle ex_cfg 300 (run ex_cfg init_ust h) p = (mkU [] 0 0 [], OMerge None false) /\
  text_out 300 (tstep ex_cfg 300 (trun ex_cfg [] h) p) = [9].
Proof. vm_compute. split; reflexivity. Qed.

(* DEPARTURE D2 (discard without re-merge): sources 1 and 2 are merged; source 1 falls silent; 2.5 s
   + 1 us later an OLD packet of source 2 arrives: it is discarded, source 1 is dropped from the table,
   but the buffer is not re-merged and still contains source 1's slot (9) although source 1 stopped
   counting.  The theorems therefore compare outputs at merges only. *)
Example ex_departure_stale_after_discard :
  let h := [(100, ex_pkt 1 100 0 false [9; 0]); (100, ex_pkt 2 100 5 false [1; 200])] in
  let p := ex_pkt 2 100 4 false [1; 1] in
  handle ex_cfg 2500101 (run ex_cfg init_ust h) p =
    (mkU [9; 200] 100 100 [mkSrc 2 5 100 [1; 200]], ODiscard) /\
  text_out 2500101 (tstep ex_cfg 2500101 (trun ex_cfg [] h) p) = [1; 1].
Proof. vm_compute. split; reflexivity. Qed.

(* DEPARTURE D3 (sequence window of a returning sender): a lone sender falls silent for 3 s and returns
   with a sequence number 11 behind.  TextSpec scopes "the last accepted one" to a source that still
   counts, so the text-level output is the new frame; the receiver still applies the window (no other
   sender's packet swept the stale entry) and discards.  Under the LITERAL wording of the property the
   receiver's discard is correct; conversely the receiver forgets the sequence number of a source once
   it is swept, terminated or outranked.  (G_seq fails.) *)
Example ex_departure_returning_sender :
  let h := [(100, ex_pkt 1 100 5 false [1])] in
  let p := ex_pkt 1 100 250 false [7] in
  snd (handle ex_cfg 3000100 (run ex_cfg init_ust h) p) = ODiscard /\
  u_buf (fst (handle ex_cfg 3000100 (run ex_cfg init_ust h) p)) = [1] /\
  text_out 3000100 (tstep ex_cfg 3000100 (trun ex_cfg [] h) p) = [7].
Proof. vm_compute. repeat split; reflexivity. Qed.

(* the guards of c08_sacn_refines_text hold on the three departure histories and the verdicts are the
   classified ones *)
Example ex_exact_handdown :
  let h := [(100, true, ex_pkt 1 100 0 false [9]); (200, true, ex_pkt 2 200 0 false [1]);
            (300, true, ex_pkt 2 200 1 true [1])] in
  cguards ex_cfg 0 init_cst h /\ cverdicts ex_cfg init_cst h = [0; 0; 1].
Proof. vm_compute. repeat split; try discriminate; reflexivity. Qed.

Example ex_exact_stale :
  let h := [(100, true, ex_pkt 1 100 0 false [9; 0]); (100, true, ex_pkt 2 100 5 false [1; 200]);
            (2500101, true, ex_pkt 2 100 4 false [1; 1])] in
  cguards ex_cfg 0 init_cst h /\ cverdicts ex_cfg init_cst h = [0; 0; 2].
Proof. vm_compute. repeat split; try discriminate; reflexivity. Qed.

(* two output ports on one address, one HTP one LTP: both get every packet, each merges in its mode *)
Example ex_node_two_ports :
  let h := [(0, NNet 4); (0, NSubnet 2); (0, NEnable 0%nat 3); (0, NEnable 2%nat 3); (0, NMode 2%nat true);
            (100, NData (mkK 1 4 35 2 [1; 9])); (200, NData (mkK 2 4 35 2 [5; 2]))] in
  let nd := fst (nrun init_node init_ghosts h) in
  nguards 0 h /\
  map (fun p => ap_buf (np_port p)) (n_ports nd) = [[5; 9]; []; [5; 2]; []] /\
  snd (node_op 300 nd (NData (mkK 1 4 35 2 [0; 0]))) = [true; false; true; false].
Proof. vm_compute. repeat split; discriminate. Qed.

(* a seventh source at the active priority is refused, an eighth at a higher priority takes over; the
   same through whole datagrams (ratified and revision-2 framing into one merger) *)
Example ex_cap_seventh :
  let h := map (fun i => (100 + i, ex_pkt (1 + i) 100 0 false [i])) [0; 1; 2; 3; 4; 5] in
  let st := run ex_cfg init_ust h in
  length (u_srcs st) = 6%nat /\
  snd (handle ex_cfg 200 st (ex_pkt 7 100 0 false [255])) = ODiscard /\
  u_buf (fst (handle ex_cfg 200 st (ex_pkt 7 100 0 false [255]))) = u_buf st /\
  length (u_srcs (fst (handle ex_cfg 201 st (ex_pkt 8 101 0 false [9])))) = 1%nat.
Proof. vm_compute. repeat split; reflexivity. Qed.

Example ex_datagram_rev2_and_ratified :
  let w1 := mkW 1 false 2 100 0 0 1 2 161 [0; 0; 0; 1; 0; 3; 0; 1; 9] in
  let w2 := mkW 2 true 2 100 0 0 1 2 161 [0; 0; 0; 1; 0; 2; 5; 2] in
  let st := drun ex_cfg init_ust [(100, mkDG true 4 w1); (200, mkDG true 3 w2); (300, mkDG false 4 w1);
                                   (400, mkDG true 7 w1)] in
  u_buf st = [5; 9] /\ length (u_srcs st) = 2%nat.
Proof. vm_compute. split; reflexivity. Qed.

(* the same CID on two universes: terminating universe 1 leaves its slot on universe 2 alone; SetHandler
   again keeps the sources so a priority-50 newcomer is still refused *)
Example ex_two_universes :
  let P := fun u cid prio seq term slots =>
     mkPkt 2 cid prio seq u false term false 161 ([0; 0; 0; 1; 0; 1 + len slots] ++ 0 :: slots) in
  let h := [(0, IReg 1 false); (0, IReg 2 false);
            (100, IPkt (P 1 1 100 0 false [9])); (110, IPkt (P 2 1 100 0 false [7]));
            (120, IPkt (P 2 2 100 0 false [1])); (130, IPkt (P 1 1 100 1 true [0]));
            (140, IReg 2 false); (150, IPkt (P 2 3 50 0 false [255]))] in
  let S := irun true [] h in
  option_map u_buf (ilook S 1) = Some [] /\
  option_map (fun st => map s_cid (u_srcs st)) (ilook S 2) = Some [1; 2] /\
  option_map u_buf (ilook S 2) = Some [7].
Proof. vm_compute. repeat split; reflexivity. Qed.
