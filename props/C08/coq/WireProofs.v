(* C08: the E1.31 options byte as decoded by the framing-layer inflator *)
From OlaBase Require Import Bytes.
From C08 Require Import Gen Model Spec SacnProofs.
Local Open Scope N_scope.

Lemma land_pow2 x n : N.land x (2 ^ n) = if N.testbit x n then 2 ^ n else 0.
Proof.
  apply N.bits_inj. intros m. rewrite N.land_spec, N.pow2_bits_eqb.
  destruct (N.testbit x n) eqn:E.
  - rewrite N.pow2_bits_eqb. destruct (N.eqb_spec n m) as [->|]; [now rewrite E | apply andb_false_r].
  - rewrite N.bits_0. destruct (N.eqb_spec n m) as [->|]; [now rewrite E | apply andb_false_r].
Qed.

Lemma mask_bit x n : negb (N.land x (2 ^ n) =? 0) = N.testbit x n.
Proof.
  rewrite land_pow2. destruct (N.testbit x n); [|reflexivity].
  destruct (N.eqb_spec (2 ^ n) 0) as [E|]; [|reflexivity].
  exfalso. revert E. apply N.pow_nonzero. discriminate.
Qed.

Lemma wire_preview w : p_preview (pkt_of_wire w) = negb (w_rev2 w) && N.testbit (w_opts w) 7.
Proof. unfold pkt_of_wire. cbn [p_preview]. destruct (w_rev2 w); [reflexivity|]. exact (mask_bit (w_opts w) 7). Qed.

Lemma wire_term w : p_term (pkt_of_wire w) = negb (w_rev2 w) && N.testbit (w_opts w) 6.
Proof. unfold pkt_of_wire. cbn [p_term]. destruct (w_rev2 w); [reflexivity|]. exact (mask_bit (w_opts w) 6). Qed.

Lemma wire_cases c now st w :
  handle_wire c now st w = (st, OIgnore) \/ handle_wire c now st w = handle c now st (pkt_of_wire w).
Proof. unfold handle_wire. destruct (negb _); auto. Qed.

Lemma wire_ignore_preview c now st w :
  w_rev2 w = false -> N.testbit (w_opts w) 7 = true -> c_ignore_preview c = true ->
  handle_wire c now st w = (st, OIgnore).
Proof.
  intros R B I. destruct (wire_cases c now st w) as [E|E]; [exact E|]. rewrite E.
  apply handle_ignore_preview; [|exact I]. rewrite wire_preview, R, B. reflexivity.
Qed.
