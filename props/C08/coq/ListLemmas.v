(* C08: list and HTP lemmas used by the sACN and Art-Net proofs *)
From OlaBase Require Import Bytes.
From C08 Require Import Gen Model Spec.
Local Open Scope N_scope.

(* ------------------------------------------------------------------ htp *)
Lemma htp_nil_r a : htp a [] = a.
Proof. destruct a; reflexivity. Qed.

Lemma htp_length a b : length (htp a b) = Nat.max (length a) (length b).
Proof.
  revert b; induction a as [|x a IH]; intros [|y b]; cbn [htp length]; try lia.
  rewrite IH. lia.
Qed.

Lemma htp_nth a b i : nth i (htp a b) 0 = N.max (nth i a 0) (nth i b 0).
Proof.
  revert b i; induction a as [|x a IH]; intros [|y b] i; cbn [htp].
  - destruct i; cbn; lia.
  - destruct i; cbn [nth]; lia.
  - destruct i; cbn [nth]; lia.
  - destruct i; cbn [nth]; [lia | apply IH].
Qed.

Lemma fold_htp_length {A} (f : A -> list N) l acc :
  length (fold_left (fun a s => htp a (f s)) l acc) = Nat.max (length acc) (maxlen (map f l)).
Proof.
  revert acc; induction l as [|s l IH]; intros acc; cbn [fold_left map maxlen].
  - lia.
  - rewrite IH, htp_length. lia.
Qed.

Lemma fold_htp_nth {A} (f : A -> list N) l acc i :
  nth i (fold_left (fun a s => htp a (f s)) l acc) 0 =
  N.max (nth i acc 0) (maxl (map (fun fr => nth i fr 0) (map f l))).
Proof.
  revert acc; induction l as [|s l IH]; intros acc; cbn [fold_left map maxl].
  - lia.
  - rewrite IH, htp_nth. lia.
Qed.

Lemma fold_htp_of {A} (f : A -> list N) l :
  htp_of (map f l) (fold_left (fun a s => htp a (f s)) l []).
Proof.
  split.
  - rewrite fold_htp_length. cbn. lia.
  - intros i. rewrite fold_htp_nth. destruct i; cbn [nth]; lia.
Qed.

Lemma fold_htp_of_cons {A} (f : A -> list N) s l :
  htp_of (map f (s :: l)) (fold_left (fun a t => htp a (f t)) l (f s)).
Proof.
  split.
  - rewrite fold_htp_length. cbn [map maxlen]. lia.
  - intros i. rewrite fold_htp_nth. cbn [map maxl]. lia.
Qed.

Lemma htp_of_single f : htp_of [f] f.
Proof. split; [cbn; lia | intros i; cbn; lia]. Qed.

Lemma htp_of_nil : htp_of [] [].
Proof. split; [reflexivity | intros [|i]; reflexivity]. Qed.

(* ------------------------------------------------------------------ positions *)
Lemma set_nth_mid {A} (l1 : list A) s y l2 :
  set_nth (length l1) y (l1 ++ s :: l2) = l1 ++ y :: l2.
Proof. induction l1 as [|x l1 IH]; cbn [length app set_nth]; [reflexivity | now rewrite IH]. Qed.

Lemma remove_nth_mid {A} (l1 : list A) s l2 :
  remove_nth (length l1) (l1 ++ s :: l2) = l1 ++ l2.
Proof. induction l1 as [|x l1 IH]; cbn [length app remove_nth]; [reflexivity | now rewrite IH]. Qed.

Lemma len_length {A} (l : list A) k : (len l =? N.of_nat k) = Nat.eqb (length l) k.
Proof.
  unfold len. destruct (Nat.eqb_spec (length l) k) as [E|E].
  - rewrite E. apply N.eqb_refl.
  - apply N.eqb_neq. lia.
Qed.

(* ------------------------------------------------------------------ find_idx *)
Lemma find_idx_some cid l i :
  find_idx cid l = Some i ->
  exists l1 s l2, l = l1 ++ s :: l2 /\ length l1 = i /\ s_cid s = cid /\
                  (forall x, In x l1 -> s_cid x <> cid).
Proof.
  revert i; induction l as [|x l IH]; intros i H; cbn [find_idx] in H; [discriminate|].
  destruct (s_cid x =? cid) eqn:E.
  - injection H as <-. exists [], x, l. apply N.eqb_eq in E. repeat split; auto; intros ? [].
  - destruct (find_idx cid l) as [j|] eqn:F; [|discriminate]. cbn in H. injection H as <-.
    destruct (IH j eq_refl) as (l1 & s & l2 & -> & Hl & Hc & Hn).
    exists (x :: l1), s, l2. cbn [app length]. repeat split; auto.
    intros y [<-|Hy]; [apply N.eqb_neq in E; exact E | auto].
Qed.

Lemma find_idx_none cid l : find_idx cid l = None -> forall x, In x l -> s_cid x <> cid.
Proof.
  induction l as [|y l IH]; intros H x Hx; [destruct Hx|].
  cbn [find_idx] in H. destruct (s_cid y =? cid) eqn:E; [discriminate|].
  destruct (find_idx cid l) eqn:F; [discriminate|].
  destruct Hx as [<-|Hx]; [apply N.eqb_neq in E; exact E | now apply IH].
Qed.

Lemma find_idx_in cid l s :
  In s l -> s_cid s = cid -> exists i, find_idx cid l = Some i.
Proof.
  intros Hi Hc. destruct (find_idx cid l) eqn:F; [eauto|].
  exfalso. exact (find_idx_none _ _ F _ Hi Hc).
Qed.

(* ------------------------------------------------------------------ NoDup on CIDs *)
Lemma nodup_mid l1 (s : src) l2 :
  NoDup (map s_cid (l1 ++ s :: l2)) ->
  NoDup (map s_cid (l1 ++ l2)) /\ forall x, In x (l1 ++ l2) -> s_cid x <> s_cid s.
Proof.
  rewrite !map_app. cbn [map]. intros H. split.
  - eapply NoDup_remove_1; eauto.
  - apply NoDup_remove_2 in H. intros x Hx E. apply H. rewrite <- E.
    rewrite <- map_app. now apply in_map.
Qed.

Lemma nodup_replace l1 (s y : src) l2 :
  s_cid y = s_cid s -> NoDup (map s_cid (l1 ++ s :: l2)) -> NoDup (map s_cid (l1 ++ y :: l2)).
Proof. intros E. rewrite !map_app. cbn [map]. now rewrite E. Qed.

Lemma nodup_snoc l (y : src) :
  NoDup (map s_cid l) -> (forall x, In x l -> s_cid x <> s_cid y) -> NoDup (map s_cid (l ++ [y])).
Proof.
  intros H Hn. rewrite map_app. cbn [map].
  apply NoDup_rev in H. rewrite <- (rev_involutive (map s_cid l ++ [s_cid y])).
  apply NoDup_rev. rewrite rev_app_distr. cbn [rev app]. constructor; [|exact H].
  rewrite <- in_rev. intros Hi. apply in_map_iff in Hi as (x & E & Hx). exact (Hn x Hx E).
Qed.

(* ------------------------------------------------------------------ expire *)
Lemma expire_in now cid l x :
  In x (expire now cid l) -> In x l /\ (s_cid x = cid \/ now <= s_last x + EXPIRY_INTERVAL_US).
Proof.
  unfold expire. rewrite filter_In. intros [Hi Hf]. split; [exact Hi|].
  apply orb_prop in Hf as [Hf|Hf]; [left; now apply N.eqb_eq in Hf|].
  right. apply negb_true_iff, N.ltb_ge in Hf. exact Hf.
Qed.

Lemma nodup_map_filter {A B} (f : A -> B) p (l : list A) :
  NoDup (map f l) -> NoDup (map f (filter p l)).
Proof.
  induction l as [|x l IH]; cbn [map filter]; intros H; [constructor|].
  inversion H as [|? ? Hn Hd]; subst.
  destruct (p x); [|now apply IH]. cbn [map]. constructor; [|now apply IH].
  intros Hi. apply Hn. apply in_map_iff in Hi as (y & E & Hy). apply filter_In in Hy as [Hy _].
  rewrite <- E. now apply in_map.
Qed.

Lemma expire_nodup now cid l : NoDup (map s_cid l) -> NoDup (map s_cid (expire now cid l)).
Proof. apply nodup_map_filter. Qed.

Lemma filter_length_le {A} p (l : list A) : (length (filter p l) <= length l)%nat.
Proof. induction l as [|x l IH]; cbn [filter length]; [lia|]. destruct (p x); cbn [length]; lia. Qed.

Lemma expire_length now cid l : (length (expire now cid l) <= length l)%nat.
Proof. apply filter_length_le. Qed.

(* a source that is still tracked after the sweep keeps its position data *)
Lemma expire_keeps_sender now cid l s :
  In s l -> s_cid s = cid -> In s (expire now cid l).
Proof.
  intros Hi Hc. unfold expire. apply filter_In. split; [exact Hi|].
  apply N.eqb_eq in Hc. now rewrite Hc.
Qed.

Lemma is_nil_spec {A} (l : list A) : is_nil l = true <-> l = [].
Proof. destruct l; cbn; split; congruence. Qed.

(* ------------------------------------------------------------------ ghost *)
Lemma glook_cons_same g c r : glook ((c, r) :: g) c = Some r.
Proof. cbn [glook]. now rewrite N.eqb_refl. Qed.
Lemma glook_cons_other g c r c' : c' <> c -> glook ((c, r) :: g) c' = glook g c'.
Proof. intros H. cbn [glook]. apply not_eq_sym, N.eqb_neq in H. now rewrite H. Qed.
