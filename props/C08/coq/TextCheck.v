(* C08: the executable instance checker.  After every packet the driver compares the receiver-model's
   registered buffer with the text-level output (TextSpec.text_out) and classifies a difference.

   Shadowed sources.  The receiver does not track a source whose packet arrived below the priority of the
   sources it currently merges, and drops the sources that a higher-priority packet outranks.  On the TEXT
   state this is the flag "shadowed": a source becomes shadowed when its accepted packet carries a priority
   below the top priority of the unshadowed live other sources, or when an unshadowed source's accepted
   packet raises that top priority above it; it stops being shadowed with its next accepted packet that is
   not below that top.  Departure D1 (hand-down gap): a shadowed source is live and belongs to the
   text-level top group - the receiver output is the text output WITHOUT the shadowed sources.
   Departure D2 (stale buffer): a packet that triggers no merge arrives after a merged source stopped
   counting - the receiver output is the unshadowed text output as of the last merge.
   Departure D4 (sequence window forgotten): a packet 0..19 behind the last in-sequence packet of a live
   but shadowed source is accepted by the receiver (it keeps no sequence number for sources it does not
   track); the text discards it.  The text state then follows the receiver so that later packets are
   still compared.
   Anything else is a mismatch. *)
From OlaBase Require Import Bytes.
From C08 Require Import Gen Model Spec TextSpec.
Local Open Scope N_scope.

Definition dmap := list (N * bool).
Fixpoint dlook (D : dmap) (cid : N) : bool :=
  match D with
  | [] => false
  | (c, b) :: t => if c =? cid then b else dlook t cid
  end.

(* live at [now], counting only packets accepted up to [tm] *)
Definition xlive (tm now : N) (r : trec) : bool :=
  t_alive r && (t_time r <=? tm) && (now <=? t_time r + 2500000).

(* the unshadowed live sources *)
Definition vis (tm now : N) (D : dmap) (T : tstate) : tstate :=
  filter (fun e => xlive tm now (snd e) && negb (dlook D (fst e))) T.

Fixpoint topl (L : tstate) : N :=
  match L with [] => 0 | (_, r) :: t => N.max (t_prio r) (topl t) end.

Definition top_group (L : tstate) : tstate := filter (fun e => t_prio (snd e) =? topl L) L.

Definition out_of (L : tstate) : list N :=
  fold_left htp (map (fun e => t_frame (snd e)) (firstn 6 (top_group L))) [].

(* the text-level output without the shadowed sources, as of time [tm] *)
Definition text_out_unshadowed (tm : N) (T : tstate) (D : dmap) : list N := out_of (vis tm tm D T).

Definition others (cid : N) (T : tstate) : tstate := filter (fun e => negb (fst e =? cid)) T.

(* every live source below the unshadowed top becomes shadowed *)
Definition mark (now : N) (T : tstate) (D : dmap) : dmap :=
  let top := topl (vis now now D T) in
  fold_left (fun d e => if xlive now now (snd e) && (t_prio (snd e) <? top) then (fst e, true) :: d else d) T D.

(* the same for an accepted packet of [cid] at priority prio: the new unshadowed top is
   max prio (top of the unshadowed live others); every live other source below it becomes shadowed *)
Definition mark_others (now top cid : N) (T : tstate) (D : dmap) : dmap :=
  fold_left (fun d e => if xlive now now (snd e) && (t_prio (snd e) <? top) then (fst e, true) :: d else d)
            (others cid T) D.

(* text-level step with the shadow flags.  [keep]: the one point the property text leaves open - a packet
   0..19 behind from a source that stopped counting by timeout (does the sequence window still apply?) -
   follows the receiver's decision (true = still applied, packet discarded). *)
Definition xstep (c : cfg) (now : N) (keep rx_acc : bool) (T : tstate) (D : dmap) (p : pkt)
  : tstate * dmap * bool :=
  match classify c p with
  | None => (T, D, false)
  | Some (frame, _) =>
    let cid := p_cid p in
    let fresh := mkT frame (p_prio p) now (p_seq p) true in
    let accept :=
      let tu := topl (vis now now D (others cid T)) in
      (tupd cid fresh T, mark_others now (N.max (p_prio p) tu) cid T ((cid, p_prio p <? tu) :: D)) in
    match tlook T cid with
    | Some r =>
      if tlive now r && (behind (t_seq r) (p_seq p) <=? 19) then
        (if dlook D cid && rx_acc && negb (p_term p) then (accept, true) else (T, D, false))
      else if t_alive r && negb (tlive now r) && (behind (t_seq r) (p_seq p) <=? 19) && keep then (T, D, false)
      else if p_term p then (tupd cid (mkT (t_frame r) (t_prio r) (t_time r) (t_seq r) false) T, D, false)
      else (accept, false)
    | None => if p_term p then (T, D, false) else (accept, false)
    end
  end.

(* more than six sources in a top group: the text does not say which six are merged *)
Definition over_cap (now : N) (T : tstate) (D : dmap) : bool :=
  (6 <? len (tgroup now T)) || (6 <? len (top_group (vis now now D T))).

(* G_cap: a data packet at the priority of the unshadowed live other sources finds at most five of them
   (otherwise more than six sources share the top priority and the text does not say which six are
   merged) *)
Definition gcap (c : cfg) (now : N) (T : tstate) (D : dmap) (p : pkt) : bool :=
  match classify c p with
  | None => true
  | Some _ =>
    let L := vis now now D (others (p_cid p) T) in
    p_term p || negb (p_prio p =? topl L) || (len L <=? 5)
  end.

Fixpoint list_eqb (a b : list N) : bool :=
  match a, b with
  | [], [] => true
  | x :: a', y :: b' => (x =? y) && list_eqb a' b'
  | _, _ => false
  end.

(* verdict for one packet: 0 agrees with the text, 1 departure D1, 2 departure D2, 3 mismatch.
   [merged]: the receiver re-merged on this packet; [frozen]: the unshadowed text-level output right
   after its last merge (empty before the first one). *)
Definition verdict (merged : bool) (frozen : list N) (now : N) (T : tstate) (D : dmap) (buf : list N) : N :=
  if list_eqb buf (text_out now T) then 0
  else if merged then
    (if list_eqb buf (text_out_unshadowed now T D) then 1 else 3)
  else if list_eqb buf frozen then
    (if list_eqb buf (text_out_unshadowed now T D) then 1 else 2)
  else 3.

(* ------------------------------------------------------------------ the checker loop *)
(* receiver model, text state, shadow flags and the unshadowed text output of the last merge, side by
   side.  [is_data] = false: a framing PDU that is not a data PDU (dropped before the merger; no
   packet for the text either). *)
Record cst := mkC { k_st : ust; k_T : tstate; k_D : dmap; k_frozen : list N }.
Definition init_cst : cst := mkC init_ust [] [] [].

Definition is_merge (oc : outcome) : bool := match oc with OMerge _ _ => true | _ => false end.

(* result: new state, receiver outcome, verdict, D4 flag *)
Definition cstep (c : cfg) (now : N) (k : cst) (is_data : bool) (p : pkt) : cst * outcome * N * bool :=
  if is_data then
    let '(st', oc) := handle c now (k_st k) p in
    let keep := match oc with ODiscard => true | _ => false end in
    let rx_acc := match oc with OMerge (Some _) _ => true | _ => false end in
    let '(T', D', d4) := xstep c now keep rx_acc (k_T k) (k_D k) p in
    let frozen := if is_merge oc then text_out_unshadowed now T' D' else k_frozen k in
    (mkC st' T' D' frozen, oc, verdict (is_merge oc) frozen now T' D' (u_buf st'), d4)
  else
    (k, OIgnore, verdict false (k_frozen k) now (k_T k) (k_D k) (u_buf (k_st k)), false).

(* ------------------------------------------------------------------ Art-Net text level *)
(* "an Art-Net output port's data is the HTP or LTP merge, per its configured mode, of at most two
   senders heard within the last 10 s, and a third concurrent sender never displaces them" *)
Definition agst := list (N * (list N * N)).
Fixpoint aupd (a : N) (v : list N * N) (G : agst) : agst :=
  match G with
  | [] => [(a, v)]
  | (c, x) :: t => if c =? a then (a, v) :: t else (c, x) :: aupd a v t
  end.
Definition heard (now : N) (e : N * (list N * N)) : bool := now <=? snd (snd e) + 10000000.

(* None = not an ArtDmx packet for this port / a third concurrent sender: nothing changes *)
Definition atext_step (c : acfg) (now : N) (G : agst) (k : apkt) : agst * option (list N) :=
  if len (k_data k) <? 2 then (G, None)
  else if negb (k_net k =? ac_net c) then (G, None)
  else if negb (k_univ k =? ac_univ c) then (G, None)
  else
    let frame := dmx_set (k_data k) (u16 (N.min (k_lenf k) (len (k_data k)))) in
    let oth := filter (fun e => negb (fst e =? k_addr k) && heard now e) G in
    if len oth <? 2 then
      let G' := aupd (k_addr k) (frame, now) G in
      (G', Some (if ac_ltp c then frame
                 else fold_left htp (map (fun e => fst (snd e)) (filter (heard now) G')) []))
    else (G, None).

(* no shadowed source: the unshadowed output is computed from the same sources as the text output *)
Lemma vis_no_shadow now T : vis now now [] T = filter (fun e => xlive now now (snd e)) T.
Proof.
  unfold vis. apply filter_ext. intros e. cbn [dlook negb]. now rewrite andb_true_r.
Qed.

(* ------------------------------------------------------------------ what the verdicts mean *)
Lemma list_eqb_spec a b : list_eqb a b = true <-> a = b.
Proof.
  revert b; induction a as [|x a IH]; intros [|y b]; cbn [list_eqb]; split; try congruence; try discriminate.
  - intros H. apply andb_prop in H as [H1 H2]. apply N.eqb_eq in H1. apply IH in H2. congruence.
  - intros H. injection H as -> ->. rewrite N.eqb_refl. cbn. now apply IH.
Qed.

(* verdict 0 is exactly "the registered buffer equals the text-level output" *)
Lemma verdict_zero merged frozen now T D buf :
  verdict merged frozen now T D buf = 0 <-> buf = text_out now T.
Proof.
  unfold verdict. destruct (list_eqb buf (text_out now T)) eqn:E.
  - split; [intros _; now apply list_eqb_spec | reflexivity].
  - split.
    + intros H. exfalso. destruct merged.
      * destruct (list_eqb buf (text_out_unshadowed now T D)); discriminate.
      * destruct (list_eqb buf frozen); [destruct (list_eqb buf (text_out_unshadowed now T D))|]; discriminate.
    + intros H. apply list_eqb_spec in H. congruence.
Qed.

(* verdicts 1 and 2 say what the buffer equals instead *)
Lemma verdict_d1 merged frozen now T D buf :
  verdict merged frozen now T D buf = 1 ->
  buf <> text_out now T /\ buf = text_out_unshadowed now T D.
Proof.
  unfold verdict. destruct (list_eqb buf (text_out now T)) eqn:E; [discriminate|].
  assert (buf <> text_out now T) by (intros H; apply list_eqb_spec in H; congruence).
  destruct merged.
  - destruct (list_eqb buf (text_out_unshadowed now T D)) eqn:F; [|discriminate].
    intros _. split; [assumption | now apply list_eqb_spec].
  - destruct (list_eqb buf frozen); [|discriminate].
    destruct (list_eqb buf (text_out_unshadowed now T D)) eqn:F; [|discriminate].
    intros _. split; [assumption | now apply list_eqb_spec].
Qed.

Lemma verdict_d2 merged frozen now T D buf :
  verdict merged frozen now T D buf = 2 ->
  merged = false /\ buf <> text_out now T /\ buf = frozen /\ buf <> text_out_unshadowed now T D.
Proof.
  unfold verdict. destruct (list_eqb buf (text_out now T)) eqn:E; [discriminate|].
  assert (buf <> text_out now T) by (intros H; apply list_eqb_spec in H; congruence).
  destruct merged.
  - destruct (list_eqb buf (text_out_unshadowed now T D)); discriminate.
  - destruct (list_eqb buf frozen) eqn:F; [|discriminate].
    destruct (list_eqb buf (text_out_unshadowed now T D)) eqn:G; [discriminate|].
    intros _. repeat split; auto; [now apply list_eqb_spec|].
    intros H0. apply list_eqb_spec in H0. congruence.
Qed.

(* the checker's text state is TextSpec.tstep except at the two points it documents: it coincides when
   the sender is not shadowed and no packet 0..19 behind comes from a timed-out source (G_seq) *)
Lemma xstep_tstep c now keep rx T D p :
  dlook D (p_cid p) = false ->
  (forall r, tlook T (p_cid p) = Some r -> t_alive r = true ->
             behind (t_seq r) (p_seq p) <= 19 -> now <= t_time r + 2500000) ->
  fst (fst (xstep c now keep rx T D p)) = tstep c now T p.
Proof.
  intros Hd G. unfold xstep, tstep. destruct (classify c p) as [[frame sc0]|]; [|reflexivity].
  destruct (tlook T (p_cid p)) as [r|] eqn:Hr.
  - rewrite Hd. cbn [andb].
    destruct (tlive now r && (behind (t_seq r) (p_seq p) <=? 19)) eqn:A; [reflexivity|].
    destruct (t_alive r && negb (tlive now r) && (behind (t_seq r) (p_seq p) <=? 19) && keep) eqn:B.
    + exfalso. apply andb_prop in B as [B _]. apply andb_prop in B as [B B3].
      apply andb_prop in B as [B1 B2]. apply N.leb_le in B3.
      specialize (G r eq_refl B1 B3). unfold tlive in B2. rewrite B1 in B2. cbn in B2.
      apply negb_true_iff, N.leb_gt in B2. lia.
    + destruct (p_term p); reflexivity.
  - destruct (p_term p); reflexivity.
Qed.
