(* C08: stored sequence numbers stay in uint8_t range for every history of byte-valued packets *)
From OlaBase Require Import Bytes.
From C08 Require Import Gen Model Spec ListLemmas SacnTrack SacnProofs.
Local Open Scope N_scope.

Definition seq_ok (st : ust) : Prop := forall s, In s (u_srcs st) -> s_seq s < 256.

Lemma set_nth_in' {A} i (x : A) l t : In t (set_nth i x l) -> t = x \/ In t l.
Proof.
  revert i; induction l as [|y l IH]; intros [|i]; cbn [set_nth In]; intros H; auto.
  - destruct H as [<-|H]; auto.
  - destruct H as [<-|H]; auto. destruct (IH _ H); auto.
Qed.

Lemma remove_nth_in {A} i (l : list A) t : In t (remove_nth i l) -> In t l.
Proof.
  revert i; induction l as [|y l IH]; intros [|i]; cbn [remove_nth In]; intros H; auto.
  destruct H as [<-|H]; auto. right. eapply IH; eauto.
Qed.

Lemma nth_in_or_dummy (l : list src) i : In (nth i l dummy_src) l \/ nth i l dummy_src = dummy_src.
Proof. destruct (nth_in_or_default i l dummy_src); auto. Qed.

Lemma track_seq now p srcs0 active0 :
  (forall s, In s srcs0 -> s_seq s < 256) -> p_seq p < 256 ->
  match track now p srcs0 active0 with
  | TR srcs _ _ _ => forall s, In s srcs -> s_seq s < 256
  end.
Proof.
  intros H0 Hp. unfold track.
  assert (He : forall s, In s (expire now (p_cid p) srcs0) -> s_seq s < 256).
  { intros s Hs. apply H0. now apply (expire_in now (p_cid p)). }
  set (e := expire now (p_cid p) srcs0) in *.
  destruct (find_idx (p_cid p) e) as [i|].
  - destruct (_ && _)%bool; [exact He|].
    destruct (p_term p).
    + intros s Hs. apply remove_nth_in, set_nth_in' in Hs as [->|Hs]; [exact Hp | now apply He].
    + assert (H2 : forall s, In s (set_nth i (mkSrc (s_cid (nth i e dummy_src)) (p_seq p) now
                                                  (s_buf (nth i e dummy_src))) e) -> s_seq s < 256).
      { intros s Hs. apply set_nth_in' in Hs as [->|Hs]; [exact Hp | now apply He]. }
      destruct (p_prio p <? _).
      * destruct (len _ =? 1); [exact H2|]. intros s Hs. apply remove_nth_in in Hs. now apply H2.
      * destruct (_ <? p_prio p); [|exact H2].
        destruct (negb _); [|exact H2]. intros s [<-|[]]. exact Hp.
  - destruct (_ || _)%bool; [exact He|].
    destruct (_ <? p_prio p).
    + destruct (len _ =? _); [intros s []|]. intros s [<-|[]]. exact Hp.
    + destruct (len _ =? _); [exact He|]. intros s Hs. apply in_app_or in Hs as [Hs|[<-|[]]]; [now apply He | exact Hp].
Qed.

Lemma handle_seq c now st p :
  seq_ok st -> p_seq p < 256 -> seq_ok (fst (handle c now st p)).
Proof.
  intros H Hp. unfold handle. destruct (classify c p) as [[frame sc0]|]; [|exact H].
  pose proof (track_seq now p (u_srcs st) (u_active st) H Hp) as T.
  destruct (track now p (u_srcs st) (u_active st)) as [srcs active [] tgt]; cbn [apply_track fst]; [|exact T].
  unfold seq_ok. cbn [u_srcs]. destruct tgt as [i|]; [|exact T].
  destruct sc0; [|exact T].
  intros s Hs. apply set_nth_in' in Hs as [->|Hs]; [|now apply T]. cbn [s_seq].
  destruct (nth_in_or_dummy srcs i) as [Hi| ->]; [now apply T | cbn; lia].
Qed.

Definition seqs_bytes (h : list (N * pkt)) : Prop := forall np, In np h -> p_seq (snd np) < 256.

Lemma run_grun c h : forall st g, fst (grun c st g h) = run c st h.
Proof.
  induction h as [|[now p] h IH]; intros st g; cbn [grun run]; [reflexivity|].
  destruct (handle c now st p) as [st' oc]. cbn [fst]. apply IH.
Qed.

Lemma run_seq c h : forall st, seq_ok st -> seqs_bytes h -> seq_ok (run c st h).
Proof.
  induction h as [|[now p] h IH]; intros st H Hb; cbn [run]; [exact H|].
  apply IH.
  - apply handle_seq; [exact H|]. apply (Hb (now, p)). now left.
  - intros np Hnp. apply Hb. now right.
Qed.

Lemma grun_seq c h : seqs_bytes h -> seq_ok (fst (grun c init_ust [] h)).
Proof. intros Hb. rewrite run_grun. apply run_seq; [intros s []|exact Hb]. Qed.
