(* C08: characterisation of TrackSourceIfRequired (model function [track]) *)
From OlaBase Require Import Bytes.
From C08 Require Import Gen Model Spec ListLemmas.
Local Open Scope N_scope.

Definition track_post (now : N) (p : pkt) (srcs0 : list src) (active0 : N) (r : tres) : Prop :=
  let e := expire now (p_cid p) srcs0 in
  let a := if is_nil e then 0 else active0 in
  match r with
  | TR srcs active false tgt => tgt = None /\ active = a /\ srcs = e
  | TR srcs active true None =>
    exists l1 s l2, e = l1 ++ s :: l2 /\ s_cid s = p_cid p /\ srcs = l1 ++ l2 /\
                    active = (if is_nil srcs then 0 else a)
  | TR srcs active true (Some i) =>
    p_term p = false /\ active = p_prio p /\
    exists l1 s l2, srcs = l1 ++ s :: l2 /\ length l1 = i /\ s_cid s = p_cid p /\ s_last s = now /\
                    (forall x, In x (l1 ++ l2) -> In x e) /\
                    NoDup (map s_cid srcs) /\ (l1 ++ l2 = [] \/ p_prio p = a) /\
                    (length srcs <= 6)%nat
  end.

Lemma len_one_mid {A} (l1 : list A) s l2 : (len (l1 ++ s :: l2) =? 1) = true -> l1 ++ l2 = [].
Proof.
  intros H. apply N.eqb_eq in H. unfold len in H. rewrite app_length in H. cbn [length] in H.
  destruct l1; [destruct l2; [reflexivity | cbn in H; lia] | cbn in H; lia].
Qed.

Lemma len_not_one_mid {A} (l1 : list A) s l2 : (len (l1 ++ s :: l2) =? 1) = false -> l1 ++ l2 <> [].
Proof.
  intros H E. apply N.eqb_neq in H. apply H. apply app_eq_nil in E as [-> ->]. reflexivity.
Qed.

Lemma track_char now p srcs0 active0 :
  NoDup (map s_cid srcs0) -> (length srcs0 <= 6)%nat ->
  track_post now p srcs0 active0 (track now p srcs0 active0).
Proof.
  intros Hnd Hlen. unfold track_post, track.
  pose proof (expire_nodup now (p_cid p) _ Hnd) as He.
  pose proof (expire_length now (p_cid p) srcs0) as Hel.
  set (e := expire now (p_cid p) srcs0) in *.
  set (a := if is_nil e then 0 else active0).
  destruct (find_idx (p_cid p) e) as [i|] eqn:F.
  - (* tracked *)
    destruct (find_idx_some _ _ _ F) as (l1 & s & l2 & Ee & Hi & Hc & Hn1).
    subst i. rewrite Ee. rewrite nth_middle.
    destruct ((seq_diff (p_seq p) (s_seq s) <=? 0)%Z &&
              (- Z.of_N SEQUENCE_DIFF_THRESHOLD_NEG <? seq_diff (p_seq p) (s_seq s))%Z)%bool.
    { repeat split; reflexivity. }
    destruct (p_term p) eqn:T.
    { rewrite set_nth_mid, remove_nth_mid. exists l1, s, l2. repeat split; auto. }
    rewrite !set_nth_mid.
    set (s2 := mkSrc (s_cid s) (p_seq p) now (s_buf s)).
    assert (Hnd2 : NoDup (map s_cid (l1 ++ s2 :: l2))).
    { eapply nodup_replace with (s := s); [reflexivity | rewrite <- Ee; exact He]. }
    assert (Hl2 : (length (l1 ++ s2 :: l2) <= 6)%nat).
    { rewrite Ee in Hel. rewrite app_length in *. cbn [length] in *. lia. }
    assert (Hin : forall x, In x (l1 ++ l2) -> In x (l1 ++ s :: l2)).
    { intros x Hx. apply in_app_or in Hx. apply in_or_app. cbn [In]. tauto. }
    destruct (p_prio p <? a) eqn:Lo.
    + destruct (len (l1 ++ s2 :: l2) =? 1) eqn:L1.
      * split; [reflexivity|]. split; [reflexivity|].
        exists l1, s2, l2. repeat split; auto. left. eapply len_one_mid; eauto.
      * rewrite remove_nth_mid. exists l1, s, l2. repeat split; auto.
        apply len_not_one_mid in L1. destruct (l1 ++ l2); [congruence | reflexivity].
    + destruct (a <? p_prio p) eqn:Hi.
      * destruct (len (l1 ++ s2 :: l2) =? 1) eqn:L1; cbn [negb].
        -- split; [reflexivity|]. split; [reflexivity|].
           exists l1, s2, l2. repeat split; auto. left. eapply len_one_mid; eauto.
        -- split; [reflexivity|]. split; [reflexivity|].
           exists [], s2, []. cbn [app length map]. repeat split; auto.
           ++ intros x [].
           ++ constructor; [intros [] | constructor].
           ++ lia.
      * split; [reflexivity|]. apply N.ltb_ge in Lo, Hi. split; [lia|].
        exists l1, s2, l2. repeat split; auto. right. lia.
  - (* untracked *)
    pose proof (find_idx_none _ _ F) as Hnone.
    destruct (p_term p || (p_prio p <? a))%bool eqn:G.
    { repeat split; reflexivity. }
    apply orb_false_elim in G as [T Lo].
    destruct (a <? p_prio p) eqn:Hi.
    + change (len (@nil src) =? SACN_MAX_MERGE_SOURCES) with false. cbn [app length].
      split; [exact T|]. split; [reflexivity|].
      exists [], (mkSrc (p_cid p) (p_seq p) now []), []. cbn [app length map]. repeat split; auto.
      * intros x [].
      * constructor; [intros [] | constructor].
      * lia.
    + destruct (len e =? SACN_MAX_MERGE_SOURCES) eqn:Full.
      { repeat split; reflexivity. }
      split; [exact T|]. apply N.ltb_ge in Lo, Hi. split; [lia|].
      exists e, (mkSrc (p_cid p) (p_seq p) now []), []. rewrite app_nil_r. repeat split; auto.
      * apply nodup_snoc; [exact He|]. cbn [s_cid]. exact Hnone.
      * right. lia.
      * apply N.eqb_neq in Full. unfold len, SACN_MAX_MERGE_SOURCES in Full.
        rewrite app_length. cbn [length]. lia.
Qed.
