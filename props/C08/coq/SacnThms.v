(* C08: packet-level corollaries for the sACN receiver *)
From OlaBase Require Import Bytes.
From C08 Require Import Gen Model Spec ListLemmas SacnTrack SacnProofs.
Local Open Scope N_scope.

Definition no_merge (oc : outcome) : Prop := match oc with OMerge _ _ => False | _ => True end.

Lemma handle_behind c now st g p s st' oc :
  tracked_ok st g -> In s (u_srcs st) -> s_cid s = p_cid p ->
  s_seq s < 256 -> p_seq p < 256 -> behind (s_seq s) (p_seq p) <= 19 ->
  handle c now st p = (st', oc) ->
  u_buf st' = u_buf st /\ u_pout st' = u_pout st /\ no_merge oc /\ In s (u_srcs st') /\
  (u_srcs st' = u_srcs st \/ u_srcs st' = expire now (p_cid p) (u_srcs st)).
Proof.
  intros (Hnd & _) Hi Hc Hs Hp Hb H.
  destruct (handle_cases c now st p) as [E|(_ & _ & frame & sc0 & _ & _ & E)]; rewrite E in H.
  - injection H as <- <-. cbn. repeat split; auto.
  - rewrite (track_behind now p _ (u_active st) s Hnd Hi Hc Hs Hp Hb) in H. cbn [apply_track] in H.
    injection H as <- <-. cbn. repeat split; auto.
    now apply expire_keeps_sender.
Qed.

Lemma handle_full c now st p st' oc :
  (forall s, In s (u_srcs st) -> s_cid s <> p_cid p) ->
  length (expire now (p_cid p) (u_srcs st)) = 6%nat -> p_prio p <= u_active st ->
  handle c now st p = (st', oc) ->
  u_buf st' = u_buf st /\ u_pout st' = u_pout st /\ no_merge oc /\ u_active st' = u_active st /\
  (u_srcs st' = u_srcs st \/ u_srcs st' = expire now (p_cid p) (u_srcs st)).
Proof.
  intros Hn Hl Hp H.
  destruct (handle_cases c now st p) as [E|(_ & _ & frame & sc0 & _ & _ & E)]; rewrite E in H.
  - injection H as <- <-. cbn. repeat split; auto.
  - rewrite track_full in H; auto.
    + cbn [apply_track] in H. injection H as <- <-. cbn. repeat split; auto.
    + intros x Hx. apply Hn. now apply (expire_in now (p_cid p)).
Qed.

Lemma handle_terminate c now st g p s st' oc :
  tracked_ok st g -> In s (u_srcs st) -> s_cid s = p_cid p -> p_term p = true ->
  s_seq s < 256 -> p_seq p < 256 -> 19 < behind (s_seq s) (p_seq p) ->
  handle c now st p = (st', oc) ->
  (oc = OIgnore /\ st' = st) \/
  exists l1 l2, expire now (p_cid p) (u_srcs st) = l1 ++ s :: l2 /\
    u_srcs st' = l1 ++ l2 /\ oc = OMerge None (negb (is_nil (l1 ++ l2))) /\
    htp_of (map s_buf (l1 ++ l2)) (u_buf st') /\
    (forall x, In x (l1 ++ l2) -> s_cid x <> p_cid p).
Proof.
  intros (Hnd & _) Hi Hc T Hs Hp Hb H.
  destruct (handle_cases c now st p) as [E|(_ & _ & frame & sc0 & _ & _ & E)]; rewrite E in H.
  - injection H as <- <-. now left.
  - right. destruct (track_terminate now p _ (u_active st) s Hnd Hi Hc T Hs Hp Hb) as (l1 & l2 & Ee & Et).
    rewrite Et in H. cbn [apply_track] in H. injection H as <- <-. cbn [u_srcs u_buf].
    destruct (merge_sources_spec (l1 ++ l2) (u_buf st)) as [Hm Hcb].
    exists l1, l2. rewrite Hcb.
    split; [exact Ee|]. split; [reflexivity|]. split; [reflexivity|]. split; [exact Hm|].
    pose proof (expire_nodup now (p_cid p) _ Hnd) as He. rewrite Ee in He.
    destruct (nodup_mid _ _ _ He) as [_ Hoth]. intros x Hx. rewrite <- Hc. now apply Hoth.
Qed.

(* state, ghost and last outcome after a history *)
Lemma grun_tracked c h : tracked_ok (fst (grun c init_ust [] h)) (snd (grun c init_ust [] h)).
Proof. apply grun_ok, init_ok. Qed.
