(* C08: on the model of the unchanged code the instance checker never reports a mismatch *)
From OlaBase Require Import Bytes.
From C08 Require Import Gen Model Spec ListLemmas SacnTrack SacnProofs SeqInv TextSpec TextTrack TextRel
  TextStep TextThm TextCheck ShadowRel ShadowTrack ShadowStep ShadowMain.
Local Open Scope N_scope.

Lemma handle_merge_htp c now st p st' acc cb :
  handle c now st p = (st', OMerge acc cb) -> htp_of (map s_buf (u_srcs st')) (u_buf st').
Proof.
  unfold handle. destruct (classify c p) as [[frame sc0]|]; [|discriminate].
  destruct (track now p (u_srcs st) (u_active st)) as [srcs active [] tgt]; cbn [apply_track]; [|discriminate].
  intros H. injection H as <- _ _. cbn [u_srcs u_buf]. apply merge_sources_spec.
Qed.

Lemma handle_nomerge_buf c now st p st' oc :
  handle c now st p = (st', oc) -> is_merge oc = false -> u_buf st' = u_buf st.
Proof.
  unfold handle. destruct (classify c p) as [[frame sc0]|]; [|intros H _; now injection H as <- _].
  destruct (track now p (u_srcs st) (u_active st)) as [srcs active [] tgt]; cbn [apply_track];
    intros H; injection H as <- <-; [discriminate | reflexivity].
Qed.

Lemma verdict_frozen frozen now T D : verdict false frozen now T D frozen <> 3.
Proof.
  unfold verdict. destruct (list_eqb frozen (text_out now T)); [discriminate|].
  replace (list_eqb frozen frozen) with true by (symmetry; now apply list_eqb_spec).
  destruct (list_eqb frozen (text_out_unshadowed now T D)); discriminate.
Qed.

Lemma verdict_merged frozen now T D : verdict true frozen now T D (text_out_unshadowed now T D) <> 3.
Proof.
  unfold verdict. destruct (list_eqb _ (text_out now T)); [discriminate|].
  replace (list_eqb (text_out_unshadowed now T D) (text_out_unshadowed now T D)) with true
    by (symmetry; now apply list_eqb_spec).
  discriminate.
Qed.

Definition cinv (k : cst) (tl : N) : Prop :=
  relx (k_st k) (k_T k) (k_D k) tl /\ u_buf (k_st k) = k_frozen k.

Lemma cinv_init : cinv init_cst 0.
Proof. split; [exact relx_init | reflexivity]. Qed.

Lemma cstep_ok c now k tl is_data p k' oc v d4 :
  cinv k tl -> tl <= now -> p_seq p < 256 ->
  (is_data = true -> gcap c now (k_T k) (k_D k) p = true) ->
  cstep c now k is_data p = (k', oc, v, d4) ->
  cinv k' now /\ v <> 3.
Proof.
  intros [R F] Htl Hp G H. unfold cstep in H. destruct is_data.
  - destruct (handle c now (k_st k) p) as [st' oc0] eqn:Eh.
    destruct (xstep c now match oc0 with ODiscard => true | _ => false end
                    match oc0 with OMerge (Some _) _ => true | _ => false end (k_T k) (k_D k) p)
      as [[T' D'] d] eqn:Ex.
    injection H as <- <- <- <-.
    destruct (step_relx c now (k_st k) (k_T k) (k_D k) tl p st' oc0 T' D' d R Htl Hp (G eq_refl) Eh Ex)
      as [R' LV].
    destruct (is_merge oc0) eqn:M.
    + assert (Hb : u_buf st' = text_out_unshadowed now T' D').
      { destruct oc0 as [| |acc cb]; try discriminate M.
        apply (relx_output st' T' D' now); [exact R' | exact (LV eq_refl) | eapply handle_merge_htp; eauto]. }
      split; [split; [exact R' | exact Hb]|]. cbn [k_st]. rewrite Hb. apply verdict_merged.
    + pose proof (handle_nomerge_buf _ _ _ _ _ _ Eh M) as Hb.
      split; [split; [exact R' | cbn [k_st k_frozen]; congruence]|].
      rewrite Hb, F. apply verdict_frozen.
  - injection H as <- <- <- <-. split; [split; [eapply relx_mono; eauto | exact F]|].
    rewrite F. apply verdict_frozen.
Qed.

(* a history: (time, is-data-PDU, decoded packet) *)
Definition hist := list (N * bool * pkt).

Fixpoint crun (c : cfg) (k : cst) (h : hist) : cst :=
  match h with
  | [] => k
  | (now, isd, p) :: r => crun c (fst (fst (fst (cstep c now k isd p)))) r
  end.

Fixpoint cverdicts (c : cfg) (k : cst) (h : hist) : list N :=
  match h with
  | [] => []
  | (now, isd, p) :: r =>
    snd (fst (cstep c now k isd p)) :: cverdicts c (fst (fst (fst (cstep c now k isd p)))) r
  end.

(* times do not go backwards, sequence numbers are bytes, G_cap holds at every data packet *)
Fixpoint cguards (c : cfg) (tl : N) (k : cst) (h : hist) : Prop :=
  match h with
  | [] => True
  | (now, isd, p) :: r =>
    tl <= now /\ p_seq p < 256 /\ (isd = true -> gcap c now (k_T k) (k_D k) p = true) /\
    cguards c now (fst (fst (fst (cstep c now k isd p)))) r
  end.

Lemma cverdicts_ok c h : forall k tl, cinv k tl -> cguards c tl k h -> forall v, In v (cverdicts c k h) -> v <> 3.
Proof.
  induction h as [|[[now isd] p] h IH]; intros k tl I G v Hv; [destruct Hv|].
  cbn [cverdicts cguards] in *. destruct G as (Htl & Hp & Gc & Gr).
  destruct (cstep c now k isd p) as [[[k' oc] v0] d4] eqn:E. cbn [fst snd] in *.
  destruct (cstep_ok c now k tl isd p k' oc v0 d4 I Htl Hp Gc E) as [I' Hv0].
  destruct Hv as [<-|Hv]; [exact Hv0 | eapply IH; eauto].
Qed.

Lemma refines_text_exact c h :
  cguards c 0 init_cst h -> forall v, In v (cverdicts c init_cst h) -> v = 0 \/ v = 1 \/ v = 2.
Proof.
  intros G v Hv. pose proof (cverdicts_ok c h init_cst 0 cinv_init G v Hv) as H3.
  assert (Hr : v = 0 \/ v = 1 \/ v = 2 \/ v = 3).
  { clear H3 G. revert Hv. generalize init_cst. induction h as [|[[now isd] p] h IH]; intros k Hv; [destruct Hv|].
    cbn [cverdicts] in Hv. destruct Hv as [<-|Hv]; [|eapply IH; eauto].
    unfold cstep. destruct isd.
    - destruct (handle c now (k_st k) p) as [st' oc0]. destruct (xstep _ _ _ _ _ _ _) as [[T' D'] d].
      cbn [fst snd]. unfold verdict.
      repeat match goal with |- context [if ?b then _ else _] => destruct b end; auto.
    - cbn [fst snd]. unfold verdict.
      repeat match goal with |- context [if ?b then _ else _] => destruct b end; auto. }
  destruct Hr as [?|[?|[?|?]]]; auto. contradiction.
Qed.
