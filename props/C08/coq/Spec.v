(* C08 specification vocabulary, written from the property text:
   slot-wise maximum of a set of frames, and the ghost history (per CID / per address the last
   accepted frame with its priority and time) that the theorems relate the receiver state to. *)
From OlaBase Require Import Bytes.
From C08 Require Import Gen Model.
Local Open Scope N_scope.

Fixpoint maxl (l : list N) : N := match l with [] => 0 | x :: r => N.max x (maxl r) end.
Fixpoint maxlen (fs : list (list N)) : nat :=
  match fs with [] => O | f :: r => Nat.max (length f) (maxlen r) end.

(* [out] is the slot-wise maximum of [frames]: as long as the longest frame, every slot the
   maximum over the frames of that slot (a frame shorter than i contributes nothing) *)
Definition htp_of (frames : list (list N)) (out : list N) : Prop :=
  length out = maxlen frames /\
  forall i, nth i out 0 = maxl (map (fun f => nth i f 0) frames).

(* ghost history for sACN: last accepted data frame per CID, the priority it carried, its time *)
Record grec := mkG { g_frame : list N; g_prio : N; g_time : N }.
Definition ghost := list (N * grec).
Fixpoint glook (g : ghost) (cid : N) : option grec :=
  match g with
  | [] => None
  | (c, r) :: t => if c =? cid then Some r else glook t cid
  end.

Definition gstep (g : ghost) (now : N) (p : pkt) (oc : outcome) : ghost :=
  match oc with
  | OMerge (Some f) _ => (p_cid p, mkG f (p_prio p) now) :: g
  | _ => g
  end.

(* the receiver and the ghost run side by side over a packet history *)
Fixpoint grun (c : cfg) (st : ust) (g : ghost) (h : list (N * pkt)) : ust * ghost :=
  match h with
  | [] => (st, g)
  | (now, p) :: r =>
    let '(st', oc) := handle c now st p in grun c st' (gstep g now p oc) r
  end.

(* "0 to 19 behind the last accepted one" on 8-bit sequence numbers *)
Definition behind (last seq : N) : N := (last + 256 - seq) mod 256.

(* the tracked-source table agrees with the ghost history *)
Definition tracked_ok (st : ust) (g : ghost) : Prop :=
  NoDup (map s_cid (u_srcs st)) /\
  (length (u_srcs st) <= 6)%nat /\
  (forall s, In s (u_srcs st) ->
     glook g (s_cid s) = Some (mkG (s_buf s) (u_active st) (s_last s))) /\
  (u_srcs st = [] -> u_active st = 0) /\
  u_active st <= 200.

(* Art-Net ghost: last accepted frame per sender address and its time *)
Definition aghost := list (N * (list N * N)).
Fixpoint alook (g : aghost) (a : N) : option (list N * N) :=
  match g with
  | [] => None
  | (c, r) :: t => if c =? a then Some r else alook t a
  end.
