(* C08: every packet preserves the shadow relation (only guard: G_cap); verdict 3 is unreachable *)
From OlaBase Require Import Bytes.
From C08 Require Import Gen Model Spec ListLemmas SacnTrack SacnProofs SeqInv TextSpec TextTrack TextRel
  TextStep TextThm TextCheck ShadowRel ShadowTrack ShadowStep.
Local Open Scope N_scope.

Definition keep_of (oc : outcome) : bool := match oc with ODiscard => true | _ => false end.
Definition acc_of (oc : outcome) : bool := match oc with OMerge (Some _) _ => true | _ => false end.

Definition live_all (now : N) (T : tstate) (st : ust) : Prop :=
  forall s, In s (u_srcs st) -> exists r, tlook T (s_cid s) = Some r /\ tlive now r = true.

Lemma existsb_others (e : list src) cid :
  (forall x, In x e -> s_cid x <> cid) ->
  existsb (fun x => negb (s_cid x =? cid)) e = negb (is_nil e).
Proof.
  destruct e as [|x e]; [reflexivity|]. intros H. cbn [existsb is_nil negb].
  assert (s_cid x <> cid) by (apply H; now left). apply N.eqb_neq in H0. now rewrite H0.
Qed.

Lemma existsb_others_mid l1 (s : src) l2 cid :
  s_cid s = cid -> (forall x, In x (l1 ++ l2) -> s_cid x <> cid) ->
  existsb (fun x => negb (s_cid x =? cid)) (l1 ++ s :: l2) = negb (is_nil (l1 ++ l2)).
Proof.
  intros Hc H. rewrite existsb_app. cbn [existsb]. apply N.eqb_eq in Hc. rewrite Hc. cbn [negb orb].
  rewrite <- existsb_app. now apply existsb_others.
Qed.

Lemma step_relx c now st T D tl p st' oc T' D' d4 :
  relx st T D tl -> tl <= now -> p_seq p < 256 -> gcap c now T D p = true ->
  handle c now st p = (st', oc) ->
  xstep c now (keep_of oc) (acc_of oc) T D p = (T', D', d4) ->
  relx st' T' D' now /\ (is_merge oc = true -> live_all now T' st').
Proof.
  intros R Htl Hp G H X.
  pose proof R as (Hnd & Hlen & Hnil & HndT & R1 & R2 & Rs & Rt).
  unfold handle in H. unfold gcap in G.
  destruct (classify c p) as [[frame sc0]|] eqn:C.
  2:{ injection H as <- <-. unfold xstep in X. rewrite C in X. injection X as <- <- _.
      split; [eapply relx_mono; eauto | discriminate]. }
  destruct (classify_some _ _ _ _ C) as (Hp200 & _ & Hsc).
  destruct (top_others st T D tl now (p_cid p) R Htl) as (TA & TB & Ttu).
  fold (tu_of now T D p) in Ttu, G.
  pose proof (expire_nodup now (p_cid p) _ Hnd) as He.
  pose proof (expire_length now (p_cid p) (u_srcs st)) as Hel.
  destruct (track_all now p (u_srcs st) (u_active st) Hnd)
    as [(l1 & s & l2 & Ee & Hc & Hcase) | (Hnone & Hcase)];
    set (e := expire now (p_cid p) (u_srcs st)) in *;
    set (a := if is_nil e then 0 else u_active st) in *.
  - (* ---------------- the sender is tracked *)
    assert (Hse : In s e) by (rewrite Ee; apply in_or_app; right; now left).
    destruct (expire_in _ _ _ _ Hse) as [Hs0 _].
    destruct (R1 s Hs0) as (r & Hr & (Hmf & Hmt & Hms & Hmp & Hma) & Hd). rewrite Hc in Hr, Hd.
    assert (Ha : a = u_active st) by (unfold a; rewrite Ee; destruct l1; reflexivity).
    rewrite Ee in He. destruct (nodup_mid _ _ _ He) as [Hnd' Hoth]. rewrite Hc in Hoth.
    rewrite Ee, (existsb_others_mid l1 s l2 _ Hc Hoth) in Ttu.
    pose proof (Rs s Hs0) as Hs256.
    destruct (xstep_tracked c now (keep_of oc) (acc_of oc) T D p frame sc0 r C Hr Hma Hd) as [Xold Xnew].
    rewrite Hms in Xold, Xnew.
    assert (Hothers : forall x, In x (l1 ++ l2) <-> In x e /\ s_cid x <> p_cid p).
    { intros x. split.
      - intros Hx. split; [rewrite Ee; now apply in_other_mid | now apply Hoth].
      - intros [Hx Hne]. rewrite Ee in Hx. apply in_mid_other in Hx as [->|Hx]; [contradiction | exact Hx]. }
    destruct Hcase as [(Hold & Et) | [(Hnew & T0 & Et) | [(Hnew & T0 & Lo & Hnil' & Et) |
                      [(Hnew & T0 & Lo & Hne' & Et) | [(Hnew & T0 & Hi & Et) | (Hnew & T0 & Eq & Et)]]]]];
      rewrite Et in H; cbn [apply_track] in H.
    + (* T1 old packet *)
      injection H as <- <-. cbn [keep_of acc_of] in *.
      rewrite (Xold (oldseq_true p s Hs256 Hp Hold) eq_refl) in X. injection X as <- <- _.
      split; [|discriminate].
      apply (relx_sweep st T D tl now (p_cid p) T); auto.
      * intros r0 _ _ _. exists s. auto.
      * intros r0 Hr0. specialize (Rt _ _ Hr0). lia.
    + (* T2 terminate *)
      injection H as <- <-. rewrite (Xnew (oldseq_false p s Hs256 Hp Hnew)), T0 in X. injection X as <- <- _.
      rewrite Ha.
      destruct (relx_remove st T D tl now (p_cid p) l1 s l2 r
                  (fst (merge_sources (l1 ++ l2) (u_buf st)))
                  (if is_nil (l1 ++ l2) then 0 else u_active st) R Htl Ee Hc Hr) as [RX LV].
      split; [exact RX | intros _; exact LV].
    + (* T3 lowered, alone *)
      rewrite (Hsc T0) in H. cbn [nth set_nth refreshed s_cid s_seq s_last] in H. rewrite Hc in H.
      injection H as <- <-. rewrite (Xnew (oldseq_false p s Hs256 Hp Hnew)), T0 in X.
      unfold accepted in X. rewrite Ttu, Hnil' in X. cbn [is_nil negb] in X.
      replace (p_prio p <? 0) with false in X by (symmetry; apply N.ltb_ge; lia).
      rewrite N.max_0_r in X. injection X as <- <- _.
      destruct (relx_accept st T D tl now p frame [] [] (p_prio p)
                  (fst (merge_sources [mkSrc (p_cid p) (p_seq p) now frame] (u_buf st))) (p_prio p) R Htl Hp)
        as [RX LV].
      * cbn. constructor; [intros [] | constructor].
      * cbn. lia.
      * intros x [].
      * intros x Hx Hne. exfalso.
        assert (Hx' : In x (l1 ++ l2)) by (apply Hothers; split; [exact Hx | exact Hne]).
        rewrite Hnil' in Hx'. destruct Hx'.
      * split; [exact RX | intros _; exact LV].
    + (* T4 lowered, others remain: the sender is dropped and becomes shadowed *)
      injection H as <- <-. rewrite (Xnew (oldseq_false p s Hs256 Hp Hnew)), T0 in X.
      unfold accepted in X. rewrite Ttu in X.
      replace (negb (is_nil (l1 ++ l2))) with true in X by (destruct (l1 ++ l2); [congruence | reflexivity]).
      rewrite Ha in Lo.
      replace (p_prio p <? u_active st) with true in X by (symmetry; now apply N.ltb_lt).
      replace (N.max (p_prio p) (u_active st)) with (u_active st) in X by lia.
      injection X as <- <- _. rewrite Ha.
      destruct (relx_accept_shadowed st T D tl now p frame (l1 ++ l2)
                  (fst (merge_sources (l1 ++ l2) (u_buf st))) (u_active st) R Htl Hnd' Hne' Hothers) as [RX LV].
      split; [exact RX | intros _; exact LV].
    + (* T5 raised *)
      rewrite (Hsc T0) in H. cbn [nth set_nth refreshed s_cid s_seq s_last] in H. rewrite Hc in H.
      injection H as <- <-. rewrite (Xnew (oldseq_false p s Hs256 Hp Hnew)), T0 in X.
      unfold accepted in X. rewrite Ha in Hi.
      assert (Htu : tu_of now T D p <= u_active st) by (rewrite Ttu; destruct (is_nil (l1 ++ l2)); cbn [negb]; lia).
      replace (p_prio p <? tu_of now T D p) with false in X by (symmetry; apply N.ltb_ge; lia).
      replace (N.max (p_prio p) (tu_of now T D p)) with (p_prio p) in X by lia.
      injection X as <- <- _.
      destruct (relx_accept st T D tl now p frame [] [] (p_prio p)
                  (fst (merge_sources [mkSrc (p_cid p) (p_seq p) now frame] (u_buf st))) (p_prio p) R Htl Hp)
        as [RX LV].
      * cbn. constructor; [intros [] | constructor].
      * cbn. lia.
      * intros x [].
      * intros x _ _. right. exact Hi.
      * split; [exact RX | intros _; exact LV].
    + (* T6 same priority: refreshed in place *)
      rewrite (Hsc T0) in H. rewrite nth_middle, set_nth_mid in H.
      cbn [refreshed s_cid s_seq s_last] in H. rewrite Hc in H.
      injection H as <- <-. rewrite (Xnew (oldseq_false p s Hs256 Hp Hnew)), T0 in X.
      unfold accepted in X. rewrite Ha in Eq.
      assert (Htu : tu_of now T D p <= p_prio p) by (rewrite Ttu, Eq; destruct (is_nil (l1 ++ l2)); cbn [negb]; lia).
      replace (p_prio p <? tu_of now T D p) with false in X by (symmetry; apply N.ltb_ge; lia).
      replace (N.max (p_prio p) (tu_of now T D p)) with (p_prio p) in X by lia.
      injection X as <- <- _. rewrite Ha, <- Eq.
      destruct (relx_accept st T D tl now p frame l1 l2 (p_prio p)
                  (fst (merge_sources (l1 ++ mkSrc (p_cid p) (p_seq p) now frame :: l2) (u_buf st))) (p_prio p)
                  R Htl Hp) as [RX LV].
      * eapply nodup_replace with (s := s); [exact (eq_sym Hc) | exact He].
      * rewrite Ee in Hel. rewrite app_length in *. cbn [length] in *. lia.
      * intros x Hx. apply Hothers in Hx as [Hx Hne]. repeat split; auto. lia.
      * intros x Hx Hne. left. apply Hothers. auto.
      * split; [exact RX | intros _; exact LV].
  - (* ---------------- the sender is not tracked *)
    rewrite (existsb_others e _ Hnone) in Ttu.
    assert (Htu : tu_of now T D p = a) by (rewrite Ttu; unfold a; destruct e; reflexivity).
    assert (Hnl : forall r, tlook T (p_cid p) = Some r -> tlive now r = true -> dlook D (p_cid p) = true).
    { intros r Hr L. destruct (dlook D (p_cid p)) eqn:Hd; [reflexivity|]. exfalso.
      destruct (R2 _ r Hr (tlive_mono _ _ _ Htl L) Hd) as (s0 & Hs0 & Hc0).
      apply (Hnone s0); [now apply expire_keeps_sender | exact Hc0]. }
    assert (Hsw : forall T1, NoDup (map fst T1) ->
               (forall c', c' <> p_cid p -> tlook T1 c' = tlook T c') ->
               (forall r, tlook T1 (p_cid p) = Some r ->
                          (tlook T (p_cid p) = Some r \/ tlive now r = false) /\ t_time r <= now) ->
               relx (mkU (u_buf st) (u_pout st) a e) T1 D now).
    { intros T1 HT1 Hsame Hrec. apply (relx_sweep st T D tl now (p_cid p) T1); auto.
      - intros x Hx Hcx. exfalso. exact (Hnone x Hx Hcx).
      - intros r Hr L Hd. exfalso. destruct (Hrec r Hr) as [[Hr0|Hr0] _]; [|congruence].
        rewrite (Hnl r Hr0 L) in Hd. discriminate.
      - intros r Hr. now apply Hrec. }
    assert (Hsw0 : relx (mkU (u_buf st) (u_pout st) a e) T D now).
    { apply Hsw; auto. intros r Hr. split; [now left|]. specialize (Rt _ _ Hr). lia. }
    destruct Hcase as [(T0 & Et) | [(T0 & Lo & Et) | [(T0 & Hi & Et) | [(T0 & Eq & L6 & Et) | (T0 & Eq & L6 & Et)]]]];
      rewrite Et in H; cbn [apply_track] in H.
    + (* U1 terminate from an untracked source *)
      injection H as <- <-. cbn [keep_of acc_of] in X. split; [|discriminate].
      destruct (xstep_untracked_drop c now T D p frame sc0 C) as (d & [Xe | [(_ & r & Hr & Xe) | (T1 & _)]]);
        [| |congruence]; rewrite Xe in X; injection X as <- <- _.
      * exact Hsw0.
      * apply Hsw.
        -- now apply nodup_tupd.
        -- intros c' Hc'. now apply tlook_tupd_other.
        -- intros r0 Hr0. rewrite tlook_tupd_same in Hr0. injection Hr0 as <-.
           split; [right; reflexivity|]. cbn. specialize (Rt _ _ Hr). lia.
    + (* U2 below the active priority *)
      injection H as <- <-. cbn [keep_of acc_of] in X. split; [|discriminate].
      destruct (xstep_untracked_drop c now T D p frame sc0 C) as (d & [Xe | [(T1 & _) | (_ & Xe)]]);
        [|congruence|]; rewrite Xe in X.
      * injection X as <- <- _. exact Hsw0.
      * assert (Hene : e <> []) by (intros E; unfold a in Lo; rewrite E in Lo; cbn in Lo; lia).
        assert (Ha : a = u_active st) by (unfold a; destruct e; [congruence | reflexivity]).
        unfold accepted in X. rewrite Htu, Ha in X. rewrite Ha in Lo.
        replace (p_prio p <? u_active st) with true in X by (symmetry; now apply N.ltb_lt).
        replace (N.max (p_prio p) (u_active st)) with (u_active st) in X by lia.
        injection X as <- <- _. rewrite Ha.
        refine (proj1 (relx_accept_shadowed st T D tl now p frame e (u_buf st) (u_pout st) R Htl He Hene _)).
        intros x. split; [intros Hx; split; [exact Hx | now apply Hnone] | intros [Hx _]; exact Hx].
    + (* U3 above the active priority: takes over *)
      rewrite (Hsc T0) in H. cbn [nth set_nth newsrc s_cid s_seq s_last] in H.
      injection H as <- <-. cbn [keep_of acc_of] in X.
      destruct (xstep_untracked_rx c now T D p frame sc0 C T0 Hnl) as (d & Xe). rewrite Xe in X.
      unfold accepted in X. rewrite Htu in X.
      replace (p_prio p <? a) with false in X by (symmetry; apply N.ltb_ge; lia).
      replace (N.max (p_prio p) a) with (p_prio p) in X by lia.
      injection X as <- <- _.
      destruct (relx_accept st T D tl now p frame [] [] (p_prio p)
                  (fst (merge_sources [mkSrc (p_cid p) (p_seq p) now frame] (u_buf st))) (p_prio p) R Htl Hp)
        as [RX LV].
      * cbn. constructor; [intros [] | constructor].
      * cbn. lia.
      * intros x [].
      * intros x Hx _. right. unfold a in Hi. fold e in Hx. rewrite (a_nonempty e x) in Hi by exact Hx. exact Hi.
      * split; [exact RX | intros _; exact LV].
    + (* U4 table full: excluded by G_cap *)
      exfalso. rewrite T0, Htu, Eq, N.eqb_refl in G. cbn [orb negb] in G. apply N.leb_le in G.
      assert (Hincl : incl (map s_cid e) (map fst (vis now now D (others (p_cid p) T)))).
      { intros k Hk. apply in_map_iff in Hk as (x & <- & Hx).
        destruct (TB x Hx (Hnone x Hx)) as (r & Hi). apply in_map_iff. exists (s_cid x, r). auto. }
      pose proof (NoDup_incl_length He Hincl) as L. rewrite !map_length in L.
      unfold len in G. lia.
    + (* U5 joins at the active priority *)
      rewrite (Hsc T0) in H. rewrite nth_middle, set_nth_mid in H. cbn [newsrc s_cid s_seq s_last] in H.
      injection H as <- <-. cbn [keep_of acc_of] in X.
      destruct (xstep_untracked_rx c now T D p frame sc0 C T0 Hnl) as (d & Xe). rewrite Xe in X.
      unfold accepted in X. rewrite Htu in X.
      replace (p_prio p <? a) with false in X by (symmetry; apply N.ltb_ge; lia).
      replace (N.max (p_prio p) a) with (p_prio p) in X by lia.
      injection X as <- <- _. rewrite <- Eq.
      destruct (relx_accept st T D tl now p frame e [] (p_prio p)
                  (fst (merge_sources (e ++ [mkSrc (p_cid p) (p_seq p) now frame]) (u_buf st))) (p_prio p)
                  R Htl Hp) as [RX LV].
      * apply nodup_snoc; [exact He | exact Hnone].
      * rewrite app_length. cbn [length]. lia.
      * intros x Hx. rewrite app_nil_r in Hx. split; [exact Hx|]. split; [now apply Hnone|].
        unfold a in Eq. rewrite (a_nonempty e x) in Eq by exact Hx. split; [now symmetry | lia].
      * intros x Hx _. left. now rewrite app_nil_r.
      * split; [exact RX | intros _; exact LV].
Qed.
