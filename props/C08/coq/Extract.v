From Coq Require Extraction.
From Coq Require Import ExtrOcamlBasic.
From OlaBase Require Import Bytes.
From C08 Require Import Gen Model Spec TextSpec TextCheck.
Extraction Language OCaml.
Extraction "model.ml" io_witness N.div_eucl handle art_handle init_ust init_aport
  mkPkt mkCfg mkK mkAC mkW pkt_of_wire handle_wire VECTOR_E131_DATA mkDG handle_dgram with_rev2 VECTOR_ROOT_E131 VECTOR_ROOT_E131_REV2 EXPIRY_INTERVAL_US
  text_out xstep verdict over_cap atext_step list_eqb text_out_unshadowed cstep gcap init_cst node_op init_node cfg_of NData NEnable NDisable NMode NSubnet NNet NSendFail inflator_op ilook IPkt IReg IUnreg rebuffer.
