(* C08: the Art-Net port against the text-level statement (TextCheck.atext_step) *)
From OlaBase Require Import Bytes.
From C08 Require Import Gen Model Spec ListLemmas TextThm TextCheck ArtProofs ArtDistinct.
Local Open Scope N_scope.

Lemma scan_empty now addr srcs : forall i,
  match scan now addr i srcs with
  | (_, _, empty, _) =>
    match empty with
    | Some e => (i <= e < i + length srcs)%nat /\
                a_addr (nth (e - i) (map (tmo now addr) srcs) empty_asrc) = 0
    | None => forall s, In s srcs -> a_addr s = addr \/ a_addr (tmo now addr s) <> 0
    end
  end.
Proof.
  induction srcs as [|s r IH]; intros i; cbn [scan length map].
  - intros s [].
  - specialize (IH (S i)). destruct (scan now addr (S i) r) as [[[r' slot] empty] act].
    destruct (a_addr s =? addr) eqn:E.
    + destruct empty as [e|].
      * destruct IH as [He Ha]. split; [lia|]. replace (e - i)%nat with (S (e - S i)) by lia. exact Ha.
      * intros s0 [<-|H]; [left; now apply N.eqb_eq | now apply IH].
    + assert (T : tmo now addr s = (if a_ts s + TMO <? now then mkA 0 (a_ts s) (a_buf s) else s))
        by (unfold tmo; rewrite E; reflexivity).
      fold TMO. rewrite <- T. destruct (a_addr (tmo now addr s) =? 0) eqn:Z; cbn [negb].
      * split; [lia|]. rewrite Nat.sub_diag. cbn [nth]. now apply N.eqb_eq.
      * destruct empty as [e|].
        -- destruct IH as [He Ha]. split; [lia|]. replace (e - i)%nat with (S (e - S i)) by lia. exact Ha.
        -- intros s0 [<-|H]; [right; now apply N.eqb_neq | now apply IH].
Qed.

(* shape of an accepted packet, with the reason the slot was free *)
Lemma update_port_shape2 ltp now port source port' :
  update_port ltp now port source = (port', true) ->
  exists j, (j < length (ap_srcs port))%nat /\
    ap_srcs port' = set_nth j source (map (tmo now (a_addr source)) (ap_srcs port)) /\
    ap_buf port' = (if ltp then a_buf source else amerge (ap_srcs port') (ap_buf port)) /\
    (a_addr (nth j (ap_srcs port) empty_asrc) = a_addr source \/
     ((forall s, In s (ap_srcs port) -> a_addr s <> a_addr source) /\
      a_addr (tmo now (a_addr source) (nth j (ap_srcs port) empty_asrc)) = 0)).
Proof.
  unfold update_port.
  pose proof (scan_spec now (a_addr source) (ap_srcs port) O) as SS.
  pose proof (scan_slots now (a_addr source) (ap_srcs port) O) as SL.
  pose proof (scan_empty now (a_addr source) (ap_srcs port) O) as SE.
  destruct (scan now (a_addr source) 0 (ap_srcs port)) as [[[srcs slot] empty] act].
  destruct SS as (-> & Hs & He).
  destruct slot as [j|].
  - intros H. injection H as <-. cbn [ap_srcs ap_buf]. destruct SL as [Hj Ha]. rewrite Nat.sub_0_r in Ha.
    exists j. split; [lia|]. split; [reflexivity|]. split; [reflexivity|]. now left.
  - destruct empty as [e|]; [|discriminate]. intros H. injection H as <-. cbn [ap_srcs ap_buf].
    destruct SE as [Hj Ha]. rewrite Nat.sub_0_r, nth_map_tmo in Ha.
    exists e. split; [lia|]. split; [reflexivity|]. split; [reflexivity|]. right. auto.
Qed.

(* a rejected packet: every slot holds another sender heard within the timeout *)
Lemma update_port_reject ltp now port source port' :
  update_port ltp now port source = (port', false) ->
  ap_srcs port' = map (tmo now (a_addr source)) (ap_srcs port) /\ ap_buf port' = ap_buf port /\
  (forall s, In s (ap_srcs port) ->
     a_addr s <> a_addr source /\ a_addr s <> 0 /\ now <= a_ts s + TMO /\ tmo now (a_addr source) s = s).
Proof.
  unfold update_port.
  pose proof (scan_spec now (a_addr source) (ap_srcs port) O) as SS.
  pose proof (scan_slots now (a_addr source) (ap_srcs port) O) as SL.
  pose proof (scan_empty now (a_addr source) (ap_srcs port) O) as SE.
  destruct (scan now (a_addr source) 0 (ap_srcs port)) as [[[srcs slot] empty] act].
  destruct SS as (-> & _ & _).
  destruct slot as [j|]; [discriminate|]. destruct empty as [e|]; [discriminate|].
  intros H. injection H as <-. cbn [ap_srcs ap_buf]. split; [reflexivity|]. split; [reflexivity|].
  intros s Hs. specialize (SL s Hs). destruct (SE s Hs) as [E|Nz]; [contradiction|].
  destruct (tmo_cases now (a_addr source) s) as [(Ea & _)|[(_ & Z)|(_ & Et & Lv)]]; [contradiction|contradiction|].
  rewrite Et in Nz. auto.
Qed.

(* ------------------------------------------------------------------ the text-level ghost *)
Lemma alook_aupd_same a v G : alook (aupd a v G) a = Some v.
Proof.
  induction G as [|[c x] t IH]; cbn [aupd alook].
  - now rewrite N.eqb_refl.
  - destruct (c =? a) eqn:E; cbn [alook]; [now rewrite N.eqb_refl | now rewrite E].
Qed.

Lemma alook_aupd_other a v G a' : a' <> a -> alook (aupd a v G) a' = alook G a'.
Proof.
  intros H. induction G as [|[c x] t IH]; cbn [aupd alook].
  - apply not_eq_sym, N.eqb_neq in H. now rewrite H.
  - destruct (c =? a) eqn:E; cbn [alook].
    + apply N.eqb_eq in E. subst c. apply not_eq_sym, N.eqb_neq in H. now rewrite H.
    + destruct (c =? a'); [reflexivity | exact IH].
Qed.

Lemma keys_aupd a v G k : In k (map fst (aupd a v G)) -> k = a \/ In k (map fst G).
Proof.
  induction G as [|[c x] t IH]; cbn [aupd map fst In].
  - intros [<-|[]]. now left.
  - destruct (c =? a) eqn:E; cbn [map fst In].
    + apply N.eqb_eq in E. subst c. tauto.
    + intros [<-|H]; [tauto | destruct (IH H); tauto].
Qed.

Lemma nodup_aupd a v G : NoDup (map fst G) -> NoDup (map fst (aupd a v G)).
Proof.
  induction G as [|[c x] t IH]; cbn [aupd map fst]; intros H.
  - constructor; [intros [] | constructor].
  - inversion H as [|? ? Hn Hd]; subst. destruct (c =? a) eqn:E; cbn [map fst].
    + apply N.eqb_eq in E. subst c. now constructor.
    + constructor; [|now apply IH]. intros Hi. apply keys_aupd in Hi as [->|Hi]; [|contradiction].
      now rewrite N.eqb_refl in E.
Qed.

Lemma alook_in G a v : alook G a = Some v -> In (a, v) G.
Proof.
  induction G as [|[c x] t IH]; cbn [alook]; [discriminate|].
  destruct (c =? a) eqn:E.
  - apply N.eqb_eq in E. subst c. intros H. injection H as ->. now left.
  - intros H. right. now apply IH.
Qed.

Lemma in_alook G a v : NoDup (map fst G) -> In (a, v) G -> alook G a = Some v.
Proof.
  induction G as [|[c x] t IH]; cbn [alook map fst]; intros Hnd Hi; [destruct Hi|].
  inversion Hnd as [|? ? Hn Hd]; subst. destruct Hi as [E|Hi].
  - injection E as -> ->. now rewrite N.eqb_refl.
  - destruct (c =? a) eqn:E; [|now apply IH].
    apply N.eqb_eq in E. subst c. exfalso. apply Hn. change a with (fst (a, v)). now apply in_map.
Qed.

Definition ainv (port : aport) (G : agst) (tl : N) : Prop :=
  length (ap_srcs port) = 2%nat /\ adistinct (ap_srcs port) /\ NoDup (map fst G) /\
  (forall t, In t (ap_srcs port) -> a_addr t <> 0 -> alook G (a_addr t) = Some (a_buf t, a_ts t)) /\
  (forall a f ts, alook G a = Some (f, ts) -> tl <= ts + TMO -> exists t, In t (ap_srcs port) /\ a_addr t = a) /\
  (forall a v, alook G a = Some v -> a <> 0).

Lemma ainv_init : ainv init_aport [] 0.
Proof.
  split; [reflexivity|]. split; [exact init_distinct|]. split; [constructor|].
  split; [|split; intros; discriminate].
  intros t Ht Hz. exfalso. apply Hz. cbn in Ht. destruct Ht as [<-|[<-|[]]]; reflexivity.
Qed.

Lemma ainv_mono port G tl now : ainv port G tl -> tl <= now -> ainv port G now.
Proof.
  intros (A & B & C & D & E & F) H. repeat (split; [assumption|]). split; [|exact F].
  intros a f ts Hl Hh. apply (E a f ts Hl). lia.
Qed.

Definition others_heard (now addr : N) (G : agst) : agst :=
  filter (fun e => negb (fst e =? addr) && heard now e) G.

Lemma heard_spec now a f ts : heard now (a, (f, ts)) = true <-> now <= ts + TMO.
Proof. unfold heard, TMO, ARTNET_MERGE_TIMEOUT. cbn [snd]. apply N.leb_le. Qed.

(* the senders other than [addr] heard within the timeout are the live other slots *)
Lemma others_slots port G tl now addr :
  ainv port G tl -> tl <= now ->
  (forall a f ts, In (a, (f, ts)) (others_heard now addr G) ->
     exists t, In t (ap_srcs port) /\ a_addr t = a /\ a <> addr /\ a <> 0 /\ a_ts t = ts /\ a_buf t = f /\
               now <= a_ts t + TMO) /\
  (forall t, In t (ap_srcs port) -> a_addr t <> 0 -> a_addr t <> addr -> now <= a_ts t + TMO ->
     In (a_addr t, (a_buf t, a_ts t)) (others_heard now addr G)).
Proof.
  intros (Hl & Hd & HG & A1 & A2 & A3) Htl. split.
  - intros a f ts Hi. unfold others_heard in Hi. apply filter_In in Hi as [Hi Hc].
    apply andb_prop in Hc as [Hne Hh]. cbn [fst] in Hne. apply negb_true_iff, N.eqb_neq in Hne.
    apply heard_spec in Hh. pose proof (in_alook _ _ _ HG Hi) as Hlk.
    destruct (A2 a f ts Hlk) as (t & Ht & Ha); [lia|].
    pose proof (A3 a _ Hlk) as Hz. rewrite <- Ha in Hz. pose proof (A1 t Ht Hz) as H1.
    rewrite Ha, Hlk in H1. injection H1 as -> ->. exists t. rewrite <- Ha in *. repeat split; auto.
  - intros t Ht Hz Hne Hlv. unfold others_heard. apply filter_In. split; [apply alook_in; now apply A1|].
    cbn [fst]. apply N.eqb_neq in Hne. rewrite Hne. cbn [negb andb]. now apply heard_spec.
Qed.

Lemma others_nodup now addr G : NoDup (map fst G) -> NoDup (map fst (others_heard now addr G)).
Proof. apply nodup_map_filter. Qed.

Lemma amerge_text srcs old G now :
  filter (fun s => negb (a_addr s =? 0)) srcs <> [] ->
  (forall f, In f (map a_buf (filter (fun s => negb (a_addr s =? 0)) srcs)) <->
             In f (map (fun e => fst (snd e)) (filter (heard now) G))) ->
  amerge srcs old = fold_left htp (map (fun e : N * (list N * N) => fst (snd e)) (filter (heard now) G)) [].
Proof.
  intros Hne Hset.
  apply (htp_of_unique (map (fun e : N * (list N * N) => fst (snd e)) (filter (heard now) G))).
  - eapply htp_of_ext; [exact Hset | now apply amerge_spec].
  - pose proof (fold_htp_of (fun f : list N => f) (map (fun e : N * (list N * N) => fst (snd e)) (filter (heard now) G))) as H.
    rewrite map_id in H. exact H.
Qed.

