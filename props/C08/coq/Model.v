(* C08 model: executable Gallina mirror of
     libs/acn/DMPE131Inflator.cpp   HandlePDUData, TrackSourceIfRequired
     plugins/artnet/ArtNetNode.cpp  HandleDataPacket (arbitration part), UpdatePortFromSource
   Time is an input (microseconds, N).  No proofs here. *)
From OlaBase Require Import Bytes.
From C08 Require Import Gen.
Local Open Scope N_scope.

(* ------------------------------------------------------------------ DmxBuffer, abstractly *)
(* DmxBuffer::Set(ptr, n): copies min(n, 512) slots (the caller guarantees n readable bytes) *)
Definition dmx_set (d : list N) (n : N) : list N := take (N.min n DMX_UNIVERSE_SIZE) d.

(* DmxBuffer::HTPMerge: slot-wise max on the common prefix, the longer tail is kept *)
Fixpoint htp (a b : list N) : list N :=
  match a, b with
  | [], _ => b
  | _, [] => a
  | x :: a', y :: b' => N.max x y :: htp a' b'
  end.

Definition is_nil {A} (l : list A) : bool := match l with [] => true | _ => false end.

Fixpoint set_nth {A} (i : nat) (x : A) (l : list A) : list A :=
  match l, i with
  | [], _ => []
  | _ :: r, O => x :: r
  | y :: r, S j => y :: set_nth j x r
  end.
Fixpoint remove_nth {A} (i : nat) (l : list A) : list A :=
  match l, i with
  | [], _ => []
  | _ :: r, O => r
  | y :: r, S j => y :: remove_nth j r
  end.

(* ------------------------------------------------------------------ sACN *)
Record src := mkSrc { s_cid : N; s_seq : N; s_last : N; s_buf : list N }.

(* universe_handler: the registered buffer, the registered priority byte, active_priority, sources *)
Record ust := mkU { u_buf : list N; u_pout : N; u_active : N; u_srcs : list src }.

Record pkt := mkPkt {
  p_vec : N;          (* DMP vector *)
  p_cid : N;          (* root header CID (16 bytes as a number) *)
  p_prio : N;         (* uint8 *)
  p_seq : N;          (* uint8 *)
  p_univ : N;         (* uint16 *)
  p_preview : bool;
  p_term : bool;
  p_rev2 : bool;
  p_dmph : N;         (* DMP header byte *)
  p_pdu : list N      (* PDU data: address (start, increment, number) then property values *)
}.

Record cfg := mkCfg { c_ignore_preview : bool; c_univ : N }.

Definition init_ust : ust := mkU [] 0 0 [].

(* static_cast<int8_t>(seq - last) *)
Definition seq_diff (seq last : N) : Z :=
  let d := (seq + 256 - last) mod 256 in
  if d <? 128 then Z.of_N d else (Z.of_N d - 256)%Z.

(* the while loop: every *other* CID with now > last_heard_from + EXPIRY_INTERVAL is erased *)
Definition expire (now cid : N) (srcs : list src) : list src :=
  filter (fun s => (s_cid s =? cid) || negb (s_last s + EXPIRY_INTERVAL_US <? now)) srcs.

Fixpoint find_idx (cid : N) (srcs : list src) : option nat :=
  match srcs with
  | [] => None
  | s :: r => if s_cid s =? cid then Some O else option_map S (find_idx cid r)
  end.

Definition dummy_src : src := mkSrc 0 0 0 [].

(* result of TrackSourceIfRequired: sources, active_priority, return value, *buffer (index of the
   source whose buffer the caller must fill, None = NULL) *)
Inductive tres := TR (srcs : list src) (active : N) (ret : bool) (target : option nat).

Definition track (now : N) (p : pkt) (srcs0 : list src) (active0 : N) : tres :=
  let srcs := expire now (p_cid p) srcs0 in
  let active := if is_nil srcs then 0 else active0 in
  match find_idx (p_cid p) srcs with
  | None =>
    (* untracked source *)
    if p_term p || (p_prio p <? active) then TR srcs active false None
    else
      let srcs1 := if active <? p_prio p then [] else srcs in
      let active1 := if active <? p_prio p then p_prio p else active in
      if len srcs1 =? SACN_MAX_MERGE_SOURCES then TR srcs1 active1 false None
      else TR (srcs1 ++ [mkSrc (p_cid p) (p_seq p) now []]) active1 true (Some (length srcs1))
  | Some i =>
    let s := nth i srcs dummy_src in
    let d := seq_diff (p_seq p) (s_seq s) in
    if ((d <=? 0)%Z && (- Z.of_N SEQUENCE_DIFF_THRESHOLD_NEG <? d)%Z)%bool then TR srcs active false None
    else
      let s1 := mkSrc (s_cid s) (p_seq p) (s_last s) (s_buf s) in
      if p_term p then
        let srcs2 := remove_nth i (set_nth i s1 srcs) in
        TR srcs2 (if is_nil srcs2 then 0 else active) true None
      else
        let s2 := mkSrc (s_cid s) (p_seq p) now (s_buf s) in
        let srcs2 := set_nth i s2 srcs in
        if p_prio p <? active then
          if len srcs2 =? 1 then TR srcs2 (p_prio p) true (Some i)
          else TR (remove_nth i srcs2) active true None
        else if active <? p_prio p then
          if negb (len srcs2 =? 1) then TR [s2] (p_prio p) true (Some O)
          else TR srcs2 (p_prio p) true (Some i)
        else TR srcs2 active true (Some i)
  end.

(* DecodeAddress(TWO_BYTES, RANGE_EQUAL, ...): start, increment, number (big endian u16 each) *)
Definition decode_addr (pdu : list N) : option (N * N * N) :=
  if len pdu <? 6 then None
  else Some (join16 (nth 0 pdu 0) (nth 1 pdu 0), join16 (nth 2 pdu 0) (nth 3 pdu 0),
             join16 (nth 4 pdu 0) (nth 5 pdu 0)).

Definition dmp_header_ok (h : N) : bool :=
  negb (N.land h DMP_VIRTUAL_MASK =? 0) && (N.land h DMP_RELATIVE_MASK =? 0) &&
  (N.land h DMP_SIZE_MASK =? DMP_TWO_BYTES) &&
  (N.shiftr (N.land h DMP_TYPE_MASK) 4 =? DMP_RANGE_EQUAL).

(* what a packet did *)
Inductive outcome :=
| OIgnore                                   (* filtered before source tracking: nothing changed *)
| ODiscard                                  (* TrackSourceIfRequired returned false: no merge *)
| OMerge (accepted : option (list N)) (cb : bool).  (* merged; frame stored for the sender, if any *)

Definition merge_sources (srcs : list src) (old : list N) : list N * bool :=
  match srcs with
  | [] => ([], false)                        (* Reset(), closure not run *)
  | [s] => (s_buf s, true)
  | _ => (fold_left (fun acc s => htp acc (s_buf s)) srcs [], true)
  end.

(* the part of HandlePDUData after TrackSourceIfRequired: fill the sender's buffer, publish the
   priority, re-merge.  [frame] is what would be copied, [sc0] says start_code == 0. *)
Definition apply_track (st : ust) (frame : list N) (sc0 : bool) (r : tres) : ust * outcome :=
  match r with
  | TR srcs active false _ => (mkU (u_buf st) (u_pout st) active srcs, ODiscard)
  | TR srcs active true tgt =>
    let fill := match tgt with Some _ => sc0 | None => false end in
    let srcs' :=
      match tgt with
      | Some i =>
        if fill then
          let s := nth i srcs dummy_src in
          set_nth i (mkSrc (s_cid s) (s_seq s) (s_last s) frame) srcs
        else srcs
      | None => srcs
      end in
    let m := merge_sources srcs' (u_buf st) in
    (mkU (fst m) active active srcs', OMerge (if fill then Some frame else None) (snd m))
  end.

(* the checks of HandlePDUData before TrackSourceIfRequired: None = packet ignored; otherwise the
   frame that would be copied and whether start_code == 0 *)
Definition classify (c : cfg) (p : pkt) : option (list N * bool) :=
  if negb (p_vec p =? DMP_SET_PROPERTY_VECTOR) then None
  else if (p_preview p && c_ignore_preview c)%bool then None
  else if negb (p_univ p =? c_univ c) then None
  else if negb (dmp_header_ok (p_dmph p)) then None
  else if SACN_MAX_PRIORITY <? p_prio p then None
  else match decode_addr (p_pdu p) with
  | None => None
  | Some (start, incr, number) =>
    if negb (incr =? 1) then None
    else
      let length_remaining := len (p_pdu p) - 6 in
      let start_code : Z :=
        if p_rev2 p then Z.of_N start
        else if (negb (length_remaining =? 0) && negb (number =? 0))%bool
             then Z.of_N (nth 6 (p_pdu p) 0) else (-1)%Z in
      if (negb (start_code =? 0)%Z && negb (p_term p))%bool then None
      else
        let channels := N.min length_remaining number in
        let frame :=
          if p_rev2 p then dmx_set (drop 6 (p_pdu p)) channels
          else dmx_set (drop 7 (p_pdu p)) (channels - 1) in
        Some (frame, (start_code =? 0)%Z)
  end.

Definition handle (c : cfg) (now : N) (st : ust) (p : pkt) : ust * outcome :=
  match classify c p with
  | None => (st, OIgnore)
  | Some (frame, sc0) => apply_track st frame sc0 (track now p (u_srcs st) (u_active st))
  end.

(* E1.31 framing layer as decoded by E131Inflator / E131InflatorRev2::DecodeHeader: the options byte
   carries preview (PREVIEW_DATA_MASK) and stream-terminated (STREAM_TERMINATED_MASK); every other bit
   is ignored; the rev-2 framing header has no options byte.  Framing vectors other than
   VECTOR_E131_DATA do not reach the DMP inflator. *)
Record wire := mkW { w_cid : N; w_rev2 : bool; w_fvec : N; w_prio : N; w_seq : N; w_opts : N;
                     w_univ : N; w_dvec : N; w_dmph : N; w_pdu : list N }.

Definition pkt_of_wire (w : wire) : pkt :=
  mkPkt (w_dvec w) (w_cid w) (w_prio w) (w_seq w) (w_univ w)
        (if w_rev2 w then false else negb (N.land (w_opts w) E131_PREVIEW_DATA_MASK =? 0))
        (if w_rev2 w then false else negb (N.land (w_opts w) E131_STREAM_TERMINATED_MASK =? 0))
        (w_rev2 w) (w_dmph w) (w_pdu w).

Definition handle_wire (c : cfg) (now : N) (st : ust) (w : wire) : ust * outcome :=
  if negb (w_fvec w =? VECTOR_E131_DATA) then (st, OIgnore) else handle c now st (pkt_of_wire w).

(* a whole datagram as seen by IncomingUDPTransport::Receive and RootInflator: dropped unless it starts
   with the ACN preamble; the root vector selects the ratified (VECTOR_ROOT_E131) or the revision-2
   (VECTOR_ROOT_E131_REV2) framing decoder, every other root vector is dropped; the CID is the root
   layer header.  Both decoders feed the same DMPE131Inflator. *)
Record dgram := mkDG { d_pre_ok : bool; d_rvec : N; d_wire : wire }.

Definition with_rev2 (b : bool) (w : wire) : wire :=
  mkW (w_cid w) b (w_fvec w) (w_prio w) (w_seq w) (w_opts w) (w_univ w) (w_dvec w) (w_dmph w) (w_pdu w).

Definition handle_dgram (c : cfg) (now : N) (st : ust) (d : dgram) : ust * outcome :=
  if negb (d_pre_ok d) then (st, OIgnore)
  else if d_rvec d =? VECTOR_ROOT_E131 then handle_wire c now st (with_rev2 false (d_wire d))
  else if d_rvec d =? VECTOR_ROOT_E131_REV2 then handle_wire c now st (with_rev2 true (d_wire d))
  else (st, OIgnore).

(* ------------------------------------------------------------------ one inflator, several universes, API calls *)
(* DMPE131Inflator::m_handlers: universe -> universe_handler.  SetHandler on a universe that is already
   registered replaces buffer / priority pointer / closure and KEEPS sources and active_priority;
   RemoveHandler drops the universe with its state; a packet only touches the handler of its universe. *)
Definition istate := list (N * ust).

Fixpoint ilook (S : istate) (u : N) : option ust :=
  match S with
  | [] => None
  | (v, st) :: t => if v =? u then Some st else ilook t u
  end.
Fixpoint iset (u : N) (st : ust) (S : istate) : istate :=
  match S with
  | [] => [(u, st)]
  | (v, x) :: t => if v =? u then (u, st) :: t else (v, x) :: iset u st t
  end.
Fixpoint idel (u : N) (S : istate) : istate :=
  match S with
  | [] => []
  | (v, x) :: t => if v =? u then idel u t else (v, x) :: idel u t
  end.

Inductive iop :=
| IPkt (p : pkt)                 (* a DMP PDU for universe p_univ p *)
| IReg (u : N) (fresh : bool)    (* SetHandler(u, ...): fresh = with a new (empty) buffer and priority byte *)
| IUnreg (u : N).                (* RemoveHandler(u) *)

(* re-registration with new output objects: the registered buffer is the new, empty one *)
Definition rebuffer (st : ust) : ust := mkU [] 0 (u_active st) (u_srcs st).

Definition inflator_op (ignore_preview : bool) (now : N) (S : istate) (op : iop) : istate * outcome :=
  match op with
  | IPkt p =>
    match ilook S (p_univ p) with
    | Some st =>
      let r := handle (mkCfg ignore_preview (p_univ p)) now st p in
      (iset (p_univ p) (fst r) S, snd r)
    | None => (S, OIgnore)
    end
  | IReg u fresh =>
    (match ilook S u with
     | None => iset u init_ust S
     | Some st => if fresh then iset u (rebuffer st) S else S
     end, OIgnore)
  | IUnreg u => (idel u S, OIgnore)
  end.

(* ------------------------------------------------------------------ Art-Net *)
Record asrc := mkA { a_addr : N; a_ts : N; a_buf : list N }.   (* address 0 = wildcard = empty slot *)
Record aport := mkP { ap_srcs : list asrc; ap_merging : bool; ap_buf : list N }.
Record apkt := mkK { k_addr : N; k_net : N; k_univ : N; k_lenf : N; k_data : list N }.
Record acfg := mkAC { ac_net : N; ac_univ : N; ac_ltp : bool }.

Definition empty_asrc : asrc := mkA 0 0 [].
Definition init_aport : aport := mkP (repeat empty_asrc (N.to_nat ARTNET_MAX_MERGE_SOURCES)) false [].

(* the first loop of UpdatePortFromSource over slots i, i+1, ...:
   returns (slots after timing out, source_slot, first_empty_slot, active_sources) *)
Fixpoint scan (now addr : N) (i : nat) (srcs : list asrc)
  : list asrc * option nat * option nat * N :=
  match srcs with
  | [] => ([], None, None, 0)
  | s :: r =>
    let '(r', slot, empty, act) := scan now addr (S i) r in
    if a_addr s =? addr then
      (s :: r', match slot with Some j => Some j | None => Some i end, empty, act)
    else
      let s' := if a_ts s + ARTNET_MERGE_TIMEOUT * 1000000 <? now
                then mkA 0 (a_ts s) (a_buf s) else s in
      if negb (a_addr s' =? 0) then (s' :: r', slot, empty, act + 1)
      else (s' :: r', slot, Some i, act)
  end.

Definition amerge (srcs : list asrc) (old : list N) : list N :=
  match filter (fun s => negb (a_addr s =? 0)) srcs with
  | [] => old
  | s :: r => fold_left (fun acc t => htp acc (a_buf t)) r (a_buf s)
  end.

(* returns the new port and whether on_data ran *)
Definition update_port (ltp : bool) (now : N) (port : aport) (source : asrc) : aport * bool :=
  let '(srcs, slot, empty, act) := scan now (a_addr source) O (ap_srcs port) in
  let decision : option (nat * bool) :=
    match slot with
    | None =>
      match empty with
      | None => None
      | Some e => Some (e, negb (act =? 0))
      end
    | Some j => Some (j, if act =? 1 then false else ap_merging port)
    end in
  match decision with
  | None => (mkP srcs (ap_merging port) (ap_buf port), false)
  | Some (j, merging) =>
    let srcs' := set_nth j source srcs in
    let buf := if ltp then a_buf source else amerge srcs' (ap_buf port) in
    (mkP srcs' merging buf, true)
  end.

Definition art_handle (c : acfg) (now : N) (port : aport) (k : apkt) : aport * bool :=
  if len (k_data k) <? 2 then (port, false)
  else if negb (k_net k =? ac_net c) then (port, false)
  else if negb (k_univ k =? ac_univ c) then (port, false)
  else
    let data_size := u16 (N.min (k_lenf k) (len (k_data k))) in
    update_port (ac_ltp c) now port (mkA (k_addr k) now (dmx_set (k_data k) data_size)).

(* ------------------------------------------------------------------ the Art-Net node: four output ports *)
(* ArtNetNodeImpl: m_net_address and m_output_ports[ARTNET_MAX_PORTS]; HandleDataPacket offers every
   ArtDmx packet to EVERY enabled output port whose universe_address matches (no early exit) *)
Record nport := mkNP { np_en : bool; np_addr : N; np_ltp : bool; np_port : aport }.
Record node := mkN { n_net : N; n_ports : list nport }.

Inductive nop :=
| NData (k : apkt)                       (* an ArtDmx packet *)
| NEnable (i : nat) (u : N)              (* SetOutputPortUniverse(i, u) *)
| NDisable (i : nat)                     (* DisableOutputPort(i) *)
| NMode (i : nat) (ltp : bool)           (* SetMergeMode(i, mode) *)
| NSubnet (s : N)                        (* SetSubnetAddress(s) *)
| NNet (n : N)                           (* SetNetAddress(n) *)
| NSendFail (b : bool).                  (* from now on the node's own SendTo calls fail / succeed *)

Definition init_node : node :=
  mkN 0 (repeat (mkNP false 0 false init_aport) (N.to_nat ARTNET_MAX_PORTS)).

Definition cfg_of (net : N) (p : nport) : acfg := mkAC net (np_addr p) (np_ltp p).

Definition port_data (net now : N) (p : nport) (k : apkt) : nport * bool :=
  if np_en p then
    let r := art_handle (cfg_of net p) now (np_port p) k in
    (mkNP (np_en p) (np_addr p) (np_ltp p) (fst r), snd r)
  else (p, false).

Fixpoint upd_nth {A} (i : nat) (f : A -> A) (l : list A) : list A :=
  match l, i with
  | [], _ => []
  | x :: r, O => f x :: r
  | x :: r, S j => x :: upd_nth j f r
  end.

(* result: the node and, per port, whether its data callback ran *)
Definition node_op (now : N) (nd : node) (op : nop) : node * list bool :=
  let quiet := map (fun _ => false) (n_ports nd) in
  match op with
  | NData k =>
    let r := map (fun p => port_data (n_net nd) now p k) (n_ports nd) in
    (mkN (n_net nd) (map fst r), map snd r)
  | NEnable i u =>
    (mkN (n_net nd)
         (upd_nth i (fun p =>
            if (np_en p && (N.land (np_addr p) 15 =? N.land u 15))%bool then p
            else mkNP true (N.lor (N.land u 15) (N.land (np_addr p) 240)) (np_ltp p) (np_port p))
          (n_ports nd)), quiet)
  | NDisable i =>
    (mkN (n_net nd) (upd_nth i (fun p => mkNP false (np_addr p) (np_ltp p) (np_port p)) (n_ports nd)), quiet)
  | NMode i ltp =>
    (mkN (n_net nd) (upd_nth i (fun p => mkNP (np_en p) (np_addr p) ltp (np_port p)) (n_ports nd)), quiet)
  | NSubnet s =>
    (mkN (n_net nd)
         (map (fun p => mkNP (np_en p) (N.lor (u8 (s * 16)) (N.land (np_addr p) 15)) (np_ltp p) (np_port p))
              (n_ports nd)), quiet)
  | NNet n => (mkN (N.land n 127) (n_ports nd), quiet)
  | NSendFail _ => (nd, quiet)     (* reception and merging do not depend on the node's transmissions *)
  end.

(* ------------------------------------------------------------------ runs over histories *)
Fixpoint run (c : cfg) (st : ust) (h : list (N * pkt)) : ust :=
  match h with
  | [] => st
  | (now, p) :: r => run c (fst (handle c now st p)) r
  end.

Fixpoint arun (c : acfg) (port : aport) (h : list (N * apkt)) : aport :=
  match h with
  | [] => port
  | (now, k) :: r => arun c (fst (art_handle c now port k)) r
  end.
