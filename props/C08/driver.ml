(* C08 model driver.  payloads:
     sacn <ignore_preview> <univ> <step>,...   step = dt:vec:cid:prio:seq:univ:flags:dmph:pduhex
     art <ltp> <step>,...                      step = dt:addr:net:univ:lenfield:datahex
     consts *)
let t0 = 100000000
let colon s = String.split_on_char ':' s
let comma s = String.split_on_char ',' s
let nn s = n_of_int (ios s)
let ni x = string_of_int (int_of_n x)

let run_sacn ip univ steps =
  let c = { c_ignore_preview = (ip <> "0"); c_univ = nn univ } in
  let st = ref init_ust in
  let now = ref t0 in
  let out = Buffer.create 256 in
  let letters = ref [] in
  let maxsrc = ref 0 in
  List.iteri (fun i s ->
    match colon s with
    | [dt; vec; cid; prio; seq; u; flags; dmph; pdu] ->
      now := !now + ios dt;
      let fl = ios flags in
      let p = { p_vec = nn vec; p_cid = nn cid; p_prio = nn prio; p_seq = nn seq; p_univ = nn u;
                p_preview = (fl land 1 <> 0); p_term = (fl land 2 <> 0); p_rev2 = (fl land 4 <> 0);
                p_dmph = nn dmph; p_pdu = bytes_of_hex pdu } in
      let before = List.length !st.u_srcs in
      let (st', oc) = handle c (n_of_int !now) !st p in
      st := st';
      let after = List.length st'.u_srcs in
      if after > !maxsrc then maxsrc := after;
      let cb, l = match oc with
        | OIgnore -> false, "I"
        | ODiscard -> false, (if after < before then "Dx" else "D")
        | OMerge (acc, cb) ->
          cb, (match acc, after with
               | None, 0 -> "E" | None, _ -> "T"
               | Some _, 1 -> if before > 1 then "S<" else "S"
               | Some _, _ -> "H") in
      if not (List.mem l !letters) then letters := l :: !letters;
      if i > 0 then Buffer.add_char out ';';
      Buffer.add_string out (Printf.sprintf "o%d=%s|%s|%s" i (bool01 cb) (ni st'.u_pout)
                               (hex_of_bytes st'.u_buf));
      Buffer.add_string out (Printf.sprintf ";t%d=%s|%s" i (ni st'.u_active)
        (String.concat "+" (List.map (fun s ->
           Printf.sprintf "%s.%s.%s.%s" (ni s.s_cid) (ni s.s_seq) (ni s.s_last) (hex_of_bytes s.s_buf))
           st'.u_srcs)))
    | _ -> failwith "bad sacn step") steps;
  Buffer.add_string out (Printf.sprintf ";class=sacn:n%d:%s" !maxsrc
                           (String.concat "" (List.sort compare !letters)));
  Buffer.contents out

let run_art ltp steps =
  let c = { ac_net = n_of_int 4; ac_univ = n_of_int 0x23; ac_ltp = (ltp <> "0") } in
  let port = ref init_aport in
  let now = ref t0 in
  let out = Buffer.create 256 in
  let letters = ref [] in
  List.iteri (fun i s ->
    match colon s with
    | [dt; addr; net; u; lenf; data] ->
      now := !now + ios dt;
      let k = { k_addr = nn addr; k_net = nn net; k_univ = nn u; k_lenf = nn lenf;
                k_data = bytes_of_hex data } in
      let live_before = List.length (List.filter (fun a -> a.a_addr <> N0) !port.ap_srcs) in
      let (port', cb) = art_handle c (n_of_int !now) !port k in
      let live_after = List.length (List.filter (fun a -> a.a_addr <> N0) port'.ap_srcs) in
      port := port';
      let l = if not cb then (if live_before >= 2 then "3" else "I")
              else if live_after >= 2 then "M" else if live_after < live_before then "X" else "S" in
      if not (List.mem l !letters) then letters := l :: !letters;
      if i > 0 then Buffer.add_char out ';';
      Buffer.add_string out (Printf.sprintf "o%d=%s|%s" i (bool01 cb) (hex_of_bytes port'.ap_buf));
      Buffer.add_string out (Printf.sprintf ";t%d=%s|%s" i (bool01 port'.ap_merging)
        (String.concat "+" (List.map (fun a ->
           Printf.sprintf "%s.%s.%s" (ni a.a_addr) (ni a.a_ts) (hex_of_bytes a.a_buf)) port'.ap_srcs)))
    | _ -> failwith "bad art step") steps;
  Buffer.add_string out (Printf.sprintf ";class=art:%s:%s" (if ltp <> "0" then "ltp" else "htp")
                           (String.concat "" (List.sort compare !letters)));
  Buffer.contents out

let handle_payload (p : string) : string =
  match split p with
  | ["sacn"; ip; univ; steps] -> run_sacn ip univ (comma steps)
  | ["art"; ltp; steps] -> run_art ltp (comma steps)
  | ["consts"] -> Printf.sprintf "expiry_us=%s;class=consts" (ni eXPIRY_INTERVAL_US)
  | _ -> "bad-op"
let () = vh_run handle_payload
