(* C08 model driver.  payloads:
     sacn <ignore_preview> <univ> <step>,...   step = dt:vec:cid:prio:seq:univ:flags:dmph:pduhex
     art <ltp> <step>,...                      step = dt:addr:net:univ:lenfield:datahex
     consts *)
let t0 = 100000000
let colon s = String.split_on_char ':' s
let comma s = String.split_on_char ',' s
let nn s = n_of_int (ios s)
let ni x = string_of_int (int_of_n x)

let run_sacn wire ip univ steps =
  let c = { c_ignore_preview = (ip <> "0"); c_univ = nn univ } in
  let st = ref init_ust in
  let now = ref t0 in
  let out = Buffer.create 256 in
  let letters = ref [] in
  let maxsrc = ref 0 in
  (* text-level instance checker (TextCheck.v) *)
  let tT = ref [] and tD = ref [] and frozen = ref [] and cap = ref false in
  let verdicts = ref [] in
  List.iteri (fun i s ->
    let parsed =
      match wire, colon s with
      | false, [dt; vec; cid; prio; seq; u; flags; dmph; pdu] ->
        let fl = ios flags in
        Some (dt, None, { p_vec = nn vec; p_cid = nn cid; p_prio = nn prio; p_seq = nn seq; p_univ = nn u;
                  p_preview = (fl land 1 <> 0); p_term = (fl land 2 <> 0); p_rev2 = (fl land 4 <> 0);
                  p_dmph = nn dmph; p_pdu = bytes_of_hex pdu })
      | true, [dt; cid; rev2; fvec; prio; seq; opts; u; dvec; dmph; pdu] ->
        let w = { w_cid = nn cid; w_rev2 = (rev2 <> "0"); w_fvec = nn fvec; w_prio = nn prio; w_seq = nn seq;
                  w_opts = nn opts; w_univ = nn u; w_dvec = nn dvec; w_dmph = nn dmph;
                  w_pdu = bytes_of_hex pdu } in
        Some (dt, Some (w, None), pkt_of_wire w)
      | true, [dt; cid; _; fvec; prio; seq; opts; u; dvec; dmph; pdu; pre; rvec] ->
        let rv = nn rvec in
        let w = { w_cid = nn cid; w_rev2 = (rv = vECTOR_ROOT_E131_REV2); w_fvec = nn fvec; w_prio = nn prio;
                  w_seq = nn seq; w_opts = nn opts; w_univ = nn u; w_dvec = nn dvec; w_dmph = nn dmph;
                  w_pdu = bytes_of_hex pdu } in
        Some (dt, Some (w, Some { d_pre_ok = (pre = "1"); d_rvec = rv; d_wire = w }), pkt_of_wire w)
      | _ -> None in
    match parsed with
    | Some (dt, wopt, p) ->
      now := !now + ios dt;
      let before = List.length !st.u_srcs in
      (* a framing PDU that is not a data PDU is no packet for the text either *)
      let is_data = (match wopt with
                     | Some (w, dg) ->
                       w.w_fvec = vECTOR_E131_DATA &&
                       (match dg with
                        | Some g -> g.d_pre_ok && (g.d_rvec = vECTOR_ROOT_E131 || g.d_rvec = vECTOR_ROOT_E131_REV2)
                        | None -> true)
                     | None -> true) in
      let kk = { k_st = !st; k_T = !tT; k_D = !tD; k_frozen = !frozen } in
      (* G_cap is evaluated on the text state before the packet *)
      if is_data && not (gcap c (n_of_int !now) !tT !tD p) then cap := true;
      let (((k', oc), vN), d4) = cstep c (n_of_int !now) kk is_data p in
      let st' = k'.k_st and t' = k'.k_T and d' = k'.k_D in
      (match wopt with
       | Some (w, None) -> if handle_wire c (n_of_int !now) !st w <> (st', oc) then failwith "cstep/handle_wire"
       | Some (_, Some g) -> if handle_dgram c (n_of_int !now) !st g <> (st', oc) then failwith "cstep/handle_dgram"
       | None -> ());
      st := st';
      let after = List.length st'.u_srcs in
      if after > !maxsrc then maxsrc := after;
      if d4 && not (List.mem 4 !verdicts) then verdicts := 4 :: !verdicts;
      tT := t'; tD := d'; frozen := k'.k_frozen;
      let v = if !cap then 0 else int_of_n vN in
      if not (List.mem v !verdicts) then verdicts := v :: !verdicts;
      if Sys.getenv_opt "C08_DEBUG" <> None then
        prerr_endline (Printf.sprintf "step %d now=%d v=%d buf=%s text=%s unsh=%s frozen=%s T=[%s] D=[%s]" i !now v
          (hex_of_bytes st'.u_buf) (hex_of_bytes (text_out (n_of_int !now) t'))
          (hex_of_bytes (text_out_unshadowed (n_of_int !now) t' d'))
          (hex_of_bytes !frozen)
          (String.concat ";" (List.map (fun (c, r) -> Printf.sprintf "%s:p%s,t%s,s%s,%b" (ni c) (ni r.t_prio) (ni r.t_time) (ni r.t_seq) r.t_alive) t'))
          (String.concat ";" (List.map (fun (c, b) -> Printf.sprintf "%s:%b" (ni c) b) d')));
      let cb, l = match oc with
        | OIgnore -> false, "I"
        | ODiscard -> false, (if after < before then "Dx" else "D")
        | OMerge (acc, cb) ->
          cb, (match acc, after with
               | None, 0 -> "E" | None, _ -> "T"
               | Some _, 1 -> if before > 1 then "S<" else "S"
               | Some _, _ -> "H") in
      if not (List.mem l !letters) then letters := l :: !letters;
      if i > 0 then Buffer.add_char out ';';
      Buffer.add_string out (Printf.sprintf "o%d=%s|%s|%s" i (bool01 cb) (ni st'.u_pout)
                               (hex_of_bytes st'.u_buf));
      Buffer.add_string out (Printf.sprintf ";t%d=%s|%s" i (ni st'.u_active)
        (String.concat "+" (List.map (fun s ->
           Printf.sprintf "%s.%s.%s.%s" (ni s.s_cid) (ni s.s_seq) (ni s.s_last) (hex_of_bytes s.s_buf))
           st'.u_srcs)))
    | None -> failwith "bad sacn step") steps;
  let vs = List.sort compare !verdicts in
  Buffer.add_string out (Printf.sprintf ";txt=%s" (if List.mem 3 vs then "0" else "1"));
  if not (List.mem 3 vs) then begin
    (* the first departure found decides the finding id; both are listed when both occur *)
    if List.mem 1 vs then Buffer.add_string out ";known=C08-sacn-handdown-gap"
    else if List.mem 2 vs then Buffer.add_string out ";known=C08-sacn-stale-after-discard"
    else if List.mem 4 vs then Buffer.add_string out ";known=C08-sacn-seq-window-forgotten"
  end;
  Buffer.add_string out (Printf.sprintf ";class=sacn:n%d:%s:txt%s%s" !maxsrc
                           (String.concat "" (List.sort compare !letters))
                           (String.concat "" (List.map string_of_int vs))
                           (if !cap then "cap" else ""));
  Buffer.contents out

let run_art ltp steps =
  let cr = ref { ac_net = n_of_int 4; ac_univ = n_of_int 0x23; ac_ltp = (ltp <> "0") } in
  let port = ref init_aport in
  let now = ref t0 in
  let out = Buffer.create 256 in
  let letters = ref [] in
  let gG = ref [] and txt_ok = ref true and wild = ref false in
  List.iteri (fun i s ->
    let c = !cr in
    match (match colon s with [a; b; c0; d0; e0; f0; _] -> [a; b; c0; d0; e0; f0] | l -> l) with
    | ["m"; mode] ->
      cr := { c with ac_ltp = (mode <> "0") };
      if i > 0 then Buffer.add_char out ';';
      Buffer.add_string out (Printf.sprintf "o%d=m|%s" i (hex_of_bytes !port.ap_buf))
    | [dt; addr; net; u; lenf; data] ->
      now := !now + ios dt;
      let k = { k_addr = nn addr; k_net = nn net; k_univ = nn u; k_lenf = nn lenf;
                k_data = bytes_of_hex data } in
      let live_before = List.length (List.filter (fun a -> a.a_addr <> N0) !port.ap_srcs) in
      let (port', cb) = art_handle c (n_of_int !now) !port k in
      let live_after = List.length (List.filter (fun a -> a.a_addr <> N0) port'.ap_srcs) in
      port := port';
      if k.k_addr = N0 then wild := true;
      let (g', o) = atext_step c (n_of_int !now) !gG k in
      gG := g';
      (match o with
       | None -> if cb then txt_ok := false
       | Some b -> if not cb || not (list_eqb b port'.ap_buf) then txt_ok := false);
      let l = if not cb then (if live_before >= 2 then "3" else "I")
              else if live_after >= 2 then "M" else if live_after < live_before then "X" else "S" in
      if not (List.mem l !letters) then letters := l :: !letters;
      if i > 0 then Buffer.add_char out ';';
      Buffer.add_string out (Printf.sprintf "o%d=%s|%s" i (bool01 cb) (hex_of_bytes port'.ap_buf));
      Buffer.add_string out (Printf.sprintf ";t%d=%s|%s" i (bool01 port'.ap_merging)
        (String.concat "+" (List.map (fun a ->
           Printf.sprintf "%s.%s.%s" (ni a.a_addr) (ni a.a_ts) (hex_of_bytes a.a_buf)) port'.ap_srcs)))
    | _ -> failwith "bad art step") steps;
  (* 0.0.0.0 is the receiver's "empty slot" marker, not a sender the text speaks about *)
  Buffer.add_string out (Printf.sprintf ";txt=%s" (if !txt_ok || !wild then "1" else "0"));
  Buffer.add_string out (Printf.sprintf ";class=art:%s:%s%s" (if ltp <> "0" then "ltp" else "htp")
                           (String.concat "" (List.sort compare !letters)) (if !wild then ":wild" else ""));
  Buffer.contents out

(* artn <step>,...   step: dt:addr:net:univ:lenfield:datahex | e:port:univ | d:port | m:port:ltp | s:subnet | n:net *)
let run_artn steps =
  let nd = ref init_node in
  let gs = ref (List.map (fun _ -> []) init_node.n_ports) in
  let now = ref t0 in
  let out = Buffer.create 256 in
  let txt_ok = ref true and wild = ref false in
  let kinds = ref [] in
  let note l = if not (List.mem l !kinds) then kinds := l :: !kinds in
  List.iteri (fun i s ->
    if i > 0 then Buffer.add_char out ';';
    let f = (match colon s with [a; b; c0; d0; e0; f0; _] -> [a; b; c0; d0; e0; f0] | l -> l) in
    let op = match f with
      | [dt; addr; net; u; lenf; data] ->
        now := !now + ios dt;
        NData { k_addr = nn addr; k_net = nn net; k_univ = nn u; k_lenf = nn lenf; k_data = bytes_of_hex data }
      | ["e"; p; u] -> note "e"; NEnable (nat_of_int (ios p), nn u)
      | ["d"; p] -> note "d"; NDisable (nat_of_int (ios p))
      | ["m"; p; l] -> note "m"; NMode (nat_of_int (ios p), l <> "0")
      | ["s"; v] -> note "s"; NSubnet (nn v)
      | ["n"; v] -> note "n"; NNet (nn v)
      | ["f"; v] -> note "f"; NSendFail (v <> "0")
      | _ -> failwith "bad artn step" in
    let before = !nd in
    let (nd', cbs) = node_op (n_of_int !now) before op in
    nd := nd';
    (match op with
     | NData k ->
       if k.k_addr = N0 then wild := true;
       (* text level, port by port: its own address and merge mode *)
       let hit = ref 0 in
       gs := List.map2 (fun (p, (p', cb)) g ->
           if p.np_en then begin
             let (g', o) = atext_step (cfg_of before.n_net p) (n_of_int !now) g k in
             (match o with
              | None -> if cb then txt_ok := false
              | Some b -> incr hit; if not cb || not (list_eqb b p'.np_port.ap_buf) then txt_ok := false);
             g' end
           else begin (if cb then txt_ok := false); g end)
         (List.combine before.n_ports (List.combine nd'.n_ports cbs)) !gs;
       note (Printf.sprintf "h%d" !hit);
       Buffer.add_string out (Printf.sprintf "o%d=%s" i
         (String.concat "/" (List.map2 (fun p cb -> bool01 cb ^ "." ^ hex_of_bytes p.np_port.ap_buf) nd'.n_ports cbs)));
       Buffer.add_string out (Printf.sprintf ";t%d=%s" i
         (String.concat "/" (List.map (fun p -> bool01 p.np_port.ap_merging ^ "|" ^
            String.concat "+" (List.map (fun a -> Printf.sprintf "%s.%s.%s" (ni a.a_addr) (ni a.a_ts) (hex_of_bytes a.a_buf))
                                 p.np_port.ap_srcs)) nd'.n_ports)))
     | _ ->
       Buffer.add_string out (Printf.sprintf "o%d=c|%s|%s" i (ni nd'.n_net)
         (String.concat "/" (List.map (fun p -> bool01 p.np_en ^ "." ^ ni p.np_addr) nd'.n_ports))))) steps;
  Buffer.add_string out (Printf.sprintf ";txt=%s" (if !txt_ok || !wild then "1" else "0"));
  Buffer.add_string out (Printf.sprintf ";class=artn:%s%s" (String.concat "" (List.sort compare !kinds))
                           (if !wild then ":wild" else ""));
  Buffer.contents out

(* sacnm <ignore_preview> <step>,...  one inflator, universes 1..3 observed
   step: r:univ:fresh | x:univ | dt:vec:cid:prio:seq:univ:flags:dmph:pduhex *)
let run_sacnm ip steps =
  let ipb = (ip <> "0") in
  let univs = [1; 2; 3] in
  let st = ref [] in
  let ks = ref [] in                       (* universe -> checker state (text level) *)
  let caps = ref [] in
  let now = ref t0 in
  let out = Buffer.create 256 in
  let verdicts = ref [] and kinds = ref [] in
  let note l = if not (List.mem l !kinds) then kinds := l :: !kinds in
  List.iteri (fun i s ->
    if i > 0 then Buffer.add_char out ';';
    let cbu = ref (-1) and cbv = ref false in
    let op = match colon s with
      | ["r"; u; fr] -> note (if fr <> "0" then "R" else "r"); IReg (nn u, fr <> "0")
      | ["x"; u] -> note "x"; IUnreg (nn u)
      | [dt; vec; cid; prio; seq; u; flags; dmph; pdu] ->
        now := !now + ios dt;
        let fl = ios flags in
        IPkt { p_vec = nn vec; p_cid = nn cid; p_prio = nn prio; p_seq = nn seq; p_univ = nn u;
               p_preview = (fl land 1 <> 0); p_term = (fl land 2 <> 0); p_rev2 = (fl land 4 <> 0);
               p_dmph = nn dmph; p_pdu = bytes_of_hex pdu }
      | _ -> failwith "bad sacnm step" in
    let (st', oc) = inflator_op ipb (n_of_int !now) !st op in
    (* text level, per universe *)
    (match op with
     | IReg (u, fresh) ->
       let ui = int_of_n u in
       (match List.assoc_opt ui !ks with
        | None -> ks := (ui, init_cst) :: !ks
        | Some k -> if fresh then
            ks := (ui, { k with k_st = rebuffer k.k_st; k_frozen = [] }) :: List.remove_assoc ui !ks)
     | IUnreg u -> ks := List.remove_assoc (int_of_n u) !ks
     | IPkt p ->
       let ui = int_of_n p.p_univ in
       (match List.assoc_opt ui !ks with
        | None -> ()
        | Some k ->
          let c = { c_ignore_preview = ipb; c_univ = p.p_univ } in
          if not (gcap c (n_of_int !now) k.k_T k.k_D p) then caps := ui :: !caps;
          let (((k', oc'), vN), d4) = cstep c (n_of_int !now) k true p in
          if oc' <> oc || ilook st' p.p_univ <> Some k'.k_st then failwith "cstep/inflator_op";
          ks := (ui, k') :: List.remove_assoc ui !ks;
          cbu := ui; cbv := (match oc with OMerge (_, cb) -> cb | _ -> false);
          note (match oc with OIgnore -> "I" | ODiscard -> "D" | OMerge (None, _) -> "T" | OMerge (Some _, _) -> "M");
          if d4 && not (List.mem 4 !verdicts) then verdicts := 4 :: !verdicts;
          let v = if List.mem ui !caps then 0 else int_of_n vN in
          if not (List.mem v !verdicts) then verdicts := v :: !verdicts));
    st := st';
    Buffer.add_string out (Printf.sprintf "o%d=%s" i (String.concat "/" (List.map (fun u ->
      match ilook st' (n_of_int u) with
      | None -> "-"
      | Some x -> Printf.sprintf "%s|%s|%s" (bool01 (u = !cbu && !cbv)) (ni x.u_pout) (hex_of_bytes x.u_buf)) univs)));
    Buffer.add_string out (Printf.sprintf ";t%d=%s" i (String.concat "/" (List.map (fun u ->
      match ilook st' (n_of_int u) with
      | None -> "-"
      | Some x -> ni x.u_active ^ "|" ^ String.concat "+" (List.map (fun s ->
           Printf.sprintf "%s.%s.%s.%s" (ni s.s_cid) (ni s.s_seq) (ni s.s_last) (hex_of_bytes s.s_buf)) x.u_srcs)) univs)))) steps;
  let vs = List.sort compare !verdicts in
  Buffer.add_string out (Printf.sprintf ";txt=%s" (if List.mem 3 vs then "0" else "1"));
  if not (List.mem 3 vs) then begin
    if List.mem 1 vs then Buffer.add_string out ";known=C08-sacn-handdown-gap"
    else if List.mem 2 vs then Buffer.add_string out ";known=C08-sacn-stale-after-discard"
    else if List.mem 4 vs then Buffer.add_string out ";known=C08-sacn-seq-window-forgotten"
  end;
  Buffer.add_string out (Printf.sprintf ";class=sacnm:%s:txt%s" (String.concat "" (List.sort compare !kinds))
                           (String.concat "" (List.map string_of_int vs)));
  Buffer.contents out

let handle_payload (p : string) : string =
  match split p with
  | ["sacn"; ip; univ; steps] -> run_sacn false ip univ (comma steps)
  | ["sacnw"; ip; univ; steps] -> run_sacn true ip univ (comma steps)
  | ["art"; ltp; steps] -> run_art ltp (comma steps)
  | ["artn"; steps] -> run_artn (comma steps)
  | ["sacnm"; ip; steps] -> run_sacnm ip (comma steps)
  | ["consts"] -> Printf.sprintf "expiry_us=%s;class=consts" (ni eXPIRY_INTERVAL_US)
  | _ -> "bad-op"
let () = vh_run handle_payload
