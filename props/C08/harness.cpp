// C08 correspondence harness: the real DMPE131Inflator (sACN merge) and the real ArtNetNodeImpl
// (Art-Net merge) driven packet by packet under a virtual clock (clock_gettime/gettimeofday are
// interposed at link time).
#include <sys/time.h>
#include <time.h>
#include <algorithm>
#include <deque>
#include <iomanip>
#include <list>
#include <map>
#include <memory>
#include <queue>
#include <set>
#include <sstream>
#include <string>
#include <utility>
#include <vector>
#include "vh.h"

#define private public
#define protected public
#include "ola/Callback.h"
#include "ola/Clock.h"
#include "ola/DmxBuffer.h"
#include "ola/Logging.h"
#include "ola/acn/CID.h"
#include "ola/io/SelectServer.h"
#include "ola/network/IPV4Address.h"
#include "ola/network/Interface.h"
#include "ola/network/MACAddress.h"
#include "ola/testing/MockUDPSocket.h"
#include "libs/acn/DMPE131Inflator.h"
#include "libs/acn/DMPHeader.h"
#include "libs/acn/E131Inflator.h"
#include "libs/acn/PreamblePacker.h"
#include "libs/acn/RootInflator.h"
#include "libs/acn/UDPTransport.h"
#include "ola/network/Socket.h"
#include "libs/acn/E131Header.h"
#include "libs/acn/HeaderSet.h"
#include "libs/acn/RootHeader.h"
#include "plugins/artnet/ArtNetNode.h"
#undef private
#undef protected

using std::string;
using std::vector;

// ------------------------------------------------------------------ virtual time
static uint64_t g_now_us = 0;
static const uint64_t T0 = 100000000ULL;  // 100 s; the model starts there too

extern "C" int __wrap_clock_gettime(clockid_t, struct timespec *ts) {
  ts->tv_sec = g_now_us / 1000000ULL;
  ts->tv_nsec = (g_now_us % 1000000ULL) * 1000ULL;
  return 0;
}
extern "C" int __wrap_gettimeofday(struct timeval *tv, void *) {
  tv->tv_sec = g_now_us / 1000000ULL;
  tv->tv_usec = g_now_us % 1000000ULL;
  return 0;
}

static uint64_t ts_us(const ola::TimeStamp &t) {
  return static_cast<uint64_t>(t.Seconds()) * 1000000ULL + t.MicroSeconds();
}

static string buf_hex(const ola::DmxBuffer &b) {
  string s = b.Get();
  return vh::hex(s);
}

static size_t rng_short(size_t n) { return n < 16 ? n / 2 : 15 - (n % 9); }  // shorter than the preamble
static int g_cb = 0;
static void on_cb() { g_cb++; }

// a UDP socket whose next datagram is supplied by the harness (IncomingUDPTransport wants a UDPSocket*)
class FedUDPSocket: public ola::network::UDPSocket {
 public:
  std::vector<uint8_t> next;
  bool RecvFrom(uint8_t *buffer, ssize_t *data_read, ola::network::IPV4SocketAddress *source) {
    size_t n = std::min(static_cast<size_t>(*data_read), next.size());
    if (n) memcpy(buffer, next.data(), n);
    *data_read = n;
    *source = ola::network::IPV4SocketAddress(ola::network::IPV4Address(0x0a00000b), 5568);
    return true;
  }
  using ola::network::UDPSocket::RecvFrom;
};

// ------------------------------------------------------------------ sACN
// payload: sacn <ignore_preview> <registered universe> <step>,<step>,...
// step:    dt:vec:cid:prio:seq:univ:flags:dmph:pduhex     flags: 1 preview, 2 terminated, 4 rev2
static string run_sacn(const vector<string> &a, bool wire) {
  using namespace ola::acn;  // NOLINT
  bool ignore_preview = vh::num(a[1]) != 0;
  uint16_t reg_univ = vh::num(a[2]);
  g_now_us = T0;
  DMPE131Inflator inflator(ignore_preview);
  // wired as in E131Node: framing-layer inflators (ratified and revision 2) in front of the merger
  E131Inflator e131_inflator;
  E131InflatorRev2 e131_rev2_inflator;
  e131_inflator.AddInflator(&inflator);
  e131_rev2_inflator.AddInflator(&inflator);
  // ... and the root layer + UDP transport in front of those, for whole datagrams
  RootInflator root_inflator;
  root_inflator.AddInflator(&e131_inflator);
  root_inflator.AddInflator(&e131_rev2_inflator);
  FedUDPSocket fed_socket;
  IncomingUDPTransport transport(&fed_socket, &root_inflator);
  ola::DmxBuffer out;
  uint8_t prio = 0;
  g_cb = 0;
  inflator.SetHandler(reg_univ, &out, &prio, ola::NewCallback(&on_cb));
  std::ostringstream res;
  vector<string> steps = vh::split(a[3], ',');
  for (size_t i = 0; i < steps.size(); i++) {
    vector<string> f = vh::split(steps[i], ':');
    g_now_us += vh::num(f[0]);
    uint32_t cidn = vh::num(wire ? f[1] : f[2]);
    uint8_t cid_bytes[16];
    memset(cid_bytes, 0, sizeof(cid_bytes));
    cid_bytes[0] = 0xc8;
    cid_bytes[12] = cidn >> 24; cid_bytes[13] = cidn >> 16; cid_bytes[14] = cidn >> 8; cid_bytes[15] = cidn;
    HeaderSet headers;
    RootHeader root;
    root.SetCid(CID::FromData(cid_bytes));
    headers.SetRootHeader(root);
    g_cb = 0;
    if (!wire) {
      // step: dt:vec:cid:prio:seq:univ:flags:dmph:pduhex  (constructed HeaderSet)
      uint32_t vec = vh::num(f[1]);
      unsigned flags = vh::num(f[6]);
      headers.SetE131Header(E131Header("src", vh::num(f[3]), vh::num(f[4]), vh::num(f[5]),
                                       flags & 1, flags & 2, flags & 4));
      headers.SetDMPHeader(DMPHeader(static_cast<uint8_t>(vh::num(f[7]))));
      vh::Exact pdu(vh::unhex(f[8]));
      inflator.HandlePDUData(vec, headers, pdu.p, pdu.n);
    } else {
      // step: dt:cid:rev2:fvec:prio:seq:opts:univ:dvec:dmph:pduhex  (framing-layer bytes, real decoders)
      bool whole = f.size() >= 13;   // ...:pre:rvec  = a whole datagram through the receive stack
      uint32_t rvec = whole ? vh::num(f[12]) : 0;
      bool rev2 = whole ? (rvec == ola::acn::VECTOR_ROOT_E131_REV2) : (vh::num(f[2]) != 0);
      uint32_t fvec = vh::num(f[3]);
      uint16_t univ = vh::num(f[7]);
      vector<uint8_t> body = vh::unhex(f[10]);
      vector<uint8_t> dmp;   // DMP PDU: flags+length, vector (1 byte), header (1 byte), data
      unsigned dlen = 2 + 1 + 1 + body.size();
      dmp.push_back(0x70 | ((dlen >> 8) & 0x0f)); dmp.push_back(dlen & 0xff);
      dmp.push_back(static_cast<uint8_t>(vh::num(f[8])));
      dmp.push_back(static_cast<uint8_t>(vh::num(f[9])));
      dmp.insert(dmp.end(), body.begin(), body.end());
      vector<uint8_t> hdr;   // E1.31 framing header
      const char name[] = "verif source";
      unsigned name_len = rev2 ? 32 : 64;
      for (unsigned k = 0; k < name_len; k++) hdr.push_back(k < sizeof(name) ? name[k] : 0);
      hdr.push_back(static_cast<uint8_t>(vh::num(f[4])));      // priority
      if (!rev2) { hdr.push_back(0); hdr.push_back(0); }        // reserved
      hdr.push_back(static_cast<uint8_t>(vh::num(f[5])));      // sequence
      if (!rev2) hdr.push_back(static_cast<uint8_t>(vh::num(f[6])));  // options
      hdr.push_back(univ >> 8); hdr.push_back(univ & 0xff);
      vector<uint8_t> pk;    // framing PDU: flags+length, vector (4 bytes), header, DMP block
      unsigned flen = 2 + 4 + hdr.size() + dmp.size();
      pk.push_back(0x70 | ((flen >> 8) & 0x0f)); pk.push_back(flen & 0xff);
      pk.push_back(fvec >> 24); pk.push_back(fvec >> 16); pk.push_back(fvec >> 8); pk.push_back(fvec);
      pk.insert(pk.end(), hdr.begin(), hdr.end());
      pk.insert(pk.end(), dmp.begin(), dmp.end());
      if (whole) {
        unsigned pre = vh::num(f[11]);   // 1 valid preamble, 0 corrupted, 2 truncated datagram
        vector<uint8_t> dg(PreamblePacker::ACN_HEADER, PreamblePacker::ACN_HEADER + PreamblePacker::ACN_HEADER_SIZE);
        if (pre == 0) dg[5] ^= 0x20;
        unsigned rlen = 2 + 4 + 16 + pk.size();   // root PDU: flags+length, vector, CID, framing block
        dg.push_back(0x70 | ((rlen >> 8) & 0x0f)); dg.push_back(rlen & 0xff);
        dg.push_back(rvec >> 24); dg.push_back(rvec >> 16); dg.push_back(rvec >> 8); dg.push_back(rvec);
        dg.insert(dg.end(), cid_bytes, cid_bytes + 16);
        dg.insert(dg.end(), pk.begin(), pk.end());
        if (pre == 2) dg.resize(rng_short(dg.size()));
        fed_socket.next = dg;
        transport.Receive();
      } else {
        vh::Exact bytes(pk);
        if (rev2) e131_rev2_inflator.InflatePDUBlock(&headers, bytes.p, bytes.n);
        else e131_inflator.InflatePDUBlock(&headers, bytes.p, bytes.n);
      }
    }
    if (i) res << ";";
    res << "o" << i << "=" << g_cb << "|" << static_cast<int>(prio) << "|" << buf_hex(out);
    // internal: the tracked-source table
    DMPE131Inflator::universe_handler &h = inflator.m_handlers[reg_univ];
    res << ";t" << i << "=" << static_cast<int>(h.active_priority) << "|";
    for (size_t k = 0; k < h.sources.size(); k++) {
      uint8_t cb[16];
      h.sources[k].cid.Pack(cb);
      uint32_t c = (cb[12] << 24) | (cb[13] << 16) | (cb[14] << 8) | cb[15];
      if (k) res << "+";
      res << c << "." << static_cast<int>(h.sources[k].sequence) << "."
          << ts_us(h.sources[k].last_heard_from) << "." << buf_hex(h.sources[k].buffer);
    }
  }
  // the text-level verdict is computed by the model driver on this same trace (the traces are compared
  // key by key); the implementation side states the property: output agrees with the property text
  res << ";txt=1";
  return res.str();
}

// payload: sacnm <ignore_preview> <step>,...   one inflator, several universes, API calls in mid-history
//   step: r:univ:fresh | x:univ | dt:vec:cid:prio:seq:univ:flags:dmph:pduhex ; universes 1..3 are observed
static int g_ucb[4];
static void on_univ_cb(int u) { g_ucb[u]++; }

static string run_sacnm(const vector<string> &a) {
  using namespace ola::acn;  // NOLINT
  bool ignore_preview = vh::num(a[1]) != 0;
  g_now_us = T0;
  DMPE131Inflator inflator(ignore_preview);
  vector<ola::DmxBuffer*> bufs;         // every buffer ever registered stays alive
  vector<uint8_t*> prios;
  ola::DmxBuffer *cur_buf[4] = {NULL, NULL, NULL, NULL};
  uint8_t *cur_prio[4] = {NULL, NULL, NULL, NULL};
  std::ostringstream res;
  vector<string> steps = vh::split(a[2], ',');
  for (size_t i = 0; i < steps.size(); i++) {
    vector<string> f = vh::split(steps[i], ':');
    if (i) res << ";";
    for (int u = 0; u < 4; u++) g_ucb[u] = 0;
    if (f[0] == "r") {
      unsigned u = vh::num(f[1]);
      bool fresh = vh::num(f[2]) != 0;
      if (u >= 1 && u <= 3) {
        if (!cur_buf[u] || fresh) {
          bufs.push_back(new ola::DmxBuffer()); prios.push_back(new uint8_t(0));
          cur_buf[u] = bufs.back(); cur_prio[u] = prios.back();
        }
        inflator.SetHandler(u, cur_buf[u], cur_prio[u], ola::NewCallback(&on_univ_cb, static_cast<int>(u)));
      }
    } else if (f[0] == "x") {
      unsigned u = vh::num(f[1]);
      if (u >= 1 && u <= 3) { inflator.RemoveHandler(u); cur_buf[u] = NULL; cur_prio[u] = NULL; }
    } else {
      g_now_us += vh::num(f[0]);
      uint32_t cidn = vh::num(f[2]);
      uint8_t cid_bytes[16];
      memset(cid_bytes, 0, sizeof(cid_bytes));
      cid_bytes[0] = 0xc8;
      cid_bytes[12] = cidn >> 24; cid_bytes[13] = cidn >> 16; cid_bytes[14] = cidn >> 8; cid_bytes[15] = cidn;
      HeaderSet headers;
      RootHeader root;
      root.SetCid(CID::FromData(cid_bytes));
      headers.SetRootHeader(root);
      unsigned flags = vh::num(f[6]);
      headers.SetE131Header(E131Header("src", vh::num(f[3]), vh::num(f[4]), vh::num(f[5]),
                                       flags & 1, flags & 2, flags & 4));
      headers.SetDMPHeader(DMPHeader(static_cast<uint8_t>(vh::num(f[7]))));
      vh::Exact pdu(vh::unhex(f[8]));
      inflator.HandlePDUData(vh::num(f[1]), headers, pdu.p, pdu.n);
    }
    res << "o" << i << "=";
    for (int u = 1; u <= 3; u++) {
      if (u > 1) res << "/";
      if (!cur_buf[u]) { res << "-"; continue; }
      res << g_ucb[u] << "|" << static_cast<int>(*cur_prio[u]) << "|" << buf_hex(*cur_buf[u]);
    }
    res << ";t" << i << "=";
    for (int u = 1; u <= 3; u++) {
      if (u > 1) res << "/";
      DMPE131Inflator::UniverseHandlers::iterator it = inflator.m_handlers.find(u);
      if (it == inflator.m_handlers.end()) { res << "-"; continue; }
      DMPE131Inflator::universe_handler &hd = it->second;
      res << static_cast<int>(hd.active_priority) << "|";
      for (size_t k = 0; k < hd.sources.size(); k++) {
        uint8_t cb[16];
        hd.sources[k].cid.Pack(cb);
        uint32_t c = (cb[12] << 24) | (cb[13] << 16) | (cb[14] << 8) | cb[15];
        if (k) res << "+";
        res << c << "." << static_cast<int>(hd.sources[k].sequence) << "."
            << ts_us(hd.sources[k].last_heard_from) << "." << buf_hex(hd.sources[k].buffer);
      }
    }
  }
  for (size_t k = 0; k < bufs.size(); k++) { delete bufs[k]; delete prios[k]; }
  res << ";txt=1";
  return res.str();
}

// ------------------------------------------------------------------ Art-Net
// payload: art <ltp> <step>,...     step: dt:addr:net:univ:lenfield:datahex
static const uint8_t PORT_ID = 1;
static const uint8_t NET = 4, SUBNET = 2, PORT_UNIVERSE = 3;  // port address 0x23 on net 4

static string run_art(const vector<string> &a) {
  using ola::network::IPV4Address;
  using namespace ola::plugin::artnet;  // NOLINT
  bool ltp = vh::num(a[1]) != 0;
  g_now_us = T0;
  ola::Clock clock;  // reads the interposed clock_gettime
  ola::io::SelectServer ss(NULL, &clock);
  ola::network::InterfaceBuilder ib;
  ib.SetAddress("10.0.0.1");
  ib.SetSubnetMask("255.0.0.0");
  ib.SetBroadcast("10.255.255.255");
  ib.SetHardwareAddress(ola::network::MACAddress::FromStringOrDie("0a:0b:0c:12:34:56"));
  ola::network::Interface iface = ib.Construct();
  ola::testing::MockUDPSocket *sock = new ola::testing::MockUDPSocket();
  sock->SetDiscardMode(true);
  ArtNetNodeOptions opts;
  std::ostringstream res;
  {
    ArtNetNode node(iface, &ss, opts, sock);
    node.SetNetAddress(NET);
    node.SetSubnetAddress(SUBNET);
    node.SetOutputPortUniverse(PORT_ID, PORT_UNIVERSE);
    if (ltp) node.SetMergeMode(PORT_ID, ARTNET_MERGE_LTP);
    ola::DmxBuffer out;
    node.SetDMXHandler(PORT_ID, &out, ola::NewCallback(&on_cb));
    if (!node.Start()) return "start=failed";
    ss.RemoveReadDescriptor(sock);
    vector<string> steps = vh::split(a[2], ',');
    for (size_t i = 0; i < steps.size(); i++) {
      vector<string> f = vh::split(steps[i], ':');
      if (f[0] == "m") {   // SetMergeMode mid-history
        node.SetMergeMode(PORT_ID, vh::num(f[1]) ? ARTNET_MERGE_LTP : ARTNET_MERGE_HTP);
        if (i) res << ";";
        res << "o" << i << "=m|" << buf_hex(out);
        continue;
      }
      g_now_us += vh::num(f[0]);
      vector<uint8_t> data = vh::unhex(f[5]);
      unsigned lenf = vh::num(f[4]);
      vector<uint8_t> pk;
      const char id[] = "Art-Net";
      pk.insert(pk.end(), id, id + 8);
      pk.push_back(0x00); pk.push_back(0x50);   // OpDmx, little endian
      pk.push_back(0); pk.push_back(14);         // version
      pk.push_back(static_cast<uint8_t>(f.size() >= 7 ? vh::num(f[6]) : i));     // sequence
      pk.push_back(1);                           // physical
      pk.push_back(static_cast<uint8_t>(vh::num(f[3])));  // universe (subnet | universe)
      pk.push_back(static_cast<uint8_t>(vh::num(f[2])));  // net
      pk.push_back(lenf >> 8); pk.push_back(lenf & 255);
      pk.insert(pk.end(), data.begin(), data.end());
      g_cb = 0;
      ss.RunOnce();  // update the wake up time
      sock->InjectData(pk.data(), pk.size(), IPV4Address(static_cast<uint32_t>(vh::num(f[1]))),
                       6454);
      if (i) res << ";";
      res << "o" << i << "=" << g_cb << "|" << buf_hex(out);
      ArtNetNodeImpl::OutputPort &p = node.m_impl.m_output_ports[PORT_ID];
      res << ";t" << i << "=" << (p.is_merging ? 1 : 0) << "|";
      for (unsigned k = 0; k < ArtNetNodeImpl::MAX_MERGE_SOURCES; k++) {
        if (k) res << "+";
        res << p.sources[k].address.AsInt() << "." << ts_us(p.sources[k].timestamp) << "."
            << buf_hex(p.sources[k].buffer);
      }
    }
    node.Stop();
  }
  res << ";txt=1";
  return res.str();
}

// a mock socket whose sends can be made to fail (the node's own transmissions)
class FailableSocket: public ola::testing::MockUDPSocket {
 public:
  FailableSocket(): fail(false) {}
  bool fail;
  ssize_t SendTo(const uint8_t *buffer, unsigned int size, const ola::network::IPV4Address &ip,
                 unsigned short port) const {
    if (fail) return -1;
    return ola::testing::MockUDPSocket::SendTo(buffer, size, ip, port);
  }
  using ola::testing::MockUDPSocket::SendTo;
};

// payload: artn <step>,...   all four output ports, configuration changes in mid-history
//   step: dt:addr:net:univ:lenfield:datahex | e:port:univ | d:port | m:port:ltp | s:subnet | n:net
static int g_pcb[4];
static void on_port_cb(int i) { g_pcb[i]++; }

static string run_artn(const vector<string> &a) {
  using ola::network::IPV4Address;
  using namespace ola::plugin::artnet;  // NOLINT
  g_now_us = T0;
  ola::Clock clock;
  ola::io::SelectServer ss(NULL, &clock);
  ola::network::InterfaceBuilder ib;
  ib.SetAddress("10.0.0.1");
  ib.SetSubnetMask("255.0.0.0");
  ib.SetBroadcast("10.255.255.255");
  ib.SetHardwareAddress(ola::network::MACAddress::FromStringOrDie("0a:0b:0c:12:34:56"));
  ola::network::Interface iface = ib.Construct();
  FailableSocket *sock = new FailableSocket();
  sock->SetDiscardMode(true);
  ArtNetNodeOptions opts;
  std::ostringstream res;
  {
    ArtNetNode node(iface, &ss, opts, sock);
    ola::DmxBuffer out[4];
    for (int p = 0; p < 4; p++)
      node.SetDMXHandler(p, &out[p], ola::NewCallback(&on_port_cb, p));
    if (!node.Start()) return "start=failed";
    ss.RemoveReadDescriptor(sock);
    vector<string> steps = vh::split(a[1], ',');
    for (size_t i = 0; i < steps.size(); i++) {
      vector<string> f = vh::split(steps[i], ':');
      if (i) res << ";";
      if (f[0] == "e" || f[0] == "d" || f[0] == "m" || f[0] == "s" || f[0] == "n" || f[0] == "f") {
        if (f[0] == "e") node.SetOutputPortUniverse(vh::num(f[1]), vh::num(f[2]));
        else if (f[0] == "d") node.DisableOutputPort(vh::num(f[1]));
        else if (f[0] == "m") node.SetMergeMode(vh::num(f[1]), vh::num(f[2]) ? ARTNET_MERGE_LTP : ARTNET_MERGE_HTP);
        else if (f[0] == "s") node.SetSubnetAddress(vh::num(f[1]));
        else if (f[0] == "f") sock->fail = vh::num(f[1]) != 0;
        else node.SetNetAddress(vh::num(f[1]));
        res << "o" << i << "=c|" << static_cast<int>(node.NetAddress()) << "|";
        for (int p = 0; p < 4; p++) {
          if (p) res << "/";
          res << (node.OutputPortState(p) ? 1 : 0) << "." << static_cast<int>(node.GetOutputPortUniverse(p));
        }
        continue;
      }
      g_now_us += vh::num(f[0]);
      vector<uint8_t> data = vh::unhex(f[5]);
      unsigned lenf = vh::num(f[4]);
      vector<uint8_t> pk;
      const char id[] = "Art-Net";
      pk.insert(pk.end(), id, id + 8);
      pk.push_back(0x00); pk.push_back(0x50);
      pk.push_back(0); pk.push_back(14);
      pk.push_back(static_cast<uint8_t>(f.size() >= 7 ? vh::num(f[6]) : i));   // sequence
      pk.push_back(1);
      pk.push_back(static_cast<uint8_t>(vh::num(f[3])));
      pk.push_back(static_cast<uint8_t>(vh::num(f[2])));
      pk.push_back(lenf >> 8); pk.push_back(lenf & 255);
      pk.insert(pk.end(), data.begin(), data.end());
      for (int p = 0; p < 4; p++) g_pcb[p] = 0;
      ss.RunOnce();
      sock->InjectData(pk.data(), pk.size(), IPV4Address(static_cast<uint32_t>(vh::num(f[1]))), 6454);
      res << "o" << i << "=";
      for (int p = 0; p < 4; p++) {
        if (p) res << "/";
        res << g_pcb[p] << "." << buf_hex(out[p]);
      }
      res << ";t" << i << "=";
      for (int p = 0; p < 4; p++) {
        if (p) res << "/";
        ArtNetNodeImpl::OutputPort &op = node.m_impl.m_output_ports[p];
        res << (op.is_merging ? 1 : 0) << "|";
        for (unsigned k = 0; k < ArtNetNodeImpl::MAX_MERGE_SOURCES; k++) {
          if (k) res << "+";
          res << op.sources[k].address.AsInt() << "." << ts_us(op.sources[k].timestamp) << "."
              << buf_hex(op.sources[k].buffer);
        }
      }
    }
    node.Stop();
  }
  res << ";txt=1";
  return res.str();
}

static string handle(const string &p) {
  vector<string> a = vh::split(p);
  if (a[0] == "sacn") return run_sacn(a, false);
  if (a[0] == "sacnw") return run_sacn(a, true);
  if (a[0] == "art") return run_art(a);
  if (a[0] == "artn") return run_artn(a);
  if (a[0] == "sacnm") return run_sacnm(a);
  if (a[0] == "consts") {
    std::ostringstream o;
    o << "expiry_us=" << ola::acn::DMPE131Inflator::EXPIRY_INTERVAL.AsInt();
    return o.str();
  }
  return "bad-op";
}

int main(int argc, char **argv) { return vh::run(argc, argv, handle); }
