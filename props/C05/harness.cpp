// C05 correspondence harness: the real RDM codec on exact-size heap copies (ASan).
#include <memory>
#include <string>
#include <vector>
#include "ola/Logging.h"
#include "ola/io/ByteString.h"
#include "ola/io/IOStack.h"
#include "ola/rdm/RDMCommand.h"
#include "ola/rdm/RDMCommandSerializer.h"
#include "ola/rdm/RDMFrame.h"
#include "ola/rdm/RDMReply.h"
#include "ola/rdm/UID.h"
#include "vh.h"

using namespace ola::rdm;  // NOLINT
using std::string;
using std::vector;

static string uid_s(const UID &u) {
  return vh::str((static_cast<unsigned long long>(u.ManufacturerId()) << 32) | u.DeviceId());
}
static UID uid_p(const string &s) {
  unsigned long long v = vh::num(s);
  return UID(static_cast<uint16_t>(v >> 32), static_cast<uint32_t>(v & 0xffffffffULL));
}

static string cmd_s(const RDMCommand *c) {
  std::ostringstream o;
  o << uid_s(c->SourceUID()) << "," << uid_s(c->DestinationUID()) << ","
    << static_cast<int>(c->TransactionNumber()) << "," << static_cast<int>(c->PortIdResponseType())
    << "," << static_cast<int>(c->MessageCount()) << "," << c->SubDevice() << ","
    << static_cast<int>(c->CommandClass()) << "," << c->ParamId() << ","
    << vh::hex(c->ParamData(), c->ParamData() ? c->ParamDataSize() : 0);
  if (c->ParamData() == NULL && c->ParamDataSize() != 0) o << "!nulldata" << c->ParamDataSize();
  return o.str();
}

// Build a command object of the right class from its fields.
static RDMCommand *make_cmd(const string &s) {
  vector<string> f = vh::split(s, ',');
  UID src = uid_p(f[0]), dst = uid_p(f[1]);
  uint8_t tn = vh::num(f[2]), port = vh::num(f[3]), mc = vh::num(f[4]);
  uint16_t sub = vh::num(f[5]);
  int cc = vh::num(f[6]);
  uint16_t pid = vh::num(f[7]);
  vector<uint8_t> d = vh::unhex(f[8]);
  const uint8_t *dp = d.empty() ? NULL : d.data();
  RDMRequest::OverrideOptions opt;
  opt.message_count = mc;
  switch (cc) {
    case RDMCommand::GET_COMMAND:
    case RDMCommand::SET_COMMAND:
    case RDMCommand::DISCOVER_COMMAND:
      return new RDMRequest(src, dst, tn, port, sub,
                            static_cast<RDMCommand::RDMCommandClass>(cc), pid, dp, d.size(), opt);
    default:
      return new RDMResponse(src, dst, tn, port, mc, sub,
                             static_cast<RDMCommand::RDMCommandClass>(cc), pid, dp, d.size());
  }
}

static string res_s(RDMCommand *c, int status, bool has_status) {
  if (!c) return "st=" + vh::str(has_status ? status : 255);
  std::auto_ptr<RDMCommand> holder(c);
  ola::io::ByteString out;
  string rp = RDMCommandSerializer::Pack(*c, &out) ? vh::hex(out.data(), out.size()) : "none";
  return "st=ok;cmd=" + cmd_s(c) + ";repack=" + rp;
}

static string handle(const string &p) {
  vector<string> a = vh::split(p);
  const string &op = a[0];
  if (op == "pack") {
    std::auto_ptr<RDMCommand> c(make_cmd(a[1]));
    ola::io::ByteString out;
    if (!RDMCommandSerializer::Pack(*c, &out)) {
      unsigned int sz = 300; uint8_t buf[300];
      ola::io::IOStack st;
      if (RDMCommandSerializer::Pack(*c, buf, &sz) || RDMCommandSerializer::Write(*c, &st))
        return "packed=inconsistent";
      return "packed=none";
    }
    // the three serialisers must agree
    uint8_t buf[300]; unsigned int sz = sizeof(buf);
    bool ok2 = RDMCommandSerializer::Pack(*c, buf, &sz);
    ola::io::IOStack st;
    bool ok3 = RDMCommandSerializer::Write(*c, &st);
    uint8_t buf3[300]; unsigned int sz3 = st.Read(buf3, sizeof(buf3));
    // a buffer exactly one byte too small must be refused
    uint8_t *small = new uint8_t[out.size() - 1]; unsigned int ssz = out.size() - 1;
    bool ok4 = RDMCommandSerializer::Pack(*c, small, &ssz);
    delete[] small;
    if (!ok2 || !ok3 || ok4 || sz != out.size() || sz3 != out.size() ||
        memcmp(buf, out.data(), sz) || memcmp(buf3, out.data(), sz))
      return "packed=inconsistent";
    vh::Exact e(vector<uint8_t>(out.begin(), out.end()));
    std::auto_ptr<RDMCommand> back(RDMCommand::Inflate(e.p, e.n));
    bool rt = back.get() && *back == *c && cmd_s(back.get()) == cmd_s(c.get());
    return "packed=" + vh::hex(out.data(), out.size()) + ";rt=" + (rt ? "1" : "0");
  }
  bool has_rq = (op == "match" || op == "framem");
  std::auto_ptr<RDMCommand> rqc;
  const RDMRequest *rq = NULL;
  if (has_rq) {
    rqc.reset(make_cmd(a[1]));
    rq = dynamic_cast<const RDMRequest*>(rqc.get());
  }
  vector<uint8_t> bytes = vh::unhex(a[has_rq ? 2 : 1]);
  vh::Exact e(bytes);
  if (op == "inf") return res_s(RDMCommand::Inflate(e.p, e.n), 0, false);
  if (op == "req") return res_s(RDMRequest::InflateFromData(e.p, e.n), 0, false);
  if (op == "dreq") return res_s(RDMDiscoveryRequest::InflateFromData(e.p, e.n), 0, false);
  if (op == "dresp") return res_s(RDMDiscoveryResponse::InflateFromData(e.p, e.n), 0, false);
  if (op == "resp" || op == "match") {
    RDMStatusCode st = RDM_COMPLETED_OK;
    RDMResponse *r = RDMResponse::InflateFromData(e.p, e.n, &st, rq);
    return res_s(r, st, true);
  }
  if (op == "frame" || op == "framem") {
    RDMFrame frame(e.p, e.n);
    std::auto_ptr<RDMReply> reply(RDMReply::FromFrame(frame, rq));
    RDMResponse *r = reply->MutableResponse();
    if (!r) return "st=" + vh::str(static_cast<int>(reply->StatusCode()));
    ola::io::ByteString out;
    string rp = RDMCommandSerializer::Pack(*r, &out) ? vh::hex(out.data(), out.size()) : "none";
    return "st=ok;cmd=" + cmd_s(r) + ";repack=" + rp;
  }
  return "bad-op";
}

int main(int argc, char **argv) {
  ola::InitLogging(ola::OLA_LOG_NONE, ola::OLA_LOG_NULL);
  return vh::run(argc, argv, handle);
}
