// C05 correspondence harness: the real RDM codec on exact-size heap copies (ASan).
#include <memory>
#include <string>
#include <vector>
#include "ola/Logging.h"
#include "ola/io/ByteString.h"
#include "ola/io/IOStack.h"
#include "ola/rdm/RDMCommand.h"
#include "ola/rdm/RDMCommandSerializer.h"
#include "ola/rdm/RDMFrame.h"
#include "ola/rdm/RDMReply.h"
#include "ola/rdm/UID.h"
#include "vh.h"

using namespace ola::rdm;  // NOLINT
using std::string;
using std::vector;

static string uid_s(const UID &u) {
  return vh::str((static_cast<unsigned long long>(u.ManufacturerId()) << 32) | u.DeviceId());
}
static UID uid_p(const string &s) {
  unsigned long long v = vh::num(s);
  return UID(static_cast<uint16_t>(v >> 32), static_cast<uint32_t>(v & 0xffffffffULL));
}

static string cmd_s(const RDMCommand *c) {
  std::ostringstream o;
  o << uid_s(c->SourceUID()) << "," << uid_s(c->DestinationUID()) << ","
    << static_cast<int>(c->TransactionNumber()) << "," << static_cast<int>(c->PortIdResponseType())
    << "," << static_cast<int>(c->MessageCount()) << "," << c->SubDevice() << ","
    << static_cast<int>(c->CommandClass()) << "," << c->ParamId() << ","
    << vh::hex(c->ParamData(), c->ParamData() ? c->ParamDataSize() : 0);
  if (c->ParamData() == NULL && c->ParamDataSize() != 0) o << "!nulldata" << c->ParamDataSize();
  return o.str();
}

// Build a command object of the right class from its fields.
static RDMCommand *make_cmd(const string &s) {
  vector<string> f = vh::split(s, ',');
  UID src = uid_p(f[0]), dst = uid_p(f[1]);
  uint8_t tn = vh::num(f[2]), port = vh::num(f[3]), mc = vh::num(f[4]);
  uint16_t sub = vh::num(f[5]);
  int cc = vh::num(f[6]);
  uint16_t pid = vh::num(f[7]);
  vector<uint8_t> d = vh::unhex(f[8]);
  const uint8_t *dp = d.empty() ? NULL : d.data();
  RDMRequest::OverrideOptions opt;
  opt.message_count = mc;
  switch (cc) {
    case RDMCommand::GET_COMMAND:
    case RDMCommand::SET_COMMAND:
    case RDMCommand::DISCOVER_COMMAND:
      return new RDMRequest(src, dst, tn, port, sub,
                            static_cast<RDMCommand::RDMCommandClass>(cc), pid, dp, d.size(), opt);
    default:
      return new RDMResponse(src, dst, tn, port, mc, sub,
                             static_cast<RDMCommand::RDMCommandClass>(cc), pid, dp, d.size());
  }
}

static string res_s(RDMCommand *c, int status, bool has_status) {
  if (!c) return "st=" + vh::str(has_status ? status : 255);
  std::auto_ptr<RDMCommand> holder(c);
  if (has_status && status != RDM_COMPLETED_OK) return "st=ok-with-status-" + vh::str(status);
  ola::io::ByteString out;
  string rp = RDMCommandSerializer::Pack(*c, &out) ? vh::hex(out.data(), out.size()) : "none";
  return "st=ok;cmd=" + cmd_s(c) + ";repack=" + rp;
}


// ---- round 2: every entry point ------------------------------------------------------------
struct Fields {
  UID src, dst; uint8_t tn, port, mc; uint16_t sub; int cc; uint16_t pid; vector<uint8_t> d;
  Fields() : src(0, 0), dst(0, 0), tn(0), port(0), mc(0), sub(0), cc(0), pid(0) {}
  const uint8_t *dp() const { return d.empty() ? NULL : d.data(); }
};
static Fields parse_fields(const string &s) {
  vector<string> f = vh::split(s, ',');
  Fields r;
  r.src = uid_p(f[0]); r.dst = uid_p(f[1]); r.tn = vh::num(f[2]); r.port = vh::num(f[3]);
  r.mc = vh::num(f[4]); r.sub = vh::num(f[5]); r.cc = vh::num(f[6]); r.pid = vh::num(f[7]);
  r.d = vh::unhex(f[8]);
  return r;
}
static bool is_req_cc(int cc) {
  return cc == RDMCommand::GET_COMMAND || cc == RDMCommand::SET_COMMAND || cc == RDMCommand::DISCOVER_COMMAND;
}
// variant 'g': the generic RDMRequest constructor; 's': the class-specific subclass
static RDMRequest *make_request(const Fields &f, char variant, RDMRequest::OverrideOptions opt) {
  opt.message_count = f.mc;
  if (variant == 's') {
    switch (f.cc) {
      case RDMCommand::GET_COMMAND:
        return new RDMGetRequest(f.src, f.dst, f.tn, f.port, f.sub, f.pid, f.dp(), f.d.size(), opt);
      case RDMCommand::SET_COMMAND:
        return new RDMSetRequest(f.src, f.dst, f.tn, f.port, f.sub, f.pid, f.dp(), f.d.size(), opt);
      case RDMCommand::DISCOVER_COMMAND:
        return new RDMDiscoveryRequest(f.src, f.dst, f.tn, f.port, f.sub, f.pid, f.dp(), f.d.size(), opt);
      default: break;
    }
  }
  return new RDMRequest(f.src, f.dst, f.tn, f.port, f.sub,
                        static_cast<RDMCommand::RDMCommandClass>(f.cc), f.pid, f.dp(), f.d.size(), opt);
}
static RDMResponse *make_response(const Fields &f, char variant) {
  if (variant == 's') {
    switch (f.cc) {
      case RDMCommand::GET_COMMAND_RESPONSE:
        return new RDMGetResponse(f.src, f.dst, f.tn, f.port, f.mc, f.sub, f.pid, f.dp(), f.d.size());
      case RDMCommand::SET_COMMAND_RESPONSE:
        return new RDMSetResponse(f.src, f.dst, f.tn, f.port, f.mc, f.sub, f.pid, f.dp(), f.d.size());
      case RDMCommand::DISCOVER_COMMAND_RESPONSE:
        return new RDMDiscoveryResponse(f.src, f.dst, f.tn, f.port, f.mc, f.sub, f.pid, f.dp(), f.d.size());
      default: break;
    }
  }
  return new RDMResponse(f.src, f.dst, f.tn, f.port, f.mc, f.sub,
                         static_cast<RDMCommand::RDMCommandClass>(f.cc), f.pid, f.dp(), f.d.size());
}
static RDMCommand *make_any(const Fields &f, char variant) {
  if (is_req_cc(f.cc)) return make_request(f, variant, RDMRequest::OverrideOptions());
  return make_response(f, variant);
}

// result of one decoder on `packed`: "ok/<fields>/<same|repack hex>", "rej" (NULL, no status) or "rej<status>"
static string ep_s(RDMCommand *c, int status, bool has_status, const string &packed_hex) {
  if (!c) return "rej" + (has_status ? vh::str(status) : string(""));
  std::auto_ptr<RDMCommand> holder(c);
  if (has_status && status != RDM_COMPLETED_OK) return "ok-with-status-" + vh::str(status);
  ola::io::ByteString out;
  string rp = RDMCommandSerializer::Pack(*c, &out) ? vh::hex(out.data(), out.size()) : "none";
  return "ok/" + cmd_s(c) + "/" + (rp == packed_hex ? "same" : rp);
}
static string reply_s(RDMReply *reply_p, const RDMFrame &frame, const string &packed_hex) {
  std::auto_ptr<RDMReply> reply(reply_p);
  (void) frame;
  RDMResponse *r = reply->MutableResponse();
  if (!r) return "rej" + vh::str(static_cast<int>(reply->StatusCode()));
  if (reply->StatusCode() != RDM_COMPLETED_OK)
    return "ok-with-status-" + vh::str(static_cast<int>(reply->StatusCode()));
  ola::io::ByteString out;
  string rp = RDMCommandSerializer::Pack(*r, &out) ? vh::hex(out.data(), out.size()) : "none";
  return "ok/" + cmd_s(r) + "/" + (rp == packed_hex ? "same" : rp);
}
// every decoder entry point on the same bytes
static string all_entry_points(const vector<uint8_t> &bytes, const string &packed_hex, const RDMRequest *rq) {
  string r;
  { vh::Exact e(bytes); r += ";inf=" + ep_s(RDMCommand::Inflate(e.p, e.n), 0, false, packed_hex); }
  { vh::Exact e(bytes); r += ";req=" + ep_s(RDMRequest::InflateFromData(e.p, e.n), 0, false, packed_hex); }
  { vh::Exact e(bytes); r += ";dreq=" + ep_s(RDMDiscoveryRequest::InflateFromData(e.p, e.n), 0, false, packed_hex); }
  { vh::Exact e(bytes); r += ";dresp=" + ep_s(RDMDiscoveryResponse::InflateFromData(e.p, e.n), 0, false, packed_hex); }
  { vh::Exact e(bytes); RDMStatusCode st = RDM_COMPLETED_OK;
    RDMResponse *x = RDMResponse::InflateFromData(e.p, e.n, &st, rq);
    r += ";resp=" + ep_s(x, st, true, packed_hex); }
  { ola::io::ByteString in(bytes.data(), bytes.size()); RDMStatusCode st = RDM_COMPLETED_OK;
    RDMResponse *x = RDMResponse::InflateFromData(in, &st, rq);
    r += ";respbs=" + ep_s(x, st, true, packed_hex); }
  { vector<uint8_t> fb(1, ola::rdm::START_CODE); fb.insert(fb.end(), bytes.begin(), bytes.end());
    vh::Exact e(fb); RDMFrame frame(e.p, e.n);
    r += ";frame=" + reply_s(RDMReply::FromFrame(frame, rq), frame, packed_hex); }
  { vh::Exact e(bytes); RDMFrame frame(e.p, e.n, RDMFrame::Options(true));
    r += ";framep=" + reply_s(RDMReply::FromFrame(frame, rq), frame, packed_hex); }
  { ola::io::ByteString in(bytes.data(), bytes.size()); RDMFrame frame(in, RDMFrame::Options(true));
    r += ";framepb=" + reply_s(RDMReply::FromFrame(frame, rq), frame, packed_hex); }
  return r;
}

// the serialisers of RDMCommandSerializer on one command: "<ok>/<bytes>" for each
static string all_packers(const RDMCommand &c) {
  ola::io::ByteString out;
  bool ok = RDMCommandSerializer::Pack(c, &out);
  string base = ok ? vh::hex(out.data(), out.size()) : "none";
  string r = "packed=" + base;
  r += ";rsz=" + vh::str(RDMCommandSerializer::RequiredSize(c));
  // Pack into an exact-size buffer, and one byte too small
  unsigned int need = ok ? out.size() : 0;
  {
    uint8_t *b = new uint8_t[need ? need : 1]; unsigned int sz = need;
    bool k = RDMCommandSerializer::Pack(c, b, &sz);
    r += ";pbuf=" + string(k ? "1/" : "0/") + (k ? vh::hex(b, sz) : "-");
    delete[] b;
  }
  if (need) {
    uint8_t *b = new uint8_t[need - 1]; unsigned int sz = need - 1;
    bool k = RDMCommandSerializer::Pack(c, b, &sz);
    r += ";psmall=" + string(k ? "1" : "0") + "/" + vh::str(sz);
    delete[] b;
  } else {
    uint8_t b[600]; unsigned int sz = sizeof(b);
    bool k = RDMCommandSerializer::Pack(c, b, &sz);
    r += ";psmall=" + string(k ? "1" : "0") + "/" + vh::str(sz);
  }
  {
    ola::io::IOStack st;
    bool k = RDMCommandSerializer::Write(c, &st);
    uint8_t b[600]; unsigned int sz = st.Read(b, sizeof(b));
    r += ";wr=" + string(k ? "1/" : "0/") + vh::hex(b, sz);
  }
  {  // Write onto a stack that already holds data: the frame goes in front of it
    ola::io::IOStack st;
    const uint8_t pre[3] = {0xaa, 0xbb, 0xcc};
    st.Write(pre, sizeof(pre));
    bool k = RDMCommandSerializer::Write(c, &st);
    uint8_t b[600]; unsigned int sz = st.Read(b, sizeof(b));
    r += ";wr2=" + string(k ? "1/" : "0/") + vh::hex(b, sz);
  }
  {  // a buffer larger than needed: *size is set to the bytes used
    uint8_t b[300]; unsigned int sz = sizeof(b);
    bool k = RDMCommandSerializer::Pack(c, b, &sz);
    r += ";pbig=" + string(k ? "1/" : "0/") + vh::str(sz) + "/" + (k ? vh::hex(b, sz) : "-");
  }
  {  // Pack appends to what is already in the output
    ola::io::ByteString o2; o2.push_back(0xaa); o2.push_back(0xcc); o2.push_back(0x01);
    bool k = RDMCommandSerializer::Pack(c, &o2);
    r += ";papp=" + string(k ? "1/" : "0/") + vh::hex(o2.data(), o2.size());
  }
  {
    ola::io::ByteString o3;
    bool k = RDMCommandSerializer::PackWithStartCode(c, &o3);
    r += ";pwsc=" + string(k ? "1/" : "0/") + vh::hex(o3.data(), o3.size());
    ola::io::ByteString o4; o4.push_back(0x55);
    k = RDMCommandSerializer::PackWithStartCode(c, &o4);
    r += ";pwsc2=" + string(k ? "1/" : "0/") + vh::hex(o4.data(), o4.size());
  }
  return r;
}

static string op_rt(const vector<string> &a) {      // rt <g|s> <cmd>
  Fields f = parse_fields(a[2]);
  std::auto_ptr<RDMCommand> c(make_any(f, a[1][0]));
  string r = all_packers(*c);
  ola::io::ByteString out;
  if (!RDMCommandSerializer::Pack(*c, &out)) return r;
  vector<uint8_t> bytes(out.begin(), out.end());
  r += all_entry_points(bytes, vh::hex(out.data(), out.size()), NULL);
  // C++ equality of the original with what RDMCommand::Inflate returns
  vh::Exact e(bytes);
  std::auto_ptr<RDMCommand> back(RDMCommand::Inflate(e.p, e.n));
  r += ";eqback=" + string(back.get() ? ((*back == *c && *c == *back) ? "1" : "0") : "none");
  // Duplicate() of the original serialises identically
  ola::io::ByteString dout;
  if (RDMRequest *rq = dynamic_cast<RDMRequest*>(c.get())) {
    std::auto_ptr<RDMRequest> d(rq->Duplicate());
    RDMCommandSerializer::Pack(*d, &dout);
  } else if (RDMResponse *rs = dynamic_cast<RDMResponse*>(c.get())) {
    std::auto_ptr<RDMResponse> d(rs->Duplicate());
    RDMCommandSerializer::Pack(*d, &dout);
  }
  r += ";dup=" + vh::hex(dout.data(), dout.size());
  // setters, then serialise again
  ola::io::ByteString sout;
  if (RDMRequest *rq = dynamic_cast<RDMRequest*>(c.get())) {
    r += string(";isdub=") + (rq->IsDUB() ? "1" : "0");
    rq->SetSourceUID(f.dst);
    rq->SetTransactionNumber(static_cast<uint8_t>(f.tn + 1));
    rq->SetPortId(static_cast<uint8_t>(f.port + 3));
    RDMCommandSerializer::Pack(*rq, &sout);
  } else if (RDMResponse *rs = dynamic_cast<RDMResponse*>(c.get())) {
    rs->SetDestinationUID(f.src);
    rs->SetTransactionNumber(static_cast<uint8_t>(f.tn + 1));
    RDMCommandSerializer::Pack(*rs, &sout);
  }
  r += ";set=" + vh::hex(sout.data(), sout.size());
  return r;
}

// disc dub <src> <lower> <upper> <tn> <port|-> | disc mute|unmute <src> <dst> <tn> <port|->
static string op_disc(const vector<string> &a) {
  std::auto_ptr<RDMDiscoveryRequest> c;
  if (a[1] == "dub") {
    if (a[6] == "-") c.reset(NewDiscoveryUniqueBranchRequest(uid_p(a[2]), uid_p(a[3]), uid_p(a[4]), vh::num(a[5])));
    else c.reset(NewDiscoveryUniqueBranchRequest(uid_p(a[2]), uid_p(a[3]), uid_p(a[4]), vh::num(a[5]), vh::num(a[6])));
  } else if (a[1] == "mute") {
    if (a[5] == "-") c.reset(NewMuteRequest(uid_p(a[2]), uid_p(a[3]), vh::num(a[4])));
    else c.reset(NewMuteRequest(uid_p(a[2]), uid_p(a[3]), vh::num(a[4]), vh::num(a[5])));
  } else {
    if (a[5] == "-") c.reset(NewUnMuteRequest(uid_p(a[2]), uid_p(a[3]), vh::num(a[4])));
    else c.reset(NewUnMuteRequest(uid_p(a[2]), uid_p(a[3]), vh::num(a[4]), vh::num(a[5])));
  }
  string r = "built=" + cmd_s(c.get()) + ";isdub=" + (c->IsDUB() ? "1" : "0") + ";" + all_packers(*c);
  ola::io::ByteString out;
  if (!RDMCommandSerializer::Pack(*c, &out)) return r;
  vector<uint8_t> bytes(out.begin(), out.end());
  return r + all_entry_points(bytes, vh::hex(out.data(), out.size()), NULL);
}

// null <length>: a NULL data pointer with a claimed length, every pointer-taking entry point
static string op_null(const vector<string> &a) {
  unsigned int n = vh::num(a[1]);
  string r;
  r += "inf=" + ep_s(RDMCommand::Inflate(NULL, n), 0, false, "-");
  r += ";req=" + ep_s(RDMRequest::InflateFromData(NULL, n), 0, false, "-");
  r += ";dreq=" + ep_s(RDMDiscoveryRequest::InflateFromData(NULL, n), 0, false, "-");
  r += ";dresp=" + ep_s(RDMDiscoveryResponse::InflateFromData(NULL, n), 0, false, "-");
  RDMStatusCode st = RDM_COMPLETED_OK;
  RDMResponse *x = RDMResponse::InflateFromData(NULL, n, &st);
  r += ";resp=" + ep_s(x, st, true, "-");
  return r;
}

// nullctor <g|s|b> <cmd> <n>: every public constructor given (data = NULL, length = n); 'b' = the command is a
// request and the response is built by GetResponseFromData(request, NULL, n)
static string op_nullctor(const vector<string> &a) {
  Fields f = parse_fields(a[2]);
  unsigned int n = vh::num(a[3]);
  std::auto_ptr<RDMCommand> c;
  std::auto_ptr<RDMRequest> rq;
  char v = a[1][0];
  if (v == 'b') {
    rq.reset(make_request(f, 'g', RDMRequest::OverrideOptions()));
    c.reset(GetResponseFromData(rq.get(), NULL, n));
    if (!c.get()) return "size=none";
  } else if (is_req_cc(f.cc)) {
    RDMRequest::OverrideOptions opt; opt.message_count = f.mc;
    if (v == 's' && f.cc == RDMCommand::GET_COMMAND)
      c.reset(new RDMGetRequest(f.src, f.dst, f.tn, f.port, f.sub, f.pid, NULL, n, opt));
    else if (v == 's' && f.cc == RDMCommand::SET_COMMAND)
      c.reset(new RDMSetRequest(f.src, f.dst, f.tn, f.port, f.sub, f.pid, NULL, n, opt));
    else if (v == 's')
      c.reset(new RDMDiscoveryRequest(f.src, f.dst, f.tn, f.port, f.sub, f.pid, NULL, n, opt));
    else
      c.reset(new RDMRequest(f.src, f.dst, f.tn, f.port, f.sub,
                             static_cast<RDMCommand::RDMCommandClass>(f.cc), f.pid, NULL, n, opt));
  } else {
    if (v == 's' && f.cc == RDMCommand::GET_COMMAND_RESPONSE)
      c.reset(new RDMGetResponse(f.src, f.dst, f.tn, f.port, f.mc, f.sub, f.pid, NULL, n));
    else if (v == 's' && f.cc == RDMCommand::SET_COMMAND_RESPONSE)
      c.reset(new RDMSetResponse(f.src, f.dst, f.tn, f.port, f.mc, f.sub, f.pid, NULL, n));
    else if (v == 's')
      c.reset(new RDMDiscoveryResponse(f.src, f.dst, f.tn, f.port, f.mc, f.sub, f.pid, NULL, n));
    else
      c.reset(new RDMResponse(f.src, f.dst, f.tn, f.port, f.mc, f.sub,
                              static_cast<RDMCommand::RDMCommandClass>(f.cc), f.pid, NULL, n));
  }
  string r = "size=" + vh::str(c->ParamDataSize()) + ";cmd=" + cmd_s(c.get()) + ";" + all_packers(*c);
  ola::io::ByteString out;
  if (!RDMCommandSerializer::Pack(*c, &out)) return r;
  vector<uint8_t> bytes(out.begin(), out.end());
  vh::Exact e(bytes);
  std::auto_ptr<RDMCommand> back(RDMCommand::Inflate(e.p, e.n));
  r += ";eqback=" + string(back.get() ? ((*back == *c && *c == *back) ? "1" : "0") : "none");
  return r;
}

static RDMRequest::OverrideOptions parse_opts(const string &ssc, const string &ml, const string &ck) {
  RDMRequest::OverrideOptions o;
  o.sub_start_code = vh::num(ssc);
  if (ml != "-") o.SetMessageLength(vh::num(ml));
  if (ck != "-") o.SetChecksum(vh::num(ck));
  return o;
}

static string op_packo(const vector<string> &a) {   // packo <g|s> <cmd> <ssc> <ml|-> <ck|->
  Fields f = parse_fields(a[2]);
  std::auto_ptr<RDMRequest> c(make_request(f, a[1][0], parse_opts(a[3], a[4], a[5])));
  string r = all_packers(*c);
  ola::io::ByteString out;
  if (!RDMCommandSerializer::Pack(*c, &out)) return r;
  vector<uint8_t> bytes(out.begin(), out.end());
  r += all_entry_points(bytes, "-", NULL);
  std::auto_ptr<RDMRequest> d(c->Duplicate());
  ola::io::ByteString dout;
  RDMCommandSerializer::Pack(*d, &dout);
  r += ";dup=" + vh::hex(dout.data(), dout.size());
  return r;
}

static string op_mkf(const vector<string> &a) {     // mkf <ctor 1..4> <prepend 0|1> <rq|-> <hex>
  int ctor = vh::num(a[1]); bool prepend = a[2] == "1";
  std::auto_ptr<RDMRequest> rq;
  if (a[3] != "-") rq.reset(make_request(parse_fields(a[3]), 'g', RDMRequest::OverrideOptions()));
  vector<uint8_t> bytes = vh::unhex(a[4]);
  vh::Exact e(bytes);
  std::auto_ptr<RDMFrame> frame;
  if (ctor == 1) {
    frame.reset(new RDMFrame(e.p, e.n, RDMFrame::Options(prepend)));
  } else if (ctor == 2) {
    ola::io::ByteString in(e.p, e.n);
    frame.reset(new RDMFrame(in, RDMFrame::Options(prepend)));
  } else if (ctor == 3) {            // default options (no start code prepended)
    frame.reset(new RDMFrame(e.p, e.n));
  } else {
    ola::io::ByteString in(e.p, e.n);
    frame.reset(new RDMFrame(in));
  }
  bool tz = frame->timing.response_time == 0 && frame->timing.break_time == 0 &&
            frame->timing.mark_time == 0 && frame->timing.data_time == 0;
  string r = "fd=" + vh::hex(frame->data.data(), frame->data.size()) + ";tz=" + (tz ? "1" : "0");
  r += ";reply=" + reply_s(RDMReply::FromFrame(*frame, rq.get()), *frame, "-");
  return r;
}

// build <g|s> <rqcmd> data <hex> <type> <mc> | pid <pid> <hex> <type> <mc> | nack <reason> <mc> | nackr <reason>
static string op_build(const vector<string> &a) {
  Fields f = parse_fields(a[2]);
  const string &kind = a[3];
  std::auto_ptr<RDMResponse> built;
  std::auto_ptr<RDMRequest> rq;
  if (kind == "nackr") {
    std::auto_ptr<RDMResponse> orig(make_response(f, a[1][0]));
    built.reset(NackWithReason(orig.get(), static_cast<rdm_nack_reason>(vh::num(a[4]))));
  } else {
    rq.reset(make_request(f, a[1][0], RDMRequest::OverrideOptions()));
    if (kind == "data") {
      vector<uint8_t> d = vh::unhex(a[4]);
      built.reset(GetResponseFromData(rq.get(), d.empty() ? NULL : d.data(), d.size(),
                                      static_cast<rdm_response_type>(vh::num(a[5])), vh::num(a[6])));
    } else if (kind == "pid") {
      vector<uint8_t> d = vh::unhex(a[5]);
      built.reset(GetResponseWithPid(rq.get(), vh::num(a[4]), d.empty() ? NULL : d.data(), d.size(),
                                     vh::num(a[6]), vh::num(a[7])));
    } else if (kind == "nack") {
      built.reset(NackWithReason(rq.get(), static_cast<rdm_nack_reason>(vh::num(a[4])), vh::num(a[5])));
    } else if (kind == "nack0") {     // default outstanding_messages
      built.reset(NackWithReason(rq.get(), static_cast<rdm_nack_reason>(vh::num(a[4]))));
    } else if (kind == "ack0") {      // all defaults: empty ACK
      built.reset(GetResponseFromData(rq.get()));
    }
  }
  if (!built.get()) return "built=none";
  string r = "built=" + cmd_s(built.get());
  ola::io::ByteString out;
  if (!RDMCommandSerializer::Pack(*built, &out)) return r + ";packed=none";
  r += ";packed=" + vh::hex(out.data(), out.size());
  vector<uint8_t> bytes(out.begin(), out.end());
  r += all_entry_points(bytes, vh::hex(out.data(), out.size()), rq.get());
  return r;
}

static string op_eq(const vector<string> &a) {      // eq <g|s> <cmd> <g|s> <cmd>
  std::auto_ptr<RDMCommand> x(make_any(parse_fields(a[2]), a[1][0]));
  std::auto_ptr<RDMCommand> y(make_any(parse_fields(a[4]), a[3][0]));
  return string("eq=") + ((*x == *y) ? "1" : "0") + ";eqsym=" + ((*y == *x) ? "1" : "0");
}

// combine <cmd1> <cmd2>: RDMResponse::CombineResponses
static string op_combine(const vector<string> &a) {
  std::auto_ptr<RDMResponse> r1(make_response(parse_fields(a[1]), 'g'));
  std::auto_ptr<RDMResponse> r2(make_response(parse_fields(a[2]), 's'));
  std::auto_ptr<RDMResponse> c(RDMResponse::CombineResponses(r1.get(), r2.get()));
  if (!c.get()) return "comb=none";
  ola::io::ByteString out;
  string rp = RDMCommandSerializer::Pack(*c, &out) ? vh::hex(out.data(), out.size()) : "none";
  return "comb=" + cmd_s(c.get()) + ";packed=" + rp;
}

static string frame_s(const RDMFrame &f) {
  return vh::hex(f.data.data(), f.data.size()) + "/" + vh::str(f.timing.response_time) + "," +
         vh::str(f.timing.break_time) + "," + vh::str(f.timing.mark_time) + "," + vh::str(f.timing.data_time);
}
// reply <rq|-> <t1,t2,t3,t4> <hex>: RDMReply::FromFrame / DUBReply keep the frame (data + timing) untouched;
// RDMFrame::operator==
static string op_reply(const vector<string> &a) {
  std::auto_ptr<RDMRequest> rq;
  if (a[1] != "-") rq.reset(make_request(parse_fields(a[1]), 'g', RDMRequest::OverrideOptions()));
  vector<string> t = vh::split(a[2], ',');
  vector<uint8_t> bytes = vh::unhex(a[3]);
  vh::Exact e(bytes);
  RDMFrame frame(e.p, e.n);
  frame.timing.response_time = vh::num(t[0]); frame.timing.break_time = vh::num(t[1]);
  frame.timing.mark_time = vh::num(t[2]); frame.timing.data_time = vh::num(t[3]);
  string r;
  {
    std::auto_ptr<RDMReply> reply(RDMReply::FromFrame(frame, rq.get()));
    r += "n=" + vh::str(reply->Frames().size());
    for (size_t i = 0; i < reply->Frames().size(); i++) r += ";f" + vh::str(i) + "=" + frame_s(reply->Frames()[i]);
    r += ";orig=" + frame_s(frame);
    r += ";st=" + (reply->Response() ? string("ok") : vh::str(static_cast<int>(reply->StatusCode())));
  }
  {
    std::auto_ptr<RDMReply> reply(RDMReply::DUBReply(frame));
    r += ";dn=" + vh::str(reply->Frames().size());
    for (size_t i = 0; i < reply->Frames().size(); i++) r += ";d" + vh::str(i) + "=" + frame_s(reply->Frames()[i]);
    r += ";dst=" + vh::str(static_cast<int>(reply->StatusCode())) + ";dresp=" + (reply->Response() ? "1" : "0");
  }
  // operator==: an exact copy, then one difference at a time
  string eq;
  { RDMFrame c(frame); eq += (c == frame) ? "1" : "0"; }
  { RDMFrame c(frame); c.timing.response_time ^= 1; eq += (c == frame) ? "1" : "0"; }
  { RDMFrame c(frame); c.timing.break_time ^= 0x80000000u; eq += (c == frame) ? "1" : "0"; }
  { RDMFrame c(frame); c.timing.mark_time ^= 0x100; eq += (c == frame) ? "1" : "0"; }
  { RDMFrame c(frame); c.timing.data_time ^= 1; eq += (c == frame) ? "1" : "0"; }
  { RDMFrame c(frame); c.data.push_back(0); eq += (c == frame) ? "1" : "0"; }
  { RDMFrame c(frame); if (!c.data.empty()) c.data[c.data.size() - 1] ^= 1; eq += (c == frame) ? "1" : "0"; }
  return r + ";feq=" + eq;
}

// replyeq <rq|-> <t1,t2,t3,t4> <hex> <t1,t2,t3,t4> <hex>: RDMReply::operator== / RDMFrame::operator== on two
// replies decoded by FromFrame
static RDMFrame timed_frame(const string &tm, const string &hexs) {
  vector<string> t = vh::split(tm, ',');
  vector<uint8_t> bytes = vh::unhex(hexs);
  vh::Exact e(bytes);
  RDMFrame frame(e.p, e.n);
  frame.timing.response_time = vh::num(t[0]); frame.timing.break_time = vh::num(t[1]);
  frame.timing.mark_time = vh::num(t[2]); frame.timing.data_time = vh::num(t[3]);
  return frame;
}
static string op_replyeq(const vector<string> &a) {
  std::auto_ptr<RDMRequest> rq;
  if (a[1] != "-") rq.reset(make_request(parse_fields(a[1]), 'g', RDMRequest::OverrideOptions()));
  RDMFrame f1 = timed_frame(a[2], a[3]), f2 = timed_frame(a[4], a[5]);
  std::auto_ptr<RDMReply> r1(RDMReply::FromFrame(f1, rq.get())), r2(RDMReply::FromFrame(f2, rq.get()));
  std::auto_ptr<RDMReply> r1b(RDMReply::FromFrame(f1, rq.get()));
  string r = string("feq=") + ((f1 == f2) ? "1" : "0") + ((f2 == f1) ? "1" : "0");
  r += string(";req=") + ((*r1 == *r2) ? "1" : "0") + ((*r2 == *r1) ? "1" : "0");
  r += string(";rself=") + ((*r1 == *r1b) ? "1" : "0");
  return r;
}

// keys of the builder ops are reported under a "b_" prefix: what a builder puts into a command is not
// fixed by the property (those keys are outside prop.SPEC_KEYS)
static string prefix_keys(const string &r, const string &pre) {
  vector<string> parts = vh::split(r, ';');
  string out;
  for (size_t i = 0; i < parts.size(); i++) out += (i ? ";" : "") + pre + parts[i];
  return out;
}

static string handle(const string &p) {
  vector<string> a = vh::split(p);
  const string &op = a[0];
  if (op == "rt") return op_rt(a);
  if (op == "packo") return op_packo(a);
  if (op == "mkf") return op_mkf(a);
  if (op == "build") return prefix_keys(op_build(a), "b_");
  if (op == "eq") return op_eq(a);
  if (op == "disc") return prefix_keys(op_disc(a), "b_");
  if (op == "null") return op_null(a);
  if (op == "replyeq") return prefix_keys(op_replyeq(a), "b_");
  if (op == "nullctor") return op_nullctor(a);
  if (op == "combine") return prefix_keys(op_combine(a), "b_");
  if (op == "reply") return prefix_keys(op_reply(a), "b_");
  if (op == "pack") {
    std::auto_ptr<RDMCommand> c(make_cmd(a[1]));
    ola::io::ByteString out;
    if (!RDMCommandSerializer::Pack(*c, &out)) {
      unsigned int sz = 300; uint8_t buf[300];
      ola::io::IOStack st;
      if (RDMCommandSerializer::Pack(*c, buf, &sz) || RDMCommandSerializer::Write(*c, &st))
        return "packed=inconsistent";
      return "packed=none";
    }
    // the three serialisers must agree
    uint8_t buf[300]; unsigned int sz = sizeof(buf);
    bool ok2 = RDMCommandSerializer::Pack(*c, buf, &sz);
    ola::io::IOStack st;
    bool ok3 = RDMCommandSerializer::Write(*c, &st);
    uint8_t buf3[300]; unsigned int sz3 = st.Read(buf3, sizeof(buf3));
    // a buffer exactly one byte too small must be refused
    uint8_t *small = new uint8_t[out.size() - 1]; unsigned int ssz = out.size() - 1;
    bool ok4 = RDMCommandSerializer::Pack(*c, small, &ssz);
    delete[] small;
    if (!ok2 || !ok3 || ok4 || sz != out.size() || sz3 != out.size() ||
        memcmp(buf, out.data(), sz) || memcmp(buf3, out.data(), sz))
      return "packed=inconsistent";
    vh::Exact e(vector<uint8_t>(out.begin(), out.end()));
    std::auto_ptr<RDMCommand> back(RDMCommand::Inflate(e.p, e.n));
    bool rt = back.get() && *back == *c && cmd_s(back.get()) == cmd_s(c.get());
    return "packed=" + vh::hex(out.data(), out.size()) + ";rt=" + (rt ? "1" : "0");
  }
  bool has_rq = (op == "match" || op == "framem");
  std::auto_ptr<RDMCommand> rqc;
  const RDMRequest *rq = NULL;
  if (has_rq) {
    rqc.reset(make_cmd(a[1]));
    rq = dynamic_cast<const RDMRequest*>(rqc.get());
  }
  vector<uint8_t> bytes = vh::unhex(a[has_rq ? 2 : 1]);
  vh::Exact e(bytes);
  if (op == "inf") return res_s(RDMCommand::Inflate(e.p, e.n), 0, false);
  if (op == "req") return res_s(RDMRequest::InflateFromData(e.p, e.n), 0, false);
  if (op == "dreq") return res_s(RDMDiscoveryRequest::InflateFromData(e.p, e.n), 0, false);
  if (op == "dresp") return res_s(RDMDiscoveryResponse::InflateFromData(e.p, e.n), 0, false);
  if (op == "resp" || op == "match") {
    RDMStatusCode st = RDM_COMPLETED_OK;
    RDMResponse *r = RDMResponse::InflateFromData(e.p, e.n, &st, rq);
    return res_s(r, st, true);
  }
  if (op == "frame" || op == "framem") {
    RDMFrame frame(e.p, e.n);
    std::auto_ptr<RDMReply> reply(RDMReply::FromFrame(frame, rq));
    RDMResponse *r = reply->MutableResponse();
    if (!r) return "st=" + vh::str(static_cast<int>(reply->StatusCode()));
    ola::io::ByteString out;
    string rp = RDMCommandSerializer::Pack(*r, &out) ? vh::hex(out.data(), out.size()) : "none";
    return "st=ok;cmd=" + cmd_s(r) + ";repack=" + rp;
  }
  return "bad-op";
}

// Process-wide configuration that switches on extra code in the codec: the log level.  Every case is
// executed at every log level, with a destination that consumes the lines; the result must not depend
// on the level (and every run is under ASan/UBSan on the same exact-size heap copies).
class CountingDestination : public ola::LogDestination {
 public:
  static unsigned long lines, bytes;
  void Write(ola::log_level, const string &line) { lines++; bytes += line.size(); }
};
unsigned long CountingDestination::lines = 0;
unsigned long CountingDestination::bytes = 0;

static string handle_all_levels(const string &p) {
  static const ola::log_level levels[] = {ola::OLA_LOG_NONE, ola::OLA_LOG_FATAL, ola::OLA_LOG_WARN,
                                          ola::OLA_LOG_INFO, ola::OLA_LOG_DEBUG};
  static const char *names[] = {"NONE", "FATAL", "WARN", "INFO", "DEBUG"};
  string first;
  for (unsigned int i = 0; i < sizeof(levels) / sizeof(levels[0]); i++) {
    ola::SetLogLevel(levels[i]);
    string r = handle(p);
    if (i == 0) {
      first = r;
    } else if (r != first) {
      ola::SetLogLevel(ola::OLA_LOG_NONE);
      return first + ";lvl=differs-at-" + names[i];
    }
  }
  ola::SetLogLevel(ola::OLA_LOG_NONE);
  return first;
}

int main(int argc, char **argv) {
  ola::InitLogging(ola::OLA_LOG_NONE, new CountingDestination());
  return vh::run(argc, argv, handle_all_levels);
}
