(* C05 model driver.  payload: "<op> args..." *)
let uid_s (x : n) = string_of_n x
let cmd_s (c : cmd) =
  Printf.sprintf "%s,%s,%d,%d,%d,%d,%d,%d,%s" (uid_s c.c_src) (uid_s c.c_dst) (int_of_n c.c_tn)
    (int_of_n c.c_port) (int_of_n c.c_mc) (int_of_n c.c_sub) (int_of_n c.c_cc) (int_of_n c.c_pid)
    (hex_of_bytes c.c_data)
let parse_cmd (s : string) : cmd =
  match String.split_on_char ',' s with
  | [src; dst; tn; port; mc; sub; cc; pid; data] ->
    { c_src = n_of_string src; c_dst = n_of_string dst; c_tn = n_of_int (ios tn);
      c_port = n_of_int (ios port); c_mc = n_of_int (ios mc); c_sub = n_of_int (ios sub);
      c_cc = n_of_int (ios cc); c_pid = n_of_int (ios pid); c_data = bytes_of_hex data }
  | _ -> failwith "bad cmd"
let res_s (r : res) =
  match r with
  | Oob -> "st=OOB"
  | Reject st -> Printf.sprintf "st=%d" (int_of_n st)
  | Ok c ->
    let rp = match pack c with Some b -> hex_of_bytes b | None -> "none" in
    Printf.sprintf "st=ok;cmd=%s;repack=%s" (cmd_s c) rp
(* entry points that return NULL without a status code *)
let nostatus (r : res) = match r with Reject _ -> Reject nOSTATUS | _ -> r
let handle (p : string) : string =
  match split p with
  | ["inf"; h] -> res_s (nostatus (inflate (bytes_of_hex h)))
  | ["req"; h] -> res_s (nostatus (inflate_request (bytes_of_hex h)))
  | ["dreq"; h] -> res_s (nostatus (inflate_disc_request (bytes_of_hex h)))
  | ["dresp"; h] -> res_s (nostatus (inflate_disc_response (bytes_of_hex h)))
  | ["resp"; h] -> res_s (inflate_response None (bytes_of_hex h))
  | ["match"; rq; h] -> res_s (inflate_response (Some (parse_cmd rq)) (bytes_of_hex h))
  | ["frame"; h] -> res_s (from_frame None (bytes_of_hex h))
  | ["framem"; rq; h] -> res_s (from_frame (Some (parse_cmd rq)) (bytes_of_hex h))
  | ["pack"; c] ->
    let c = parse_cmd c in
    (match pack c with
     | None -> "packed=none"
     | Some b ->
       let back = inflate b in
       let rt = match back with Ok c2 -> if cmd_eq_cpp c c2 && c2 = c then "1" else "0" | _ -> "0" in
       Printf.sprintf "packed=%s;rt=%s" (hex_of_bytes b) rt)
  | _ -> "bad-op"

(* ---- round 2: every entry point *)
let ep_s ~(status : bool) (packed_hex : string) (r : res) : string =
  match r with
  | Oob -> "OOB"
  | Reject st -> if status then Printf.sprintf "rej%d" (int_of_n st) else "rej"
  | Ok c ->
    let rp = match pack c with Some b -> hex_of_bytes b | None -> "none" in
    Printf.sprintf "ok/%s/%s" (cmd_s c) (if rp = packed_hex then "same" else rp)
let all_entry_points (bs : n list) (packed_hex : string) (rq : cmd option) : string =
  let e = ep_s packed_hex in
  String.concat "" [
    ";inf="; e ~status:false (inflate bs);
    ";req="; e ~status:false (inflate_request bs);
    ";dreq="; e ~status:false (inflate_disc_request bs);
    ";dresp="; e ~status:false (inflate_disc_response bs);
    ";resp="; e ~status:true (inflate_response rq bs);
    ";respbs="; e ~status:true (inflate_response_bs rq bs);
    ";frame="; e ~status:true (from_frame rq (sTART_CODE :: bs));
    ";framep="; e ~status:true (reply_of_raw true rq bs);
    ";framepb="; e ~status:true (reply_of_raw true rq bs) ]
let bl ((k, l) : bool * n list) = (if k then "1/" else "0/") ^ hex_of_bytes l
let all_packers (o : opts) (c : cmd) : string =
  let p = pack_o o c in
  let base = match p with Some b -> hex_of_bytes b | None -> "none" in
  (* RequiredSize, Pack(buffer) and Write(IOStack) are modelled on their own (Ser.v) *)
  let need = int_of_n (required_size c) in
  let pb sz = pack_buffer o c (n_of_int sz) in
  let small = if need > 0 then need - 1 else 600 in
  String.concat "" [
    "packed="; base;
    ";rsz="; string_of_int need;
    ";pbuf="; (match pb need with Some (b, _) -> "1/" ^ hex_of_bytes b | None -> "0/-");
    ";psmall="; (match pb small with Some (_, sz) -> "1/" ^ string_of_int (int_of_n sz) | None -> "0/" ^ string_of_int small);
    ";wr="; (let (k, st) = write_iostack o c [] in if k then "1/" ^ hex_of_bytes st else "0/" ^ hex_of_bytes st);
    ";wr2="; bl (write_iostack o c [n_of_int 0xaa; n_of_int 0xbb; n_of_int 0xcc]);
    ";pbig="; (match pb 300 with Some (b, sz) -> Printf.sprintf "1/%d/%s" (int_of_n sz) (hex_of_bytes b) | None -> "0/300/-");
    ";papp="; bl (pack_append o [n_of_int 0xaa; n_of_int 0xcc; n_of_int 1] c);
    ";pwsc="; bl (pack_with_start_code o [] c);
    ";pwsc2="; bl (pack_with_start_code o [n_of_int 0x55] c) ]
let parse_opts ssc ml ck : opts =
  { o_ssc = n_of_int (ios ssc);
    o_ml = (if ml = "-" then None else Some (n_of_int (ios ml)));
    o_ck = (if ck = "-" then None else Some (n_of_int (ios ck))) }
let cc_name (c : cmd) = string_of_int (int_of_n c.c_cc)
let pid_class (c : cmd) =
  let p = int_of_n c.c_pid in if p >= 1 && p <= 3 then "disc-pid" else if p = 0x20 then "queued" else "pid"
let handle2 (p : string) : (string * string) option =
  match split p with
  | ["rt"; _; cs] ->
    let c = parse_cmd cs in
    let r = all_packers default_opts c in
    (match pack c with
     | None -> Some (r, "rt:refused")
     | Some b ->
       let (o2, c2) = duplicate (default_opts, c) in
       let dup = match pack_o o2 c2 with Some d -> hex_of_bytes d | None -> "-" in
       let eqback = match inflate b with
         | Ok c2 -> bool01 (cmd_eq_cpp c c2 && cmd_eq_cpp c2 c) | _ -> "none" in
       let u8 x = n_of_int (x land 255) in
       let hexo c = match pack c with Some d -> hex_of_bytes d | None -> "-" in
       let sets =
         if is_request_cc c.c_cc then
           ";isdub=" ^ bool01 (is_dub c) ^ ";set=" ^
           hexo (set_request c c.c_dst (u8 (int_of_n c.c_tn + 1)) (u8 (int_of_n c.c_port + 3)))
         else ";set=" ^ hexo (set_response c c.c_src (u8 (int_of_n c.c_tn + 1))) in
       Some (r ^ all_entry_points b (hex_of_bytes b) None ^ ";eqback=" ^ eqback ^ ";dup=" ^ dup ^ sets,
             Printf.sprintf "rt:cc%s:%s:len%d" (cc_name c) (pid_class c) (List.length c.c_data)))
  | ["packo"; _; cs; ssc; ml; ck] ->
    let c = parse_cmd cs in
    let o = parse_opts ssc ml ck in
    let r = all_packers o c in
    (match pack_o o c with
     | None -> Some (r, "packo:refused")
     | Some b ->
       let (o2, c2) = duplicate (o, c) in
       let dup = match pack_o o2 c2 with Some d -> hex_of_bytes d | None -> "-" in
       let acc = match inflate b with Ok _ -> "accepted" | _ -> "rejected" in
       Some (r ^ all_entry_points b "-" None ^ ";dup=" ^ dup,
             Printf.sprintf "packo:%s%s%s:%s" (if ssc = "1" then "" else "ssc") (if ml = "-" then "" else "ml")
               (if ck = "-" then "" else "ck") acc))
  | ["mkf"; ctor; prepend; rq; h] ->
    let pre = prepend = "1" in
    let raw = bytes_of_hex h in
    let rqo = if rq = "-" then None else Some (parse_cmd rq) in
    let fd = mk_frame pre raw in
    let rep = reply_of_raw pre rqo raw in
    let first = match raw with [] -> "empty" | x :: _ ->
      if x = sTART_CODE then "firstCC" else if x = sUB_START_CODE then "first01" else "firstXX" in
    Some (Printf.sprintf "fd=%s;tz=1;reply=%s" (hex_of_bytes fd) (ep_s ~status:true "-" rep),
          Printf.sprintf "mkf:ctor%s:pre%s:%s:%s" ctor prepend first
            (match rep with Ok _ -> "accepted" | _ -> "rejected"))
  | "build" :: _ :: cs :: kind :: args ->
    let c = parse_cmd cs in
    let bo, rq = match kind, args with
      | "data", [d; t; mc] -> response_from_data c (bytes_of_hex d) (n_of_int (ios t)) (n_of_int (ios mc)), Some c
      | "pid", [pid; d; t; mc] ->
        response_with_pid c (n_of_int (ios pid)) (bytes_of_hex d) (n_of_int (ios t)) (n_of_int (ios mc)), Some c
      | "nack", [r; mc] -> nack_request c (n_of_int (ios r)) (n_of_int (ios mc)), Some c
      | "nack0", [r] -> nack_request c (n_of_int (ios r)) N0, Some c
      | "ack0", [] -> response_from_data c [] rDM_ACK N0, Some c
      | "nackr", [r] -> Some (nack_response c (n_of_int (ios r))), None
      | _ -> failwith "bad build" in
    (match bo with
     | None -> Some ("built=none", "build:" ^ kind ^ ":none")
     | Some b ->
       (match pack b with
        | None -> Some ("built=" ^ cmd_s b ^ ";packed=none", "build:" ^ kind ^ ":toolong")
        | Some bs ->
          let m = match inflate_response rq bs with Ok _ -> "matched" | _ -> "unmatched" in
          Some ("built=" ^ cmd_s b ^ ";packed=" ^ hex_of_bytes bs ^ all_entry_points bs (hex_of_bytes bs) rq,
                "build:" ^ kind ^ ":" ^ m)))
  | "disc" :: kind :: args ->
    let nn s = n_of_int (ios s) in
    let port s = if s = "-" then n_of_int 1 else nn s in
    let c = match kind, args with
      | "dub", [src; lo; up; tn; p] -> new_dub (n_of_string src) (n_of_string lo) (n_of_string up) (nn tn) (port p)
      | "mute", [src; dst; tn; p] -> new_mute (n_of_string src) (n_of_string dst) (nn tn) (port p)
      | "unmute", [src; dst; tn; p] -> new_unmute (n_of_string src) (n_of_string dst) (nn tn) (port p)
      | _ -> failwith "bad disc" in
    let r = "built=" ^ cmd_s c ^ ";isdub=" ^ bool01 (is_dub c) ^ ";" ^ all_packers default_opts c in
    (match pack c with
     | None -> Some (r, "disc:refused")
     | Some b -> Some (r ^ all_entry_points b (hex_of_bytes b) None, "disc:" ^ kind))
  | ["nullctor"; v; cs; n] ->
    let c0 = parse_cmd cs in
    let nn = n_of_int (ios n) in
    let base = if v = "b" then response_from_data c0 (set_param_data None nn) rDM_ACK N0
               else Some (with_data c0 (set_param_data None nn)) in
    (match base with
     | None -> Some ("size=none", "nullctor:none")
     | Some c ->
       let r = Printf.sprintf "size=%d;cmd=%s;%s" (List.length c.c_data) (cmd_s c) (all_packers default_opts c) in
       (match pack c with
        | None -> Some (r, "nullctor:refused")
        | Some b ->
          let eqback = match inflate b with
            | Ok c2 -> bool01 (cmd_eq_cpp c c2 && cmd_eq_cpp c2 c) | _ -> "none" in
          Some (r ^ ";eqback=" ^ eqback, "nullctor:" ^ v ^ ":" ^ (if ios n = 0 then "len0" else "len>0"))))
  | ["null"; l] ->
    let st = int_of_n (verify_null (n_of_int (ios l))) in
    Some (Printf.sprintf "inf=rej;req=rej;dreq=rej;dresp=rej;resp=rej%d" st, "null:" ^ string_of_int st)
  | ["combine"; x; y] ->
    let x = parse_cmd x and y = parse_cmd y in
    (match combine_responses x y with
     | None -> Some ("comb=none", "combine:none")
     | Some c ->
       let rp = match pack c with Some b -> hex_of_bytes b | None -> "none" in
       Some ("comb=" ^ cmd_s c ^ ";packed=" ^ rp, "combine:" ^ (if rp = "none" then "toolong" else "packs")))
  | ["reply"; rq; t; h] ->
    let rqo = if rq = "-" then None else Some (parse_cmd rq) in
    let tm = match String.split_on_char ',' t with
      | [a; b; c; d] -> (((n_of_string a, n_of_string b), n_of_string c), n_of_string d)
      | _ -> failwith "bad timing" in
    let fr = { f_data = bytes_of_hex h; f_timing = tm } in
    let frame_s (f : frame) =
      let (((a, b), c), d) = f.f_timing in
      Printf.sprintf "%s/%s,%s,%s,%s" (hex_of_bytes f.f_data) (string_of_n a) (string_of_n b) (string_of_n c) (string_of_n d) in
    let frames pre l = String.concat "" (List.mapi (fun i f -> Printf.sprintf ";%s%d=%s" pre i (frame_s f)) l) in
    let (res, fl) = reply_from_frame rqo fr in
    let (dst, dl) = dub_reply fr in
    let xor32 a m = n_of_string (string_of_int ((int_of_string (string_of_n a)) lxor m)) in
    let (((a, b), c), d) = tm in
    let variants = [
      fr; { fr with f_timing = (((xor32 a 1, b), c), d) }; { fr with f_timing = (((a, xor32 b 0x80000000), c), d) };
      { fr with f_timing = (((a, b), xor32 c 0x100), d) }; { fr with f_timing = (((a, b), c), xor32 d 1) };
      { fr with f_data = fr.f_data @ [N0] };
      { fr with f_data = (match List.rev fr.f_data with [] -> [] | x :: r -> List.rev (n_of_int ((int_of_n x) lxor 1) :: r)) } ] in
    let eq = String.concat "" (List.map (fun v -> bool01 (frame_eq v fr)) variants) in
    Some (Printf.sprintf "n=%d%s;orig=%s;st=%s;dn=%d%s;dst=%d;dresp=0;feq=%s"
            (List.length fl) (frames "f" fl) (frame_s fr)
            (match res with Ok _ -> "ok" | Reject st -> string_of_int (int_of_n st) | Oob -> "OOB")
            (List.length dl) (frames "d" dl) (int_of_n dst) eq,
          "reply:" ^ (match res with Ok _ -> "accepted" | _ -> "rejected"))
  | ["replyeq"; rq; t1; h1; t2; h2] ->
    let rqo = if rq = "-" then None else Some (parse_cmd rq) in
    let mk t h = match String.split_on_char ',' t with
      | [a; b; c; d] -> { f_data = bytes_of_hex h; f_timing = (((n_of_string a, n_of_string b), n_of_string c), n_of_string d) }
      | _ -> failwith "bad timing" in
    let f1 = mk t1 h1 and f2 = mk t2 h2 in
    let r1 = reply_from_frame rqo f1 and r2 = reply_from_frame rqo f2 in
    let fe = bool01 (frame_eq f1 f2) ^ bool01 (frame_eq f2 f1) in
    let re = bool01 (reply_eq r1 r2) ^ bool01 (reply_eq r2 r1) in
    Some (Printf.sprintf "feq=%s;req=%s;rself=%s" fe re (bool01 (reply_eq r1 r1)), "replyeq:" ^ re)
  | ["eq"; _; x; _; y] ->
    let x = parse_cmd x and y = parse_cmd y in
    let e = cmd_eq_cpp x y in
    Some ("eq=" ^ bool01 e ^ ";eqsym=" ^ bool01 (cmd_eq_cpp y x), "eq:" ^ bool01 e)
  | _ -> None
let prefix_keys (r : string) (pre : string) : string =
  String.concat ";" (List.map (fun kv -> pre ^ kv) (String.split_on_char ';' r))
let handle_c (p : string) : string =
  match handle2 p with
  | Some (r, k) ->
    let builder = String.length p >= 5 && (String.sub p 0 5 = "build" || String.sub p 0 5 = "disc " || String.sub p 0 5 = "combi" || String.sub p 0 5 = "reply") in
    (if builder then prefix_keys r "b_" else r) ^ ";class=" ^ k
  | None ->
  let r = handle p in
  let op = match split p with o :: _ -> o | [] -> "?" in
  let k = if String.length r >= 5 && String.sub r 0 5 = "st=ok" then "accepted"
          else if String.length r >= 7 && String.sub r 0 7 = "packed=" then
            (if r = "packed=none" then "refused" else "packed")
          else "rejected-" ^ r in
  r ^ ";class=" ^ op ^ ":" ^ k
let () = vh_run handle_c
