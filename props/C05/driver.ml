(* C05 model driver.  payload: "<op> args..." *)
let uid_s (x : n) = string_of_n x
let cmd_s (c : cmd) =
  Printf.sprintf "%s,%s,%d,%d,%d,%d,%d,%d,%s" (uid_s c.c_src) (uid_s c.c_dst) (int_of_n c.c_tn)
    (int_of_n c.c_port) (int_of_n c.c_mc) (int_of_n c.c_sub) (int_of_n c.c_cc) (int_of_n c.c_pid)
    (hex_of_bytes c.c_data)
let parse_cmd (s : string) : cmd =
  match String.split_on_char ',' s with
  | [src; dst; tn; port; mc; sub; cc; pid; data] ->
    { c_src = n_of_string src; c_dst = n_of_string dst; c_tn = n_of_int (ios tn);
      c_port = n_of_int (ios port); c_mc = n_of_int (ios mc); c_sub = n_of_int (ios sub);
      c_cc = n_of_int (ios cc); c_pid = n_of_int (ios pid); c_data = bytes_of_hex data }
  | _ -> failwith "bad cmd"
let res_s (r : res) =
  match r with
  | Oob -> "st=OOB"
  | Reject st -> Printf.sprintf "st=%d" (int_of_n st)
  | Ok c ->
    let rp = match pack c with Some b -> hex_of_bytes b | None -> "none" in
    Printf.sprintf "st=ok;cmd=%s;repack=%s" (cmd_s c) rp
(* entry points that return NULL without a status code *)
let nostatus (r : res) = match r with Reject _ -> Reject nOSTATUS | _ -> r
let handle (p : string) : string =
  match split p with
  | ["inf"; h] -> res_s (nostatus (inflate (bytes_of_hex h)))
  | ["req"; h] -> res_s (nostatus (inflate_request (bytes_of_hex h)))
  | ["dreq"; h] -> res_s (nostatus (inflate_disc_request (bytes_of_hex h)))
  | ["dresp"; h] -> res_s (nostatus (inflate_disc_response (bytes_of_hex h)))
  | ["resp"; h] -> res_s (inflate_response None (bytes_of_hex h))
  | ["match"; rq; h] -> res_s (inflate_response (Some (parse_cmd rq)) (bytes_of_hex h))
  | ["frame"; h] -> res_s (from_frame None (bytes_of_hex h))
  | ["framem"; rq; h] -> res_s (from_frame (Some (parse_cmd rq)) (bytes_of_hex h))
  | ["pack"; c] ->
    let c = parse_cmd c in
    (match pack c with
     | None -> "packed=none"
     | Some b ->
       let back = inflate b in
       let rt = match back with Ok c2 -> if cmd_eq_cpp c c2 && c2 = c then "1" else "0" | _ -> "0" in
       Printf.sprintf "packed=%s;rt=%s" (hex_of_bytes b) rt)
  | _ -> "bad-op"
let handle_c (p : string) : string =
  let r = handle p in
  let op = match split p with o :: _ -> o | [] -> "?" in
  let k = if String.length r >= 5 && String.sub r 0 5 = "st=ok" then "accepted"
          else if String.length r >= 7 && String.sub r 0 7 = "packed=" then
            (if r = "packed=none" then "refused" else "packed")
          else "rejected-" ^ r in
  r ^ ";class=" ^ op ^ ":" ^ k
let () = vh_run handle_c
