ID = 'C05'
CXX_SOURCES = []
GROUPS = ['common']

def gen_consts(v):
    import os
    ents = [(n, 'ola::rdm::' + n) for n in (
        'RDM_COMPLETED_OK RDM_INVALID_RESPONSE RDM_CHECKSUM_INCORRECT RDM_TRANSACTION_MISMATCH '
        'RDM_SUB_DEVICE_MISMATCH RDM_SRC_UID_MISMATCH RDM_DEST_UID_MISMATCH RDM_WRONG_SUB_START_CODE '
        'RDM_PACKET_TOO_SHORT RDM_PACKET_LENGTH_MISMATCH RDM_PARAM_LENGTH_MISMATCH '
        'RDM_INVALID_COMMAND_CLASS RDM_COMMAND_CLASS_MISMATCH RDM_INVALID_RESPONSE_TYPE '
        'START_CODE SUB_START_CODE ACK_OVERFLOW ALL_RDM_SUBDEVICES PID_QUEUED_MESSAGE').split()]
    ents += [(n, 'ola::rdm::RDMCommand::' + n) for n in (
        'DISCOVER_COMMAND DISCOVER_COMMAND_RESPONSE GET_COMMAND GET_COMMAND_RESPONSE '
        'SET_COMMAND SET_COMMAND_RESPONSE').split()]
    ents += [('HEADER_SIZE', 'sizeof(ola::rdm::RDMCommandHeader)'),
             ('MAX_PARAM_DATA_LENGTH', 'ola::rdm::RDMCommandSerializer::MAX_PARAM_DATA_LENGTH'),
             ('CHECKSUM_LENGTH', 'ola::rdm::CHECKSUM_LENGTH'),
             ('OFF_message_length', 'offsetof(ola::rdm::RDMCommandHeader, message_length)'),
             ('OFF_destination_uid', 'offsetof(ola::rdm::RDMCommandHeader, destination_uid)'),
             ('OFF_source_uid', 'offsetof(ola::rdm::RDMCommandHeader, source_uid)'),
             ('OFF_transaction_number', 'offsetof(ola::rdm::RDMCommandHeader, transaction_number)'),
             ('OFF_port_id', 'offsetof(ola::rdm::RDMCommandHeader, port_id)'),
             ('OFF_message_count', 'offsetof(ola::rdm::RDMCommandHeader, message_count)'),
             ('OFF_sub_device', 'offsetof(ola::rdm::RDMCommandHeader, sub_device)'),
             ('OFF_command_class', 'offsetof(ola::rdm::RDMCommandHeader, command_class)'),
             ('OFF_param_id', 'offsetof(ola::rdm::RDMCommandHeader, param_id)'),
             ('OFF_param_data_length', 'offsetof(ola::rdm::RDMCommandHeader, param_data_length)')]
    return v.gen_consts_cpp(ID, ['ola/rdm/RDMCommand.h', 'ola/rdm/RDMCommandSerializer.h',
                                 'ola/rdm/RDMPacket.h', 'ola/rdm/RDMEnums.h',
                                 'ola/rdm/RDMResponseCodes.h'],
                            ents, os.path.join(v.VERIF, 'props', ID, 'coq', 'Gen.v'))

RULE = ('frames: length x message-length byte x PDL byte x command class x checksum fixed/off-by-one '
        '(boundary values of every comparison in the model) + random bodies + random/corner command '
        'values for pack + request/response matching mutations; non-trivial = frame accepted or command '
        'packed; distinct = distinct model output line')
ASSUMPTIONS = ['operator new does not fail', 'decoders are given exact-size heap copies so ASan sees any over-read']
TRUSTED = ['modelled rather than verified: RDMCommand.cpp VerifyData/CalculateChecksum/GuessMessageType/Inflate/'
           '4x InflateFromData, RDMCommandSerializer RequiredSize/Pack/PopulateHeader (Write(IOStack) and '
           'Pack(buffer) are compared with Pack(ByteString) by the harness), RDMReply::FromFrame, '
           'RDMCommand::operator==; constants and header offsets regenerated into Gen.v']

CCS = [0x10, 0x11, 0x20, 0x21, 0x30, 0x31]

def hx(bs):
    return ''.join('%02x' % b for b in bs) if bs else '-'

def fix_ck(bs, ml, delta=0):
    if ml >= 1 and ml < len(bs):
        ck = (0xcc + sum(bs[:ml - 1]) + delta) & 0xffff
        bs[ml - 1] = ck >> 8
        bs[ml] = ck & 255

def mk_frame(rng, length, ml, pdl, cc, ckdelta, ssc=1):
    bs = [rng.randrange(256) for _ in range(length)]
    if length > 0: bs[0] = ssc
    if length > 1: bs[1] = ml & 255
    if length > 15 and rng.random() < 0.7: bs[15] = rng.choice([0, 1, 2, 3, 4])
    if length > 19: bs[19] = cc
    if length > 22: bs[22] = pdl & 255
    if ckdelta is not None:
        fix_ck(bs, ml & 255, ckdelta)
    return bs

def rand_uid(rng):
    return rng.choice([0, 1, (1 << 48) - 1, (1 << 48) - 2, 0x7a7000000001, 0xffff00000000 | rng.randrange(1 << 32),
                       rng.randrange(1 << 48), rng.randrange(1 << 48)])

def rand_cmd(rng, cc=None, n=None):
    if n is None:
        n = rng.choice([0, 0, 1, 2, 3, 16, 100, 229, 230, 231, rng.randrange(232)])
    return dict(src=rand_uid(rng), dst=rand_uid(rng), tn=rng.choice([0, 1, 127, 128, 255, rng.randrange(256)]),
                port=rng.choice([0, 1, 2, 3, 4, 255, rng.randrange(256)]), mc=rng.choice([0, 1, 255, rng.randrange(256)]),
                sub=rng.choice([0, 1, 512, 0xffff, 0xfffe, rng.randrange(65536)]),
                cc=cc if cc is not None else rng.choice(CCS),
                pid=rng.choice([0, 0x20, 0x1f, 0x21, 0xffff, 0x0060, rng.randrange(65536)]),
                data=[rng.randrange(256) for _ in range(n)])

def cmd_s(c):
    return '%d,%d,%d,%d,%d,%d,%d,%d,%s' % (c['src'], c['dst'], c['tn'], c['port'], c['mc'], c['sub'],
                                           c['cc'], c['pid'], hx(c['data']))

def frame_of(c, ml=None, ckdelta=0):
    d = c['data']
    bs = [1, (24 + len(d)) & 255 if ml is None else ml]
    bs += list(c['dst'].to_bytes(6, 'big')) + list(c['src'].to_bytes(6, 'big'))
    bs += [c['tn'], c['port'], c['mc'], c['sub'] >> 8, c['sub'] & 255, c['cc'], c['pid'] >> 8, c['pid'] & 255, len(d) & 255]
    bs += d
    ck = (0xcc + sum(bs) + ckdelta) & 0xffff
    return bs + [ck >> 8, ck & 255]

def gen_cases(rng, tier):
    quick = tier == 'quick'
    lengths = list(range(0, 64)) + [253, 254, 255, 256, 257, 258, 259, 300] if quick else list(range(0, 301))
    ops = ['inf', 'inf', 'inf', 'resp', 'req', 'dreq', 'dresp', 'frame']
    for L in lengths:
        mls = sorted({0, 1, 2, 22, 23, 24, 25, (L - 2) & 255, (L - 1) & 255, L & 255, (L + 1) & 255, 255})
        pdls = sorted({0, 1, (L - 26) & 255, (L - 25) & 255, (L - 24) & 255, 231, 232, 255})
        for ml in mls:
            for pdl in pdls:
                ccs = [rng.choice(CCS + [0x99])] if quick else CCS + [0x99]
                for cc in ccs:
                    for ckd in (0, 1):
                        op = rng.choice(ops)
                        bs = mk_frame(rng, L, ml, pdl, cc, ckd)
                        if op == 'frame':
                            bs = [0xcc] + bs
                        yield '%s %s' % (op, hx(bs))
    n = 2000 if quick else 60000
    # pure noise and wrong sub-start codes
    for i in range(n // 4):
        L = rng.choice([0, 1, 2, 19, 20, 22, 23, 24, 25, 26, 27, 40, rng.randrange(300)])
        bs = mk_frame(rng, L, rng.randrange(256), rng.randrange(256), rng.choice(CCS + [0, 0xff]),
                      rng.choice([None, 0, 0, 1]), ssc=rng.choice([1, 1, 1, 0, 2, 0xcc]))
        yield '%s %s' % (rng.choice(ops), hx(bs))
    # valid frames with non-canonical message length / trailing bytes
    for i in range(n // 4):
        c = rand_cmd(rng)
        fr = frame_of(c)
        k = rng.choice([0, 0, 1, 2, 5])
        fr2 = fr + [rng.randrange(256) for _ in range(k)]
        if rng.random() < 0.3 and len(fr2) > 26:
            # message length pointing at a later/earlier checksum position
            ml = rng.choice([24, 25, len(fr2) - 2, len(fr2) - 1, len(fr2) - 3]) & 255
            fr2[1] = ml
            fix_ck(fr2, ml)
        op = rng.choice(ops)
        yield '%s %s' % (op, hx(([0xcc] if op == 'frame' else []) + fr2))
    # pack / round trip
    for i in range(n // 4):
        c = rand_cmd(rng, n=rng.choice([0, 1, 2, 230, 231, 232, 233, 255, 256, 300, rng.randrange(232)]))
        yield 'pack %s' % cmd_s(c)
    # request/response matching
    for i in range(n // 4):
        rq = rand_cmd(rng, cc=rng.choice([0x10, 0x20, 0x30]))
        rs = rand_cmd(rng, cc=rq['cc'] + 1)
        rs['src'], rs['dst'], rs['tn'], rs['sub'] = rq['dst'], rq['src'], rq['tn'], rq['sub']
        rs['port'] = rng.choice([0, 0, 0, 1, 2, 3, 4, 255])
        for _ in range(rng.choice([0, 0, 1, 1, 2, 3])):
            f = rng.choice(['src', 'dst', 'tn', 'sub', 'cc', 'rqsub', 'rqpid', 'rqcc'])
            if f == 'src': rs['src'] = rand_uid(rng)
            elif f == 'dst': rs['dst'] = rand_uid(rng)
            elif f == 'tn': rs['tn'] = (rs['tn'] + rng.choice([1, 255, 128])) & 255
            elif f == 'sub': rs['sub'] = rng.choice([0, 1, 0xffff, rng.randrange(65536)])
            elif f == 'cc': rs['cc'] = rng.choice(CCS + [0x99])
            elif f == 'rqsub': rq['sub'] = rng.choice([0xffff, 0, 1])
            elif f == 'rqpid': rq['pid'] = 0x20
            elif f == 'rqcc': rq['cc'] = rng.choice([0x10, 0x20, 0x30])
        fr = frame_of(rs, ckdelta=rng.choice([0, 0, 0, 0, 1]))
        if rng.random() < 0.5:
            yield 'match %s %s' % (cmd_s(rq), hx(fr))
        else:
            yield 'framem %s %s' % (cmd_s(rq), hx([0xcc] + fr))

def nontrivial(payload, md):
    return md.get('st') == 'ok' or ('packed' in md and md['packed'] != 'none')

LEVEL_TEXT = ('Coq theorems over an executable model of the RDM codec (all decoders total and free of '
              'out-of-range reads; acceptance conditions; pack/inflate round trip for every well-formed command; '
              'canonical frames re-pack to the same bytes; request/response matching statuses), for all byte '
              'strings and all command values; model tied to the C++ by a differential correspondence check '
              '(ASan/UBSan build of /repo working tree) and constants/offsets regenerated from the headers.')
LEVEL_NOTE = ('Trusted: Coq kernel, extraction (ExtrOcamlBasic), OCaml/C++ glue, generator coverage of the '
              'correspondence; model = code is validated by differential testing, not proved.')
TECHNIQUE = 'Coq proof on hand-written executable model + extracted-model/implementation differential correspondence'
DESIGN_REF = 'DESIGN.md §4 C05'
