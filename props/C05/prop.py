ID = 'C05'
CXX_SOURCES = []
GROUPS = ['common']

def gen_consts(v):
    import os
    ents = [(n, 'ola::rdm::' + n) for n in (
        'RDM_COMPLETED_OK RDM_INVALID_RESPONSE RDM_CHECKSUM_INCORRECT RDM_TRANSACTION_MISMATCH '
        'RDM_SUB_DEVICE_MISMATCH RDM_SRC_UID_MISMATCH RDM_DEST_UID_MISMATCH RDM_WRONG_SUB_START_CODE '
        'RDM_PACKET_TOO_SHORT RDM_PACKET_LENGTH_MISMATCH RDM_PARAM_LENGTH_MISMATCH '
        'RDM_INVALID_COMMAND_CLASS RDM_COMMAND_CLASS_MISMATCH RDM_INVALID_RESPONSE_TYPE '
        'START_CODE SUB_START_CODE ACK_OVERFLOW ALL_RDM_SUBDEVICES PID_QUEUED_MESSAGE '
        'RDM_ACK RDM_NACK_REASON').split()]
    ents += [(n, 'ola::rdm::RDMCommand::' + n) for n in (
        'DISCOVER_COMMAND DISCOVER_COMMAND_RESPONSE GET_COMMAND GET_COMMAND_RESPONSE '
        'SET_COMMAND SET_COMMAND_RESPONSE').split()]
    ents += [(n, 'ola::rdm::' + n) for n in 'PID_DISC_UNIQUE_BRANCH PID_DISC_MUTE PID_DISC_UN_MUTE ROOT_RDM_DEVICE'.split()]
    ents += [('ALL_DEVICES_UID', '((unsigned long long)ola::rdm::UID::AllDevices().ManufacturerId() << 32) | '
                                 'ola::rdm::UID::AllDevices().DeviceId()'),
             ('UID_SIZE', 'ola::rdm::UID::UID_SIZE')]
    ents += [('RDM_DUB_RESPONSE', 'ola::rdm::RDM_DUB_RESPONSE'),
             ('MAX_OVERFLOW_SIZE', 'ola::rdm::RDMResponse::MAX_OVERFLOW_SIZE'),
             ('INVALID_COMMAND', 'ola::rdm::RDMCommand::INVALID_COMMAND')]
    ents += [('SIZE_' + f, 'sizeof(((ola::rdm::RDMCommandHeader*)0)->%s)' % f) for f in (
        'sub_start_code message_length destination_uid source_uid transaction_number port_id message_count '
        'sub_device command_class param_id param_data_length').split()]
    ents += [('OFF_sub_start_code', 'offsetof(ola::rdm::RDMCommandHeader, sub_start_code)')]
    ents += [('HEADER_SIZE', 'sizeof(ola::rdm::RDMCommandHeader)'),
             ('MAX_PARAM_DATA_LENGTH', 'ola::rdm::RDMCommandSerializer::MAX_PARAM_DATA_LENGTH'),
             ('CHECKSUM_LENGTH', 'ola::rdm::CHECKSUM_LENGTH'),
             ('OFF_message_length', 'offsetof(ola::rdm::RDMCommandHeader, message_length)'),
             ('OFF_destination_uid', 'offsetof(ola::rdm::RDMCommandHeader, destination_uid)'),
             ('OFF_source_uid', 'offsetof(ola::rdm::RDMCommandHeader, source_uid)'),
             ('OFF_transaction_number', 'offsetof(ola::rdm::RDMCommandHeader, transaction_number)'),
             ('OFF_port_id', 'offsetof(ola::rdm::RDMCommandHeader, port_id)'),
             ('OFF_message_count', 'offsetof(ola::rdm::RDMCommandHeader, message_count)'),
             ('OFF_sub_device', 'offsetof(ola::rdm::RDMCommandHeader, sub_device)'),
             ('OFF_command_class', 'offsetof(ola::rdm::RDMCommandHeader, command_class)'),
             ('OFF_param_id', 'offsetof(ola::rdm::RDMCommandHeader, param_id)'),
             ('OFF_param_data_length', 'offsetof(ola::rdm::RDMCommandHeader, param_data_length)')]
    return v.gen_consts_cpp(ID, ['ola/rdm/RDMCommand.h', 'ola/rdm/RDMCommandSerializer.h',
                                 'ola/rdm/RDMPacket.h', 'ola/rdm/RDMEnums.h',
                                 'ola/rdm/RDMResponseCodes.h', 'ola/rdm/UID.h'],
                            ents, os.path.join(v.VERIF, 'props', ID, 'coq', 'Gen.v'))

RULE = ('frames: length x message-length byte x PDL byte x command class x checksum fixed/off-by-one '
        '(boundary values of every comparison in the model) + random bodies + random/corner command '
        'values for pack + request/response matching mutations; every command class x PID '
        '{0,1,2,3,4,0x20,0x7fe0,0xffff,random} x parameter length {0,1,11,12,13,230,231} x generic/class-specific '
        'constructor packed by every serialiser (Pack ByteString/buffer/appending, PackWithStartCode, Write) and '
        'decoded through every entry point (Inflate, 4x InflateFromData incl. the ByteString overload, FromFrame on '
        'frames built by both RDMFrame constructors with and without prepend_start_code); RDMFrame construction with '
        'the first data byte over all 256 values x both constructors x both option values; requests with '
        'OverrideOptions (sub-start code / message length / checksum); response builders (GetResponseFromData, '
        'GetResponseWithPid, NackWithReason x2); discovery request builders; CombineResponses around the 231/4096 limits; '
        'FromFrame/DUBReply keep the frame and its timing; NULL pointer with a claimed length; Duplicate; setters; '
        'operator== on one-field mutations; non-trivial = frame '
        'accepted / command packed / equality compared; distinct = distinct model output line')
ASSUMPTIONS = ['operator new does not fail', 'decoders are given exact-size heap copies so ASan sees any over-read', 'every case is executed at each of the five log levels (NONE..DEBUG, consuming LogDestination): results must be identical and sanitizer-clean at every level']
TRUSTED = ['modelled rather than verified: RDMCommand.cpp VerifyData/CalculateChecksum/GuessMessageType/Inflate/'
           '4x InflateFromData, RDMCommandSerializer RequiredSize/Pack/PopulateHeader (Write(IOStack) and '
           'Pack(buffer) are compared with the model of Pack(ByteString) by the harness), PackWithStartCode, '
           'RDMReply::FromFrame, RDMFrame constructors, GetResponseWithPid/GetResponseFromData/NackWithReason, '
           'Duplicate, RDMCommand::operator==; constants and header offsets regenerated into Gen.v; '
           'RequiredSize / Pack(buffer) / Write(IOStack) modelled separately (Ser.v, uint16_t accumulation) and proved equal to Pack, '
           'RDMCommand::SetParamData with a NULL pointer (as fixed by fixes/02-null-param-data), '
           'RDMResponse::CombineResponses, RDMReply::DUBReply, RDMFrame::operator==, the discovery request builders, '
           'setters, IsDUB; not modelled: RDMReply::operator==/ToString, RDMCommand::ToString/Print; '
           'DuplicateWithControllerParams does not exist in this checkout']

CCS = [0x10, 0x11, 0x20, 0x21, 0x30, 0x31]

def hx(bs):
    return ''.join('%02x' % b for b in bs) if bs else '-'

def fix_ck(bs, ml, delta=0):
    if ml >= 1 and ml < len(bs):
        ck = (0xcc + sum(bs[:ml - 1]) + delta) & 0xffff
        bs[ml - 1] = ck >> 8
        bs[ml] = ck & 255

def mk_frame(rng, length, ml, pdl, cc, ckdelta, ssc=1):
    bs = [rng.randrange(256) for _ in range(length)]
    if length > 0: bs[0] = ssc
    if length > 1: bs[1] = ml & 255
    if length > 15 and rng.random() < 0.7: bs[15] = rng.choice([0, 1, 2, 3, 4])
    if length > 19: bs[19] = cc
    if length > 22: bs[22] = pdl & 255
    if ckdelta is not None:
        fix_ck(bs, ml & 255, ckdelta)
    return bs

def rand_uid(rng):
    return rng.choice([0, 1, (1 << 48) - 1, (1 << 48) - 2, 0x7a7000000001, 0xffff00000000 | rng.randrange(1 << 32),
                       (rng.randrange(65536) << 32) | 0xffffffff,
                       rng.randrange(1 << 48), rng.randrange(1 << 48)])

def rand_cmd(rng, cc=None, n=None):
    if n is None:
        n = rng.choice([0, 0, 1, 2, 3, 16, 100, 229, 230, 231, rng.randrange(232)])
    return dict(src=rand_uid(rng), dst=rand_uid(rng), tn=rng.choice([0, 1, 127, 128, 255, rng.randrange(256)]),
                port=rng.choice([0, 1, 2, 3, 4, 255, rng.randrange(256)]), mc=rng.choice([0, 1, 255, rng.randrange(256)]),
                sub=rng.choice([0, 1, 512, 0xffff, 0xfffe, rng.randrange(65536)]),
                cc=cc if cc is not None else rng.choice(CCS),
                pid=rng.choice([0, 0x20, 0x1f, 0x21, 0xffff, 0x0060, rng.randrange(65536)]),
                data=[rng.randrange(256) for _ in range(n)])

def cmd_s(c):
    return '%d,%d,%d,%d,%d,%d,%d,%d,%s' % (c['src'], c['dst'], c['tn'], c['port'], c['mc'], c['sub'],
                                           c['cc'], c['pid'], hx(c['data']))

def frame_of(c, ml=None, ckdelta=0):
    d = c['data']
    bs = [1, (24 + len(d)) & 255 if ml is None else ml]
    bs += list(c['dst'].to_bytes(6, 'big')) + list(c['src'].to_bytes(6, 'big'))
    bs += [c['tn'], c['port'], c['mc'], c['sub'] >> 8, c['sub'] & 255, c['cc'], c['pid'] >> 8, c['pid'] & 255, len(d) & 255]
    bs += d
    ck = (0xcc + sum(bs) + ckdelta) & 0xffff
    return bs + [ck >> 8, ck & 255]


# ---- round 2: every API entry point of the anchored files -------------------------------------
RT_PIDS = [0, 1, 2, 3, 4, 0x20, 0x7fe0, 0xffff, None]
RT_LENS = [0, 1, 11, 12, 13, 230, 231]

def gen_entry_points(rng, tier):
    quick = tier == 'quick'
    # (a) pack -> every decoder entry point, every class x PID x parameter length, both constructor families
    for rep in range(1 if quick else 6):
        for variant in 'gs':
            for cc in CCS:
                for pid in RT_PIDS:
                    for n in RT_LENS + ([] if quick else [rng.randrange(232)]):
                        c = rand_cmd(rng, cc=cc, n=n)
                        c['pid'] = rng.randrange(65536) if pid is None else pid
                        if cc & 1 and rng.random() < 0.75:
                            c['port'] = rng.randrange(4)
                        yield 'rt %s %s' % (variant, cmd_s(c))
    for i in range(60 if quick else 600):
        c = rand_cmd(rng, cc=rng.choice(CCS + [0x99, 0, 0xff]), n=rng.choice([0, 5, 231, 232, 233, 300, 512]))
        c['pid'] = rng.choice([1, 2, 3, rng.randrange(65536)])
        yield 'rt %s %s' % (rng.choice('gs'), cmd_s(c))
    # (b) RDMFrame constructors (prepend on/off) + RDMReply::FromFrame; first data byte over all 256 values
    for ctor in (1, 2):
        for pre in (0, 1):
            for b in range(256):
                for flavour in (0, 1):
                    rs = rand_cmd(rng, cc=rng.choice([0x11, 0x21, 0x31]), n=rng.choice([0, 0, 1, 2, 7]))
                    rs['port'] = rng.choice([0, 0, 0, 1, 2, 3, 4])
                    msg = frame_of(rs)
                    if flavour == 0:
                        raw = [b] + msg            # a byte in front of a complete valid message
                    else:
                        raw = [b] + msg[1:]        # the sub-start code position itself
                        if rng.random() < 0.5:     # keep the checksum consistent with the changed byte
                            fix_ck(raw, raw[1])
                    rqs = '-'
                    if rng.random() < 0.3:
                        rq = rand_cmd(rng, cc=rs['cc'] - 1)
                        rq['src'], rq['dst'], rq['tn'], rq['sub'] = rs['dst'], rs['src'], rs['tn'], rs['sub']
                        if rng.random() < 0.3: rq['tn'] = (rq['tn'] + 1) & 255
                        rqs = cmd_s(rq)
                    yield 'mkf %d %d %s %s' % (ctor, pre, rqs, hx(raw))
    for i in range(200 if quick else 4000):
        ctor = rng.choice([1, 2, 3, 4])
        pre = rng.choice([0, 1]) if ctor < 3 else 0
        k = rng.random()
        if k < 0.2:
            raw = [rng.choice([0xcc, 1, 0, rng.randrange(256)]) for _ in range(rng.choice([0, 1, 2, 3]))]
        elif k < 0.6:
            raw = frame_of(rand_cmd(rng, cc=rng.choice([0x11, 0x21, 0x31])))
            raw = rng.choice([[], [], [], [0xcc], [0xcc, 0xcc], [1], [rng.randrange(256)]]) + raw
        else:
            L = rng.choice([22, 23, 24, 25, 26, 27, 40])
            raw = mk_frame(rng, L, rng.choice([24, L - 2, L - 1, L]) & 255, rng.choice([0, 1, L - 25, L - 24]) & 255,
                           rng.choice([0x11, 0x21, 0x31, 0x20]), rng.choice([0, 0, 1]), ssc=rng.choice([1, 1, 0xcc]))
            raw = rng.choice([[], [0xcc], [0xcc]]) + raw
        if rng.random() < 0.1:   # long data (more than 255 bytes) through the constructors
            raw = raw + [rng.randrange(256) for _ in range(rng.choice([200, 231, 256, 280]))]
        yield 'mkf %d %d - %s' % (ctor, pre, hx(raw))
    # (c) requests with OverrideOptions (sub-start code, message length, checksum) through every packer + decoder
    for i in range(300 if quick else 5000):
        c = rand_cmd(rng, cc=rng.choice([0x10, 0x20, 0x30, 0x10, 0x20, 0x30, 0x21, 0x99]),
                     n=rng.choice([0, 1, 2, 12, 230, 231, 232, rng.randrange(232)]))
        n = len(c['data'])
        c['pid'] = rng.choice([1, 2, 3, 0x20, rng.randrange(65536)])
        ssc = rng.choice([1, 1, 1, 0, 2, 0xcc, rng.randrange(256)])
        ml = rng.choice(['-', '-', '-', (24 + n) & 255, (23 + n) & 255, (25 + n) & 255, 23, 24, 0, 255, rng.randrange(256)])
        good = (0xcc + sum(frame_of(c)[:-2])) & 0xffff      # checksum of the default-options frame
        ck = rng.choice(['-', '-', '-', good, (good + 1) & 0xffff, 0, 0xffff, rng.randrange(65536)])
        yield 'packo %s %s %d %s %s' % (rng.choice('gs'), cmd_s(c), ssc, ml, ck)
    # (d) response builders: GetResponseFromData / GetResponseWithPid / NackWithReason (both overloads)
    for i in range(300 if quick else 5000):
        kind = rng.choice(['data', 'data', 'pid', 'pid', 'nack', 'nack0', 'ack0', 'nackr'])
        if kind == 'nackr':
            c = rand_cmd(rng, cc=rng.choice([0x11, 0x21, 0x31, 0x21, 0x31, 0x99]))
            c['port'] = rng.choice([0, 1, 2, 3, 4, 255])
            yield 'build %s %s nackr %d' % (rng.choice('gs'), cmd_s(c), rng.randrange(32))
            continue
        c = rand_cmd(rng, cc=rng.choice([0x10, 0x20, 0x30, 0x10, 0x20, 0x30, 0x21, 0x99]))
        c['pid'] = rng.choice([1, 2, 3, 0x20, 0x20, rng.randrange(65536)])
        c['sub'] = rng.choice([0, 1, 0xffff, rng.randrange(65536)])
        d = [rng.randrange(256) for _ in range(rng.choice([0, 1, 2, 12, 230, 231, 232, rng.randrange(232)]))]
        mc = rng.choice([0, 1, 255, rng.randrange(256)])
        v = rng.choice('gs')
        if kind == 'data':
            yield 'build %s %s data %s %d %d' % (v, cmd_s(c), hx(d), rng.randrange(4), mc)
        elif kind == 'pid':
            yield 'build %s %s pid %d %s %d %d' % (v, cmd_s(c), rng.choice([c['pid'], 0x20, rng.randrange(65536)]),
                                                   hx(d), rng.choice([0, 1, 2, 3, 4, 255]), mc)
        elif kind == 'nack':
            yield 'build %s %s nack %d %d' % (v, cmd_s(c), rng.randrange(32), mc)
        elif kind == 'nack0':
            yield 'build %s %s nack0 %d' % (v, cmd_s(c), rng.randrange(32))
        else:
            yield 'build %s %s ack0' % (v, cmd_s(c))
    # (f) the discovery request builders, and a NULL pointer with every claimed length around the header size
    for i in range(60 if quick else 1000):
        k = rng.choice(['dub', 'mute', 'unmute'])
        port = rng.choice(['-', 1, 0, 255, rng.randrange(256)])
        tn = rng.choice([0, 1, 255, rng.randrange(256)])
        if k == 'dub':
            yield 'disc dub %d %d %d %d %s' % (rand_uid(rng), rand_uid(rng), rand_uid(rng), tn, port)
        else:
            yield 'disc %s %d %d %d %s' % (k, rand_uid(rng), rand_uid(rng), tn, port)
    for L in [0, 1, 19, 20, 21, 22, 23, 24, 25, 26, 255, 256, 300]:
        yield 'null %d' % L
    # (g) CombineResponses (ACK_OVERFLOW reassembly) and RDMReply/RDMFrame bookkeeping (frame kept, timing untouched)
    for i in range(150 if quick else 3000):
        cc = rng.choice([0x21, 0x31, 0x21, 0x31, 0x11])
        x = rand_cmd(rng, cc=cc, n=rng.choice([0, 1, 100, 115, 116, 231, 2047, 2048, 2049, 4095, 4096]))
        y = rand_cmd(rng, cc=cc if rng.random() < 0.8 else rng.choice([0x21, 0x31, 0x11]),
                     n=rng.choice([0, 1, 115, 116, 131, 231, 2047, 2048, 2049]))
        if rng.random() < 0.8: y['src'] = x['src']
        yield 'combine %s %s' % (cmd_s(x), cmd_s(y))
    for i in range(150 if quick else 3000):
        rs = rand_cmd(rng, cc=rng.choice([0x11, 0x21, 0x31]), n=rng.choice([0, 1, 5]))
        rs['port'] = rng.choice([0, 0, 1, 2, 3, 4])
        fr = [0xcc] + frame_of(rs, ckdelta=rng.choice([0, 0, 0, 1]))
        if rng.random() < 0.2: fr = fr[:rng.randrange(len(fr))]
        tm = ','.join(str(rng.choice([0, 1, 0xffffffff, 0x80000000, rng.randrange(1 << 32)])) for _ in range(4))
        rqs = '-'
        if rng.random() < 0.4:
            rq = rand_cmd(rng, cc=rs['cc'] - 1)
            rq['src'], rq['dst'], rq['tn'], rq['sub'] = rs['dst'], rs['src'], rs['tn'], rs['sub']
            rqs = cmd_s(rq)
        yield 'reply %s %s %s' % (rqs, tm, hx(fr))
    # (h) every public constructor (and GetResponseFromData) given data = NULL with a claimed length
    for i in range(120 if quick else 2000):
        v = rng.choice('gsb')
        c = rand_cmd(rng, cc=rng.choice([0x10, 0x20, 0x30]) if v == 'b' else rng.choice(CCS), n=0)
        if c['cc'] & 1: c['port'] = rng.randrange(4)
        yield 'nullctor %s %s %d' % (v, cmd_s(c), rng.choice([0, 0, 1, 2, 12, 231, 232, 1000]))
    # (i) RDMReply::operator== / RDMFrame::operator== on pairs of replies decoded from frames that are equal or
    #     differ in one timing word, one data byte, the response type (ignored by the command equality) or length
    for i in range(200 if quick else 4000):
        rs = rand_cmd(rng, cc=rng.choice([0x11, 0x21, 0x31]), n=rng.choice([0, 1, 5]))
        rs['port'] = rng.choice([0, 0, 1, 2, 3, 4])
        f1 = [0xcc] + frame_of(rs, ckdelta=rng.choice([0, 0, 0, 1]))
        t1 = [rng.choice([0, 1, 0xffffffff, rng.randrange(1 << 32)]) for _ in range(4)]
        f2, t2 = list(f1), list(t1)
        m = rng.choice(['same', 'same', 'timing', 'byte', 'rtype', 'len', 'startcode', 'other'])
        if m == 'timing': t2[rng.randrange(4)] ^= rng.choice([1, 0x80000000])
        elif m == 'byte': f2[rng.randrange(len(f2))] ^= rng.choice([1, 0x80])
        elif m == 'rtype':
            r2 = dict(rs); r2['port'] = (rs['port'] + 1) % 4; f2 = [0xcc] + frame_of(r2)
        elif m == 'len': f2 = f2[:-1] if rng.random() < 0.5 else f2 + [0]
        elif m == 'startcode': f2[0] = 0
        elif m == 'other': f2 = [0xcc] + frame_of(rand_cmd(rng, cc=rs['cc'], n=1))
        rqs = '-'
        if rng.random() < 0.3:
            rq = rand_cmd(rng, cc=rs['cc'] - 1)
            rq['src'], rq['dst'], rq['tn'], rq['sub'] = rs['dst'], rs['src'], rs['tn'], rs['sub']
            rqs = cmd_s(rq)
        yield 'replyeq %s %s %s %s %s' % (rqs, ','.join(map(str, t1)), hx(f1), ','.join(map(str, t2)), hx(f2))
    # (e) RDMCommand::operator== on commands differing in at most one field
    for i in range(300 if quick else 5000):
        x = rand_cmd(rng, n=rng.choice([0, 1, 2, 3, 16, 231]))
        y = dict(x); y['data'] = list(x['data'])
        f = rng.choice(['none', 'src', 'dst', 'tn', 'port', 'mc', 'sub', 'cc', 'pid', 'data', 'len', 'lastbyte'])
        if f == 'src': y['src'] = rand_uid(rng)
        elif f == 'dst': y['dst'] = rand_uid(rng)
        elif f == 'tn': y['tn'] = (x['tn'] + rng.choice([1, 128, 255])) & 255
        elif f == 'port': y['port'] = (x['port'] + rng.choice([1, 128, 255])) & 255
        elif f == 'mc': y['mc'] = (x['mc'] + rng.choice([1, 128, 255])) & 255
        elif f == 'sub': y['sub'] = x['sub'] ^ rng.choice([1, 0x100, 0x8000, 0xffff])
        elif f == 'cc': y['cc'] = rng.choice(CCS)
        elif f == 'pid': y['pid'] = x['pid'] ^ rng.choice([1, 0x100, 0x8000, 0xffff])
        elif f == 'data' and x['data']:
            k = rng.randrange(len(x['data'])); y['data'][k] ^= rng.choice([1, 0x80, 0xff])
        elif f == 'lastbyte' and x['data']:
            y['data'][-1] ^= rng.choice([1, 0x80, 0xff])
        elif f == 'len':
            y['data'] = x['data'][:-1] if x['data'] and rng.random() < 0.5 else x['data'] + [rng.randrange(256)]
            if len(y['data']) > 231: y['data'] = x['data'][:-1]
        yield 'eq %s %s %s %s' % (rng.choice('gs'), cmd_s(x), rng.choice('gs'), cmd_s(y))

def gen_cases(rng, tier):
    quick = tier == 'quick'
    for c in gen_entry_points(rng, tier):
        yield c
    lengths = list(range(0, 64)) + [253, 254, 255, 256, 257, 258, 259, 300] if quick else list(range(0, 301))
    ops = ['inf', 'inf', 'inf', 'resp', 'req', 'dreq', 'dresp', 'frame']
    for L in lengths:
        mls = sorted({0, 1, 2, 22, 23, 24, 25, (L - 2) & 255, (L - 1) & 255, L & 255, (L + 1) & 255, 255})
        pdls = sorted({0, 1, (L - 26) & 255, (L - 25) & 255, (L - 24) & 255, 231, 232, 255})
        for ml in mls:
            for pdl in pdls:
                ccs = [rng.choice(CCS + [0x99])] if quick else CCS + [0x99]
                for cc in ccs:
                    for ckd in (0, 1):
                        op = rng.choice(ops)
                        bs = mk_frame(rng, L, ml, pdl, cc, ckd)
                        if op == 'frame':
                            bs = [0xcc] + bs
                        yield '%s %s' % (op, hx(bs))
    n = 2000 if quick else 60000
    # pure noise and wrong sub-start codes
    for i in range(n // 4):
        L = rng.choice([0, 1, 2, 19, 20, 22, 23, 24, 25, 26, 27, 40, rng.randrange(300)])
        bs = mk_frame(rng, L, rng.randrange(256), rng.randrange(256), rng.choice(CCS + [0, 0xff]),
                      rng.choice([None, 0, 0, 1]), ssc=rng.choice([1, 1, 1, 0, 2, 0xcc]))
        yield '%s %s' % (rng.choice(ops), hx(bs))
    # valid frames with non-canonical message length / trailing bytes
    for i in range(n // 4):
        c = rand_cmd(rng)
        fr = frame_of(c)
        k = rng.choice([0, 0, 1, 2, 5])
        fr2 = fr + [rng.randrange(256) for _ in range(k)]
        if rng.random() < 0.3 and len(fr2) > 26:
            # message length pointing at a later/earlier checksum position
            ml = rng.choice([24, 25, len(fr2) - 2, len(fr2) - 1, len(fr2) - 3]) & 255
            fr2[1] = ml
            fix_ck(fr2, ml)
        op = rng.choice(ops)
        yield '%s %s' % (op, hx(([0xcc] if op == 'frame' else []) + fr2))
    # pack / round trip
    for i in range(n // 4):
        c = rand_cmd(rng, n=rng.choice([0, 1, 2, 230, 231, 232, 233, 255, 256, 300, rng.randrange(232)]))
        yield 'pack %s' % cmd_s(c)
    # request/response matching
    for i in range(n // 4):
        rq = rand_cmd(rng, cc=rng.choice([0x10, 0x20, 0x30]))
        rs = rand_cmd(rng, cc=rq['cc'] + 1)
        rs['src'], rs['dst'], rs['tn'], rs['sub'] = rq['dst'], rq['src'], rq['tn'], rq['sub']
        rs['port'] = rng.choice([0, 0, 0, 1, 2, 3, 4, 255])
        for _ in range(rng.choice([0, 0, 1, 1, 2, 3])):
            f = rng.choice(['src', 'dst', 'tn', 'sub', 'cc', 'rqsub', 'rqpid', 'rqcc', 'rqbcast', 'rsbcast'])
            if f == 'src': rs['src'] = rand_uid(rng)
            elif f == 'rqbcast':   # request sent to a broadcast / vendorcast address that covers the responder
                rq['dst'] = rng.choice([(1 << 48) - 1, (rs['src'] & 0xffff00000000) | 0xffffffff])
            elif f == 'rsbcast':   # response addressed to a broadcast / vendorcast address covering the controller
                rs['dst'] = rng.choice([(1 << 48) - 1, (rq['src'] & 0xffff00000000) | 0xffffffff])
            elif f == 'dst': rs['dst'] = rand_uid(rng)
            elif f == 'tn': rs['tn'] = (rs['tn'] + rng.choice([1, 255, 128])) & 255
            elif f == 'sub': rs['sub'] = rng.choice([0, 1, 0xffff, rng.randrange(65536)])
            elif f == 'cc': rs['cc'] = rng.choice(CCS + [0x99])
            elif f == 'rqsub': rq['sub'] = rng.choice([0xffff, 0, 1])
            elif f == 'rqpid': rq['pid'] = 0x20
            elif f == 'rqcc': rq['cc'] = rng.choice([0x10, 0x20, 0x30])
        fr = frame_of(rs, ckdelta=rng.choice([0, 0, 0, 0, 1]))
        if rng.random() < 0.5:
            yield 'match %s %s' % (cmd_s(rq), hx(fr))
        else:
            yield 'framem %s %s' % (cmd_s(rq), hx([0xcc] + fr))

# property-determined observables; outside: dup (Duplicate), set (setters), b_* (what the response / discovery
# builders put into a command, and everything computed from it) -- a divergence there is reported without a
# failing input ("model no longer describes the code").  tz (RDMFrame timing zeroed), isdub are not compared.
SPEC_KEYS = ('lvl size wr2 pbig st cmd repack packed rt inf req dreq dresp resp respbs frame framep framepb reply fd rsz pbuf psmall '
             'wr papp pwsc pwsc2 eqback eq eqsym').split()
INTERNAL_KEYS = ['tz', 'isdub', 'b_isdub']

def nontrivial(payload, md):
    if any(md.get(k, '').startswith('ok/') for k in ('inf', 'req', 'dreq', 'dresp', 'resp', 'frame', 'framep', 'reply',
                                                      'b_inf', 'b_req', 'b_resp', 'b_frame')):
        return True
    if payload.startswith('eq '):
        return True
    return md.get('st') == 'ok' or ('packed' in md and md['packed'] != 'none')

LEVEL_TEXT = ('Coq theorems over an executable model of the RDM codec (all decoders total and free of '
              'out-of-range reads; acceptance conditions; pack/inflate round trip for every well-formed command, stated '
              'separately for each decoder entry point and for frames built by the RDMFrame constructors; responses '
              'built by GetResponseFromData/NackWithReason match their request; exact (iff) acceptance per entry point and '
              'matching for every request/response pair; decoded fields = header bytes at the compiler-generated '
              'offsets/sizes; canonical re-serialisation for every entry point; OverrideOptions (sub-start code, checksum), '
              'CombineResponses, frame/reply bookkeeping; all constants regenerated from the headers and pinned (c05_consts); '
              'canonical frames re-pack to the same bytes; request/response matching statuses), for all byte '
              'strings and all command values; model tied to the C++ by a differential correspondence check '
              '(ASan/UBSan build of /repo working tree) and constants/offsets regenerated from the headers.')
LEVEL_NOTE = ('Trusted: Coq kernel, extraction (ExtrOcamlBasic), OCaml/C++ glue, generator coverage of the '
              'correspondence; model = code is validated by differential testing, not proved.')
TECHNIQUE = 'Coq proof on hand-written executable model + extracted-model/implementation differential correspondence'
DESIGN_REF = 'DESIGN.md §4 C05'
