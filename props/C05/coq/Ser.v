(* C05 — the remaining serialiser entry points of RDMCommandSerializer modelled on their own
   (not as "the same as Pack"): RequiredSize, Pack(command, buffer, size), Write(command, IOStack),
   with the uint16_t checksum accumulation the C++ uses, and proved equal to pack_o.
   Also RDMCommand::SetParamData as the constructors call it (pointer may be NULL). *)
From OlaBase Require Import Bytes.
From C05 Require Import Gen Model Proofs Ext.
From Coq Require Import ZifyBool ZifyN ZifyNat.
Local Open Scope N_scope.

(* RDMCommandSerializer::RequiredSize *)
Definition required_size (c : cmd) : N :=
  if MAX_PARAM_DATA_LENGTH <? len (c_data c) then 0
  else HEADER_SIZE + len (c_data c) + CHECKSUM_LENGTH.

(* uint16_t checksum = START_CODE; for (...) checksum += byte;  -- wraps at every step *)
Definition cksum16 (start : N) (l : list N) : N := fold_left (fun a b => u16 (a + b)) l start.

Definition final_ck (o : opts) (ck : N) : N := match o_ck o with Some k => k | None => ck end.

(* Pack(command, uint8_t *buffer, unsigned int *size): None = false (buffer and *size untouched),
   Some (bytes written, new *size) *)
Definition pack_buffer (o : opts) (c : cmd) (size : N) : option (list N * N) :=
  let packet_length := required_size c in
  if (packet_length =? 0) || (size <? packet_length) then None else
  let buf := header o c ++ c_data c in            (* two memcpy *)
  (* for (i = 0; i < packet_length - CHECKSUM_LENGTH; i++) checksum += buffer[i] *)
  let ck := final_ck o (cksum16 START_CODE (take (packet_length - CHECKSUM_LENGTH) buf)) in
  Some (buf ++ [ck / 256; ck mod 256], packet_length).

(* Write(command, IOStack *stack): an IOStack is written at the front; the list is the stack
   content in the order a reader sees it *)
Definition write_iostack (o : opts) (c : cmd) (stack : list N) : bool * list N :=
  if required_size c =? 0 then (false, stack) else
  let ck := final_ck o (cksum16 (cksum16 START_CODE (header o c)) (c_data c)) in
  let s1 := [ck / 256; ck mod 256] ++ stack in    (* output << checksum (big endian) *)
  let s2 := c_data c ++ s1 in                     (* output.Write(ParamData, ParamDataSize) *)
  (true, header o c ++ s2).                       (* output.Write(&header, sizeof(header)) *)

(* RDMCommand::SetParamData(data, length) as called by every public constructor, AFTER fix 02:
   a NULL pointer supplies no bytes, so the command holds an empty parameter block whatever length
   was claimed; otherwise `length` bytes are copied. *)
Definition set_param_data (data : option (list N)) (length : N) : list N :=
  match data with
  | None => []
  | Some l => take length l
  end.
Definition with_data (c : cmd) (d : list N) : cmd :=
  {| c_dst := c_dst c; c_src := c_src c; c_tn := c_tn c; c_port := c_port c; c_mc := c_mc c;
     c_sub := c_sub c; c_cc := c_cc c; c_pid := c_pid c; c_data := d |}.

(* ------------------------------------------------------------------ proofs *)
Lemma cksum16_sum l s : cksum16 s l = u16 (s + sum_bytes l) \/ l = [] /\ cksum16 s l = s.
Proof.
  revert s. induction l as [|x l IH]; intros s; [right; split; reflexivity|left].
  cbn [cksum16 fold_left sum_bytes]. fold (cksum16 (u16 (s + x)) l).
  destruct (IH (u16 (s + x))) as [E|[E1 E2]].
  - rewrite E. unfold u16. rewrite N.add_mod_idemp_l by lia. f_equal. lia.
  - subst l. cbn [cksum16 fold_left sum_bytes]. f_equal. lia.
Qed.

Lemma cksum16_u16 l s : s < 65536 -> cksum16 s l = u16 (s + sum_bytes l).
Proof.
  intros Hs. destruct (cksum16_sum l s) as [E|[E1 E2]]; [exact E|].
  subst l. rewrite E2. cbn [sum_bytes]. unfold u16. rewrite N.add_0_r. symmetry. apply N.mod_small. lia.
Qed.

Lemma cksum16_app a b s : cksum16 s (a ++ b) = cksum16 (cksum16 s a) b.
Proof. unfold cksum16. apply fold_left_app. Qed.

Lemma required_size_pack o c :
  required_size c = match pack_o o c with Some b => len b | None => 0 end.
Proof.
  unfold required_size, pack_o. cbv zeta.
  destruct (MAX_PARAM_DATA_LENGTH <? len (c_data c)); [reflexivity|].
  rewrite !len_app, header_len. unfold HEADER_SIZE, CHECKSUM_LENGTH.
  match goal with |- _ = _ + _ + len [?a; ?b] => change (len [a; b]) with 2 end. reflexivity.
Qed.

Lemma body_ck o c :
  final_ck o (cksum16 START_CODE (header o c ++ c_data c)) =
  match o_ck o with Some k => k | None => u16 (START_CODE + sum_bytes (header o c ++ c_data c)) end.
Proof.
  unfold final_ck. destruct (o_ck o); [reflexivity|].
  apply cksum16_u16. unfold START_CODE. lia.
Qed.

Lemma pack_buffer_spec o c size :
  pack_buffer o c size =
  match pack_o o c with
  | Some b => if size <? len b then None else Some (b, len b)
  | None => None
  end.
Proof.
  unfold pack_buffer. cbv zeta. rewrite (required_size_pack o c).
  unfold pack_o. cbv zeta.
  destruct (MAX_PARAM_DATA_LENGTH <? len (c_data c)) eqn:E0; [reflexivity|].
  set (body := header o c ++ c_data c).
  assert (Hbl : len body = 23 + len (c_data c)) by (unfold body; rewrite len_app, header_len; lia).
  match goal with |- context [len (body ++ [?a; ?b])] =>
    assert (Hl : len (body ++ [a; b]) = len body + 2) by (rewrite len_app; reflexivity) end.
  rewrite Hl.
  destruct (len body + 2 =? 0) eqn:Z; [lia|]. cbn [orb].
  destruct (size <? len body + 2); [reflexivity|].
  unfold CHECKSUM_LENGTH. replace (len body + 2 - 2) with (len body) by lia.
  replace (take (len body) body) with body.
  2:{ pose proof (take_app_exact body []) as T. rewrite app_nil_r in T. symmetry. exact T. }
  unfold body. rewrite body_ck. reflexivity.
Qed.

Lemma write_iostack_spec o c stack :
  write_iostack o c stack =
  match pack_o o c with
  | Some b => (true, b ++ stack)
  | None => (false, stack)
  end.
Proof.
  unfold write_iostack. cbv zeta. rewrite (required_size_pack o c).
  unfold pack_o. cbv zeta.
  destruct (MAX_PARAM_DATA_LENGTH <? len (c_data c)) eqn:E0; [reflexivity|].
  set (body := header o c ++ c_data c).
  assert (Hbl : len body = 23 + len (c_data c)) by (unfold body; rewrite len_app, header_len; lia).
  match goal with |- context [len (body ++ [?a; ?b])] =>
    assert (Hl : len (body ++ [a; b]) = len body + 2) by (rewrite len_app; reflexivity) end.
  rewrite Hl. destruct (len body + 2 =? 0) eqn:Z; [lia|].
  rewrite <- !cksum16_app. unfold body. rewrite !body_ck.
  f_equal. rewrite <- !app_assoc. reflexivity.
Qed.

Lemma null_data_constructible c n :
  wf_cmd c = true ->
  set_param_data None n = [] /\
  wf_cmd (with_data c (set_param_data None n)) = true /\
  exists bs, pack (with_data c (set_param_data None n)) = Some bs /\ len bs = 25.
Proof.
  intros Hwf. split; [reflexivity|].
  assert (Hw : wf_cmd (with_data c []) = true).
  { apply wf_cmd_spec in Hwf as (? & ? & ? & ? & ? & ? & ? & ? & ? & ?).
    unfold wf_cmd, with_data. cbn [c_dst c_src c_tn c_port c_mc c_sub c_cc c_pid c_data].
    unfold MAX_PARAM_DATA_LENGTH. cbn [bytes_ok forallb len length N.of_nat].
    repeat (apply andb_true_intro; split); try reflexivity; lia. }
  split; [exact Hw|].
  destruct (pack_verify_fields _ Hw) as (bs & Hp & _ & _ & _ & Hlen & _).
  exists bs. split; [exact Hp|]. rewrite Hlen. reflexivity.
Qed.
