(* C05 — message-length OverrideOptions: what VerifyData does with a request serialised with
   SetMessageLength(m), for every m; and the decoded fields of any pack_o output. *)
From OlaBase Require Import Bytes.
From C05 Require Import Gen Model Proofs Ext Proofs2 Proofs3.
From Coq Require Import ZifyBool ZifyN ZifyNat.
Local Open Scope N_scope.

Lemma pack_o_shape o c bs :
  pack_o o c = Some bs ->
  exists ck, bs = (header o c ++ c_data c) ++ [ck / 256; ck mod 256] /\
             len (c_data c) <= MAX_PARAM_DATA_LENGTH.
Proof.
  unfold pack_o. cbv zeta. destruct (MAX_PARAM_DATA_LENGTH <? len (c_data c)) eqn:E; [discriminate|].
  match goal with |- Some (_ ++ [?k / 256; _]) = _ -> _ => set (ck := k) end.
  intros H. exists ck. split; [congruence|lia].
Qed.

(* whatever the overrides, the header fields and parameter data are laid out as for Pack *)
Lemma fields_pack_o o c bs :
  wf_cmd c = true -> pack_o o c = Some bs -> fields bs = Some c.
Proof.
  intros Hwf Hp. destruct (pack_o_shape o c bs Hp) as (ck & E & Hn). subst bs.
  pose proof (wf_cmd_spec c Hwf) as (Hd & Hs & Htn & Hport & Hmc & Hsub & Hcc8 & Hpid & Hdat & _).
  unfold MAX_PARAM_DATA_LENGTH in Hn.
  unfold fields. rewrite <- app_assoc, split_header_pack.
  cbn [packed_hdr h_pdl h_dst h_src h_tn h_port h_mc h_sub h_cc h_pid].
  rewrite u8_id by lia.
  destruct (len (c_data c) <=? len (c_data c ++ [ck / 256; ck mod 256])) eqn:E1.
  2:{ rewrite len_app in E1. lia. }
  rewrite take_app_exact.
  rewrite !be_val_bytes; [destruct c; reflexivity| | | |]; cbn; lia.
Qed.

Lemma pack_o_ml o c m bs :
  wf_cmd c = true -> o_ssc o = SUB_START_CODE -> o_ml o = Some m -> m < 256 ->
  pack_o o c = Some bs ->
  (m < HEADER_SIZE + 1 \/ HEADER_SIZE + 1 + len (c_data c) < m ->
     verify bs = VReject RDM_PACKET_LENGTH_MISMATCH) /\
  (HEADER_SIZE + 1 <= m <= HEADER_SIZE + 1 + len (c_data c) ->
     exists hi lo, rd bs (m - 1) = Some hi /\ rd bs m = Some lo /\
       verify bs = if join16 hi lo =? u16 (START_CODE + sum_bytes (take (m - 1) bs))
                   then VOk else VReject RDM_CHECKSUM_INCORRECT).
Proof.
  intros Hwf Hs Hm Hm8 Hp. destruct (pack_o_shape o c bs Hp) as (ck & E & Hn).
  unfold MAX_PARAM_DATA_LENGTH, HEADER_SIZE in *.
  assert (Hlen : len bs = 25 + len (c_data c)).
  { subst bs. rewrite !len_app, header_len. change (len [ck / 256; ck mod 256]) with 2. lia. }
  assert (Hsplit : split_header bs = Some (packed_hdr o c, c_data c ++ [ck / 256; ck mod 256])).
  { subst bs. rewrite <- app_assoc. apply split_header_pack. }
  assert (Hml : h_ml (packed_hdr o c) = m) by (cbn [packed_hdr h_ml]; rewrite Hm; reflexivity).
  assert (Hssc : h_ssc (packed_hdr o c) = SUB_START_CODE) by (cbn [packed_hdr h_ssc]; exact Hs).
  assert (Hpdl : h_pdl (packed_hdr o c) = len (c_data c)) by (cbn [packed_hdr h_pdl]; apply u8_id; lia).
  split.
  - intros Hr. unfold verify. unfold HEADER_SIZE.
    destruct (len bs <? 23) eqn:E0; [lia|]. rewrite Hsplit, Hssc, N.eqb_refl, Hml. cbn [negb].
    destruct (len bs <? m + 1) eqn:E2; [reflexivity|].
    destruct (m <? 23 + 1) eqn:E3; [reflexivity|]. lia.
  - intros Hr.
    destruct (rd_lt_some bs (m - 1)) as [hi Hhi]; [lia|].
    destruct (rd_lt_some bs m) as [lo Hlo]; [lia|].
    exists hi, lo. split; [exact Hhi|]. split; [exact Hlo|].
    unfold verify. unfold HEADER_SIZE.
    destruct (len bs <? 23) eqn:E0; [lia|]. rewrite Hsplit, Hssc, N.eqb_refl, Hml, Hpdl. cbn [negb].
    destruct (len bs <? m + 1) eqn:E2; [lia|].
    destruct (m <? 23 + 1) eqn:E3; [lia|].
    rewrite usub32_small by lia. unfold checksum_rd.
    destruct (m - 1 <=? len bs) eqn:E4; [|lia].
    rewrite Hhi, Hlo.
    destruct (join16 hi lo =? u16 (START_CODE + sum_bytes (take (m - 1) bs))); cbn [negb]; [|reflexivity].
    rewrite (usub32_small (len bs) 23) by lia. rewrite usub32_small by lia.
    destruct (len bs - 23 - 2 <? len (c_data c)) eqn:E6; [lia|reflexivity].
Qed.

(* the same, at the level of the decoders *)
Lemma pack_o_ml_decoders o c m bs rq :
  wf_cmd c = true -> o_ssc o = SUB_START_CODE -> o_ml o = Some m -> m < 256 ->
  pack_o o c = Some bs ->
  fields bs = Some c /\
  (m < HEADER_SIZE + 1 \/ HEADER_SIZE + 1 + len (c_data c) < m ->
     inflate_request bs = Reject RDM_PACKET_LENGTH_MISMATCH /\
     inflate_disc_request bs = Reject RDM_PACKET_LENGTH_MISMATCH /\
     inflate_disc_response bs = Reject RDM_PACKET_LENGTH_MISMATCH /\
     inflate_response rq bs = Reject RDM_PACKET_LENGTH_MISMATCH) /\
  (HEADER_SIZE + 1 <= m <= HEADER_SIZE + 1 + len (c_data c) ->
     exists hi lo, rd bs (m - 1) = Some hi /\ rd bs m = Some lo /\
       if join16 hi lo =? u16 (START_CODE + sum_bytes (take (m - 1) bs))
       then inflate_request bs = (if is_request_cc (c_cc c) then Ok c else Reject NOSTATUS) /\
            inflate_disc_request bs = (if c_cc c =? DISCOVER_COMMAND then Ok c else Reject NOSTATUS)
       else inflate_request bs = Reject RDM_CHECKSUM_INCORRECT /\
            inflate_disc_request bs = Reject RDM_CHECKSUM_INCORRECT).
Proof.
  intros Hwf Hs Hm Hm8 Hp.
  pose proof (fields_pack_o o c bs Hwf Hp) as Hf.
  destruct (pack_o_ml o c m bs Hwf Hs Hm Hm8 Hp) as [A B].
  split; [exact Hf|]. split.
  - intros Hr. exact (verify_reject_all bs _ rq (A Hr)).
  - intros Hr. destruct (B Hr) as (hi & lo & Hhi & Hlo & Hv). exists hi, lo.
    split; [exact Hhi|]. split; [exact Hlo|].
    destruct (join16 hi lo =? u16 (START_CODE + sum_bytes (take (m - 1) bs))).
    + split; [exact (dec_request bs c Hv Hf)|exact (dec_disc_request bs c Hv Hf)].
    + destruct (verify_reject_all bs _ rq Hv) as (X & Y & _). split; assumption.
Qed.
