(* C05 proof-extension round: exact (iff) acceptance conditions per entry point, field layout of the
   decoded command in terms of the regenerated offsets/sizes, canonical re-serialisation for every
   entry point, OverrideOptions, CombineResponses, RDMFrame/RDMReply bookkeeping. *)
From OlaBase Require Import Bytes.
From C05 Require Import Gen Model Proofs Ext Proofs2.
From Coq Require Import ZifyBool ZifyN ZifyNat.
Local Open Scope N_scope.

(* ------------------------------------------------------------------ the acceptance condition *)
(* written from the property text: sub-start code, message length and parameter length inside the
   bytes present, additive checksum at the position the message length names *)
Definition accept_cond (bs : list N) : Prop :=
  exists ml pdl hi lo,
    rd bs OFF_sub_start_code = Some SUB_START_CODE /\ rd bs OFF_message_length = Some ml /\
    rd bs OFF_param_data_length = Some pdl /\
    HEADER_SIZE + 1 <= ml /\ ml + 1 <= len bs /\ HEADER_SIZE + pdl + CHECKSUM_LENGTH <= len bs /\
    rd bs (ml - 1) = Some hi /\ rd bs ml = Some lo /\
    hi * 256 + lo = (START_CODE + sum_bytes (take (ml - 1) bs)) mod 65536.

Lemma split_header_ge bs : 23 <= len bs -> exists h rest, split_header bs = Some (h, rest).
Proof.
  intros H. destruct (split_header bs) as [[h rest]|] eqn:E; [eauto|].
  apply split_header_none in E. lia.
Qed.

Lemma verify_iff bs :
  bytes_ok bs = true -> len bs < 4294967296 -> (verify bs = VOk <-> accept_cond bs).
Proof.
  intros Hb Hl. split.
  - intros Hv. destruct (verify_ok bs Hb Hl Hv) as (h & rest & hi & lo & Es & Hssc & Hml & Hmll & Hhi & Hlo & Hck & Hpdl).
    destruct (split_header_rd _ _ _ Es) as (R0 & R1 & R22 & _).
    exists (h_ml h), (h_pdl h), hi, lo.
    unfold OFF_sub_start_code, OFF_message_length, OFF_param_data_length, HEADER_SIZE, CHECKSUM_LENGTH, START_CODE.
    rewrite <- Hssc. unfold join16, u16, START_CODE in Hck.
    repeat split; try assumption; lia.
  - intros (ml & pdl & hi & lo & R0 & R1 & R22 & Hml & Hmll & Hpdl & Hhi & Hlo & Hck).
    unfold OFF_sub_start_code, OFF_message_length, OFF_param_data_length, HEADER_SIZE, CHECKSUM_LENGTH in *.
    destruct (split_header_ge bs) as (h & rest & Es); [lia|].
    destruct (split_header_rd _ _ _ Es) as (R0' & R1' & R22' & _).
    rewrite R0 in R0'. rewrite R1 in R1'. rewrite R22 in R22'.
    inversion R0'; inversion R1'; inversion R22'; subst.
    pose proof (bytes_ok_rd _ _ _ Hb R1) as Hml8.
    eapply verify_intro with (hi := hi) (lo := lo); try eassumption; try lia;
      try (symmetry; assumption); unfold join16, u16, START_CODE in *; lia.
Qed.

(* ------------------------------------------------------------------ field layout *)
Lemma fields_layout bs c :
  fields bs = Some c ->
  c_dst c = be_val (take SIZE_destination_uid (drop OFF_destination_uid bs)) /\
  c_src c = be_val (take SIZE_source_uid (drop OFF_source_uid bs)) /\
  rd bs OFF_transaction_number = Some (c_tn c) /\
  rd bs OFF_port_id = Some (c_port c) /\
  rd bs OFF_message_count = Some (c_mc c) /\
  c_sub c = be_val (take SIZE_sub_device (drop OFF_sub_device bs)) /\
  rd bs OFF_command_class = Some (c_cc c) /\
  c_pid c = be_val (take SIZE_param_id (drop OFF_param_id bs)) /\
  exists pdl, rd bs OFF_param_data_length = Some pdl /\ c_data c = take pdl (drop HEADER_SIZE bs).
Proof.
  unfold fields, split_header.
  do 23 (destruct bs as [|? bs]; [discriminate|]).
  cbn [h_pdl h_dst h_src h_tn h_port h_mc h_sub h_cc h_pid].
  destruct (n21 <=? len bs); [|discriminate].
  intros H; inversion H; subst c; clear H.
  cbn [c_dst c_src c_tn c_port c_mc c_sub c_cc c_pid c_data].
  repeat split. exists n21. split; reflexivity.
Qed.

(* ------------------------------------------------------------------ exact acceptance per entry point *)
Section Exact.
  Variable bs : list N.
  Hypothesis Hb : bytes_ok bs = true.
  Hypothesis Hl : len bs < 4294967296.

  Lemma request_iff c :
    inflate_request bs = Ok c <->
    accept_cond bs /\ fields bs = Some c /\ is_request_cc (c_cc c) = true.
  Proof.
    rewrite <- (verify_iff bs Hb Hl). split.
    - intros H. destruct (inflate_request_ok _ _ H) as [Hv Hf].
      rewrite (dec_request bs c Hv Hf) in H. destruct (is_request_cc (c_cc c)); [auto|discriminate].
    - intros (Hv & Hf & Hc). rewrite (dec_request bs c Hv Hf), Hc. reflexivity.
  Qed.

  Lemma disc_request_iff c :
    inflate_disc_request bs = Ok c <->
    accept_cond bs /\ fields bs = Some c /\ c_cc c = DISCOVER_COMMAND.
  Proof.
    rewrite <- (verify_iff bs Hb Hl). split.
    - intros H. destruct (inflate_disc_request_ok _ _ H) as [Hv Hf].
      rewrite (dec_disc_request bs c Hv Hf) in H.
      destruct (c_cc c =? DISCOVER_COMMAND) eqn:E; [|discriminate]. repeat split; try assumption. lia.
    - intros (Hv & Hf & Hc). rewrite (dec_disc_request bs c Hv Hf), Hc. reflexivity.
  Qed.

  Lemma disc_response_iff c :
    inflate_disc_response bs = Ok c <->
    accept_cond bs /\ fields bs = Some c /\ c_cc c = DISCOVER_COMMAND_RESPONSE.
  Proof.
    rewrite <- (verify_iff bs Hb Hl). split.
    - intros H. destruct (inflate_disc_response_ok _ _ H) as [Hv Hf].
      rewrite (dec_disc_response bs c Hv Hf) in H.
      destruct (c_cc c =? DISCOVER_COMMAND_RESPONSE) eqn:E; [|discriminate]. repeat split; try assumption. lia.
    - intros (Hv & Hf & Hc). rewrite (dec_disc_response bs c Hv Hf), Hc. reflexivity.
  Qed.

  Lemma response_iff c :
    inflate_response None bs = Ok c <->
    accept_cond bs /\ fields bs = Some c /\ c_port c <= ACK_OVERFLOW /\ is_response_cc (c_cc c) = true.
  Proof.
    rewrite <- (verify_iff bs Hb Hl). split.
    - intros H. destruct (inflate_response_ok _ _ _ H) as [Hv Hf].
      rewrite (dec_response bs c Hv Hf) in H.
      destruct (ACK_OVERFLOW <? c_port c) eqn:P; [discriminate|].
      destruct (is_response_cc (c_cc c)); [|discriminate]. repeat split; try assumption. lia.
    - intros (Hv & Hf & Hp & Hc). rewrite (dec_response bs c Hv Hf), Hc.
      destruct (ACK_OVERFLOW <? c_port c) eqn:P; [lia|reflexivity].
  Qed.

  (* for every request/response pair: matched exactly when the response is acceptable on its own
     and corresponds to the request *)
  Lemma match_iff rq c :
    inflate_response (Some rq) bs = Ok c <->
    inflate_response None bs = Ok c /\ corresponds rq c.
  Proof.
    split.
    - intros H. destruct (inflate_response_ok _ _ _ H) as [Hv Hf].
      destruct (match_ok _ _ _ H) as (Hc & Hp & Hcc).
      split; [|exact Hc].
      rewrite (dec_response bs c Hv Hf).
      destruct (ACK_OVERFLOW <? c_port c) eqn:P; [lia|].
      unfold is_response_cc.
      unfold DISCOVER_COMMAND_RESPONSE, GET_COMMAND_RESPONSE, SET_COMMAND_RESPONSE in *.
      destruct Hcc as [E|[E|E]]; rewrite E; reflexivity.
    - intros [H Hc]. destruct (inflate_response_ok _ _ _ H) as [Hv Hf].
      destruct (proj1 (response_iff c) H) as (_ & _ & Hp & Hcc).
      pose proof (match_status rq bs c Hv Hf) as M. cbv zeta in M.
      destruct M as (_ & _ & _ & _ & _ & _ & _ & M).
      apply M; try assumption.
      apply is_response_cc_cases in Hcc. tauto.
  Qed.

  Lemma inflate_iff c :
    inflate bs = Ok c <->
    accept_cond bs /\ fields bs = Some c /\
    (is_request_cc (c_cc c) = true \/ c_cc c = DISCOVER_COMMAND_RESPONSE \/
     ((c_cc c = GET_COMMAND_RESPONSE \/ c_cc c = SET_COMMAND_RESPONSE) /\ c_port c <= ACK_OVERFLOW)).
  Proof.
    rewrite <- (verify_iff bs Hb Hl). split.
    - intros H. destruct (inflate_ok _ _ H) as [Hv Hf].
      split; [exact Hv|]. split; [exact Hf|].
      destruct (verify_ok bs Hb Hl Hv) as (h & rest & _ & _ & Es & _ & _ & Hlen & _).
      destruct (fields_layout bs c Hf) as (_ & _ & _ & _ & _ & _ & R19 & _).
      unfold OFF_command_class in R19.
      assert (H20 : 20 <= len bs) by (apply rd_some_lt in R19; lia).
      rewrite (inflate_dispatch bs (c_cc c) H20 R19) in H.
      rewrite (dec_request bs c Hv Hf), (dec_response bs c Hv Hf), (dec_disc_request bs c Hv Hf),
        (dec_disc_response bs c Hv Hf) in H.
      unfold is_request_cc, is_response_cc in *.
      unfold DISCOVER_COMMAND, DISCOVER_COMMAND_RESPONSE, GET_COMMAND, GET_COMMAND_RESPONSE,
        SET_COMMAND, SET_COMMAND_RESPONSE, ACK_OVERFLOW in *.
      destruct (c_cc c =? 32) eqn:C1; destruct (c_cc c =? 48) eqn:C2; destruct (c_cc c =? 33) eqn:C3;
        destruct (c_cc c =? 49) eqn:C4; destruct (c_cc c =? 16) eqn:C5; destruct (c_cc c =? 17) eqn:C6;
        try (exfalso; lia); cbn [orb] in *; try discriminate;
        try (left; reflexivity); try (right; left; lia);
        destruct (3 <? c_port c) eqn:P; try discriminate; right; right; lia.
    - intros (Hv & Hf & Hc).
      destruct (fields_layout bs c Hf) as (_ & _ & _ & _ & _ & _ & R19 & _).
      unfold OFF_command_class in R19.
      assert (H20 : 20 <= len bs) by (apply rd_some_lt in R19; lia).
      rewrite (inflate_dispatch bs (c_cc c) H20 R19).
      rewrite (dec_request bs c Hv Hf), (dec_response bs c Hv Hf), (dec_disc_request bs c Hv Hf),
        (dec_disc_response bs c Hv Hf).
      unfold is_request_cc, is_response_cc in *.
      unfold DISCOVER_COMMAND, DISCOVER_COMMAND_RESPONSE, GET_COMMAND, GET_COMMAND_RESPONSE,
        SET_COMMAND, SET_COMMAND_RESPONSE, ACK_OVERFLOW in *.
      destruct (c_cc c =? 32) eqn:C1; destruct (c_cc c =? 48) eqn:C2; destruct (c_cc c =? 33) eqn:C3;
        destruct (c_cc c =? 49) eqn:C4; destruct (c_cc c =? 16) eqn:C5; destruct (c_cc c =? 17) eqn:C6;
        try (exfalso; lia); cbn [orb] in *; try reflexivity;
        destruct (3 <? c_port c) eqn:P; try reflexivity; exfalso; lia.
  Qed.

  (* ---------------------------------------------------------------- canonical, every entry point *)
  Lemma canonical_any rq c :
    inflate bs = Ok c \/ inflate_request bs = Ok c \/ inflate_disc_request bs = Ok c \/
    inflate_disc_response bs = Ok c \/ inflate_response rq bs = Ok c ->
    (forall ml pdl, rd bs 1 = Some ml -> rd bs 22 = Some pdl -> ml = 24 + pdl /\ len bs = ml + 1) ->
    pack c = Some bs.
  Proof.
    intros H Hc.
    assert (verify bs = VOk /\ fields bs = Some c) as [Hv Hf].
    { destruct H as [H|[H|[H|[H|H]]]].
      - exact (inflate_ok _ _ H).
      - exact (inflate_request_ok _ _ H).
      - exact (inflate_disc_request_ok _ _ H).
      - exact (inflate_disc_response_ok _ _ H).
      - exact (inflate_response_ok _ _ _ H). }
    exact (canonical bs c Hb Hl Hv Hf Hc).
  Qed.
End Exact.

Lemma canonical_frame fr rq c :
  bytes_ok fr = true -> len fr < 4294967296 ->
  from_frame rq fr = Ok c ->
  (forall ml pdl, rd fr 2 = Some ml -> rd fr 23 = Some pdl -> ml = 24 + pdl /\ len fr = ml + 2) ->
  exists s bs, fr = s :: bs /\ pack c = Some bs.
Proof.
  intros Hb Hl H Hc. destruct (from_frame_ok _ _ _ H) as (s & body & E & Hi). subst fr.
  exists s, body. split; [reflexivity|].
  cbn [bytes_ok forallb] in Hb. apply andb_prop in Hb as [_ Hb].
  rewrite len_cons in Hl, Hc.
  apply (canonical_any body Hb ltac:(lia) rq c); [tauto|].
  intros ml pdl R1 R22.
  destruct (Hc ml pdl) as [A B].
  - unfold rd in *. replace (N.to_nat 2) with (S (N.to_nat 1)) by lia. exact R1.
  - unfold rd in *. replace (N.to_nat 23) with (S (N.to_nat 22)) by lia. exact R22.
  - split; [exact A|lia].
Qed.

(* ------------------------------------------------------------------ OverrideOptions *)
Lemma pack_o_len o c bs : pack_o o c = Some bs -> len bs = 25 + len (c_data c) /\
  exists tail, bs = header o c ++ tail.
Proof.
  unfold pack_o. cbv zeta. destruct (MAX_PARAM_DATA_LENGTH <? len (c_data c)); [discriminate|].
  match goal with |- Some (_ ++ [?k / 256; _]) = _ -> _ => set (ck := k) end.
  intros H. assert (E : bs = (header o c ++ c_data c) ++ [ck / 256; ck mod 256]) by congruence.
  clear H. subst bs. split.
  - rewrite !len_app, header_len. change (len [ck / 256; ck mod 256]) with 2. lia.
  - rewrite <- app_assoc. eauto.
Qed.

(* a request serialised with a sub-start code override other than SUB_START_CODE is refused by
   VerifyData with RDM_WRONG_SUB_START_CODE, whatever the other options *)
Lemma pack_o_ssc o c bs :
  o_ssc o <> SUB_START_CODE -> pack_o o c = Some bs ->
  verify bs = VReject RDM_WRONG_SUB_START_CODE.
Proof.
  intros Hs Hp. destruct (pack_o_len o c bs Hp) as [Hlen (tail & E)].
  unfold verify. unfold HEADER_SIZE. destruct (len bs <? 23) eqn:E0; [lia|].
  subst bs. rewrite split_header_pack. cbn [packed_hdr h_ssc].
  destruct (o_ssc o =? SUB_START_CODE) eqn:E1; [lia|reflexivity].
Qed.

Lemma verify_reject_all bs st rq :
  verify bs = VReject st ->
  inflate_request bs = Reject st /\ inflate_disc_request bs = Reject st /\
  inflate_disc_response bs = Reject st /\ inflate_response rq bs = Reject st.
Proof.
  intros H. unfold inflate_request, inflate_disc_request, inflate_disc_response, inflate_response.
  rewrite H. repeat split.
Qed.

(* overrides that restate the default values change nothing *)
Lemma pack_o_default_equiv o c :
  o_ssc o = SUB_START_CODE ->
  (o_ml o = None \/ o_ml o = Some (u8 (HEADER_SIZE + len (c_data c) + 1))) ->
  (o_ck o = None \/
   o_ck o = Some (u16 (START_CODE + sum_bytes (header default_opts c ++ c_data c)))) ->
  pack_o o c = pack c.
Proof.
  intros Hs Hm Hk. unfold pack, pack_o.
  assert (Hh : header o c = header default_opts c).
  { unfold header. rewrite Hs. cbn [default_opts o_ssc o_ml].
    destruct Hm as [Hm|Hm]; rewrite Hm; reflexivity. }
  rewrite Hh. cbn [default_opts o_ck].
  destruct Hk as [Hk|Hk]; rewrite Hk; reflexivity.
Qed.

(* a checksum override that differs from the additive checksum makes every decoder report
   RDM_CHECKSUM_INCORRECT (default sub-start code and message length) *)
Lemma pack_o_bad_checksum o c k bs :
  wf_cmd c = true -> o_ssc o = SUB_START_CODE -> o_ml o = None -> o_ck o = Some k -> k < 65536 ->
  k <> u16 (START_CODE + sum_bytes (header default_opts c ++ c_data c)) ->
  pack_o o c = Some bs -> verify bs = VReject RDM_CHECKSUM_INCORRECT.
Proof.
  intros Hwf Hs Hm Hk Hk16 Hne Hp.
  pose proof (wf_cmd_spec c Hwf) as (_ & _ & _ & _ & _ & _ & _ & _ & _ & Hn).
  assert (Hh : header o c = header default_opts c).
  { unfold header. rewrite Hs, Hm. reflexivity. }
  unfold pack_o in Hp. unfold MAX_PARAM_DATA_LENGTH in Hp.
  destruct (231 <? len (c_data c)) eqn:E0; [lia|].
  rewrite Hk, Hh in Hp. cbv zeta in Hp.
  assert (E : bs = (header default_opts c ++ c_data c) ++ [k / 256; k mod 256]) by congruence.
  clear Hp. subst bs.
  set (body := header default_opts c ++ c_data c) in *.
  assert (Hbl : len body = 23 + len (c_data c)) by (unfold body; rewrite len_app, header_len; lia).
  assert (Hsplit : split_header (body ++ [k / 256; k mod 256]) =
                   Some (packed_hdr default_opts c, c_data c ++ [k / 256; k mod 256])).
  { unfold body. rewrite <- app_assoc. apply split_header_pack. }
  assert (Hml : h_ml (packed_hdr default_opts c) = 24 + len (c_data c)).
  { cbn [packed_hdr h_ml default_opts o_ml]. unfold u8, HEADER_SIZE. lia. }
  assert (Hlen : len (body ++ [k / 256; k mod 256]) = 25 + len (c_data c)).
  { rewrite len_app, Hbl. change (len [k / 256; k mod 256]) with 2. lia. }
  unfold verify. unfold HEADER_SIZE.
  destruct (len (body ++ [k / 256; k mod 256]) <? 23) eqn:E1; [lia|].
  rewrite Hsplit. cbn [packed_hdr h_ssc default_opts o_ssc]. rewrite N.eqb_refl. cbn [negb].
  fold (packed_hdr default_opts c). rewrite Hml, Hlen.
  destruct (25 + len (c_data c) <? 24 + len (c_data c) + 1) eqn:E2; [lia|].
  destruct (24 + len (c_data c) <? 23 + 1) eqn:E3; [lia|].
  rewrite usub32_small by lia. unfold checksum_rd. rewrite Hlen.
  destruct (24 + len (c_data c) - 1 <=? 25 + len (c_data c)) eqn:E4; [|lia].
  replace (24 + len (c_data c) - 1) with (len body) by lia.
  rewrite rd_app_r by lia. rewrite N.sub_diag.
  rewrite rd_app_r by lia. replace (24 + len (c_data c) - len body) with 1 by lia.
  change (rd [k / 256; k mod 256] 0) with (Some (k / 256)).
  change (rd [k / 256; k mod 256] 1) with (Some (k mod 256)).
  rewrite take_app_exact.
  destruct (negb (join16 (k / 256) (k mod 256) =? u16 (START_CODE + sum_bytes body))) eqn:E5; [reflexivity|].
  exfalso. apply Hne. unfold join16 in E5. lia.
Qed.

(* ------------------------------------------------------------------ CombineResponses *)
Lemma combine_spec r1 r2 r :
  combine_responses r1 r2 = Some r ->
  c_src r1 = c_src r2 /\
  ((c_cc r1 = GET_COMMAND_RESPONSE /\ c_cc r2 = GET_COMMAND_RESPONSE) \/
   (c_cc r1 = SET_COMMAND_RESPONSE /\ c_cc r2 = SET_COMMAND_RESPONSE)) /\
  c_data r = c_data r1 ++ c_data r2 /\ c_cc r = c_cc r1 /\ c_port r = RDM_ACK /\ c_mc r = c_mc r2 /\
  c_src r = c_src r1 /\ c_dst r = c_dst r1 /\ c_tn r = c_tn r1 /\ c_sub r = c_sub r1 /\ c_pid r = c_pid r1.
Proof.
  intros H. unfold combine_responses in H.
  destruct (MAX_OVERFLOW_SIZE <? _); [discriminate|].
  destruct (c_src r1 =? c_src r2) eqn:Es; cbn [negb] in H; [|discriminate].
  destruct ((c_cc r1 =? GET_COMMAND_RESPONSE) && (c_cc r2 =? GET_COMMAND_RESPONSE)) eqn:E1.
  { inversion H; subst r; cbn [combined c_data c_cc c_port c_mc c_src c_dst c_tn c_sub c_pid].
    repeat split; try reflexivity; lia. }
  destruct ((c_cc r1 =? SET_COMMAND_RESPONSE) && (c_cc r2 =? SET_COMMAND_RESPONSE)) eqn:E2; [|discriminate].
  inversion H; subst r; cbn [combined c_data c_cc c_port c_mc c_src c_dst c_tn c_sub c_pid].
  repeat split; try reflexivity; lia.
Qed.

(* two constructible GET (or SET) responses from the same responder whose data together fits a
   frame combine into a constructible response, which therefore round-trips *)
Lemma combine_wf r1 r2 r :
  wf_cmd r1 = true -> wf_cmd r2 = true ->
  len (c_data r1) + len (c_data r2) <= MAX_PARAM_DATA_LENGTH ->
  combine_responses r1 r2 = Some r -> wf_cmd r = true.
Proof.
  intros H1 H2 Hl H.
  destruct (combine_spec _ _ _ H) as (_ & _ & Hd & Hcc & Hp & Hmc & Hs & Hdst & Htn & Hsub & Hpid).
  apply wf_cmd_spec in H1 as (? & ? & ? & ? & ? & ? & ? & ? & Hb1 & ?).
  apply wf_cmd_spec in H2 as (? & ? & ? & ? & ? & ? & ? & ? & Hb2 & ?).
  unfold wf_cmd. rewrite Hd, Hcc, Hp, Hmc, Hs, Hdst, Htn, Hsub, Hpid.
  rewrite bytes_ok_app, Hb1, Hb2, len_app. unfold RDM_ACK, MAX_PARAM_DATA_LENGTH in *.
  repeat (apply andb_true_intro; split); try reflexivity; lia.
Qed.

(* ------------------------------------------------------------------ frames and replies *)
Lemma list_eqb_refl l : list_eqb l l = true.
Proof.
  unfold list_eqb. rewrite N.eqb_refl. cbn [andb].
  induction l as [|x l IH]; [reflexivity|]. cbn [combine forallb fst snd]. rewrite N.eqb_refl. exact IH.
Qed.
Lemma frame_eq_refl f : frame_eq f f = true.
Proof.
  unfold frame_eq. destruct (f_timing f) as [[[a b] c] d].
  rewrite list_eqb_refl, !N.eqb_refl. reflexivity.
Qed.
Lemma reply_keeps_frame rq fr :
  snd (reply_from_frame rq fr) = [fr] /\ fst (reply_from_frame rq fr) = from_frame rq (f_data fr) /\
  snd (dub_reply fr) = [fr] /\ fst (dub_reply fr) = RDM_DUB_RESPONSE.
Proof. repeat split. Qed.
Lemma new_frame_spec prepend raw :
  f_data (new_frame prepend raw) = mk_frame prepend raw /\ f_timing (new_frame prepend raw) = (0, 0, 0, 0).
Proof. split; reflexivity. Qed.

(* ------------------------------------------------------------------ constants *)
Definition pairwise_distinct (l : list N) : bool :=
  (fix go (l : list N) : bool :=
     match l with [] => true | x :: r => negb (existsb (N.eqb x) r) && go r end) l.

(* whichever entry point accepted the bytes, the command is `fields bs` and VerifyData passed *)
Lemma any_ok bs rq c :
  inflate bs = Ok c \/ inflate_request bs = Ok c \/ inflate_disc_request bs = Ok c \/
  inflate_disc_response bs = Ok c \/ inflate_response rq bs = Ok c ->
  verify bs = VOk /\ fields bs = Some c.
Proof.
  intros [H|[H|[H|[H|H]]]].
  - exact (inflate_ok _ _ H).
  - exact (inflate_request_ok _ _ H).
  - exact (inflate_disc_request_ok _ _ H).
  - exact (inflate_disc_response_ok _ _ H).
  - exact (inflate_response_ok _ _ _ H).
Qed.

Lemma decode_layout bs rq c :
  inflate bs = Ok c \/ inflate_request bs = Ok c \/ inflate_disc_request bs = Ok c \/
  inflate_disc_response bs = Ok c \/ inflate_response rq bs = Ok c ->
  c_dst c = be_val (take SIZE_destination_uid (drop OFF_destination_uid bs)) /\
  c_src c = be_val (take SIZE_source_uid (drop OFF_source_uid bs)) /\
  rd bs OFF_transaction_number = Some (c_tn c) /\
  rd bs OFF_port_id = Some (c_port c) /\
  rd bs OFF_message_count = Some (c_mc c) /\
  c_sub c = be_val (take SIZE_sub_device (drop OFF_sub_device bs)) /\
  rd bs OFF_command_class = Some (c_cc c) /\
  c_pid c = be_val (take SIZE_param_id (drop OFF_param_id bs)) /\
  exists pdl, rd bs OFF_param_data_length = Some pdl /\ c_data c = take pdl (drop HEADER_SIZE bs).
Proof. intros H. destruct (any_ok bs rq c H) as [_ Hf]. exact (fields_layout bs c Hf). Qed.

Lemma accept_cond_fields bs :
  bytes_ok bs = true -> len bs < 4294967296 -> accept_cond bs -> exists c, fields bs = Some c.
Proof.
  intros Hb Hl H. apply (fields_after_verify bs Hb Hl). apply (verify_iff bs Hb Hl). exact H.
Qed.

Lemma combine_roundtrip r1 r2 r :
  wf_cmd r1 = true -> wf_cmd r2 = true ->
  len (c_data r1) + len (c_data r2) <= MAX_PARAM_DATA_LENGTH ->
  combine_responses r1 r2 = Some r ->
  exists bs, pack r = Some bs /\ inflate_response None bs = Ok r /\ inflate bs = Ok r.
Proof.
  intros H1 H2 Hl H. pose proof (combine_wf _ _ _ H1 H2 Hl H) as Hwf.
  destruct (combine_spec _ _ _ H) as (_ & Hcls & _ & Hcc & Hp & _).
  destruct (roundtrip_all_entry_points r Hwf) as (bs & Hpk & _ & _ & _ & _ & _ & HR).
  exists bs. split; [exact Hpk|].
  assert (Hc : c_cc r = GET_COMMAND_RESPONSE \/ c_cc r = SET_COMMAND_RESPONSE \/ c_cc r = DISCOVER_COMMAND_RESPONSE).
  { rewrite Hcc. destruct Hcls as [[E _]|[E _]]; rewrite E; tauto. }
  assert (Hport : c_port r <= ACK_OVERFLOW) by (rewrite Hp; unfold RDM_ACK, ACK_OVERFLOW; lia).
  destruct (HR Hc Hport) as (A & _ & _ & B). auto.
Qed.

Lemma combine_too_long r1 r2 :
  MAX_OVERFLOW_SIZE < len (c_data r1) + len (c_data r2) -> len (c_data r1) + len (c_data r2) < 4294967296 ->
  combine_responses r1 r2 = None.
Proof.
  intros H Hl. unfold combine_responses. rewrite u32_id by exact Hl.
  destruct (MAX_OVERFLOW_SIZE <? _) eqn:E; [reflexivity|lia].
Qed.
