From OlaBase Require Import Bytes.
From C05 Require Import Gen Model.
From Coq Require Import ZifyBool ZifyN ZifyNat.
Local Open Scope N_scope.
Ltac Zify.zify_post_hook ::= Z.div_mod_to_equations.

(* ------------------------------------------------------------------ header split *)
Lemma split_header_none bs : split_header bs = None -> len bs < 23.
Proof.
  unfold split_header.
  do 23 (destruct bs as [|? bs]; [intros _; rewrite ?len_cons, len_nil; lia|]).
  discriminate.
Qed.

Lemma split_header_some bs h rest :
  split_header bs = Some (h, rest) ->
  bs = [h_ssc h; h_ml h] ++ h_dst h ++ h_src h ++ [h_tn h; h_port h; h_mc h] ++ h_sub h ++
       [h_cc h] ++ h_pid h ++ [h_pdl h] ++ rest /\
  length (h_dst h) = 6%nat /\ length (h_src h) = 6%nat /\ length (h_sub h) = 2%nat /\
  length (h_pid h) = 2%nat /\ len bs = 23 + len rest.
Proof.
  unfold split_header.
  do 23 (destruct bs as [|? bs]; [discriminate|]).
  intros H; inversion H; subst; clear H. cbn [h_ssc h_ml h_dst h_src h_tn h_port h_mc h_sub h_cc h_pid h_pdl app length].
  repeat split; try reflexivity. rewrite !len_cons. lia.
Qed.

Lemma split_header_rd bs h rest :
  split_header bs = Some (h, rest) ->
  rd bs 0 = Some (h_ssc h) /\ rd bs 1 = Some (h_ml h) /\ rd bs 22 = Some (h_pdl h) /\
  rd bs 19 = Some (h_cc h).
Proof.
  unfold split_header.
  do 23 (destruct bs as [|? bs]; [discriminate|]).
  intros H; inversion H; subst; clear H. repeat split.
Qed.

(* ------------------------------------------------------------------ verify *)
Definition verify_ok_spec (bs : list N) : Prop :=
  exists h rest hi lo,
    split_header bs = Some (h, rest) /\
    h_ssc h = SUB_START_CODE /\
    24 <= h_ml h /\ h_ml h + 1 <= len bs /\
    rd bs (h_ml h - 1) = Some hi /\ rd bs (h_ml h) = Some lo /\
    join16 hi lo = u16 (START_CODE + sum_bytes (take (h_ml h - 1) bs)) /\
    h_pdl h + 25 <= len bs.

Lemma usub32_small a b : b <= a -> a < 4294967296 -> usub32 a b = a - b.
Proof. unfold usub32, u32; intros. lia. Qed.

Lemma verify_cases bs :
  bytes_ok bs = true -> len bs < 4294967296 ->
  match verify bs with
  | VOob => False
  | VReject _ => True
  | VOk => verify_ok_spec bs
  end.
Proof.
  intros Hb Hl. unfold verify.
  destruct (len bs <? HEADER_SIZE) eqn:E0; [exact I|].
  unfold HEADER_SIZE in *.
  destruct (split_header bs) as [[h rest]|] eqn:Es.
  2:{ apply split_header_none in Es. lia. }
  destruct (split_header_rd _ _ _ Es) as (R0 & R1 & R22 & _).
  pose proof (bytes_ok_rd _ _ _ Hb R1) as Hml.
  destruct (negb (h_ssc h =? SUB_START_CODE)) eqn:E1; [exact I|].
  destruct (len bs <? h_ml h + 1) eqn:E2; [exact I|].
  destruct (h_ml h <? 23 + 1) eqn:E3; [exact I|].
  assert (usub32 (h_ml h) 1 = h_ml h - 1) as Hu by (apply usub32_small; lia).
  rewrite Hu.
  unfold checksum_rd.
  destruct (h_ml h - 1 <=? len bs) eqn:E4; [|lia].
  destruct (rd_lt_some bs (h_ml h - 1)) as [hi Hhi]; [lia|].
  destruct (rd_lt_some bs (h_ml h)) as [lo Hlo]; [lia|].
  rewrite Hhi, Hlo.
  destruct (negb (join16 hi lo =? u16 (START_CODE + sum_bytes (take (h_ml h - 1) bs)))) eqn:E5; [exact I|].
  assert (usub32 (len bs) 23 = len bs - 23) as Hu2 by (apply usub32_small; lia).
  rewrite Hu2.
  destruct (usub32 (len bs - 23) 2 <? h_pdl h) eqn:E6; [exact I|].
  exists h, rest, hi, lo.
  assert (25 <= len bs) by lia.
  rewrite usub32_small in E6 by lia.
  repeat split; try assumption; lia.
Qed.

Lemma verify_not_oob bs : bytes_ok bs = true -> len bs < 4294967296 -> verify bs <> VOob.
Proof. intros Hb Hl E. pose proof (verify_cases bs Hb Hl) as H. rewrite E in H. exact H. Qed.

Lemma verify_ok bs : bytes_ok bs = true -> len bs < 4294967296 -> verify bs = VOk -> verify_ok_spec bs.
Proof. intros Hb Hl E. pose proof (verify_cases bs Hb Hl) as H. rewrite E in H. exact H. Qed.

Lemma fields_after_verify bs :
  bytes_ok bs = true -> len bs < 4294967296 -> verify bs = VOk -> exists c, fields bs = Some c.
Proof.
  intros Hb Hl E. destruct (verify_ok bs Hb Hl E) as (h & rest & hi & lo & Es & _ & _ & _ & _ & _ & _ & Hp).
  unfold fields. rewrite Es.
  destruct (split_header_some _ _ _ Es) as (_ & _ & _ & _ & _ & Hlen).
  destruct (h_pdl h <=? len rest) eqn:E1; [eauto|lia].
Qed.

(* ------------------------------------------------------------------ totality *)
Ltac total_tac Hb Hl :=
  let E := fresh "E" in
  destruct (verify _) eqn:E;
  [ exfalso; exact (verify_not_oob _ Hb Hl E)
  | discriminate
  | let c := fresh "c" in let Hc := fresh "Hc" in
    destruct (fields_after_verify _ Hb Hl E) as [c Hc]; rewrite Hc ].

Lemma inflate_request_total bs :
  bytes_ok bs = true -> len bs < 4294967296 -> inflate_request bs <> Oob.
Proof.
  intros Hb Hl. unfold inflate_request. total_tac Hb Hl.
  destruct (_ || _); discriminate.
Qed.
Lemma inflate_disc_request_total bs :
  bytes_ok bs = true -> len bs < 4294967296 -> inflate_disc_request bs <> Oob.
Proof.
  intros Hb Hl. unfold inflate_disc_request. total_tac Hb Hl.
  destruct (_ =? _); discriminate.
Qed.
Lemma inflate_disc_response_total bs :
  bytes_ok bs = true -> len bs < 4294967296 -> inflate_disc_response bs <> Oob.
Proof.
  intros Hb Hl. unfold inflate_disc_response. total_tac Hb Hl.
  destruct (_ =? _); discriminate.
Qed.
Lemma inflate_response_total rq bs :
  bytes_ok bs = true -> len bs < 4294967296 -> inflate_response rq bs <> Oob.
Proof.
  intros Hb Hl. unfold inflate_response. total_tac Hb Hl.
  destruct (match rq with Some r => _ | None => None end); [discriminate|].
  destruct (_ <? _); [discriminate|]. destruct (_ || _); discriminate.
Qed.
Lemma inflate_total bs :
  bytes_ok bs = true -> len bs < 4294967296 -> inflate bs <> Oob.
Proof.
  intros Hb Hl. unfold inflate.
  destruct (len bs <? 20) eqn:E0; [discriminate|].
  destruct (rd_lt_some bs 19) as [cc Hcc]; [lia|]. rewrite Hcc.
  destruct (_ || _); [apply inflate_request_total; assumption|].
  destruct (_ || _); [apply inflate_response_total; assumption|].
  destruct (_ =? _); [apply inflate_disc_request_total; assumption|].
  destruct (_ =? _); [apply inflate_disc_response_total; assumption|discriminate].
Qed.
Lemma from_frame_total rq fr :
  bytes_ok fr = true -> len fr < 4294967296 -> from_frame rq fr <> Oob.
Proof.
  intros Hb Hl. unfold from_frame. destruct fr as [|s [|x r]]; try discriminate.
  apply inflate_response_total.
  - cbn [bytes_ok forallb] in Hb. apply andb_prop in Hb. tauto.
  - rewrite len_cons in Hl. lia.
Qed.

(* ------------------------------------------------------------------ acceptance *)
Lemma inflate_request_ok bs c : inflate_request bs = Ok c -> verify bs = VOk /\ fields bs = Some c.
Proof.
  unfold inflate_request. destruct (verify bs); try discriminate.
  destruct (fields bs) as [c'|]; try discriminate. destruct (_ || _); try discriminate.
  intros H; inversion H; auto.
Qed.
Lemma inflate_disc_request_ok bs c : inflate_disc_request bs = Ok c -> verify bs = VOk /\ fields bs = Some c.
Proof.
  unfold inflate_disc_request. destruct (verify bs); try discriminate.
  destruct (fields bs) as [c'|]; try discriminate. destruct (_ =? _); try discriminate.
  intros H; inversion H; auto.
Qed.
Lemma inflate_disc_response_ok bs c : inflate_disc_response bs = Ok c -> verify bs = VOk /\ fields bs = Some c.
Proof.
  unfold inflate_disc_response. destruct (verify bs); try discriminate.
  destruct (fields bs) as [c'|]; try discriminate. destruct (_ =? _); try discriminate.
  intros H; inversion H; auto.
Qed.
Lemma inflate_response_ok rq bs c : inflate_response rq bs = Ok c -> verify bs = VOk /\ fields bs = Some c.
Proof.
  unfold inflate_response. destruct (verify bs); try discriminate.
  destruct (fields bs) as [c'|]; try discriminate.
  destruct (match rq with Some r => _ | None => None end); try discriminate.
  destruct (_ <? _); try discriminate. destruct (_ || _); try discriminate.
  intros H; inversion H; auto.
Qed.
Lemma inflate_ok bs c : inflate bs = Ok c -> verify bs = VOk /\ fields bs = Some c.
Proof.
  unfold inflate. destruct (len bs <? 20); try discriminate.
  destruct (rd bs 19); try discriminate.
  destruct (_ || _); [apply inflate_request_ok|].
  destruct (_ || _); [apply inflate_response_ok|].
  destruct (_ =? _); [apply inflate_disc_request_ok|].
  destruct (_ =? _); [apply inflate_disc_response_ok|discriminate].
Qed.

(* ------------------------------------------------------------------ big-endian lemmas *)
Lemma be_bytes_length k x : length (be_bytes k x) = k.
Proof. revert x; induction k as [|k IH]; intros x; cbn [be_bytes]; [reflexivity|]. rewrite app_length, IH. cbn. lia. Qed.

Lemma be_val_app l x : be_val (l ++ [x]) = be_val l * 256 + x.
Proof. unfold be_val. rewrite fold_left_app. reflexivity. Qed.

Lemma be_val_bytes k x : x < 256 ^ N.of_nat k -> be_val (be_bytes k x) = x.
Proof.
  revert x; induction k as [|k IH]; intros x Hx.
  - cbn in *. unfold be_val; cbn. lia.
  - cbn [be_bytes]. rewrite be_val_app. rewrite IH.
    + lia.
    + rewrite Nat2N.inj_succ, N.pow_succ_r' in Hx. lia.
Qed.

Lemma be_bytes_ok k x : bytes_ok (be_bytes k x) = true.
Proof.
  revert x; induction k as [|k IH]; intros x; cbn [be_bytes]; [reflexivity|].
  rewrite bytes_ok_app, IH. cbn. unfold byte_ok. lia.
Qed.

Lemma be_bytes_val l : bytes_ok l = true -> be_bytes (length l) (be_val l) = l.
Proof.
  induction l as [|x l IH] using rev_ind; intros H; [reflexivity|].
  rewrite bytes_ok_app in H. apply andb_prop in H as [Hl Hx].
  cbn in Hx. unfold byte_ok in Hx.
  rewrite app_length. cbn [length]. rewrite Nat.add_comm. cbn [Nat.add be_bytes].
  rewrite be_val_app.
  replace ((be_val l * 256 + x) / 256) with (be_val l) by lia.
  replace ((be_val l * 256 + x) mod 256) with x by lia.
  rewrite IH by assumption. reflexivity.
Qed.

(* ------------------------------------------------------------------ verify, intro form *)
Lemma verify_intro bs h rest hi lo :
  split_header bs = Some (h, rest) ->
  h_ssc h = SUB_START_CODE -> 24 <= h_ml h -> h_ml h < 256 -> h_ml h + 1 <= len bs ->
  len bs < 4294967296 ->
  rd bs (h_ml h - 1) = Some hi -> rd bs (h_ml h) = Some lo ->
  join16 hi lo = u16 (START_CODE + sum_bytes (take (h_ml h - 1) bs)) ->
  h_pdl h + 25 <= len bs ->
  verify bs = VOk.
Proof.
  intros Es Hssc Hml Hml2 Hlen Hl Hhi Hlo Hck Hpdl. unfold verify. unfold HEADER_SIZE.
  destruct (len bs <? 23) eqn:E0; [lia|]. rewrite Es.
  rewrite Hssc, N.eqb_refl. cbn [negb].
  destruct (len bs <? h_ml h + 1) eqn:E2; [lia|].
  destruct (h_ml h <? 23 + 1) eqn:E3; [lia|].
  rewrite usub32_small by lia. unfold checksum_rd.
  destruct (h_ml h - 1 <=? len bs) eqn:E4; [|lia].
  rewrite Hhi, Hlo, Hck, N.eqb_refl. cbn [negb].
  rewrite (usub32_small (len bs) 23) by lia. rewrite usub32_small by lia.
  destruct (len bs - 23 - 2 <? h_pdl h) eqn:E6; [lia|reflexivity].
Qed.

(* ------------------------------------------------------------------ pack then inflate *)
Definition packed_hdr (o : opts) (c : cmd) : hdr :=
  {| h_ssc := o_ssc o;
     h_ml := match o_ml o with Some m => m | None => u8 (HEADER_SIZE + len (c_data c) + 1) end;
     h_dst := be_bytes 6 (c_dst c); h_src := be_bytes 6 (c_src c); h_tn := c_tn c;
     h_port := c_port c; h_mc := c_mc c; h_sub := be_bytes 2 (c_sub c); h_cc := c_cc c;
     h_pid := be_bytes 2 (c_pid c); h_pdl := u8 (len (c_data c)) |}.

Lemma split_header_pack o c tail :
  split_header (header o c ++ tail) = Some (packed_hdr o c, tail).
Proof. unfold header, packed_hdr. cbn [be_bytes app]. reflexivity. Qed.

Lemma header_len o c : len (header o c) = 23.
Proof.
  unfold header. rewrite !len_app. unfold len at 2 3 5 7. rewrite !be_bytes_length.
  cbn. reflexivity.
Qed.

Lemma wf_cmd_spec c : wf_cmd c = true ->
  c_dst c < 2^48 /\ c_src c < 2^48 /\ c_tn c < 256 /\ c_port c < 256 /\ c_mc c < 256 /\
  c_sub c < 65536 /\ c_cc c < 256 /\ c_pid c < 65536 /\ bytes_ok (c_data c) = true /\ len (c_data c) <= 231.
Proof.
  unfold wf_cmd, MAX_PARAM_DATA_LENGTH. intros H.
  repeat (apply andb_prop in H as [H ?]). repeat split; try lia; assumption.
Qed.

Lemma header_bytes_ok c : wf_cmd c = true -> bytes_ok (header default_opts c) = true.
Proof.
  intros H. apply wf_cmd_spec in H as (? & ? & ? & ? & ? & ? & ? & ? & ? & ?).
  unfold header. rewrite !bytes_ok_app, !be_bytes_ok.
  cbn [bytes_ok forallb default_opts o_ssc o_ml]. unfold byte_ok, u8, SUB_START_CODE.
  repeat (apply andb_true_intro; split); try reflexivity; lia.
Qed.

Lemma pack_verify_fields c :
  wf_cmd c = true ->
  exists bs, pack c = Some bs /\ verify bs = VOk /\ fields bs = Some c /\
             rd bs 19 = Some (c_cc c) /\ len bs = 25 + len (c_data c) /\ bytes_ok bs = true.
Proof.
  intros Hwf. pose proof (header_bytes_ok c Hwf) as Hhb.
  pose proof (wf_cmd_spec c Hwf) as (Hd & Hs & Htn & Hport & Hmc & Hsub & Hcc8 & Hpid & Hdat & Hn).
  unfold pack, pack_o. unfold MAX_PARAM_DATA_LENGTH.
  destruct (231 <? len (c_data c)) eqn:E0; [lia|].
  cbn [default_opts o_ck].
  set (body := header default_opts c ++ c_data c).
  set (ck := u16 (START_CODE + sum_bytes body)).
  exists (body ++ [ck / 256; ck mod 256]). split; [reflexivity|].
  assert (Hbl : len body = 23 + len (c_data c)) by (unfold body; rewrite len_app, header_len; lia).
  assert (Hsplit : split_header (body ++ [ck / 256; ck mod 256]) =
                   Some (packed_hdr default_opts c, c_data c ++ [ck / 256; ck mod 256])).
  { unfold body. rewrite <- app_assoc. apply split_header_pack. }
  assert (Hml : h_ml (packed_hdr default_opts c) = 24 + len (c_data c)).
  { cbn [packed_hdr h_ml default_opts o_ml]. unfold u8, HEADER_SIZE. lia. }
  assert (Hlen : len (body ++ [ck / 256; ck mod 256]) = 25 + len (c_data c)).
  { rewrite len_app, Hbl. change (len [ck / 256; ck mod 256]) with 2. lia. }
  assert (Hck16 : ck < 65536) by (unfold ck; apply u16_lt).
  split; [|split; [|split; [|split]]].
  - eapply verify_intro with (hi := ck / 256) (lo := ck mod 256); try exact Hsplit.
    + reflexivity.
    + lia.
    + lia.
    + lia.
    + lia.
    + rewrite Hml. replace (24 + len (c_data c) - 1) with (len body) by lia.
      rewrite rd_app_r by lia. rewrite N.sub_diag. reflexivity.
    + rewrite Hml. rewrite rd_app_r by lia.
      replace (24 + len (c_data c) - len body) with 1 by lia. reflexivity.
    + rewrite Hml. replace (24 + len (c_data c) - 1) with (len body) by lia.
      rewrite take_app_exact. unfold join16. fold ck. lia.
    + cbn [packed_hdr h_pdl]. unfold u8. lia.
  - unfold fields. rewrite Hsplit. cbn [packed_hdr h_pdl h_dst h_src h_tn h_port h_mc h_sub h_cc h_pid].
    rewrite u8_id by lia.
    destruct (len (c_data c) <=? len (c_data c ++ [ck / 256; ck mod 256])) eqn:E1.
    2:{ rewrite len_app in E1. lia. }
    rewrite take_app_exact.
    rewrite !be_val_bytes; [destruct c; reflexivity| | | |]; cbn; lia.
  - destruct (split_header_rd _ _ _ Hsplit) as (_ & _ & _ & R). exact R.
  - exact Hlen.
  - unfold body. rewrite !bytes_ok_app, Hhb, Hdat. cbn. unfold byte_ok. lia.
Qed.

(* a well-formed command with a legal class; GET/SET responses also need a legal response type *)
Definition wf_rt (c : cmd) : bool :=
  wf_cmd c && is_cc (c_cc c) &&
  (if (c_cc c =? GET_COMMAND_RESPONSE) || (c_cc c =? SET_COMMAND_RESPONSE)
   then c_port c <=? ACK_OVERFLOW else true).

Lemma roundtrip c :
  wf_rt c = true -> exists bs, pack c = Some bs /\ inflate bs = Ok c.
Proof.
  unfold wf_rt. intros H. apply andb_prop in H as [H Hport]. apply andb_prop in H as [Hwf Hcc].
  destruct (pack_verify_fields c Hwf) as (bs & Hp & Hv & Hf & H19 & Hlen & _).
  exists bs. split; [exact Hp|].
  unfold inflate. destruct (len bs <? 20) eqn:E0; [lia|]. rewrite H19.
  unfold inflate_request, inflate_response, inflate_disc_request, inflate_disc_response.
  rewrite Hv, Hf.
  unfold is_cc in Hcc.
  unfold DISCOVER_COMMAND, DISCOVER_COMMAND_RESPONSE, GET_COMMAND, GET_COMMAND_RESPONSE,
    SET_COMMAND, SET_COMMAND_RESPONSE, ACK_OVERFLOW in *.
  assert (Hnb : forall x : bool, x || true = true) by (intros; apply orb_true_r).
  destruct (c_cc c =? 32) eqn:C1; [cbn [orb]; rewrite ?Hnb; cbn [orb]; reflexivity|].
  destruct (c_cc c =? 48) eqn:C2; [cbn [orb]; rewrite ?Hnb; cbn [orb]; reflexivity|].
  destruct (c_cc c =? 33) eqn:C3.
  { cbn [orb] in *. destruct (3 <? c_port c) eqn:P; [lia|]. rewrite ?Hnb; cbn [orb]. reflexivity. }
  destruct (c_cc c =? 49) eqn:C4.
  { cbn [orb] in *. destruct (3 <? c_port c) eqn:P; [lia|]. rewrite ?Hnb; cbn [orb]. reflexivity. }
  destruct (c_cc c =? 16) eqn:C5; [cbn [orb]; reflexivity|].
  destruct (c_cc c =? 17) eqn:C6; [cbn [orb]; reflexivity|].
  cbn in Hcc. discriminate.
Qed.

Lemma cmd_eq_cpp_refl c : cmd_eq_cpp c c = true.
Proof.
  unfold cmd_eq_cpp. rewrite !N.eqb_refl. cbn [andb].
  induction (c_data c) as [|x l IH]; [reflexivity|].
  cbn [combine forallb fst snd]. rewrite N.eqb_refl. exact IH.
Qed.

(* ------------------------------------------------------------------ canonical frames re-pack *)
Lemma list2_of_len {A} (l : list A) : length l = 2%nat -> exists x y, l = [x; y].
Proof. destruct l as [|x [|y [|z l]]]; try discriminate. eauto. Qed.

Lemma canonical bs c :
  bytes_ok bs = true -> len bs < 4294967296 ->
  verify bs = VOk -> fields bs = Some c ->
  (forall ml pdl, rd bs 1 = Some ml -> rd bs 22 = Some pdl -> ml = 24 + pdl /\ len bs = ml + 1) ->
  pack c = Some bs.
Proof.
  intros Hb Hl Hv Hf Hcanon.
  destruct (verify_ok bs Hb Hl Hv) as (h & rest & hi & lo & Es & Hssc & Hml & Hmll & Hhi & Hlo & Hck & Hpdl).
  destruct (split_header_rd _ _ _ Es) as (_ & R1 & R22 & _).
  destruct (Hcanon _ _ R1 R22) as [Hc1 Hc2].
  destruct (split_header_some _ _ _ Es) as (Hbs & Ld & Ls & Lsub & Lpid & Hlen).
  unfold fields in Hf. rewrite Es in Hf.
  destruct (h_pdl h <=? len rest) eqn:E1; [|discriminate]. inversion Hf; subst c; clear Hf.
  (* bytes of every header part are < 256 *)
  assert (Hb' := Hb). rewrite Hbs in Hb'. rewrite !bytes_ok_app in Hb'.
  repeat (apply andb_prop in Hb' as [? Hb']).
  assert (Hpdl8 : h_pdl h < 256) by exact (bytes_ok_rd _ _ _ Hb R22).
  assert (Hml8 : h_ml h < 256) by exact (bytes_ok_rd _ _ _ Hb R1).
  (* rest = data ++ [hi; lo] *)
  assert (Hrl : len rest = h_pdl h + 2) by lia.
  assert (Hdl : len (take (h_pdl h) rest) = h_pdl h) by (apply take_len; lia).
  assert (exists x y, drop (h_pdl h) rest = [x; y]) as (x & y & Hdrop).
  { apply list2_of_len. pose proof (drop_len (h_pdl h) rest) as D. rewrite Hrl in D. unfold len in D. lia. }
  assert (Hrest : rest = take (h_pdl h) rest ++ [x; y]) by (rewrite <- Hdrop; symmetry; apply take_drop).
  set (data := take (h_pdl h) rest) in *.
  (* the header re-packs to the same 23 bytes *)
  assert (Hhdr : header default_opts {| c_dst := be_val (h_dst h); c_src := be_val (h_src h);
                    c_tn := h_tn h; c_port := h_port h; c_mc := h_mc h; c_sub := be_val (h_sub h);
                    c_cc := h_cc h; c_pid := be_val (h_pid h); c_data := data |} =
                 [h_ssc h; h_ml h] ++ h_dst h ++ h_src h ++ [h_tn h; h_port h; h_mc h] ++ h_sub h ++
                 [h_cc h] ++ h_pid h ++ [h_pdl h]).
  { unfold header. cbn [default_opts o_ssc o_ml c_dst c_src c_tn c_port c_mc c_sub c_cc c_pid c_data].
    rewrite Hdl. rewrite <- Ld at 1. rewrite <- Ls at 1. rewrite <- Lsub at 1. rewrite <- Lpid at 1.
    rewrite !be_bytes_val by assumption.
    rewrite Hssc. unfold u8, HEADER_SIZE.
    replace ((23 + h_pdl h + 1) mod 256) with (h_ml h) by lia.
    replace (h_pdl h mod 256) with (h_pdl h) by lia. reflexivity. }
  unfold pack, pack_o. cbn [c_data default_opts o_ck]. rewrite Hdl.
  unfold MAX_PARAM_DATA_LENGTH. destruct (231 <? h_pdl h) eqn:E2; [lia|].
  rewrite Hhdr.
  (* the body is the first ml-1 bytes of bs *)
  set (hb := [h_ssc h; h_ml h] ++ h_dst h ++ h_src h ++ [h_tn h; h_port h; h_mc h] ++ h_sub h ++
             [h_cc h] ++ h_pid h ++ [h_pdl h]) in *.
  assert (Hbs2 : bs = (hb ++ data) ++ [x; y]).
  { rewrite Hbs at 1. rewrite Hrest at 1. unfold hb. rewrite <- !app_assoc. reflexivity. }
  assert (Hhbl : len (hb ++ data) = h_ml h - 1).
  { assert (len bs = len (hb ++ data) + 2) as HH by (rewrite Hbs2 at 1; rewrite len_app; cbn; lia). lia. }
  rewrite <- Hhbl in Hck, Hhi.
  rewrite Hbs2 in Hck at 1. rewrite take_app_exact in Hck.
  rewrite Hbs2 in Hhi at 1. rewrite rd_app_r, N.sub_diag in Hhi by lia. cbn in Hhi.
  rewrite Hbs2 in Hlo at 1. rewrite rd_app_r in Hlo by lia.
  replace (h_ml h - len (hb ++ data)) with 1 in Hlo by lia. cbn in Hlo.
  inversion Hhi; inversion Hlo; subst x y.
  assert (hi < 256 /\ lo < 256) as [Hhi8 Hlo8].
  { rewrite Hbs2, bytes_ok_app in Hb. apply andb_prop in Hb as [_ Hb2]. cbn in Hb2. unfold byte_ok in Hb2. lia. }
  rewrite <- Hck. unfold join16.
  replace ((hi * 256 + lo) / 256) with hi by lia.
  replace ((hi * 256 + lo) mod 256) with lo by lia.
  rewrite Hbs2. reflexivity.
Qed.

(* ------------------------------------------------------------------ request / response matching *)
Lemma first_failing_none l : first_failing l = None -> forall b st, In (b, st) l -> b = false.
Proof.
  induction l as [|[b0 st0] l IH]; intros H b st Hin; [destruct Hin|].
  cbn [first_failing] in H. destruct b0 eqn:E; [discriminate|].
  destruct Hin as [Hin|Hin]; [inversion Hin; subst; reflexivity|eauto].
Qed.

Definition corresponds (rq c : cmd) : Prop :=
  c_dst c = c_src rq /\ c_src c = c_dst rq /\ c_tn c = c_tn rq /\
  (c_sub c = c_sub rq \/ c_sub rq = ALL_RDM_SUBDEVICES \/ c_pid rq = PID_QUEUED_MESSAGE) /\
  (c_cc rq = GET_COMMAND -> c_cc c = GET_COMMAND_RESPONSE \/ c_pid rq = PID_QUEUED_MESSAGE) /\
  (c_cc rq = SET_COMMAND -> c_cc c = SET_COMMAND_RESPONSE) /\
  (c_cc rq = DISCOVER_COMMAND -> c_cc c = DISCOVER_COMMAND_RESPONSE).

Lemma match_ok rq bs c :
  inflate_response (Some rq) bs = Ok c ->
  corresponds rq c /\ c_port c <= ACK_OVERFLOW /\
  (c_cc c = DISCOVER_COMMAND_RESPONSE \/ c_cc c = GET_COMMAND_RESPONSE \/ c_cc c = SET_COMMAND_RESPONSE).
Proof.
  unfold inflate_response. destruct (verify bs); try discriminate.
  destruct (fields bs) as [c'|]; try discriminate.
  destruct (first_failing (match_checks rq c')) eqn:F; try discriminate.
  destruct (ACK_OVERFLOW <? c_port c') eqn:P; try discriminate.
  destruct (_ || _) eqn:K; try discriminate.
  intros H; inversion H; subst c'; clear H.
  pose proof (first_failing_none _ F) as A. unfold match_checks in A.
  assert (forall b st, In (b, st) (match_checks rq c) -> b = false) as A' by exact A. clear A.
  unfold match_checks in A'. cbn [In] in A'.
  split; [|split; [lia|]].
  - unfold corresponds. repeat split.
    + specialize (A' _ _ (or_introl eq_refl)). lia.
    + specialize (A' _ _ (or_intror (or_introl eq_refl))). lia.
    + specialize (A' _ _ (or_intror (or_intror (or_introl eq_refl)))). lia.
    + specialize (A' _ _ (or_intror (or_intror (or_intror (or_introl eq_refl))))). lia.
    + specialize (A' _ _ (or_intror (or_intror (or_intror (or_intror (or_introl eq_refl)))))). lia.
    + specialize (A' _ _ (or_intror (or_intror (or_intror (or_intror (or_intror (or_introl eq_refl))))))). lia.
    + specialize (A' _ _ (or_intror (or_intror (or_intror (or_intror (or_intror (or_intror (or_introl eq_refl)))))))). lia.
  - lia.
Qed.

(* the specific status of the first failing check, in the order the property lists them *)
Lemma match_status rq bs c :
  verify bs = VOk -> fields bs = Some c ->
  let r := inflate_response (Some rq) bs in
  (c_dst c <> c_src rq -> r = Reject RDM_DEST_UID_MISMATCH) /\
  (c_dst c = c_src rq -> c_src c <> c_dst rq -> r = Reject RDM_SRC_UID_MISMATCH) /\
  (c_dst c = c_src rq -> c_src c = c_dst rq -> c_tn c <> c_tn rq -> r = Reject RDM_TRANSACTION_MISMATCH) /\
  (c_dst c = c_src rq -> c_src c = c_dst rq -> c_tn c = c_tn rq ->
   c_sub c <> c_sub rq -> c_sub rq <> ALL_RDM_SUBDEVICES -> c_pid rq <> PID_QUEUED_MESSAGE ->
   r = Reject RDM_SUB_DEVICE_MISMATCH) /\
  (c_dst c = c_src rq -> c_src c = c_dst rq -> c_tn c = c_tn rq ->
   (c_sub c = c_sub rq \/ c_sub rq = ALL_RDM_SUBDEVICES \/ c_pid rq = PID_QUEUED_MESSAGE) ->
   ((c_cc rq = GET_COMMAND /\ c_cc c <> GET_COMMAND_RESPONSE /\ c_pid rq <> PID_QUEUED_MESSAGE) \/
    (c_cc rq = SET_COMMAND /\ c_cc c <> SET_COMMAND_RESPONSE) \/
    (c_cc rq = DISCOVER_COMMAND /\ c_cc c <> DISCOVER_COMMAND_RESPONSE)) ->
   r = Reject RDM_COMMAND_CLASS_MISMATCH) /\
  (corresponds rq c -> ACK_OVERFLOW < c_port c -> r = Reject RDM_INVALID_RESPONSE_TYPE) /\
  (corresponds rq c -> c_port c <= ACK_OVERFLOW ->
   c_cc c <> DISCOVER_COMMAND_RESPONSE -> c_cc c <> GET_COMMAND_RESPONSE -> c_cc c <> SET_COMMAND_RESPONSE ->
   r = Reject RDM_INVALID_COMMAND_CLASS) /\
  (corresponds rq c -> c_port c <= ACK_OVERFLOW ->
   (c_cc c = DISCOVER_COMMAND_RESPONSE \/ c_cc c = GET_COMMAND_RESPONSE \/ c_cc c = SET_COMMAND_RESPONSE) ->
   r = Ok c).
Proof.
  intros Hv Hf r. subst r. unfold inflate_response. rewrite Hv, Hf.
  unfold match_checks, corresponds. cbn [first_failing].
  unfold ALL_RDM_SUBDEVICES, PID_QUEUED_MESSAGE, GET_COMMAND, GET_COMMAND_RESPONSE, SET_COMMAND,
    SET_COMMAND_RESPONSE, DISCOVER_COMMAND, DISCOVER_COMMAND_RESPONSE, ACK_OVERFLOW.
  destruct (c_src rq =? c_dst c) eqn:E1; cbn [negb];
    [|repeat split; intros; try reflexivity; lia].
  destruct (c_dst rq =? c_src c) eqn:E2; cbn [negb];
    [|repeat split; intros; try reflexivity; lia].
  destruct (c_tn c =? c_tn rq) eqn:E3; cbn [negb];
    [|repeat split; intros; try reflexivity; lia].
  destruct (negb (c_sub c =? c_sub rq) && negb (c_sub rq =? 65535) && negb (c_pid rq =? 32)) eqn:E4;
    [repeat split; intros; try reflexivity; lia|].
  destruct ((c_cc rq =? 32) && negb (c_cc c =? 33) && negb (c_pid rq =? 32)) eqn:E5;
    [repeat split; intros; try reflexivity; lia|].
  destruct ((c_cc rq =? 48) && negb (c_cc c =? 49)) eqn:E6;
    [repeat split; intros; try reflexivity; lia|].
  destruct ((c_cc rq =? 16) && negb (c_cc c =? 17)) eqn:E7;
    [repeat split; intros; try reflexivity; lia|].
  destruct (3 <? c_port c) eqn:E8;
    [repeat split; intros; try reflexivity; lia|].
  destruct ((c_cc c =? 17) || (c_cc c =? 33) || (c_cc c =? 49)) eqn:E9;
    repeat split; intros; try reflexivity; lia.
Qed.
