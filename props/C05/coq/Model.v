(* C05 — executable model of the RDM frame codec.
   Mirrors common/rdm/RDMCommand.cpp (VerifyData, CalculateChecksum, GuessMessageType,
   Inflate, the four InflateFromData), RDMCommandSerializer.cpp (RequiredSize, Pack,
   PopulateHeader) and RDMReply::FromFrame.  Constants come from Gen.v, which is
   regenerated from the repository headers on every run. *)
From OlaBase Require Import Bytes.
From C05 Require Import Gen.
Local Open Scope N_scope.

(* ---- big-endian helpers (UID::Pack / UID(const uint8_t* ), JoinUInt8, SplitUInt16) *)
Definition be_val (l : list N) : N := fold_left (fun a b => a * 256 + b) l 0.
Fixpoint be_bytes (k : nat) (x : N) : list N :=
  match k with O => [] | S k' => be_bytes k' (x / 256) ++ [x mod 256] end.

Record cmd := {
  c_dst : N;     (* 48-bit UID as a number: esta_id * 2^32 + device_id *)
  c_src : N;
  c_tn  : N;
  c_port : N;    (* port id (requests) / response type (responses) *)
  c_mc  : N;
  c_sub : N;
  c_cc  : N;     (* command class byte *)
  c_pid : N;
  c_data : list N }.

(* RDMRequest::OverrideOptions; responses always use the defaults *)
Record opts := { o_ssc : N; o_ml : option N; o_ck : option N }.
Definition default_opts := {| o_ssc := SUB_START_CODE; o_ml := None; o_ck := None |}.

Inductive res :=
| Oob                 (* a read outside the supplied bytes: must be unreachable *)
| Reject (st : N)     (* NULL + status code *)
| Ok (c : cmd).

(* RDMCommand::CalculateChecksum(data, n): reads data[0..n) *)
Definition checksum_rd (bs : list N) (n : N) : option N :=
  if n <=? len bs then Some (u16 (START_CODE + sum_bytes (take n bs))) else None.

Inductive vres := VOob | VReject (st : N) | VOk.

(* memcpy(&header, data, sizeof(header)) followed by field accesses: the 23 header bytes
   (offsets checked against Gen.OFF_* in Properties.c05_layout) and what follows them *)
Record hdr := { h_ssc : N; h_ml : N; h_dst : list N; h_src : list N; h_tn : N; h_port : N;
                h_mc : N; h_sub : list N; h_cc : N; h_pid : list N; h_pdl : N }.

Definition split_header (bs : list N) : option (hdr * list N) :=
  match bs with
  | ssc :: ml :: d0 :: d1 :: d2 :: d3 :: d4 :: d5 :: s0 :: s1 :: s2 :: s3 :: s4 :: s5 ::
    tn :: port :: mc :: sub0 :: sub1 :: cc :: pid0 :: pid1 :: pdl :: rest =>
    Some ({| h_ssc := ssc; h_ml := ml; h_dst := [d0; d1; d2; d3; d4; d5];
             h_src := [s0; s1; s2; s3; s4; s5]; h_tn := tn; h_port := port; h_mc := mc;
             h_sub := [sub0; sub1]; h_cc := cc; h_pid := [pid0; pid1]; h_pdl := pdl |}, rest)
  | _ => None
  end.

(* RDMCommand::VerifyData *)
Definition verify (bs : list N) : vres :=
  let length := len bs in
  if length <? HEADER_SIZE then VReject RDM_PACKET_TOO_SHORT else
  match split_header bs with
  | None => VOob
  | Some (h, _) =>
    let ml := h_ml h in
    if negb (h_ssc h =? SUB_START_CODE) then VReject RDM_WRONG_SUB_START_CODE else
    if length <? ml + 1 then VReject RDM_PACKET_LENGTH_MISMATCH else
    if ml <? HEADER_SIZE + 1 then VReject RDM_PACKET_LENGTH_MISMATCH else
    match checksum_rd bs (usub32 ml 1), rd bs (usub32 ml 1), rd bs ml with
    | Some ck, Some hi, Some lo =>
      if negb (join16 hi lo =? ck) then VReject RDM_CHECKSUM_INCORRECT else
      (* unsigned int block_size = length - sizeof(header) - 2 *)
      if usub32 (usub32 length HEADER_SIZE) 2 <? h_pdl h then VReject RDM_PARAM_LENGTH_MISMATCH
      else VOk
    | _, _, _ => VOob
    end
  end.

(* the decoded header fields + parameter data (data + sizeof(header), pdl bytes),
   shared by all InflateFromData *)
Definition fields (bs : list N) : option cmd :=
  match split_header bs with
  | None => None
  | Some (h, rest) =>
    if h_pdl h <=? len rest then
      Some {| c_dst := be_val (h_dst h); c_src := be_val (h_src h); c_tn := h_tn h;
              c_port := h_port h; c_mc := h_mc h; c_sub := be_val (h_sub h); c_cc := h_cc h;
              c_pid := be_val (h_pid h); c_data := take (h_pdl h) rest |}
    else None
  end.

Definition is_cc (x : N) : bool :=
  (x =? DISCOVER_COMMAND) || (x =? DISCOVER_COMMAND_RESPONSE) || (x =? GET_COMMAND) ||
  (x =? GET_COMMAND_RESPONSE) || (x =? SET_COMMAND) || (x =? SET_COMMAND_RESPONSE).

(* RDMRequest::InflateFromData (returns NULL without a status: we use status 0 for it) *)
Definition NOSTATUS := 255.
Definition inflate_request (bs : list N) : res :=
  match verify bs with
  | VOob => Oob | VReject st => Reject st
  | VOk => match fields bs with
           | None => Oob
           | Some c => if (c_cc c =? DISCOVER_COMMAND) || (c_cc c =? GET_COMMAND) ||
                          (c_cc c =? SET_COMMAND) then Ok c else Reject NOSTATUS
           end
  end.

Definition inflate_disc_request (bs : list N) : res :=
  match verify bs with
  | VOob => Oob | VReject st => Reject st
  | VOk => match fields bs with
           | None => Oob
           | Some c => if c_cc c =? DISCOVER_COMMAND then Ok c else Reject NOSTATUS
           end
  end.

Definition inflate_disc_response (bs : list N) : res :=
  match verify bs with
  | VOob => Oob | VReject st => Reject st
  | VOk => match fields bs with
           | None => Oob
           | Some c => if c_cc c =? DISCOVER_COMMAND_RESPONSE then Ok c else Reject NOSTATUS
           end
  end.

(* the request-matching checks of RDMResponse::InflateFromData, in C++ order *)
Definition match_checks (rq c : cmd) : list (bool * N) :=
  [ (negb (c_src rq =? c_dst c), RDM_DEST_UID_MISMATCH);
    (negb (c_dst rq =? c_src c), RDM_SRC_UID_MISMATCH);
    (negb (c_tn c =? c_tn rq), RDM_TRANSACTION_MISMATCH);
    (negb (c_sub c =? c_sub rq) && negb (c_sub rq =? ALL_RDM_SUBDEVICES) &&
       negb (c_pid rq =? PID_QUEUED_MESSAGE), RDM_SUB_DEVICE_MISMATCH);
    ((c_cc rq =? GET_COMMAND) && negb (c_cc c =? GET_COMMAND_RESPONSE) &&
       negb (c_pid rq =? PID_QUEUED_MESSAGE), RDM_COMMAND_CLASS_MISMATCH);
    ((c_cc rq =? SET_COMMAND) && negb (c_cc c =? SET_COMMAND_RESPONSE), RDM_COMMAND_CLASS_MISMATCH);
    ((c_cc rq =? DISCOVER_COMMAND) && negb (c_cc c =? DISCOVER_COMMAND_RESPONSE),
       RDM_COMMAND_CLASS_MISMATCH) ].

Fixpoint first_failing (l : list (bool * N)) : option N :=
  match l with
  | [] => None
  | (b, st) :: r => if b then Some st else first_failing r
  end.

Definition inflate_response (rq : option cmd) (bs : list N) : res :=
  match verify bs with
  | VOob => Oob | VReject st => Reject st
  | VOk =>
    match fields bs with
    | None => Oob
    | Some c =>
      match (match rq with Some r => first_failing (match_checks r c) | None => None end) with
      | Some st => Reject st
      | None =>
        if ACK_OVERFLOW <? c_port c then Reject RDM_INVALID_RESPONSE_TYPE else
        if (c_cc c =? DISCOVER_COMMAND_RESPONSE) || (c_cc c =? GET_COMMAND_RESPONSE) ||
           (c_cc c =? SET_COMMAND_RESPONSE) then Ok c else Reject RDM_INVALID_COMMAND_CLASS
      end
    end
  end.

(* RDMCommand::Inflate = GuessMessageType + dispatch *)
Definition inflate (bs : list N) : res :=
  if len bs <? 20 then Reject NOSTATUS else
  match rd bs 19 with
  | None => Oob
  | Some cc =>
    if (cc =? GET_COMMAND) || (cc =? SET_COMMAND) then inflate_request bs
    else if (cc =? GET_COMMAND_RESPONSE) || (cc =? SET_COMMAND_RESPONSE) then inflate_response None bs
    else if cc =? DISCOVER_COMMAND then inflate_disc_request bs
    else if cc =? DISCOVER_COMMAND_RESPONSE then inflate_disc_response bs
    else Reject NOSTATUS
  end.

(* RDMReply::FromFrame: frame includes the start code, which is skipped unchecked *)
Definition from_frame (rq : option cmd) (frame : list N) : res :=
  match frame with
  | _ :: (_ :: _) as body => inflate_response rq body
  | _ => Reject RDM_INVALID_RESPONSE
  end.

(* ---- serialisation: PopulateHeader + Pack *)
Definition header (o : opts) (c : cmd) : list N :=
  [o_ssc o;
   match o_ml o with Some m => m | None => u8 (HEADER_SIZE + len (c_data c) + 1) end] ++
  be_bytes 6 (c_dst c) ++ be_bytes 6 (c_src c) ++
  [c_tn c; c_port c; c_mc c] ++ be_bytes 2 (c_sub c) ++ [c_cc c] ++ be_bytes 2 (c_pid c) ++
  [u8 (len (c_data c))].

Definition pack_o (o : opts) (c : cmd) : option (list N) :=
  if MAX_PARAM_DATA_LENGTH <? len (c_data c) then None else
  let body := header o c ++ c_data c in
  let ck := match o_ck o with Some k => k | None => u16 (START_CODE + sum_bytes body) end in
  Some (body ++ [ck / 256; ck mod 256]).

Definition pack (c : cmd) : option (list N) := pack_o default_opts c.

(* a command value constructible through the API *)
Definition wf_cmd (c : cmd) : bool :=
  (c_dst c <? 2^48) && (c_src c <? 2^48) && (c_tn c <? 256) && (c_port c <? 256) &&
  (c_mc c <? 256) && (c_sub c <? 65536) && (c_cc c <? 256) && (c_pid c <? 65536) && bytes_ok (c_data c) &&
  (len (c_data c) <=? MAX_PARAM_DATA_LENGTH).

(* RDMCommand::operator== ignores the port id / response type *)
Definition cmd_eq_cpp (a b : cmd) : bool :=
  (c_src a =? c_src b) && (c_dst a =? c_dst b) && (c_tn a =? c_tn b) && (c_mc a =? c_mc b) &&
  (c_sub a =? c_sub b) && (c_cc a =? c_cc b) && (c_pid a =? c_pid b) &&
  (len (c_data a) =? len (c_data b)) && forallb (fun p => fst p =? snd p) (combine (c_data a) (c_data b)).
