From Coq Require Extraction.
From Coq Require Import ExtrOcamlBasic.
From OlaBase Require Import Bytes.
From C05 Require Import Gen Model.
Extraction Language OCaml.
Extraction "model.ml" io_witness N.div_eucl inflate inflate_request inflate_response inflate_disc_request
  inflate_disc_response from_frame pack pack_o cmd_eq_cpp wf_cmd default_opts NOSTATUS.
