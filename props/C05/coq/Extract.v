From Coq Require Extraction.
From Coq Require Import ExtrOcamlBasic.
From OlaBase Require Import Bytes.
From C05 Require Import Gen Model Proofs Ext Proofs2 Proofs3 Ser Proofs5.
Extraction Language OCaml.
Extraction "model.ml" io_witness N.div_eucl inflate inflate_request inflate_response inflate_disc_request
  inflate_disc_response from_frame pack pack_o cmd_eq_cpp wf_cmd default_opts NOSTATUS
  mk_frame reply_of_raw pack_append pack_with_start_code response_with_pid response_from_data
  nack_request nack_response duplicate is_request_cc is_response_cc
  reply_eq res_eq frames_eq inflate_response_bs
  required_size pack_buffer write_iostack set_param_data with_data
  combine_responses reply_from_frame dub_reply frame_eq new_frame
  new_dub new_mute new_unmute is_dub set_request set_response verify_null
  START_CODE SUB_START_CODE RDM_ACK RDM_NACK_REASON.
