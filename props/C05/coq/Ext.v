(* C05 — model of the remaining API entry points of the anchored files (round 2):
   RDMFrame construction (both constructors, Options.prepend_start_code) in front of
   RDMReply::FromFrame, RDMCommandSerializer::PackWithStartCode / Pack appending to a non-empty
   ByteString, the response builders GetResponseWithPid / GetResponseFromData / NackWithReason
   (common/rdm/RDMCommand.cpp), and Duplicate.  Model.v is unchanged. *)
From OlaBase Require Import Bytes.
From C05 Require Import Gen Model.
Local Open Scope N_scope.

(* RDMFrame::RDMFrame(const uint8_t*, unsigned int, const Options&) and
   RDMFrame::RDMFrame(const ByteString&, const Options&): identical bodies
     if (options.prepend_start_code) data.push_back(START_CODE);
     data.append(raw);
   (the timing block is zeroed and plays no part in decoding) *)
Definition mk_frame (prepend : bool) (raw : list N) : list N :=
  (if prepend then [START_CODE] else []) ++ raw.

(* RDMReply::FromFrame(RDMFrame(raw, Options(prepend)), request) *)
Definition reply_of_raw (prepend : bool) (rq : option cmd) (raw : list N) : res :=
  from_frame rq (mk_frame prepend raw).

(* RDMCommandSerializer::Pack(command, ByteString *output): appends to what is already in
   *output (the checksum loop starts at `front`), nothing is appended on failure. *)
Definition pack_append (o : opts) (out : list N) (c : cmd) : bool * list N :=
  match pack_o o c with
  | Some b => (true, out ++ b)
  | None => (false, out)
  end.

(* RDMCommandSerializer::PackWithStartCode: output->push_back(START_CODE); return Pack(...) —
   the start code stays in *output even when Pack refuses. *)
Definition pack_with_start_code (o : opts) (out : list N) (c : cmd) : bool * list N :=
  pack_append o (out ++ [START_CODE]) c.

(* ---- response builders *)
Definition is_request_cc (x : N) : bool :=
  (x =? GET_COMMAND) || (x =? SET_COMMAND) || (x =? DISCOVER_COMMAND).
Definition is_response_cc (x : N) : bool :=
  (x =? GET_COMMAND_RESPONSE) || (x =? SET_COMMAND_RESPONSE) || (x =? DISCOVER_COMMAND_RESPONSE).

Definition built (rq : cmd) (cc pid : N) (data : list N) (type mc : N) : cmd :=
  {| c_dst := c_src rq; c_src := c_dst rq; c_tn := c_tn rq; c_port := type; c_mc := mc;
     c_sub := c_sub rq; c_cc := cc; c_pid := pid; c_data := data |}.

(* GetResponseWithPid: switch (request->CommandClass()) *)
Definition response_with_pid (rq : cmd) (pid : N) (data : list N) (type mc : N) : option cmd :=
  if c_cc rq =? GET_COMMAND then Some (built rq GET_COMMAND_RESPONSE pid data type mc)
  else if c_cc rq =? SET_COMMAND then Some (built rq SET_COMMAND_RESPONSE pid data type mc)
  else if c_cc rq =? DISCOVER_COMMAND then Some (built rq DISCOVER_COMMAND_RESPONSE pid data type mc)
  else None.

(* GetResponseFromData *)
Definition response_from_data (rq : cmd) (data : list N) (type mc : N) : option cmd :=
  response_with_pid rq (c_pid rq) data type mc.

(* NackWithReason(const RDMRequest*, reason, outstanding_messages):
   uint16_t reason = HostToNetwork(reason_enum); 2 bytes of it are the parameter data *)
Definition nack_request (rq : cmd) (reason mc : N) : option cmd :=
  response_from_data rq (be_bytes 2 (u16 reason)) RDM_NACK_REASON mc.

(* NackWithReason(const RDMResponse*, reason) *)
Definition nack_response (r : cmd) (reason : N) : cmd :=
  {| c_dst := c_dst r; c_src := c_src r; c_tn := c_tn r; c_port := RDM_NACK_REASON; c_mc := c_mc r;
     c_sub := c_sub r; c_cc := c_cc r; c_pid := c_pid r; c_data := be_bytes 2 (u16 reason) |}.

(* RDMRequest::Duplicate / BaseRDMRequest::Duplicate (fields + override options copied),
   RDMResponse::Duplicate (fields copied) *)
Definition duplicate (oc : opts * cmd) : opts * cmd := (fst oc, snd oc).

(* ---- discovery request builders (RDMCommand.cpp) *)
Definition disc_request (src dst tn port pid : N) (data : list N) : cmd :=
  {| c_dst := dst; c_src := src; c_tn := tn; c_port := port; c_mc := 0; c_sub := ROOT_RDM_DEVICE;
     c_cc := DISCOVER_COMMAND; c_pid := pid; c_data := data |}.
(* NewDiscoveryUniqueBranchRequest: lower.Pack ++ upper.Pack, sent to UID::AllDevices() *)
Definition new_dub (src lower upper tn port : N) : cmd :=
  disc_request src ALL_DEVICES_UID tn port PID_DISC_UNIQUE_BRANCH
    (be_bytes (N.to_nat UID_SIZE) lower ++ be_bytes (N.to_nat UID_SIZE) upper).
Definition new_mute (src dst tn port : N) : cmd := disc_request src dst tn port PID_DISC_MUTE [].
Definition new_unmute (src dst tn port : N) : cmd := disc_request src dst tn port PID_DISC_UN_MUTE [].
(* RDMRequest::IsDUB *)
Definition is_dub (c : cmd) : bool := (c_cc c =? DISCOVER_COMMAND) && (c_pid c =? PID_DISC_UNIQUE_BRANCH).

(* setters: RDMRequest::SetSourceUID / SetTransactionNumber / SetPortId,
   RDMResponse::SetDestinationUID / SetTransactionNumber *)
Definition set_request (c : cmd) (src tn port : N) : cmd :=
  {| c_dst := c_dst c; c_src := src; c_tn := tn; c_port := port; c_mc := c_mc c; c_sub := c_sub c;
     c_cc := c_cc c; c_pid := c_pid c; c_data := c_data c |}.
Definition set_response (c : cmd) (dst tn : N) : cmd :=
  {| c_dst := dst; c_src := c_src c; c_tn := tn; c_port := c_port c; c_mc := c_mc c; c_sub := c_sub c;
     c_cc := c_cc c; c_pid := c_pid c; c_data := c_data c |}.

(* a NULL data pointer with a claimed length: GuessMessageType returns INVALID_COMMAND (Inflate ->
   NULL); VerifyData checks the length first, then `if (!data) return RDM_INVALID_RESPONSE` *)
Definition verify_null (length : N) : N :=
  if length <? HEADER_SIZE then RDM_PACKET_TOO_SHORT else RDM_INVALID_RESPONSE.

(* ---- RDMResponse::CombineResponses (ACK_OVERFLOW reassembly) *)
Definition combined (r1 r2 : cmd) (cc : N) : cmd :=
  {| c_dst := c_dst r1; c_src := c_src r1; c_tn := c_tn r1; c_port := RDM_ACK; c_mc := c_mc r2;
     c_sub := c_sub r1; c_cc := cc; c_pid := c_pid r1; c_data := c_data r1 ++ c_data r2 |}.
Definition combine_responses (r1 r2 : cmd) : option cmd :=
  (* unsigned int combined_length = size1 + size2 *)
  let n := u32 (len (c_data r1) + len (c_data r2)) in
  if MAX_OVERFLOW_SIZE <? n then None
  else if negb (c_src r1 =? c_src r2) then None
  else if (c_cc r1 =? GET_COMMAND_RESPONSE) && (c_cc r2 =? GET_COMMAND_RESPONSE)
       then Some (combined r1 r2 GET_COMMAND_RESPONSE)
  else if (c_cc r1 =? SET_COMMAND_RESPONSE) && (c_cc r2 =? SET_COMMAND_RESPONSE)
       then Some (combined r1 r2 SET_COMMAND_RESPONSE)
  else None.

(* ---- RDMFrame as a whole (data + the four timing words) and the RDMReply built from it *)
Record frame := { f_data : list N; f_timing : N * N * N * N }.
(* both constructors: data as mk_frame, memset(&timing, 0, sizeof(timing)) *)
Definition new_frame (prepend : bool) (raw : list N) : frame :=
  {| f_data := mk_frame prepend raw; f_timing := (0, 0, 0, 0) |}.
Definition list_eqb (a b : list N) : bool :=
  (len a =? len b) && forallb (fun p => fst p =? snd p) (combine a b).
(* RDMFrame::operator== *)
Definition frame_eq (a b : frame) : bool :=
  let '(a1, a2, a3, a4) := f_timing a in
  let '(b1, b2, b3, b4) := f_timing b in
  list_eqb (f_data a) (f_data b) && (a1 =? b1) && (a2 =? b2) && (a3 =? b3) && (a4 =? b4).
(* RDMReply::FromFrame: (status / response, frames) — the frame is stored as given *)
Definition reply_from_frame (rq : option cmd) (fr : frame) : res * list frame :=
  (from_frame rq (f_data fr), [fr]).
(* RDMReply::DUBReply *)
Definition dub_reply (fr : frame) : N * list frame := (RDM_DUB_RESPONSE, [fr]).
