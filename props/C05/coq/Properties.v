From OlaBase Require Import Bytes.
From C05 Require Import Gen Model Proofs.
