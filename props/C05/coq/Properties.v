(* C05 — RDM frame codec is total, bounds-safe and round-trips.
   Only theorem statements here; proofs are in Proofs.v.  Byte strings are lists of N with
   every element < 256 (bytes_ok) and a length that fits `unsigned int`. *)
From OlaBase Require Import Bytes.
From C05 Require Import Gen Model Proofs Ext Proofs2 Proofs3 Ser Proofs4 Proofs5.
Local Open Scope N_scope.

(* Side obligations tying the regenerated constants to the numbers the property and the model's
   header pattern use (a change of the wire layout or a constant in /repo breaks these). *)
Theorem c05_layout :
  (HEADER_SIZE, OFF_message_length, OFF_destination_uid, OFF_source_uid, OFF_transaction_number,
   OFF_port_id, OFF_message_count, OFF_sub_device, OFF_command_class, OFF_param_id,
   OFF_param_data_length, CHECKSUM_LENGTH) = (23, 1, 2, 8, 14, 15, 16, 17, 19, 20, 22, 2) /\
  (START_CODE, SUB_START_CODE, MAX_PARAM_DATA_LENGTH, ACK_OVERFLOW) = (204, 1, 231, 3).
Proof. split; reflexivity. Qed.
Print Assumptions c05_layout.

(* Decoding any byte string rejects or yields a command; no read outside the bytes supplied
   (Oob is the model's outcome for any such read), for every decoder entry point. *)
Theorem c05_total : forall bs rq,
  bytes_ok bs = true -> len bs < 2^32 ->
  inflate bs <> Oob /\ inflate_request bs <> Oob /\ inflate_response rq bs <> Oob /\
  inflate_disc_request bs <> Oob /\ inflate_disc_response bs <> Oob /\ from_frame rq bs <> Oob.
Proof.
  intros bs rq Hb Hl. change (2^32) with 4294967296 in Hl.
  repeat split.
  - exact (inflate_total bs Hb Hl).
  - exact (inflate_request_total bs Hb Hl).
  - exact (inflate_response_total rq bs Hb Hl).
  - exact (inflate_disc_request_total bs Hb Hl).
  - exact (inflate_disc_response_total bs Hb Hl).
  - exact (from_frame_total rq bs Hb Hl).
Qed.
Print Assumptions c05_total.

(* A frame is accepted (by any decoder) only if sub-start code and additive checksum are correct
   and the message-length and parameter-length fields fit inside the bytes present. *)
Theorem c05_accept : forall bs rq c,
  bytes_ok bs = true -> len bs < 2^32 ->
  (inflate bs = Ok c \/ inflate_request bs = Ok c \/ inflate_response rq bs = Ok c \/
   inflate_disc_request bs = Ok c \/ inflate_disc_response bs = Ok c) ->
  exists ml pdl hi lo,
    rd bs 0 = Some 1 /\ rd bs 1 = Some ml /\ rd bs 22 = Some pdl /\
    24 <= ml /\ ml + 1 <= len bs /\ pdl + 25 <= len bs /\
    rd bs (ml - 1) = Some hi /\ rd bs ml = Some lo /\
    hi * 256 + lo = (204 + sum_bytes (take (ml - 1) bs)) mod 65536 /\
    c_data c = take pdl (drop 23 bs).
Proof.
  intros bs rq c Hb Hl H. change (2^32) with 4294967296 in Hl.
  assert (verify bs = VOk /\ fields bs = Some c) as [Hv Hf].
  { destruct H as [H|[H|[H|[H|H]]]].
    - exact (inflate_ok _ _ H).
    - exact (inflate_request_ok _ _ H).
    - exact (inflate_response_ok _ _ _ H).
    - exact (inflate_disc_request_ok _ _ H).
    - exact (inflate_disc_response_ok _ _ H). }
  destruct (verify_ok bs Hb Hl Hv) as (h & rest & hi & lo & Es & Hssc & Hml & Hmll & Hhi & Hlo & Hck & Hpdl).
  destruct (split_header_rd _ _ _ Es) as (R0 & R1 & R22 & _).
  exists (h_ml h), (h_pdl h), hi, lo. rewrite Hssc in R0.
  repeat split; try assumption.
  unfold fields in Hf. rewrite Es in Hf. destruct (h_pdl h <=? len rest); [|discriminate].
  inversion Hf; subst c; cbn [c_data]. f_equal.
  destruct (split_header_some _ _ _ Es) as (Hbs & Ld & Ls & Lsub & Lpid & _).
  clear - Es. unfold split_header in Es.
  do 23 (destruct bs as [|? bs]; [discriminate|]). inversion Es; subst. reflexivity.
Qed.
Print Assumptions c05_accept.

(* Every constructible request or response (any UIDs, transaction number, port id / response type,
   message count, sub-device, PID, 0-231 parameter bytes, one of the six command classes; GET/SET
   responses with a legal response type <= ACK_OVERFLOW) serialises to a frame that decodes to
   exactly the same command (field-wise, hence also equal under the C++ operator==). *)
Theorem c05_roundtrip : forall c,
  wf_rt c = true ->
  exists bs, pack c = Some bs /\ inflate bs = Ok c /\ cmd_eq_cpp c c = true /\
             len bs = 25 + len (c_data c).
Proof.
  intros c H. destruct (roundtrip c H) as (bs & Hp & Hi).
  exists bs. repeat split; try assumption.
  - apply cmd_eq_cpp_refl.
  - unfold wf_rt in H. apply andb_prop in H as [H _]. apply andb_prop in H as [Hwf _].
    destruct (pack_verify_fields c Hwf) as (bs' & Hp' & _ & _ & _ & Hlen & _).
    congruence.
Qed.
Print Assumptions c05_roundtrip.

(* More than 231 parameter bytes never serialise. *)
Theorem c05_pack_limit : forall c, 231 < len (c_data c) -> pack c = None.
Proof.
  intros c H. unfold pack, pack_o, MAX_PARAM_DATA_LENGTH.
  destruct (231 <? len (c_data c)) eqn:E; [reflexivity|lia].
Qed.
Print Assumptions c05_pack_limit.

(* Every accepted frame in canonical form (message length = 24 + parameter length, and the frame,
   which excludes the start code, is message length + 1 bytes) re-serialises to the same bytes. *)
Theorem c05_canonical : forall bs c,
  bytes_ok bs = true -> len bs < 2^32 ->
  inflate bs = Ok c ->
  (forall ml pdl, rd bs 1 = Some ml -> rd bs 22 = Some pdl -> ml = 24 + pdl /\ len bs = ml + 1) ->
  pack c = Some bs.
Proof.
  intros bs c Hb Hl Hi Hc. change (2^32) with 4294967296 in Hl.
  destruct (inflate_ok _ _ Hi) as [Hv Hf].
  exact (canonical bs c Hb Hl Hv Hf Hc).
Qed.
Print Assumptions c05_canonical.

(* A response is matched to a request only when UIDs, transaction number, sub-device and command
   class correspond ... *)
Theorem c05_match_only_if : forall rq bs c,
  inflate_response (Some rq) bs = Ok c ->
  corresponds rq c /\ c_port c <= ACK_OVERFLOW /\
  (c_cc c = DISCOVER_COMMAND_RESPONSE \/ c_cc c = GET_COMMAND_RESPONSE \/ c_cc c = SET_COMMAND_RESPONSE).
Proof. exact match_ok. Qed.
Print Assumptions c05_match_only_if.

(* ... and otherwise the specific mismatch status is reported (first failing check, in the order
   destination UID, source UID, transaction number, sub-device, command class, response type,
   invalid class), and it is matched whenever everything corresponds. *)
Theorem c05_match_status : forall rq bs c,
  bytes_ok bs = true -> len bs < 2^32 ->
  inflate_response None bs = Ok c \/ (verify bs = VOk /\ fields bs = Some c) ->
  let r := inflate_response (Some rq) bs in
  (c_dst c <> c_src rq -> r = Reject RDM_DEST_UID_MISMATCH) /\
  (c_dst c = c_src rq -> c_src c <> c_dst rq -> r = Reject RDM_SRC_UID_MISMATCH) /\
  (c_dst c = c_src rq -> c_src c = c_dst rq -> c_tn c <> c_tn rq -> r = Reject RDM_TRANSACTION_MISMATCH) /\
  (c_dst c = c_src rq -> c_src c = c_dst rq -> c_tn c = c_tn rq ->
   c_sub c <> c_sub rq -> c_sub rq <> ALL_RDM_SUBDEVICES -> c_pid rq <> PID_QUEUED_MESSAGE ->
   r = Reject RDM_SUB_DEVICE_MISMATCH) /\
  (c_dst c = c_src rq -> c_src c = c_dst rq -> c_tn c = c_tn rq ->
   (c_sub c = c_sub rq \/ c_sub rq = ALL_RDM_SUBDEVICES \/ c_pid rq = PID_QUEUED_MESSAGE) ->
   ((c_cc rq = GET_COMMAND /\ c_cc c <> GET_COMMAND_RESPONSE /\ c_pid rq <> PID_QUEUED_MESSAGE) \/
    (c_cc rq = SET_COMMAND /\ c_cc c <> SET_COMMAND_RESPONSE) \/
    (c_cc rq = DISCOVER_COMMAND /\ c_cc c <> DISCOVER_COMMAND_RESPONSE)) ->
   r = Reject RDM_COMMAND_CLASS_MISMATCH) /\
  (corresponds rq c -> ACK_OVERFLOW < c_port c -> r = Reject RDM_INVALID_RESPONSE_TYPE) /\
  (corresponds rq c -> c_port c <= ACK_OVERFLOW ->
   c_cc c <> DISCOVER_COMMAND_RESPONSE -> c_cc c <> GET_COMMAND_RESPONSE -> c_cc c <> SET_COMMAND_RESPONSE ->
   r = Reject RDM_INVALID_COMMAND_CLASS) /\
  (corresponds rq c -> c_port c <= ACK_OVERFLOW ->
   (c_cc c = DISCOVER_COMMAND_RESPONSE \/ c_cc c = GET_COMMAND_RESPONSE \/ c_cc c = SET_COMMAND_RESPONSE) ->
   r = Ok c).
Proof.
  intros rq bs c Hb Hl H.
  assert (verify bs = VOk /\ fields bs = Some c) as [Hv Hf].
  { destruct H as [H|H]; [exact (inflate_response_ok _ _ _ H)|exact H]. }
  exact (match_status rq bs c Hv Hf).
Qed.
Print Assumptions c05_match_status.

(* ---- round 2: every API entry point of the anchored files ---------------------------------- *)

(* RDMFrame construction (both constructors): with Options.prepend_start_code the frame data is the
   start code followed by EXACTLY the supplied bytes, for every byte list (no special case for data
   that already begins with 0xCC); without it, the supplied bytes.  RDMReply::FromFrame on such a
   frame therefore decodes exactly the supplied bytes; in particular supplied bytes that begin with
   the start code are refused with RDM_WRONG_SUB_START_CODE. *)
Theorem c05_frame_prepend : forall raw rq,
  mk_frame true raw = START_CODE :: raw /\ mk_frame false raw = raw /\
  reply_of_raw true rq raw =
    match raw with [] => Reject RDM_INVALID_RESPONSE | _ => inflate_response rq raw end /\
  reply_of_raw false rq raw =
    match raw with _ :: (_ :: _) as body => inflate_response rq body | _ => Reject RDM_INVALID_RESPONSE end /\
  (forall rest, raw = START_CODE :: rest -> 23 <= len raw ->
     reply_of_raw true rq raw = Reject RDM_WRONG_SUB_START_CODE).
Proof.
  intros raw rq. destruct (mk_frame_spec raw) as [A B].
  split; [exact A|]. split; [exact B|].
  split; [exact (reply_of_raw_prepend rq raw)|].
  split; [exact (reply_of_raw_noprepend rq raw)|].
  intros rest E Hl. subst raw. exact (reply_of_raw_prepend_cc rq rest Hl).
Qed.
Print Assumptions c05_frame_prepend.

(* RDMReply::FromFrame accepts a frame only if the bytes after the (unchecked, skipped) start code
   are accepted by RDMResponse::InflateFromData — so c05_accept's conditions hold for them — and a
   frame built with prepend_start_code is accepted only if the SUPPLIED bytes begin with the
   sub-start code. *)
Theorem c05_frame_accept : forall fr raw rq c,
  (from_frame rq fr = Ok c -> exists s body, fr = s :: body /\ inflate_response rq body = Ok c) /\
  (bytes_ok raw = true -> len raw < 2^32 -> reply_of_raw true rq raw = Ok c ->
   inflate_response rq raw = Ok c /\ rd raw 0 = Some SUB_START_CODE).
Proof.
  intros fr raw rq c. split.
  - exact (from_frame_ok rq fr c).
  - intros Hb Hl. change (2^32) with 4294967296 in Hl. exact (reply_of_raw_prepend_ok rq raw c Hb Hl).
Qed.
Print Assumptions c05_frame_accept.

(* The round trip, stated for each decoder entry point separately: every constructible command (any
   UIDs, transaction number, port id / response type, message count, sub-device, ANY PID, 0-231
   parameter bytes) serialises (Pack; PackWithStartCode gives the same bytes behind a start code)
   to a frame that decodes to exactly the same command through EVERY entry point that handles its
   class: RDMRequest::InflateFromData and RDMCommand::Inflate for GET/SET/DISCOVER requests,
   additionally RDMDiscoveryRequest::InflateFromData for DISCOVER requests;
   RDMDiscoveryResponse::InflateFromData and Inflate for DISCOVER responses (any response type);
   RDMResponse::InflateFromData, RDMReply::FromFrame (frame given with its start code, or built by
   RDMFrame with prepend_start_code) and Inflate for responses with a legal response type. *)
Theorem c05_roundtrip_all_entry_points : forall c,
  wf_cmd c = true ->
  exists bs, pack c = Some bs /\ len bs = 25 + len (c_data c) /\
    pack_with_start_code default_opts [] c = (true, START_CODE :: bs) /\
    (c_cc c = GET_COMMAND \/ c_cc c = SET_COMMAND ->
       inflate_request bs = Ok c /\ inflate bs = Ok c) /\
    (c_cc c = DISCOVER_COMMAND ->
       inflate_request bs = Ok c /\ inflate_disc_request bs = Ok c /\ inflate bs = Ok c) /\
    (c_cc c = DISCOVER_COMMAND_RESPONSE ->
       inflate_disc_response bs = Ok c /\ inflate bs = Ok c) /\
    (c_cc c = GET_COMMAND_RESPONSE \/ c_cc c = SET_COMMAND_RESPONSE \/ c_cc c = DISCOVER_COMMAND_RESPONSE ->
     c_port c <= ACK_OVERFLOW ->
       inflate_response None bs = Ok c /\ from_frame None (START_CODE :: bs) = Ok c /\
       reply_of_raw true None bs = Ok c /\ inflate bs = Ok c).
Proof. exact roundtrip_all_entry_points. Qed.
Print Assumptions c05_roundtrip_all_entry_points.

(* ... and what every entry point does with the serialised form of ANY constructible command: the
   decision depends on the command class (and, for RDMResponse::InflateFromData, the response type)
   only — never on the PID or the parameter length. *)
Theorem c05_entry_point_class : forall c,
  wf_cmd c = true ->
  exists bs, pack c = Some bs /\ len bs = 25 + len (c_data c) /\
    inflate_request bs = (if is_request_cc (c_cc c) then Ok c else Reject NOSTATUS) /\
    inflate_disc_request bs = (if c_cc c =? DISCOVER_COMMAND then Ok c else Reject NOSTATUS) /\
    inflate_disc_response bs = (if c_cc c =? DISCOVER_COMMAND_RESPONSE then Ok c else Reject NOSTATUS) /\
    inflate_response None bs =
      (if ACK_OVERFLOW <? c_port c then Reject RDM_INVALID_RESPONSE_TYPE
       else if is_response_cc (c_cc c) then Ok c else Reject RDM_INVALID_COMMAND_CLASS) /\
    (forall rq, from_frame rq (START_CODE :: bs) = inflate_response rq bs) /\
    (forall rq, reply_of_raw true rq bs = inflate_response rq bs) /\
    inflate bs =
      (if (c_cc c =? GET_COMMAND) || (c_cc c =? SET_COMMAND) || (c_cc c =? DISCOVER_COMMAND) ||
          (c_cc c =? DISCOVER_COMMAND_RESPONSE) then Ok c
       else if (c_cc c =? GET_COMMAND_RESPONSE) || (c_cc c =? SET_COMMAND_RESPONSE) then
         (if ACK_OVERFLOW <? c_port c then Reject RDM_INVALID_RESPONSE_TYPE else Ok c)
       else Reject NOSTATUS).
Proof. exact roundtrip_entry_points. Qed.
Print Assumptions c05_entry_point_class.

(* A response built for a request by GetResponseWithPid (hence GetResponseFromData, which passes the
   request's PID) with a legal response type and 0-231 parameter bytes serialises to a frame that is
   matched to that very request by RDMResponse::InflateFromData and by RDMReply::FromFrame. *)
Theorem c05_built_response_matches : forall rq pid data type mc r,
  wf_cmd rq = true -> pid < 65536 -> type <= ACK_OVERFLOW -> mc < 256 ->
  bytes_ok data = true -> len data <= MAX_PARAM_DATA_LENGTH ->
  response_with_pid rq pid data type mc = Some r ->
  exists bs, pack r = Some bs /\ inflate_response (Some rq) bs = Ok r /\
             from_frame (Some rq) (START_CODE :: bs) = Ok r /\
             reply_of_raw true (Some rq) bs = Ok r.
Proof. exact built_response_matches. Qed.
Print Assumptions c05_built_response_matches.

(* NackWithReason(request, reason): a NACK_REASON response carrying the 16-bit reason big-endian,
   for the request's PID, matched to the request. *)
Theorem c05_nack_matches : forall rq reason mc r,
  wf_cmd rq = true -> mc < 256 ->
  nack_request rq reason mc = Some r ->
  c_port r = RDM_NACK_REASON /\ c_data r = be_bytes 2 (u16 reason) /\ c_pid r = c_pid rq /\
  exists bs, pack r = Some bs /\ inflate_response (Some rq) bs = Ok r.
Proof. exact nack_request_matches. Qed.
Print Assumptions c05_nack_matches.

(* The three standard discovery requests (NewDiscoveryUniqueBranchRequest, NewMuteRequest,
   NewUnMuteRequest; PIDs 1, 2, 3 with 12 / 0 / 0 parameter bytes) serialise to frames that decode to
   the same command through RDMCommand::Inflate, RDMRequest::InflateFromData and
   RDMDiscoveryRequest::InflateFromData. *)
Theorem c05_discovery_builders_roundtrip : forall src dst lower upper tn port c,
  src < 2^48 -> dst < 2^48 -> tn < 256 -> port < 256 ->
  c = new_dub src lower upper tn port \/ c = new_mute src dst tn port \/ c = new_unmute src dst tn port ->
  exists bs, pack c = Some bs /\
    inflate bs = Ok c /\ inflate_request bs = Ok c /\ inflate_disc_request bs = Ok c.
Proof. exact new_disc_roundtrip. Qed.
Print Assumptions c05_discovery_builders_roundtrip.

(* ---- proof-extension round ------------------------------------------------------------------ *)

(* Every constant the model, the proofs or the harness rely on, regenerated from the /repo headers by
   the compiler on every run (Gen.v), pinned to the values of E1.20 / the property text: the packed
   header's field offsets and sizes (which tile the 23 header bytes without gaps), command classes,
   response types, discovery PIDs, special UIDs / sub-devices, the size limits, and the status codes
   (pairwise distinct, so "the specific mismatch status" identifies the failing check). *)
Theorem c05_consts :
  [ (OFF_sub_start_code, SIZE_sub_start_code); (OFF_message_length, SIZE_message_length);
    (OFF_destination_uid, SIZE_destination_uid); (OFF_source_uid, SIZE_source_uid);
    (OFF_transaction_number, SIZE_transaction_number); (OFF_port_id, SIZE_port_id);
    (OFF_message_count, SIZE_message_count); (OFF_sub_device, SIZE_sub_device);
    (OFF_command_class, SIZE_command_class); (OFF_param_id, SIZE_param_id);
    (OFF_param_data_length, SIZE_param_data_length) ] =
  [ (0, 1); (1, 1); (2, 6); (8, 6); (14, 1); (15, 1); (16, 1); (17, 2); (19, 1); (20, 2); (22, 1) ] /\
  (HEADER_SIZE, CHECKSUM_LENGTH, MAX_PARAM_DATA_LENGTH, MAX_OVERFLOW_SIZE, UID_SIZE) = (23, 2, 231, 4096, 6) /\
  (DISCOVER_COMMAND, DISCOVER_COMMAND_RESPONSE, GET_COMMAND, GET_COMMAND_RESPONSE, SET_COMMAND,
   SET_COMMAND_RESPONSE, INVALID_COMMAND) = (0x10, 0x11, 0x20, 0x21, 0x30, 0x31, 0xff) /\
  (START_CODE, SUB_START_CODE, RDM_ACK, RDM_NACK_REASON, ACK_OVERFLOW) = (0xcc, 1, 0, 2, 3) /\
  (PID_DISC_UNIQUE_BRANCH, PID_DISC_MUTE, PID_DISC_UN_MUTE, PID_QUEUED_MESSAGE) = (1, 2, 3, 0x20) /\
  (ALL_DEVICES_UID, ALL_RDM_SUBDEVICES, ROOT_RDM_DEVICE) = (2^48 - 1, 0xffff, 0) /\
  pairwise_distinct
    [ RDM_COMPLETED_OK; RDM_INVALID_RESPONSE; RDM_CHECKSUM_INCORRECT; RDM_TRANSACTION_MISMATCH;
      RDM_SUB_DEVICE_MISMATCH; RDM_SRC_UID_MISMATCH; RDM_DEST_UID_MISMATCH; RDM_WRONG_SUB_START_CODE;
      RDM_PACKET_TOO_SHORT; RDM_PACKET_LENGTH_MISMATCH; RDM_PARAM_LENGTH_MISMATCH;
      RDM_INVALID_COMMAND_CLASS; RDM_COMMAND_CLASS_MISMATCH; RDM_INVALID_RESPONSE_TYPE;
      RDM_DUB_RESPONSE; NOSTATUS ] = true.
Proof. repeat split; reflexivity. Qed.
Print Assumptions c05_consts.

(* the acceptance condition of the property text, written out *)
Theorem c05_accept_cond_def : forall bs,
  accept_cond bs <->
  exists ml pdl hi lo,
    rd bs 0 = Some 1 /\ rd bs 1 = Some ml /\ rd bs 22 = Some pdl /\
    24 <= ml /\ ml + 1 <= len bs /\ 23 + pdl + 2 <= len bs /\
    rd bs (ml - 1) = Some hi /\ rd bs ml = Some lo /\
    hi * 256 + lo = (204 + sum_bytes (take (ml - 1) bs)) mod 65536.
Proof. intros bs. reflexivity. Qed.
Print Assumptions c05_accept_cond_def.

(* EXACT acceptance, per entry point (c05_accept gave only the "only if" half): a byte string is
   accepted and yields c if and only if the acceptance condition holds, c is the command laid out in
   the header (c05_decode_layout) and the command class (and, for RDMResponse::InflateFromData, the
   response type and the request, for every request/response pair) is one the entry point handles. *)
Theorem c05_accept_iff : forall bs c,
  bytes_ok bs = true -> len bs < 2^32 ->
  (verify bs = VOk <-> accept_cond bs) /\
  (accept_cond bs -> exists c', fields bs = Some c') /\
  (inflate_request bs = Ok c <->
     accept_cond bs /\ fields bs = Some c /\ is_request_cc (c_cc c) = true) /\
  (inflate_disc_request bs = Ok c <->
     accept_cond bs /\ fields bs = Some c /\ c_cc c = DISCOVER_COMMAND) /\
  (inflate_disc_response bs = Ok c <->
     accept_cond bs /\ fields bs = Some c /\ c_cc c = DISCOVER_COMMAND_RESPONSE) /\
  (inflate_response None bs = Ok c <->
     accept_cond bs /\ fields bs = Some c /\ c_port c <= ACK_OVERFLOW /\ is_response_cc (c_cc c) = true) /\
  (forall rq, inflate_response (Some rq) bs = Ok c <->
     inflate_response None bs = Ok c /\ corresponds rq c) /\
  (inflate bs = Ok c <->
     accept_cond bs /\ fields bs = Some c /\
     (is_request_cc (c_cc c) = true \/ c_cc c = DISCOVER_COMMAND_RESPONSE \/
      ((c_cc c = GET_COMMAND_RESPONSE \/ c_cc c = SET_COMMAND_RESPONSE) /\ c_port c <= ACK_OVERFLOW))).
Proof.
  intros bs c Hb Hl. change (2^32) with 4294967296 in Hl.
  split; [exact (verify_iff bs Hb Hl)|].
  split; [exact (accept_cond_fields bs Hb Hl)|].
  split; [exact (request_iff bs Hb Hl c)|].
  split; [exact (disc_request_iff bs Hb Hl c)|].
  split; [exact (disc_response_iff bs Hb Hl c)|].
  split; [exact (response_iff bs Hb Hl c)|].
  split; [intros rq; exact (match_iff bs Hb Hl rq c)|].
  exact (inflate_iff bs Hb Hl c).
Qed.
Print Assumptions c05_accept_iff.

(* A response is matched to a request, for every request/response pair, exactly when it is acceptable
   on its own and destination/source UIDs, transaction number, sub-device (with the ALL_RDM_SUBDEVICES
   and QUEUED_MESSAGE exemptions) and command class (GET with the QUEUED_MESSAGE exemption, SET,
   DISCOVER) correspond; `corresponds` is written out. *)
Theorem c05_match_iff : forall rq bs c,
  bytes_ok bs = true -> len bs < 2^32 ->
  (inflate_response (Some rq) bs = Ok c <->
   inflate_response None bs = Ok c /\
   c_dst c = c_src rq /\ c_src c = c_dst rq /\ c_tn c = c_tn rq /\
   (c_sub c = c_sub rq \/ c_sub rq = ALL_RDM_SUBDEVICES \/ c_pid rq = PID_QUEUED_MESSAGE) /\
   (c_cc rq = GET_COMMAND -> c_cc c = GET_COMMAND_RESPONSE \/ c_pid rq = PID_QUEUED_MESSAGE) /\
   (c_cc rq = SET_COMMAND -> c_cc c = SET_COMMAND_RESPONSE) /\
   (c_cc rq = DISCOVER_COMMAND -> c_cc c = DISCOVER_COMMAND_RESPONSE)).
Proof.
  intros rq bs c Hb Hl. change (2^32) with 4294967296 in Hl. exact (match_iff bs Hb Hl rq c).
Qed.
Print Assumptions c05_match_iff.

(* The decoded command, whichever entry point accepted the bytes, is exactly the big-endian content of
   the header fields at the compiler's offsets/sizes plus the parameter-length bytes that follow the
   header. *)
Theorem c05_decode_layout : forall bs rq c,
  inflate bs = Ok c \/ inflate_request bs = Ok c \/ inflate_disc_request bs = Ok c \/
  inflate_disc_response bs = Ok c \/ inflate_response rq bs = Ok c ->
  c_dst c = be_val (take SIZE_destination_uid (drop OFF_destination_uid bs)) /\
  c_src c = be_val (take SIZE_source_uid (drop OFF_source_uid bs)) /\
  rd bs OFF_transaction_number = Some (c_tn c) /\
  rd bs OFF_port_id = Some (c_port c) /\
  rd bs OFF_message_count = Some (c_mc c) /\
  c_sub c = be_val (take SIZE_sub_device (drop OFF_sub_device bs)) /\
  rd bs OFF_command_class = Some (c_cc c) /\
  c_pid c = be_val (take SIZE_param_id (drop OFF_param_id bs)) /\
  exists pdl, rd bs OFF_param_data_length = Some pdl /\ c_data c = take pdl (drop HEADER_SIZE bs).
Proof. exact decode_layout. Qed.
Print Assumptions c05_decode_layout.

(* Canonical frames re-serialise to the same bytes whichever entry point accepted them (c05_canonical
   covered RDMCommand::Inflate only), including RDMReply::FromFrame (frame = start code + message). *)
Theorem c05_canonical_all_entry_points : forall bs rq c,
  bytes_ok bs = true -> len bs < 2^32 ->
  ((inflate bs = Ok c \/ inflate_request bs = Ok c \/ inflate_disc_request bs = Ok c \/
    inflate_disc_response bs = Ok c \/ inflate_response rq bs = Ok c) ->
   (forall ml pdl, rd bs 1 = Some ml -> rd bs 22 = Some pdl -> ml = 24 + pdl /\ len bs = ml + 1) ->
   pack c = Some bs) /\
  (from_frame rq bs = Ok c ->
   (forall ml pdl, rd bs 2 = Some ml -> rd bs 23 = Some pdl -> ml = 24 + pdl /\ len bs = ml + 2) ->
   exists s body, bs = s :: body /\ pack c = Some body).
Proof.
  intros bs rq c Hb Hl. change (2^32) with 4294967296 in Hl. split.
  - exact (canonical_any bs Hb Hl rq c).
  - exact (canonical_frame bs rq c Hb Hl).
Qed.
Print Assumptions c05_canonical_all_entry_points.

(* RDMRequest::OverrideOptions: a sub-start code override other than SUB_START_CODE makes every decoder
   refuse the serialised request with RDM_WRONG_SUB_START_CODE (whatever the other overrides); a
   checksum override different from the additive checksum gives RDM_CHECKSUM_INCORRECT; overrides that
   restate the default values serialise to the same bytes as no override.
   (Message-length overrides other than the default value are not characterised.) *)
Theorem c05_override_options : forall o c,
  (forall bs rq, o_ssc o <> SUB_START_CODE -> pack_o o c = Some bs ->
     inflate_request bs = Reject RDM_WRONG_SUB_START_CODE /\
     inflate_disc_request bs = Reject RDM_WRONG_SUB_START_CODE /\
     inflate_disc_response bs = Reject RDM_WRONG_SUB_START_CODE /\
     inflate_response rq bs = Reject RDM_WRONG_SUB_START_CODE) /\
  (forall bs rq k, wf_cmd c = true -> o_ssc o = SUB_START_CODE -> o_ml o = None -> o_ck o = Some k ->
     k < 65536 -> k <> u16 (START_CODE + sum_bytes (header default_opts c ++ c_data c)) ->
     pack_o o c = Some bs ->
     inflate_request bs = Reject RDM_CHECKSUM_INCORRECT /\
     inflate_disc_request bs = Reject RDM_CHECKSUM_INCORRECT /\
     inflate_disc_response bs = Reject RDM_CHECKSUM_INCORRECT /\
     inflate_response rq bs = Reject RDM_CHECKSUM_INCORRECT) /\
  (o_ssc o = SUB_START_CODE ->
   (o_ml o = None \/ o_ml o = Some (u8 (HEADER_SIZE + len (c_data c) + 1))) ->
   (o_ck o = None \/ o_ck o = Some (u16 (START_CODE + sum_bytes (header default_opts c ++ c_data c)))) ->
   pack_o o c = pack c).
Proof.
  intros o c. split; [|split].
  - intros bs rq Hs Hp. exact (verify_reject_all bs _ rq (pack_o_ssc o c bs Hs Hp)).
  - intros bs rq k Hwf Hs Hm Hk Hk16 Hne Hp.
    exact (verify_reject_all bs _ rq (pack_o_bad_checksum o c k bs Hwf Hs Hm Hk Hk16 Hne Hp)).
  - exact (pack_o_default_equiv o c).
Qed.
Print Assumptions c05_override_options.

(* RDMResponse::CombineResponses: only two GET or two SET responses from the same source combine,
   into an ACK carrying both parameter blocks in order with the second part's message count; more
   than MAX_OVERFLOW_SIZE bytes are refused; when the combined data fits one frame the result is a
   constructible response and round-trips. *)
Theorem c05_combine_responses : forall r1 r2,
  (forall r, combine_responses r1 r2 = Some r ->
     c_src r1 = c_src r2 /\
     ((c_cc r1 = GET_COMMAND_RESPONSE /\ c_cc r2 = GET_COMMAND_RESPONSE) \/
      (c_cc r1 = SET_COMMAND_RESPONSE /\ c_cc r2 = SET_COMMAND_RESPONSE)) /\
     c_data r = c_data r1 ++ c_data r2 /\ c_cc r = c_cc r1 /\ c_port r = RDM_ACK /\ c_mc r = c_mc r2 /\
     c_src r = c_src r1 /\ c_dst r = c_dst r1 /\ c_tn r = c_tn r1 /\ c_sub r = c_sub r1 /\ c_pid r = c_pid r1) /\
  (MAX_OVERFLOW_SIZE < len (c_data r1) + len (c_data r2) -> len (c_data r1) + len (c_data r2) < 2^32 ->
     combine_responses r1 r2 = None) /\
  (forall r, wf_cmd r1 = true -> wf_cmd r2 = true ->
     len (c_data r1) + len (c_data r2) <= MAX_PARAM_DATA_LENGTH ->
     combine_responses r1 r2 = Some r ->
     exists bs, pack r = Some bs /\ inflate_response None bs = Ok r /\ inflate bs = Ok r).
Proof.
  intros r1 r2. split; [|split].
  - intros r. exact (combine_spec r1 r2 r).
  - intros H Hl. change (2^32) with 4294967296 in Hl. exact (combine_too_long r1 r2 H Hl).
  - intros r. exact (combine_roundtrip r1 r2 r).
Qed.
Print Assumptions c05_combine_responses.

(* RDMFrame / RDMReply bookkeeping: the constructors zero the four timing words; RDMReply::FromFrame
   and DUBReply store exactly the frame they were given (data and timing untouched by the codec), the
   decode result depends on the frame data only; RDMFrame::operator== is reflexive. *)
Theorem c05_reply_keeps_frame : forall rq fr prepend raw,
  snd (reply_from_frame rq fr) = [fr] /\ fst (reply_from_frame rq fr) = from_frame rq (f_data fr) /\
  snd (dub_reply fr) = [fr] /\ fst (dub_reply fr) = RDM_DUB_RESPONSE /\
  f_data (new_frame prepend raw) = mk_frame prepend raw /\ f_timing (new_frame prepend raw) = (0, 0, 0, 0) /\
  frame_eq fr fr = true.
Proof.
  intros rq fr prepend raw. destruct (reply_keeps_frame rq fr) as (A & B & C & D).
  destruct (new_frame_spec prepend raw) as [E F].
  repeat split; try assumption. exact (frame_eq_refl fr).
Qed.
Print Assumptions c05_reply_keeps_frame.

(* ---- third extension round ------------------------------------------------------------------ *)

(* RequiredSize, Pack(command, buffer, size) and Write(command, IOStack) -- each modelled on its own in
   Ser.v with the uint16_t checksum accumulation of the C++ -- produce, for every command and every
   OverrideOptions, exactly the bytes of Pack(command, ByteString): the buffer variant refuses iff
   the buffer is too small (else reports the bytes used), the IOStack variant puts the frame in front
   of what the stack already holds, RequiredSize is the frame length (0 = does not serialise).  Hence
   every round-trip / acceptance theorem about `pack` holds for the output of each serialiser. *)
Theorem c05_serialisers_agree : forall o c size stack,
  required_size c = (match pack_o o c with Some b => len b | None => 0 end) /\
  pack_buffer o c size =
    (match pack_o o c with
     | Some b => if size <? len b then None else Some (b, len b)
     | None => None end) /\
  write_iostack o c stack =
    (match pack_o o c with Some b => (true, b ++ stack) | None => (false, stack) end) /\
  (forall l s, s < 65536 -> cksum16 s l = (s + sum_bytes l) mod 65536).
Proof.
  intros o c size stack.
  split; [exact (required_size_pack o c)|].
  split; [exact (pack_buffer_spec o c size)|].
  split; [exact (write_iostack_spec o c stack)|].
  intros l s Hs. exact (cksum16_u16 l s Hs).
Qed.
Print Assumptions c05_serialisers_agree.

(* RDMRequest::OverrideOptions::SetMessageLength(m), for EVERY m (default sub-start code, any
   checksum option): the header fields and parameter data still decode to c; a message length below
   24 or beyond the checksum position (24 + parameter length) makes every decoder report
   RDM_PACKET_LENGTH_MISMATCH; in between, the decoders compare the two bytes at m-1, m with the
   additive checksum of the first m-1 bytes: RDM_CHECKSUM_INCORRECT unless they happen to agree, in
   which case the request is accepted as the very same command c (m = 24 + parameter length with the
   default checksum is the ordinary frame, c05_override_options). *)
Theorem c05_override_message_length : forall o c m bs rq,
  wf_cmd c = true -> o_ssc o = SUB_START_CODE -> o_ml o = Some m -> m < 256 ->
  pack_o o c = Some bs ->
  fields bs = Some c /\
  (m < HEADER_SIZE + 1 \/ HEADER_SIZE + 1 + len (c_data c) < m ->
     inflate_request bs = Reject RDM_PACKET_LENGTH_MISMATCH /\
     inflate_disc_request bs = Reject RDM_PACKET_LENGTH_MISMATCH /\
     inflate_disc_response bs = Reject RDM_PACKET_LENGTH_MISMATCH /\
     inflate_response rq bs = Reject RDM_PACKET_LENGTH_MISMATCH) /\
  (HEADER_SIZE + 1 <= m <= HEADER_SIZE + 1 + len (c_data c) ->
     exists hi lo, rd bs (m - 1) = Some hi /\ rd bs m = Some lo /\
       if join16 hi lo =? u16 (START_CODE + sum_bytes (take (m - 1) bs))
       then inflate_request bs = (if is_request_cc (c_cc c) then Ok c else Reject NOSTATUS) /\
            inflate_disc_request bs = (if c_cc c =? DISCOVER_COMMAND then Ok c else Reject NOSTATUS)
       else inflate_request bs = Reject RDM_CHECKSUM_INCORRECT /\
            inflate_disc_request bs = Reject RDM_CHECKSUM_INCORRECT).
Proof. exact pack_o_ml_decoders. Qed.
Print Assumptions c05_override_message_length.

(* Constructors given a NULL data pointer (with fix 02 applied to RDMCommand::SetParamData): whatever
   length is claimed, the command holds an empty parameter block, is a constructible command and
   serialises to the 25-byte frame (so the round-trip theorems apply to it). *)
Theorem c05_null_param_data : forall c n,
  wf_cmd c = true ->
  set_param_data None n = [] /\
  wf_cmd (with_data c (set_param_data None n)) = true /\
  exists bs, pack (with_data c (set_param_data None n)) = Some bs /\ len bs = 25.
Proof. exact null_data_constructible. Qed.
Print Assumptions c05_null_param_data.

(* ---- fourth (short) proof round ------------------------------------------------------------- *)

(* The three equality operators.  RDMCommand::operator== ("decodes to an equal command") holds exactly
   when every field except the port id / response type agrees; RDMFrame::operator== exactly when the
   data and all four timing words agree; RDMReply::operator== exactly when the decode results agree
   (both rejected with the same status, or both accepted with ==-equal responses) and the frame lists
   are equal; two replies decoded by FromFrame (same request) are equal iff their frames are. *)
Theorem c05_equality_operators : forall (a b : cmd) (f g : frame) (x y : res * list frame) rq,
  (cmd_eq_cpp a b = true <->
     c_src a = c_src b /\ c_dst a = c_dst b /\ c_tn a = c_tn b /\ c_mc a = c_mc b /\ c_sub a = c_sub b /\
     c_cc a = c_cc b /\ c_pid a = c_pid b /\ c_data a = c_data b) /\
  (frame_eq f g = true <-> f = g) /\
  (reply_eq x y = true <-> res_eq (fst x) (fst y) = true /\ snd x = snd y) /\
  (reply_eq (reply_from_frame rq f) (reply_from_frame rq g) = true <-> f = g).
Proof.
  intros a b f g x y rq.
  split; [exact (cmd_eq_cpp_iff a b)|]. split; [exact (frame_eq_iff f g)|].
  split; [exact (reply_eq_iff x y)|exact (reply_from_frame_eq rq f g)].
Qed.
Print Assumptions c05_equality_operators.

(* NackWithReason(response, reason): for every constructible response the result is a constructible
   NACK_REASON response with the 16-bit reason big-endian, which round-trips through
   RDMResponse::InflateFromData (pointer and ByteString overloads) and is matched to every request
   the original response corresponded to. *)
Theorem c05_nack_response : forall r reason,
  wf_cmd r = true -> is_response_cc (c_cc r) = true ->
  let n := nack_response r reason in
  c_port n = RDM_NACK_REASON /\ c_data n = be_bytes 2 (u16 reason) /\
  exists bs, pack n = Some bs /\ inflate_response None bs = Ok n /\ inflate_response_bs None bs = Ok n /\
    forall rq, corresponds rq r -> inflate_response (Some rq) bs = Ok n.
Proof. exact nack_response_roundtrip. Qed.
Print Assumptions c05_nack_response.

(* Duplicate() is the identity on (override options, fields), so it serialises identically; the
   setters (SetSourceUID/SetTransactionNumber/SetPortId, SetDestinationUID/SetTransactionNumber)
   keep a command constructible, so every round-trip theorem applies to the modified command; the
   ByteString overload of RDMResponse::InflateFromData is the pointer version on data()/size(). *)
Theorem c05_duplicate_setters : forall oc c src dst tn port rq bs,
  duplicate oc = oc /\
  (wf_cmd c = true -> src < 2^48 -> tn < 256 -> port < 256 -> wf_cmd (set_request c src tn port) = true) /\
  (wf_cmd c = true -> dst < 2^48 -> tn < 256 -> wf_cmd (set_response c dst tn) = true) /\
  inflate_response_bs rq bs = inflate_response rq bs.
Proof.
  intros oc c src dst tn port rq bs.
  split; [exact (proj1 (duplicate_id oc))|].
  split; [exact (set_request_wf c src tn port)|].
  split; [exact (set_response_wf c dst tn)|reflexivity].
Qed.
Print Assumptions c05_duplicate_setters.

(* ---- non-vacuity: concrete instances meeting the hypotheses *)
Definition ex_cmd : cmd :=
  {| c_dst := 0x7a7000000001; c_src := 0x00010000002a; c_tn := 7; c_port := 1; c_mc := 0;
     c_sub := 3; c_cc := 32; c_pid := 0x00f0; c_data := [1; 2; 255] |}.
Example ex_wf : wf_rt ex_cmd = true. Proof. reflexivity. Qed.
Example ex_roundtrip :
  match pack ex_cmd with Some bs => inflate bs = Ok ex_cmd /\ len bs = 28 | None => False end.
Proof. vm_compute. split; reflexivity. Qed.
(* a rejected and an accepted frame exist; a too-small message length is rejected, not read *)
Example ex_reject_ml0 : inflate (1 :: 0 :: repeat 0 17 ++ [32; 0; 0; 0]) = Reject RDM_PACKET_LENGTH_MISMATCH.
Proof. vm_compute. reflexivity. Qed.
Example ex_match_mismatch :
  match pack {| c_dst := 5; c_src := 9; c_tn := 1; c_port := 0; c_mc := 0; c_sub := 0; c_cc := 33;
                c_pid := 96; c_data := [] |} with
  | Some bs => inflate_response (Some {| c_dst := 9; c_src := 5; c_tn := 2; c_port := 1; c_mc := 0;
                 c_sub := 0; c_cc := 32; c_pid := 96; c_data := [] |}) bs = Reject RDM_TRANSACTION_MISMATCH
  | None => False end.
Proof. vm_compute. reflexivity. Qed.

(* round 2 examples: a DISCOVER request for DISC_MUTE with two parameter bytes (not the E1.20 size)
   round-trips through all three request entry points; supplied bytes beginning with 0xCC are not
   accepted through a prepend_start_code frame, the same bytes without the leading 0xCC are. *)
Definition ex_disc : cmd :=
  {| c_dst := 0x7a7000000001; c_src := 0x00010000002a; c_tn := 9; c_port := 1; c_mc := 0;
     c_sub := 0; c_cc := 16; c_pid := 2; c_data := [7; 8] |}.
Example ex_disc_wf : wf_cmd ex_disc = true. Proof. reflexivity. Qed.
Example ex_disc_rt :
  match pack ex_disc with
  | Some bs => inflate bs = Ok ex_disc /\ inflate_request bs = Ok ex_disc /\ inflate_disc_request bs = Ok ex_disc
  | None => False end.
Proof. vm_compute. repeat split; reflexivity. Qed.
Definition ex_resp : cmd :=
  {| c_dst := 0x00010000002a; c_src := 0x7a7000000001; c_tn := 9; c_port := 0; c_mc := 0;
     c_sub := 0; c_cc := 33; c_pid := 0x00f0; c_data := [1] |}.
Example ex_frame_cc :
  match pack ex_resp with
  | Some bs => reply_of_raw true None bs = Ok ex_resp /\
               reply_of_raw true None (START_CODE :: bs) = Reject RDM_WRONG_SUB_START_CODE /\
               reply_of_raw false None (START_CODE :: bs) = Ok ex_resp
  | None => False end.
Proof. vm_compute. repeat split; reflexivity. Qed.
Example ex_built :
  response_from_data {| c_dst := 0x7a7000000001; c_src := 0x00010000002a; c_tn := 9; c_port := 1; c_mc := 0;
     c_sub := 0; c_cc := 32; c_pid := 0x00f0; c_data := [] |} [1] RDM_ACK 0 = Some ex_resp.
Proof. reflexivity. Qed.

(* proof-extension round examples *)
Example ex_accept_cond :
  match pack ex_resp with Some bs => verify bs = VOk /\ fields bs = Some ex_resp | None => False end.
Proof. vm_compute. split; reflexivity. Qed.
Example ex_match_iff :
  match pack ex_resp with
  | Some bs => inflate_response (Some {| c_dst := 0x7a7000000001; c_src := 0x00010000002a; c_tn := 9; c_port := 1;
                 c_mc := 0; c_sub := 0; c_cc := 32; c_pid := 0x00f0; c_data := [] |}) bs = Ok ex_resp
  | None => False end.
Proof. vm_compute. reflexivity. Qed.
Example ex_override_ssc :
  match pack_o {| o_ssc := 0xcc; o_ml := None; o_ck := None |} ex_cmd with
  | Some bs => inflate bs = Reject RDM_WRONG_SUB_START_CODE | None => False end.
Proof. vm_compute. reflexivity. Qed.
Example ex_override_ck :
  match pack_o {| o_ssc := 1; o_ml := None; o_ck := Some 0 |} ex_cmd with
  | Some bs => inflate bs = Reject RDM_CHECKSUM_INCORRECT | None => False end.
Proof. vm_compute. reflexivity. Qed.
Example ex_combine :
  combine_responses ex_resp ex_resp =
  Some {| c_dst := 0x00010000002a; c_src := 0x7a7000000001; c_tn := 9; c_port := 0; c_mc := 0;
          c_sub := 0; c_cc := 33; c_pid := 0x00f0; c_data := [1; 1] |}.
Proof. reflexivity. Qed.

(* third extension round examples *)
Example ex_write_iostack :
  match pack ex_cmd with
  | Some bs => write_iostack default_opts ex_cmd [170] = (true, bs ++ [170]) /\
               pack_buffer default_opts ex_cmd 28 = Some (bs, 28) /\ pack_buffer default_opts ex_cmd 27 = None
  | None => False end.
Proof. vm_compute. repeat split; reflexivity. Qed.
Example ex_override_ml :
  match pack_o {| o_ssc := 1; o_ml := Some 23; o_ck := None |} ex_cmd,
        pack_o {| o_ssc := 1; o_ml := Some 25; o_ck := None |} ex_cmd with
  | Some a, Some b => inflate a = Reject RDM_PACKET_LENGTH_MISMATCH /\ inflate b = Reject RDM_CHECKSUM_INCORRECT
  | _, _ => False end.
Proof. vm_compute. split; reflexivity. Qed.

(* fourth round examples *)
Example ex_frame_neq :
  frame_eq {| f_data := [204; 1]; f_timing := (1, 2, 3, 4) |} {| f_data := [204; 1]; f_timing := (1, 2, 3, 5) |} = false /\
  frame_eq {| f_data := [204; 1]; f_timing := (1, 2, 3, 4) |} {| f_data := [204; 1]; f_timing := (1, 2, 3, 4) |} = true.
Proof. split; reflexivity. Qed.
Example ex_nack_response : wf_cmd ex_resp = true /\ is_response_cc (c_cc ex_resp) = true /\
  c_data (nack_response ex_resp 5) = [0; 5].
Proof. repeat split. Qed.
