(* C05 — equality operators (RDMCommand / RDMFrame / RDMReply operator==) characterised, and the
   remaining small entry points (NackWithReason(response), Duplicate, setters, ByteString overload). *)
From OlaBase Require Import Bytes.
From C05 Require Import Gen Model Proofs Ext Proofs2 Proofs3.
From Coq Require Import ZifyBool ZifyN ZifyNat.
Local Open Scope N_scope.

Lemma pairs_eqb_iff (a b : list N) :
  length a = length b ->
  (forallb (fun p => fst p =? snd p) (combine a b) = true <-> a = b).
Proof.
  revert b. induction a as [|x a IH]; intros [|y b] Hl; try discriminate.
  - split; reflexivity.
  - cbn [combine forallb fst snd]. injection Hl as Hl. rewrite andb_true_iff, (IH b Hl). split.
    + intros [E1 E2]. f_equal; [lia|exact E2].
    + intros E. injection E as E1 E2. split; [lia|exact E2].
Qed.

Lemma list_eqb_iff a b : list_eqb a b = true <-> a = b.
Proof.
  unfold list_eqb. rewrite andb_true_iff. split.
  - intros [Hl H]. assert (L : length a = length b) by (unfold len in Hl; lia).
    apply (pairs_eqb_iff a b L). exact H.
  - intros E. subst b. split; [apply N.eqb_refl|]. apply (pairs_eqb_iff a a eq_refl). reflexivity.
Qed.

(* RDMFrame::operator== holds exactly for frames with the same data and the same four timing words *)
Lemma frame_eq_iff a b : frame_eq a b = true <-> a = b.
Proof.
  destruct a as [da [[[a1 a2] a3] a4]], b as [db [[[b1 b2] b3] b4]].
  unfold frame_eq. cbn [f_data f_timing]. rewrite !andb_true_iff, list_eqb_iff. split.
  - intros [[[[E E1] E2] E3] E4]. subst db. f_equal. repeat f_equal; lia.
  - intros E. inversion E; subst. rewrite !N.eqb_refl. auto.
Qed.

(* RDMCommand::operator==: every field except the port id / response type *)
Lemma cmd_eq_cpp_iff a b :
  cmd_eq_cpp a b = true <->
  c_src a = c_src b /\ c_dst a = c_dst b /\ c_tn a = c_tn b /\ c_mc a = c_mc b /\ c_sub a = c_sub b /\
  c_cc a = c_cc b /\ c_pid a = c_pid b /\ c_data a = c_data b.
Proof.
  unfold cmd_eq_cpp. rewrite !andb_true_iff.
  pose proof (list_eqb_iff (c_data a) (c_data b)) as L. unfold list_eqb in L. rewrite andb_true_iff in L.
  split.
  - intros [[[[[[[[E1 E2] E3] E4] E5] E6] E7] E8] E9]. repeat split; try lia. apply L. split; assumption.
  - intros (E1 & E2 & E3 & E4 & E5 & E6 & E7 & E8). apply L in E8. destruct E8 as [E8 E9].
    repeat split; try lia; assumption.
Qed.

(* ---- RDMReply::operator== : status code, ResponsesAreEqual, frames *)
Definition res_eq (a b : res) : bool :=
  match a, b with
  | Ok x, Ok y => cmd_eq_cpp x y          (* both RDM_COMPLETED_OK with a response *)
  | Reject s, Reject t => s =? t          (* both without a response *)
  | Oob, Oob => true
  | _, _ => false
  end.
Fixpoint frames_eq (a b : list frame) : bool :=
  match a, b with
  | [], [] => true
  | x :: a', y :: b' => frame_eq x y && frames_eq a' b'
  | _, _ => false
  end.
Definition reply_eq (a b : res * list frame) : bool :=
  res_eq (fst a) (fst b) && frames_eq (snd a) (snd b).

Lemma frames_eq_iff a b : frames_eq a b = true <-> a = b.
Proof.
  revert b. induction a as [|x a IH]; intros [|y b]; cbn [frames_eq]; try (split; discriminate).
  - split; reflexivity.
  - rewrite andb_true_iff, frame_eq_iff, IH. split.
    + intros [E1 E2]. subst. reflexivity.
    + intros E. inversion E. auto.
Qed.

Lemma reply_eq_iff a b :
  reply_eq a b = true <-> res_eq (fst a) (fst b) = true /\ snd a = snd b.
Proof. unfold reply_eq. rewrite andb_true_iff, frames_eq_iff. reflexivity. Qed.

(* two replies decoded by FromFrame from the same frame are equal; from frames that differ, never *)
Lemma reply_from_frame_eq rq f g :
  reply_eq (reply_from_frame rq f) (reply_from_frame rq g) = true <-> f = g.
Proof.
  rewrite reply_eq_iff. cbn [reply_from_frame fst snd]. split.
  - intros [_ E]. inversion E. reflexivity.
  - intros E. subst g. split; [|reflexivity].
    destruct (from_frame rq (f_data f)); cbn [res_eq]; [reflexivity|apply N.eqb_refl|apply cmd_eq_cpp_refl].
Qed.

(* ---- RDMResponse::InflateFromData(const ByteString&, status, request): forwards data()/size() *)
Definition inflate_response_bs (rq : option cmd) (input : list N) : res := inflate_response rq input.

(* ---- NackWithReason(response, reason) *)
Lemma nack_response_wf r reason : wf_cmd r = true -> wf_cmd (nack_response r reason) = true.
Proof.
  intros Hwf. apply wf_cmd_spec in Hwf as (? & ? & ? & ? & ? & ? & ? & ? & ? & ?).
  unfold wf_cmd, nack_response. cbn [c_dst c_src c_tn c_port c_mc c_sub c_cc c_pid c_data].
  rewrite be_bytes_ok. unfold len. rewrite be_bytes_length. unfold RDM_NACK_REASON, MAX_PARAM_DATA_LENGTH.
  repeat (apply andb_true_intro; split); try reflexivity; lia.
Qed.

Lemma nack_response_roundtrip r reason :
  wf_cmd r = true -> is_response_cc (c_cc r) = true ->
  let n := nack_response r reason in
  c_port n = RDM_NACK_REASON /\ c_data n = be_bytes 2 (u16 reason) /\
  exists bs, pack n = Some bs /\ inflate_response None bs = Ok n /\ inflate_response_bs None bs = Ok n /\
    forall rq, corresponds rq r -> inflate_response (Some rq) bs = Ok n.
Proof.
  intros Hwf Hcc n. split; [reflexivity|]. split; [reflexivity|].
  pose proof (nack_response_wf r reason Hwf) as Hw. fold n in Hw.
  destruct (roundtrip_all_entry_points n Hw) as (bs & Hp & Hlen & _ & _ & _ & _ & HR).
  assert (Hc : c_cc n = GET_COMMAND_RESPONSE \/ c_cc n = SET_COMMAND_RESPONSE \/ c_cc n = DISCOVER_COMMAND_RESPONSE).
  { apply is_response_cc_cases in Hcc. exact Hcc. }
  assert (Hport : c_port n <= ACK_OVERFLOW) by (unfold n, nack_response, RDM_NACK_REASON, ACK_OVERFLOW; cbn; lia).
  destruct (HR Hc Hport) as (A & _).
  exists bs. split; [exact Hp|]. split; [exact A|]. split; [exact A|].
  intros rq Hcor.
  destruct (pack_verify_fields n Hw) as (bs' & Hp' & _ & _ & _ & _ & Hbok).
  assert (bs' = bs) by congruence. subst bs'.
  apply (match_iff bs Hbok). { apply wf_cmd_spec in Hw. lia. }
  split; [exact A|]. exact Hcor.
Qed.

(* ---- Duplicate and the setters *)
Lemma duplicate_id oc : duplicate oc = oc /\ pack_o (fst (duplicate oc)) (snd (duplicate oc)) = pack_o (fst oc) (snd oc).
Proof. destruct oc. split; reflexivity. Qed.

Lemma set_request_wf c src tn port :
  wf_cmd c = true -> src < 2^48 -> tn < 256 -> port < 256 -> wf_cmd (set_request c src tn port) = true.
Proof.
  intros Hwf Hs Ht Hp. apply wf_cmd_spec in Hwf as (? & ? & ? & ? & ? & ? & ? & ? & Hb & ?).
  unfold wf_cmd, set_request. cbn [c_dst c_src c_tn c_port c_mc c_sub c_cc c_pid c_data].
  rewrite Hb. unfold MAX_PARAM_DATA_LENGTH in *.
  repeat (apply andb_true_intro; split); try reflexivity; lia.
Qed.
Lemma set_response_wf c dst tn :
  wf_cmd c = true -> dst < 2^48 -> tn < 256 -> wf_cmd (set_response c dst tn) = true.
Proof.
  intros Hwf Hs Ht. apply wf_cmd_spec in Hwf as (? & ? & ? & ? & ? & ? & ? & ? & Hb & ?).
  unfold wf_cmd, set_response. cbn [c_dst c_src c_tn c_port c_mc c_sub c_cc c_pid c_data].
  rewrite Hb. unfold MAX_PARAM_DATA_LENGTH in *.
  repeat (apply andb_true_intro; split); try reflexivity; lia.
Qed.
