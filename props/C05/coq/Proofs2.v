(* C05 round 2 — frames built by the RDMFrame constructors, the round trip stated per decoder
   entry point, and the response builders. *)
From OlaBase Require Import Bytes.
From C05 Require Import Gen Model Proofs Ext.
From Coq Require Import ZifyBool ZifyN ZifyNat.
Local Open Scope N_scope.

(* ------------------------------------------------------------------ RDMFrame construction *)
Lemma mk_frame_spec raw : mk_frame true raw = START_CODE :: raw /\ mk_frame false raw = raw.
Proof. split; reflexivity. Qed.

Lemma from_frame_cons s body rq :
  body <> [] -> from_frame rq (s :: body) = inflate_response rq body.
Proof. destruct body; [congruence|reflexivity]. Qed.

Lemma reply_of_raw_prepend rq raw :
  reply_of_raw true rq raw =
  match raw with [] => Reject RDM_INVALID_RESPONSE | _ => inflate_response rq raw end.
Proof. destruct raw; reflexivity. Qed.

Lemma reply_of_raw_noprepend rq raw :
  reply_of_raw false rq raw =
  match raw with
  | _ :: (_ :: _) as body => inflate_response rq body
  | _ => Reject RDM_INVALID_RESPONSE
  end.
Proof. reflexivity. Qed.

Lemma from_frame_ok rq fr c :
  from_frame rq fr = Ok c -> exists s body, fr = s :: body /\ inflate_response rq body = Ok c.
Proof.
  unfold from_frame. destruct fr as [|s [|x r]]; try discriminate. intros H. eauto.
Qed.

Lemma inflate_response_ssc rq bs c :
  bytes_ok bs = true -> len bs < 4294967296 ->
  inflate_response rq bs = Ok c -> rd bs 0 = Some SUB_START_CODE.
Proof.
  intros Hb Hl H. destruct (inflate_response_ok _ _ _ H) as [Hv _].
  destruct (verify_ok bs Hb Hl Hv) as (h & rest & hi & lo & Es & Hssc & _).
  destruct (split_header_rd _ _ _ Es) as (R0 & _). rewrite R0, Hssc. reflexivity.
Qed.

Lemma reply_of_raw_prepend_ok rq raw c :
  bytes_ok raw = true -> len raw < 4294967296 ->
  reply_of_raw true rq raw = Ok c ->
  inflate_response rq raw = Ok c /\ rd raw 0 = Some SUB_START_CODE.
Proof.
  intros Hb Hl H. rewrite reply_of_raw_prepend in H.
  destruct raw as [|x r]; [discriminate|].
  split; [exact H|]. exact (inflate_response_ssc _ _ _ Hb Hl H).
Qed.

(* no special case for data that already begins with the start code *)
Lemma reply_of_raw_prepend_cc rq rest :
  23 <= len (START_CODE :: rest) ->
  reply_of_raw true rq (START_CODE :: rest) = Reject RDM_WRONG_SUB_START_CODE.
Proof.
  intros Hl. rewrite reply_of_raw_prepend. unfold inflate_response, verify.
  unfold HEADER_SIZE in *.
  destruct (len (START_CODE :: rest) <? 23) eqn:E0; [lia|].
  destruct (split_header (START_CODE :: rest)) as [[h r]|] eqn:Es.
  2:{ apply split_header_none in Es. lia. }
  destruct (split_header_rd _ _ _ Es) as (R0 & _). cbn in R0. inversion R0 as [R0'].
  reflexivity.
Qed.

(* ------------------------------------------------------------------ round trip per entry point *)
Lemma is_request_cc_cases x :
  is_request_cc x = true -> x = GET_COMMAND \/ x = SET_COMMAND \/ x = DISCOVER_COMMAND.
Proof. unfold is_request_cc. lia. Qed.
Lemma is_response_cc_cases x :
  is_response_cc x = true ->
  x = GET_COMMAND_RESPONSE \/ x = SET_COMMAND_RESPONSE \/ x = DISCOVER_COMMAND_RESPONSE.
Proof. unfold is_response_cc. lia. Qed.

Lemma inflate_dispatch bs cc :
  20 <= len bs -> rd bs 19 = Some cc ->
  inflate bs =
    if (cc =? GET_COMMAND) || (cc =? SET_COMMAND) then inflate_request bs
    else if (cc =? GET_COMMAND_RESPONSE) || (cc =? SET_COMMAND_RESPONSE) then inflate_response None bs
    else if cc =? DISCOVER_COMMAND then inflate_disc_request bs
    else if cc =? DISCOVER_COMMAND_RESPONSE then inflate_disc_response bs
    else Reject NOSTATUS.
Proof.
  intros Hl H. unfold inflate. destruct (len bs <? 20) eqn:E; [lia|]. rewrite H. reflexivity.
Qed.

(* what each decoder does with a frame that passed VerifyData and carries the fields c *)
Section Decoded.
  Variables (bs : list N) (c : cmd).
  Hypothesis Hv : verify bs = VOk.
  Hypothesis Hf : fields bs = Some c.

  Lemma dec_request :
    inflate_request bs = if is_request_cc (c_cc c) then Ok c else Reject NOSTATUS.
  Proof.
    unfold inflate_request, is_request_cc. rewrite Hv, Hf.
    destruct (c_cc c =? DISCOVER_COMMAND), (c_cc c =? GET_COMMAND), (c_cc c =? SET_COMMAND); reflexivity.
  Qed.
  Lemma dec_disc_request :
    inflate_disc_request bs = if c_cc c =? DISCOVER_COMMAND then Ok c else Reject NOSTATUS.
  Proof. unfold inflate_disc_request. rewrite Hv, Hf. reflexivity. Qed.
  Lemma dec_disc_response :
    inflate_disc_response bs = if c_cc c =? DISCOVER_COMMAND_RESPONSE then Ok c else Reject NOSTATUS.
  Proof. unfold inflate_disc_response. rewrite Hv, Hf. reflexivity. Qed.
  Lemma dec_response :
    inflate_response None bs =
      if ACK_OVERFLOW <? c_port c then Reject RDM_INVALID_RESPONSE_TYPE
      else if is_response_cc (c_cc c) then Ok c else Reject RDM_INVALID_COMMAND_CLASS.
  Proof.
    unfold inflate_response, is_response_cc. rewrite Hv, Hf.
    destruct (ACK_OVERFLOW <? c_port c); [reflexivity|].
    destruct (c_cc c =? DISCOVER_COMMAND_RESPONSE), (c_cc c =? GET_COMMAND_RESPONSE),
      (c_cc c =? SET_COMMAND_RESPONSE); reflexivity.
  Qed.
End Decoded.

Lemma pack_nonempty c bs : pack c = Some bs -> len bs = 25 + len (c_data c) -> bs <> [].
Proof. intros _ H E. subst bs. rewrite len_nil in H. lia. Qed.

(* The serialised form of every constructible command, through every decoder entry point:
   accepted with exactly the same fields by each entry point that handles its class, refused
   (NULL / status) by the others. *)
Lemma roundtrip_entry_points c :
  wf_cmd c = true ->
  exists bs, pack c = Some bs /\ len bs = 25 + len (c_data c) /\
    inflate_request bs = (if is_request_cc (c_cc c) then Ok c else Reject NOSTATUS) /\
    inflate_disc_request bs = (if c_cc c =? DISCOVER_COMMAND then Ok c else Reject NOSTATUS) /\
    inflate_disc_response bs = (if c_cc c =? DISCOVER_COMMAND_RESPONSE then Ok c else Reject NOSTATUS) /\
    inflate_response None bs =
      (if ACK_OVERFLOW <? c_port c then Reject RDM_INVALID_RESPONSE_TYPE
       else if is_response_cc (c_cc c) then Ok c else Reject RDM_INVALID_COMMAND_CLASS) /\
    (forall rq, from_frame rq (START_CODE :: bs) = inflate_response rq bs) /\
    (forall rq, reply_of_raw true rq bs = inflate_response rq bs) /\
    inflate bs =
      (if (c_cc c =? GET_COMMAND) || (c_cc c =? SET_COMMAND) || (c_cc c =? DISCOVER_COMMAND) ||
          (c_cc c =? DISCOVER_COMMAND_RESPONSE) then Ok c
       else if (c_cc c =? GET_COMMAND_RESPONSE) || (c_cc c =? SET_COMMAND_RESPONSE) then
         (if ACK_OVERFLOW <? c_port c then Reject RDM_INVALID_RESPONSE_TYPE else Ok c)
       else Reject NOSTATUS).
Proof.
  intros Hwf.
  destruct (pack_verify_fields c Hwf) as (bs & Hp & Hv & Hf & H19 & Hlen & _).
  exists bs. split; [exact Hp|]. split; [exact Hlen|].
  pose proof (dec_request bs c Hv Hf) as D1.
  pose proof (dec_disc_request bs c Hv Hf) as D2.
  pose proof (dec_disc_response bs c Hv Hf) as D3.
  pose proof (dec_response bs c Hv Hf) as D4.
  assert (Hne : bs <> []) by exact (pack_nonempty c bs Hp Hlen).
  repeat split; try assumption.
  - intros rq. apply from_frame_cons. exact Hne.
  - intros rq. rewrite reply_of_raw_prepend. destruct bs; [congruence|reflexivity].
  - rewrite (inflate_dispatch bs (c_cc c)) by (try lia; exact H19).
    rewrite D1, D2, D3, D4. unfold is_request_cc, is_response_cc.
    unfold DISCOVER_COMMAND, DISCOVER_COMMAND_RESPONSE, GET_COMMAND, GET_COMMAND_RESPONSE,
      SET_COMMAND, SET_COMMAND_RESPONSE in *.
    destruct (c_cc c =? 32) eqn:C1; destruct (c_cc c =? 48) eqn:C2; destruct (c_cc c =? 33) eqn:C3;
      destruct (c_cc c =? 49) eqn:C4; destruct (c_cc c =? 16) eqn:C5; destruct (c_cc c =? 17) eqn:C6;
      try (exfalso; lia); cbn [orb]; try destruct (_ <? _); reflexivity.
Qed.

(* ------------------------------------------------------------------ PackWithStartCode / append *)
Lemma pack_append_spec o out c :
  pack_append o out c =
  match pack_o o c with Some b => (true, out ++ b) | None => (false, out) end.
Proof. reflexivity. Qed.

Lemma pack_with_start_code_frame c bs :
  pack c = Some bs ->
  pack_with_start_code default_opts [] c = (true, mk_frame true bs).
Proof. unfold pack_with_start_code, pack_append, pack. intros H. rewrite H. reflexivity. Qed.

(* ------------------------------------------------------------------ response builders *)
Lemma response_with_pid_some rq pid data type mc r :
  response_with_pid rq pid data type mc = Some r ->
  is_request_cc (c_cc rq) = true /\
  r = built rq (c_cc rq + 1) pid data type mc.
Proof.
  unfold response_with_pid, is_request_cc.
  unfold DISCOVER_COMMAND, DISCOVER_COMMAND_RESPONSE, GET_COMMAND, GET_COMMAND_RESPONSE,
    SET_COMMAND, SET_COMMAND_RESPONSE.
  destruct (c_cc rq =? 32) eqn:C1.
  { intros H; inversion H; subst. split; [reflexivity|]. f_equal. lia. }
  destruct (c_cc rq =? 48) eqn:C2.
  { intros H; inversion H; subst. split; [reflexivity|]. f_equal. lia. }
  destruct (c_cc rq =? 16) eqn:C3; [|discriminate].
  intros H; inversion H; subst. split; [reflexivity|]. f_equal. lia.
Qed.

Lemma response_with_pid_request rq pid data type mc :
  is_request_cc (c_cc rq) = true ->
  response_with_pid rq pid data type mc = Some (built rq (c_cc rq + 1) pid data type mc).
Proof.
  intros H. apply is_request_cc_cases in H. unfold response_with_pid.
  unfold DISCOVER_COMMAND, DISCOVER_COMMAND_RESPONSE, GET_COMMAND, GET_COMMAND_RESPONSE,
    SET_COMMAND, SET_COMMAND_RESPONSE in *.
  destruct H as [H|[H|H]]; rewrite H; reflexivity.
Qed.

Lemma built_wf rq cc pid data type mc :
  wf_cmd rq = true -> cc < 256 -> pid < 65536 -> type < 256 -> mc < 256 ->
  bytes_ok data = true -> len data <= MAX_PARAM_DATA_LENGTH ->
  wf_cmd (built rq cc pid data type mc) = true.
Proof.
  intros Hwf Hcc Hpid Ht Hmc Hd Hl. apply wf_cmd_spec in Hwf as (? & ? & ? & ? & ? & ? & ? & ? & ? & ?).
  unfold wf_cmd, built. cbn [c_dst c_src c_tn c_port c_mc c_sub c_cc c_pid c_data].
  rewrite Hd. unfold MAX_PARAM_DATA_LENGTH in *.
  repeat (apply andb_true_intro; split); try reflexivity; lia.
Qed.

Lemma built_corresponds rq pid data type mc :
  is_request_cc (c_cc rq) = true ->
  corresponds rq (built rq (c_cc rq + 1) pid data type mc).
Proof.
  intros H. apply is_request_cc_cases in H. unfold corresponds, built.
  cbn [c_dst c_src c_tn c_port c_mc c_sub c_cc c_pid c_data].
  unfold DISCOVER_COMMAND, DISCOVER_COMMAND_RESPONSE, GET_COMMAND, GET_COMMAND_RESPONSE,
    SET_COMMAND, SET_COMMAND_RESPONSE in *.
  repeat split; try (left; reflexivity); intros; try left; lia.
Qed.

(* A response built for a request by GetResponseWithPid (hence GetResponseFromData and
   NackWithReason) serialises to a frame that is matched to that request, by
   RDMResponse::InflateFromData and by RDMReply::FromFrame on both frame constructions. *)
Lemma built_response_matches rq pid data type mc r :
  wf_cmd rq = true -> pid < 65536 -> type <= ACK_OVERFLOW -> mc < 256 ->
  bytes_ok data = true -> len data <= MAX_PARAM_DATA_LENGTH ->
  response_with_pid rq pid data type mc = Some r ->
  exists bs, pack r = Some bs /\ inflate_response (Some rq) bs = Ok r /\
             from_frame (Some rq) (START_CODE :: bs) = Ok r /\
             reply_of_raw true (Some rq) bs = Ok r.
Proof.
  intros Hwf Hpid Ht Hmc Hd Hl Hr.
  apply response_with_pid_some in Hr as [Hrc Hr].
  assert (Hcc : c_cc rq + 1 < 256).
  { apply is_request_cc_cases in Hrc.
    unfold DISCOVER_COMMAND, GET_COMMAND, SET_COMMAND in Hrc. lia. }
  assert (Hwr : wf_cmd r = true).
  { subst r. apply built_wf; try assumption. unfold ACK_OVERFLOW in Ht. lia. }
  destruct (pack_verify_fields r Hwr) as (bs & Hp & Hv & Hf & H19 & Hlen & Hbok).
  exists bs. split; [exact Hp|].
  assert (Hl32 : len bs < 4294967296).
  { apply wf_cmd_spec in Hwr. lia. }
  pose proof (match_status rq bs r Hv Hf) as M. cbv zeta in M.
  destruct M as (_ & _ & _ & _ & _ & _ & _ & M).
  assert (Hm : inflate_response (Some rq) bs = Ok r).
  { apply M.
    - subst r. apply built_corresponds. exact Hrc.
    - subst r. exact Ht.
    - subst r. cbn [built c_cc]. apply is_request_cc_cases in Hrc.
      unfold DISCOVER_COMMAND, DISCOVER_COMMAND_RESPONSE, GET_COMMAND, GET_COMMAND_RESPONSE,
        SET_COMMAND, SET_COMMAND_RESPONSE in *. lia. }
  split; [exact Hm|].
  assert (Hne : bs <> []) by exact (pack_nonempty r bs Hp Hlen).
  split.
  - rewrite from_frame_cons by exact Hne. exact Hm.
  - rewrite reply_of_raw_prepend. destruct bs; [congruence|exact Hm].
Qed.

Lemma nack_request_matches rq reason mc r :
  wf_cmd rq = true -> mc < 256 ->
  nack_request rq reason mc = Some r ->
  c_port r = RDM_NACK_REASON /\ c_data r = be_bytes 2 (u16 reason) /\ c_pid r = c_pid rq /\
  exists bs, pack r = Some bs /\ inflate_response (Some rq) bs = Ok r.
Proof.
  intros Hwf Hmc Hr. unfold nack_request, response_from_data in Hr.
  pose proof (wf_cmd_spec rq Hwf) as (_ & _ & _ & _ & _ & _ & _ & Hpid & _ & _).
  destruct (response_with_pid_some _ _ _ _ _ _ Hr) as [_ E].
  split; [subst r; reflexivity|]. split; [subst r; reflexivity|]. split; [subst r; reflexivity|].
  destruct (built_response_matches rq (c_pid rq) (be_bytes 2 (u16 reason)) RDM_NACK_REASON mc r)
    as (bs & Hp & Hm & _); try assumption.
  - unfold RDM_NACK_REASON, ACK_OVERFLOW. lia.
  - apply be_bytes_ok.
  - unfold len. rewrite be_bytes_length. unfold MAX_PARAM_DATA_LENGTH. lia.
  - eauto.
Qed.

(* ------------------------------------------------------------------ explicit per-entry-point form *)
Lemma roundtrip_all_entry_points c :
  wf_cmd c = true ->
  exists bs, pack c = Some bs /\ len bs = 25 + len (c_data c) /\
    pack_with_start_code default_opts [] c = (true, START_CODE :: bs) /\
    (c_cc c = GET_COMMAND \/ c_cc c = SET_COMMAND ->
       inflate_request bs = Ok c /\ inflate bs = Ok c) /\
    (c_cc c = DISCOVER_COMMAND ->
       inflate_request bs = Ok c /\ inflate_disc_request bs = Ok c /\ inflate bs = Ok c) /\
    (c_cc c = DISCOVER_COMMAND_RESPONSE ->
       inflate_disc_response bs = Ok c /\ inflate bs = Ok c) /\
    (c_cc c = GET_COMMAND_RESPONSE \/ c_cc c = SET_COMMAND_RESPONSE \/ c_cc c = DISCOVER_COMMAND_RESPONSE ->
     c_port c <= ACK_OVERFLOW ->
       inflate_response None bs = Ok c /\ from_frame None (START_CODE :: bs) = Ok c /\
       reply_of_raw true None bs = Ok c /\ inflate bs = Ok c).
Proof.
  intros Hwf.
  destruct (roundtrip_entry_points c Hwf) as (bs & Hp & Hlen & D1 & D2 & D3 & D4 & D5 & D6 & D7).
  exists bs. split; [exact Hp|]. split; [exact Hlen|].
  split; [exact (pack_with_start_code_frame c bs Hp)|].
  rewrite D5, D6, D1, D2, D3, D4, D7. unfold is_request_cc, is_response_cc.
  unfold DISCOVER_COMMAND, DISCOVER_COMMAND_RESPONSE, GET_COMMAND, GET_COMMAND_RESPONSE,
    SET_COMMAND, SET_COMMAND_RESPONSE, ACK_OVERFLOW in *.
  repeat split; intros;
    repeat match goal with
           | H : _ \/ _ |- _ => destruct H
           end;
    match goal with H : c_cc c = _ |- _ => rewrite H end; cbn [N.eqb Pos.eqb orb];
    try reflexivity;
    destruct (3 <? c_port c) eqn:P; try reflexivity; lia.
Qed.

(* ------------------------------------------------------------------ discovery request builders *)
Lemma disc_request_wf src dst tn port pid data :
  src < 2^48 -> dst < 2^48 -> tn < 256 -> port < 256 -> pid < 65536 ->
  bytes_ok data = true -> len data <= MAX_PARAM_DATA_LENGTH ->
  wf_cmd (disc_request src dst tn port pid data) = true.
Proof.
  intros. unfold wf_cmd, disc_request. cbn [c_dst c_src c_tn c_port c_mc c_sub c_cc c_pid c_data].
  unfold ROOT_RDM_DEVICE, DISCOVER_COMMAND, MAX_PARAM_DATA_LENGTH in *.
  repeat (apply andb_true_intro; split); try reflexivity; try assumption; lia.
Qed.

(* the three standard discovery requests are constructible commands, so they round-trip through
   RDMCommand::Inflate, RDMRequest::InflateFromData and RDMDiscoveryRequest::InflateFromData *)
Lemma new_disc_roundtrip src dst lower upper tn port c :
  src < 2^48 -> dst < 2^48 -> tn < 256 -> port < 256 ->
  c = new_dub src lower upper tn port \/ c = new_mute src dst tn port \/ c = new_unmute src dst tn port ->
  exists bs, pack c = Some bs /\
    inflate bs = Ok c /\ inflate_request bs = Ok c /\ inflate_disc_request bs = Ok c.
Proof.
  intros Hs Hd Ht Hp Hc.
  assert (Hwf : wf_cmd c = true /\ c_cc c = DISCOVER_COMMAND).
  { destruct Hc as [Hc|[Hc|Hc]]; subst c; (split; [|reflexivity]).
    - unfold new_dub. apply disc_request_wf; try assumption; try (vm_compute; reflexivity).
      + rewrite bytes_ok_app, !be_bytes_ok. reflexivity.
      + rewrite len_app. unfold len. rewrite !be_bytes_length. vm_compute. discriminate.
    - unfold new_mute. apply disc_request_wf; try assumption; try reflexivity; vm_compute; discriminate.
    - unfold new_unmute. apply disc_request_wf; try assumption; try reflexivity; vm_compute; discriminate. }
  destruct Hwf as [Hwf Hcc].
  destruct (roundtrip_all_entry_points c Hwf) as (bs & Hpk & _ & _ & _ & HD & _).
  destruct (HD Hcc) as (A & B & C). exists bs. auto.
Qed.
