(* C09 model driver.
   payload tokens: @tag | T<bodyhex>:<type>,<id>,<namehex>,<bufhex> (RpcMessage decode table)
                 | Q<reqhex>:<replyhex> (valid EchoRequest buffers and the EchoReply the service gives)
                 | c<hex> chunk | m call | z jam (every later send fails) | q<N> set sequence number *)
let decode_tbl : (string, msg) Hashtbl.t = Hashtbl.create 16
let req_tbl : (string, string) Hashtbl.t = Hashtbl.create 16

let decode (b : n list) : msg option = Hashtbl.find_opt decode_tbl (hex_of_bytes b)
let method_kind (nm : n list) : n =
  match hex_of_bytes nm with
  | "4563686f" (* Echo *) | "4661696c65644563686f" (* FailedEcho *) -> n_of_int 1
  | "53747265616d" (* Stream *) -> n_of_int 2
  | _ -> N0
let req_ok (b : n list) : bool = Hashtbl.mem req_tbl (hex_of_bytes b)
let service (nm : n list) (req : n list) : sres =
  match hex_of_bytes nm with
  | "4661696c65644563686f" -> SFail (bytes_of_hex "4572726f72") (* "Error" *)
  | "53747265616d" -> SReply []   (* Stream called through a plain REQUEST: empty reply message *)
  | _ -> SReply (bytes_of_hex (try Hashtbl.find req_tbl (hex_of_bytes req) with Not_found -> "-"))
let call_name = bytes_of_hex "4563686f"
let call_req = bytes_of_hex "0a0178"

let msg_s (m : msg) =
  Printf.sprintf "%d:%s:%s:%s" (int_of_n m.m_type) (string_of_n m.m_id) (hex_of_bytes m.m_name) (hex_of_bytes m.m_buf)

let handle (p : string) : string =
  Hashtbl.reset decode_tbl; Hashtbl.reset req_tbl;
  let f = ref init_frame and r = ref init_rpc in
  let jam = ref false in
  let tag = ref "?" in
  let out = Buffer.create 256 in
  let idx = ref 0 in
  let counts = Array.make 7 0 in   (* total, request, response, cancelled, failed, not-implemented, stream *)
  let hazard = ref "" in
  let nclose = ref 0 in
  let do_op (o : op) =
    let ((f', r'), evs) = step decode method_kind req_ok service call_name call_req !f !r o in
    f := f'; r := r';
    let dn = Buffer.create 32 and sn = Buffer.create 32 and sv = Buffer.create 32 in
    List.iter (fun e ->
      if not (write_ok e) then hazard := "bad-write";
      if oob e then hazard := "OOB";
      match e with
      | EvOutOfFuel -> hazard := "OutOfFuel"
      | EvDispatch m ->
        counts.(0) <- counts.(0) + 1;
        (match int_of_n m.m_type with
         | 1 -> counts.(1) <- counts.(1) + 1 | 2 -> counts.(2) <- counts.(2) + 1
         | 3 -> counts.(3) <- counts.(3) + 1 | 4 -> counts.(4) <- counts.(4) + 1
         | 5 -> counts.(5) <- counts.(5) + 1 | 10 -> counts.(6) <- counts.(6) + 1 | _ -> ())
      | EvDone (k, OReply b) -> Buffer.add_string dn (Printf.sprintf "|D%d:R:%s" (int_of_n k) (hex_of_bytes b))
      | EvDone (k, OFailed t) -> Buffer.add_string dn (Printf.sprintf "|D%d:F:%s" (int_of_n k) (hex_of_bytes t))
      | EvSend m -> Buffer.add_string sn ("|S" ^ msg_s m)
      | EvService (nm, rq) -> Buffer.add_string sv (Printf.sprintf "|V%s:%s" (hex_of_bytes nm) (hex_of_bytes rq))
      | EvChanClose -> incr nclose
      | _ -> ()) evs;
    Buffer.add_string out (Printf.sprintf "o%d=x%s%s|rx%s%s%s%s|H%d;i%d=e%dc%db%da%d;" !idx
      (bool01 !f.closed) (bool01 !r.dead)
      (String.concat "/" (Array.to_list (Array.map string_of_int counts)))
      (Buffer.contents dn) (Buffer.contents sn) (Buffer.contents sv) !nclose
      !idx (int_of_n !f.expected) (int_of_n !f.current) (int_of_n !f.bufsz) (int_of_n !f.alloc));
    incr idx in
  List.iter (fun tok ->
    if tok <> "" then begin
      let rest = String.sub tok 1 (String.length tok - 1) in
      match tok.[0] with
      | '@' -> tag := rest
      | 'T' ->
        (match String.split_on_char ':' rest with
         | [body; spec] ->
           (match String.split_on_char ',' spec with
            | [ty; id; nm; bf] ->
              Hashtbl.replace decode_tbl body
                { m_type = n_of_int (ios ty); m_id = n_of_string id; m_name = bytes_of_hex nm; m_buf = bytes_of_hex bf }
            | _ -> failwith "bad T")
         | _ -> failwith "bad T")
      | 'Q' ->
        (match String.split_on_char ':' rest with
         | [rq; rp] -> Hashtbl.replace req_tbl rq rp
         | _ -> failwith "bad Q")
      | 'c' -> do_op (OpChunk (bytes_of_hex rest, not !jam))
      | 'm' -> do_op (OpCall (not !jam))
      | 'z' -> jam := true
      | 'q' -> r := { !r with seq = n_of_string rest }
      | _ -> failwith "bad token"
    end) (split p);
  let fin = if !r.dead then "dead" else if !f.closed then "closed" else if int_of_n !f.expected <> 0 then "midbody" else "open" in
  Buffer.add_string out (Printf.sprintf "hazard=%s;class=%s:%s" (if !hazard = "" then "none" else !hazard) !tag fin);
  Buffer.contents out

let () = vh_run handle
