(* C09 model driver.
   payload tokens: @tag | T<bodyhex>:<type>,<id>,<namehex>,<bufhex> (RpcMessage decode table)
                 | Q<reqhex>:<replyhex> (valid EchoRequest buffers and the EchoReply the service gives)
                 | A  the service keeps Echo/FailedEcho requests and completes them on k ops
                 | 2  two-channel mode: client channel A and server channel B back to back
                 | c<hex> chunk | m[efgtd] call (Echo, FailedEcho, GetPlugins, Stream*, StreamDmxData*; * = streaming)
                 | k<q>R / k<q>F  the service completes request number q (reply "r" / failure "Error")
                 | z jam (every later send fails) | q<N> set sequence number
                 | w<hex> bytes arrive without the poller running | p the peer closes its end
                 | m[xu] GetDmx / GetUIDs with a reply object the caller reuses across calls
                 | M<n> n independent channels live side by side; i<k> the following ops belong to channel k *)
let decode_tbl : (string, msg) Hashtbl.t = Hashtbl.create 16
let req_tbl : (string, string) Hashtbl.t = Hashtbl.create 16
let async = ref false

let decode (b : n list) : msg option = Hashtbl.find_opt decode_tbl (hex_of_bytes b)
(* service 0: none; 1: the TestService mock [Echo, FailedEcho, Stream (streaming)]; 2: the OlaServerService
   mock [GetPlugins, GetDmx, StreamDmxData (streaming); its other methods are not exercised] *)
let method_kind (sv : n) (nm : n list) : n =
  match int_of_n sv, hex_of_bytes nm with
  | 0, _ -> n_of_int 3
  | 1, ("4563686f" (* Echo *) | "4661696c65644563686f" (* FailedEcho *)) -> n_of_int 1
  | 1, "53747265616d" (* Stream *) -> n_of_int 2
  | 2, ("476574506c7567696e73" (* GetPlugins *) | "476574446d78" (* GetDmx *)) -> n_of_int 1
  | 2, "53747265616d446d7844617461" (* StreamDmxData *) -> n_of_int 2
  | _ -> N0
let req_ok (sv : n) (b : n list) : bool =
  if int_of_n sv = 2 then (match hex_of_bytes b with "-" | "0801" | "0801120164" -> true | _ -> false)
  else Hashtbl.mem req_tbl (hex_of_bytes b)
let service (sv : n) (nm : n list) (req : n list) : sres option =
  if int_of_n sv = 2 then
    (match hex_of_bytes nm with
     | "476574446d78" -> Some (SReply (bytes_of_hex "0801120164"))    (* GetDmx: DmxData{1, "d"} *)
     | _ -> Some (SReply []))                                         (* GetPlugins: an empty list *)
  else
  match hex_of_bytes nm with
  | "53747265616d" -> Some (SReply [])   (* Stream called through a plain REQUEST: empty reply message *)
  | _ when !async -> None
  | "4661696c65644563686f" ->
    (* the failure text is the request's data ("Error" if it has none): the reply entry is 0a <len> data *)
    let rp = bytes_of_hex (try Hashtbl.find req_tbl (hex_of_bytes req) with Not_found -> "-") in
    let rec skip_varint l = match l with x :: r -> if int_of_n x >= 128 then skip_varint r else r | [] -> [] in
    let data = match rp with _ :: r -> skip_varint r | [] -> [] in
    Some (SFail (if data = [] then bytes_of_hex "4572726f72" else data))
  | _ -> Some (SReply (bytes_of_hex (try Hashtbl.find req_tbl (hex_of_bytes req) with Not_found -> "-")))

(* hex for reporting: long strings are reported as #<length>.<adler32-style digest> *)
let lhex (l : n list) : string =
  let len = List.length l in
  if len <= 100 then hex_of_bytes l
  else begin
    let a = ref 1 and b = ref 0 in
    List.iter (fun x -> a := (!a + int_of_n x) mod 65521; b := (!b + !a) mod 65521) l;
    Printf.sprintf "#%d.%d" len (!b * 65536 + !a)
  end
let msg_out (m : msg) =
  Printf.sprintf "%d:%s:%s:%s" (int_of_n m.m_type) (string_of_n m.m_id) (hex_of_bytes m.m_name) (lhex m.m_buf)
let msg_s (m : msg) =
  Printf.sprintf "%d:%s:%s:%s" (int_of_n m.m_type) (string_of_n m.m_id) (hex_of_bytes m.m_name) (hex_of_bytes m.m_buf)

(* two-channel mode: the driver's own wire encoding of a message (only its decoding matters) *)
let encode (m : msg) : n list =
  let s = msg_s m in
  let body = List.init (String.length s) (fun i -> n_of_int (Char.code s.[i])) in
  Hashtbl.replace decode_tbl (hex_of_bytes body) m;
  let l = String.length s in
  [n_of_int (l land 255); n_of_int ((l lsr 8) land 255); n_of_int ((l lsr 16) land 255); n_of_int 16] @ body

type chan = { mutable f : frame; mutable r : rpc; counts : int array; mutable nclose : int;
              mutable hazard : string }

let new_chan (sv : int) = { f = init_frame; r = { init_rpc with svc = n_of_int sv }; counts = Array.make 7 0;
                            nclose = 0; hazard = "" }

(* run one op on a channel; returns (spec string, internal string, messages sent) *)
let do_op (c : chan) (o : op) (show_sent : bool) : string * string * msg list =
  let ((f', r'), evs) = step decode method_kind req_ok service c.f c.r o in
  c.f <- f'; c.r <- r';
  let dn = Buffer.create 32 and sn = Buffer.create 32 and sv = Buffer.create 32 in
  let sent = ref [] in
  List.iter (fun e ->
    if not (write_ok e) then c.hazard <- "bad-write";
    if oob e then c.hazard <- "OOB";
    match e with
    | EvOutOfFuel -> c.hazard <- "OutOfFuel"
    | EvDispatch m ->
      c.counts.(0) <- c.counts.(0) + 1;
      (match int_of_n m.m_type with
       | 1 -> c.counts.(1) <- c.counts.(1) + 1 | 2 -> c.counts.(2) <- c.counts.(2) + 1
       | 3 -> c.counts.(3) <- c.counts.(3) + 1 | 4 -> c.counts.(4) <- c.counts.(4) + 1
       | 5 -> c.counts.(5) <- c.counts.(5) + 1 | 10 -> c.counts.(6) <- c.counts.(6) + 1 | _ -> ())
    | EvDone (k, OReply b) -> Buffer.add_string dn (Printf.sprintf "|D%d:R:%s" (int_of_n k) (lhex b))
    | EvDone (k, OFailed t) -> Buffer.add_string dn (Printf.sprintf "|D%d:F:%s" (int_of_n k) (lhex t))
    | EvSend m -> sent := m :: !sent; if show_sent then Buffer.add_string sn ("|S" ^ msg_out m)
    | EvService (nm, rq) -> Buffer.add_string sv (Printf.sprintf "|V%s:%s" (hex_of_bytes nm) (lhex rq))
    | EvChanClose -> c.nclose <- c.nclose + 1
    | _ -> ()) evs;
  (Buffer.contents dn ^ Buffer.contents sn ^ Buffer.contents sv, "", List.rev !sent)

let no_export = ref false   (* E: the channel has no ExportMap, so the received-message counters do not exist *)
let state_s (c : chan) =
  Printf.sprintf "x%s%s|rx%s" (bool01 c.f.closed) (bool01 c.r.dead)
    (if !no_export then "-" else String.concat "/" (Array.to_list (Array.map string_of_int c.counts)))
let internal_s (c : chan) =
  Printf.sprintf "e%dc%db%da%d" (int_of_n c.f.expected) (int_of_n c.f.current) (int_of_n c.f.bufsz) (int_of_n c.f.alloc)

let call_of_code (code_and_size : string) : bool * n list * n list =
  (* a letter, optionally followed by the length of the request's data *)
  let isdig c = c >= '0' && c <= '9' in
  let k = ref 0 in
  while !k < String.length code_and_size && not (isdig code_and_size.[!k]) do incr k done;
  let code = String.sub code_and_size 0 !k in
  let size = if !k < String.length code_and_size then ios (String.sub code_and_size !k (String.length code_and_size - !k)) else 1 in
  let rec varint v = if v < 128 then [n_of_int v] else n_of_int (128 + v land 127) :: varint (v lsr 7) in
  let echo = (n_of_int 10 :: varint size) @ List.init size (fun _ -> n_of_int 0x78) in
  match code with
  | "" | "e" -> (false, bytes_of_hex "4563686f", echo)
  | "f" -> (false, bytes_of_hex "4661696c65644563686f", echo)
  | "t" -> (true, bytes_of_hex "53747265616d", echo)
  | "g" -> (false, bytes_of_hex "476574506c7567696e73", [])                      (* GetPlugins *)
  | "x" -> (false, bytes_of_hex "476574446d78", bytes_of_hex "0801")               (* GetDmx *)
  | "u" -> (false, bytes_of_hex "47657455494473", bytes_of_hex "0801")             (* GetUIDs *)
  | "d" -> (true, bytes_of_hex "53747265616d446d7844617461", bytes_of_hex "0801120164")  (* StreamDmxData *)
  | _ -> failwith "bad call code"

let handle (p : string) : string =
  Hashtbl.reset decode_tbl; Hashtbl.reset req_tbl;
  Hashtbl.replace req_tbl "0a0178" "0a0178";
  async := false;
  let toks = split p in
  let two = List.mem "2" toks in
  let nserv = List.fold_left (fun acc t ->
      if String.length t > 1 && t.[0] = 'S' then ios (String.sub t 1 (String.length t - 1)) else acc) 0 toks in
  let nosvc = List.mem "N" toks in
  no_export := List.mem "E" toks && not two;
  let nchan = List.fold_left (fun acc t ->
      if String.length t > 1 && t.[0] = 'M' then ios (String.sub t 1 (String.length t - 1)) else acc)
      (if nserv > 0 then nserv else 1) toks in
  (* server mode (S<n>): n clients of one RpcServer; p = the client hangs up and its channel is deleted *)
  let gone = Array.make 16 false in       (* the client has hung up *)
  let deleted = Array.make 16 false in    (* the server deleted its channel *)
  (* multi-channel mode (M<n>): n independent channels; i<k> selects the channel of the following ops *)
  let chans = Array.init nchan (fun _ -> new_chan (if two || nosvc then 0 else 1)) in
  let cur = ref 0 in
  let a = chans.(0) in
  let b = new_chan 1 in
  let jam = Array.make 16 false in
  let held = Array.make 16 [] in
  let tag = ref "?" in
  let out = Buffer.create 256 in
  let idx = ref 0 in
  let complete_op rest =
    let n = String.length rest in
    let q = n_of_string (String.sub rest 0 (n - 1)) in
    let res = if rest.[n - 1] = 'F' then SFail (bytes_of_hex "4572726f72") else SReply (bytes_of_hex "0a0172") in
    OpComplete (q, res, not jam.(!cur)) in
  let emit_server (ev : string) =
    let live = ref 0 and removed = ref 0 in
    Array.iteri (fun i _ -> if deleted.(i) then incr removed else incr live) chans;
    let sums = Array.make 7 0 in
    Array.iter (fun c -> Array.iteri (fun j v -> sums.(j) <- sums.(j) + v) c.counts) chans;
    Buffer.add_string out (Printf.sprintf "o%d=#%d#n%d+%d-%d|rx%s%s;" !idx !cur !live nchan !removed
      (String.concat "/" (Array.to_list (Array.map string_of_int sums))) ev);
    incr idx in
  let emit1 (ev : string) =
    let c = chans.(!cur) in
    Buffer.add_string out (Printf.sprintf "o%d=%s%s%s|H%d;i%d=%s;" !idx
      (if nchan > 1 then Printf.sprintf "#%d#" !cur else "") (state_s c) ev c.nclose !idx (internal_s c));
    incr idx in
  (* two-channel: deliver everything in flight, B first, until quiet *)
  let pump (to_b : msg list) (to_a : msg list) (eva : Buffer.t) (evb : Buffer.t) =
    let to_b = ref to_b and to_a = ref to_a in
    let guard = ref 0 in
    while (!to_b <> [] || !to_a <> []) && !guard < 1000 do
      incr guard;
      if !to_b <> [] then begin
        let bytes = List.concat (List.map encode !to_b) in
        to_b := [];
        let (e, _, s) = do_op b (OpChunk (bytes, true)) false in
        Buffer.add_string evb e; to_a := !to_a @ s
      end;
      if !to_a <> [] then begin
        let bytes = List.concat (List.map encode !to_a) in
        to_a := [];
        let (e, _, s) = do_op a (OpChunk (bytes, true)) false in
        Buffer.add_string eva e; to_b := !to_b @ s
      end
    done in
  let emit2 (eva : Buffer.t) (evb : Buffer.t) =
    Buffer.add_string out (Printf.sprintf "o%d=%s%s|H%d#%s%s|H%d;" !idx (state_s a) (Buffer.contents eva) a.nclose
      (state_s b) (Buffer.contents evb) b.nclose);
    incr idx in
  List.iter (fun tok ->
    if tok <> "" then begin
      let rest = String.sub tok 1 (String.length tok - 1) in
      match tok.[0] with
      | '@' -> tag := rest
      | '2' -> ()
      | 'N' -> ()   (* one-channel mode: the channel has no service *)
      | 'E' -> ()
      | 'B' -> ()   (* big mode of the harness: nothing changes for the model *)
      | 'X' -> ()   (* the script carries a header announcing more than 1 MB: see oversize_accepted *)
      | 'A' -> async := true
      | 'T' ->
        (match String.split_on_char ':' rest with
         | [body; spec] ->
           (match String.split_on_char ',' spec with
            | [ty; id; nm; bf] ->
              Hashtbl.replace decode_tbl body
                { m_type = n_of_int (ios ty); m_id = n_of_string id; m_name = bytes_of_hex nm; m_buf = bytes_of_hex bf }
            | _ -> failwith "bad T")
         | _ -> failwith "bad T")
      | 'Q' ->
        (match String.split_on_char ':' rest with
         | [rq; rp] -> Hashtbl.replace req_tbl rq rp
         | _ -> failwith "bad Q")
      | 'z' -> jam.(!cur) <- true
      | 'p' when nserv > 0 ->
        (* a hang-up is only noticed on a descriptor the channel has not closed itself *)
        let fresh = not gone.(!cur) && not chans.(!cur).f.closed in
        gone.(!cur) <- true;
        if fresh then begin deleted.(!cur) <- true; emit_server (Printf.sprintf "|R%d" !cur) end else emit_server ""
      | 'p' -> jam.(!cur) <- true                      (* the peer went away: every later write to it fails *)
      | 'w' -> held.(!cur) <- held.(!cur) @ bytes_of_hex rest (* arrived, but the poller has not run yet *)
      | 'q' -> let c = chans.(!cur) in c.r <- { c.r with seq = n_of_string rest }
      | 'M' -> ()
      | 'v' -> let (e, _, _) = do_op chans.(!cur) (OpSetService (n_of_string rest)) true in emit1 e   (* SetService *)
      | 'S' -> ()
      | 'i' -> cur := ios rest
      | 'c' | 'm' | 'k' ->
        if two then begin
          let eva = Buffer.create 32 and evb = Buffer.create 32 in
          (match tok.[0] with
           | 'm' ->
             let (st, nm, rq) = call_of_code rest in
             let (e, _, s) = do_op a (OpCall (st, nm, rq, true)) false in
             Buffer.add_string eva e; pump s [] eva evb
           | 'k' ->
             let (e, _, s) = do_op b (complete_op rest) false in
             Buffer.add_string evb e; pump [] s eva evb
           | _ -> failwith "chunk in two-channel mode");
          emit2 eva evb
        end else if nserv > 0 then begin
          let c = chans.(!cur) in
          (match tok.[0] with
           | 'c' ->
             let bytes = bytes_of_hex rest in
             if gone.(!cur) then emit_server ""
             else if c.f.closed then emit_server (if bytes = [] then "" else "|!")   (* the server closed it *)
             else begin
               let (e, _, _) = do_op c (OpChunk (bytes, true)) true in
               (* service invocations are reported with the client they came from *)
               let e = String.concat "" (List.map (fun part ->
                   if part = "" then "" else if part.[0] = 'V' then "|" ^ part ^ "@" ^ string_of_int !cur else "|" ^ part)
                   (String.split_on_char '|' e)) in
               emit_server e
             end
           | 'k' ->
             if deleted.(!cur) then emit_server ""     (* the request is only freed: nothing reaches the channel *)
             else begin
               let (e, _, _) = do_op c (complete_op rest) true in emit_server e
             end
           | _ -> failwith "bad server op")
        end else begin
          let o = match tok.[0] with
            | 'c' -> let b = held.(!cur) @ bytes_of_hex rest in held.(!cur) <- []; OpChunk (b, not jam.(!cur))
            | 'm' -> let (st, nm, rq) = call_of_code rest in OpCall (st, nm, rq, not jam.(!cur))
            | _ -> complete_op rest in
          let (e, _, _) = do_op chans.(!cur) o true in
          emit1 e
        end
      | _ -> failwith "bad token"
    end) toks;
  let fin (c : chan) = if c.r.dead then "dead" else if c.f.closed then "closed" else if int_of_n c.f.expected <> 0 then "midbody" else "open" in
  let hz = Array.fold_left (fun acc c -> if acc = "none" && c.hazard <> "" then c.hazard else acc)
             (if b.hazard <> "" then b.hazard else "none") chans in
  (* property-determined and independent of the regenerated constants: a header with a valid version
     announcing more than 1 MB is never accepted, so the channel is closed at the end of an X script *)
  if nserv > 0 then Buffer.add_string out (Printf.sprintf "end=+%d-%d;" nchan nchan);
  Buffer.add_string out "oversize_accepted=0;";
  Buffer.add_string out (Printf.sprintf "hazard=%s;class=%s:%s" hz !tag (fin a));
  Buffer.contents out

(* messages of about 1 MB are lists of a million elements and the extracted list functions are not
   tail recursive: run with a big stack (re-executes itself once under a raised limit) *)
let () =
  if Sys.getenv_opt "C09_BIGSTACK" = None && Array.length Sys.argv > 1 then begin
    let cmd = Printf.sprintf
        "ulimit -s unlimited 2>/dev/null || ulimit -s 4000000 2>/dev/null; C09_BIGSTACK=1 exec %s %s"
        (Filename.quote Sys.executable_name) (Filename.quote Sys.argv.(1)) in
    exit (Sys.command cmd)
  end else vh_run handle
