// C09 correspondence harness: a real ola::rpc::RpcChannel on one end of a socketpair, the harness on
// the other end writing raw bytes in the generated chunking and driving DescriptorReady()
// level-triggered (as the select server does).  ASan watches the message buffer.
#include <errno.h>
#include <fcntl.h>
#include <stdint.h>
#include <sys/socket.h>
#include <unistd.h>
#include <map>
#include <memory>
#include <sstream>
#include <string>
#include <vector>
#include "vh.h"

#define private public
#define protected public
#include "ola/util/SequenceNumber.h"
#include "common/rpc/RpcChannel.h"
#undef private
#undef protected
#include "common/rpc/Rpc.pb.h"
#include "common/rpc/RpcController.h"
#include "common/rpc/RpcSession.h"
#include "common/rpc/TestService.pb.h"
#include "common/rpc/TestServiceService.pb.h"
#include "ola/Callback.h"
#include "ola/ExportMap.h"
#include "ola/Logging.h"
#include "ola/io/Descriptor.h"

using ola::rpc::EchoReply;
using ola::rpc::EchoRequest;
using ola::rpc::RpcChannel;
using ola::rpc::RpcController;
using ola::rpc::RpcMessage;
using std::string;
using std::vector;

extern "C" size_t __sanitizer_get_allocated_size(const volatile void *p);

namespace {

struct Ctx {
  std::ostringstream done, svc;
  unsigned handler_runs;
  Ctx() : handler_runs(0) {}
};
Ctx *g_ctx = NULL;

// The service behind the channel: completes synchronously like TestServiceImpl.
class Service : public ola::rpc::TestService {
 public:
  void Echo(RpcController*, const EchoRequest *request, EchoReply *response, CompletionCallback *done) {
    g_ctx->svc << "|V" << vh::hex(string("Echo")) << ":" << vh::hex(request->SerializePartialAsString());
    response->set_data(request->data());
    done->Run();
  }
  void FailedEcho(RpcController *controller, const EchoRequest *request, EchoReply*,
                  CompletionCallback *done) {
    g_ctx->svc << "|V" << vh::hex(string("FailedEcho")) << ":" << vh::hex(request->SerializePartialAsString());
    controller->SetFailed("Error");
    done->Run();
  }
  void Stream(RpcController*, const EchoRequest *request, ola::rpc::STREAMING_NO_RESPONSE*,
              CompletionCallback *done) {
    g_ctx->svc << "|V" << vh::hex(string("Stream")) << ":" << vh::hex(request->SerializePartialAsString());
    if (done) done->Run();   // called through a plain REQUEST: reply with the empty message
  }
};

struct Call {
  RpcController controller;
  EchoReply reply;
  unsigned k;
};

void OnDone(Call *c) {
  g_ctx->done << "|D" << c->k << ":";
  if (c->controller.Failed())
    g_ctx->done << "F:" << vh::hex(c->controller.ErrorText());
  else
    g_ctx->done << "R:" << vh::hex(c->reply.SerializePartialAsString());
}

void OnChannelClose(ola::rpc::RpcSession*) { g_ctx->handler_runs++; }

// poller: while the descriptor is open and readable call DescriptorReady
void Drain(RpcChannel *channel, ola::io::UnixSocket *sock) {
  for (unsigned guard = 0; guard < 5000000; guard++) {
    if (!sock->ValidReadDescriptor()) return;
    int before = sock->DataRemaining();
    if (before <= 0) return;
    channel->DescriptorReady();
    if (sock->ValidReadDescriptor() && sock->DataRemaining() == before) return;  // no progress
  }
}

string Handle(const string &payload) {
  Ctx ctx;
  g_ctx = &ctx;
  ola::ExportMap export_map;
  Service service;
  ola::io::UnixSocket sock;
  if (!sock.Init()) return "harness-error=socketpair";
  ola::io::UnixSocket *peer = sock.OppositeEnd();
  std::auto_ptr<ola::io::UnixSocket> peer_holder(peer);
  int pfd = peer->ReadDescriptor();
  int cfd = sock.ReadDescriptor();
  std::vector<Call*> calls;
  string pending_out;   // bytes the channel sent that do not form a whole frame yet
  std::ostringstream out;
  bool jam = false;
  {
    RpcChannel channel(&service, &sock, &export_map);
    channel.SetChannelCloseHandler(ola::NewSingleCallback(&OnChannelClose));
    const google::protobuf::MethodDescriptor *echo =
        ola::rpc::TestService::descriptor()->FindMethodByName("Echo");
    EchoRequest request;
    request.set_data("x");
    unsigned idx = 0;
    vector<string> toks = vh::split(payload);
    for (size_t t = 0; t < toks.size(); t++) {
      const string &tok = toks[t];
      if (tok.empty()) continue;
      char c = tok[0];
      string rest = tok.substr(1);
      if (c == '@' || c == 'T' || c == 'Q') continue;
      if (c == 'z') {
        // fill the channel's send direction so that every later Send() fails; stop reading our end
        char junk[4096];
        memset(junk, 0, sizeof(junk));
        while (write(cfd, junk, sizeof(junk)) > 0) {}
        while (write(cfd, junk, 1) > 0) {}
        jam = true;
        continue;
      }
      if (c == 'q') {
        channel.m_sequence.m_sequence_number = static_cast<uint32_t>(vh::num(rest));
        continue;
      }
      if (c == 'c') {
        vector<uint8_t> bytes = vh::unhex(rest);
        size_t off = 0;
        while (off < bytes.size() && sock.ValidReadDescriptor()) {
          ssize_t w = write(pfd, bytes.data() + off, bytes.size() - off);
          if (w > 0) off += w;
          else if (w < 0 && errno != EAGAIN && errno != EINTR) break;
          int before = sock.ValidReadDescriptor() ? sock.DataRemaining() : 0;
          Drain(&channel, &sock);
          if (w <= 0 && sock.ValidReadDescriptor() && sock.DataRemaining() == before) break;  // stuck
        }
        Drain(&channel, &sock);
      } else if (c == 'm') {
        Call *call = new Call();
        call->k = calls.size();
        calls.push_back(call);
        channel.CallMethod(echo, &call->controller, &request, &call->reply,
                           ola::NewSingleCallback(&OnDone, call));
      } else {
        return "harness-error=token";
      }
      // what the channel wrote to us
      std::ostringstream sent;
      if (!jam) {
        char buf[65536];
        ssize_t n;
        while ((n = read(pfd, buf, sizeof(buf))) > 0) pending_out.append(buf, n);
        while (pending_out.size() >= 4) {
          uint32_t header;
          memcpy(&header, pending_out.data(), 4);
          unsigned size = header & 0x0fffffff;
          if (pending_out.size() < 4 + size) break;
          RpcMessage m;
          if (!m.ParseFromArray(pending_out.data() + 4, size)) {
            sent << "|Sunparsable";
          } else {
            sent << "|S" << m.type() << ":" << m.id() << ":" << vh::hex(m.name()) << ":" << vh::hex(m.buffer());
            if ((header >> 28) != 1) sent << "!version";
          }
          pending_out.erase(0, 4 + size);
        }
      }
      ola::UIntMap *types = export_map.GetUIntMapVar("rpc-received-type", "type");
      out << "o" << idx << "=x" << (sock.ValidReadDescriptor() ? 0 : 1) << (channel.m_descriptor ? 0 : 1)
          << "|rx" << export_map.GetCounterVar("rpc-received")->Get()
          << "/" << (*types)["request"] << "/" << (*types)["response"] << "/" << (*types)["cancelled"]
          << "/" << (*types)["failed"] << "/" << (*types)["not-implemented"] << "/" << (*types)["stream_request"]
          << ctx.done.str() << sent.str() << ctx.svc.str() << "|H" << ctx.handler_runs << ";";
      ctx.done.str("");
      ctx.svc.str("");
      out << "i" << idx << "=e" << channel.m_expected_size << "c" << channel.m_current_size
          << "b" << channel.m_buffer_size << "a"
          << (channel.m_buffer ? __sanitizer_get_allocated_size(channel.m_buffer) : 0) << ";";
      idx++;
    }
  }
  // Outstanding callbacks are never run by the channel's destructor; release them.
  for (size_t i = 0; i < calls.size(); i++) delete calls[i];
  out << "hazard=none";
  g_ctx = NULL;
  return out.str();
}
}  // namespace

int main(int argc, char **argv) {
  ola::InitLogging(ola::OLA_LOG_NONE, ola::OLA_LOG_NULL);
  return vh::run(argc, argv, Handle, 60);
}
